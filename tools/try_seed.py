#!/usr/bin/env python3
"""Confirm a seeded defect produced by a sub-agent and run our checks against it.

usage: try_seed.py <worktree> <out-dir-of-agent> <seed-id> <property> [check-property ...] [--tier quick] [--seeds 1,2]

Steps (all in the scratch worktree, never in /repo):
 1. demo fails with the patch, passes without it
 2. the repository's test-suite has the same failures as the baseline
 3. VERIF_REPO=<worktree> ./check <Cxx> <tier> for each listed property: records exit code and VIOLATION classes
 4. stores /verif/seeded/<seed-id>/ {patch.diff, demo files, meta.json}
"""
import json, os, subprocess, sys, shutil, re, time

ENV = dict(os.environ, GOFLAGS="-mod=mod", GOPROXY="off", GOSUMDB="off", GOTOOLCHAIN="local")
KNOWN_FAIL = {"TestTaprootScritps", "TestNewAddrFromString"}

def sh(cmd, cwd=None, timeout=3600, env=None):
    p = subprocess.run(cmd, shell=True, cwd=cwd, env=env or ENV, stdout=subprocess.PIPE, stderr=subprocess.STDOUT, timeout=timeout)
    return p.returncode, p.stdout.decode(errors="replace")

def suite_failures(wt):
    rc, out = sh("go test -vet=off -count=1 ./lib/... ./wallet/... ./client/... 2>&1", cwd=wt, timeout=1800)
    fails = set(re.findall(r"^--- FAIL: (\S+)", out, re.M))
    buildfail = set(re.findall(r"^FAIL\s+(\S+) \[build failed\]", out, re.M))
    return fails, buildfail, out

def main():
    args = [a for a in sys.argv[1:] if not a.startswith("--")]
    opts = dict(a[2:].split("=", 1) for a in sys.argv[1:] if a.startswith("--") and "=" in a)
    wt, outdir, sid, prop = args[0], args[1], args[2], args[3]
    checks = args[4:] or [prop]
    tier = opts.get("tier", "quick")
    seeds = [int(x) for x in opts.get("seeds", "1").split(",")]
    meta = json.load(open(os.path.join(outdir, "meta.json")))
    demo_cmd = meta["demo_cmd"]
    res = {"seed_id": sid, "property": prop, "agent_meta": meta}
    # the patch = diff of tracked files
    rc, patch = sh("git diff", cwd=wt)
    if not patch.strip():
        print("no source change in worktree"); sys.exit(2)
    open("/tmp/%s.patch" % sid, "w").write(patch)
    # 1. demo with patch
    rc1, o1 = sh(demo_cmd, cwd=wt, timeout=1800)
    res["demo_with_patch_rc"] = rc1
    violated1 = rc1 != 0 or "PROPERTY VIOLATED" in o1
    sh("git apply -R /tmp/%s.patch" % sid, cwd=wt)
    rc2, o2 = sh(demo_cmd, cwd=wt, timeout=1800)
    violated2 = rc2 != 0 or "PROPERTY VIOLATED" in o2
    base_f, base_b, _ = suite_failures(wt)
    sh("git apply /tmp/%s.patch" % sid, cwd=wt)
    res["demo_fails_with_patch"] = violated1
    res["demo_passes_without_patch"] = not violated2
    # 2. suite with patch
    f, b, out = suite_failures(wt)
    res["suite_new_failures"] = sorted((f - base_f) | (b - base_b))
    res["suite_same_as_baseline"] = (f == base_f and b == base_b)
    print("demo fails with patch:", violated1, "| passes without:", not violated2, "| suite same:", res["suite_same_as_baseline"], res["suite_new_failures"])
    # 3. our checks
    det = {}
    for c in checks:
        for sd in seeds:
            t0 = time.time()
            env = dict(ENV, VERIF_REPO=wt, VERIF_SEED=str(sd))
            rc, o = sh("./check %s %s" % (c, tier), cwd="/verif", timeout=7200, env=env)
            classes = sorted(set(re.findall(r"^\s+class=([^:]+):", o, re.M)))
            det["%s/%s/seed%d" % (c, tier, sd)] = {"exit": rc, "violation_classes": classes[:12], "wall_s": round(time.time() - t0, 1)}
            print(c, tier, "seed", sd, "exit", rc, classes[:6])
    res["our_checks"] = det
    shutil.rmtree("/verif/tmp/bin-trial/" + re.sub(r"[^A-Za-z0-9\n]", "_", wt), ignore_errors=True)
    res["detected"] = any(v["exit"] == 1 for v in det.values())
    # 4. store
    dst = "/verif/seeded/%s" % sid
    os.makedirs(dst, exist_ok=True)
    open(os.path.join(dst, "patch.diff"), "w").write(patch)
    for fn in os.listdir(outdir):
        if fn not in ("patch.diff", "meta.json"):
            src = os.path.join(outdir, fn)
            if os.path.isfile(src):
                shutil.copy(src, os.path.join(dst, fn))
    m = {"property": prop, "summary": meta.get("summary"), "needs": meta.get("needs"), "demo_cmd": demo_cmd,
         "confirmed_by_lead": {k: res[k] for k in ("demo_fails_with_patch", "demo_passes_without_patch", "suite_same_as_baseline", "suite_new_failures")},
         "ran": ["demo with and without patch in the scratch worktree", "go test -vet=off -count=1 ./lib/... ./wallet/... ./client/... with and without patch",
                 "VERIF_REPO=<worktree> ./check <property> " + tier],
         "our_checks": det, "detected": res["detected"]}
    json.dump(m, open(os.path.join(dst, "meta.json"), "w"), indent=1)
    print("stored", dst, "detected:", res["detected"])

if __name__ == "__main__":
    main()
