#!/usr/bin/env python3
"""Regression over all seeded defects: applies each seeded/<id>/patch.diff to a fresh scratch worktree of
/repo's HEAD and runs the property's quick check against it (serially, so binaries never mix).
Writes seeded/REGRESSION.json + prints one line per seed. Run from any checkout of /verif
(e.g. `vp run -- python3 tools/reseed_all.py`): it uses the checkout it lives in.

usage: reseed_all.py [seed-id ...]
"""
import json, os, re, subprocess, sys, time, glob

ROOT = os.path.dirname(os.path.dirname(os.path.abspath(__file__)))
ENV = dict(os.environ, GOFLAGS="-mod=mod", GOPROXY="off", GOSUMDB="off", GOTOOLCHAIN="local")

def sh(cmd, cwd=None, env=None, timeout=7200):
    p = subprocess.run(cmd, shell=True, cwd=cwd, env=env or ENV, stdout=subprocess.PIPE, stderr=subprocess.STDOUT, timeout=timeout)
    return p.returncode, p.stdout.decode(errors="replace")

def main():
    want = sys.argv[1:]
    res = {}
    for d in sorted(glob.glob(os.path.join(ROOT, "seeded", "*", ""))):
        sid = os.path.basename(d.rstrip("/"))
        if want and sid not in want:
            continue
        mf = os.path.join(d, "meta.json")
        if not os.path.exists(mf):
            continue
        meta = json.load(open(mf))
        prop = meta["property"]
        wt = "/tmp/reseed-%s-%d" % (sid, os.getpid())
        sh("git -C /repo worktree remove --force %s" % wt)
        rc, o = sh("git -C /repo worktree add -q %s HEAD" % wt)
        if rc != 0:
            res[sid] = {"error": "worktree: " + o[-300:]}
            continue
        try:
            rc, o = sh("git apply %s" % os.path.join(d, "patch.diff"), cwd=wt)
            if rc != 0:
                rc, o = sh("git apply --3way %s" % os.path.join(d, "patch.diff"), cwd=wt)
            if rc != 0:
                res[sid] = {"property": prop, "applies": False, "note": o[-300:]}
                print(sid, "patch no longer applies to HEAD")
                continue
            t0 = time.time()
            rc, o = sh("./check %s quick" % prop, cwd=ROOT, env=dict(ENV, VERIF_REPO=wt, VERIF_SEED="1"))
            classes = sorted(set(re.findall(r"^\s+class=([^:]+):", o, re.M)))
            res[sid] = {"property": prop, "applies": True, "exit": rc, "detected": rc == 1, "classes": classes[:8], "wall_s": round(time.time() - t0, 1)}
            if rc != 1:
                # a defect outside what the property's own check drives may be recorded as caught by other properties' checks
                for other in meta.get("also_detected_by", []):
                    rc2, o2 = sh("./check %s quick" % other, cwd=ROOT, env=dict(ENV, VERIF_REPO=wt, VERIF_SEED="1"))
                    if rc2 == 1:
                        res[sid]["detected"] = True
                        res[sid]["detected_by"] = other
                        res[sid]["classes"] = sorted(set(re.findall(r"^\s+class=([^:]+):", o2, re.M)))[:8]
                        rc = 1
                        break
            print(sid, prop, "exit", rc, "DETECTED" if rc == 1 else "MISSED", res[sid].get("detected_by", ""), res[sid]["classes"][:3], flush=True)
        finally:
            sh("git -C /repo worktree remove --force %s" % wt)
            sh("rm -rf %s/tmp/bin-trial/%s" % (ROOT, re.sub(r"[^A-Za-z0-9]", "_", wt)))
    json.dump(res, open(os.path.join(ROOT, "seeded", os.environ.get("RESEED_OUT", "REGRESSION.json")), "w"), indent=1)
    n = sum(1 for v in res.values() if v.get("detected"))
    print("%d/%d seeds detected" % (n, len(res)))

if __name__ == "__main__":
    main()
