#!/bin/bash
# mkseed.sh <seed-id> <prop> "<diversity hint>"
sid=$1; prop=$2; hint=$3
wt=/tmp/seed-$sid; out=/tmp/seed-$sid-out
git -C /repo worktree remove --force $wt 2>/dev/null; rm -rf $out; mkdir -p $out
git -C /repo worktree add -q --detach $wt HEAD || exit 1
python3 - "$sid" "$prop" "$hint" <<'PY'
import sys
sid,prop,hint=sys.argv[1:4]
t=open('/tmp/seed-prompt.txt').read()
p=open('/tmp/prop-%s.txt'%prop).read().strip()
if hint: p=p+"\n\n-----\n\nDiversity hint: "+hint
t=t.replace('__WT__','/tmp/seed-'+sid).replace('__OUT__','/tmp/seed-%s-out'%sid).replace('__PROP__',p).replace('__ID__',prop)
open('/tmp/seed-%s.prompt'%sid,'w').write(t)
PY
echo made $wt
