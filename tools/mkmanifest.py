#!/usr/bin/env python3
"""Regenerates /verif/MANIFEST.json from the table below and validates it against the schema."""
import json, os, sys

ROOT = "/verif"
BASELINE_OFF = ("cd /repo && export GOFLAGS=-mod=mod GOPROXY=off GOSUMDB=off GOTOOLCHAIN=local && "
                "go test -json -vet=off -count=1 -timeout 25m ./...")

# property -> (category, technique, level text, level note, design ref)
CHECKS = {}

def add(pid, cat, technique, text, note, ref):
    CHECKS[pid] = dict(cat=cat, technique=technique, text=text, note=note, ref=ref)

add("C20", "exploration",
    "shadow-registry runtime monitor + Go race detector + checkptr over stress workloads in child processes",
    "Held on the executions observed: millions of Malloc/Free/hand-over operations from 1..16 goroutines at GOMAXPROCS 1/2/4/16 "
    "plus defragmentation rounds, every live allocation pattern-, header-, disjointness- and count-checked at barriers, in a checkptr build and a -race build. "
    "Integration part: the real lib/chain + lib/utxo on top of the allocator (wired like client/common/config.go) over a history that pushes one size class above the defragmenter's 12 MB threshold: UTXO set = reference after every delivery and every defragmentation pass (records moved), relocation callback checked, live count = allocations the database holds.",
    "Trusts the monitor's registry (sharded per goroutine, merged at barriers). mmap'ed slot memory has no race-detector shadow; allocator metadata on the Go heap does.",
    "DESIGN.md §3 C20")

add("C04", "exploration",
    "differential runtime monitor: real chain code vs independent reference model (refchain) on generated single-rule violators and valid neighbours; tip + full UTXO dump compared after every delivery",
    "Held on the block histories observed: regtest-like chains (mainnet and testnet rule sets, plain and compressed UTXO records, early and late activation heights) grown block by block; at each height "
    "blocks violating exactly one connection rule (missing/duplicate/double-spent inputs, immature coinbase 99 vs 100, amount ranges, fee underflow, coinbase overclaim, sigop cost 80000 vs 80004, BIP68, failing script, BIP30; amounts incl. d x 10^e and k x 10 BTC spent to the last satoshi / one more) and their valid neighbours are offered; a refused block must leave tip and UTXO set unchanged.",
    "Oracle = /verif/ref/refchain (written from the consensus rules, no shared code). Script validity of generated inputs is ground truth by construction, cross-checked (all invalid ones, every third valid one) by the independent interpreter /verif/ref/refscript. UTXO dump is read through gocoin's own record decoder (tied by C10).",
    "DESIGN.md §3 C04")
add("C05", "exploration",
    "differential runtime monitor: real chain code vs independent reference model (refchain) on generated header/structure/commitment violators, valid neighbours, wall-clock-aligned two-hour-rule probe, truncated encodings",
    "Held on the block histories observed: for every header, structure and commitment rule of the property a block violating only that rule (and the valid neighbour across the boundary) is offered at many heights incl. all activation boundaries; tip and UTXO dump compared with the reference after every delivery; refused blocks must change nothing.",
    "Oracle = /verif/ref/refchain. The now+2h rule is probed with second-aligned deliveries and judged only when the clock did not tick during the call. Retarget arithmetic beyond the first epoch is covered by the C05 thorough tier only.",
    "DESIGN.md §3 C05")

add("C06", "exploration",
    "differential runtime monitor: random block trees delivered in random parent-first orders to the real node and to the reference fork-choice/UTXO model; tip + full UTXO dump compared after every delivery",
    "Held on the delivery histories observed: thousands of random block trees (forks from the tip and from below it, depth up to ~16, equal-work ties, branches invalid only at connect time at random positions with descendants, "
    "check-invalid blocks, children offered before parents, redeliveries, Idle/HurryUp between deliveries, plain/compressed records, mainnet/testnet rule sets); reference UTXO is recomputed by replay on every reorganisation. One configuration hands the blocks over header-first on a reused btc.Block object, as client/network + client/main do (PreCheckBlock, AcceptHeader, PostCheckBlock, CommitBlock), the others through CheckBlock + AcceptBlock.",
    "Oracle = /verif/ref/refchain (most cumulative work = sum 2^256/(target+1), first seen wins ties, invalid-at-connect branches excluded with descendants; work kept with 64 fractional bits because the simulated targets are far easier than any real one). Per-block work differs only in the testnet-work histories (behind one retarget: minimum-difficulty blocks carry 1/4 of a real block's work; random trees plus duels of a light against a heavy branch, shorter-but-heavier and longer-but-lighter both counted in the evidence); elsewhere all blocks carry the same difficulty.",
    "DESIGN.md §3 C06")

add("C07", "fault_enumeration",
    "crash-point enumeration: worker killed by SIGKILL at the n-th hit of build-tag hook points between file-system effects, fresh-process reopen (library and client-style), recovery oracle from the reference model; plus tail truncations of the block files",
    "Held on the crash points observed: for several generated workloads (extend with saves in flight / aborted, snapshot-then-reorganisation, heavier branch invalid at connect, data-file roll-over, slow and fast snapshot writer) "
    "the worker is killed at sampled (quick) or all (thorough) hits of ~28 hook points; each directory is reopened by a fresh process in library mode and in client-style mode; the reopened tip must be a block the node had connected before the crash, "
    "its UTXO dump must equal the reference replay of that block, and after feeding the remaining blocks tip and UTXO must equal the uninterrupted reference run; clean shutdown must restart to exactly the final state. "
    "Every third crash run holds the goroutine at its crash point for 250 ms before the kill so that concurrently running writers get further first; one recovery in three is itself killed at a second point; every recovery is followed by a clean shutdown and a second restart.",
    "Crash = process death with intact page cache. Crash points exist only where vhook.Point calls were placed (between every pair of file-system effects found by reading the code). Client-style reopen re-implements do_the_blocks/LocalAcceptBlock in the harness.",
    "DESIGN.md §3 C07")

add("C19", "fault_enumeration",
    "shadow-map runtime monitor over random operation histories (unique values) in journaling child workers + crash-point enumeration at build-tag hook points of sync/defrag/open/close with a per-key durability oracle",
    "Held on the histories and crash points observed: ~1000 (quick) random histories of put/del/get/browse/flags/sync/defrag/close/reopen over small key spaces compared with a Go map after every operation, and "
    "hundreds (quick) / all (thorough) (hook point, n) kills of a journaling worker followed by a fresh-process reopen (and a second kill during recovery); per key the reopened value must be the last synced one or a later written one.",
    "Crash = process death with intact page cache; histories are single-threaded (the package is used under one lock by its only client). Oracle = Go map + journal of acknowledged operations.",
    "DESIGN.md §3 C19")

add("C11", "exploration",
    "Go race detector (-race build, reports with a gocoin frame) + schedule perturbation (GOMAXPROCS 1/2/4/16, pseudo-random yields at hook points, snapshot-writer speeds) + schedule-independence oracle (reference model) + snapshot observer",
    "Held on the executions observed: histories with 100-400-input blocks (parallel hashing / script verification / UTXO workers all busy), a failing script among hundreds (early return with verifiers in flight), block trees with reorganisations, "
    "background saves that complete, are hurried or are aborted by the next commit/undo, Close racing a save, and 3 reader goroutines using UnspentGet/TxPresent/BlockGet concurrently; after every delivery verdict, tip and full UTXO dump equal the (schedule-free) reference; "
    "every UTXO.db that became visible under its final name was parsed and equals the reference UTXO set of the block in its header. "
    "Also: blocks touching > 32 multi-output records (parallel insert/delete workers on partially spent records) and slow-disk histories with a > 100-chunk UTXO set in which aborts reach the snapshot producer while it waits on its full chunk channel.",
    "The race detector sees only executed access pairs. UTXO records are Go-heap allocated in this harness (the mmap allocator has no shadow memory; it is covered by C20).",
    "DESIGN.md §3 C11")

add("C03", "exploration",
    "differential runtime monitor: library ECDSA / BIP340 / tweak predicates and signers vs an independent big.Int secp256k1 reference (refec) on valid triples, exhaustive single-bit mutations, range/encoding edge sets and algebraically crafted inputs",
    "Held on the inputs observed: ~33k judged (key, signature, message) triples per quick run in 14 generator families (valid, every single-bit mutation of some, r/s in {0,1,n-1,n,n+k,p,2^256-1}, 33-byte integers, compressed/uncompressed/hybrid keys, coordinates >= p, x without square root, off-curve points, "
    "forgeries built with the library's own arithmetic, BIP340 edge cases, taproot tweak cases) plus ~2k signer cases (RFC6979 and BIP340 outputs equal the reference, random-nonce signatures verify, low-S, canonical DER, recovery returns the key).",
    "Oracle = /verif/ref/refec, calibrated on the BIP340 CSV vectors, RFC6979 vectors and known multiples of G at start-up. Signature bytes are read with the independent lax DER parser of ref/refscript (the property is about r, s and the equation; encoding strictness is C01's).",
    "DESIGN.md §3 C03")
add("C08", "exploration",
    "differential runtime monitor: field operation sequences with tracked magnitudes, group operations and scalar multiplications vs big.Int reference, on amd64 (5x52) and GOARCH=386 (10x26); exhaustive check of all precomputed table entries",
    "Held on the operations observed: hundreds of thousands of contract-respecting field-operation sequences with raw-limb edge values on both field representations, tens of thousands of group operations incl. identity / P+P / P+(-P) / non-normalised operands, "
    "scalar multiplication entry points on edge scalars and a 160k consecutive-key sweep; every entry of pre_g, pre_g_128, prec and fin equals the multiple of G it stands for (exhaustive: true).",
    "Oracle = /verif/ref/refec (big.Int). Raw limbs and tables are reached through lib/secp256k1/export_verif.go (build tag verif). The 10x26 magnitude contract is taken as limbs <= m*(2^26-1).",
    "DESIGN.md §3 C08")

add("C17", "exploration",
    "invariant recomputation at quiescent points: the client's balance index, wired as client/wallet/onoff.go does, is compared with the projection of the reference UTXO set for every address after every block delivery / reorganisation step / index (re)build",
    "Held on the histories observed: block histories with connects, disconnects and reorganisations paying to and spending from a small pool of P2PKH, P2SH, P2WPKH, P2WSH (and receive-only P2TR) addresses plus non-indexed scripts; addresses with 0/1/few/many outputs with UseMapCnt=4 (list->map switch), "
    "several outputs of one transaction to one address, values at MinValue-1/MinValue/MinValue+1, index built from empty and from populated sets, Disable/re-enable in between, MinValue changed at run time, restarts with the index kept on disk (SaveBalances/LoadBalances, also with a stale dump); GetAllUnspent (set incl. height and coinbase flag, and sum) and the Browse (count,value) totals equal the projection.",
    "The projection comes from the reference UTXO set, which the same run ties to the node's UTXO dump after every delivery. Addresses colliding in 32 bits of the 64-bit index key are exercised, full 64-bit collisions are not. A restart is simulated in-process (index emptied, nothing remembered, configuration applied) rather than by a new process.",
    "DESIGN.md §3 C17")

add("C14", "exploration",
    "differential runtime monitor: library HD / BIP39 / key codec functions and the real wallet binary (built from the tree, run in throw-away directories) vs independent BIP32/BIP39/secp256k1/address reference models; determinism by running twice",
    "Held on the cases observed: tens of thousands of library-level derivations (CKDpriv/CKDpub, xpub children equal public counterparts, serialisation round trips, BIP39 entropy<->mnemonic and seeds, DeriveNext) and ~160 wallet scenarios / ~900 wallet runs per quick run "
    "(types 3/4, hd paths with hardened mixes, hdsubs, bip39 word counts and user mnemonics, scrypt, address types, testnet) where every listed address, dumped key, xpub child, xprv and mnemonic equals the reference derivation, re-imports to the same key, and two runs list the same keys.",
    "Oracle = /verif/ref/refhd + refaddr (own secp256k1, calibrated on BIP32 vectors 1-5, Trezor BIP39 vectors, RFC 6070/7914, pinned wallet test addresses). Interactive prompts are not driven; NFKD is modelled for a few code points only.",
    "DESIGN.md §3 C14")
add("C15", "exploration",
    "differential runtime monitor: address / WIF / bech32 codecs vs an independent reference (refaddr) on exhaustive version x length grids, mutated valid strings (<=4 substitutions, insertions, deletions, case flips, wrong checksum variant, padding) and arbitrary short strings; coding-theory oracle for <=4 substitutions",
    "Held on the strings observed: ~1.6M address strings, 120k <=4-substitution cases (always refused), 150k WIF strings and 110k raw bech32 decodes per quick run: accept/refuse verdicts, decoded scripts and re-encodings equal the reference in both directions.",
    "Oracle = /verif/ref/refaddr calibrated on the BIP173/BIP350 vector lists, base58_encode_decode.json and the repo's WIF/address vectors. Base58 versions gocoin maps to no script are only checked for not being mapped to P2PKH/P2SH.",
    "DESIGN.md §3 C15")

add("C02", "exploration",
    "differential runtime monitor: legacy / BIP143 / BIP341-342 digests of the library vs an independent reference (refsighash), sequential and concurrent (-race) cache schedules on one Tx object and on three at once, end-to-end spends (also from six goroutines at once under -race) signed by an independent signer, forged signatures over 'no digest' cases",
    "Held on the cases observed: ~60k single digests over random transactions, indices (incl. SIGHASH_SINGLE out of range), hash types 0..255 / 32-bit, script codes with code separators, embedded signatures and malformed tails, annex/leaf/codesep positions; "
    "1000 permuted 50-request schedules (200 of them from 8 goroutines in a -race build) all equal to the cache-free reference; ~2.9k end-to-end spends; ~470 forgeries over undefined taproot digests all rejected.",
    "Oracle = /verif/ref/refsighash calibrated on sighash.json (500), tx_valid.json digests and published signatures, BIP341 wallet vectors (key path); taproot script path/annex are calibrated by hand-derived checks only.",
    "DESIGN.md §3 C02")
add("C09", "exploration",
    "differential runtime monitor: transaction/block decoders vs an independent Core-exact codec (reftx) on valid encodings, every truncation, single-byte mutations, all CompactSize forms at every position, huge counts, marker/flag grid, trailing bytes; journaling child workers under an address-space limit with allocation and hang watchdogs",
    "Held on the inputs observed: ~270k decodes per quick run (240k distinct): accept/refuse verdicts equal the reference, and on everything both accept, consumed length, re-encoding, txid, wtxid, size, weight, vsize, block weight, Merkle root and mutation flag agree; "
    "no worker death, no allocation above 64*len+1MiB, no call exceeding the step watchdog. Every 4th batch is decoded again by a GOARCH=386 worker (classes @386).",
    "Oracle = /verif/ref/reftx calibrated on tx_valid/tx_invalid.json and the genesis block. Hang = 3 s per-case watchdog reproduced 3/3 with the same outermost frame, otherwise inconclusive. Inputs above 32 MiB (MAX_SIZE) are not generated.",
    "DESIGN.md §3 C09")

add("C10", "exploration",
    "round-trip runtime monitor with generated records as ground truth: both record formats, every decoder path, single-output lookup vs whole decode, exhaustive/random amount compressor checks, snapshots written by one process and reloaded by a fresh one",
    "Held on the cases observed: ~120k records per quick run (1..30001 outputs, sparse survivors, script lengths at CompactSize boundaries and the compressed-length escape, 74 script families incl. P2PKH/P2SH/P2PK look-alikes, off-curve and non-canonical keys, heights/vouts at boundaries) round-tripped in both formats through all decoder entry points, "
    "4.8M single-output lookups, amount compressor exhaustive below 2^24 plus 10^7 random and all k*10^j+-1, and ~40 snapshot scenarios (plain, compressed, converted, Idle-then-Close, aborted save, UTXO.old fallback) reopened in fresh processes.",
    "Oracle = deep equality with the generated record (no reference codec needed). Snapshot scenarios that depend on a background save are judged only when its completion on disk was observed, otherwise counted inconclusive.",
    "DESIGN.md §3 C10")

add("C16", "exploration",
    "shadow-model runtime monitor of the block store (random add/get/length/trusted/invalid/idle/close/reopen histories, independent re-parse of the index file, data extents decoded by a reference snappy decoder) in asm, noasm, GOARCH=386 and -race builds with reader goroutines; snappy alone between guard pages and canaries",
    "Held on the histories observed: ~325 histories per quick run over 130+ option combinations (compression, cache size, data-file roll-over, files kept, backup) with blocks of 81 B..4 MiB in nine content families; every BlockGet result, length, trusted flag, restart walk and index record equals the shadow model, "
    "appending after a restart changes no earlier record; millions of concurrent reader gets in the race build without a race report; ~80k snappy round trips / hand-built / corrupted streams without disagreement with the reference decoder or any access outside the buffers.",
    "Oracle = shadow map + own parser of blockchain.new + /verif/ref/snappyref. Blocks in removed data files are 'may be absent'. Crash consistency of the store belongs to C07.",
    "DESIGN.md §3 C16")

add("C01", "exploration",
    "differential runtime monitor: script.VerifyTxScript vs an independent port of Bitcoin Core's interpreter (refscript) on template spends signed by an independent signer, single-rule mutations, stack-aware random opcode programs and flag sets closed under Core's dependencies; journaling child workers; -race replay from 8 goroutines sharing one Tx",
    "Held on the cases observed: ~15k spends / ~63k (spend, flag set) evaluations per quick run (3.1M in thorough): verdicts agree on P2PK/P2PKH/multisig/P2SH/P2WPKH/P2WSH/nested/P2TR key and script path spends and their mutations, on opcode soup at the stack/op/element/script limits, CLTV/CSV grids, OP_SUCCESS, annex, leaf versions, tapscript sigop budget; "
    "all 54 reference error codes and 175+ opcodes were reached; no crash, no race report. Every second case is evaluated again by a GOARCH=386 build of the interpreter (classes @386).",
    "Oracle = /verif/ref/refscript calibrated on script_tests.json (1204 incl. error names), tx_valid/tx_invalid.json and hand-derived taproot cases (no official BIP341 script vectors are available offline). Known deviations are named by re-running the reference with one modelled deviation; that is used for naming only, never for the verdict.",
    "DESIGN.md §3 C01")
add("C13", "exploration",
    "runtime monitor of the real wallet binary (built from the tree) in throw-away directories: decoded output files judged by independent reference packages (reftx, refaddr, refsighash, refec, refscript) for inputs, payments, change, fee, signatures, refusal on insufficient funds and -raw field identity",
    "Held on the runs observed: ~515 wallet runs / ~350 distinct transactions / ~1700 verified inputs per quick run over 16 wallet configurations (type 3/4 x p2kh/segwit/bech32/tap x test/mainnet), -send/-batch with all destination types, amounts from 1 satoshi to the full balance and beyond, -f, -change, -msg (75/76/255/256 bytes), -seq, -locktime, -txver, -useallinputs, -rfc6979 (signatures equal the RFC6979 reference), minsig, chained sends on the updated balance and ~110 -raw comparisons.",
    "Oracle imports no gocoin package. Change rule judged: change returns to the script of the output spent by input 0 unless -change is given. Interactive prompts, multisig flows and litecoin mode are not driven.",
    "DESIGN.md §3 C13")

add("C12", "exploration",
    "invariant recomputation at quiescent points: txpool wired to a regtest-like chain exactly as client/main.go does, driven by random histories (network/local/trusted submissions, chains, diamonds, orphans, RBF, mined and undone blocks, reorganisations, expiry, eviction, save/reload); an independent walker recomputes every pool invariant after every step; a block built from the listing must be accepted",
    "Held on the histories observed: 40 histories x 150 steps per quick run (~22k walks, ~4k full walks with both fee-ordered listings and a dry-run block, ~6k blocks delivered, ~130 reorganisations, ~110 reloads): no two pooled transactions spend the same outpoint, every input is confirmed-unspent or pooled, nothing pooled is confirmed or conflicts with the chain, "
    "recorded fee/size/weight equal the reference values, the spent-output and in-pool-parent indexes equal their recomputation, listings put parents before children and list exactly the pool, a block assembled from the listing is accepted by the node; no panic, os.Exit or non-returning call inside txpool (bounded by retry counters, not by the clock).",
    "Oracle = the walker in mon/c12/walk.go over the exported maps + the node's UTXO dump + /verif/ref/reftx; txpool.MempoolCheck() is reported as auxiliary evidence only. Replays are not bit-exact because map iteration order inside txpool varies.",
    "DESIGN.md §3 C12")

add("C18", "exploration",
    "hostile-input runtime monitor: the real dispatch loop OneConnection.Run() is driven over scripted in-memory connections (framed messages for every command, truncations, count/length disagreements, size limits, random bytes, sequences before/after the handshake) in journaling child workers; panic / recover-banner, lock-leak (TryLock on every node mutex), hang watchdog and library-parser monitors; benign-conversation self-test before every batch",
    "Held on the conversations observed: ~6500 scripted connections / ~19k dispatched messages / 80k library parser calls per quick run over all commands of the property: no handler panicked (caught by Run's recover or not), no mutex was left locked after Run returned, no handler or parser exceeded its step watchdog (3/3 reproducible with the same frame = violation, else inconclusive), no worker died; "
    "witnesses of the 12 repaired findings are replayed in every run. A GOARCH=386 library-only worker (the client does not compile for 32-bit targets) feeds scripts / transactions / keys / addresses with lengths around 2^31 and 2^32 to the same parsers (classes @386).",
    "The harness initialises what client/main.go initialises before accepting connections; NetBlocks elements are dropped (the main loop is not part of this property), NetTxs go through the real HandleNetTx. Time-driven paths (ping interval, header/block timeouts) are not reached.",
    "DESIGN.md §3 C18")

NOT_BUILT = {}

def main():
    props = [json.loads(l) for l in open(os.path.join(ROOT, "properties.jsonl"))]
    na_file = os.path.join(ROOT, "tools", "not_applicable.json")
    na = json.load(open(na_file)) if os.path.exists(na_file) else {}
    checks = []
    not_app = []
    for p in props:
        pid = p["id"]
        if pid in CHECKS:
            c = CHECKS[pid]
            checks.append({
                "property_id": pid,
                "quick_cmd": f"./check {pid} quick",
                "thorough_cmd": f"./check {pid} thorough",
                "evidence_file": f"/verif/evidence/{pid}.json",
                "replay_cmd_template": f"./check {pid} quick --replay {{path}}",
                "engine": "vlib-monitors",
                "level_claimed": {"category": c["cat"], "text": c["text"], "design_ref": c["ref"]},
                "level_note": c["note"],
                "technique": c["technique"],
            })
        else:
            not_app.append({"property_id": pid, "reason": na.get(pid, "monitor not built yet in this round (runtime monitoring is applicable; see DESIGN.md §3)")})
    hooks_file = os.path.join(ROOT, "tools", "hook_commits.txt")
    commits = [l.strip() for l in open(hooks_file)] if os.path.exists(hooks_file) else []
    m = {
        "version": 1,
        "setup_cmd": "cd /verif && ./setup.sh",
        "hooks": {
            "guard": "verif",
            "enable": "go build -tags verif (the ./check driver passes it to every build; hook files carry //go:build verif: *_verif.go, lib/others/vhook/hook_on.go, client/wallet/verif_hooks.go)",
            "baseline_off_cmd": BASELINE_OFF,
            "source_commits": commits,
            "add_only": True,
        },
        "engines": [{
            "name": "vlib-monitors", "path": "/verif/mon, /verif/lib, /verif/ref",
            "serves_properties": sorted(CHECKS.keys()),
            "kind_free_text": "Go harnesses that drive the real gocoin code (module replace => /repo) under hostile/stress workloads; oracles = independent reference models, shadow models, invariant walkers; Go race detector, checkptr; child-process isolation; crash-point injection via build-tag hooks",
        }],
        "checks": checks,
        "not_applicable": not_app,
        "notes": "All checks: exit 0 held on what was observed, 1 + VIOLATION line, 2 = broken/nothing observed (no VIOLATION line). Seeds via VERIF_SEED. Known findings in /verif/known_findings.json.",
    }
    json.dump(m, open(os.path.join(ROOT, "MANIFEST.json"), "w"), indent=1)
    try:
        import jsonschema
        jsonschema.validate(m, json.load(open("/root/.vp/MANIFEST.schema.json")))
        print("MANIFEST.json valid;", len(checks), "checks,", len(not_app), "not claimed")
    except ImportError:
        print("jsonschema not available; written without validation")

if __name__ == "__main__":
    main()
