#!/usr/bin/env python3
"""Regenerates /verif/MANIFEST.json from the table below and validates it against the schema."""
import json, os, sys

ROOT = "/verif"
BASELINE_OFF = ("cd /repo && export GOFLAGS=-mod=mod GOPROXY=off GOSUMDB=off GOTOOLCHAIN=local && "
                "go test -json -vet=off -count=1 -timeout 25m ./...")

# property -> (category, technique, level text, level note, design ref)
CHECKS = {}

def add(pid, cat, technique, text, note, ref):
    CHECKS[pid] = dict(cat=cat, technique=technique, text=text, note=note, ref=ref)

add("C20", "exploration",
    "shadow-registry runtime monitor + Go race detector + checkptr over stress workloads in child processes",
    "Held on the executions observed: millions of Malloc/Free/hand-over operations from 1..16 goroutines at GOMAXPROCS 1/2/4/16 "
    "plus defragmentation rounds, every live allocation pattern-, header-, disjointness- and count-checked at barriers, in a checkptr build and a -race build.",
    "Trusts the monitor's registry (sharded per goroutine, merged at barriers). mmap'ed slot memory has no race-detector shadow; allocator metadata on the Go heap does.",
    "DESIGN.md §3 C20")

NOT_BUILT = {}

def main():
    props = [json.loads(l) for l in open(os.path.join(ROOT, "properties.jsonl"))]
    na_file = os.path.join(ROOT, "tools", "not_applicable.json")
    na = json.load(open(na_file)) if os.path.exists(na_file) else {}
    checks = []
    not_app = []
    for p in props:
        pid = p["id"]
        if pid in CHECKS:
            c = CHECKS[pid]
            checks.append({
                "property_id": pid,
                "quick_cmd": f"./check {pid} quick",
                "thorough_cmd": f"./check {pid} thorough",
                "evidence_file": f"/verif/evidence/{pid}.json",
                "replay_cmd_template": f"./check {pid} quick --replay {{path}}",
                "engine": "vlib-monitors",
                "level_claimed": {"category": c["cat"], "text": c["text"], "design_ref": c["ref"]},
                "level_note": c["note"],
                "technique": c["technique"],
            })
        else:
            not_app.append({"property_id": pid, "reason": na.get(pid, "monitor not built yet in this round (runtime monitoring is applicable; see DESIGN.md §3)")})
    hooks_file = os.path.join(ROOT, "tools", "hook_commits.txt")
    commits = [l.strip() for l in open(hooks_file)] if os.path.exists(hooks_file) else []
    m = {
        "version": 1,
        "setup_cmd": "cd /verif && ./setup.sh",
        "hooks": {
            "guard": "verif",
            "enable": "go build -tags verif (the ./check driver passes it to every build; hook files are *_verif.go with //go:build verif)",
            "baseline_off_cmd": BASELINE_OFF,
            "source_commits": commits,
            "add_only": True,
        },
        "engines": [{
            "name": "vlib-monitors", "path": "/verif/mon, /verif/lib, /verif/ref",
            "serves_properties": sorted(CHECKS.keys()),
            "kind_free_text": "Go harnesses that drive the real gocoin code (module replace => /repo) under hostile/stress workloads; oracles = independent reference models, shadow models, invariant walkers; Go race detector, checkptr; child-process isolation; crash-point injection via build-tag hooks",
        }],
        "checks": checks,
        "not_applicable": not_app,
        "notes": "All checks: exit 0 held on what was observed, 1 + VIOLATION line, 2 = broken/nothing observed (no VIOLATION line). Seeds via VERIF_SEED. Known findings in /verif/known_findings.json.",
    }
    json.dump(m, open(os.path.join(ROOT, "MANIFEST.json"), "w"), indent=1)
    try:
        import jsonschema
        jsonschema.validate(m, json.load(open("/root/.vp/MANIFEST.schema.json")))
        print("MANIFEST.json valid;", len(checks), "checks,", len(not_app), "not claimed")
    except ImportError:
        print("jsonschema not available; written without validation")

if __name__ == "__main__":
    main()
