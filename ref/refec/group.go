package refec

import "math/big"

// Point is an affine point of y^2 = x^3 + 7 over F_p, or the identity (Inf).
type Point struct {
	X, Y *big.Int
	Inf  bool
}

func Infinity() Point { return Point{Inf: true} }
func G() Point        { return Point{X: new(big.Int).Set(Gx), Y: new(big.Int).Set(Gy)} }

func NewPoint(x, y *big.Int) Point { return Point{X: new(big.Int).Set(x), Y: new(big.Int).Set(y)} }

// IsOnCurve: coordinates in [0,p) and y^2 = x^3 + 7. The identity is not "on the curve" here
// (it has no encoding).
func (p Point) IsOnCurve() bool {
	if p.Inf {
		return false
	}
	if p.X.Sign() < 0 || p.X.Cmp(P) >= 0 || p.Y.Sign() < 0 || p.Y.Cmp(P) >= 0 {
		return false
	}
	return FSqr(p.Y).Cmp(FAdd(FMul(FSqr(p.X), p.X), B)) == 0
}

func (p Point) Equal(q Point) bool {
	if p.Inf || q.Inf {
		return p.Inf == q.Inf
	}
	return p.X.Cmp(q.X) == 0 && p.Y.Cmp(q.Y) == 0
}

func (p Point) Neg() Point {
	if p.Inf {
		return p
	}
	return Point{X: new(big.Int).Set(p.X), Y: FNeg(p.Y)}
}

// Add implements the affine chord-and-tangent law with all special cases.
func Add(p, q Point) Point {
	if p.Inf {
		return q
	}
	if q.Inf {
		return p
	}
	if p.X.Cmp(q.X) == 0 {
		if p.Y.Cmp(q.Y) != 0 || p.Y.Sign() == 0 {
			return Infinity() // P + (-P), or doubling a point of order 2 (none exist on secp256k1)
		}
		return Double(p)
	}
	// lambda = (y2-y1)/(x2-x1)
	l := FMul(FSub(q.Y, p.Y), FInv(FSub(q.X, p.X)))
	x3 := FSub(FSub(FSqr(l), p.X), q.X)
	y3 := FSub(FMul(l, FSub(p.X, x3)), p.Y)
	return Point{X: x3, Y: y3}
}

func Double(p Point) Point {
	if p.Inf || p.Y.Sign() == 0 {
		return Infinity()
	}
	// lambda = 3x^2 / 2y   (a = 0)
	l := FMul(FMulInt(FSqr(p.X), 3), FInv(FMulInt(p.Y, 2)))
	x3 := FSub(FSqr(l), FMulInt(p.X, 2))
	y3 := FSub(FMul(l, FSub(p.X, x3)), p.Y)
	return Point{X: x3, Y: y3}
}

// ScalarMult computes k*P by plain left-to-right double-and-add in affine coordinates.
// k may be any non-negative integer (no reduction is assumed; the group law takes care of it).
func ScalarMult(k *big.Int, p Point) Point {
	if k.Sign() < 0 {
		return ScalarMult(new(big.Int).Neg(k), p.Neg())
	}
	r := Infinity()
	for i := k.BitLen() - 1; i >= 0; i-- {
		r = Double(r)
		if k.Bit(i) == 1 {
			r = Add(r, p)
		}
	}
	return r
}

// --------------------------------------------------------------------------------------------
// Jacobian coordinates (X/Z^2, Y/Z^3), written from the textbook formulas (a = 0), used as a
// second, structurally different implementation: calibration cross-checks it against the affine law,
// and the monitors use the fast path for bulk work.

type JPoint struct {
	X, Y, Z *big.Int
	Inf     bool
}

func JInfinity() JPoint { return JPoint{Inf: true} }

// ToJacobian returns (x z^2, y z^3, z); z must be non-zero mod p.
func (p Point) ToJacobian(z *big.Int) JPoint {
	if p.Inf {
		return JInfinity()
	}
	z2 := FSqr(z)
	return JPoint{X: FMul(p.X, z2), Y: FMul(p.Y, FMul(z2, z)), Z: FRed(z)}
}

func (j JPoint) ToAffine() Point {
	if j.Inf || FRed(j.Z).Sign() == 0 {
		return Infinity()
	}
	zi := FInv(j.Z)
	zi2 := FSqr(zi)
	return Point{X: FMul(j.X, zi2), Y: FMul(j.Y, FMul(zi2, zi))}
}

func JDouble(p JPoint) JPoint {
	if p.Inf || FRed(p.Y).Sign() == 0 {
		return JInfinity()
	}
	// S = 4 X Y^2 ; M = 3 X^2 ; X' = M^2 - 2S ; Y' = M (S - X') - 8 Y^4 ; Z' = 2 Y Z
	y2 := FSqr(p.Y)
	s := FMulInt(FMul(p.X, y2), 4)
	m := FMulInt(FSqr(p.X), 3)
	x3 := FSub(FSqr(m), FMulInt(s, 2))
	y3 := FSub(FMul(m, FSub(s, x3)), FMulInt(FSqr(y2), 8))
	z3 := FMulInt(FMul(p.Y, p.Z), 2)
	return JPoint{X: x3, Y: y3, Z: z3}
}

func JAdd(p, q JPoint) JPoint {
	if p.Inf {
		return q
	}
	if q.Inf {
		return p
	}
	z1z1 := FSqr(p.Z)
	z2z2 := FSqr(q.Z)
	u1 := FMul(p.X, z2z2)
	u2 := FMul(q.X, z1z1)
	s1 := FMul(p.Y, FMul(z2z2, q.Z))
	s2 := FMul(q.Y, FMul(z1z1, p.Z))
	if u1.Cmp(u2) == 0 {
		if s1.Cmp(s2) != 0 {
			return JInfinity()
		}
		return JDouble(p)
	}
	h := FSub(u2, u1)
	r := FSub(s2, s1)
	h2 := FSqr(h)
	h3 := FMul(h2, h)
	u1h2 := FMul(u1, h2)
	x3 := FSub(FSub(FSqr(r), h3), FMulInt(u1h2, 2))
	y3 := FSub(FMul(r, FSub(u1h2, x3)), FMul(s1, h3))
	z3 := FMul(h, FMul(p.Z, q.Z))
	return JPoint{X: x3, Y: y3, Z: z3}
}

// ScalarMultJ is double-and-add in Jacobian coordinates with one final inversion.
func ScalarMultJ(k *big.Int, p Point) Point {
	if k.Sign() < 0 {
		return ScalarMultJ(new(big.Int).Neg(k), p.Neg())
	}
	if p.Inf {
		return p
	}
	pj := p.ToJacobian(one)
	r := JInfinity()
	for i := k.BitLen() - 1; i >= 0; i-- {
		r = JDouble(r)
		if k.Bit(i) == 1 {
			r = JAdd(r, pj)
		}
	}
	return r.ToAffine()
}

func ScalarBaseMult(k *big.Int) Point { return ScalarMultJ(k, G()) }

// MulAdd returns a*P + b*G.
func MulAdd(a *big.Int, p Point, b *big.Int) Point {
	return Add(ScalarMultJ(a, p), ScalarBaseMult(b))
}

// LiftX implements BIP340 lift_x: the point with that x and even y; fails when x >= p or when
// x^3+7 is not a square.
func LiftX(x *big.Int) (Point, bool) {
	if x.Sign() < 0 || x.Cmp(P) >= 0 {
		return Point{}, false
	}
	c := FAdd(FMul(FSqr(x), x), B)
	y, ok := FSqrt(c)
	if !ok {
		return Point{}, false
	}
	if y.Bit(0) == 1 {
		y = FNeg(y)
	}
	return Point{X: new(big.Int).Set(x), Y: y}, true
}

// Decompress returns the point with the given x (< p required) and y parity.
func Decompress(x *big.Int, odd bool) (Point, bool) {
	pt, ok := LiftX(x)
	if !ok {
		return pt, false
	}
	if odd {
		pt = pt.Neg()
	}
	return pt, true
}
