package refec

import (
	"crypto/sha256"
	"errors"
	"math/big"
)

// TaggedHash: BIP340 tagged hash SHA256(SHA256(tag) || SHA256(tag) || data...).
func TaggedHash(tag string, data ...[]byte) []byte {
	th := sha256.Sum256([]byte(tag))
	h := sha256.New()
	h.Write(th[:])
	h.Write(th[:])
	for _, d := range data {
		h.Write(d)
	}
	return h.Sum(nil)
}

// SchnorrVerify is BIP340 Verify(pk, m, sig) for 32-byte pk, 64-byte sig (m: any length; BIP340's
// default signing uses 32 bytes). reason is "" on success.
func SchnorrVerify(pk32, msg, sig64 []byte) (bool, string) {
	if len(pk32) != 32 || len(sig64) != 64 {
		return false, "length"
	}
	Pp, ok := LiftX(FromBytes(pk32))
	if !ok {
		if FromBytes(pk32).Cmp(P) >= 0 {
			return false, "pk>=p"
		}
		return false, "pk-not-liftable"
	}
	r := FromBytes(sig64[:32])
	if r.Cmp(P) >= 0 {
		return false, "r>=p"
	}
	s := FromBytes(sig64[32:])
	if s.Cmp(N) >= 0 {
		return false, "s>=n"
	}
	e := new(big.Int).Mod(FromBytes(TaggedHash("BIP0340/challenge", sig64[:32], pk32, msg)), N)
	R := MulAdd(new(big.Int).Sub(N, e), Pp, s)
	if R.Inf {
		return false, "R=infinity"
	}
	if R.Y.Bit(0) == 1 {
		return false, "R-odd-y"
	}
	if R.X.Cmp(r) != 0 {
		return false, "equation"
	}
	return true, ""
}

// SchnorrSign is BIP340 default signing with 32-byte auxiliary randomness.
func SchnorrSign(sk32, msg, aux32 []byte) ([]byte, error) {
	if len(sk32) != 32 || len(aux32) != 32 {
		return nil, errors.New("length")
	}
	d0 := FromBytes(sk32)
	if d0.Sign() == 0 || d0.Cmp(N) >= 0 {
		return nil, errors.New("secret key out of range")
	}
	Pp := ScalarBaseMult(d0)
	d := d0
	if Pp.Y.Bit(0) == 1 {
		d = new(big.Int).Sub(N, d0)
	}
	t := Bytes32(d)
	ah := TaggedHash("BIP0340/aux", aux32)
	for i := range t {
		t[i] ^= ah[i]
	}
	px := Bytes32(Pp.X)
	k0 := new(big.Int).Mod(FromBytes(TaggedHash("BIP0340/nonce", t, px, msg)), N)
	if k0.Sign() == 0 {
		return nil, errors.New("nonce is zero")
	}
	R := ScalarBaseMult(k0)
	k := k0
	if R.Y.Bit(0) == 1 {
		k = new(big.Int).Sub(N, k0)
	}
	rx := Bytes32(R.X)
	e := new(big.Int).Mod(FromBytes(TaggedHash("BIP0340/challenge", rx, px, msg)), N)
	s := new(big.Int).Mul(e, d)
	s.Add(s, k)
	s.Mod(s, N)
	sig := append(rx, Bytes32(s)...)
	if ok, why := SchnorrVerify(px, msg, sig); !ok {
		return nil, errors.New("self-verification failed: " + why)
	}
	return sig, nil
}

// XOnlyPubKey returns bytes(d*G) for a secret key (BIP340 PubKey).
func XOnlyPubKey(sk32 []byte) ([]byte, bool) {
	d := FromBytes(sk32)
	if d.Sign() == 0 || d.Cmp(N) >= 0 {
		return nil, false
	}
	return Bytes32(ScalarBaseMult(d).X), true
}

// --------------------------------------------------------------------------------------------
// BIP341

// TapTweakHash = tagged_hash("TapTweak", p || merkle_root) (merkle_root may be empty).
func TapTweakHash(p32, merkleRoot []byte) []byte {
	return TaggedHash("TapTweak", p32, merkleRoot)
}

// TaprootOutputKey computes Q = lift_x(p) + t*G; ok=false with a reason when BIP341 says fail.
func TaprootOutputKey(p32, t32 []byte) (q Point, reason string) {
	if len(p32) != 32 || len(t32) != 32 {
		return q, "length"
	}
	t := FromBytes(t32)
	if t.Cmp(N) >= 0 {
		return q, "t>=n"
	}
	px := FromBytes(p32)
	Pp, ok := LiftX(px)
	if !ok {
		if px.Cmp(P) >= 0 {
			return q, "internal>=p"
		}
		return q, "internal-not-liftable"
	}
	Q := Add(Pp, ScalarBaseMult(t))
	if Q.Inf {
		return q, "Q=infinity"
	}
	return Q, ""
}

// TaprootTweakCheck is the BIP341 check "q = x(lift_x(p) + t*G) and parity bit = y(Q) mod 2"
// on (output key bytes, internal key bytes, tweak bytes, parity). The tweak t is given directly
// (callers compute it with TapTweakHash), as in secp256k1_xonly_pubkey_tweak_add_check.
func TaprootTweakCheck(q32, p32, t32 []byte, parity bool) (bool, string) {
	if len(q32) != 32 {
		return false, "length"
	}
	Q, why := TaprootOutputKey(p32, t32)
	if why != "" {
		return false, why
	}
	if FromBytes(q32).Cmp(Q.X) != 0 {
		return false, "x-mismatch"
	}
	if (Q.Y.Bit(0) == 1) != parity {
		return false, "parity-mismatch"
	}
	return true, ""
}
