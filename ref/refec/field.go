// Package refec is an independent reference model of secp256k1 written from the specifications
// (SEC1/SEC2, RFC 6979, BIP340, BIP341) on top of math/big only. It imports nothing from /repo and
// is the trusted base of the C03 and C08 monitors. Speed is irrelevant; obviousness is the point.
package refec

import "math/big"

var (
	// P = 2^256 - 2^32 - 977
	P = mustHex("FFFFFFFFFFFFFFFFFFFFFFFFFFFFFFFFFFFFFFFFFFFFFFFFFFFFFFFEFFFFFC2F")
	// N = group order
	N     = mustHex("FFFFFFFFFFFFFFFFFFFFFFFFFFFFFFFEBAAEDCE6AF48A03BBFD25E8CD0364141")
	Gx    = mustHex("79BE667EF9DCBBAC55A06295CE870B07029BFCDB2DCE28D959F2815B16F81798")
	Gy    = mustHex("483ADA7726A3C4655DA4FBFC0E1108A8FD17B448A68554199C47D08FFB10D4B8")
	B     = big.NewInt(7)
	HalfN = new(big.Int).Rsh(N, 1) // floor(n/2): s is "low" iff s <= HalfN

	one   = big.NewInt(1)
	two   = big.NewInt(2)
	three = big.NewInt(3)
	// exponents
	pMinus2      = new(big.Int).Sub(P, two)
	pPlus1Over4  = new(big.Int).Rsh(new(big.Int).Add(P, one), 2)
	pMinus1Over2 = new(big.Int).Rsh(new(big.Int).Sub(P, one), 1)
	// 2^256
	Two256 = new(big.Int).Lsh(one, 256)
)

func mustHex(s string) *big.Int {
	v, ok := new(big.Int).SetString(s, 16)
	if !ok {
		panic("refec: bad constant " + s)
	}
	return v
}

// --------------------------------------------------------------------------------------------
// Field arithmetic mod P. All functions return fresh values in [0, P).

func FRed(a *big.Int) *big.Int    { return new(big.Int).Mod(a, P) }
func FAdd(a, b *big.Int) *big.Int { return FRed(new(big.Int).Add(a, b)) }
func FSub(a, b *big.Int) *big.Int { return FRed(new(big.Int).Sub(a, b)) }
func FMul(a, b *big.Int) *big.Int { return FRed(new(big.Int).Mul(a, b)) }
func FSqr(a *big.Int) *big.Int    { return FRed(new(big.Int).Mul(a, a)) }
func FNeg(a *big.Int) *big.Int    { return FRed(new(big.Int).Neg(a)) }
func FMulInt(a *big.Int, k int64) *big.Int {
	return FRed(new(big.Int).Mul(a, big.NewInt(k)))
}

// FInv returns the inverse of a mod p (extended Euclid, math/big). FInv(0) = 0; callers decide
// whether 0 is in their domain. FInvFermat is the a^(p-2) form; calibration cross-checks the two.
func FInv(a *big.Int) *big.Int {
	r := FRed(a)
	if r.Sign() == 0 {
		return r
	}
	return r.ModInverse(r, P)
}

func FInvFermat(a *big.Int) *big.Int { return new(big.Int).Exp(FRed(a), pMinus2, P) }

// FIsSquare: Euler criterion. 0 counts as a square.
func FIsSquare(a *big.Int) bool {
	r := FRed(a)
	if r.Sign() == 0 {
		return true
	}
	return new(big.Int).Exp(r, pMinus1Over2, P).Cmp(one) == 0
}

// FSqrt returns (r, true) with r^2 = a when a is a square; r = a^((p+1)/4) (p = 3 mod 4).
// For a non-square it returns (a^((p+1)/4), false).
func FSqrt(a *big.Int) (*big.Int, bool) {
	r := new(big.Int).Exp(FRed(a), pPlus1Over4, P)
	return r, FSqr(r).Cmp(FRed(a)) == 0
}

// FCbrt returns a cube root of a mod p if one exists. p = 1 mod 3, so a third of the non-zero
// elements are cubes. Uses the closed form for p = 7 mod 9 resp. 4 mod 9 and verifies the result.
func FCbrt(a *big.Int) (*big.Int, bool) {
	r := FRed(a)
	if r.Sign() == 0 {
		return new(big.Int), true
	}
	nine := big.NewInt(9)
	m := new(big.Int).Mod(P, nine).Int64()
	var e *big.Int
	switch m {
	case 7:
		e = new(big.Int).Div(new(big.Int).Add(P, two), nine)
	case 4:
		e = new(big.Int).Div(new(big.Int).Add(new(big.Int).Lsh(P, 1), one), nine)
	default:
		return nil, false
	}
	c := new(big.Int).Exp(r, e, P)
	if FMul(FSqr(c), c).Cmp(r) == 0 {
		return c, true
	}
	return nil, false
}

// Bytes32 returns the 32-byte big-endian encoding of a (which must be in [0, 2^256)).
func Bytes32(a *big.Int) []byte {
	if a.Sign() < 0 || a.BitLen() > 256 {
		panic("refec.Bytes32: out of range")
	}
	b := make([]byte, 32)
	a.FillBytes(b)
	return b
}

func FromBytes(b []byte) *big.Int { return new(big.Int).SetBytes(b) }
