package refec

import "math/big"

// ParsePubKey decodes a SEC1 public key as the C03 property words it: 33 bytes 02/03 || x,
// 65 bytes 04 || x || y, or hybrid 06/07 || x || y with 06 = even y, 07 = odd y. Coordinates
// must be < p and the point must satisfy the curve equation. reason is "" on success.
func ParsePubKey(b []byte) (pt Point, reason string) {
	switch {
	case len(b) == 33 && (b[0] == 2 || b[0] == 3):
		x := FromBytes(b[1:33])
		if x.Cmp(P) >= 0 {
			return pt, "x>=p"
		}
		q, ok := Decompress(x, b[0] == 3)
		if !ok {
			return pt, "x-not-on-curve"
		}
		return q, ""
	case len(b) == 65 && (b[0] == 4 || b[0] == 6 || b[0] == 7):
		x := FromBytes(b[1:33])
		y := FromBytes(b[33:65])
		if x.Cmp(P) >= 0 {
			return pt, "x>=p"
		}
		if y.Cmp(P) >= 0 {
			return pt, "y>=p"
		}
		q := Point{X: x, Y: y}
		if !q.IsOnCurve() {
			return pt, "off-curve"
		}
		if b[0] != 4 && (y.Bit(0) == 1) != (b[0] == 7) {
			return pt, "hybrid-parity"
		}
		return q, ""
	}
	return pt, "format"
}

func (p Point) SerializeCompressed() []byte {
	out := make([]byte, 33)
	out[0] = 2 + byte(p.Y.Bit(0))
	copy(out[1:], Bytes32(p.X))
	return out
}

func (p Point) SerializeUncompressed() []byte {
	out := make([]byte, 65)
	out[0] = 4
	copy(out[1:], Bytes32(p.X))
	copy(out[33:], Bytes32(p.Y))
	return out
}

func (p Point) SerializeHybrid() []byte {
	out := p.SerializeUncompressed()
	out[0] = 6 + byte(p.Y.Bit(0))
	return out
}

func (p Point) XOnly() []byte { return Bytes32(p.X) }

// --------------------------------------------------------------------------------------------
// DER

type DERStatus int

const (
	DEROK        DERStatus = iota // structure exact, both integers non-negative: values unambiguous
	DERAmbiguous                  // parsers legitimately differ (negative integers, long-form lengths, trailing data, ...)
	DERMalformed                  // no sane parser finds two integers
)

// ParseDER parses 30 L 02 lr R 02 ls S with single-byte lengths and L = len-2 (an optional
// number of `trailing` bytes after the sequence is tolerated when allowTrailing is set, because
// Bitcoin signatures carry a hash-type byte there). The integer *values* are unambiguous when the
// structure is exact and neither integer has its top bit set (DER integers are signed: a set top bit
// means negative for a strict parser and a large positive for the lax ones). Leading zero padding
// and integers longer than 32 bytes are fine: the value is still unique.
func ParseDER(sig []byte, allowTrailing int) (r, s *big.Int, st DERStatus) {
	if len(sig) < 8 || sig[0] != 0x30 {
		return nil, nil, DERMalformed
	}
	if sig[1] >= 0x80 {
		return nil, nil, DERAmbiguous
	}
	total := int(sig[1]) + 2
	if total > len(sig) {
		return nil, nil, DERMalformed
	}
	if len(sig)-total > allowTrailing {
		return nil, nil, DERAmbiguous
	}
	body := sig[2:total]
	if len(body) < 2 || body[0] != 0x02 {
		return nil, nil, DERMalformed
	}
	if body[1] >= 0x80 {
		return nil, nil, DERAmbiguous
	}
	lr := int(body[1])
	if lr == 0 || 2+lr+2 > len(body) {
		return nil, nil, DERMalformed
	}
	rb := body[2 : 2+lr]
	rest := body[2+lr:]
	if rest[0] != 0x02 {
		return nil, nil, DERMalformed
	}
	if rest[1] >= 0x80 {
		return nil, nil, DERAmbiguous
	}
	ls := int(rest[1])
	if ls == 0 || 2+ls != len(rest) {
		return nil, nil, DERMalformed
	}
	sb := rest[2:]
	if rb[0]&0x80 != 0 || sb[0]&0x80 != 0 {
		return nil, nil, DERAmbiguous
	}
	return FromBytes(rb), FromBytes(sb), DEROK
}

// derInt returns the minimal DER content bytes of a non-negative integer.
func derInt(v *big.Int) []byte {
	b := v.Bytes()
	if len(b) == 0 {
		return []byte{0}
	}
	if b[0]&0x80 != 0 {
		b = append([]byte{0}, b...)
	}
	return b
}

// EncodeDER gives the canonical DER encoding of (r, s), r and s non-negative.
func EncodeDER(r, s *big.Int) []byte { return EncodeDERRaw(derInt(r), derInt(s)) }

// EncodeDERRaw builds 30 L 02 lr R 02 ls S from arbitrary integer content bytes (lengths < 128).
func EncodeDERRaw(rb, sb []byte) []byte {
	out := []byte{0x30, byte(4 + len(rb) + len(sb)), 0x02, byte(len(rb))}
	out = append(out, rb...)
	out = append(out, 0x02, byte(len(sb)))
	out = append(out, sb...)
	return out
}

// IsStrictDER is BIP66's IsValidSignatureEncoding without the hash-type byte: exact structure,
// minimal, positive integers, total length 8..72.
func IsStrictDER(sig []byte) bool {
	if len(sig) < 8 || len(sig) > 72 {
		return false
	}
	if sig[0] != 0x30 || int(sig[1]) != len(sig)-2 {
		return false
	}
	if sig[2] != 0x02 {
		return false
	}
	lr := int(sig[3])
	if lr == 0 || 5+lr >= len(sig) {
		return false
	}
	if sig[4+lr] != 0x02 {
		return false
	}
	ls := int(sig[5+lr])
	if ls == 0 || lr+ls+6 != len(sig) {
		return false
	}
	rb := sig[4 : 4+lr]
	sb := sig[6+lr:]
	for _, b := range [][]byte{rb, sb} {
		if b[0]&0x80 != 0 {
			return false
		}
		if len(b) > 1 && b[0] == 0 && b[1]&0x80 == 0 {
			return false
		}
	}
	return true
}
