package refec

import "testing"

func TestCalibrate(t *testing.T) {
	rep, err := Calibrate("/repo/lib")
	if err != nil {
		t.Fatal(err)
	}
	t.Logf("%+v", rep)
}
