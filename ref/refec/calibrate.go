package refec

import (
	"bytes"
	"crypto/sha256"
	_ "embed"
	"encoding/csv"
	"encoding/hex"
	"encoding/json"
	"fmt"
	"math/big"
	"os"
	"path/filepath"
	"strings"
)

//go:embed testdata/bip340_test_vectors.csv
var embeddedBIP340 []byte

//go:embed testdata/vectors.json
var embeddedVectors []byte

// CalibReport says what the calibration exercised (goes into the evidence file).
type CalibReport struct {
	Checks         int      `json:"checks"`
	BIP340Rows     int      `json:"bip340_rows"`
	BIP340Sources  []string `json:"bip340_sources"`
	VectorFamilies []string `json:"vector_families"`
}

func unhex(s string) []byte {
	b, err := hex.DecodeString(s)
	if err != nil {
		panic("refec calibration data: bad hex " + s)
	}
	return b
}
func hexInt(s string) *big.Int { return new(big.Int).SetBytes(unhex(s)) }

type vecFile struct {
	EcdsaVerify   [][3]string                             `json:"ecdsa_verify"`
	EcdsaVerifyRS []struct{ Msg, R, S, X, Y, Pub string } `json:"ecdsa_verify_rs"`
	Recover       []struct {
		R, S, Msg string
		Recid     int
		X, Y      string
	} `json:"recover"`
	SignNonce []struct {
		Sec, Msg, Nonce, R string
		SLow               string `json:"s_low"`
		SRaw               string `json:"s_raw"`
		RecidLow           int    `json:"recid_low"`
		RecidRaw           int    `json:"recid_raw"`
	} `json:"sign_nonce"`
	Ecmult  []struct{ Px, Py, Na, Ng, Jx, Jy, Jz string } `json:"ecmult"`
	Seckeys []string                                      `json:"seckeys_valid_pub"`
	Drbg    []struct {
		Key string
		Out []string
	} `json:"rfc6979_hmac_drbg"`
	Published []struct {
		D       string
		Message string `json:"message_ascii"`
		K, R, S string
	} `json:"rfc6979_secp256k1_published"`
}

// Calibrate runs every self-test of the reference. repoLib is /repo/lib (its test/ directory is read
// as data when present). Any failure means the oracle cannot be trusted: callers exit 2 (BROKEN).
func Calibrate(repoLib string) (rep CalibReport, err error) {
	defer func() {
		if x := recover(); x != nil {
			err = fmt.Errorf("refec calibration panic: %v", x)
		}
	}()
	fail := func(format string, a ...interface{}) error {
		return fmt.Errorf("refec calibration: "+format, a...)
	}
	ck := func() { rep.Checks++ }

	// --- constants and group structure
	if !P.ProbablyPrime(32) || !N.ProbablyPrime(32) {
		return rep, fail("p or n not prime")
	}
	ck()
	want := new(big.Int).Sub(new(big.Int).Sub(Two256, new(big.Int).Lsh(one, 32)), big.NewInt(977))
	if want.Cmp(P) != 0 || new(big.Int).Mod(P, big.NewInt(4)).Int64() != 3 {
		return rep, fail("p constant")
	}
	ck()
	if !G().IsOnCurve() {
		return rep, fail("G not on curve")
	}
	ck()
	if !ScalarMult(N, G()).Inf || !ScalarMultJ(N, G()).Inf {
		return rep, fail("n*G != infinity")
	}
	ck()
	if !ScalarMult(new(big.Int).Sub(N, one), G()).Equal(G().Neg()) {
		return rep, fail("(n-1)*G != -G")
	}
	ck()
	known := map[int64][2]string{
		2: {"C6047F9441ED7D6D3045406E95C07CD85C778E4B8CEF3CA7ABAC09B95C709EE5", "1AE168FEA63DC339A3C58419466CEAEEF7F632653266D0E1236431A950CFE52A"},
		3: {"F9308A019258C31049344F85F89D5229B531C845836F99B08601F113BCE036F9", "388F7B0F632DE8140FE337E62A37F3566500A99934C2231B6CB9FD7584B8E672"},
	}
	for k, xy := range known {
		pt := ScalarMult(big.NewInt(k), G())
		if pt.X.Cmp(hexInt(xy[0])) != 0 || pt.Y.Cmp(hexInt(xy[1])) != 0 {
			return rep, fail("%d*G", k)
		}
		ck()
	}
	if !Add(G(), G().Neg()).Inf || !Add(Infinity(), Infinity()).Inf || !Add(G(), Infinity()).Equal(G()) {
		return rep, fail("identity laws")
	}
	ck()
	// affine vs Jacobian, pseudo-random scalars from a hash chain; random Z in mixed additions
	seed := sha256.Sum256([]byte("refec calibration"))
	next := func() *big.Int {
		seed = sha256.Sum256(seed[:])
		return new(big.Int).SetBytes(seed[:])
	}
	for i := 0; i < 12; i++ {
		k1, k2, z1, z2 := next(), next(), next(), next()
		if i == 0 {
			k1 = new(big.Int).Add(N, big.NewInt(5)) // above n
		}
		a := ScalarMult(k1, G())
		b := ScalarMultJ(k1, G())
		if !a.Equal(b) || !a.IsOnCurve() {
			return rep, fail("affine/jacobian scalar mult disagree")
		}
		c := ScalarMultJ(k2, a)
		if !c.Equal(ScalarBaseMult(new(big.Int).Mod(new(big.Int).Mul(k1, k2), N))) {
			return rep, fail("k2*(k1*G) != (k1*k2)*G")
		}
		s1 := JAdd(a.ToJacobian(z1), c.ToJacobian(z2)).ToAffine()
		if !s1.Equal(Add(a, c)) {
			return rep, fail("jacobian add with random Z")
		}
		if !JAdd(a.ToJacobian(z1), a.ToJacobian(z2)).ToAffine().Equal(Double(a)) {
			return rep, fail("jacobian P+P")
		}
		if !JAdd(a.ToJacobian(z1), a.Neg().ToJacobian(z2)).Inf {
			return rep, fail("jacobian P+(-P)")
		}
		if !JDouble(a.ToJacobian(z1)).ToAffine().Equal(Add(a, a)) {
			return rep, fail("jacobian double")
		}
		// serialisation round trips
		for _, enc := range [][]byte{a.SerializeCompressed(), a.SerializeUncompressed(), a.SerializeHybrid()} {
			q, why := ParsePubKey(enc)
			if why != "" || !q.Equal(a) {
				return rep, fail("pubkey round trip: %s", why)
			}
		}
		// field: sqrt / inverse / cube root
		v := FRed(z1)
		if FMul(v, FInv(v)).Cmp(one) != 0 || FInv(v).Cmp(FInvFermat(v)) != 0 || FInv(new(big.Int)).Sign() != 0 {
			return rep, fail("field inverse")
		}
		if r, ok := FSqrt(FSqr(v)); !ok || (r.Cmp(v) != 0 && r.Cmp(FNeg(v)) != 0) {
			return rep, fail("field sqrt")
		}
		cube := FMul(FSqr(v), v)
		if r, ok := FCbrt(cube); !ok || FMul(FSqr(r), r).Cmp(cube) != 0 {
			return rep, fail("field cube root")
		}
		ck()
	}

	// --- vectors copied from the repo's tests
	var vf vecFile
	if e := json.Unmarshal(embeddedVectors, &vf); e != nil {
		return rep, fail("vectors.json: %v", e)
	}
	for i, v := range vf.EcdsaVerify {
		sig := unhex(v[1])
		r, s, st := ParseDER(sig, 1)
		if st != DEROK {
			return rep, fail("ecdsa_verify[%d]: DER status %d", i, st)
		}
		msg := unhex(v[2])
		if ok, why := ECDSAVerify(unhex(v[0]), r, s, msg); !ok {
			return rep, fail("ecdsa_verify[%d] rejected: %s", i, why)
		}
		msg[0]++
		if ok, _ := ECDSAVerify(unhex(v[0]), r, s, msg); ok {
			return rep, fail("ecdsa_verify[%d] accepted a changed message", i)
		}
		if !bytes.Equal(EncodeDER(r, s), sig[:len(sig)-1]) || !IsStrictDER(sig[:len(sig)-1]) {
			return rep, fail("ecdsa_verify[%d]: DER re-encoding differs", i)
		}
		ck()
	}
	rep.VectorFamilies = append(rep.VectorFamilies, fmt.Sprintf("ecdsa_verify:%d", len(vf.EcdsaVerify)))
	for i, v := range vf.EcdsaVerifyRS {
		var q Point
		if v.Pub != "" {
			var why string
			if q, why = ParsePubKey(unhex(v.Pub)); why != "" {
				return rep, fail("ecdsa_verify_rs[%d] key: %s", i, why)
			}
		} else {
			q = Point{X: hexInt(v.X), Y: hexInt(v.Y)}
		}
		if ok, why := ECDSAVerifyPoint(q, hexInt(v.R), hexInt(v.S), unhex(v.Msg)); !ok {
			return rep, fail("ecdsa_verify_rs[%d] rejected: %s", i, why)
		}
		ck()
	}
	rep.VectorFamilies = append(rep.VectorFamilies, fmt.Sprintf("ecdsa_verify_rs:%d", len(vf.EcdsaVerifyRS)))
	for i, v := range vf.Recover {
		q, ok := ECDSARecover(hexInt(v.R), hexInt(v.S), unhex(v.Msg), v.Recid)
		if !ok || q.X.Cmp(hexInt(v.X)) != 0 || q.Y.Cmp(hexInt(v.Y)) != 0 {
			return rep, fail("recover[%d]", i)
		}
		if ok, why := ECDSAVerifyPoint(q, hexInt(v.R), hexInt(v.S), unhex(v.Msg)); !ok {
			return rep, fail("recover[%d]: recovered key does not verify: %s", i, why)
		}
		ck()
	}
	rep.VectorFamilies = append(rep.VectorFamilies, fmt.Sprintf("recover:%d", len(vf.Recover)))
	for i, v := range vf.SignNonce {
		d := hexInt(v.Sec)
		r, s, rid, ok := ECDSASignWithNonce(d, unhex(v.Msg), hexInt(v.Nonce), true)
		if !ok || r.Cmp(hexInt(v.R)) != 0 || s.Cmp(hexInt(v.SLow)) != 0 || rid != v.RecidLow {
			return rep, fail("sign_nonce[%d] low-S", i)
		}
		r2, s2, rid2, ok := ECDSASignWithNonce(d, unhex(v.Msg), hexInt(v.Nonce), false)
		// without normalisation s is one of the two complementary values the repo's test lists
		// (gocoin's non-low-S mode picks the even one, SEC1 leaves it as computed)
		isRaw := s2.Cmp(hexInt(v.SRaw)) == 0 && rid2 == v.RecidRaw
		isLow := s2.Cmp(hexInt(v.SLow)) == 0 && rid2 == v.RecidLow
		if !ok || r2.Cmp(hexInt(v.R)) != 0 || !(isRaw || isLow) {
			return rep, fail("sign_nonce[%d] raw", i)
		}
		pub := ScalarBaseMult(d)
		for _, t := range []struct {
			s   *big.Int
			rid int
		}{{s, rid}, {s2, rid2}} {
			q, ok := ECDSARecover(r, t.s, unhex(v.Msg), t.rid)
			if !ok || !q.Equal(pub) {
				return rep, fail("sign_nonce[%d]: recovery != signer key", i)
			}
		}
		ck()
	}
	rep.VectorFamilies = append(rep.VectorFamilies, fmt.Sprintf("sign_nonce:%d", len(vf.SignNonce)))
	for i, v := range vf.Ecmult {
		exp := JPoint{X: hexInt(v.Jx), Y: hexInt(v.Jy), Z: hexInt(v.Jz)}.ToAffine()
		var got Point
		if v.Px == "" {
			got = ScalarBaseMult(hexInt(v.Ng))
		} else {
			got = MulAdd(hexInt(v.Na), Point{X: hexInt(v.Px), Y: hexInt(v.Py)}, hexInt(v.Ng))
		}
		if !got.Equal(exp) {
			return rep, fail("ecmult[%d]", i)
		}
		ck()
	}
	rep.VectorFamilies = append(rep.VectorFamilies, fmt.Sprintf("ecmult:%d", len(vf.Ecmult)))
	for i, v := range vf.Seckeys {
		if !ScalarBaseMult(hexInt(v)).IsOnCurve() {
			return rep, fail("seckeys[%d]", i)
		}
		ck()
	}
	for i, v := range vf.Drbg {
		g := NewDRBG(unhex(v.Key))
		for j, o := range v.Out {
			if !bytes.Equal(g.Next(), unhex(o)) {
				return rep, fail("rfc6979 drbg[%d] output %d", i, j)
			}
		}
		ck()
	}
	rep.VectorFamilies = append(rep.VectorFamilies, fmt.Sprintf("rfc6979_hmac_drbg:%d", len(vf.Drbg)))
	for i, v := range vf.Published {
		h := sha256.Sum256([]byte(v.Message))
		for _, strict := range []bool{true, false} {
			k, _ := RFC6979Nonce(hexInt(v.D), h[:], strict)
			if k.Cmp(hexInt(v.K)) != 0 {
				return rep, fail("rfc6979 published[%d]: k", i)
			}
			r, s, rid := ECDSASignRFC6979(hexInt(v.D), h[:], strict)
			if r.Cmp(hexInt(v.R)) != 0 || s.Cmp(hexInt(v.S)) != 0 {
				return rep, fail("rfc6979 published[%d]: signature", i)
			}
			pub := ScalarBaseMult(hexInt(v.D))
			if ok, why := ECDSAVerifyPoint(pub, r, s, h[:]); !ok {
				return rep, fail("rfc6979 published[%d]: own signature rejected: %s", i, why)
			}
			if q, ok := ECDSARecover(r, s, h[:], rid); !ok || !q.Equal(pub) {
				return rep, fail("rfc6979 published[%d]: recovery", i)
			}
		}
		ck()
	}
	rep.VectorFamilies = append(rep.VectorFamilies, fmt.Sprintf("rfc6979_secp256k1_published:%d", len(vf.Published)))

	// --- BIP340 vectors: embedded copy, plus the repo's file when present
	srcs := map[string][]byte{"embedded": embeddedBIP340}
	if repoLib != "" {
		p := filepath.Join(repoLib, "test", "bip340_test_vectors.csv")
		if b, e := os.ReadFile(p); e == nil {
			srcs[p] = b
		}
	}
	for name, data := range srcs {
		rows, e := csv.NewReader(bytes.NewReader(data)).ReadAll()
		if e != nil {
			return rep, fail("bip340 csv %s: %v", name, e)
		}
		n := 0
		for i, row := range rows {
			if i == 0 || len(row) < 7 {
				continue
			}
			sk, pk, aux, msg, sig := unhex(row[1]), unhex(row[2]), unhex(row[3]), unhex(row[4]), unhex(row[5])
			want := strings.EqualFold(row[6], "TRUE")
			if len(sk) == 32 {
				got, e := SchnorrSign(sk, msg, aux)
				if e != nil || !bytes.Equal(got, sig) {
					return rep, fail("bip340 %s row %s: signing differs (%v)", name, row[0], e)
				}
				if x, ok := XOnlyPubKey(sk); !ok || !bytes.Equal(x, pk) {
					return rep, fail("bip340 %s row %s: public key differs", name, row[0])
				}
			}
			ok, why := SchnorrVerify(pk, msg, sig)
			if ok != want {
				return rep, fail("bip340 %s row %s: verify=%v want %v (%s)", name, row[0], ok, want, why)
			}
			n++
			ck()
		}
		if n < 15 {
			return rep, fail("bip340 %s: only %d rows", name, n)
		}
		rep.BIP340Rows += n
		rep.BIP340Sources = append(rep.BIP340Sources, name)
	}

	// --- BIP341 self-consistency (no official vectors available offline): output key construction
	// agrees with the check, parity and x mismatches are rejected, non-liftable / out of range fail.
	for i := 0; i < 6; i++ {
		pk, _ := XOnlyPubKey(Bytes32(new(big.Int).Add(new(big.Int).Mod(next(), new(big.Int).Sub(N, one)), one)))
		root := Bytes32(next())
		t := TapTweakHash(pk, root)
		Q, why := TaprootOutputKey(pk, t)
		if why != "" {
			return rep, fail("bip341: %s", why)
		}
		par := Q.Y.Bit(0) == 1
		if ok, _ := TaprootTweakCheck(Q.XOnly(), pk, t, par); !ok {
			return rep, fail("bip341: own output key rejected")
		}
		if ok, _ := TaprootTweakCheck(Q.XOnly(), pk, t, !par); ok {
			return rep, fail("bip341: wrong parity accepted")
		}
		if ok, _ := TaprootTweakCheck(pk, pk, t, par); ok {
			return rep, fail("bip341: wrong output key accepted")
		}
		// Q - t*G must be +-P
		back := Add(Q, ScalarBaseMult(FromBytes(t)).Neg())
		if back.X.Cmp(FromBytes(pk)) != 0 || back.Y.Bit(0) != 0 {
			return rep, fail("bip341: Q - tG != lift_x(p)")
		}
		ck()
	}
	if _, why := TaprootOutputKey(Bytes32(P), make([]byte, 32)); why != "internal>=p" {
		return rep, fail("bip341: x=p not rejected")
	}
	if _, why := TaprootOutputKey(Bytes32(Gx), Bytes32(N)); why != "t>=n" {
		return rep, fail("bip341: t=n not rejected")
	}
	ck()
	return rep, nil
}
