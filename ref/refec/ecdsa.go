package refec

import (
	"crypto/hmac"
	"crypto/sha256"
	"math/big"
)

// ECDSAVerifyPoint: SEC1 4.1.4 on decoded values. r, s must lie in [1, n-1]; the message is the
// 32-byte digest taken as an integer (reduced mod n by the arithmetic).
func ECDSAVerifyPoint(q Point, r, s *big.Int, msg32 []byte) (bool, string) {
	if q.Inf || !q.IsOnCurve() {
		return false, "key-invalid"
	}
	if r.Sign() <= 0 {
		return false, "r<=0"
	}
	if r.Cmp(N) >= 0 {
		return false, "r>=n"
	}
	if s.Sign() <= 0 {
		return false, "s<=0"
	}
	if s.Cmp(N) >= 0 {
		return false, "s>=n"
	}
	e := new(big.Int).Mod(FromBytes(msg32), N)
	w := new(big.Int).ModInverse(s, N)
	u1 := new(big.Int).Mod(new(big.Int).Mul(e, w), N)
	u2 := new(big.Int).Mod(new(big.Int).Mul(r, w), N)
	R := MulAdd(u2, q, u1)
	if R.Inf {
		return false, "R=infinity"
	}
	v := new(big.Int).Mod(R.X, N)
	if v.Cmp(r) != 0 {
		return false, "equation"
	}
	return true, ""
}

// ECDSAVerify is the predicate of C03 on (public key bytes, r, s, 32-byte message).
func ECDSAVerify(pub []byte, r, s *big.Int, msg32 []byte) (bool, string) {
	q, why := ParsePubKey(pub)
	if why != "" {
		return false, "key:" + why
	}
	return ECDSAVerifyPoint(q, r, s, msg32)
}

// ECDSASignWithNonce: SEC1 4.1.3 with a given k in [1,n-1]. Returns ok=false when r or s is 0.
// recid: bit0 = parity of R.y, bit1 = R.x >= n; when lowS is set and s > n/2, s := n-s and bit0 flips.
func ECDSASignWithNonce(d *big.Int, msg32 []byte, k *big.Int, lowS bool) (r, s *big.Int, recid int, ok bool) {
	if k.Sign() <= 0 || k.Cmp(N) >= 0 || d.Sign() <= 0 || d.Cmp(N) >= 0 {
		return nil, nil, 0, false
	}
	R := ScalarBaseMult(k)
	r = new(big.Int).Mod(R.X, N)
	if r.Sign() == 0 {
		return nil, nil, 0, false
	}
	if R.X.Cmp(N) >= 0 {
		recid |= 2
	}
	if R.Y.Bit(0) == 1 {
		recid |= 1
	}
	e := new(big.Int).Mod(FromBytes(msg32), N)
	s = new(big.Int).Mul(r, d)
	s.Add(s, e)
	s.Mul(s, new(big.Int).ModInverse(k, N))
	s.Mod(s, N)
	if s.Sign() == 0 {
		return nil, nil, 0, false
	}
	if lowS && s.Cmp(HalfN) > 0 {
		s.Sub(N, s)
		recid ^= 1
	}
	return r, s, recid, true
}

// --------------------------------------------------------------------------------------------
// RFC 6979 (HMAC-SHA256, qlen = hlen = 256)

func hmac256(key []byte, parts ...[]byte) []byte {
	m := hmac.New(sha256.New, key)
	for _, p := range parts {
		m.Write(p)
	}
	return m.Sum(nil)
}

// DRBG is the HMAC_DRBG instance of RFC 6979 section 3.2 seeded with arbitrary key material
// (steps b-g with `seed` in place of int2octets(x) || bits2octets(h1)).
type DRBG struct {
	k, v  []byte
	retry bool
}

func NewDRBG(seed []byte) *DRBG {
	g := &DRBG{k: make([]byte, 32), v: make([]byte, 32)}
	for i := range g.v {
		g.v[i] = 1
	}
	g.k = hmac256(g.k, g.v, []byte{0}, seed)
	g.v = hmac256(g.k, g.v)
	g.k = hmac256(g.k, g.v, []byte{1}, seed)
	g.v = hmac256(g.k, g.v)
	return g
}

// Next returns the next 32-byte candidate T (step h), performing the K/V update of step h.3
// before every candidate but the first.
func (g *DRBG) Next() []byte {
	if g.retry {
		g.k = hmac256(g.k, g.v, []byte{0})
		g.v = hmac256(g.k, g.v)
	}
	g.v = hmac256(g.k, g.v)
	g.retry = true
	return append([]byte(nil), g.v...)
}

// RFC6979Nonce returns k for private key d and digest msg32. With strict=true the digest goes through
// bits2octets (reduced mod n) exactly as the RFC says; with strict=false the 32 digest bytes are
// fed unreduced, which is what libsecp256k1 / Bitcoin Core do. The two differ only for digests >= n.
// tries reports how many candidates were drawn.
func RFC6979Nonce(d *big.Int, msg32 []byte, strict bool) (k *big.Int, tries int) {
	h := append([]byte(nil), msg32...)
	if strict {
		h = Bytes32(new(big.Int).Mod(FromBytes(msg32), N))
	}
	g := NewDRBG(append(Bytes32(d), h...))
	for {
		tries++
		k = FromBytes(g.Next())
		if k.Sign() > 0 && k.Cmp(N) < 0 {
			return
		}
	}
}

// ECDSASignRFC6979 signs deterministically, low-S normalised.
func ECDSASignRFC6979(d *big.Int, msg32 []byte, strict bool) (r, s *big.Int, recid int) {
	h := append([]byte(nil), msg32...)
	if strict {
		h = Bytes32(new(big.Int).Mod(FromBytes(msg32), N))
	}
	g := NewDRBG(append(Bytes32(d), h...))
	for {
		k := FromBytes(g.Next())
		if k.Sign() <= 0 || k.Cmp(N) >= 0 {
			continue
		}
		var ok bool
		r, s, recid, ok = ECDSASignWithNonce(d, msg32, k, true)
		if ok {
			return
		}
	}
}

// ECDSARecover: SEC1 4.1.6. recid bit0 = parity of R.y, bit1 = R.x is r+n.
func ECDSARecover(r, s *big.Int, msg32 []byte, recid int) (Point, bool) {
	if r.Sign() <= 0 || r.Cmp(N) >= 0 || s.Sign() <= 0 || s.Cmp(N) >= 0 || recid < 0 || recid > 3 {
		return Point{}, false
	}
	x := new(big.Int).Set(r)
	if recid&2 != 0 {
		x.Add(x, N)
	}
	if x.Cmp(P) >= 0 {
		return Point{}, false
	}
	R, ok := Decompress(x, recid&1 != 0)
	if !ok {
		return Point{}, false
	}
	e := new(big.Int).Mod(FromBytes(msg32), N)
	ri := new(big.Int).ModInverse(r, N)
	u1 := new(big.Int).Mod(new(big.Int).Mul(new(big.Int).Sub(N, e), ri), N) // -e/r
	u2 := new(big.Int).Mod(new(big.Int).Mul(s, ri), N)                      // s/r
	Q := MulAdd(u2, R, u1)
	if Q.Inf {
		return Point{}, false
	}
	return Q, true
}
