// Package refchain is an independent executable model of Bitcoin's block-level consensus rules
// (header, structure, commitments, transaction connection, fork choice, UTXO set). It imports
// nothing from the code under test. Script validity of an input is supplied by the workload
// generator (valid/invalid by construction), everything else is recomputed from the bytes.
package refchain

import (
	"crypto/sha256"
	"encoding/binary"
)

type Hash [32]byte

func DSHA(b []byte) Hash {
	a := sha256.Sum256(b)
	return sha256.Sum256(a[:])
}

// String returns the usual reversed hex form.
func (h Hash) String() string {
	const hx = "0123456789abcdef"
	s := make([]byte, 64)
	for i := 0; i < 32; i++ {
		s[2*i] = hx[h[31-i]>>4]
		s[2*i+1] = hx[h[31-i]&15]
	}
	return string(s)
}

type OutPoint struct {
	Hash Hash
	Idx  uint32
}

type TxIn struct {
	Prev      OutPoint
	ScriptSig []byte
	Sequence  uint32
	Witness   [][]byte
}

type TxOut struct {
	Value  uint64 // wire value (int64 on the wire; values >= 2^63 are negative amounts)
	Script []byte
}

type Tx struct {
	Version  uint32
	In       []TxIn
	Out      []TxOut
	LockTime uint32

	// ScriptInvalid[i] == true: the workload generator built input i so that its script
	// evaluation fails (ground truth by construction). nil = all valid.
	ScriptInvalid []bool
	// ForceWitnessFlag serialises with marker/flag even when every witness stack is empty
	// (malformed on purpose)
	id, wid *Hash
}

func PutVarInt(b []byte, v uint64) []byte {
	switch {
	case v < 0xfd:
		return append(b, byte(v))
	case v <= 0xffff:
		return append(b, 0xfd, byte(v), byte(v>>8))
	case v <= 0xffffffff:
		return append(b, 0xfe, byte(v), byte(v>>8), byte(v>>16), byte(v>>24))
	}
	b = append(b, 0xff)
	var t [8]byte
	binary.LittleEndian.PutUint64(t[:], v)
	return append(b, t[:]...)
}

func VarIntSize(v uint64) int {
	switch {
	case v < 0xfd:
		return 1
	case v <= 0xffff:
		return 3
	case v <= 0xffffffff:
		return 5
	}
	return 9
}

func put32(b []byte, v uint32) []byte {
	return append(b, byte(v), byte(v>>8), byte(v>>16), byte(v>>24))
}
func put64(b []byte, v uint64) []byte {
	var t [8]byte
	binary.LittleEndian.PutUint64(t[:], v)
	return append(b, t[:]...)
}

func (t *Tx) HasWitness() bool {
	for i := range t.In {
		if len(t.In[i].Witness) > 0 {
			return true
		}
	}
	return false
}

// Serialize encodes the transaction; witness=true uses the BIP144 form when any witness exists.
func (t *Tx) Serialize(witness bool) []byte {
	w := witness && t.HasWitness()
	b := make([]byte, 0, 256)
	b = put32(b, t.Version)
	if w {
		b = append(b, 0, 1)
	}
	b = PutVarInt(b, uint64(len(t.In)))
	for i := range t.In {
		in := &t.In[i]
		b = append(b, in.Prev.Hash[:]...)
		b = put32(b, in.Prev.Idx)
		b = PutVarInt(b, uint64(len(in.ScriptSig)))
		b = append(b, in.ScriptSig...)
		b = put32(b, in.Sequence)
	}
	b = PutVarInt(b, uint64(len(t.Out)))
	for i := range t.Out {
		b = put64(b, t.Out[i].Value)
		b = PutVarInt(b, uint64(len(t.Out[i].Script)))
		b = append(b, t.Out[i].Script...)
	}
	if w {
		for i := range t.In {
			b = PutVarInt(b, uint64(len(t.In[i].Witness)))
			for _, it := range t.In[i].Witness {
				b = PutVarInt(b, uint64(len(it)))
				b = append(b, it...)
			}
		}
	}
	b = put32(b, t.LockTime)
	return b
}

func (t *Tx) Invalidate() { t.id, t.wid = nil, nil }

func (t *Tx) TxID() Hash {
	if t.id == nil {
		h := DSHA(t.Serialize(false))
		t.id = &h
	}
	return *t.id
}
func (t *Tx) WTxID() Hash {
	if t.wid == nil {
		h := DSHA(t.Serialize(true))
		t.wid = &h
	}
	return *t.wid
}
func (t *Tx) Weight() int {
	return 3*len(t.Serialize(false)) + len(t.Serialize(true))
}
func (t *Tx) IsCoinbase() bool {
	return len(t.In) == 1 && t.In[0].Prev.Idx == 0xffffffff && t.In[0].Prev.Hash == Hash{}
}

type Block struct {
	Version uint32
	Prev    Hash
	Merkle  Hash
	Time    uint32
	Bits    uint32
	Nonce   uint32
	Txs     []*Tx

	// DupTail > 0: the wire encoding repeats the last DupTail transactions once more
	// (CVE-2012-2459 style mutation; the transaction list the node parses then contains them twice).
	DupTail int
}

func (b *Block) Header() []byte {
	h := make([]byte, 0, 80)
	h = put32(h, b.Version)
	h = append(h, b.Prev[:]...)
	h = append(h, b.Merkle[:]...)
	h = put32(h, b.Time)
	h = put32(h, b.Bits)
	h = put32(h, b.Nonce)
	return h
}

func (b *Block) Hash() Hash { return DSHA(b.Header()) }

// WireTxs is the list of transactions as they appear on the wire (with DupTail applied).
func (b *Block) WireTxs() []*Tx {
	if b.DupTail <= 0 || b.DupTail > len(b.Txs) {
		return b.Txs
	}
	l := append([]*Tx{}, b.Txs...)
	return append(l, b.Txs[len(b.Txs)-b.DupTail:]...)
}

func (b *Block) Serialize() []byte {
	txs := b.WireTxs()
	r := b.Header()
	r = PutVarInt(r, uint64(len(txs)))
	for _, t := range txs {
		r = append(r, t.Serialize(true)...)
	}
	return r
}

// MerkleRoot computes the merkle root of the hashes and whether a duplicate-subtree mutation
// (two identical hashes paired at some level) was seen, as Core's ComputeMerkleRoot does.
func MerkleRoot(hs []Hash) (root Hash, mutated bool) {
	if len(hs) == 0 {
		return Hash{}, false
	}
	l := append([]Hash{}, hs...)
	for len(l) > 1 {
		for i := 0; i+1 < len(l); i += 2 {
			if l[i] == l[i+1] {
				mutated = true
			}
		}
		if len(l)&1 == 1 {
			l = append(l, l[len(l)-1])
		}
		n := make([]Hash, len(l)/2)
		for i := range n {
			var buf [64]byte
			copy(buf[:32], l[2*i][:])
			copy(buf[32:], l[2*i+1][:])
			n[i] = DSHA(buf[:])
		}
		l = n
	}
	return l[0], mutated
}

func (b *Block) ComputeMerkle() (Hash, bool) {
	txs := b.WireTxs()
	hs := make([]Hash, len(txs))
	for i, t := range txs {
		hs[i] = t.TxID()
	}
	return MerkleRoot(hs)
}

func (b *Block) WitnessMerkle() Hash {
	txs := b.WireTxs()
	hs := make([]Hash, len(txs))
	for i, t := range txs {
		if i > 0 {
			hs[i] = t.WTxID()
		}
	}
	r, _ := MerkleRoot(hs)
	return r
}

func (b *Block) Weight() int {
	txs := b.WireTxs()
	w := 4 * (80 + VarIntSize(uint64(len(txs))))
	for _, t := range txs {
		w += t.Weight()
	}
	return w
}
