package refchain

import (
	"bytes"
	"math/big"
	"sort"
)

const (
	MaxMoney         = 21000000 * 100000000
	MaxBlockWeight   = 4000000
	MaxSigopsCost    = 80000
	CoinbaseMaturity = 100
	LocktimeThresh   = 500000000
	Interval         = 2016
	TargetTimespan   = 14 * 24 * 60 * 60
	TargetSpacing    = 600

	seqDisable  = 1 << 31
	seqTypeFlag = 1 << 22
	seqMask     = 0xffff
)

type Params struct {
	PowLimitBits         uint32
	GenesisHash          Hash
	GenesisTime          uint32
	BIP34, BIP65, BIP66  uint32 // activation heights (version gates, BIP34 coinbase height)
	CSV, Segwit, Taproot uint32 // 0 = never
	MinDiffBlocks        bool   // testnet 20-minute rule
	BIP94                bool   // testnet4 retarget rule
	BIP16Time            uint32
}

func (p *Params) PowLimit() *big.Int { t, _, _ := DecodeCompact(p.PowLimitBits); return t }

// DecodeCompact implements arith_uint256::SetCompact.
func DecodeCompact(c uint32) (t *big.Int, negative, overflow bool) {
	size := c >> 24
	word := c & 0x007fffff
	t = new(big.Int)
	if size <= 3 {
		word >>= 8 * (3 - size)
		t.SetUint64(uint64(word))
	} else {
		t.SetUint64(uint64(word))
		t.Lsh(t, uint(8*(size-3)))
	}
	negative = word != 0 && (c&0x00800000) != 0
	overflow = word != 0 && (size > 34 || (word > 0xff && size > 33) || (word > 0xffff && size > 32))
	return
}

// EncodeCompact implements arith_uint256::GetCompact (non-negative values).
func EncodeCompact(t *big.Int) uint32 {
	size := uint32((t.BitLen() + 7) / 8)
	var c uint32
	if size <= 3 {
		c = uint32(t.Uint64() << (8 * (3 - size)))
	} else {
		c = uint32(new(big.Int).Rsh(t, uint(8*(size-3))).Uint64())
	}
	if c&0x00800000 != 0 {
		c >>= 8
		size++
	}
	return c | size<<24
}

// HashToBig interprets the hash as the little-endian 256-bit number Bitcoin compares with targets.
func HashToBig(h Hash) *big.Int {
	var be [32]byte
	for i := 0; i < 32; i++ {
		be[i] = h[31-i]
	}
	return new(big.Int).SetBytes(be[:])
}

// CheckPoW: hash meets the target encoded in bits and the target is in (0, powLimit].
func (p *Params) CheckPoW(h Hash, bits uint32) bool {
	t, neg, over := DecodeCompact(bits)
	if neg || over || t.Sign() == 0 || t.Cmp(p.PowLimit()) > 0 {
		return false
	}
	return HashToBig(h).Cmp(t) <= 0
}

// BlockWork = 2^256 / (target+1), the expected number of hashes, kept with 64 fractional bits (the value is only ever
// compared). Bitcoin Core keeps the integer part alone, which is exact enough for every target a real network allows
// (>= 2^32 hashes per block) but not for the simulation's: at the regtest-like limit 0x207fffff a block is worth
// 2.0000002 hashes and a block at a quarter of that target 8.0000038, so the integer parts (2 and 8) would call four
// easy blocks and one hard block a tie that exists on no real network. Equal multisets of targets still tie exactly.
func BlockWork(bits uint32) *big.Int {
	t, neg, over := DecodeCompact(bits)
	if neg || over || t.Sign() == 0 {
		return new(big.Int)
	}
	d := new(big.Int).Add(t, big.NewInt(1))
	return new(big.Int).Div(new(big.Int).Lsh(big.NewInt(1), 256+64), d)
}

type Coin struct {
	Value    uint64
	Script   []byte
	Height   uint32
	Coinbase bool
}

type Node struct {
	Hash          Hash
	Parent        *Node
	Height        uint32
	Time          uint32
	Bits          uint32
	Version       uint32
	Work          *big.Int // cumulative
	Block         *Block   // nil for genesis
	Seen          int      // delivery sequence number
	Invalid       bool     // found invalid when connecting (or descends from such)
	InvalidReason string
}

func (n *Node) Ancestor(h uint32) *Node {
	for n != nil && n.Height > h {
		n = n.Parent
	}
	return n
}

func (n *Node) MTP() uint32 {
	var ts []int
	for i, x := 0, n; i < 11 && x != nil; i, x = i+1, x.Parent {
		ts = append(ts, int(x.Time))
	}
	sort.Ints(ts)
	return uint32(ts[len(ts)/2])
}

// RequiredBits implements GetNextWorkRequired for a block with timestamp ts on top of prev.
func (p *Params) RequiredBits(prev *Node, ts uint32) uint32 {
	if (prev.Height+1)%Interval != 0 {
		if p.MinDiffBlocks {
			if int64(ts) > int64(prev.Time)+TargetSpacing*2 {
				return p.PowLimitBits
			}
			x := prev
			for x.Parent != nil && x.Height%Interval != 0 && x.Bits == p.PowLimitBits {
				x = x.Parent
			}
			return x.Bits
		}
		return prev.Bits
	}
	first := prev.Ancestor(prev.Height - (Interval - 1))
	span := int64(prev.Time) - int64(first.Time)
	if span < TargetTimespan/4 {
		span = TargetTimespan / 4
	}
	if span > TargetTimespan*4 {
		span = TargetTimespan * 4
	}
	base := prev.Bits
	if p.BIP94 {
		base = first.Bits
	}
	t, _, _ := DecodeCompact(base)
	t.Mul(t, big.NewInt(span))
	t.Div(t, big.NewInt(TargetTimespan))
	if t.Cmp(p.PowLimit()) > 0 {
		t = p.PowLimit()
	}
	return EncodeCompact(t)
}

func Subsidy(height uint32) uint64 {
	h := height / 210000
	if h >= 64 {
		return 0
	}
	return uint64(50*100000000) >> h
}

// ---- script-level helpers needed for sigop counting (consensus definitions)

// nextOp parses one opcode; ok=false on truncated push.
func nextOp(s []byte, pc int) (op byte, data []byte, npc int, ok bool) {
	if pc >= len(s) {
		return 0, nil, pc, false
	}
	op = s[pc]
	pc++
	if op <= 0x4e {
		var n int
		switch {
		case op < 0x4c:
			n = int(op)
		case op == 0x4c:
			if pc+1 > len(s) {
				return op, nil, pc, false
			}
			n = int(s[pc])
			pc++
		case op == 0x4d:
			if pc+2 > len(s) {
				return op, nil, pc, false
			}
			n = int(s[pc]) | int(s[pc+1])<<8
			pc += 2
		default:
			if pc+4 > len(s) {
				return op, nil, pc, false
			}
			n = int(s[pc]) | int(s[pc+1])<<8 | int(s[pc+2])<<16 | int(s[pc+3])<<24
			pc += 4
		}
		if n < 0 || pc+n > len(s) {
			return op, nil, pc, false
		}
		data = s[pc : pc+n]
		pc += n
	}
	return op, data, pc, true
}

// SigOpCount is CScript::GetSigOpCount(fAccurate).
func SigOpCount(s []byte, accurate bool) int {
	n := 0
	last := byte(0xff)
	for pc := 0; pc < len(s); {
		op, _, npc, ok := nextOp(s, pc)
		if !ok {
			break
		}
		pc = npc
		switch op {
		case 0xac, 0xad:
			n++
		case 0xae, 0xaf:
			if accurate && last >= 0x51 && last <= 0x60 {
				n += int(last) - 0x50
			} else {
				n += 20
			}
		}
		last = op
	}
	return n
}

func IsP2SH(s []byte) bool {
	return len(s) == 23 && s[0] == 0xa9 && s[1] == 0x14 && s[22] == 0x87
}

func isPushOnly(s []byte) bool {
	for pc := 0; pc < len(s); {
		op, _, npc, ok := nextOp(s, pc)
		if !ok || op > 0x60 {
			return false
		}
		pc = npc
	}
	return true
}

// p2shSigOps is CScript::GetSigOpCount(scriptSig) for a P2SH output.
func p2shSigOps(scriptSig []byte) int {
	var data []byte
	for pc := 0; pc < len(scriptSig); {
		op, d, npc, ok := nextOp(scriptSig, pc)
		if !ok || op > 0x60 {
			return 0
		}
		data = d
		pc = npc
	}
	return SigOpCount(data, true)
}

func witnessProgram(s []byte) (ver int, prog []byte, ok bool) {
	if len(s) < 4 || len(s) > 42 {
		return
	}
	if s[0] != 0 && (s[0] < 0x51 || s[0] > 0x60) {
		return
	}
	if int(s[1])+2 != len(s) {
		return
	}
	if s[0] != 0 {
		ver = int(s[0]) - 0x50
	}
	return ver, s[2:], true
}

func witnessSigOps(ver int, prog []byte, wit [][]byte) int {
	if ver == 0 {
		if len(prog) == 20 {
			return 1
		}
		if len(prog) == 32 && len(wit) > 0 {
			return SigOpCount(wit[len(wit)-1], true)
		}
	}
	return 0
}

func countWitnessSigOps(in *TxIn, spk []byte) int {
	if v, p, ok := witnessProgram(spk); ok {
		return witnessSigOps(v, p, in.Witness)
	}
	if IsP2SH(spk) && isPushOnly(in.ScriptSig) {
		var data []byte
		for pc := 0; pc < len(in.ScriptSig); {
			_, d, npc, ok := nextOp(in.ScriptSig, pc)
			if !ok {
				break
			}
			data = d
			pc = npc
		}
		if v, p, ok := witnessProgram(data); ok {
			return witnessSigOps(v, p, in.Witness)
		}
	}
	return 0
}

// ---- transaction / block checks

func moneyRange(v uint64) bool { return v <= MaxMoney } // v >= 2^63 is a negative amount: also out of range

func CheckTransaction(t *Tx) string {
	if len(t.In) == 0 {
		return "bad-txns-vin-empty"
	}
	if len(t.Out) == 0 {
		return "bad-txns-vout-empty"
	}
	if len(t.Serialize(false))*4 > MaxBlockWeight {
		return "bad-txns-oversize"
	}
	var sum uint64
	for _, o := range t.Out {
		if o.Value >= 1<<63 {
			return "bad-txns-vout-negative"
		}
		if o.Value > MaxMoney {
			return "bad-txns-vout-toolarge"
		}
		sum += o.Value
		if !moneyRange(sum) {
			return "bad-txns-txouttotal-toolarge"
		}
	}
	seen := map[OutPoint]bool{}
	for _, in := range t.In {
		if seen[in.Prev] {
			return "bad-txns-inputs-duplicate"
		}
		seen[in.Prev] = true
	}
	if t.IsCoinbase() {
		if l := len(t.In[0].ScriptSig); l < 2 || l > 100 {
			return "bad-cb-length"
		}
	} else {
		for _, in := range t.In {
			if in.Prev.Idx == 0xffffffff && in.Prev.Hash == (Hash{}) {
				return "bad-txns-prevout-null"
			}
		}
	}
	return ""
}

func IsFinal(t *Tx, height uint32, cutoff uint32) bool {
	if t.LockTime == 0 {
		return true
	}
	lim := cutoff
	if t.LockTime < LocktimeThresh {
		lim = height
	}
	if t.LockTime < lim {
		return true
	}
	for _, in := range t.In {
		if in.Sequence != 0xffffffff {
			return false
		}
	}
	return true
}

// ScriptNumHeight is the minimal CScriptNum push of a height as BIP34 requires it.
func BIP34Prefix(h uint32) []byte {
	if h == 0 {
		return []byte{0x00}
	}
	if h <= 16 {
		// Core: CScript() << nHeight yields OP_N for 1..16
		return []byte{0x50 + byte(h)}
	}
	var b []byte
	v := h
	for v > 0 {
		b = append(b, byte(v))
		v >>= 8
	}
	if b[len(b)-1]&0x80 != 0 {
		b = append(b, 0)
	}
	return append([]byte{byte(len(b))}, b...)
}

var commitHdr = []byte{0x6a, 0x24, 0xaa, 0x21, 0xa9, 0xed}

// CheckBlockContextFree+Contextual: everything that does not need the UTXO set.
// now = local time used for the two-hour rule.
func (p *Params) CheckBlock(b *Block, prev *Node, now int64) string {
	height := prev.Height + 1
	if !p.CheckPoW(b.Hash(), b.Bits) {
		return "high-hash"
	}
	if b.Bits != p.RequiredBits(prev, b.Time) {
		return "bad-diffbits"
	}
	if b.Time <= prev.MTP() {
		return "time-too-old"
	}
	if int64(b.Time) > now+7200 {
		return "time-too-new"
	}
	if (b.Version < 2 && height >= p.BIP34) || (b.Version < 3 && height >= p.BIP66) || (b.Version < 4 && height >= p.BIP65) {
		return "bad-version"
	}
	txs := b.WireTxs()
	if len(txs) == 0 {
		return "bad-blk-length"
	}
	root, mutated := b.ComputeMerkle()
	if root != b.Merkle {
		return "bad-txnmrklroot"
	}
	if mutated {
		return "bad-txns-duplicate"
	}
	if !txs[0].IsCoinbase() {
		return "bad-cb-missing"
	}
	for _, t := range txs[1:] {
		if t.IsCoinbase() {
			return "bad-cb-multiple"
		}
	}
	for _, t := range txs {
		if r := CheckTransaction(t); r != "" {
			return r
		}
	}
	csv := p.CSV != 0 && height >= p.CSV
	cutoff := b.Time
	if csv {
		cutoff = prev.MTP()
	}
	for _, t := range txs {
		if !IsFinal(t, height, cutoff) {
			return "bad-txns-nonfinal"
		}
	}
	if height >= p.BIP34 {
		if !bytes.HasPrefix(txs[0].In[0].ScriptSig, BIP34Prefix(height)) {
			return "bad-cb-height"
		}
	}
	haveWitness := false
	if p.Segwit != 0 && height >= p.Segwit {
		cb := txs[0]
		for i := len(cb.Out) - 1; i >= 0; i-- {
			s := cb.Out[i].Script
			if len(s) >= 38 && bytes.Equal(s[:6], commitHdr) {
				w := cb.In[0].Witness
				if len(w) != 1 || len(w[0]) != 32 {
					return "bad-witness-nonce-size"
				}
				wr := b.WitnessMerkle()
				c := DSHA(append(append([]byte{}, wr[:]...), w[0]...))
				if !bytes.Equal(c[:], s[6:38]) {
					return "bad-witness-merkle-match"
				}
				haveWitness = true
				break
			}
		}
	}
	if !haveWitness {
		for _, t := range txs {
			if t.HasWitness() {
				return "unexpected-witness"
			}
		}
	}
	if b.Weight() > MaxBlockWeight {
		return "bad-blk-weight"
	}
	return ""
}

type UTXO map[OutPoint]Coin

// Connect validates the block against view (the UTXO set of its parent) and returns the set of
// changes (spent, created) or a reject reason. view is not modified.
func (p *Params) Connect(b *Block, node *Node, view UTXO) (spent []OutPoint, created map[OutPoint]Coin, reason string) {
	height := node.Height
	txs := b.WireTxs()
	created = map[OutPoint]Coin{}
	spentSet := map[OutPoint]bool{}
	segwit := p.Segwit != 0 && height >= p.Segwit
	csv := p.CSV != 0 && height >= p.CSV
	p2sh := b.Time >= p.BIP16Time
	sigops := 0
	var fees uint64
	lookup := func(o OutPoint) (Coin, bool) {
		if spentSet[o] {
			return Coin{}, false
		}
		if c, ok := created[o]; ok {
			return c, true
		}
		c, ok := view[o]
		return c, ok
	}
	for ti, t := range txs {
		id := t.TxID()
		// BIP30: a transaction may not overwrite an existing unspent output
		// (Core keeps no coin for an unspendable output - OP_RETURN first or longer than 10,000 bytes - so such a
		// leftover does not count)
		for oi := range t.Out {
			if c, ok := lookup(OutPoint{id, uint32(oi)}); ok && !(len(c.Script) > 0 && c.Script[0] == 0x6a) && len(c.Script) <= 10000 {
				return nil, nil, "bad-txns-BIP30"
			}
		}
		for _, in := range t.In {
			sigops += 4 * SigOpCount(in.ScriptSig, false)
		}
		for _, o := range t.Out {
			sigops += 4 * SigOpCount(o.Script, false)
		}
		if ti > 0 {
			var inSum uint64
			coins := make([]Coin, len(t.In))
			for ii := range t.In {
				in := &t.In[ii]
				c, ok := lookup(in.Prev)
				if !ok {
					return nil, nil, "bad-txns-inputs-missingorspent"
				}
				coins[ii] = c
				if c.Coinbase && height-c.Height < CoinbaseMaturity {
					return nil, nil, "bad-txns-premature-spend-of-coinbase"
				}
				inSum += c.Value
				if !moneyRange(c.Value) || !moneyRange(inSum) {
					return nil, nil, "bad-txns-inputvalues-outofrange"
				}
			}
			var outSum uint64
			for _, o := range t.Out {
				outSum += o.Value
			}
			if inSum < outSum {
				return nil, nil, "bad-txns-in-belowout"
			}
			fee := inSum - outSum
			if !moneyRange(fee) {
				return nil, nil, "bad-txns-fee-outofrange"
			}
			fees += fee
			if !moneyRange(fees) {
				return nil, nil, "bad-txns-accumulated-fee-outofrange"
			}
			// BIP68
			if csv && t.Version >= 2 {
				minH, minT := int64(-1), int64(-1)
				for ii := range t.In {
					seq := t.In[ii].Sequence
					if seq&seqDisable != 0 {
						continue
					}
					ch := coins[ii].Height
					if seq&seqTypeFlag != 0 {
						var anc uint32
						if ch > 0 {
							anc = ch - 1
						}
						ct := int64(node.Ancestor(anc).MTP())
						v := ct + int64(seq&seqMask)<<9 - 1
						if v > minT {
							minT = v
						}
					} else {
						v := int64(ch) + int64(seq&seqMask) - 1
						if v > minH {
							minH = v
						}
					}
				}
				if minH >= int64(height) || minT >= int64(node.Parent.MTP()) {
					return nil, nil, "bad-txns-nonfinal(BIP68)"
				}
			}
			for ii := range t.In {
				in := &t.In[ii]
				if p2sh && IsP2SH(coins[ii].Script) {
					sigops += 4 * p2shSigOps(in.ScriptSig)
				}
				if segwit {
					sigops += countWitnessSigOps(in, coins[ii].Script)
				}
			}
			if sigops > MaxSigopsCost {
				return nil, nil, "bad-blk-sigops"
			}
			for ii := range t.In {
				if t.ScriptInvalid != nil && t.ScriptInvalid[ii] {
					return nil, nil, "mandatory-script-verify-flag-failed"
				}
			}
			for ii := range t.In {
				spentSet[t.In[ii].Prev] = true
				delete(created, t.In[ii].Prev)
				spent = append(spent, t.In[ii].Prev)
			}
		}
		for oi, o := range t.Out {
			created[OutPoint{id, uint32(oi)}] = Coin{Value: o.Value, Script: o.Script, Height: height, Coinbase: ti == 0}
		}
	}
	if sigops > MaxSigopsCost {
		return nil, nil, "bad-blk-sigops"
	}
	var cbOut uint64
	for _, o := range txs[0].Out {
		cbOut += o.Value
	}
	if cbOut > Subsidy(height)+fees {
		return nil, nil, "bad-cb-amount"
	}
	// spent lists only confirmed outpoints that existed in view
	var sp []OutPoint
	for _, o := range spent {
		if _, ok := view[o]; ok {
			sp = append(sp, o)
		}
	}
	return sp, created, ""
}
