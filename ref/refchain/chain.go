package refchain

import (
	"fmt"
	"math/big"
	"sort"
)

// Chain is the reference node: block tree, fork choice, UTXO set of the active tip.
type Chain struct {
	P       Params
	Nodes   map[Hash]*Node
	Genesis *Node
	Tip     *Node
	Utxo    UTXO
	seq     int
	Now     func() int64

	Reorgs, FailedReorgs, MaxReorgDepth, Ties int
}

func NewChain(p Params, now func() int64) *Chain {
	g := &Node{Hash: p.GenesisHash, Height: 0, Time: p.GenesisTime, Bits: p.PowLimitBits, Version: 1, Work: new(big.Int)}
	return &Chain{P: p, Nodes: map[Hash]*Node{g.Hash: g}, Genesis: g, Tip: g, Utxo: UTXO{}, Now: now}
}

type Result struct {
	Stage      string // "duplicate" | "orphan" | "check-refused" | "stored" (side branch, tip unchanged) | "connected" | "connect-refused"
	Reason     string
	Node       *Node
	TipChanged bool
}

func (n *Node) invalidChain() bool {
	for x := n; x != nil; x = x.Parent {
		if x.Invalid {
			return true
		}
	}
	return false
}

// path from (exclusive) ancestor a to n, ascending
func pathFrom(a, n *Node) []*Node {
	var p []*Node
	for x := n; x != a; x = x.Parent {
		p = append(p, x)
	}
	for i, j := 0, len(p)-1; i < j; i, j = i+1, j-1 {
		p[i], p[j] = p[j], p[i]
	}
	return p
}

func forkPoint(a, b *Node) *Node {
	for a.Height > b.Height {
		a = a.Parent
	}
	for b.Height > a.Height {
		b = b.Parent
	}
	for a != b {
		a, b = a.Parent, b.Parent
	}
	return a
}

// replay computes the UTXO set of node n from genesis; returns the first invalid node if any.
func (c *Chain) replay(n *Node) (UTXO, *Node, string) {
	u := UTXO{}
	for _, x := range pathFrom(c.Genesis, n) {
		sp, cr, r := c.P.Connect(x.Block, x, u)
		if r != "" {
			return nil, x, r
		}
		for _, o := range sp {
			delete(u, o)
		}
		for k, v := range cr {
			u[k] = v
		}
	}
	return u, nil, ""
}

// ReplayTip recomputes the UTXO set of the current tip from genesis (used as a self-check and as
// the "replay" oracle of C06/C07).
func (c *Chain) ReplayTip() UTXO {
	u, bad, _ := c.replay(c.Tip)
	if bad != nil {
		panic("refchain: active chain does not replay")
	}
	return u
}

// Deliver hands a block to the reference node.
func (c *Chain) Deliver(b *Block) Result {
	h := b.Hash()
	if n, ok := c.Nodes[h]; ok {
		return Result{Stage: "duplicate", Node: n}
	}
	prev, ok := c.Nodes[b.Prev]
	if !ok {
		return Result{Stage: "orphan", Reason: "bad-prevblk"}
	}
	if prev.invalidChain() {
		return Result{Stage: "check-refused", Reason: "bad-prevblk(invalid ancestor)"}
	}
	if r := c.P.CheckBlock(b, prev, c.Now()); r != "" {
		return Result{Stage: "check-refused", Reason: r}
	}
	c.seq++
	n := &Node{Hash: h, Parent: prev, Height: prev.Height + 1, Time: b.Time, Bits: b.Bits, Version: b.Version,
		Work: new(big.Int).Add(prev.Work, BlockWork(b.Bits)), Block: b, Seen: c.seq}
	c.Nodes[h] = n

	res := Result{Stage: "stored", Node: n}
	oldTip := c.Tip
	for first := true; ; first = false {
		var best *Node
		if first && prev == c.Tip {
			// fast path (same result as the general search): a block extending the tip has strictly more
			// work than every other known block, because the tip is a maximum and work per block is > 0
			best = n
		} else {
			best = c.bestCandidate()
		}
		if best == c.Tip {
			break
		}
		if best.Parent == c.Tip {
			sp, cr, r := c.P.Connect(best.Block, best, c.Utxo)
			if r != "" {
				best.Invalid, best.InvalidReason = true, r
				if best == n {
					res.Stage, res.Reason = "connect-refused", r
				}
				continue
			}
			for _, o := range sp {
				delete(c.Utxo, o)
			}
			for k, v := range cr {
				c.Utxo[k] = v
			}
			c.Tip = best
			continue
		}
		// reorganisation candidate: validate by replay from genesis
		u, bad, r := c.replay(best)
		if bad != nil {
			bad.Invalid, bad.InvalidReason = true, r
			c.FailedReorgs++
			if bad == n {
				res.Stage, res.Reason = "connect-refused", r
			}
			continue
		}
		fp := forkPoint(c.Tip, best)
		if d := int(c.Tip.Height - fp.Height); d > 0 {
			c.Reorgs++
			if d > c.MaxReorgDepth {
				c.MaxReorgDepth = d
			}
		}
		c.Utxo = u
		c.Tip = best
	}
	if c.Tip != oldTip {
		res.TipChanged = true
		if c.Tip == n {
			res.Stage = "connected"
		}
	} else if n.Work.Cmp(c.Tip.Work) == 0 && !n.invalidChain() {
		c.Ties++
	}
	if n.Invalid && res.Stage == "stored" {
		res.Stage, res.Reason = "connect-refused", n.InvalidReason
	}
	return res
}

// bestCandidate: among all known blocks without an invalid ancestor, the one with the greatest
// cumulative work; ties are won by the block seen first - and the current tip is kept on a tie.
func (c *Chain) bestCandidate() *Node {
	var cands []*Node
	for _, n := range c.Nodes {
		if n.Work.Cmp(c.Tip.Work) > 0 && !n.invalidChain() {
			cands = append(cands, n)
		}
	}
	if len(cands) == 0 {
		if !c.Tip.invalidChain() {
			return c.Tip
		}
		// cannot happen: the tip is always valid
		return c.Tip
	}
	sort.Slice(cands, func(i, j int) bool {
		if k := cands[i].Work.Cmp(cands[j].Work); k != 0 {
			return k > 0
		}
		return cands[i].Seen < cands[j].Seen
	})
	return cands[0]
}

// UtxoAt recomputes, by replay from genesis, the UTXO set after the block with the given hash.
// ok=false when the block is unknown or its chain does not validate.
func (c *Chain) UtxoAt(h Hash) (UTXO, bool) {
	n, ok := c.Nodes[h]
	if !ok {
		return nil, false
	}
	u, bad, _ := c.replay(n)
	if bad != nil {
		return nil, false
	}
	return u, true
}

// InvalidBlocks lists the blocks the reference found invalid while connecting them ("<hash> h=<height> <reason>"),
// for witnesses.
func (c *Chain) InvalidBlocks() []string {
	var l []string
	for _, n := range c.Nodes {
		if n.Invalid && n.InvalidReason != "" {
			l = append(l, fmt.Sprintf("%s h=%d %s", n.Hash, n.Height, n.InvalidReason))
		}
	}
	sort.Strings(l)
	return l
}
