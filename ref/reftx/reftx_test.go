package reftx

import "testing"

func TestCalibrate(t *testing.T) {
	st, err := Calibrate("/repo/lib/test")
	if err != nil {
		t.Fatal(err)
	}
	t.Logf("%+v", st)
}
