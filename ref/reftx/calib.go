package reftx

import (
	"bytes"
	"encoding/hex"
	"encoding/json"
	"fmt"
	"os"
	"path/filepath"
)

// The mainnet genesis block (285 bytes). Its hash and Merkle root are public constants; the check
// below recomputes both, so a typo in this constant cannot go unnoticed.
const genesisBlockHex = "0100000000000000000000000000000000000000000000000000000000000000000000003ba3edfd7a7b12b27ac72c3e67768f617fc81bc3888a51323a9fb8aa4b1e5e4a29ab5f49ffff001d1dac2b7c" +
	"01" +
	"01000000010000000000000000000000000000000000000000000000000000000000000000ffffffff4d04ffff001d0104455468652054696d65732030332f4a616e2f32303039204368616e63656c6c6f72206f6e206272696e6b206f66207365636f6e64206261696c6f757420666f722062616e6b73ffffffff0100f2052a01000000434104678afdb0fe5548271967f1a67130b7105cd6a828e03909a67962e0ea1f61deb649f6bc3f4cef38c4f35504e51ec112de5c384df7ba0b8d578a4c702b6bf11d5fac00000000"

const (
	genesisHashDisplay   = "000000000019d6689c085ae165831e934ff763ae46a2a6c172b3f1b60a8ce26f"
	genesisMerkleDisplay = "4a5e1e4baab89f3a32518a88c31bc87f618f76673e2cc77ab2127b7afdeda33b"
)

// DisplayHex renders a hash the way Bitcoin prints uint256 (byte-reversed hex).
func DisplayHex(h [32]byte) string {
	var r [32]byte
	for i := range h {
		r[i] = h[31-i]
	}
	return hex.EncodeToString(r[:])
}

// CalibStats reports what the calibration covered.
type CalibStats struct {
	TxVectors      int
	WitnessVectors int
	RefusalProbes  int
}

// Calibrate checks the codec against every transaction of tx_valid.json / tx_invalid.json in
// testDir (decode, full consumption, byte-identical re-encoding, txid == hash of the stripped
// form, stripped form decodes to the same txid), the genesis block (hash, Merkle root, weight)
// and a table of refusals taken from Core's serialize.h semantics.
func Calibrate(testDir string) (CalibStats, error) {
	var st CalibStats
	for _, fn := range []string{"tx_valid.json", "tx_invalid.json"} {
		raw, err := os.ReadFile(filepath.Join(testDir, fn))
		if err != nil {
			return st, err
		}
		var arr []json.RawMessage
		if err := json.Unmarshal(raw, &arr); err != nil {
			return st, fmt.Errorf("%s: %v", fn, err)
		}
		for n, el := range arr {
			var rec []json.RawMessage
			if json.Unmarshal(el, &rec) != nil || len(rec) != 3 {
				continue
			}
			var txhex string
			if json.Unmarshal(rec[1], &txhex) != nil {
				continue
			}
			b, err := hex.DecodeString(txhex)
			if err != nil {
				return st, fmt.Errorf("%s[%d]: bad hex", fn, n)
			}
			t, used, err := Decode(b)
			if err != nil {
				return st, fmt.Errorf("%s[%d]: refused (%v) %s", fn, n, err, txhex)
			}
			if used != len(b) {
				return st, fmt.Errorf("%s[%d]: consumed %d of %d", fn, n, used, len(b))
			}
			if !bytes.Equal(t.Serialize(true), b) {
				return st, fmt.Errorf("%s[%d]: re-encoding differs", fn, n)
			}
			st.TxVectors++
			stripped := t.Serialize(false)
			if t.Txid() != DoubleSHA256(stripped) {
				return st, fmt.Errorf("%s[%d]: txid", fn, n)
			}
			if t.HasWitness() {
				st.WitnessVectors++
				if len(stripped) >= len(b) || t.Weight() != 3*len(stripped)+len(b) {
					return st, fmt.Errorf("%s[%d]: weight", fn, n)
				}
				t2, u2, err := Decode(stripped)
				if err != nil || u2 != len(stripped) || t2.Txid() != t.Txid() || t2.HasWitness() {
					return st, fmt.Errorf("%s[%d]: stripped form", fn, n)
				}
				if t.Wtxid() != DoubleSHA256(b) || t.Wtxid() == t.Txid() {
					return st, fmt.Errorf("%s[%d]: wtxid", fn, n)
				}
			} else if t.Wtxid() != t.Txid() || t.Weight() != 4*len(b) || t.VSize() != len(b) {
				return st, fmt.Errorf("%s[%d]: legacy sizes", fn, n)
			}
		}
	}
	if st.TxVectors < 150 || st.WitnessVectors < 20 {
		return st, fmt.Errorf("too few vectors read (%d, %d witness)", st.TxVectors, st.WitnessVectors)
	}

	// genesis block
	gb, _ := hex.DecodeString(genesisBlockHex)
	bl, used, err := DecodeBlock(gb)
	if err != nil || used != len(gb) || len(gb) != 285 {
		return st, fmt.Errorf("genesis block: %v used=%d len=%d", err, used, len(gb))
	}
	if DisplayHex(bl.Hash()) != genesisHashDisplay {
		return st, fmt.Errorf("genesis hash %s", DisplayHex(bl.Hash()))
	}
	root, mut := bl.TxMerkleRoot()
	if mut || DisplayHex(root) != genesisMerkleDisplay || root != bl.Header.MerkleRoot {
		return st, fmt.Errorf("genesis merkle root %s", DisplayHex(root))
	}
	if bl.Weight() != 285*4 || !bytes.Equal(bl.Serialize(true), gb) || !bl.Txs[0].IsCoinBase() {
		return st, fmt.Errorf("genesis block weight/serialisation")
	}

	// Merkle: three leaves (a,b,c) == four leaves (a,b,c,c) with the mutation flag on the latter
	a, b, c := SHA256([]byte("a")), SHA256([]byte("b")), SHA256([]byte("c"))
	r3, m3 := MerkleRoot([][32]byte{a, b, c})
	r4, m4 := MerkleRoot([][32]byte{a, b, c, c})
	if r3 != r4 || m3 || !m4 {
		return st, fmt.Errorf("merkle mutation flag")
	}
	if r, m := MerkleRoot(nil); r != ([32]byte{}) || m {
		return st, fmt.Errorf("merkle of empty list")
	}
	ab := DoubleSHA256(append(append([]byte{}, a[:]...), b[:]...))
	cc := DoubleSHA256(append(append([]byte{}, c[:]...), c[:]...))
	if r3 != DoubleSHA256(append(append([]byte{}, ab[:]...), cc[:]...)) {
		return st, fmt.Errorf("merkle of three")
	}

	// refusal table (hand-derived from serialize.h / transaction.h)
	legacy := "01000000" + "01" + "00000000000000000000000000000000000000000000000000000000000000aa" + "01000000" + "00" + "ffffffff" + "01" + "0100000000000000" + "00" + "00000000"
	type probe struct{ hex, reason string }
	in1 := "00000000000000000000000000000000000000000000000000000000000000aa" + "01000000" + "00" + "ffffffff"
	out1 := "0100000000000000" + "00"
	probes := []probe{
		{legacy, ""},
		{legacy[:len(legacy)-2], ErrEndOfData},
		{"01000000", ErrEndOfData},
		{"", ErrEndOfData},
		{"01000000" + "fd0100" + in1 + "01" + out1 + "00000000", ErrNonCanonical},
		{"01000000" + "fe01000000" + in1 + "01" + out1 + "00000000", ErrNonCanonical},
		{"01000000" + "ff0100000000000000" + in1 + "01" + out1 + "00000000", ErrNonCanonical},
		{"01000000" + "01" + in1 + "fd0100" + out1 + "00000000", ErrNonCanonical},
		{"01000000" + "fe01000002", ErrSizeTooLarge},         // 0x02000001 inputs
		{"01000000" + "fe00000002", ErrEndOfData},            // exactly MAX_SIZE inputs, no data
		{"01000000" + "ff0000000000010000", ErrSizeTooLarge}, // 2^40 inputs
		{"01000000" + "0000" + "00000000", ""},               // dummy, flags 0: empty tx
		{"01000000" + "0001" + "01" + in1 + "01" + out1 + "00" + "00000000", ErrSuperfluousWit},
		{"01000000" + "0001" + "00" + "01" + out1 + "00000000", ErrSuperfluousWit}, // flag 1, no inputs
		{"01000000" + "0001" + "01" + in1 + "01" + out1 + "0100" + "00000000", ""}, // one empty item: has witness
		{"01000000" + "0002" + "01" + in1 + "01" + out1 + "00000000", ErrUnknownOptional},
		{"01000000" + "0003" + "01" + in1 + "01" + out1 + "0100" + "00000000", ErrUnknownOptional},
		{"01000000" + "0003" + "01" + in1 + "01" + out1 + "00" + "00000000", ErrSuperfluousWit},
		{"01000000" + "0001" + "01" + in1 + "01" + out1 + "01fd0100aa" + "00000000", ErrNonCanonical},
		{"01000000" + "0001" + "01" + in1 + "01" + out1 + "0102aa" + "00000000", ErrEndOfData},
	}
	for i, p := range probes {
		b, err := hex.DecodeString(p.hex)
		if err != nil {
			return st, fmt.Errorf("probe %d: bad hex", i)
		}
		t, used, derr := Decode(b)
		if ReasonOf(derr) != p.reason {
			return st, fmt.Errorf("probe %d (%s): got %q want %q", i, p.hex, ReasonOf(derr), p.reason)
		}
		if derr == nil {
			if used != len(b) || !bytes.Equal(t.Serialize(true), b) {
				return st, fmt.Errorf("probe %d: round trip", i)
			}
		}
		st.RefusalProbes++
	}
	// without allow_witness the marker is an empty vin followed by a vout
	if t, _, err := DecodeExt(mustHex("01000000"+"00"+"01"+out1+"00000000"), false); err != nil || len(t.In) != 0 || len(t.Out) != 1 {
		return st, fmt.Errorf("no-witness decode")
	}
	return st, nil
}

func mustHex(s string) []byte {
	b, err := hex.DecodeString(s)
	if err != nil {
		panic(err)
	}
	return b
}
