// Package reftx is the reference wire codec for Bitcoin transactions and blocks used by the
// monitors in /verif. It follows Bitcoin Core's (de)serialiser semantics exactly:
//
//   - ReadCompactSize: non-minimal encodings are refused ("non-canonical ReadCompactSize()"),
//     vector counts and byte-vector lengths above MAX_SIZE (0x02000000) are refused
//     ("ReadCompactSize(): size too large");
//   - UnserializeTransaction (allow_witness): a vin count of 0 is the extended-format marker, the
//     next byte is the flag byte; flag 0 => empty vin and empty vout; flag bit 0 => witness stacks
//     follow the outputs; "Superfluous witness record" when bit 0 is set and every stack is empty;
//     "Unknown transaction optional data" when any other flag bit is set;
//   - running out of bytes anywhere => "end of data".
//
// Written from the specification (BIP141/BIP144, Core's serialize.h / transaction.h), stdlib only.
// It imports nothing from the code under test.
package reftx

import (
	"crypto/sha256"
	"encoding/binary"
)

const (
	MaxSize            = 0x02000000 // Core: MAX_SIZE, upper limit of any vector count / byte length
	WitnessScaleFactor = 4
	MaxBlockWeight     = 4000000
)

// Reasons (Core's wording where it exists).
const (
	ErrEndOfData       = "end of data"
	ErrNonCanonical    = "non-canonical ReadCompactSize()"
	ErrSizeTooLarge    = "ReadCompactSize(): size too large"
	ErrSuperfluousWit  = "Superfluous witness record"
	ErrUnknownOptional = "Unknown transaction optional data"
)

// Error is a refusal of the deserialiser with its reason.
type Error struct {
	Reason string
	Offset int // offset in the input at which the refusal was raised
}

func (e *Error) Error() string { return e.Reason }

// ReasonOf returns the reason string of an error produced by this package ("" for nil).
func ReasonOf(err error) string {
	if err == nil {
		return ""
	}
	if e, ok := err.(*Error); ok {
		return e.Reason
	}
	return err.Error()
}

type TxIn struct {
	PrevHash  [32]byte
	PrevIndex uint32
	ScriptSig []byte
	Sequence  uint32
	Witness   [][]byte
}

type TxOut struct {
	Value    int64 // CAmount; serialised as 8 bytes little endian two's complement
	PkScript []byte
}

type Tx struct {
	Version  uint32
	In       []TxIn
	Out      []TxOut
	LockTime uint32
}

// ---------------------------------------------------------------------------------------------
// hashing

func SHA256(b []byte) [32]byte { return sha256.Sum256(b) }

func DoubleSHA256(b []byte) [32]byte {
	h := sha256.Sum256(b)
	return sha256.Sum256(h[:])
}

// ---------------------------------------------------------------------------------------------
// reader

type reader struct {
	b   []byte
	pos int
}

func (r *reader) fail(reason string) *Error { return &Error{Reason: reason, Offset: r.pos} }

func (r *reader) need(n int) *Error {
	if n < 0 || len(r.b)-r.pos < n {
		return r.fail(ErrEndOfData)
	}
	return nil
}

func (r *reader) u8() (byte, *Error) {
	if e := r.need(1); e != nil {
		return 0, e
	}
	v := r.b[r.pos]
	r.pos++
	return v, nil
}

func (r *reader) u16() (uint16, *Error) {
	if e := r.need(2); e != nil {
		return 0, e
	}
	v := binary.LittleEndian.Uint16(r.b[r.pos:])
	r.pos += 2
	return v, nil
}

func (r *reader) u32() (uint32, *Error) {
	if e := r.need(4); e != nil {
		return 0, e
	}
	v := binary.LittleEndian.Uint32(r.b[r.pos:])
	r.pos += 4
	return v, nil
}

func (r *reader) u64() (uint64, *Error) {
	if e := r.need(8); e != nil {
		return 0, e
	}
	v := binary.LittleEndian.Uint64(r.b[r.pos:])
	r.pos += 8
	return v, nil
}

// compactSize is Core's ReadCompactSize(is, range_check=true).
func (r *reader) compactSize() (uint64, *Error) {
	start := r.pos
	ch, e := r.u8()
	if e != nil {
		return 0, e
	}
	var v uint64
	switch {
	case ch < 253:
		v = uint64(ch)
	case ch == 253:
		x, e := r.u16()
		if e != nil {
			return 0, e
		}
		v = uint64(x)
		if v < 253 {
			return 0, &Error{ErrNonCanonical, start}
		}
	case ch == 254:
		x, e := r.u32()
		if e != nil {
			return 0, e
		}
		v = uint64(x)
		if v < 0x10000 {
			return 0, &Error{ErrNonCanonical, start}
		}
	default:
		x, e := r.u64()
		if e != nil {
			return 0, e
		}
		v = x
		if v < 0x100000000 {
			return 0, &Error{ErrNonCanonical, start}
		}
	}
	if v > MaxSize {
		return 0, &Error{ErrSizeTooLarge, start}
	}
	return v, nil
}

// byteVector reads a CompactSize length followed by that many bytes (std::vector<unsigned char>,
// CScript). The result is a copy.
func (r *reader) byteVector() ([]byte, *Error) {
	n, e := r.compactSize()
	if e != nil {
		return nil, e
	}
	if e := r.need(int(n)); e != nil {
		// Core reads in chunks and fails when the stream runs dry
		r.pos = len(r.b)
		return nil, r.fail(ErrEndOfData)
	}
	out := make([]byte, n)
	copy(out, r.b[r.pos:r.pos+int(n)])
	r.pos += int(n)
	return out, nil
}

func (r *reader) txIns() ([]TxIn, *Error) {
	n, e := r.compactSize()
	if e != nil {
		return nil, e
	}
	var ins []TxIn // grown element by element: never sized by the claimed count
	for i := uint64(0); i < n; i++ {
		var in TxIn
		if e := r.need(32); e != nil {
			return nil, e
		}
		copy(in.PrevHash[:], r.b[r.pos:])
		r.pos += 32
		if in.PrevIndex, e = r.u32(); e != nil {
			return nil, e
		}
		if in.ScriptSig, e = r.byteVector(); e != nil {
			return nil, e
		}
		if in.Sequence, e = r.u32(); e != nil {
			return nil, e
		}
		ins = append(ins, in)
	}
	return ins, nil
}

func (r *reader) txOuts() ([]TxOut, *Error) {
	n, e := r.compactSize()
	if e != nil {
		return nil, e
	}
	var outs []TxOut
	for i := uint64(0); i < n; i++ {
		var o TxOut
		v, e := r.u64()
		if e != nil {
			return nil, e
		}
		o.Value = int64(v)
		if o.PkScript, e = r.byteVector(); e != nil {
			return nil, e
		}
		outs = append(outs, o)
	}
	return outs, nil
}

func (r *reader) witnessStack() ([][]byte, *Error) {
	n, e := r.compactSize()
	if e != nil {
		return nil, e
	}
	var st [][]byte
	for i := uint64(0); i < n; i++ {
		it, e := r.byteVector()
		if e != nil {
			return nil, e
		}
		st = append(st, it)
	}
	return st, nil
}

// tx is Core's UnserializeTransaction.
func (r *reader) tx(allowWitness bool) (*Tx, *Error) {
	var t Tx
	var e *Error
	if t.Version, e = r.u32(); e != nil {
		return nil, e
	}
	var flags byte
	// Try to read the vin. In case the dummy is there, this will be read as an empty vector.
	if t.In, e = r.txIns(); e != nil {
		return nil, e
	}
	if len(t.In) == 0 && allowWitness {
		// We read a dummy or an empty vin.
		if flags, e = r.u8(); e != nil {
			return nil, e
		}
		if flags != 0 {
			if t.In, e = r.txIns(); e != nil {
				return nil, e
			}
			if t.Out, e = r.txOuts(); e != nil {
				return nil, e
			}
		}
	} else {
		// We read a non-empty vin. Assume a normal vout follows.
		if t.Out, e = r.txOuts(); e != nil {
			return nil, e
		}
	}
	if flags&1 != 0 && allowWitness {
		flags ^= 1
		for i := range t.In {
			if t.In[i].Witness, e = r.witnessStack(); e != nil {
				return nil, e
			}
		}
		if !t.HasWitness() {
			// It's illegal to encode witnesses when all witness stacks are empty.
			return nil, r.fail(ErrSuperfluousWit)
		}
	}
	if flags != 0 {
		return nil, r.fail(ErrUnknownOptional)
	}
	if t.LockTime, e = r.u32(); e != nil {
		return nil, e
	}
	return &t, nil
}

// Decode decodes one transaction from the start of b (witness format allowed) and returns it
// together with the number of bytes consumed.
func Decode(b []byte) (*Tx, int, error) { return DecodeExt(b, true) }

// DecodeExt is Decode with Core's allow_witness parameter.
func DecodeExt(b []byte, allowWitness bool) (*Tx, int, error) {
	r := &reader{b: b}
	t, e := r.tx(allowWitness)
	if e != nil {
		return nil, 0, e
	}
	return t, r.pos, nil
}

// ReadCompactSize decodes one CompactSize (canonical, <= MAX_SIZE) from the start of b.
func ReadCompactSize(b []byte) (uint64, int, error) {
	r := &reader{b: b}
	v, e := r.compactSize()
	if e != nil {
		return 0, 0, e
	}
	return v, r.pos, nil
}

// ---------------------------------------------------------------------------------------------
// writer

// AppendCompactSize appends the canonical CompactSize encoding of v.
func AppendCompactSize(b []byte, v uint64) []byte {
	switch {
	case v < 253:
		return append(b, byte(v))
	case v <= 0xffff:
		return append(b, 253, byte(v), byte(v>>8))
	case v <= 0xffffffff:
		return append(b, 254, byte(v), byte(v>>8), byte(v>>16), byte(v>>24))
	default:
		b = append(b, 255)
		return binary.LittleEndian.AppendUint64(b, v)
	}
}

// CompactSizeLen is the length of the canonical CompactSize encoding of v.
func CompactSizeLen(v uint64) int {
	switch {
	case v < 253:
		return 1
	case v <= 0xffff:
		return 3
	case v <= 0xffffffff:
		return 5
	}
	return 9
}

func appendBytes(b, v []byte) []byte {
	b = AppendCompactSize(b, uint64(len(v)))
	return append(b, v...)
}

// AppendTxOut appends the CTxOut serialisation (value, script with length prefix).
func AppendTxOut(b []byte, o *TxOut) []byte {
	b = binary.LittleEndian.AppendUint64(b, uint64(o.Value))
	return appendBytes(b, o.PkScript)
}

// AppendOutPoint appends hash and index of input i's previous output.
func AppendOutPoint(b []byte, in *TxIn) []byte {
	b = append(b, in.PrevHash[:]...)
	return binary.LittleEndian.AppendUint32(b, in.PrevIndex)
}

// HasWitness reports whether any input carries a non-empty witness stack.
func (t *Tx) HasWitness() bool {
	for i := range t.In {
		if len(t.In[i].Witness) != 0 {
			return true
		}
	}
	return false
}

// Serialize is Core's SerializeTransaction: the extended format is used iff withWitness and the
// transaction has a witness.
func (t *Tx) Serialize(withWitness bool) []byte {
	ext := withWitness && t.HasWitness()
	b := make([]byte, 0, 64)
	b = binary.LittleEndian.AppendUint32(b, t.Version)
	if ext {
		b = append(b, 0, 1)
	}
	b = AppendCompactSize(b, uint64(len(t.In)))
	for i := range t.In {
		in := &t.In[i]
		b = AppendOutPoint(b, in)
		b = appendBytes(b, in.ScriptSig)
		b = binary.LittleEndian.AppendUint32(b, in.Sequence)
	}
	b = AppendCompactSize(b, uint64(len(t.Out)))
	for i := range t.Out {
		b = AppendTxOut(b, &t.Out[i])
	}
	if ext {
		for i := range t.In {
			w := t.In[i].Witness
			b = AppendCompactSize(b, uint64(len(w)))
			for _, it := range w {
				b = appendBytes(b, it)
			}
		}
	}
	b = binary.LittleEndian.AppendUint32(b, t.LockTime)
	return b
}

func (t *Tx) Txid() [32]byte    { return DoubleSHA256(t.Serialize(false)) }
func (t *Tx) Wtxid() [32]byte   { return DoubleSHA256(t.Serialize(true)) }
func (t *Tx) TotalSize() int    { return len(t.Serialize(true)) }
func (t *Tx) StrippedSize() int { return len(t.Serialize(false)) }
func (t *Tx) Weight() int       { return t.StrippedSize()*(WitnessScaleFactor-1) + t.TotalSize() }
func (t *Tx) VSize() int        { return (t.Weight() + WitnessScaleFactor - 1) / WitnessScaleFactor }
func (t *Tx) IsCoinBase() bool {
	if len(t.In) != 1 || t.In[0].PrevIndex != 0xffffffff {
		return false
	}
	return t.In[0].PrevHash == [32]byte{}
}

// Clone returns a deep copy.
func (t *Tx) Clone() *Tx {
	n := &Tx{Version: t.Version, LockTime: t.LockTime}
	n.In = make([]TxIn, len(t.In))
	for i := range t.In {
		s := &t.In[i]
		d := &n.In[i]
		*d = *s
		d.ScriptSig = append([]byte(nil), s.ScriptSig...)
		if s.Witness != nil {
			d.Witness = make([][]byte, len(s.Witness))
			for j := range s.Witness {
				d.Witness[j] = append([]byte{}, s.Witness[j]...)
			}
		}
	}
	n.Out = make([]TxOut, len(t.Out))
	for i := range t.Out {
		n.Out[i] = TxOut{Value: t.Out[i].Value, PkScript: append([]byte(nil), t.Out[i].PkScript...)}
	}
	return n
}

// ---------------------------------------------------------------------------------------------
// blocks

type Header struct {
	Version    int32
	PrevBlock  [32]byte
	MerkleRoot [32]byte
	Time       uint32
	Bits       uint32
	Nonce      uint32
}

type Block struct {
	Header Header
	Txs    []*Tx
}

func DecodeHeader(b []byte) (*Header, error) {
	if len(b) < 80 {
		return nil, &Error{ErrEndOfData, len(b)}
	}
	var h Header
	h.Version = int32(binary.LittleEndian.Uint32(b[0:]))
	copy(h.PrevBlock[:], b[4:36])
	copy(h.MerkleRoot[:], b[36:68])
	h.Time = binary.LittleEndian.Uint32(b[68:])
	h.Bits = binary.LittleEndian.Uint32(b[72:])
	h.Nonce = binary.LittleEndian.Uint32(b[76:])
	return &h, nil
}

func (h *Header) Serialize() []byte {
	b := make([]byte, 0, 80)
	b = binary.LittleEndian.AppendUint32(b, uint32(h.Version))
	b = append(b, h.PrevBlock[:]...)
	b = append(b, h.MerkleRoot[:]...)
	b = binary.LittleEndian.AppendUint32(b, h.Time)
	b = binary.LittleEndian.AppendUint32(b, h.Bits)
	b = binary.LittleEndian.AppendUint32(b, h.Nonce)
	return b
}

func (h *Header) Hash() [32]byte { return DoubleSHA256(h.Serialize()) }

// DecodeBlock decodes header, transaction count and transactions from the start of b and
// returns the number of bytes consumed.
func DecodeBlock(b []byte) (*Block, int, error) {
	h, err := DecodeHeader(b)
	if err != nil {
		return nil, 0, err
	}
	r := &reader{b: b, pos: 80}
	n, e := r.compactSize()
	if e != nil {
		return nil, 0, e
	}
	bl := &Block{Header: *h}
	for i := uint64(0); i < n; i++ {
		t, e := r.tx(true)
		if e != nil {
			return nil, 0, e
		}
		bl.Txs = append(bl.Txs, t)
	}
	return bl, r.pos, nil
}

func (bl *Block) Serialize(withWitness bool) []byte {
	b := bl.Header.Serialize()
	b = AppendCompactSize(b, uint64(len(bl.Txs)))
	for _, t := range bl.Txs {
		b = append(b, t.Serialize(withWitness)...)
	}
	return b
}

func (bl *Block) Hash() [32]byte    { return bl.Header.Hash() }
func (bl *Block) TotalSize() int    { return len(bl.Serialize(true)) }
func (bl *Block) StrippedSize() int { return len(bl.Serialize(false)) }

// Weight is Core's GetBlockWeight: stripped size * 3 + total size.
func (bl *Block) Weight() int {
	return bl.StrippedSize()*(WitnessScaleFactor-1) + bl.TotalSize()
}

// MerkleRoot is Core's ComputeMerkleRoot: root of the hash list (zero hash for an empty list)
// and the CVE-2012-2459 mutation flag (two identical hashes paired at some level).
func MerkleRoot(hashes [][32]byte) (root [32]byte, mutated bool) {
	if len(hashes) == 0 {
		return
	}
	level := make([][32]byte, len(hashes))
	copy(level, hashes)
	var buf [64]byte
	for len(level) > 1 {
		for pos := 0; pos+1 < len(level); pos += 2 {
			if level[pos] == level[pos+1] {
				mutated = true
			}
		}
		if len(level)&1 == 1 {
			level = append(level, level[len(level)-1])
		}
		next := make([][32]byte, len(level)/2)
		for i := range next {
			copy(buf[:32], level[2*i][:])
			copy(buf[32:], level[2*i+1][:])
			next[i] = DoubleSHA256(buf[:])
		}
		level = next
	}
	return level[0], mutated
}

// TxMerkleRoot is the Merkle root over the txids of the block.
func (bl *Block) TxMerkleRoot() (root [32]byte, mutated bool) {
	hs := make([][32]byte, len(bl.Txs))
	for i, t := range bl.Txs {
		hs[i] = t.Txid()
	}
	return MerkleRoot(hs)
}

// WitnessMerkleRoot is BIP141's witness root: wtxids with the coinbase's replaced by zero.
func (bl *Block) WitnessMerkleRoot() (root [32]byte, mutated bool) {
	hs := make([][32]byte, len(bl.Txs))
	for i, t := range bl.Txs {
		if i > 0 {
			hs[i] = t.Wtxid()
		}
	}
	return MerkleRoot(hs)
}

var witnessCommitmentHeader = []byte{0x6a, 0x24, 0xaa, 0x21, 0xa9, 0xed}

// WitnessCommitmentIndex is Core's GetWitnessCommitmentIndex: the index of the LAST coinbase
// output whose script is at least 38 bytes and starts with 6a24aa21a9ed, or -1.
func WitnessCommitmentIndex(bl *Block) int {
	pos := -1
	if len(bl.Txs) == 0 {
		return pos
	}
	for i, o := range bl.Txs[0].Out {
		if len(o.PkScript) >= 38 && string(o.PkScript[:6]) == string(witnessCommitmentHeader) {
			pos = i
		}
	}
	return pos
}

// WitnessCommitment is SHA256d(witness root || witness reserved value).
func WitnessCommitment(witnessRoot [32]byte, nonce []byte) [32]byte {
	b := append(append([]byte{}, witnessRoot[:]...), nonce...)
	return DoubleSHA256(b)
}

// WitnessCommitmentScript builds the 38-byte commitment output script.
func WitnessCommitmentScript(commitment [32]byte) []byte {
	return append(append([]byte{}, witnessCommitmentHeader...), commitment[:]...)
}

// CheckWitnessCommitment is the segwit-active part of Core's CheckWitnessMalleation. It returns
// "" when the block passes, otherwise Core's reject reason.
func CheckWitnessCommitment(bl *Block) string {
	pos := WitnessCommitmentIndex(bl)
	if pos != -1 {
		w := bl.Txs[0].In
		if len(w) == 0 || len(w[0].Witness) != 1 || len(w[0].Witness[0]) != 32 {
			return "bad-witness-nonce-size"
		}
		root, _ := bl.WitnessMerkleRoot()
		c := WitnessCommitment(root, w[0].Witness[0])
		if string(c[:]) != string(bl.Txs[0].Out[pos].PkScript[6:38]) {
			return "bad-witness-merkle-match"
		}
		return ""
	}
	for _, t := range bl.Txs {
		if t.HasWitness() {
			return "unexpected-witness"
		}
	}
	return ""
}
