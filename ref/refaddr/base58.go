// Package refaddr is the reference model for Bitcoin address encodings used by the C15/C14
// monitors: Base58 / Base58Check, Bech32 / Bech32m (BIP173, BIP350), segwit address rules,
// address <-> output script, WIF private keys.
//
// Written from the specifications; imports nothing from /repo (stdlib + the vendored RIPEMD-160).
// Every refusal carries a short *reason* string (stable identifiers, used in violation classes).
package refaddr

import (
	"bytes"
	"crypto/sha256"
	"math/big"

	"verif/ref/ripemd160"
)

const B58Alphabet = "123456789ABCDEFGHJKLMNPQRSTUVWXYZabcdefghijkmnopqrstuvwxyz"

var b58idx [256]int

func init() {
	for i := range b58idx {
		b58idx[i] = -1
	}
	for i := 0; i < len(B58Alphabet); i++ {
		b58idx[B58Alphabet[i]] = i
	}
}

func Sha256d(b []byte) []byte {
	a := sha256.Sum256(b)
	c := sha256.Sum256(a[:])
	return c[:]
}

func Hash160(b []byte) []byte {
	a := sha256.Sum256(b)
	h := ripemd160.New()
	h.Write(a[:])
	return h.Sum(nil)
}

// Base58Encode: big-endian base conversion; every leading 0x00 byte becomes one leading '1'.
// Implemented digit-wise (no big.Int) so that it is structurally different from the usual
// big-number implementation.
func Base58Encode(in []byte) string {
	zeros := 0
	for zeros < len(in) && in[zeros] == 0 {
		zeros++
	}
	// base-58 digits, little endian
	var digits []int
	for _, b := range in[zeros:] {
		carry := int(b)
		for i := range digits {
			carry += digits[i] << 8
			digits[i] = carry % 58
			carry /= 58
		}
		for carry > 0 {
			digits = append(digits, carry%58)
			carry /= 58
		}
	}
	out := make([]byte, 0, zeros+len(digits))
	for i := 0; i < zeros; i++ {
		out = append(out, '1')
	}
	for i := len(digits) - 1; i >= 0; i-- {
		out = append(out, B58Alphabet[digits[i]])
	}
	return string(out)
}

// Base58Decode is strict: every byte of s must be in the alphabet (no white space skipping).
func Base58Decode(s string) (out []byte, reason string) {
	zeros := 0
	for zeros < len(s) && s[zeros] == '1' {
		zeros++
	}
	var bytesLE []int // base-256 digits, little endian
	for i := 0; i < len(s); i++ {
		v := b58idx[s[i]]
		if v < 0 {
			return nil, "b58-invalid-char"
		}
		carry := v
		for j := range bytesLE {
			carry += bytesLE[j] * 58
			bytesLE[j] = carry & 0xff
			carry >>= 8
		}
		for carry > 0 {
			bytesLE = append(bytesLE, carry&0xff)
			carry >>= 8
		}
	}
	out = make([]byte, zeros, zeros+len(bytesLE))
	for i := len(bytesLE) - 1; i >= 0; i-- {
		out = append(out, byte(bytesLE[i]))
	}
	return out, ""
}

// base58 via big.Int, used only to cross-check the digit-wise routines in Calibrate.
func base58EncodeBig(in []byte) string {
	n := new(big.Int).SetBytes(in)
	var rev []byte
	r := new(big.Int)
	b58 := big.NewInt(58)
	for n.Sign() > 0 {
		n.QuoRem(n, b58, r)
		rev = append(rev, B58Alphabet[r.Int64()])
	}
	for _, b := range in {
		if b != 0 {
			break
		}
		rev = append(rev, '1')
	}
	for i, j := 0, len(rev)-1; i < j; i, j = i+1, j-1 {
		rev[i], rev[j] = rev[j], rev[i]
	}
	return string(rev)
}

func Base58CheckEncode(payload []byte) string {
	b := append(append([]byte{}, payload...), Sha256d(payload)[:4]...)
	return Base58Encode(b)
}

// Base58CheckDecode returns the payload (without the 4 checksum bytes).
func Base58CheckDecode(s string) (payload []byte, reason string) {
	raw, reason := Base58Decode(s)
	if reason != "" {
		return nil, reason
	}
	if len(raw) < 4 {
		return nil, "b58-too-short"
	}
	pl, ck := raw[:len(raw)-4], raw[len(raw)-4:]
	if !bytes.Equal(Sha256d(pl)[:4], ck) {
		return nil, "b58-checksum"
	}
	return pl, ""
}
