package refaddr

import "strings"

// Bech32 / Bech32m per BIP173 / BIP350 (structure follows the BIPs' Python reference code).

const Bech32Charset = "qpzry9x8gf2tvdw0s3jn54khce6mua7l"

type Variant int

const (
	Bech32  Variant = 1
	Bech32m Variant = 2
)

func (v Variant) String() string {
	switch v {
	case Bech32:
		return "bech32"
	case Bech32m:
		return "bech32m"
	}
	return "none"
}

const bech32Const = 1
const bech32mConst = 0x2bc830a3

var bechGen = [5]uint32{0x3b6a57b2, 0x26508e6d, 0x1ea119fa, 0x3d4233dd, 0x2a1462b3}

func polymod(values []byte) uint32 {
	chk := uint32(1)
	for _, v := range values {
		top := chk >> 25
		chk = (chk&0x1ffffff)<<5 ^ uint32(v)
		for i := 0; i < 5; i++ {
			if (top>>uint(i))&1 == 1 {
				chk ^= bechGen[i]
			}
		}
	}
	return chk
}

func hrpExpand(hrp string) []byte {
	out := make([]byte, 0, 2*len(hrp)+1)
	for i := 0; i < len(hrp); i++ {
		out = append(out, hrp[i]>>5)
	}
	out = append(out, 0)
	for i := 0; i < len(hrp); i++ {
		out = append(out, hrp[i]&31)
	}
	return out
}

func variantConst(v Variant) uint32 {
	if v == Bech32m {
		return bech32mConst
	}
	return bech32Const
}

// Bech32Encode: hrp must be 1..83 chars of 33..126 without upper case, data 5-bit values,
// total length <= 90. Returns "" and a reason when the input cannot be encoded.
func Bech32Encode(hrp string, data []byte, v Variant) (string, string) {
	if len(hrp) < 1 {
		return "", "hrp-empty"
	}
	for i := 0; i < len(hrp); i++ {
		c := hrp[i]
		if c < 33 || c > 126 {
			return "", "hrp-char-range"
		}
		if c >= 'A' && c <= 'Z' {
			return "", "hrp-upper"
		}
	}
	for _, d := range data {
		if d > 31 {
			return "", "data-range"
		}
	}
	if len(hrp)+1+len(data)+6 > 90 {
		return "", "length"
	}
	return bech32EncodeUnchecked(hrp, data, variantConst(v)), ""
}

// bech32EncodeUnchecked builds hrp+"1"+data+checksum for an arbitrary final constant, without
// any validity rule (used by generators to build deliberately invalid strings with a correct
// checksum, e.g. over-long ones).
func bech32EncodeUnchecked(hrp string, data []byte, konst uint32) string {
	values := append(hrpExpand(hrp), data...)
	pm := polymod(append(values, 0, 0, 0, 0, 0, 0)) ^ konst
	var sb strings.Builder
	sb.WriteString(hrp)
	sb.WriteByte('1')
	for _, d := range data {
		sb.WriteByte(Bech32Charset[d&31])
	}
	for i := 0; i < 6; i++ {
		sb.WriteByte(Bech32Charset[(pm>>uint(5*(5-i)))&31])
	}
	return sb.String()
}

// RawBech32 is exported for generators: a string with valid checksum of the given variant but no
// other rule enforced.
func RawBech32(hrp string, data []byte, v Variant) string {
	return bech32EncodeUnchecked(hrp, data, variantConst(v))
}

// Bech32Decode validates s and returns the lower-cased hrp, the data part without checksum and
// the checksum variant.
func Bech32Decode(s string) (hrp string, data []byte, v Variant, reason string) {
	if len(s) > 90 {
		return "", nil, 0, "length>90"
	}
	if len(s) < 8 {
		return "", nil, 0, "length<8"
	}
	lower, upper := false, false
	for i := 0; i < len(s); i++ {
		c := s[i]
		if c < 33 || c > 126 {
			return "", nil, 0, "char-range"
		}
		if c >= 'a' && c <= 'z' {
			lower = true
		}
		if c >= 'A' && c <= 'Z' {
			upper = true
		}
	}
	if lower && upper {
		return "", nil, 0, "mixed-case"
	}
	s = strings.ToLower(s)
	pos := strings.LastIndexByte(s, '1')
	if pos < 0 {
		return "", nil, 0, "no-separator"
	}
	if pos < 1 {
		return "", nil, 0, "hrp-empty"
	}
	if pos+7 > len(s) {
		return "", nil, 0, "data-too-short"
	}
	hrp = s[:pos]
	vals := make([]byte, 0, len(s)-pos-1)
	for i := pos + 1; i < len(s); i++ {
		d := strings.IndexByte(Bech32Charset, s[i])
		if d < 0 {
			return "", nil, 0, "data-char"
		}
		vals = append(vals, byte(d))
	}
	switch polymod(append(hrpExpand(hrp), vals...)) {
	case bech32Const:
		v = Bech32
	case bech32mConst:
		v = Bech32m
	default:
		return "", nil, 0, "checksum"
	}
	return hrp, vals[:len(vals)-6], v, ""
}

// ConvertBits is the BIP173 general power-of-2 base conversion. ok=false on invalid input or
// (pad=false) on invalid padding: more than frombits-1 leftover bits, or non-zero leftover bits.
func ConvertBits(data []byte, frombits, tobits uint, pad bool) (out []byte, ok bool) {
	acc := uint32(0)
	bits := uint(0)
	maxv := uint32(1)<<tobits - 1
	maxAcc := uint32(1)<<(frombits+tobits-1) - 1
	for _, b := range data {
		if uint32(b)>>frombits != 0 {
			return nil, false
		}
		acc = (acc<<frombits | uint32(b)) & maxAcc
		bits += frombits
		for bits >= tobits {
			bits -= tobits
			out = append(out, byte(acc>>bits&maxv))
		}
	}
	if pad {
		if bits > 0 {
			out = append(out, byte(acc<<(tobits-bits)&maxv))
		}
	} else if bits >= frombits || acc<<(tobits-bits)&maxv != 0 {
		return nil, false
	}
	if out == nil {
		out = []byte{}
	}
	return out, true
}

// SegwitEncode returns the address for (hrp, witness version, program) or "" with a reason.
func SegwitEncode(hrp string, witver int, prog []byte) (string, string) {
	if witver < 0 || witver > 16 {
		return "", "witver-range"
	}
	if len(prog) < 2 || len(prog) > 40 {
		return "", "program-length"
	}
	if witver == 0 && len(prog) != 20 && len(prog) != 32 {
		return "", "v0-program-length"
	}
	d5, _ := ConvertBits(prog, 8, 5, true)
	v := Bech32m
	if witver == 0 {
		v = Bech32
	}
	s, reason := Bech32Encode(hrp, append([]byte{byte(witver)}, d5...), v)
	if reason != "" {
		return "", reason
	}
	// BIP173: encoders must check their own output
	if ver, p, r := SegwitDecode(hrp, s); r != "" || ver != witver || string(p) != string(prog) {
		return "", "self-check"
	}
	return s, ""
}

// SegwitDecode per BIP173/BIP350 decode(hrp, addr).
func SegwitDecode(hrp string, addr string) (witver int, prog []byte, reason string) {
	got, data, variant, reason := Bech32Decode(addr)
	if reason != "" {
		return 0, nil, reason
	}
	if got != hrp {
		return 0, nil, "hrp-mismatch"
	}
	if len(data) < 1 {
		return 0, nil, "empty-data"
	}
	if data[0] > 16 {
		return 0, nil, "witver>16"
	}
	p, ok := ConvertBits(data[1:], 5, 8, false)
	if !ok {
		return 0, nil, "padding"
	}
	if len(p) < 2 || len(p) > 40 {
		return 0, nil, "program-length"
	}
	if data[0] == 0 && len(p) != 20 && len(p) != 32 {
		return 0, nil, "v0-program-length"
	}
	if data[0] == 0 && variant != Bech32 {
		return 0, nil, "v0-needs-bech32"
	}
	if data[0] != 0 && variant != Bech32m {
		return 0, nil, "v1+-needs-bech32m"
	}
	return int(data[0]), p, ""
}
