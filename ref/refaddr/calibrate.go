package refaddr

import (
	"encoding/hex"
	"encoding/json"
	"fmt"
	"os"
	"strings"
)

// Calibrate runs the reference model against the BIP173/BIP350 vector lists (copied as data from
// the repo's tests), the Base58 vector file of the repo (read as data) and a few well-known
// constants. A non-nil error means the oracle is broken (exit 2), never a violation.
func Calibrate(base58JSON string) error {
	for _, s := range vec_valid_checksum_bech32 {
		hrp, data, v, r := Bech32Decode(s)
		if r != "" || v != Bech32 {
			return fmt.Errorf("bech32 valid vector %q refused: %s %v", s, r, v)
		}
		e, r := Bech32Encode(hrp, data, Bech32)
		if r != "" || e != strings.ToLower(s) {
			return fmt.Errorf("bech32 valid vector %q re-encodes to %q (%s)", s, e, r)
		}
	}
	for _, s := range vec_valid_checksum_bech32m {
		hrp, data, v, r := Bech32Decode(s)
		if r != "" || v != Bech32m {
			return fmt.Errorf("bech32m valid vector %q refused: %s %v", s, r, v)
		}
		e, r := Bech32Encode(hrp, data, Bech32m)
		if r != "" || e != strings.ToLower(s) {
			return fmt.Errorf("bech32m valid vector %q re-encodes to %q (%s)", s, e, r)
		}
	}
	// the BIP350 invalid lists are "invalid for that variant"; as in the repo's tests all of
	// them must be refused outright (none is valid under the other variant)
	for _, s := range append(append([]string{}, vec_invalid_checksum_bech32...), vec_invalid_checksum_bech32m...) {
		if _, _, _, r := Bech32Decode(s); r == "" {
			return fmt.Errorf("invalid bech32(m) vector %q accepted", s)
		}
	}
	for _, rec := range vec_valid_address {
		want, _ := hex.DecodeString(rec[1])
		d, r := DecodeAddress(rec[0])
		if r != "" || d.Kind != KindWitness {
			return fmt.Errorf("valid address %q refused: %s", rec[0], r)
		}
		if !eq(d.Script(), want) {
			return fmt.Errorf("valid address %q: script %x want %x", rec[0], d.Script(), want)
		}
		if !strings.EqualFold(d.String(), rec[0]) {
			return fmt.Errorf("valid address %q re-encodes to %q", rec[0], d.String())
		}
		if d2 := DestFromScript(want, d.HRP == "tb"); d2 == nil || d2.String() != d.String() {
			return fmt.Errorf("script of %q not mapped back", rec[0])
		}
	}
	for _, s := range vec_invalid_address {
		if d, r := DecodeAddress(s); r == "" && d.Kind != KindB58Unknown {
			return fmt.Errorf("invalid address %q accepted", s)
		}
		for _, hrp := range SegwitHRPs {
			if _, _, r := SegwitDecode(hrp, s); r == "" {
				return fmt.Errorf("invalid address %q accepted for hrp %s", s, hrp)
			}
		}
	}
	// BIP173-era addresses that BIP350 invalidated (v1+ with the Bech32 constant)
	for _, s := range []string{
		"bc1pw508d6qejxtdg4y5r3zarvary0c5xw7kw508d6qejxtdg4y5r3zarvary0c5xw7k7grplx",
		"BC1SW50QA3JX3S",
		"bc1zw508d6qejxtdg4y5r3zarvaryvg6kdaj",
	} {
		if _, _, r := SegwitDecode("bc", s); r != "v1+-needs-bech32m" {
			return fmt.Errorf("BIP173-era v1+ address %q: reason %q", s, r)
		}
	}
	type encBad struct {
		hrp  string
		ver  int
		plen int
	}
	for _, c := range []encBad{{"BC", 0, 20}, {"bc", 0, 21}, {"bc", 17, 32}, {"bc", 1, 1}, {"bc", 16, 41}} {
		if s, r := SegwitEncode(c.hrp, c.ver, make([]byte, c.plen)); r == "" {
			return fmt.Errorf("SegwitEncode(%v) produced %q", c, s)
		}
	}
	// exhaustive encode/decode round trip on lengths and versions
	for _, hrp := range SegwitHRPs {
		for ver := 0; ver <= 16; ver++ {
			for l := 2; l <= 40; l++ {
				p := make([]byte, l)
				for i := range p {
					p[i] = byte(i*37 + l + ver)
				}
				s, r := SegwitEncode(hrp, ver, p)
				if ver == 0 && l != 20 && l != 32 {
					if r == "" {
						return fmt.Errorf("v0 len %d encoded", l)
					}
					continue
				}
				if r != "" {
					return fmt.Errorf("encode %s v%d len %d: %s", hrp, ver, l, r)
				}
				if len(s) > 90 {
					return fmt.Errorf("encode %s v%d len %d longer than 90", hrp, ver, l)
				}
				d, r := DecodeAddress(strings.ToUpper(s))
				if r != "" || d.WitVer != ver || !eq(d.Program, p) || d.HRP != hrp {
					return fmt.Errorf("round trip %s: %s", s, r)
				}
			}
		}
	}
	// Base58 vectors
	if base58JSON != "" {
		raw, err := os.ReadFile(base58JSON)
		if err != nil {
			return fmt.Errorf("cannot read %s: %v", base58JSON, err)
		}
		var vecs [][2]string
		if err := json.Unmarshal(raw, &vecs); err != nil {
			return err
		}
		if len(vecs) < 10 {
			return fmt.Errorf("base58 vector file has only %d entries", len(vecs))
		}
		for _, v := range vecs {
			bin, _ := hex.DecodeString(v[0])
			if got := Base58Encode(bin); got != v[1] {
				return fmt.Errorf("base58 encode %s = %q want %q", v[0], got, v[1])
			}
			got, r := Base58Decode(v[1])
			if r != "" || !eq(got, bin) {
				return fmt.Errorf("base58 decode %q = %x (%s) want %s", v[1], got, r, v[0])
			}
		}
	}
	// digit-wise vs big.Int implementation
	x := uint64(88172645463325252)
	for i := 0; i < 2000; i++ {
		x ^= x << 13
		x ^= x >> 7
		x ^= x << 17
		n := int(x>>40) % 45
		b := make([]byte, n)
		y := x
		for j := range b {
			y = y*6364136223846793005 + 1442695040888963407
			b[j] = byte(y >> 56)
			if j < int(x&3) {
				b[j] = 0
			}
		}
		s := Base58Encode(b)
		if s != base58EncodeBig(b) {
			return fmt.Errorf("base58 implementations disagree on %x", b)
		}
		if d, r := Base58Decode(s); r != "" || !eq(d, b) {
			return fmt.Errorf("base58 round trip of %x", b)
		}
	}
	for _, bad := range []string{"0", "O", "I", "l", " 1", "1 ", "1\n", "\x00", "é"} {
		if _, r := Base58Decode(bad); r == "" {
			return fmt.Errorf("base58 accepted %q", bad)
		}
	}
	// known addresses
	for _, s := range vec_b58_addresses {
		d, r := DecodeAddress(s)
		if r != "" || d.Kind != KindP2PKH || d.String() != s {
			return fmt.Errorf("known address %q: %s", s, r)
		}
	}
	// genesis coinbase key hash and a P2SH example from BIP13/BIP16 era
	h, _ := hex.DecodeString("62e907b15cbf27d5425399ebf6f0fb50ebb88f18")
	if (&Dest{Kind: KindP2PKH, Version: 0, Hash: h}).String() != "1A1zP1eP5QGefi2DMPTfTL5SLmv7DivfNa" {
		return fmt.Errorf("genesis address mismatch")
	}
	pk, _ := hex.DecodeString("04678afdb0fe5548271967f1a67130b7105cd6a828e03909a67962e0ea1f61deb649f6bc3f4cef38c4f35504e51ec112de5c384df7ba0b8d578a4c702b6bf11d5f")
	if !eq(Hash160(pk), h) {
		return fmt.Errorf("hash160 (sha256+ripemd160) broken")
	}
	// WIF vectors embedded in the repo's tests (lib/btc/wallet_test.go, wallet/wallet_test.go)
	type wv struct {
		s     string
		ver   byte
		compr bool
	}
	for _, w := range []wv{
		{"L2zsCZKchUMJ9BS7MVyo8gLGV26rYtgFZskSitwkptk4F1g3KtjN", 128, true},
		{"92fqqcuu2iSqjfAFifVJ7yxDAkUgFEMgu19YgzLxUqXmbJQRrWp", 128 + 0x6f, false},
		{"TAtSTnmpQFUKRH56MN7mn6iU8tJpcok7uCP2Hcab599H2pyDZKfY", 128 + 48, true},
		{"KzAqX6gJsmvZmJjNrHk3UDZrgDytgF88KzE21TnGVXPC6e3zRHGi", 128, true},
		{"5HqNqndG7xYfJu8KkkJ7AjVUfVsiWxT5AyLUpBsi2Upe5c2WaRj", 128, false},
	} {
		ver, key, compr, r := WIFDecode(w.s)
		if r != "" || ver != w.ver || compr != w.compr {
			return fmt.Errorf("WIF %q: %s ver %d compr %v", w.s, r, ver, compr)
		}
		if WIFEncode(ver, key, compr) != w.s {
			return fmt.Errorf("WIF %q does not re-encode", w.s)
		}
	}
	// the well-known WIF of private key 0x0c28fca3...: Bitcoin wiki example
	k, _ := hex.DecodeString("0c28fca386c7a227600b2fe50b7cae11ec86d3bf1fbe471be89827e19d72aa1d")
	if WIFEncode(0x80, k, false) != "5HueCGU8rMjxEXxiPuD5BDku4MkFqeZyd4dZ1jvhTVqvbTLvyTJ" {
		return fmt.Errorf("wiki WIF example mismatch")
	}
	return nil
}

// VectorStrings returns every string of the BIP173/BIP350 vector lists (valid and invalid), so
// that monitors can also push them through the code under test.
func VectorStrings() []string {
	var out []string
	out = append(out, vec_valid_checksum_bech32...)
	out = append(out, vec_valid_checksum_bech32m...)
	out = append(out, vec_invalid_checksum_bech32...)
	out = append(out, vec_invalid_checksum_bech32m...)
	out = append(out, vec_invalid_address...)
	for _, v := range vec_valid_address {
		out = append(out, v[0])
	}
	out = append(out, vec_b58_addresses...)
	return out
}
