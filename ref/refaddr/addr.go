package refaddr

import (
	"bytes"
	"math/big"
	"strings"
)

// Destination kinds
const (
	KindNone    = 0
	KindP2PKH   = 1
	KindP2SH    = 2
	KindWitness = 3
	// KindB58Unknown: well-formed Base58Check string with a 21-byte payload whose version byte
	// has no script mapping. Not an error of the codec, but it denotes no output script.
	KindB58Unknown = 4
)

type Dest struct {
	Kind    int
	Version byte   // Base58 version byte (P2PKH / P2SH / unknown)
	Hash    []byte // 20 bytes (Base58 kinds)
	HRP     string // witness kinds
	WitVer  int
	Program []byte
}

// Base58 version bytes with a script meaning. 48 = Litecoin P2PKH (mapped by the code under test
// in every mode; 50, Litecoin P2SH, is listed by the design as unmapped).
func B58VersionKind(v byte) int {
	switch v {
	case 0, 111, 48:
		return KindP2PKH
	case 5, 196:
		return KindP2SH
	}
	return KindB58Unknown
}

var SegwitHRPs = []string{"bc", "tb"}

func P2PKHScript(h []byte) []byte {
	return append(append([]byte{0x76, 0xa9, 0x14}, h...), 0x88, 0xac)
}
func P2SHScript(h []byte) []byte {
	return append(append([]byte{0xa9, 0x14}, h...), 0x87)
}
func WitnessScript(ver int, prog []byte) []byte {
	op := byte(0)
	if ver > 0 {
		op = byte(0x50 + ver)
	}
	return append([]byte{op, byte(len(prog))}, prog...)
}

// Script returns the output script the destination denotes (nil when it denotes none).
func (d *Dest) Script() []byte {
	switch d.Kind {
	case KindP2PKH:
		return P2PKHScript(d.Hash)
	case KindP2SH:
		return P2SHScript(d.Hash)
	case KindWitness:
		return WitnessScript(d.WitVer, d.Program)
	}
	return nil
}

// String encodes the destination.
func (d *Dest) String() string {
	switch d.Kind {
	case KindP2PKH, KindP2SH, KindB58Unknown:
		return Base58CheckEncode(append([]byte{d.Version}, d.Hash...))
	case KindWitness:
		s, _ := SegwitEncode(d.HRP, d.WitVer, d.Program)
		return s
	}
	return ""
}

// DecodeAddress decides what an address string denotes without a network parameter (like the
// code under test): a segwit address for hrp bc or tb, or a Base58Check string with a 21-byte
// payload. The two syntaxes cannot both succeed with a script for one string. When neither
// succeeds the reason of the more specific failure is reported: for strings that start with a
// known hrp + "1" (any case) the segwit reason, else the Base58 reason.
func DecodeAddress(s string) (d *Dest, reason string) {
	segReason := ""
	for _, hrp := range SegwitHRPs {
		ver, prog, r := SegwitDecode(hrp, s)
		if r == "" {
			return &Dest{Kind: KindWitness, HRP: hrp, WitVer: ver, Program: prog}, ""
		}
		if r != "hrp-mismatch" || segReason == "" {
			segReason = r
		}
	}
	pl, b58Reason := Base58CheckDecode(s)
	if b58Reason == "" {
		if len(pl) == 21 {
			return &Dest{Kind: B58VersionKind(pl[0]), Version: pl[0], Hash: pl[1:]}, ""
		}
		b58Reason = "b58-payload-length"
	}
	if LooksSegwit(s) {
		return nil, segReason
	}
	return nil, b58Reason
}

// LooksSegwit: starts with a known hrp followed by the separator, in any case.
func LooksSegwit(s string) bool {
	l := strings.ToLower(s)
	for _, hrp := range SegwitHRPs {
		if strings.HasPrefix(l, hrp+"1") {
			return true
		}
	}
	return false
}

// DestFromScript recognises exactly the standard destination templates:
// P2PKH, P2SH, and witness programs that have an address (BIP141 program 2..40 bytes,
// v0 only with 20 or 32 bytes). Version bytes / hrp are chosen by testnet.
func DestFromScript(scr []byte, testnet bool) *Dest {
	if len(scr) == 25 && scr[0] == 0x76 && scr[1] == 0xa9 && scr[2] == 0x14 && scr[23] == 0x88 && scr[24] == 0xac {
		v := byte(0)
		if testnet {
			v = 111
		}
		return &Dest{Kind: KindP2PKH, Version: v, Hash: append([]byte{}, scr[3:23]...)}
	}
	if len(scr) == 23 && scr[0] == 0xa9 && scr[1] == 0x14 && scr[22] == 0x87 {
		v := byte(5)
		if testnet {
			v = 196
		}
		return &Dest{Kind: KindP2SH, Version: v, Hash: append([]byte{}, scr[2:22]...)}
	}
	if len(scr) >= 4 && len(scr) <= 42 && (scr[0] == 0 || (scr[0] >= 0x51 && scr[0] <= 0x60)) && int(scr[1]) == len(scr)-2 {
		ver := 0
		if scr[0] != 0 {
			ver = int(scr[0]) - 0x50
		}
		prog := scr[2:]
		if ver == 0 && len(prog) != 20 && len(prog) != 32 {
			return nil
		}
		hrp := "bc"
		if testnet {
			hrp = "tb"
		}
		return &Dest{Kind: KindWitness, HRP: hrp, WitVer: ver, Program: append([]byte{}, prog...)}
	}
	return nil
}

// IsP2PKShaped: <33 or 65 byte push> OP_CHECKSIG (the code under test maps these to the P2PKH
// address of the key; they are no "supported destination" of C15 and are skipped by the monitor).
func IsP2PKShaped(scr []byte) bool {
	return (len(scr) == 35 && scr[0] == 33 && scr[34] == 0xac) || (len(scr) == 67 && scr[0] == 65 && scr[66] == 0xac)
}

// ---------------------------------------------------------------------------------------------
// WIF

// secp256k1 group order
var CurveN, _ = new(big.Int).SetString("FFFFFFFFFFFFFFFFFFFFFFFFFFFFFFFEBAAEDCE6AF48A03BBFD25E8CD0364141", 16)

func ValidPrivKey(k []byte) bool {
	if len(k) != 32 {
		return false
	}
	x := new(big.Int).SetBytes(k)
	return x.Sign() > 0 && x.Cmp(CurveN) < 0
}

func WIFEncode(version byte, key []byte, compressed bool) string {
	pl := append([]byte{version}, key...)
	if compressed {
		pl = append(pl, 1)
	}
	return Base58CheckEncode(pl)
}

// WIFDecode accepts exactly: version || 32-byte key [|| 0x01], key in [1, n-1]
// (Bitcoin Core DecodeSecret semantics; the version byte is returned, not judged).
func WIFDecode(s string) (version byte, key []byte, compressed bool, reason string) {
	pl, reason := Base58CheckDecode(s)
	if reason != "" {
		return 0, nil, false, reason
	}
	switch {
	case len(pl) == 33:
	case len(pl) == 34:
		if pl[33] != 1 {
			return 0, nil, false, "wif-compression-flag"
		}
		compressed = true
	default:
		return 0, nil, false, "wif-payload-length"
	}
	key = pl[1:33]
	if !ValidPrivKey(key) {
		return 0, nil, false, "wif-key-out-of-range"
	}
	return pl[0], append([]byte{}, key...), compressed, ""
}

func eq(a, b []byte) bool { return bytes.Equal(a, b) }
