package refaddr

import "testing"

func TestCalibrate(t *testing.T) {
	if err := Calibrate("/repo/lib/test/base58_encode_decode.json"); err != nil {
		t.Fatal(err)
	}
}
