package refsighash

import (
	"bytes"
	"encoding/hex"
	"encoding/json"
	"fmt"
	"math/big"
	"os"
	"path/filepath"
	"strings"

	"verif/ref/reftx"
)

// ---------------------------------------------------------------------------------------------
// Minimal secp256k1 ECDSA verification over math/big, used ONLY to calibrate the digests on the
// signed transactions of tx_valid.json (a digest is right iff the published signature verifies).

var (
	curveP, _  = new(big.Int).SetString("fffffffffffffffffffffffffffffffffffffffffffffffffffffffefffffc2f", 16)
	curveN, _  = new(big.Int).SetString("fffffffffffffffffffffffffffffffebaaedce6af48a03bbfd25e8cd0364141", 16)
	curveGx, _ = new(big.Int).SetString("79be667ef9dcbbac55a06295ce870b07029bfcdb2dce28d959f2815b16f81798", 16)
	curveGy, _ = new(big.Int).SetString("483ada7726a3c4655da4fbfc0e1108a8fd17b448a68554199c47d08ffb10d4b8", 16)
)

type pt struct{ x, y *big.Int } // nil x = infinity

func ptAdd(a, b pt) pt {
	if a.x == nil {
		return b
	}
	if b.x == nil {
		return a
	}
	var l *big.Int
	if a.x.Cmp(b.x) == 0 {
		if new(big.Int).Add(a.y, b.y).Mod(new(big.Int).Add(a.y, b.y), curveP).Sign() == 0 {
			return pt{}
		}
		num := new(big.Int).Mul(a.x, a.x)
		num.Mul(num, big.NewInt(3))
		den := new(big.Int).Lsh(a.y, 1)
		l = num.Mul(num, den.ModInverse(den, curveP))
	} else {
		num := new(big.Int).Sub(b.y, a.y)
		den := new(big.Int).Sub(b.x, a.x)
		den.Mod(den, curveP)
		l = num.Mul(num, den.ModInverse(den, curveP))
	}
	l.Mod(l, curveP)
	x := new(big.Int).Mul(l, l)
	x.Sub(x, a.x).Sub(x, b.x).Mod(x, curveP)
	y := new(big.Int).Sub(a.x, x)
	y.Mul(y, l).Sub(y, a.y).Mod(y, curveP)
	return pt{x, y}
}

func ptMul(k *big.Int, p pt) pt {
	var r pt
	for i := k.BitLen() - 1; i >= 0; i-- {
		r = ptAdd(r, r)
		if k.Bit(i) == 1 {
			r = ptAdd(r, p)
		}
	}
	return r
}

func parsePub(b []byte) (pt, bool) {
	if len(b) == 33 && (b[0] == 2 || b[0] == 3) {
		x := new(big.Int).SetBytes(b[1:])
		if x.Cmp(curveP) >= 0 {
			return pt{}, false
		}
		y2 := new(big.Int).Mul(x, x)
		y2.Mul(y2, x).Add(y2, big.NewInt(7)).Mod(y2, curveP)
		y := new(big.Int).ModSqrt(y2, curveP)
		if y == nil {
			return pt{}, false
		}
		if y.Bit(0) != uint(b[0]&1) {
			y.Sub(curveP, y)
		}
		return pt{x, y}, true
	}
	if len(b) == 65 && b[0] == 4 {
		x := new(big.Int).SetBytes(b[1:33])
		y := new(big.Int).SetBytes(b[33:])
		l := new(big.Int).Mul(y, y)
		r := new(big.Int).Mul(x, x)
		r.Mul(r, x).Add(r, big.NewInt(7))
		if l.Sub(l, r).Mod(l, curveP).Sign() != 0 {
			return pt{}, false
		}
		return pt{x, y}, true
	}
	return pt{}, false
}

// parseDER parses 30 L 02 lr R 02 ls S (+ one hash type byte) with single-byte lengths.
func parseDER(sig []byte) (r, s *big.Int, ok bool) {
	if len(sig) < 9 || sig[0] != 0x30 || int(sig[1]) != len(sig)-3 || sig[2] != 2 {
		return nil, nil, false
	}
	lr := int(sig[3])
	if 4+lr+2 > len(sig)-1 || sig[4+lr] != 2 {
		return nil, nil, false
	}
	ls := int(sig[5+lr])
	if 6+lr+ls != len(sig)-1 {
		return nil, nil, false
	}
	return new(big.Int).SetBytes(sig[4 : 4+lr]), new(big.Int).SetBytes(sig[6+lr : 6+lr+ls]), true
}

func ecdsaVerify(pub pt, r, s *big.Int, digest [32]byte) bool {
	if r.Sign() <= 0 || s.Sign() <= 0 || r.Cmp(curveN) >= 0 || s.Cmp(curveN) >= 0 {
		return false
	}
	z := new(big.Int).SetBytes(digest[:])
	w := new(big.Int).ModInverse(s, curveN)
	u1 := new(big.Int).Mul(z, w)
	u1.Mod(u1, curveN)
	u2 := new(big.Int).Mul(r, w)
	u2.Mod(u2, curveN)
	R := ptAdd(ptMul(u1, pt{curveGx, curveGy}), ptMul(u2, pub))
	if R.x == nil {
		return false
	}
	return new(big.Int).Mod(R.x, curveN).Cmp(r) == 0
}

// ---------------------------------------------------------------------------------------------

func unDisplay(s string) (h [32]byte, err error) {
	b, err := hex.DecodeString(s)
	if err != nil || len(b) != 32 {
		return h, fmt.Errorf("bad hash %q", s)
	}
	for i := range b {
		h[i] = b[31-i]
	}
	return h, nil
}

// parseScriptAsm turns the test-vector script notation ("0x00 0x14 0x… ", "HASH160", "CHECKSIG",
// "DUP", "EQUALVERIFY", "EQUAL", numbers) into bytes; ok=false when a token is not understood.
func parseScriptAsm(s string) ([]byte, bool) {
	ops := map[string]byte{"DUP": 0x76, "HASH160": 0xa9, "EQUALVERIFY": 0x88, "EQUAL": 0x87, "CHECKSIG": 0xac,
		"CHECKSIGVERIFY": 0xad, "CHECKMULTISIG": 0xae, "NOT": 0x91, "1": 0x51, "2": 0x52, "3": 0x53, "0": 0x00}
	var out []byte
	for _, tok := range strings.Fields(s) {
		if strings.HasPrefix(tok, "0x") {
			b, err := hex.DecodeString(tok[2:])
			if err != nil {
				return nil, false
			}
			out = append(out, b...)
			continue
		}
		op, ok := ops[tok]
		if !ok {
			return nil, false
		}
		out = append(out, op)
	}
	return out, true
}

// pushes parses a push-only script into its items.
func pushes(scr []byte) ([][]byte, bool) {
	var items [][]byte
	pc := 0
	for pc < len(scr) {
		op, next, ok := GetOp(scr, pc)
		if !ok || op > 0x60 {
			return nil, false
		}
		if op > OpPushData4 { // OP_1NEGATE, OP_1..OP_16: small integers, no data
			items = append(items, nil)
			pc = next
			continue
		}
		hdr := 1
		switch op {
		case OpPushData1:
			hdr = 2
		case OpPushData2:
			hdr = 3
		case OpPushData4:
			hdr = 5
		}
		items = append(items, scr[pc+hdr:next])
		pc = next
	}
	return items, true
}

// CalibStats reports what the calibration covered.
type CalibStats struct {
	LegacyVectors      int // sighash.json
	ExplicitDigests    int // digests written out in tx_valid.json comments
	SigLegacyVerified  int // published signatures verified over the legacy digest
	SigWitnessVerified int // published signatures verified over the BIP143 digest
	HashTypesWitness   map[byte]int
	TaprootKeyPath     int // BIP341 wallet vectors (recalled; each accepted only on exact match)
	TaprootHandDerived int
}

type prevout struct {
	script []byte
	amount int64
}

// Calibrate validates the three algorithms. testDir = /repo/lib/test (read as data).
func Calibrate(testDir string) (CalibStats, error) {
	st := CalibStats{HashTypesWitness: map[byte]int{}}

	// 1. sighash.json: 500 legacy digests produced by Bitcoin Core
	raw, err := os.ReadFile(filepath.Join(testDir, "sighash.json"))
	if err != nil {
		return st, err
	}
	var arr [][]interface{}
	if err := json.Unmarshal(raw, &arr); err != nil {
		return st, err
	}
	for n, rec := range arr {
		if len(rec) != 5 {
			continue
		}
		txb, _ := hex.DecodeString(rec[0].(string))
		scr, _ := hex.DecodeString(rec[1].(string))
		idx := int(rec[2].(float64))
		ht := uint32(int32(rec[3].(float64)))
		want, err := unDisplay(rec[4].(string))
		if err != nil {
			return st, err
		}
		tx, used, err := reftx.Decode(txb)
		if err != nil || used != len(txb) {
			return st, fmt.Errorf("sighash.json[%d]: tx does not decode: %v", n, err)
		}
		if got := Legacy(tx, scr, idx, ht); got != want {
			return st, fmt.Errorf("sighash.json[%d]: got %x want %x", n, got, want)
		}
		st.LegacyVectors++
	}
	if st.LegacyVectors < 500 {
		return st, fmt.Errorf("sighash.json: only %d vectors", st.LegacyVectors)
	}

	// 2./3. tx_valid.json
	raw, err = os.ReadFile(filepath.Join(testDir, "tx_valid.json"))
	if err != nil {
		return st, err
	}
	var recs []json.RawMessage
	if err := json.Unmarshal(raw, &recs); err != nil {
		return st, err
	}
	var pendingLegacy, pendingWitness *[32]byte
	for n, el := range recs {
		var rec []json.RawMessage
		if json.Unmarshal(el, &rec) != nil {
			continue
		}
		if len(rec) == 1 {
			var c string
			json.Unmarshal(rec[0], &c)
			if i := strings.Index(c, "correct sighash (with FindAndDelete) = "); i >= 0 {
				h, err := unDisplayOrPlain(c[i+len("correct sighash (with FindAndDelete) = "):])
				if err != nil {
					return st, err
				}
				pendingLegacy = &h
			}
			if i := strings.Index(c, "correct sighash (without FindAndDelete) = "); i >= 0 {
				h, err := unDisplayOrPlain(c[i+len("correct sighash (without FindAndDelete) = "):])
				if err != nil {
					return st, err
				}
				pendingWitness = &h
			}
			continue
		}
		if len(rec) != 3 {
			continue
		}
		var txhex, flags string
		var ins [][]interface{}
		if json.Unmarshal(rec[1], &txhex) != nil || json.Unmarshal(rec[0], &ins) != nil {
			continue
		}
		json.Unmarshal(rec[2], &flags)
		txb, _ := hex.DecodeString(txhex)
		tx, _, err := reftx.Decode(txb)
		if err != nil {
			return st, fmt.Errorf("tx_valid[%d]: %v", n, err)
		}
		prev := map[string]prevout{}
		for _, in := range ins {
			if len(in) < 3 {
				continue
			}
			scr, ok := parseScriptAsm(in[2].(string))
			if !ok {
				scr = nil
			}
			h, err := unDisplay(in[0].(string))
			if err != nil {
				continue
			}
			po := prevout{script: scr, amount: -1}
			if len(in) > 3 {
				po.amount = int64(in[3].(float64))
			}
			idx := uint32(int64(in[1].(float64)))
			prev[fmt.Sprintf("%x:%d", h, idx)] = po
		}
		witnessOn := strings.Contains(flags, "WITNESS")

		// explicit digests of the FindAndDelete section
		if pendingLegacy != nil && len(tx.In) == 1 {
			items, ok := pushes(tx.In[0].ScriptSig)
			if !ok || len(items) < 2 {
				return st, fmt.Errorf("tx_valid[%d]: FindAndDelete vector not understood", n)
			}
			// the last push is the redeem script; every signature on the stack is removed from it
			// before hashing (CHECKSIG removes its one signature, CHECKMULTISIG removes all of them)
			redeem := items[len(items)-1]
			removed := 0
			for _, it := range items[:len(items)-1] {
				if len(it) > 60 && it[0] == 0x30 {
					var k int
					redeem, k = FindAndDelete(redeem, PushData(it))
					removed += k
				}
			}
			got := Legacy(tx, redeem, 0, 1)
			if flipped(got) != *pendingLegacy && got != *pendingLegacy {
				return st, fmt.Errorf("tx_valid[%d]: legacy digest with FindAndDelete: got %x want %x", n, got, *pendingLegacy)
			}
			if removed == 0 {
				return st, fmt.Errorf("tx_valid[%d]: FindAndDelete removed nothing", n)
			}
			st.ExplicitDigests++
			pendingLegacy = nil
			continue
		}
		if pendingWitness != nil && len(tx.In) == 1 {
			w := tx.In[0].Witness
			if len(w) < 2 {
				return st, fmt.Errorf("tx_valid[%d]: BIP143 FindAndDelete vector not understood", n)
			}
			po := prev[fmt.Sprintf("%x:%d", tx.In[0].PrevHash, tx.In[0].PrevIndex)]
			got := WitnessV0(tx, w[len(w)-1], po.amount, 0, 1)
			if flipped(got) != *pendingWitness && got != *pendingWitness {
				return st, fmt.Errorf("tx_valid[%d]: BIP143 digest: got %x want %x", n, got, *pendingWitness)
			}
			st.ExplicitDigests++
			pendingWitness = nil
			continue
		}

		// published signatures on plain P2PK / P2PKH / P2WPKH inputs
		for i := range tx.In {
			po, ok := prev[fmt.Sprintf("%x:%d", tx.In[i].PrevHash, tx.In[i].PrevIndex)]
			if !ok || po.script == nil {
				continue
			}
			s := po.script
			var sig, pub []byte
			var digest [32]byte
			kind := ""
			switch {
			case len(s) == 22 && s[0] == 0 && s[1] == 20 && witnessOn && len(tx.In[i].Witness) == 2 && po.amount >= 0:
				sig, pub = tx.In[i].Witness[0], tx.In[i].Witness[1]
				if len(sig) == 0 {
					continue
				}
				code := append([]byte{0x76, 0xa9, 0x14}, s[2:]...)
				code = append(code, 0x88, 0xac)
				digest = WitnessV0(tx, code, po.amount, i, uint32(sig[len(sig)-1]))
				kind = "w"
			case len(s) == 25 && s[0] == 0x76 && s[1] == 0xa9 && s[2] == 20 && s[23] == 0x88 && s[24] == 0xac:
				items, ok := pushes(tx.In[i].ScriptSig)
				if !ok || len(items) != 2 || len(items[0]) == 0 {
					continue
				}
				sig, pub = items[0], items[1]
				digest, _ = LegacyForSig(tx, s, i, sig)
				kind = "l"
			case (len(s) == 35 && s[0] == 33 || len(s) == 67 && s[0] == 65) && s[len(s)-1] == 0xac:
				items, ok := pushes(tx.In[i].ScriptSig)
				if !ok || len(items) != 1 || len(items[0]) == 0 {
					continue
				}
				sig, pub = items[0], s[1:len(s)-1]
				digest, _ = LegacyForSig(tx, s, i, sig)
				kind = "l"
			default:
				continue
			}
			P, ok1 := parsePub(pub)
			r, sv, ok2 := parseDER(sig)
			if !ok1 || !ok2 {
				continue
			}
			if !ecdsaVerify(P, r, sv, digest) {
				return st, fmt.Errorf("tx_valid[%d] input %d (%s): published signature does not verify over the reference digest %x", n, i, kind, digest)
			}
			if kind == "w" {
				st.SigWitnessVerified++
				st.HashTypesWitness[sig[len(sig)-1]]++
			} else {
				st.SigLegacyVerified++
			}
		}
	}
	if st.ExplicitDigests != 4 {
		return st, fmt.Errorf("tx_valid.json: %d explicit digests checked, want 4", st.ExplicitDigests)
	}
	if st.SigWitnessVerified < 10 || len(st.HashTypesWitness) < 5 || st.SigLegacyVerified < 10 {
		return st, fmt.Errorf("tx_valid.json: too few signatures verified (%d witness over %d hash types, %d legacy)", st.SigWitnessVerified, len(st.HashTypesWitness), st.SigLegacyVerified)
	}

	// 4. serializer details that no vector covers (hand-derived from interpreter.cpp)
	if err := calibScriptCode(); err != nil {
		return st, err
	}

	// 5. taproot
	n, err := calibTaprootWalletVectors()
	if err != nil {
		return st, err
	}
	st.TaprootKeyPath = n
	n, err = calibTaprootHandDerived()
	if err != nil {
		return st, err
	}
	st.TaprootHandDerived = n
	return st, nil
}

func unDisplayOrPlain(s string) ([32]byte, error) {
	s = strings.TrimSpace(s)
	b, err := hex.DecodeString(s)
	var h [32]byte
	if err != nil || len(b) != 32 {
		return h, fmt.Errorf("bad digest %q", s)
	}
	copy(h[:], b)
	return h, nil
}

func flipped(h [32]byte) (r [32]byte) {
	for i := range h {
		r[i] = h[31-i]
	}
	return
}

func calibScriptCode() error {
	type c struct{ in, want string }
	cases := []c{
		{"51ab52", "02" + "5152"},       // separator removed, length reduced
		{"abab", "00"},                  // only separators
		{"51ab", "01" + "51"},           // trailing separator
		{"02abab51", "04" + "02abab51"}, // separator bytes inside push data stay
		{"514c", "02" + "514c"},         // PUSHDATA1 without length byte: iterator stops at end
		{"5105aabb", "04" + "5105"},     // direct push short of data: iterator left after the opcode
		{"514c05aabb", "05" + "514c05"}, // PUSHDATA1 short of data: left after the length byte
		{"514d05", "03" + "514d"},       // PUSHDATA2 with half a length field: left after the opcode
		{"ab5105aaab", "04" + "5105"},   // separator before the bad opcode counted, after it not
		{"", "00"},
	}
	for _, k := range cases {
		in, _ := hex.DecodeString(k.in)
		want, _ := hex.DecodeString(k.want)
		if got := serializeScriptCode(nil, in); !bytes.Equal(got, want) {
			return fmt.Errorf("serializeScriptCode(%s) = %x want %x", k.in, got, want)
		}
	}
	// FindAndDelete
	type f struct {
		in, pat, want string
		n             int
	}
	fs := []f{
		{"0302ff03", "0302ff03", "", 1},
		{"0302ff030302ff03", "0302ff03", "", 2},
		{"0302ff030302ff03", "03", "02ff0302ff03", 2}, // odd edge case of Core's tests: strips the push opcodes only
		{"0302ff030302ff03", "02", "0302ff030302ff03", 0},
		{"0302ff030302ff03", "ff", "0302ff030302ff03", 0},
		{"0302ff030302ff03", "0302", "ff030302ff03", 1}, // partial-opcode pattern: rest is re-parsed from the new position
		{"00005151", "0051", "0051", 1},                 // single pass
		{"000051005151", "0051", "0051", 2},
		{"515253", "52", "5153", 1},
		{"535153535453", "53", "5154", 4},
		{"02feed5169", "feed51", "02feed5169", 0}, // not at a boundary
		{"02feed5169", "02feed51", "69", 1},
		{"516902feed5169", "feed51", "516902feed5169", 0},
		{"516902feed5169", "02feed51", "516969", 1},
		{"0003feed", "03feed", "00", 1}, // found, then nothing left
		{"0003feed", "00", "03feed", 1},
		{"5105aabb", "51", "05aabb", 1}, // unparsable tail kept when something was removed
		{"5105aabb", "52", "5105aabb", 0},
		{"51", "", "51", 0},
	}
	for _, k := range fs {
		in, _ := hex.DecodeString(k.in)
		pat, _ := hex.DecodeString(k.pat)
		want, _ := hex.DecodeString(k.want)
		got, n := FindAndDelete(in, pat)
		if !bytes.Equal(got, want) || n != k.n {
			return fmt.Errorf("FindAndDelete(%s,%s) = %x,%d want %x,%d", k.in, k.pat, got, n, want, k.n)
		}
	}
	for _, l := range []int{0, 1, 75, 76, 255, 256, 65535, 65536} {
		p := PushData(make([]byte, l))
		op, next, ok := GetOp(p, 0)
		want := byte(l)
		switch {
		case l > 0xffff:
			want = OpPushData4
		case l > 0xff:
			want = OpPushData2
		case l >= 76:
			want = OpPushData1
		}
		if !ok || next != len(p) || op != want {
			return fmt.Errorf("PushData(%d)", l)
		}
	}
	return nil
}
