package refsighash

import (
	"bytes"
	"crypto/sha256"
	"encoding/hex"
	"fmt"

	"verif/ref/reftx"
)

// BIP341 wallet test vectors, "keyPathSpending" (bip-0341/wallet-test-vectors.json). The file is
// not available offline; the constants below were written down from memory and every one of them
// is accepted only because the recomputed 256-bit values match exactly (intermediary hashes and
// sigHash of each input), which cannot happen by accident.
const (
	bip341UnsignedTx = "02000000097de20cbff686da83a54981d2b9bab3586f4ca7e48f57f5b55963115f3b334e9c010000000000000000d7b7cab57b1393ace2d064f4d4a2cb8af6def61273e127517d44759b6dafdd990000000000fffffffff8e1f583384333689228c5d28eac13366be082dc57441760d957275419a418420000000000fffffffff0689180aa63b30cb162a73c6d2a38b7eeda2a83ece74310fda0843ad604853b0100000000feffffffaa5202bdf6d8ccd2ee0f0202afbbb7461d9264a25e5bfd3c5a52ee1239e0ba6c0000000000feffffff956149bdc66faa968eb2be2d2faa29718acbfe3941215893a2a3446d32acd050000000000000000000e664b9773b88c09c32cb70a2a3e4da0ced63b7ba3b22f848531bbb1d5d5f4c94010000000000000000e9aa6b8e6c9de67619e6a3924ae25696bb7b694bb677a632a74ef7eadfd4eabf0000000000ffffffffa778eb6a263dc090464cd125c466b5a99667720b1c110468831d058aa1b82af10100000000ffffffff0200ca9a3b000000001976a91406afd46bcdfd22ef94ac122aa11f241244a37ecc88ac807840cb0000000020ac9a87f5594be208f8532db38cff670c450ed2fea8fcdefcc9a663f78bab962b0065cd1d"

	bip341HashAmounts       = "58a6964a4f5f8f0b642ded0a8a553be7622a719da71d1f5befcefcdee8e0fde6"
	bip341HashOutputs       = "a2e6dab7c1f0dcd297c8d61647fd17d821541ea69c3cc37dcbad7f90d4eb4bc5"
	bip341HashPrevouts      = "e3b33bb4ef3a52ad1fffb555c0d82828eb22737036eaeb02a235d82b909c4c3f"
	bip341HashScriptPubkeys = "23ad0f61ad2bca5ba6a7693f50fce988e17c3780bf2b1e720cfbb38fbdd52e21"
	bip341HashSequences     = "18959c7221ab5ce9e26c3cd67b22c24f8baa54bac281d8e6b05e400e6c3a957e"
)

var bip341Spent = []struct {
	script string
	amount int64
}{
	{"512053a1f6e454df1aa2776a2814a721372d6258050de330b3c6d10ee8f4e0dda343", 420000000},
	{"5120147c9c57132f6e7ecddba9800bb0c4449251c92a1e60371ee77557b6620f3ea3", 462000000},
	{"76a914751e76e8199196d454941c45d1b3a323f1433bd688ac", 294000000},
	{"5120e4d810fd50586274face62b8a807eb9719cef49c04177cc6b76a9a4251d5450e", 504000000},
	{"512091b64d5324723a985170e4dc5a0f84c041804f2cd12660fa5dec09fc21783605", 630000000},
	{"00147dd65592d0ab2fe0d0257d571abf032cd9db93dc", 378000000},
	{"512075169f4001aa68f15bbed28b218df1d0a62cbbcf1188c6665110c293c907b831", 672000000},
	{"5120712447206d7a5238acc7ff53fbe94a3b64539ad291c7cdbc490b7577e4b17df5", 546000000},
	{"512077e30a5522dd9f894c3f8b8bd4c4b2cf82ca7da8a3ea6a239655c39c050ab220", 588000000},
}

var bip341Inputs = []struct {
	idx      int
	hashType byte
	sigHash  string
}{
	{0, 0x03, "2514a6272f85cfa0f45eb907fcb0d121b808ed37c6ea160a5a9046ed5526d555"},
	{1, 0x83, "325a644af47e8a5a2591cda0ab0723978537318f10e6a63d4eed783b96a71a4d"},
	{3, 0x01, "bf013ea93474aa67815b1b6cc441d23b64fa310911d991e713cd34c7f5d46669"},
	{4, 0x00, "4f900a0bae3f1446fd48490c2958b5a023228f01661cda3496a11da502a7f7ef"},
	{6, 0x02, "15f25c298eb5cdc7eb1d638dd2d45c97c4c59dcaec6679cfc16ad84f30876b85"},
	{7, 0x82, "cd292de50313804dabe4685e83f923d2969577191a3e1d2882220dca88cbeb10"},
	{8, 0x81, "cccb739eca6c13a8a89e6e5cd317ffe55669bbda23f2fd37b0f18755e008edd2"},
}

// Bip341Vector returns the decoded BIP341 wallet-vector transaction and its spent outputs (for
// monitors that want a real-world shaped case).
func Bip341Vector() (*reftx.Tx, []reftx.TxOut) {
	b, _ := hex.DecodeString(bip341UnsignedTx)
	tx, _, err := reftx.Decode(b)
	if err != nil {
		return nil, nil
	}
	spent := make([]reftx.TxOut, len(bip341Spent))
	for i, s := range bip341Spent {
		scr, _ := hex.DecodeString(s.script)
		spent[i] = reftx.TxOut{Value: s.amount, PkScript: scr}
	}
	return tx, spent
}

func calibTaprootWalletVectors() (int, error) {
	tx, spent := Bip341Vector()
	if tx == nil || len(tx.In) != 9 || len(tx.Out) != 2 {
		return 0, fmt.Errorf("bip341 vector: transaction does not decode")
	}
	// intermediary hashes, computed here directly from the BIP text
	var p, a, s, q, o []byte
	for i := range tx.In {
		p = reftx.AppendOutPoint(p, &tx.In[i])
		var v [8]byte
		for k := 0; k < 8; k++ {
			v[k] = byte(uint64(spent[i].Value) >> (8 * k))
		}
		a = append(a, v[:]...)
		s = reftx.AppendCompactSize(s, uint64(len(spent[i].PkScript)))
		s = append(s, spent[i].PkScript...)
		q = append(q, byte(tx.In[i].Sequence), byte(tx.In[i].Sequence>>8), byte(tx.In[i].Sequence>>16), byte(tx.In[i].Sequence>>24))
	}
	for i := range tx.Out {
		o = reftx.AppendTxOut(o, &tx.Out[i])
	}
	for _, c := range []struct {
		name string
		data []byte
		want string
	}{{"hashPrevouts", p, bip341HashPrevouts}, {"hashAmounts", a, bip341HashAmounts}, {"hashScriptPubkeys", s, bip341HashScriptPubkeys},
		{"hashSequences", q, bip341HashSequences}, {"hashOutputs", o, bip341HashOutputs}} {
		h := sha256.Sum256(c.data)
		if hex.EncodeToString(h[:]) != c.want {
			return 0, fmt.Errorf("bip341 vector: %s = %x want %s", c.name, h, c.want)
		}
	}
	n := 0
	for _, in := range bip341Inputs {
		got, err := Taproot(tx, spent, in.idx, in.hashType, nil, nil)
		if err != nil {
			return n, fmt.Errorf("bip341 vector input %d: %v", in.idx, err)
		}
		if hex.EncodeToString(got[:]) != in.sigHash {
			return n, fmt.Errorf("bip341 vector input %d type %02x: sigHash %x want %s", in.idx, in.hashType, got, in.sigHash)
		}
		n++
	}
	return n, nil
}

// calibTaprootHandDerived checks the parts no recalled vector covers (annex, script path
// extension, ANYONECANPAY|SINGLE layout, "no digest" cases) against messages laid out by hand
// from the BIP341/BIP342 text for a small fixed transaction.
func calibTaprootHandDerived() (int, error) {
	h := func(s string) []byte { b, _ := hex.DecodeString(s); return b }
	tx := &reftx.Tx{Version: 2, LockTime: 0x11223344,
		In: []reftx.TxIn{
			{PrevHash: [32]byte{0xaa, 1}, PrevIndex: 7, Sequence: 0xfffffffe},
			{PrevHash: [32]byte{0xbb, 2}, PrevIndex: 0x01020304, Sequence: 5},
		},
		Out: []reftx.TxOut{{Value: 0x0102030405, PkScript: h("51")}},
	}
	spent := []reftx.TxOut{{Value: 1000, PkScript: h("5120" + "11111111111111111111111111111111" + "11111111111111111111111111111111")},
		{Value: 0x7fffffffffffffff, PkScript: h("0014" + "2222222222222222222222222222222222222222")}}
	annex := h("50aabbcc")
	leafScript := h("20" + "3333333333333333333333333333333333333333333333333333333333333333" + "ac")
	sha := func(b []byte) []byte { x := sha256.Sum256(b); return x[:] }
	cat := func(parts ...[]byte) []byte { return bytes.Join(parts, nil) }

	outp0 := cat(tx.In[0].PrevHash[:], h("07000000"))
	outp1 := cat(tx.In[1].PrevHash[:], h("04030201"))
	amt0, amt1 := h("e803000000000000"), h("ffffffffffffff7f")
	spk0 := cat(h("22"), spent[0].PkScript)
	spk1 := cat(h("16"), spent[1].PkScript)
	seq0, seq1 := h("feffffff"), h("05000000")
	out0 := cat(h("0504030201000000"), h("0151"))
	shaPrev, shaAmt, shaSpk, shaSeq := sha(cat(outp0, outp1)), sha(cat(amt0, amt1)), sha(cat(spk0, spk1)), sha(cat(seq0, seq1))
	shaOuts := sha(out0)
	shaAnnex := sha(cat(h("04"), annex))
	leaf := TaggedHash("TapLeaf", cat(h("c0"), h("22"), leafScript))
	if TapLeafHash(0xc0, leafScript) != leaf {
		return 0, fmt.Errorf("TapLeafHash")
	}
	tag := sha([]byte("TapSighash"))
	digest := func(msg []byte) [32]byte {
		var r [32]byte
		copy(r[:], sha(cat(tag, tag, h("00"), msg)))
		return r
	}
	n := 0
	check := func(name string, idx int, ht byte, ann []byte, sp *ScriptPath, msg []byte) error {
		got, err := Taproot(tx, spent, idx, ht, ann, sp)
		if err != nil {
			return fmt.Errorf("hand-derived %s: %v", name, err)
		}
		if got != digest(msg) {
			return fmt.Errorf("hand-derived %s: digest mismatch", name)
		}
		n++
		return nil
	}
	ver, lock := h("02000000"), h("44332211")
	// key path, DEFAULT, no annex, input 1
	if err := check("default", 1, 0x00, nil, nil, cat(h("00"), ver, lock, shaPrev, shaAmt, shaSpk, shaSeq, shaOuts, h("00"), h("01000000"))); err != nil {
		return n, err
	}
	// key path, ALL, annex, input 0
	if err := check("all+annex", 0, 0x01, annex, nil, cat(h("01"), ver, lock, shaPrev, shaAmt, shaSpk, shaSeq, shaOuts, h("01"), h("00000000"), shaAnnex)); err != nil {
		return n, err
	}
	// key path, NONE
	if err := check("none", 0, 0x02, nil, nil, cat(h("02"), ver, lock, shaPrev, shaAmt, shaSpk, shaSeq, h("00"), h("00000000"))); err != nil {
		return n, err
	}
	// key path, SINGLE|ANYONECANPAY, annex, input 0 (has a matching output)
	if err := check("single|acp+annex", 0, 0x83, annex, nil, cat(h("83"), ver, lock, h("01"), outp0, amt0, spk0, seq0, shaAnnex, sha(out0))); err != nil {
		return n, err
	}
	// key path, ALL|ANYONECANPAY, input 1
	if err := check("all|acp", 1, 0x81, nil, nil, cat(h("81"), ver, lock, shaOuts, h("00"), outp1, amt1, spk1, seq1)); err != nil {
		return n, err
	}
	// script path, DEFAULT, no annex, no code separator executed
	sp := &ScriptPath{LeafHash: leaf, KeyVersion: 0, CodeSepPos: 0xffffffff}
	if err := check("script/default", 1, 0x00, nil, sp, cat(h("00"), ver, lock, shaPrev, shaAmt, shaSpk, shaSeq, shaOuts, h("02"), h("01000000"), leaf[:], h("00"), h("ffffffff"))); err != nil {
		return n, err
	}
	// script path, SINGLE, annex, code separator at opcode position 3
	sp2 := &ScriptPath{LeafHash: leaf, KeyVersion: 0, CodeSepPos: 3}
	if err := check("script/single+annex", 0, 0x03, annex, sp2, cat(h("03"), ver, lock, shaPrev, shaAmt, shaSpk, shaSeq, h("03"), h("00000000"), shaAnnex, sha(out0), leaf[:], h("00"), h("03000000"))); err != nil {
		return n, err
	}
	// script path, NONE|ANYONECANPAY
	if err := check("script/none|acp", 1, 0x82, nil, sp, cat(h("82"), ver, lock, h("02"), outp1, amt1, spk1, seq1, leaf[:], h("00"), h("ffffffff"))); err != nil {
		return n, err
	}
	// no digest
	for _, ht := range []int{0x04, 0x05, 0x10, 0x7f, 0x80, 0x84, 0xc1, 0xff} {
		if _, err := Taproot(tx, spent, 0, byte(ht), nil, nil); err != ErrNoDigestHashType {
			return n, fmt.Errorf("hash type %02x: want no digest", ht)
		}
		n++
	}
	for _, ht := range []byte{0x03, 0x83} {
		if _, err := Taproot(tx, spent, 1, ht, nil, nil); err != ErrNoDigestSingle {
			return n, fmt.Errorf("single without output: want no digest")
		}
		if _, err := Taproot(tx, spent, 1, ht, nil, sp); err != ErrNoDigestSingle {
			return n, fmt.Errorf("single without output (script path): want no digest")
		}
		n += 2
	}
	defined := 0
	for ht := 0; ht < 256; ht++ {
		if TaprootHashTypeDefined(byte(ht)) {
			defined++
		}
	}
	if defined != 7 {
		return n, fmt.Errorf("defined hash types: %d", defined)
	}
	return n, nil
}
