// Package refsighash is the reference implementation of Bitcoin's three signature-hash
// algorithms, written from the specifications (Bitcoin Core's script/interpreter.cpp for the
// original algorithm, BIP143, BIP341/BIP342). It keeps no cache of any kind: every digest is
// recomputed from the transaction. It imports nothing from the code under test.
package refsighash

import (
	"crypto/sha256"
	"encoding/binary"
	"errors"

	"verif/ref/reftx"
)

const (
	SigHashDefault      = 0
	SigHashAll          = 1
	SigHashNone         = 2
	SigHashSingle       = 3
	SigHashAnyoneCanPay = 0x80

	OpPushData1     = 0x4c
	OpPushData2     = 0x4d
	OpPushData4     = 0x4e
	OpCodeSeparator = 0xab
)

// One is uint256 ONE in internal byte order: what the original algorithm returns for
// SIGHASH_SINGLE with no matching output.
var One = [32]byte{1}

// ---------------------------------------------------------------------------------------------
// script iteration exactly as Core's GetScriptOp

// GetOp parses one opcode at pc. It returns the position after the opcode. When the opcode cannot
// be parsed ok is false and next is the position where Core's iterator is left by the failed
// call (it has advanced over the opcode byte and over a complete length field, but not over data).
func GetOp(script []byte, pc int) (opcode byte, next int, ok bool) {
	end := len(script)
	if pc >= end {
		return 0xff, pc, false
	}
	op := script[pc]
	pc++
	if op <= OpPushData4 {
		var n uint32
		switch {
		case op < OpPushData1:
			n = uint32(op)
		case op == OpPushData1:
			if end-pc < 1 {
				return 0xff, pc, false
			}
			n = uint32(script[pc])
			pc++
		case op == OpPushData2:
			if end-pc < 2 {
				return 0xff, pc, false
			}
			n = uint32(binary.LittleEndian.Uint16(script[pc:]))
			pc += 2
		default:
			if end-pc < 4 {
				return 0xff, pc, false
			}
			n = binary.LittleEndian.Uint32(script[pc:])
			pc += 4
		}
		if uint64(end-pc) < uint64(n) {
			return 0xff, pc, false
		}
		pc += int(n)
	}
	return op, pc, true
}

// PushData is CScript() << data: the minimal-opcode push of data (no OP_N folding).
func PushData(data []byte) []byte {
	n := len(data)
	var b []byte
	switch {
	case n < OpPushData1:
		b = append(b, byte(n))
	case n <= 0xff:
		b = append(b, OpPushData1, byte(n))
	case n <= 0xffff:
		b = append(b, OpPushData2, byte(n), byte(n>>8))
	default:
		b = append(b, OpPushData4, byte(n), byte(n>>8), byte(n>>16), byte(n>>24))
	}
	return append(b, data...)
}

// FindAndDelete is Core's FindAndDelete: removes every occurrence of pattern that starts at an
// opcode boundary (consecutive occurrences too) and returns the new script and the number of
// removals. A tail that does not parse is kept. An empty pattern removes nothing.
func FindAndDelete(script, pattern []byte) ([]byte, int) {
	found := 0
	if len(pattern) == 0 {
		return script, 0
	}
	var result []byte
	pc, pc2, end := 0, 0, len(script)
	for {
		result = append(result, script[pc2:pc]...)
		for end-pc >= len(pattern) && string(script[pc:pc+len(pattern)]) == string(pattern) {
			pc += len(pattern)
			found++
		}
		pc2 = pc
		_, next, ok := GetOp(script, pc)
		pc = next
		if !ok {
			break
		}
	}
	if found > 0 {
		result = append(result, script[pc2:end]...)
		return result, found
	}
	return script, 0
}

// serializeScriptCode is CTransactionSignatureSerializer::SerializeScriptCode: the declared
// length is len(script) minus the number of OP_CODESEPARATORs found before the first opcode that
// does not parse; the body is the script without those separators, ending where the iterator was
// left by the failed parse (so bytes after an unparsable opcode's length field are not written).
func serializeScriptCode(b []byte, script []byte) []byte {
	nsep := 0
	pc := 0
	for {
		op, next, ok := GetOp(script, pc)
		pc = next
		if !ok {
			break
		}
		if op == OpCodeSeparator {
			nsep++
		}
	}
	b = reftx.AppendCompactSize(b, uint64(len(script)-nsep))
	begin := 0
	pc = 0
	for {
		op, next, ok := GetOp(script, pc)
		pc = next
		if !ok {
			break
		}
		if op == OpCodeSeparator {
			b = append(b, script[begin:pc-1]...)
			begin = pc
		}
	}
	if begin != len(script) {
		b = append(b, script[begin:pc]...)
	}
	return b
}

// LegacyPreimage is the byte string hashed by the original algorithm (nil when the result is the
// constant ONE). The caller has already applied FindAndDelete to scriptCode.
func LegacyPreimage(tx *reftx.Tx, scriptCode []byte, nIn int, hashType uint32) []byte {
	base := hashType & 0x1f
	acp := hashType&SigHashAnyoneCanPay != 0
	single := base == SigHashSingle
	none := base == SigHashNone
	if nIn >= len(tx.In) {
		return nil // historical behaviour: ONE
	}
	if single && nIn >= len(tx.Out) {
		return nil
	}
	b := make([]byte, 0, 256)
	b = binary.LittleEndian.AppendUint32(b, tx.Version)
	nInputs := len(tx.In)
	if acp {
		nInputs = 1
	}
	b = reftx.AppendCompactSize(b, uint64(nInputs))
	for k := 0; k < nInputs; k++ {
		i := k
		if acp {
			i = nIn
		}
		b = reftx.AppendOutPoint(b, &tx.In[i])
		if i != nIn {
			b = append(b, 0) // blank script
		} else {
			b = serializeScriptCode(b, scriptCode)
		}
		if i != nIn && (single || none) {
			b = append(b, 0, 0, 0, 0)
		} else {
			b = binary.LittleEndian.AppendUint32(b, tx.In[i].Sequence)
		}
	}
	nOutputs := len(tx.Out)
	if none {
		nOutputs = 0
	} else if single {
		nOutputs = nIn + 1
	}
	b = reftx.AppendCompactSize(b, uint64(nOutputs))
	for i := 0; i < nOutputs; i++ {
		if single && i != nIn {
			// CTxOut(): value -1, empty script
			b = append(b, 0xff, 0xff, 0xff, 0xff, 0xff, 0xff, 0xff, 0xff, 0)
		} else {
			b = reftx.AppendTxOut(b, &tx.Out[i])
		}
	}
	b = binary.LittleEndian.AppendUint32(b, tx.LockTime)
	b = binary.LittleEndian.AppendUint32(b, hashType)
	return b
}

// Legacy is the original signature hash (SIGVERSION_BASE) of input nIn for the given script code
// (after the caller's FindAndDelete) and 32-bit hash type.
func Legacy(tx *reftx.Tx, scriptCode []byte, nIn int, hashType uint32) [32]byte {
	pre := LegacyPreimage(tx, scriptCode, nIn, hashType)
	if pre == nil {
		return One
	}
	return reftx.DoubleSHA256(pre)
}

// LegacyForSig applies the signature removal of EvalChecksigPreTapscript (FindAndDelete of the
// push of sig) and then Legacy with the hash type taken from the signature's last byte.
func LegacyForSig(tx *reftx.Tx, scriptCode []byte, nIn int, sig []byte) (digest [32]byte, removed int) {
	sc, n := FindAndDelete(scriptCode, PushData(sig))
	var ht uint32
	if len(sig) > 0 {
		ht = uint32(sig[len(sig)-1])
	}
	return Legacy(tx, sc, nIn, ht), n
}

// ---------------------------------------------------------------------------------------------
// BIP143

func WitnessV0Preimage(tx *reftx.Tx, scriptCode []byte, amount int64, nIn int, hashType uint32) []byte {
	base := hashType & 0x1f
	acp := hashType&SigHashAnyoneCanPay != 0
	var hashPrevouts, hashSequence, hashOutputs [32]byte
	if !acp {
		var b []byte
		for i := range tx.In {
			b = reftx.AppendOutPoint(b, &tx.In[i])
		}
		hashPrevouts = reftx.DoubleSHA256(b)
	}
	if !acp && base != SigHashSingle && base != SigHashNone {
		var b []byte
		for i := range tx.In {
			b = binary.LittleEndian.AppendUint32(b, tx.In[i].Sequence)
		}
		hashSequence = reftx.DoubleSHA256(b)
	}
	if base != SigHashSingle && base != SigHashNone {
		var b []byte
		for i := range tx.Out {
			b = reftx.AppendTxOut(b, &tx.Out[i])
		}
		hashOutputs = reftx.DoubleSHA256(b)
	} else if base == SigHashSingle && nIn < len(tx.Out) {
		hashOutputs = reftx.DoubleSHA256(reftx.AppendTxOut(nil, &tx.Out[nIn]))
	}
	b := make([]byte, 0, 200+len(scriptCode))
	b = binary.LittleEndian.AppendUint32(b, tx.Version)
	b = append(b, hashPrevouts[:]...)
	b = append(b, hashSequence[:]...)
	b = reftx.AppendOutPoint(b, &tx.In[nIn])
	b = reftx.AppendCompactSize(b, uint64(len(scriptCode)))
	b = append(b, scriptCode...)
	b = binary.LittleEndian.AppendUint64(b, uint64(amount))
	b = binary.LittleEndian.AppendUint32(b, tx.In[nIn].Sequence)
	b = append(b, hashOutputs[:]...)
	b = binary.LittleEndian.AppendUint32(b, tx.LockTime)
	b = binary.LittleEndian.AppendUint32(b, hashType)
	return b
}

// WitnessV0 is the BIP143 digest. scriptCode is used as given (no signature removal, no
// OP_CODESEPARATOR removal: the caller passes the script from the last executed separator on).
func WitnessV0(tx *reftx.Tx, scriptCode []byte, amount int64, nIn int, hashType uint32) [32]byte {
	return reftx.DoubleSHA256(WitnessV0Preimage(tx, scriptCode, amount, nIn, hashType))
}

// ---------------------------------------------------------------------------------------------
// BIP341 / BIP342

// TaggedHash is BIP340's hash_tag(x) = SHA256(SHA256(tag) || SHA256(tag) || x).
func TaggedHash(tag string, parts ...[]byte) [32]byte {
	t := sha256.Sum256([]byte(tag))
	h := sha256.New()
	h.Write(t[:])
	h.Write(t[:])
	for _, p := range parts {
		h.Write(p)
	}
	var out [32]byte
	copy(out[:], h.Sum(nil))
	return out
}

// TapLeafHash is hash_TapLeaf(leaf_version || compact_size(len(script)) || script).
func TapLeafHash(leafVersion byte, script []byte) [32]byte {
	b := []byte{leafVersion}
	b = reftx.AppendCompactSize(b, uint64(len(script)))
	b = append(b, script...)
	return TaggedHash("TapLeaf", b)
}

// AnnexHash is sha_annex: SHA256(compact_size(len(annex)) || annex), annex including its 0x50 prefix.
func AnnexHash(annex []byte) [32]byte {
	b := reftx.AppendCompactSize(nil, uint64(len(annex)))
	b = append(b, annex...)
	return sha256.Sum256(b)
}

// ScriptPath carries the BIP342 extension of the signature message.
type ScriptPath struct {
	LeafHash   [32]byte
	KeyVersion byte   // 0 for BIP342
	CodeSepPos uint32 // opcode position of the last executed OP_CODESEPARATOR, 0xffffffff if none
}

var (
	ErrNoDigestHashType = errors.New("no digest: undefined taproot hash type")
	ErrNoDigestSingle   = errors.New("no digest: SIGHASH_SINGLE without matching output")
	ErrNoDigestInputs   = errors.New("no digest: input index / spent outputs out of range")
)

// TaprootHashTypeDefined reports whether BIP341 defines hash_type.
func TaprootHashTypeDefined(ht byte) bool {
	return ht <= 0x03 || (ht >= 0x81 && ht <= 0x83)
}

// TaprootSigMsg builds BIP341's SigMsg(hash_type, ext_flag) followed by the BIP342 extension when
// sp != nil. annex == nil means "no annex" (an annex is never empty: it starts with 0x50).
// spent holds the outputs spent by every input, in input order.
func TaprootSigMsg(tx *reftx.Tx, spent []reftx.TxOut, nIn int, hashType byte, annex []byte, sp *ScriptPath) ([]byte, error) {
	if !TaprootHashTypeDefined(hashType) {
		return nil, ErrNoDigestHashType
	}
	if nIn < 0 || nIn >= len(tx.In) || len(spent) != len(tx.In) {
		return nil, ErrNoDigestInputs
	}
	outType := hashType & 3
	if hashType == SigHashDefault {
		outType = SigHashAll
	}
	acp := hashType&0x80 != 0
	if outType == SigHashSingle && nIn >= len(tx.Out) {
		return nil, ErrNoDigestSingle
	}
	var extFlag byte
	if sp != nil {
		extFlag = 1
	}
	b := make([]byte, 0, 256)
	b = append(b, hashType)
	b = binary.LittleEndian.AppendUint32(b, tx.Version)
	b = binary.LittleEndian.AppendUint32(b, tx.LockTime)
	if !acp {
		var p, a, s, q []byte
		for i := range tx.In {
			p = reftx.AppendOutPoint(p, &tx.In[i])
			a = binary.LittleEndian.AppendUint64(a, uint64(spent[i].Value))
			s = reftx.AppendCompactSize(s, uint64(len(spent[i].PkScript)))
			s = append(s, spent[i].PkScript...)
			q = binary.LittleEndian.AppendUint32(q, tx.In[i].Sequence)
		}
		for _, x := range [][]byte{p, a, s, q} {
			h := sha256.Sum256(x)
			b = append(b, h[:]...)
		}
	}
	if outType == SigHashAll {
		var o []byte
		for i := range tx.Out {
			o = reftx.AppendTxOut(o, &tx.Out[i])
		}
		h := sha256.Sum256(o)
		b = append(b, h[:]...)
	}
	spendType := extFlag * 2
	if annex != nil {
		spendType++
	}
	b = append(b, spendType)
	if acp {
		b = reftx.AppendOutPoint(b, &tx.In[nIn])
		b = reftx.AppendTxOut(b, &spent[nIn])
		b = binary.LittleEndian.AppendUint32(b, tx.In[nIn].Sequence)
	} else {
		b = binary.LittleEndian.AppendUint32(b, uint32(nIn))
	}
	if annex != nil {
		h := AnnexHash(annex)
		b = append(b, h[:]...)
	}
	if outType == SigHashSingle {
		h := sha256.Sum256(reftx.AppendTxOut(nil, &tx.Out[nIn]))
		b = append(b, h[:]...)
	}
	if sp != nil {
		b = append(b, sp.LeafHash[:]...)
		b = append(b, sp.KeyVersion)
		b = binary.LittleEndian.AppendUint32(b, sp.CodeSepPos)
	}
	return b, nil
}

// Taproot is the BIP341 (sp == nil, key path) / BIP342 (sp != nil, script path) digest:
// hash_TapSighash(0x00 || SigMsg || ext). It returns an error where the BIPs define no digest.
func Taproot(tx *reftx.Tx, spent []reftx.TxOut, nIn int, hashType byte, annex []byte, sp *ScriptPath) ([32]byte, error) {
	msg, err := TaprootSigMsg(tx, spent, nIn, hashType, annex, sp)
	if err != nil {
		return [32]byte{}, err
	}
	return TaggedHash("TapSighash", []byte{0}, msg), nil
}
