package refscript

import (
	"encoding/hex"
	"fmt"
	"strconv"
	"strings"

	"verif/ref/refsighash"
)

// PushData is CScript() << data (no OP_N folding).
func PushData(data []byte) []byte { return refsighash.PushData(data) }

// PushInt is CScript() << int64: OP_0, OP_1NEGATE, OP_1..OP_16 or the minimal push of the
// serialised script number.
func PushInt(n int64) []byte {
	switch {
	case n == -1 || (n >= 1 && n <= 16):
		return []byte{byte(n + (OP_1 - 1))}
	case n == 0:
		return []byte{OP_0}
	}
	return PushData(EncodeNum(n))
}

var opByName map[string]byte

func init() {
	opByName = map[string]byte{}
	for op, name := range opNames {
		opByName[name] = op
		opByName[strings.TrimPrefix(name, "OP_")] = op
	}
	// historical aliases
	opByName["OP_NOP2"], opByName["NOP2"] = OP_CHECKLOCKTIMEVERIFY, OP_CHECKLOCKTIMEVERIFY
	opByName["OP_NOP3"], opByName["NOP3"] = OP_CHECKSEQUENCEVERIFY, OP_CHECKSEQUENCEVERIFY
}

func allDigits(s string) bool {
	if s == "" {
		return false
	}
	for _, c := range s {
		if c < '0' || c > '9' {
			return false
		}
	}
	return true
}

// ParseScript is Core's ParseScript (core_read.cpp): the notation of the JSON test vectors.
func ParseScript(s string) ([]byte, error) {
	var out []byte
	for _, w := range strings.FieldsFunc(s, func(r rune) bool { return r == ' ' || r == '\t' || r == '\n' }) {
		switch {
		case allDigits(w) || (len(w) > 1 && w[0] == '-' && allDigits(w[1:])):
			n, err := strconv.ParseInt(w, 10, 64)
			if err != nil || n > 0xffffffff || n < -0xffffffff {
				return nil, fmt.Errorf("script parse error: decimal numeric value only allowed in the range -0xFFFFFFFF...0xFFFFFFFF: %q", w)
			}
			out = append(out, PushInt(n)...)
		case len(w) > 2 && w[:2] == "0x" && isHex(w[2:]):
			raw, _ := hex.DecodeString(w[2:])
			out = append(out, raw...)
		case len(w) >= 2 && w[0] == '\'' && w[len(w)-1] == '\'':
			out = append(out, PushData([]byte(w[1:len(w)-1]))...)
		default:
			op, ok := opByName[w]
			if !ok {
				return nil, fmt.Errorf("script parse error: unknown opcode %q", w)
			}
			out = append(out, op)
		}
	}
	return out, nil
}

func isHex(s string) bool {
	if len(s) == 0 || len(s)%2 != 0 {
		return false
	}
	_, err := hex.DecodeString(s)
	return err == nil
}

// ParseFlags parses a comma separated flag list of the JSON test vectors.
func ParseFlags(s string) (uint32, error) {
	var f uint32
	for _, w := range strings.Split(s, ",") {
		v, ok := FlagNames[w]
		if !ok {
			return 0, fmt.Errorf("unknown verification flag %q", w)
		}
		f |= v
	}
	return f, nil
}
