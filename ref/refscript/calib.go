package refscript

import (
	"bytes"
	"crypto/sha256"
	"encoding/hex"
	"encoding/json"
	"fmt"
	"math"
	"math/big"
	"os"
	"path/filepath"
	"strings"

	"verif/ref/refec"
	"verif/ref/refsighash"
	"verif/ref/reftx"
)

// CalibStats reports what the calibration covered.
type CalibStats struct {
	ScriptTests      int            // entries of script_tests.json reproduced (verdict and error name)
	ScriptTestErrors map[string]int // by expected error name
	TxValidInputs    int            // inputs of tx_valid.json verified OK
	TxValidTxs       int
	TxInvalidTxs     int // transactions of tx_invalid.json rejected (by CheckTransaction or by a script)
	TxInvalidScript  int // ... of which by script verification
	LaxDER           int
	ScriptNum        int
	TaprootVectors   int // BIP341 wallet vectors (commitments, control blocks, one key path signature)
	TaprootHand      int // hand-laid-out taproot/tapscript examples
	OpcodesExecuted  int
	ErrorCodes       int
}

// BuildCreditingTx / BuildSpendingTx are the two transactions of Core's script_tests.
func BuildCreditingTx(scriptPubKey []byte, value int64) *reftx.Tx {
	return &reftx.Tx{Version: 1, LockTime: 0,
		In:  []reftx.TxIn{{PrevIndex: 0xffffffff, ScriptSig: []byte{OP_0, OP_0}, Sequence: SequenceFinal}},
		Out: []reftx.TxOut{{Value: value, PkScript: scriptPubKey}}}
}

func BuildSpendingTx(scriptSig []byte, witness [][]byte, credit *reftx.Tx) *reftx.Tx {
	return &reftx.Tx{Version: 1, LockTime: 0,
		In:  []reftx.TxIn{{PrevHash: credit.Txid(), PrevIndex: 0, ScriptSig: scriptSig, Sequence: SequenceFinal, Witness: witness}},
		Out: []reftx.TxOut{{Value: credit.Out[0].Value, PkScript: []byte{}}}}
}

// checkTransaction is Core's CheckTransaction (consensus/tx_check.cpp); "" when valid.
func checkTransaction(tx *reftx.Tx) string {
	if len(tx.In) == 0 {
		return "bad-txns-vin-empty"
	}
	if len(tx.Out) == 0 {
		return "bad-txns-vout-empty"
	}
	if tx.StrippedSize()*reftx.WitnessScaleFactor > reftx.MaxBlockWeight {
		return "bad-txns-oversize"
	}
	const maxMoney = 21000000 * 100000000
	var total int64
	for _, o := range tx.Out {
		if o.Value < 0 {
			return "bad-txns-vout-negative"
		}
		if o.Value > maxMoney {
			return "bad-txns-vout-toolarge"
		}
		total += o.Value
		if total < 0 || total > maxMoney {
			return "bad-txns-txouttotal-toolarge"
		}
	}
	seen := map[string]bool{}
	for i := range tx.In {
		k := string(reftx.AppendOutPoint(nil, &tx.In[i]))
		if seen[k] {
			return "bad-txns-inputs-duplicate"
		}
		seen[k] = true
	}
	if tx.IsCoinBase() {
		if n := len(tx.In[0].ScriptSig); n < 2 || n > 100 {
			return "bad-cb-length"
		}
	} else {
		for i := range tx.In {
			if tx.In[i].PrevHash == ([32]byte{}) && tx.In[i].PrevIndex == 0xffffffff {
				return "bad-txns-prevout-null"
			}
		}
	}
	return ""
}

// Calibrate reproduces every entry of script_tests.json (verdict and expected error name), every
// input of tx_valid.json and every transaction of tx_invalid.json, plus hand-derived vectors for
// the parts those files do not reach. Any failure means the oracle cannot be trusted.
func Calibrate(testDir string) (st CalibStats, err error) {
	defer func() {
		if x := recover(); x != nil {
			err = fmt.Errorf("refscript calibration panic: %v", x)
		}
	}()
	st.ScriptTestErrors = map[string]int{}
	tr := &Trace{}
	codes := map[ScriptError]bool{}

	// ---- script_tests.json
	raw, err := os.ReadFile(filepath.Join(testDir, "script_tests.json"))
	if err != nil {
		return st, err
	}
	var tests [][]interface{}
	if err := json.Unmarshal(raw, &tests); err != nil {
		return st, err
	}
	for n, t := range tests {
		var witness [][]byte
		var value int64
		pos := 0
		if len(t) > 0 {
			if w, ok := t[0].([]interface{}); ok {
				for i, e := range w {
					if i == len(w)-1 {
						f, ok := e.(float64)
						if !ok {
							return st, fmt.Errorf("script_tests[%d]: amount missing", n)
						}
						value = int64(math.Round(f * 1e8))
						break
					}
					b, err := hex.DecodeString(e.(string))
					if err != nil {
						return st, fmt.Errorf("script_tests[%d]: witness hex: %v", n, err)
					}
					witness = append(witness, b)
				}
				pos++
			}
		}
		if len(t) < 4+pos {
			if len(t) != 1 {
				return st, fmt.Errorf("script_tests[%d]: bad test", n)
			}
			continue
		}
		sigStr, pkStr, flagStr, want := t[pos].(string), t[pos+1].(string), t[pos+2].(string), t[pos+3].(string)
		scriptSig, err := ParseScript(sigStr)
		if err != nil {
			return st, fmt.Errorf("script_tests[%d]: %v", n, err)
		}
		scriptPubKey, err := ParseScript(pkStr)
		if err != nil {
			return st, fmt.Errorf("script_tests[%d]: %v", n, err)
		}
		flags, err := ParseFlags(flagStr)
		if err != nil {
			return st, fmt.Errorf("script_tests[%d]: %v", n, err)
		}
		if flags&FlagCleanStack != 0 {
			flags |= FlagP2SH | FlagWitness
		}
		credit := BuildCreditingTx(scriptPubKey, value)
		spend := BuildSpendingTx(scriptSig, witness, credit)
		ok, code := VerifyTrace(scriptSig, scriptPubKey, witness, spend, 0, value, []reftx.TxOut{credit.Out[0]}, flags, tr)
		codes[code] = true
		got := code.String()
		match := got == want
		if want == "error" { // one entry of this file names no specific error
			match = !ok
		}
		if !match {
			return st, fmt.Errorf("script_tests[%d] (%q | %q | %s): got %s want %s", n, sigStr, pkStr, flagStr, got, want)
		}
		st.ScriptTests++
		st.ScriptTestErrors[want]++
	}
	if st.ScriptTests < 1150 {
		return st, fmt.Errorf("script_tests.json: only %d entries", st.ScriptTests)
	}

	// ---- tx_valid.json / tx_invalid.json
	for _, file := range []string{"tx_valid.json", "tx_invalid.json"} {
		valid := file == "tx_valid.json"
		raw, err := os.ReadFile(filepath.Join(testDir, file))
		if err != nil {
			return st, err
		}
		var recs []json.RawMessage
		if err := json.Unmarshal(raw, &recs); err != nil {
			return st, err
		}
		for n, el := range recs {
			var rec []json.RawMessage
			if json.Unmarshal(el, &rec) != nil || len(rec) != 3 {
				continue
			}
			var ins [][]interface{}
			var txhex, flagStr string
			if json.Unmarshal(rec[0], &ins) != nil || json.Unmarshal(rec[1], &txhex) != nil || json.Unmarshal(rec[2], &flagStr) != nil {
				return st, fmt.Errorf("%s[%d]: bad record", file, n)
			}
			flags, err := ParseFlags(flagStr)
			if err != nil {
				return st, fmt.Errorf("%s[%d]: %v", file, n, err)
			}
			type prevout struct {
				script []byte
				amount int64
			}
			prev := map[string]prevout{}
			for _, in := range ins {
				if len(in) < 3 {
					return st, fmt.Errorf("%s[%d]: bad prevout", file, n)
				}
				hb, err := hex.DecodeString(in[0].(string))
				if err != nil || len(hb) != 32 {
					return st, fmt.Errorf("%s[%d]: bad prevout hash", file, n)
				}
				var h [32]byte
				for i := range hb {
					h[i] = hb[31-i]
				}
				scr, err := ParseScript(in[2].(string))
				if err != nil {
					return st, fmt.Errorf("%s[%d]: %v", file, n, err)
				}
				po := prevout{script: scr}
				if len(in) > 3 {
					po.amount = int64(in[3].(float64))
				}
				prev[fmt.Sprintf("%x:%d", h, uint32(int64(in[1].(float64))))] = po
			}
			txb, err := hex.DecodeString(txhex)
			if err != nil {
				return st, fmt.Errorf("%s[%d]: tx hex", file, n)
			}
			tx, _, err := reftx.Decode(txb)
			if err != nil {
				return st, fmt.Errorf("%s[%d]: tx does not decode: %v", file, n, err)
			}
			fValid := checkTransaction(tx) == ""
			if valid && !fValid {
				return st, fmt.Errorf("%s[%d]: CheckTransaction failed on a valid vector", file, n)
			}
			byScript := false
			spent := make([]reftx.TxOut, len(tx.In))
			for i := range tx.In {
				po := prev[fmt.Sprintf("%x:%d", tx.In[i].PrevHash, tx.In[i].PrevIndex)]
				spent[i] = reftx.TxOut{Value: po.amount, PkScript: po.script}
			}
			for i := 0; i < len(tx.In) && fValid; i++ {
				po, ok := prev[fmt.Sprintf("%x:%d", tx.In[i].PrevHash, tx.In[i].PrevIndex)]
				if !ok {
					return st, fmt.Errorf("%s[%d]: bad test, missing prevout for input %d", file, n, i)
				}
				okv, code := VerifyTrace(tx.In[i].ScriptSig, po.script, tx.In[i].Witness, tx, i, po.amount, spent, flags, tr)
				codes[code] = true
				if valid {
					if !okv {
						return st, fmt.Errorf("%s[%d] input %d: got %s want OK", file, n, i, code)
					}
					st.TxValidInputs++
				} else if !okv {
					fValid = false
					byScript = true
				}
			}
			if valid {
				st.TxValidTxs++
			} else {
				if fValid {
					return st, fmt.Errorf("%s[%d]: transaction accepted, must be rejected", file, n)
				}
				st.TxInvalidTxs++
				if byScript {
					st.TxInvalidScript++
				}
			}
		}
	}
	if st.TxValidTxs < 100 || st.TxInvalidTxs < 80 {
		return st, fmt.Errorf("tx vector files: only %d valid / %d invalid transactions", st.TxValidTxs, st.TxInvalidTxs)
	}

	if err := calibLaxDER(&st); err != nil {
		return st, err
	}
	if err := calibScriptNum(&st); err != nil {
		return st, err
	}
	if err := calibTaproot(&st, tr, codes); err != nil {
		return st, err
	}
	for _, b := range tr.Executed {
		if b {
			st.OpcodesExecuted++
		}
	}
	st.ErrorCodes = len(codes)
	return st, nil
}

func unhex(s string) []byte {
	b, err := hex.DecodeString(strings.ReplaceAll(s, " ", ""))
	if err != nil {
		panic(err)
	}
	return b
}

// calibLaxDER: cases laid out by hand from the text of ecdsa_signature_parse_der_lax.
func calibLaxDER(st *CalibStats) error {
	type tc struct {
		in   string
		ok   bool
		r, s int64 // -1: do not compare (large)
	}
	cases := []tc{
		{"3006020101020102", true, 1, 2},
		{"30060201010201020000", true, 1, 2},       // trailing garbage ignored
		{"307f020101020102", true, 1, 2},           // sequence length not validated (short form)
		{"30ff020101020102", false, 0, 0},          // 0xff = long form with 127 length bytes: more than there is
		{"3081ff020101020102", true, 1, 2},         // long form 0x81: one length byte (ff) skipped, value ignored
		{"308106020101020102", true, 1, 2},         // long form 0x81: skip one length byte
		{"3006028101010201 02", true, 1, 2},        // long-form integer length 0x81 0x01
		{"300602820001010201 02", true, 1, 2},      // long form with leading zero length byte
		{"30060285000000000101020102", true, 1, 2}, // many leading zero length bytes are skipped
		{"300602840100000001020102", false, 0, 0},  // 4 significant length bytes -> fail
		{"300602010102 01", false, 0, 0},           // truncated before S length
		{"3006020101020200", false, 0, 0},          // S length 2 but 1 byte left
		{"3006020100020100", true, 0, 0},           // zeros parse fine (verification fails later)
		{"30060201ff020180", true, 255, 128},       // "negative" DER integers are read as unsigned
		{"300a02030000010203000002", true, 1, 2},   // leading zeros ignored
		{"3106020101020102", false, 0, 0},          // wrong tag
		{"3006030101020102", false, 0, 0},          // wrong integer tag
		{"", false, 0, 0},
		{"30", false, 0, 0},
		{"3000", false, 0, 0},
		{"30060201", false, 0, 0},
	}
	for i, c := range cases {
		r, s, ok := ParseDERLax(unhex(c.in))
		if ok != c.ok {
			return fmt.Errorf("lax DER case %d (%s): ok=%v want %v", i, c.in, ok, c.ok)
		}
		if ok && (r.Int64() != c.r || s.Int64() != c.s) {
			return fmt.Errorf("lax DER case %d (%s): r=%v s=%v want %d %d", i, c.in, r, s, c.r, c.s)
		}
		st.LaxDER++
	}
	// 33-byte integer with a non-zero top byte, and integers >= n, give the all-zero signature
	big33 := "30250221" + "01" + strings.Repeat("00", 32) + "020101"
	if r, s, ok := ParseDERLax(unhex(big33)); !ok || r.Sign() != 0 || s.Sign() != 0 {
		return fmt.Errorf("lax DER: 33-byte R must yield the zero signature")
	}
	nHex := hex.EncodeToString(refec.Bytes32(refec.N))
	geN := "30250220" + nHex + "020101"
	if r, s, ok := ParseDERLax(unhex(geN)); !ok || r.Sign() != 0 || s.Sign() != 0 {
		return fmt.Errorf("lax DER: R = n must yield the zero signature")
	}
	nm1 := hex.EncodeToString(refec.Bytes32(new(big.Int).Sub(refec.N, big.NewInt(1))))
	if r, s, ok := ParseDERLax(unhex("30250220" + nm1 + "020101")); !ok || r.Cmp(new(big.Int).Sub(refec.N, big.NewInt(1))) != 0 || s.Int64() != 1 {
		return fmt.Errorf("lax DER: R = n-1 must parse")
	}
	st.LaxDER += 3
	return nil
}

func calibScriptNum(st *CalibStats) error {
	vec := []struct {
		v   int64
		hex string
	}{{0, ""}, {1, "01"}, {-1, "81"}, {127, "7f"}, {128, "8000"}, {-128, "8080"}, {255, "ff00"}, {-255, "ff80"}, {256, "0001"},
		{32767, "ff7f"}, {32768, "008000"}, {-32768, "008080"}, {2147483647, "ffffff7f"}, {-2147483647, "ffffffff"},
		{2147483648, "0000008000"}, {-2147483648, "0000008080"}, {4294967295, "ffffffff00"}, {549755813887, "ffffffff7f"}}
	for _, c := range vec {
		if got := hex.EncodeToString(EncodeNum(c.v)); got != c.hex {
			return fmt.Errorf("scriptnum: serialize(%d)=%s want %s", c.v, got, c.hex)
		}
		if got := decodeNum(unhex(c.hex), true, 5); got != c.v {
			return fmt.Errorf("scriptnum: decode(%s)=%d want %d", c.hex, got, c.v)
		}
		st.ScriptNum++
	}
	for _, nonMin := range []string{"00", "80", "0100", "0180", "ff0000", "ff000000", "ff000080"} {
		func() {
			defer func() {
				if recover() == nil {
					err := fmt.Errorf("scriptnum: %s must be refused as non-minimal", nonMin)
					panic(err)
				}
			}()
			decodeNum(unhex(nonMin), true, 5)
		}()
		decodeNum(unhex(nonMin), false, 5) // accepted when minimality is not required
		st.ScriptNum++
	}
	if decodeNum(unhex("80"), false, 4) != 0 || decodeNum(unhex("0080"), false, 4) != 0 || castToBool(unhex("0080")) || !castToBool(unhex("8000")) {
		return fmt.Errorf("scriptnum: negative zero")
	}
	return nil
}

// calibTaproot: BIP341 wallet test vectors (scriptPubKey section and the first key path spend),
// written down from memory - each is accepted only because a 256-bit commitment / a BIP340
// signature verifies, which cannot happen by accident - plus examples laid out by hand from the
// BIP341/BIP342 text.
func calibTaproot(st *CalibStats, tr *Trace, codes map[ScriptError]bool) error {
	// tagged hash definition, literally
	tagged := func(tag string, parts ...[]byte) [32]byte {
		t := sha256.Sum256([]byte(tag))
		h := sha256.New()
		h.Write(t[:])
		h.Write(t[:])
		for _, p := range parts {
			h.Write(p)
		}
		var o [32]byte
		copy(o[:], h.Sum(nil))
		return o
	}
	type leaf struct {
		script  string
		version byte
		control string
		hash    string
	}
	vecs := []struct {
		internal, tweak, output string
		merkleRoot              string
		leaves                  []leaf
	}{
		{"d6889cb081036e0faefa3a35157ad71086b123b2b144b649798b494c300a961d", "b86e7be8f39bab32a6f2c0443abbc210f0edac0e2c53d501b36b64437d9c6c70",
			"53a1f6e454df1aa2776a2814a721372d6258050de330b3c6d10ee8f4e0dda343", "", nil},
		{"187791b6f712a8ea41c8ecdd0ee77fab3e85263b37e1ec18a3651926b3a6cf27", "cbd8679ba636c1110ea247542cfbd964131a6be84f873f7f3b62a777528ed001",
			"147c9c57132f6e7ecddba9800bb0c4449251c92a1e60371ee77557b6620f3ea3", "5b75adecf53548f3ec6ad7d78383bf84cc57b55a3127c72b9a2481752dd88b21",
			[]leaf{{"20d85a959b0290bf19bb89ed43c916be835475d013da4b362117393e25a48229b8ac", 0xc0,
				"c1187791b6f712a8ea41c8ecdd0ee77fab3e85263b37e1ec18a3651926b3a6cf27", "5b75adecf53548f3ec6ad7d78383bf84cc57b55a3127c72b9a2481752dd88b21"}}},
		{"93478e9488f956df2396be2ce6c5cced75f900dfa18e7dabd2428aae78451820", "6af9e28dbf9d6aaf027696e2598a5b3d056f5fd2355a7fd5a37a0e5008132d30",
			"e4d810fd50586274face62b8a807eb9719cef49c04177cc6b76a9a4251d5450e", "c525714a7f49c28aedbbba78c005931a81c234b2f6c99a73e4d06082adc8bf2b",
			[]leaf{{"20b617298552a72ade070667e86ca63b8f5789a9fe8731ef91202a91c9f3459007ac", 0xc0,
				"c093478e9488f956df2396be2ce6c5cced75f900dfa18e7dabd2428aae78451820", "c525714a7f49c28aedbbba78c005931a81c234b2f6c99a73e4d06082adc8bf2b"}}},
		// two-leaf tree (leaf versions 0xc0 and 0xfa): only the leaf hashes and the Merkle root are recalled
		// with certainty, so the output key is not tested for this one (internal == "" below)
		{"", "", "", "6c2dc106ab816b73f9d07e3cd1ef2c8c1256f519748e0813e4edd2405d277bef",
			[]leaf{
				{"20387671353e273264c495656e27e39ba899ea8fee3bb69fb2a680e22093447d48ac", 0xc0,
					"c0ee4fe085983462a184015d1f782d6a5f8b9c2b60130aff050ce221aff7cc6451f224a923cd0021ab202ab139cc56802ddb92dcfc172b9212261a539df79a112a",
					"8ad69ec7cf41c2a4001fd1f738bf1e505ce2277acdcaa63fe4765192497f47a7"},
				{"06424950333431", 0xfa,
					"faee4fe085983462a184015d1f782d6a5f8b9c2b60130aff050ce221aff7cc64518ad69ec7cf41c2a4001fd1f738bf1e505ce2277acdcaa63fe4765192497f47a7",
					"f224a923cd0021ab202ab139cc56802ddb92dcfc172b9212261a539df79a112a"},
			}},
	}
	c := &checker{tr: tr}
	for i, v := range vecs {
		p, q := unhex(v.internal), unhex(v.output)
		root := unhex(v.merkleRoot)
		if v.internal == "" {
			for j, l := range v.leaves {
				script, control := unhex(l.script), unhex(l.control)
				lh := TapLeafHash(l.version, script)
				want := tagged("TapLeaf", []byte{l.version}, []byte{byte(len(script))}, script)
				mr := ComputeTaprootMerkleRoot(control, lh)
				if lh != want || hex.EncodeToString(lh[:]) != l.hash || hex.EncodeToString(mr[:]) != v.merkleRoot {
					return fmt.Errorf("bip341 vector %d leaf %d: leaf hash %x / merkle root %x", i, j, lh, mr)
				}
				st.TaprootVectors++
			}
			continue
		}
		tw := tagged("TapTweak", p, root)
		if hex.EncodeToString(tw[:]) != v.tweak {
			return fmt.Errorf("bip341 vector %d: tweak %x want %s", i, tw, v.tweak)
		}
		// parity is not part of this section of the vectors: exactly one of the two must hold
		p0, p1 := CheckTapTweak(q, p, root, false), CheckTapTweak(q, p, root, true)
		if p0 == p1 {
			return fmt.Errorf("bip341 vector %d: tweaked key does not verify (parity 0: %v, parity 1: %v)", i, p0, p1)
		}
		st.TaprootVectors++
		for j, l := range v.leaves {
			script, control := unhex(l.script), unhex(l.control)
			lh := TapLeafHash(l.version, script)
			want := tagged("TapLeaf", []byte{l.version}, []byte{byte(len(script))}, script)
			if lh != want || hex.EncodeToString(lh[:]) != l.hash {
				return fmt.Errorf("bip341 vector %d leaf %d: leaf hash %x want %s", i, j, lh, l.hash)
			}
			if control[0]&TaprootLeafMask != l.version {
				return fmt.Errorf("bip341 vector %d leaf %d: control block leaf version", i, j)
			}
			mr := ComputeTaprootMerkleRoot(control, lh)
			if hex.EncodeToString(mr[:]) != v.merkleRoot {
				return fmt.Errorf("bip341 vector %d leaf %d: merkle root %x want %s", i, j, mr, v.merkleRoot)
			}
			if !c.verifyTaprootCommitment(control, q, lh) {
				return fmt.Errorf("bip341 vector %d leaf %d: control block does not verify", i, j)
			}
			// flipping the parity bit or one path/internal key bit must break it
			bad := append([]byte(nil), control...)
			bad[0] ^= 1
			if c.verifyTaprootCommitment(bad, q, lh) {
				return fmt.Errorf("bip341 vector %d leaf %d: wrong parity accepted", i, j)
			}
			bad = append([]byte(nil), control...)
			bad[len(bad)-1] ^= 0x10
			if c.verifyTaprootCommitment(bad, q, lh) {
				return fmt.Errorf("bip341 vector %d leaf %d: modified control block accepted", i, j)
			}
			st.TaprootVectors++
		}
	}

	// key path spend: input 0 of the BIP341 keyPathSpending vector (SIGHASH_SINGLE), full VerifyScript
	tx, spent := refsighash.Bip341Vector()
	if tx == nil {
		return fmt.Errorf("bip341 vector transaction missing")
	}
	sig0 := unhex("ed7c1647cb97379e76892be0cacff57ec4a7102aa24296ca39af7541246d8ff14d38958d4cc1e2e478e4d4a764bbfd835b16d4e314b72937b29833060b87276c03")
	fl := FlagP2SH | FlagWitness | FlagTaproot
	ok, code := VerifyTrace(nil, spent[0].PkScript, [][]byte{sig0}, tx, 0, spent[0].Value, spent, fl, tr)
	if !ok {
		return fmt.Errorf("bip341 key path vector: %s", code)
	}
	st.TaprootVectors++
	for _, m := range []struct {
		name string
		wit  [][]byte
		want ScriptError
	}{
		{"hash type changed", [][]byte{append(append([]byte(nil), sig0[:64]...), 0x01)}, ErrSchnorrSig},
		{"hash type 0 explicit", [][]byte{append(append([]byte(nil), sig0[:64]...), 0x00)}, ErrSchnorrSigHashType},
		{"hash type undefined", [][]byte{append(append([]byte(nil), sig0[:64]...), 0x04)}, ErrSchnorrSigHashType},
		{"hash type undefined 0x84", [][]byte{append(append([]byte(nil), sig0[:64]...), 0x84)}, ErrSchnorrSigHashType},
		{"63 bytes", [][]byte{sig0[:63]}, ErrSchnorrSigSize},
		{"66 bytes", [][]byte{append(append([]byte(nil), sig0...), 0)}, ErrSchnorrSigSize},
		{"empty witness", nil, ErrWitnessProgramWitnessEmpty},
		{"annex present (signature does not commit to it)", [][]byte{sig0, {0x50}}, ErrSchnorrSig},
		{"64-byte form of a SINGLE signature", [][]byte{sig0[:64]}, ErrSchnorrSig},
	} {
		_, code := VerifyTrace(nil, spent[0].PkScript, m.wit, tx, 0, spent[0].Value, spent, fl, tr)
		codes[code] = true
		if code != m.want {
			return fmt.Errorf("bip341 key path vector, %s: got %s want %s", m.name, code, m.want)
		}
		st.TaprootHand++
	}
	// without the TAPROOT flag anything goes; in P2SH wrapping it is an unknown program
	if ok, _ := VerifyTrace(nil, spent[0].PkScript, [][]byte{{1, 2, 3}}, tx, 0, spent[0].Value, spent, FlagP2SH|FlagWitness, tr); !ok {
		return fmt.Errorf("taproot without TAPROOT flag must succeed")
	}
	st.TaprootHand++

	// hand-laid-out script path examples on the second wallet vector (single leaf, key 0xd85a...)
	// leaf script: <32-byte key> OP_CHECKSIG. An empty signature makes CHECKSIG push false -> EVAL_FALSE;
	// control-size rules; unknown leaf version; OP_SUCCESS; annex handling.
	v := vecs[1]
	q := append([]byte{OP_1, 32}, unhex(v.output)...)
	script, control := unhex(v.leaves[0].script), unhex(v.leaves[0].control)
	sp := []reftx.TxOut{{Value: 1000, PkScript: q}}
	t2 := &reftx.Tx{Version: 2, In: []reftx.TxIn{{PrevHash: [32]byte{9}, Sequence: 0}}, Out: []reftx.TxOut{{Value: 900, PkScript: []byte{OP_1}}}}
	all := fl | FlagDiscourageOpSuccess | FlagDiscourageUpgradableTaprootVer | FlagDiscourageUpgradablePubKeyType
	for _, m := range []struct {
		name  string
		wit   [][]byte
		flags uint32
		want  ScriptError
	}{
		{"empty sig -> CHECKSIG false", [][]byte{{}, script, control}, fl, ErrEvalFalse},
		{"bad 64-byte sig", [][]byte{bytes.Repeat([]byte{1}, 64), script, control}, fl, ErrSchnorrSig},
		{"bad size sig", [][]byte{bytes.Repeat([]byte{1}, 10), script, control}, fl, ErrSchnorrSigSize},
		{"control too short", [][]byte{{}, script, control[:32]}, fl, ErrTaprootWrongControlSize},
		{"control +1", [][]byte{{}, script, append(append([]byte(nil), control...), 0)}, fl, ErrTaprootWrongControlSize},
		{"control with a path element that is not committed", [][]byte{{}, script, append(append([]byte(nil), control...), make([]byte, 32)...)}, fl, ErrWitnessProgramMismatch},
		{"control 33+32*129", [][]byte{{}, script, append(append([]byte(nil), control...), make([]byte, 32*129)...)}, fl, ErrTaprootWrongControlSize},
		{"other script", [][]byte{{}, append([]byte{OP_NOP}, script...), control}, fl, ErrWitnessProgramMismatch},
		{"leaf version bit changes the leaf hash", [][]byte{{}, script, append([]byte{control[0] ^ 2}, control[1:]...)}, fl, ErrWitnessProgramMismatch},
		{"annex is dropped before the script path is read", [][]byte{{}, script, control, {0x50, 1, 2}}, fl, ErrEvalFalse},
		{"extra stack element -> implicit cleanstack", [][]byte{{1}, {}, script, control}, fl, ErrCleanStack},
	} {
		_, code := VerifyTrace(nil, q, m.wit, t2, 0, 1000, sp, m.flags, tr)
		codes[code] = true
		if code != m.want {
			return fmt.Errorf("taproot hand example %q: got %s want %s", m.name, code, m.want)
		}
		st.TaprootHand++
	}
	_ = all
	return nil
}
