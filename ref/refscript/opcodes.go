// Package refscript is an independent reference implementation of Bitcoin script verification,
// written from Bitcoin Core's semantics (script/interpreter.cpp: VerifyScript, EvalScript,
// ExecuteWitnessScript, VerifyWitnessProgram, VerifyTaprootCommitment, EvalChecksig*,
// CheckSignatureEncoding, CheckPubKeyEncoding, CScriptNum, FindAndDelete; pubkey.cpp:
// ecdsa_signature_parse_der_lax, CPubKey::Verify, CheckLowS, XOnlyPubKey::CheckTapTweak) and from
// BIPs 16, 65, 66, 68/112, 141, 143, 146, 147, 340, 341, 342. It imports nothing from the code
// under test; elliptic-curve arithmetic comes from refec, digests from refsighash, the
// transaction type from reftx.
package refscript

// Verification flags: same bit positions as Core's SCRIPT_VERIFY_* (script/interpreter.h).
const (
	FlagNone                            uint32 = 0
	FlagP2SH                            uint32 = 1 << 0
	FlagStrictEnc                       uint32 = 1 << 1
	FlagDERSig                          uint32 = 1 << 2
	FlagLowS                            uint32 = 1 << 3
	FlagNullDummy                       uint32 = 1 << 4
	FlagSigPushOnly                     uint32 = 1 << 5
	FlagMinimalData                     uint32 = 1 << 6
	FlagDiscourageUpgradableNops        uint32 = 1 << 7
	FlagCleanStack                      uint32 = 1 << 8
	FlagCheckLockTimeVerify             uint32 = 1 << 9
	FlagCheckSequenceVerify             uint32 = 1 << 10
	FlagWitness                         uint32 = 1 << 11
	FlagDiscourageUpgradableWitnessProg uint32 = 1 << 12
	FlagMinimalIf                       uint32 = 1 << 13
	FlagNullFail                        uint32 = 1 << 14
	FlagWitnessPubKeyType               uint32 = 1 << 15
	FlagConstScriptCode                 uint32 = 1 << 16
	FlagTaproot                         uint32 = 1 << 17
	FlagDiscourageUpgradableTaprootVer  uint32 = 1 << 18
	FlagDiscourageOpSuccess             uint32 = 1 << 19
	FlagDiscourageUpgradablePubKeyType  uint32 = 1 << 20
	AllFlags                            uint32 = 1<<21 - 1
)

// FlagNames maps the names used in Core's JSON test vectors to flag bits.
var FlagNames = map[string]uint32{
	"NONE": 0, "": 0,
	"P2SH": FlagP2SH, "STRICTENC": FlagStrictEnc, "DERSIG": FlagDERSig, "LOW_S": FlagLowS,
	"NULLDUMMY": FlagNullDummy, "SIGPUSHONLY": FlagSigPushOnly, "MINIMALDATA": FlagMinimalData,
	"DISCOURAGE_UPGRADABLE_NOPS": FlagDiscourageUpgradableNops, "CLEANSTACK": FlagCleanStack,
	"CHECKLOCKTIMEVERIFY": FlagCheckLockTimeVerify, "CHECKSEQUENCEVERIFY": FlagCheckSequenceVerify,
	"WITNESS": FlagWitness, "DISCOURAGE_UPGRADABLE_WITNESS_PROGRAM": FlagDiscourageUpgradableWitnessProg,
	"MINIMALIF": FlagMinimalIf, "NULLFAIL": FlagNullFail, "WITNESS_PUBKEYTYPE": FlagWitnessPubKeyType,
	"CONST_SCRIPTCODE": FlagConstScriptCode, "TAPROOT": FlagTaproot,
	"DISCOURAGE_UPGRADABLE_TAPROOT_VERSION": FlagDiscourageUpgradableTaprootVer,
	"DISCOURAGE_OP_SUCCESS":                 FlagDiscourageOpSuccess,
	"DISCOURAGE_UPGRADABLE_PUBKEYTYPE":      FlagDiscourageUpgradablePubKeyType,
}

// FlagsConsistent reports whether Core accepts the flag combination (the assert()s of VerifyScript
// and IsValidFlagCombination of its unit tests): CLEANSTACK needs P2SH and WITNESS, WITNESS needs P2SH.
func FlagsConsistent(f uint32) bool {
	if f&FlagCleanStack != 0 && (f&FlagP2SH == 0 || f&FlagWitness == 0) {
		return false
	}
	if f&FlagWitness != 0 && f&FlagP2SH == 0 {
		return false
	}
	return true
}

// Limits (script/script.h, script/interpreter.h).
const (
	MaxScriptElementSize       = 520
	MaxOpsPerScript            = 201
	MaxPubKeysPerMultisig      = 20
	MaxScriptSize              = 10000
	MaxStackSize               = 1000
	LockTimeThreshold          = 500000000
	SequenceFinal              = 0xffffffff
	SequenceLockTimeDisable    = 1 << 31
	SequenceLockTimeTypeFlag   = 1 << 22
	SequenceLockTimeMask       = 0x0000ffff
	AnnexTag                   = 0x50
	ValidationWeightPerSigop   = 50
	ValidationWeightOffset     = 50
	TaprootLeafMask            = 0xfe
	TaprootLeafTapscript       = 0xc0
	TaprootControlBaseSize     = 33
	TaprootControlNodeSize     = 32
	TaprootControlMaxNodeCount = 128
	TaprootControlMaxSize      = TaprootControlBaseSize + TaprootControlNodeSize*TaprootControlMaxNodeCount
	WitnessV0ScriptHashSize    = 32
	WitnessV0KeyHashSize       = 20
	WitnessV1TaprootSize       = 32
)

// Opcodes (script/script.h).
const (
	OP_0         = 0x00
	OP_PUSHDATA1 = 0x4c
	OP_PUSHDATA2 = 0x4d
	OP_PUSHDATA4 = 0x4e
	OP_1NEGATE   = 0x4f
	OP_RESERVED  = 0x50
	OP_1         = 0x51
	OP_16        = 0x60

	OP_NOP      = 0x61
	OP_VER      = 0x62
	OP_IF       = 0x63
	OP_NOTIF    = 0x64
	OP_VERIF    = 0x65
	OP_VERNOTIF = 0x66
	OP_ELSE     = 0x67
	OP_ENDIF    = 0x68
	OP_VERIFY   = 0x69
	OP_RETURN   = 0x6a

	OP_TOALTSTACK   = 0x6b
	OP_FROMALTSTACK = 0x6c
	OP_2DROP        = 0x6d
	OP_2DUP         = 0x6e
	OP_3DUP         = 0x6f
	OP_2OVER        = 0x70
	OP_2ROT         = 0x71
	OP_2SWAP        = 0x72
	OP_IFDUP        = 0x73
	OP_DEPTH        = 0x74
	OP_DROP         = 0x75
	OP_DUP          = 0x76
	OP_NIP          = 0x77
	OP_OVER         = 0x78
	OP_PICK         = 0x79
	OP_ROLL         = 0x7a
	OP_ROT          = 0x7b
	OP_SWAP         = 0x7c
	OP_TUCK         = 0x7d

	OP_CAT    = 0x7e
	OP_SUBSTR = 0x7f
	OP_LEFT   = 0x80
	OP_RIGHT  = 0x81
	OP_SIZE   = 0x82

	OP_INVERT      = 0x83
	OP_AND         = 0x84
	OP_OR          = 0x85
	OP_XOR         = 0x86
	OP_EQUAL       = 0x87
	OP_EQUALVERIFY = 0x88
	OP_RESERVED1   = 0x89
	OP_RESERVED2   = 0x8a

	OP_1ADD      = 0x8b
	OP_1SUB      = 0x8c
	OP_2MUL      = 0x8d
	OP_2DIV      = 0x8e
	OP_NEGATE    = 0x8f
	OP_ABS       = 0x90
	OP_NOT       = 0x91
	OP_0NOTEQUAL = 0x92

	OP_ADD    = 0x93
	OP_SUB    = 0x94
	OP_MUL    = 0x95
	OP_DIV    = 0x96
	OP_MOD    = 0x97
	OP_LSHIFT = 0x98
	OP_RSHIFT = 0x99

	OP_BOOLAND            = 0x9a
	OP_BOOLOR             = 0x9b
	OP_NUMEQUAL           = 0x9c
	OP_NUMEQUALVERIFY     = 0x9d
	OP_NUMNOTEQUAL        = 0x9e
	OP_LESSTHAN           = 0x9f
	OP_GREATERTHAN        = 0xa0
	OP_LESSTHANOREQUAL    = 0xa1
	OP_GREATERTHANOREQUAL = 0xa2
	OP_MIN                = 0xa3
	OP_MAX                = 0xa4
	OP_WITHIN             = 0xa5

	OP_RIPEMD160           = 0xa6
	OP_SHA1                = 0xa7
	OP_SHA256              = 0xa8
	OP_HASH160             = 0xa9
	OP_HASH256             = 0xaa
	OP_CODESEPARATOR       = 0xab
	OP_CHECKSIG            = 0xac
	OP_CHECKSIGVERIFY      = 0xad
	OP_CHECKMULTISIG       = 0xae
	OP_CHECKMULTISIGVERIFY = 0xaf

	OP_NOP1                = 0xb0
	OP_CHECKLOCKTIMEVERIFY = 0xb1
	OP_CHECKSEQUENCEVERIFY = 0xb2
	OP_NOP4                = 0xb3
	OP_NOP5                = 0xb4
	OP_NOP6                = 0xb5
	OP_NOP7                = 0xb6
	OP_NOP8                = 0xb7
	OP_NOP9                = 0xb8
	OP_NOP10               = 0xb9

	OP_CHECKSIGADD = 0xba

	OP_INVALIDOPCODE = 0xff
)

// opNames: GetOpName() for the opcodes that Core's ParseScript accepts by name
// (OP_RESERVED and everything from OP_NOP up to the last named opcode).
var opNames = map[byte]string{
	OP_RESERVED: "OP_RESERVED",
	OP_NOP:      "OP_NOP", OP_VER: "OP_VER", OP_IF: "OP_IF", OP_NOTIF: "OP_NOTIF", OP_VERIF: "OP_VERIF",
	OP_VERNOTIF: "OP_VERNOTIF", OP_ELSE: "OP_ELSE", OP_ENDIF: "OP_ENDIF", OP_VERIFY: "OP_VERIFY", OP_RETURN: "OP_RETURN",
	OP_TOALTSTACK: "OP_TOALTSTACK", OP_FROMALTSTACK: "OP_FROMALTSTACK", OP_2DROP: "OP_2DROP", OP_2DUP: "OP_2DUP",
	OP_3DUP: "OP_3DUP", OP_2OVER: "OP_2OVER", OP_2ROT: "OP_2ROT", OP_2SWAP: "OP_2SWAP", OP_IFDUP: "OP_IFDUP",
	OP_DEPTH: "OP_DEPTH", OP_DROP: "OP_DROP", OP_DUP: "OP_DUP", OP_NIP: "OP_NIP", OP_OVER: "OP_OVER", OP_PICK: "OP_PICK",
	OP_ROLL: "OP_ROLL", OP_ROT: "OP_ROT", OP_SWAP: "OP_SWAP", OP_TUCK: "OP_TUCK",
	OP_CAT: "OP_CAT", OP_SUBSTR: "OP_SUBSTR", OP_LEFT: "OP_LEFT", OP_RIGHT: "OP_RIGHT", OP_SIZE: "OP_SIZE",
	OP_INVERT: "OP_INVERT", OP_AND: "OP_AND", OP_OR: "OP_OR", OP_XOR: "OP_XOR", OP_EQUAL: "OP_EQUAL",
	OP_EQUALVERIFY: "OP_EQUALVERIFY", OP_RESERVED1: "OP_RESERVED1", OP_RESERVED2: "OP_RESERVED2",
	OP_1ADD: "OP_1ADD", OP_1SUB: "OP_1SUB", OP_2MUL: "OP_2MUL", OP_2DIV: "OP_2DIV", OP_NEGATE: "OP_NEGATE", OP_ABS: "OP_ABS",
	OP_NOT: "OP_NOT", OP_0NOTEQUAL: "OP_0NOTEQUAL", OP_ADD: "OP_ADD", OP_SUB: "OP_SUB", OP_MUL: "OP_MUL", OP_DIV: "OP_DIV",
	OP_MOD: "OP_MOD", OP_LSHIFT: "OP_LSHIFT", OP_RSHIFT: "OP_RSHIFT", OP_BOOLAND: "OP_BOOLAND", OP_BOOLOR: "OP_BOOLOR",
	OP_NUMEQUAL: "OP_NUMEQUAL", OP_NUMEQUALVERIFY: "OP_NUMEQUALVERIFY", OP_NUMNOTEQUAL: "OP_NUMNOTEQUAL",
	OP_LESSTHAN: "OP_LESSTHAN", OP_GREATERTHAN: "OP_GREATERTHAN", OP_LESSTHANOREQUAL: "OP_LESSTHANOREQUAL",
	OP_GREATERTHANOREQUAL: "OP_GREATERTHANOREQUAL", OP_MIN: "OP_MIN", OP_MAX: "OP_MAX", OP_WITHIN: "OP_WITHIN",
	OP_RIPEMD160: "OP_RIPEMD160", OP_SHA1: "OP_SHA1", OP_SHA256: "OP_SHA256", OP_HASH160: "OP_HASH160", OP_HASH256: "OP_HASH256",
	OP_CODESEPARATOR: "OP_CODESEPARATOR", OP_CHECKSIG: "OP_CHECKSIG", OP_CHECKSIGVERIFY: "OP_CHECKSIGVERIFY",
	OP_CHECKMULTISIG: "OP_CHECKMULTISIG", OP_CHECKMULTISIGVERIFY: "OP_CHECKMULTISIGVERIFY",
	OP_NOP1: "OP_NOP1", OP_CHECKLOCKTIMEVERIFY: "OP_CHECKLOCKTIMEVERIFY", OP_CHECKSEQUENCEVERIFY: "OP_CHECKSEQUENCEVERIFY",
	OP_NOP4: "OP_NOP4", OP_NOP5: "OP_NOP5", OP_NOP6: "OP_NOP6", OP_NOP7: "OP_NOP7", OP_NOP8: "OP_NOP8", OP_NOP9: "OP_NOP9",
	OP_NOP10: "OP_NOP10", OP_CHECKSIGADD: "OP_CHECKSIGADD",
}

// OpName returns a printable name of an opcode (for evidence only).
func OpName(op byte) string {
	if n, ok := opNames[op]; ok {
		return n
	}
	switch {
	case op == 0:
		return "OP_0"
	case op < OP_PUSHDATA1:
		return "PUSH"
	case op == OP_PUSHDATA1:
		return "OP_PUSHDATA1"
	case op == OP_PUSHDATA2:
		return "OP_PUSHDATA2"
	case op == OP_PUSHDATA4:
		return "OP_PUSHDATA4"
	case op == OP_1NEGATE:
		return "OP_1NEGATE"
	case op >= OP_1 && op <= OP_16:
		return "OP_N"
	}
	return "OP_UNKNOWN"
}

// IsOpSuccess is BIP342's list of OP_SUCCESSx opcodes.
func IsOpSuccess(op byte) bool {
	return op == 80 || op == 98 || (op >= 126 && op <= 129) ||
		(op >= 131 && op <= 134) || (op >= 137 && op <= 138) ||
		(op >= 141 && op <= 142) || (op >= 149 && op <= 153) ||
		(op >= 187 && op <= 254)
}

// ScriptError mirrors Core's ScriptError_t (script/script_error.h).
type ScriptError int

const (
	ErrOK ScriptError = iota
	ErrUnknown
	ErrEvalFalse
	ErrOpReturn
	// max sizes
	ErrScriptSize
	ErrPushSize
	ErrOpCount
	ErrStackSize
	ErrSigCount
	ErrPubKeyCount
	// failed verify operations
	ErrVerify
	ErrEqualVerify
	ErrCheckMultisigVerify
	ErrCheckSigVerify
	ErrNumEqualVerify
	// logical / format / canonical errors
	ErrBadOpcode
	ErrDisabledOpcode
	ErrInvalidStackOperation
	ErrInvalidAltstackOperation
	ErrUnbalancedConditional
	// CLTV / CSV
	ErrNegativeLockTime
	ErrUnsatisfiedLockTime
	// malleability
	ErrSigHashType
	ErrSigDER
	ErrMinimalData
	ErrSigPushOnly
	ErrSigHighS
	ErrSigNullDummy
	ErrPubKeyType
	ErrCleanStack
	ErrMinimalIf
	ErrSigNullFail
	// softfork safeness
	ErrDiscourageUpgradableNops
	ErrDiscourageUpgradableWitnessProgram
	ErrDiscourageUpgradableTaprootVersion
	ErrDiscourageOpSuccess
	ErrDiscourageUpgradablePubKeyType
	// segregated witness
	ErrWitnessProgramWrongLength
	ErrWitnessProgramWitnessEmpty
	ErrWitnessProgramMismatch
	ErrWitnessMalleated
	ErrWitnessMalleatedP2SH
	ErrWitnessUnexpected
	ErrWitnessPubKeyType
	// taproot
	ErrSchnorrSigSize
	ErrSchnorrSigHashType
	ErrSchnorrSig
	ErrTaprootWrongControlSize
	ErrTapscriptValidationWeight
	ErrTapscriptCheckMultisig
	ErrTapscriptMinimalIf
	ErrTapscriptEmptyPubKey
	// constant scriptCode
	ErrOpCodeSeparator
	ErrSigFindAndDelete
	ErrCount
)

var errNames = [...]string{
	"OK", "UNKNOWN_ERROR", "EVAL_FALSE", "OP_RETURN",
	"SCRIPT_SIZE", "PUSH_SIZE", "OP_COUNT", "STACK_SIZE", "SIG_COUNT", "PUBKEY_COUNT",
	"VERIFY", "EQUALVERIFY", "CHECKMULTISIGVERIFY", "CHECKSIGVERIFY", "NUMEQUALVERIFY",
	"BAD_OPCODE", "DISABLED_OPCODE", "INVALID_STACK_OPERATION", "INVALID_ALTSTACK_OPERATION", "UNBALANCED_CONDITIONAL",
	"NEGATIVE_LOCKTIME", "UNSATISFIED_LOCKTIME",
	"SIG_HASHTYPE", "SIG_DER", "MINIMALDATA", "SIG_PUSHONLY", "SIG_HIGH_S", "SIG_NULLDUMMY", "PUBKEYTYPE", "CLEANSTACK", "MINIMALIF", "NULLFAIL",
	"DISCOURAGE_UPGRADABLE_NOPS", "DISCOURAGE_UPGRADABLE_WITNESS_PROGRAM", "DISCOURAGE_UPGRADABLE_TAPROOT_VERSION", "DISCOURAGE_OP_SUCCESS", "DISCOURAGE_UPGRADABLE_PUBKEYTYPE",
	"WITNESS_PROGRAM_WRONG_LENGTH", "WITNESS_PROGRAM_WITNESS_EMPTY", "WITNESS_PROGRAM_MISMATCH", "WITNESS_MALLEATED", "WITNESS_MALLEATED_P2SH", "WITNESS_UNEXPECTED", "WITNESS_PUBKEYTYPE",
	"SCHNORR_SIG_SIZE", "SCHNORR_SIG_HASHTYPE", "SCHNORR_SIG", "TAPROOT_WRONG_CONTROL_SIZE", "TAPSCRIPT_VALIDATION_WEIGHT", "TAPSCRIPT_CHECKMULTISIG", "TAPSCRIPT_MINIMALIF", "TAPSCRIPT_EMPTY_PUBKEY",
	"OP_CODESEPARATOR", "SIG_FINDANDDELETE",
}

// String gives the name used by Core's script_tests.json (script_errors[] in script_tests.cpp).
func (e ScriptError) String() string {
	if e >= 0 && int(e) < len(errNames) {
		return errNames[e]
	}
	return "?"
}
