package refscript

import "testing"

func TestCalibrate(t *testing.T) {
	st, err := Calibrate("/repo/lib/test")
	t.Logf("%+v", st)
	if err != nil {
		t.Fatal(err)
	}
}
