package refscript

import (
	"bytes"
	"crypto/sha1"
	"crypto/sha256"
	"math/big"

	"verif/ref/refsighash"
	"verif/ref/reftx"
	"verif/ref/ripemd160"
)

type sigVersion int

const (
	sigBase sigVersion = iota
	sigWitnessV0
	sigTaproot
	sigTapscript
)

// Trace collects what the reference executed (evidence only; never influences the verdict).
type Trace struct {
	Executed   [256]bool // opcodes dispatched while the execution condition was true
	Seen       [256]bool // opcodes parsed by EvalScript (executed or not)
	ECDSA      int       // CheckECDSASignature calls reaching curve arithmetic
	Schnorr    int       // Schnorr verifications
	TapTweak   int       // taproot commitment checks
	EvalScript int       // scripts interpreted
	MaxStack   int
	OpSuccess  int // tapscript ended by OP_SUCCESSx
	Path       string

	// Capture asks EvalScript to record the state reached at the end of the last interpreted script
	// (used by generators that steer random programs; never by the oracle).
	Capture       bool
	LastStack     [][]byte
	LastAltDepth  int
	LastCondDepth int  // open IF/NOTIF blocks
	LastExec      bool // whether the innermost position is being executed
	LastOps       int  // nOpCount
}

func (t *Trace) path(s string) {
	if t != nil {
		if t.Path != "" {
			t.Path += ">"
		}
		t.Path += s
	}
}

type execData struct {
	tapleafHash     [32]byte
	codesepPos      uint32
	annexPresent    bool
	annex           []byte
	weightLeft      int64
	weightLeftInit  bool
	tapleafHashInit bool
}

type checker struct {
	tx     *reftx.Tx
	idx    int
	amount int64
	spent  []reftx.TxOut
	tr     *Trace
	quirks uint32
}

// Quirks are known deviations of an implementation under test from the rules implemented here.
// They never take part in deciding a verdict: a monitor that has found a disagreement may re-run
// the case with exactly one quirk switched on in order to NAME the disagreement (if the quirked
// reference agrees with the implementation, that deviation explains it).
const (
	// OP_CHECKLOCKTIMEVERIFY / OP_CHECKSEQUENCEVERIFY whose flag is off fail under
	// DISCOURAGE_UPGRADABLE_NOPS (Core's behaviour before 0.16).
	QuirkDiscourageUnflaggedLockOps uint32 = 1 << iota
	// where BIP341 defines no digest (undefined hash_type, SIGHASH_SINGLE without matching output)
	// the all-zero digest is used instead of failing.
	QuirkTaprootZeroDigest
	// FindAndDelete searches for CompactSize(len)||sig instead of the script push of sig.
	QuirkFindAndDeleteCompactSize
	// ECDSA signatures are parsed with fixed offsets from the signature INCLUDING its hash-type
	// byte: single-byte lengths, sequence length must equal lenR+lenS+4, bytes after S tolerated
	// (so the hash-type byte can double as the last byte of S); no lax-DER leniency.
	QuirkFixedOffsetDER
	// LOW_S compares the S value as written with n/2; Core first maps a signature whose R or S
	// is >= n (or longer than 32 bytes) to the all-zero signature, which counts as low.
	QuirkLowSPlainComparison
)

func (c *checker) sigPattern(sig []byte) []byte {
	if c.quirks&QuirkFindAndDeleteCompactSize != 0 {
		return append(reftx.AppendCompactSize(nil, uint64(len(sig))), sig...)
	}
	return refsighash.PushData(sig)
}

// scriptnumError is thrown (panic) by script number decoding and by pops of an empty stack; EvalScript
// turns it into SCRIPT_ERR_UNKNOWN_ERROR like Core's catch (...).
type scriptnumError struct{ what string }

// ---------------------------------------------------------------------------------------------
// CScriptNum

func decodeNum(v []byte, requireMinimal bool, maxSize int) int64 {
	if len(v) > maxSize {
		panic(scriptnumError{"script number overflow"})
	}
	if requireMinimal && len(v) > 0 {
		// If the most-significant-byte - excluding the sign bit - is zero then we're not minimal,
		// unless the sign bit of the next byte would otherwise conflict.
		if v[len(v)-1]&0x7f == 0 {
			if len(v) <= 1 || v[len(v)-2]&0x80 == 0 {
				panic(scriptnumError{"non-minimally encoded script number"})
			}
		}
	}
	if len(v) == 0 {
		return 0
	}
	var res int64
	for i := 0; i < len(v); i++ {
		res |= int64(v[i]) << (8 * uint(i))
	}
	if v[len(v)-1]&0x80 != 0 {
		return -(res &^ (int64(0x80) << (8 * uint(len(v)-1))))
	}
	return res
}

// EncodeNum is CScriptNum::serialize.
func EncodeNum(value int64) []byte {
	if value == 0 {
		return []byte{}
	}
	neg := value < 0
	var abs uint64
	if neg {
		abs = uint64(-value)
	} else {
		abs = uint64(value)
	}
	var out []byte
	for abs != 0 {
		out = append(out, byte(abs))
		abs >>= 8
	}
	if out[len(out)-1]&0x80 != 0 {
		if neg {
			out = append(out, 0x80)
		} else {
			out = append(out, 0)
		}
	} else if neg {
		out[len(out)-1] |= 0x80
	}
	return out
}

// getint clamps to the int range like CScriptNum::getint().
func getint(v int64) int {
	if v > 0x7fffffff {
		return 0x7fffffff
	}
	if v < -0x80000000 {
		return -0x80000000
	}
	return int(v)
}

func castToBool(v []byte) bool {
	for i := range v {
		if v[i] != 0 {
			// Can be negative zero
			if i == len(v)-1 && v[i] == 0x80 {
				return false
			}
			return true
		}
	}
	return false
}

// checkMinimalPush is Core's CheckMinimalPush.
func checkMinimalPush(data []byte, opcode byte) bool {
	switch {
	case len(data) == 0:
		// Should have used OP_0.
		return opcode == OP_0
	case len(data) == 1 && data[0] >= 1 && data[0] <= 16:
		// Should have used OP_1 .. OP_16.
		return false
	case len(data) == 1 && data[0] == 0x81:
		// Should have used OP_1NEGATE.
		return false
	case len(data) <= 75:
		// Must have used a direct push (opcode indicating number of bytes pushed + those bytes).
		return int(opcode) == len(data)
	case len(data) <= 255:
		return opcode == OP_PUSHDATA1
	case len(data) <= 65535:
		return opcode == OP_PUSHDATA2
	}
	return true
}

// getOp is CScript::GetOp with the pushed data.
func getOp(script []byte, pc int) (op byte, data []byte, next int, ok bool) {
	op, next, ok = refsighash.GetOp(script, pc)
	if !ok {
		return op, nil, next, false
	}
	if op <= OP_PUSHDATA4 {
		hdr := 1
		switch op {
		case OP_PUSHDATA1:
			hdr = 2
		case OP_PUSHDATA2:
			hdr = 3
		case OP_PUSHDATA4:
			hdr = 5
		}
		data = script[pc+hdr : next]
	}
	return op, data, next, true
}

// IsPushOnly is CScript::IsPushOnly.
func IsPushOnly(script []byte) bool {
	pc := 0
	for pc < len(script) {
		op, _, next, ok := getOp(script, pc)
		if !ok {
			return false
		}
		// Note that IsPushOnly() *does* consider OP_RESERVED to be a push-type opcode
		if op > OP_16 {
			return false
		}
		pc = next
	}
	return true
}

// IsPayToScriptHash is CScript::IsPayToScriptHash.
func IsPayToScriptHash(s []byte) bool {
	return len(s) == 23 && s[0] == OP_HASH160 && s[1] == 0x14 && s[22] == OP_EQUAL
}

// IsWitnessProgram is CScript::IsWitnessProgram.
func IsWitnessProgram(s []byte) (version int, program []byte, ok bool) {
	if len(s) < 4 || len(s) > 42 {
		return 0, nil, false
	}
	if s[0] != OP_0 && (s[0] < OP_1 || s[0] > OP_16) {
		return 0, nil, false
	}
	if int(s[1])+2 == len(s) {
		if s[0] == OP_0 {
			version = 0
		} else {
			version = int(s[0]) - (OP_1 - 1)
		}
		return version, s[2:], true
	}
	return 0, nil, false
}

// ---------------------------------------------------------------------------------------------
// signature checker (GenericTransactionSignatureChecker)

func (c *checker) checkECDSASignature(sigIn, pub, scriptCode []byte, sv sigVersion) bool {
	// CPubKey pubkey(vchPubKey); if (!pubkey.IsValid()) return false; -- inside VerifyECDSA
	if len(sigIn) == 0 {
		return false
	}
	// the pubkey validity test comes first in Core; it has no side effect so the order is immaterial
	hashType := uint32(sigIn[len(sigIn)-1])
	sig := sigIn[:len(sigIn)-1]
	var digest [32]byte
	if sv == sigWitnessV0 {
		digest = refsighash.WitnessV0(c.tx, scriptCode, c.amount, c.idx, hashType)
	} else {
		digest = refsighash.Legacy(c.tx, scriptCode, c.idx, hashType)
	}
	if c.tr != nil {
		c.tr.ECDSA++
	}
	if c.quirks&QuirkFixedOffsetDER != 0 {
		// the deviating parser reads the signature INCLUDING its hash-type byte
		r, s, ok := fixedOffsetDERParse(sigIn)
		if !ok {
			return false
		}
		return verifyECDSARS(pub, r, s, digest)
	}
	return VerifyECDSA(pub, sig, digest)
}

func fixedOffsetDERParse(sig []byte) (r, s *big.Int, ok bool) {
	if len(sig) < 5 || sig[0] != 0x30 {
		return nil, nil, false
	}
	lenr := int(sig[3])
	if lenr == 0 || 5+lenr >= len(sig) || sig[lenr+4] != 0x02 {
		return nil, nil, false
	}
	lens := int(sig[lenr+5])
	if lens == 0 || int(sig[1]) != lenr+lens+4 || lenr+lens+6 > len(sig) || sig[2] != 0x02 {
		return nil, nil, false
	}
	return new(big.Int).SetBytes(sig[4 : 4+lenr]), new(big.Int).SetBytes(sig[6+lenr : 6+lenr+lens]), true
}

func (c *checker) checkSchnorrSignature(sig, pub []byte, sv sigVersion, ed *execData) ScriptError {
	// Schnorr signatures have 32-byte public keys. The caller is responsible for enforcing this.
	if len(sig) != 64 && len(sig) != 65 {
		return ErrSchnorrSigSize
	}
	hashType := byte(refsighash.SigHashDefault)
	if len(sig) == 65 {
		hashType = sig[64]
		sig = sig[:64]
		if hashType == refsighash.SigHashDefault {
			return ErrSchnorrSigHashType
		}
	}
	var annex []byte
	if ed.annexPresent {
		annex = ed.annex
	}
	var sp *refsighash.ScriptPath
	if sv == sigTapscript {
		sp = &refsighash.ScriptPath{LeafHash: ed.tapleafHash, KeyVersion: 0, CodeSepPos: ed.codesepPos}
	}
	digest, err := refsighash.Taproot(c.tx, c.spent, c.idx, hashType, annex, sp)
	if err != nil {
		if c.quirks&QuirkTaprootZeroDigest == 0 {
			return ErrSchnorrSigHashType
		}
		digest = [32]byte{}
	}
	if c.tr != nil {
		c.tr.Schnorr++
	}
	if !VerifySchnorr(pub, sig, digest) {
		return ErrSchnorrSig
	}
	return ErrOK
}

func (c *checker) checkLockTime(lockTime int64) bool {
	// There are two kinds of nLockTime: lock-by-blockheight and lock-by-blocktime, distinguished by
	// whether nLockTime < LOCKTIME_THRESHOLD. Both must be of the same kind.
	txLock := int64(c.tx.LockTime)
	if !((txLock < LockTimeThreshold && lockTime < LockTimeThreshold) ||
		(txLock >= LockTimeThreshold && lockTime >= LockTimeThreshold)) {
		return false
	}
	if lockTime > txLock {
		return false
	}
	// The nLockTime feature can be disabled by every input being final; testing this input suffices.
	if c.tx.In[c.idx].Sequence == SequenceFinal {
		return false
	}
	return true
}

func (c *checker) checkSequence(seq int64) bool {
	// Relative lock times are supported by comparing the passed in operand to the sequence number of
	// the input.
	txSeq := int64(c.tx.In[c.idx].Sequence)
	// Fail if the transaction's version number is not set high enough to trigger BIP 68 rules.
	if c.tx.Version < 2 { // static_cast<uint32_t>(nVersion) < 2
		return false
	}
	// Sequence numbers with their most significant bit set are not consensus constrained.
	if txSeq&SequenceLockTimeDisable != 0 {
		return false
	}
	const mask = SequenceLockTimeTypeFlag | SequenceLockTimeMask
	a := txSeq & mask
	b := seq & mask
	if !((a < SequenceLockTimeTypeFlag && b < SequenceLockTimeTypeFlag) ||
		(a >= SequenceLockTimeTypeFlag && b >= SequenceLockTimeTypeFlag)) {
		return false
	}
	if b > a {
		return false
	}
	return true
}

// ---------------------------------------------------------------------------------------------
// EvalChecksig

func (c *checker) evalChecksigPreTapscript(sig, pub, script []byte, pbegincodehash int, flags uint32, sv sigVersion) (success bool, err ScriptError) {
	// Subset of script starting at the most recent codeseparator
	scriptCode := script[pbegincodehash:]
	// Drop the signature in pre-segwit scripts but not segwit scripts
	if sv == sigBase {
		var found int
		scriptCode, found = refsighash.FindAndDelete(scriptCode, c.sigPattern(sig))
		if found > 0 && flags&FlagConstScriptCode != 0 {
			return false, ErrSigFindAndDelete
		}
	}
	if e := checkSignatureEncoding(sig, flags, c.quirks); e != ErrOK {
		return false, e
	}
	if e := checkPubKeyEncoding(pub, flags, sv); e != ErrOK {
		return false, e
	}
	success = c.checkECDSASignature(sig, pub, scriptCode, sv)
	if !success && flags&FlagNullFail != 0 && len(sig) > 0 {
		return false, ErrSigNullFail
	}
	return success, ErrOK
}

func (c *checker) evalChecksigTapscript(sig, pub []byte, ed *execData, flags uint32, sv sigVersion) (success bool, err ScriptError) {
	// The following validation sequence is consensus critical: upgradable public key versions precede
	// other rules; the script execution fails when using empty signature with invalid public key;
	// the script execution fails when using non-empty invalid signature.
	success = len(sig) > 0
	if success {
		// Implement the sigops/witnesssize ratio test. Passing with an upgradable public key version
		// is also counted.
		ed.weightLeft -= ValidationWeightPerSigop
		if ed.weightLeft < 0 {
			return false, ErrTapscriptValidationWeight
		}
	}
	if len(pub) == 0 {
		return false, ErrTapscriptEmptyPubKey
	} else if len(pub) == 32 {
		if success {
			if e := c.checkSchnorrSignature(sig, pub, sv, ed); e != ErrOK {
				return false, e
			}
		}
	} else {
		// New public key version softforks should be defined before this `else` block.
		if flags&FlagDiscourageUpgradablePubKeyType != 0 {
			return false, ErrDiscourageUpgradablePubKeyType
		}
	}
	return success, ErrOK
}

func (c *checker) evalChecksig(sig, pub, script []byte, pbegincodehash int, ed *execData, flags uint32, sv sigVersion) (bool, ScriptError) {
	switch sv {
	case sigBase, sigWitnessV0:
		return c.evalChecksigPreTapscript(sig, pub, script, pbegincodehash, flags, sv)
	case sigTapscript:
		return c.evalChecksigTapscript(sig, pub, ed, flags, sv)
	}
	panic("evalChecksig: key path spending has no script")
}

// ---------------------------------------------------------------------------------------------
// EvalScript

type stackT [][]byte

func (s *stackT) push(v []byte) { *s = append(*s, v) }
func (s *stackT) pop() {
	if len(*s) == 0 {
		panic(scriptnumError{"popstack(): stack empty"})
	}
	*s = (*s)[:len(*s)-1]
}
func (s stackT) top(i int) []byte { return s[len(s)+i] } // i is negative: -1 = top

var (
	vchFalse = []byte{}
	vchTrue  = []byte{1}
)

func boolVch(b bool) []byte {
	if b {
		return vchTrue
	}
	return vchFalse
}

func (c *checker) evalScript(stackp *stackT, script []byte, flags uint32, sv sigVersion, ed *execData) (err ScriptError) {
	if c.tr != nil {
		c.tr.EvalScript++
	}
	if (sv == sigBase || sv == sigWitnessV0) && len(script) > MaxScriptSize {
		return ErrScriptSize
	}
	defer func() {
		if r := recover(); r != nil {
			if _, ok := r.(scriptnumError); ok {
				err = ErrUnknown
				return
			}
			panic(r)
		}
	}()
	stack := *stackp
	defer func() { *stackp = stack }()
	var altstack stackT
	var vfExec []bool
	allTrue := func() bool {
		for _, b := range vfExec {
			if !b {
				return false
			}
		}
		return true
	}
	pc := 0
	pend := len(script)
	pbegincodehash := 0
	nOpCount := 0
	requireMinimal := flags&FlagMinimalData != 0
	var opcodePos uint32
	ed.codesepPos = 0xFFFFFFFF

	for ; pc < pend; opcodePos++ {
		fExec := allTrue()
		// Read instruction
		opcode, pushValue, next, ok := getOp(script, pc)
		if !ok {
			return ErrBadOpcode
		}
		pc = next
		if len(pushValue) > MaxScriptElementSize {
			return ErrPushSize
		}
		if c.tr != nil {
			c.tr.Seen[opcode] = true
		}
		if sv == sigBase || sv == sigWitnessV0 {
			// Note how OP_RESERVED does not count towards the opcode limit.
			if opcode > OP_16 {
				nOpCount++
				if nOpCount > MaxOpsPerScript {
					return ErrOpCount
				}
			}
		}
		switch opcode {
		case OP_CAT, OP_SUBSTR, OP_LEFT, OP_RIGHT, OP_INVERT, OP_AND, OP_OR, OP_XOR, OP_2MUL, OP_2DIV,
			OP_MUL, OP_DIV, OP_MOD, OP_LSHIFT, OP_RSHIFT:
			return ErrDisabledOpcode // Disabled opcodes (CVE-2010-5137).
		}
		// With SCRIPT_VERIFY_CONST_SCRIPTCODE, OP_CODESEPARATOR in non-segwit script is rejected even in
		// an unexecuted branch
		if opcode == OP_CODESEPARATOR && sv == sigBase && flags&FlagConstScriptCode != 0 {
			return ErrOpCodeSeparator
		}

		if fExec && opcode <= OP_PUSHDATA4 {
			if requireMinimal && !checkMinimalPush(pushValue, opcode) {
				return ErrMinimalData
			}
			if c.tr != nil {
				c.tr.Executed[opcode] = true
			}
			stack.push(pushValue)
		} else if fExec || (OP_IF <= opcode && opcode <= OP_ENDIF) {
			if c.tr != nil && fExec {
				c.tr.Executed[opcode] = true
			}
			switch {
			//
			// Push value
			//
			case opcode == OP_1NEGATE || (opcode >= OP_1 && opcode <= OP_16):
				stack.push(EncodeNum(int64(opcode) - int64(OP_1-1)))
				// The result of these opcodes should always be the minimal way to push the data they push,
				// so no need for a CheckMinimalPush here.

			//
			// Control
			//
			case opcode == OP_NOP:

			case opcode == OP_CHECKLOCKTIMEVERIFY:
				if flags&FlagCheckLockTimeVerify == 0 {
					// not enabled; treat as a NOP2
					if c.quirks&QuirkDiscourageUnflaggedLockOps != 0 && flags&FlagDiscourageUpgradableNops != 0 {
						return ErrDiscourageUpgradableNops
					}
					break
				}
				if len(stack) < 1 {
					return ErrInvalidStackOperation
				}
				// nLockTime operands are up to 5 bytes so that values up to 2^32-1 can be expressed;
				// the result is never used in arithmetic.
				nLockTime := decodeNum(stack.top(-1), requireMinimal, 5)
				// In the rare event that the argument may be < 0 due to some arithmetic being done first,
				// you can always use 0 MAX CHECKLOCKTIMEVERIFY.
				if nLockTime < 0 {
					return ErrNegativeLockTime
				}
				// Actually compare the specified lock time with the transaction.
				if !c.checkLockTime(nLockTime) {
					return ErrUnsatisfiedLockTime
				}

			case opcode == OP_CHECKSEQUENCEVERIFY:
				if flags&FlagCheckSequenceVerify == 0 {
					// not enabled; treat as a NOP3
					if c.quirks&QuirkDiscourageUnflaggedLockOps != 0 && flags&FlagDiscourageUpgradableNops != 0 {
						return ErrDiscourageUpgradableNops
					}
					break
				}
				if len(stack) < 1 {
					return ErrInvalidStackOperation
				}
				nSequence := decodeNum(stack.top(-1), requireMinimal, 5)
				if nSequence < 0 {
					return ErrNegativeLockTime
				}
				// To provide for future soft-fork extensibility, if the operand has the disabled lock-time
				// flag set, CHECKSEQUENCEVERIFY behaves as a NOP.
				if nSequence&SequenceLockTimeDisable != 0 {
					break
				}
				// Compare the specified sequence number with the input.
				if !c.checkSequence(nSequence) {
					return ErrUnsatisfiedLockTime
				}

			case opcode == OP_NOP1 || (opcode >= OP_NOP4 && opcode <= OP_NOP10):
				if flags&FlagDiscourageUpgradableNops != 0 {
					return ErrDiscourageUpgradableNops
				}

			case opcode == OP_IF || opcode == OP_NOTIF:
				// <expression> if [statements] [else [statements]] endif
				fValue := false
				if fExec {
					if len(stack) < 1 {
						return ErrUnbalancedConditional
					}
					vch := stack.top(-1)
					// Tapscript requires minimal IF/NOTIF inputs as a consensus rule.
					if sv == sigTapscript {
						// The input argument to the OP_IF and OP_NOTIF opcodes must be either exactly 0 (the
						// empty vector) or exactly 1 (the one-byte vector with value 1).
						if len(vch) > 1 || (len(vch) == 1 && vch[0] != 1) {
							return ErrTapscriptMinimalIf
						}
					}
					// Under witness v0 rules it is only a policy rule, enabled through SCRIPT_VERIFY_MINIMALIF.
					if sv == sigWitnessV0 && flags&FlagMinimalIf != 0 {
						if len(vch) > 1 {
							return ErrMinimalIf
						}
						if len(vch) == 1 && vch[0] != 1 {
							return ErrMinimalIf
						}
					}
					fValue = castToBool(vch)
					if opcode == OP_NOTIF {
						fValue = !fValue
					}
					stack.pop()
				}
				vfExec = append(vfExec, fValue)

			case opcode == OP_ELSE:
				if len(vfExec) == 0 {
					return ErrUnbalancedConditional
				}
				vfExec[len(vfExec)-1] = !vfExec[len(vfExec)-1]

			case opcode == OP_ENDIF:
				if len(vfExec) == 0 {
					return ErrUnbalancedConditional
				}
				vfExec = vfExec[:len(vfExec)-1]

			case opcode == OP_VERIFY:
				// (true -- ) or (false -- false) and return
				if len(stack) < 1 {
					return ErrInvalidStackOperation
				}
				if castToBool(stack.top(-1)) {
					stack.pop()
				} else {
					return ErrVerify
				}

			case opcode == OP_RETURN:
				return ErrOpReturn

			//
			// Stack ops
			//
			case opcode == OP_TOALTSTACK:
				if len(stack) < 1 {
					return ErrInvalidStackOperation
				}
				altstack.push(stack.top(-1))
				stack.pop()

			case opcode == OP_FROMALTSTACK:
				if len(altstack) < 1 {
					return ErrInvalidAltstackOperation
				}
				stack.push(altstack.top(-1))
				altstack.pop()

			case opcode == OP_2DROP:
				// (x1 x2 -- )
				if len(stack) < 2 {
					return ErrInvalidStackOperation
				}
				stack.pop()
				stack.pop()

			case opcode == OP_2DUP:
				// (x1 x2 -- x1 x2 x1 x2)
				if len(stack) < 2 {
					return ErrInvalidStackOperation
				}
				v1, v2 := stack.top(-2), stack.top(-1)
				stack.push(v1)
				stack.push(v2)

			case opcode == OP_3DUP:
				// (x1 x2 x3 -- x1 x2 x3 x1 x2 x3)
				if len(stack) < 3 {
					return ErrInvalidStackOperation
				}
				v1, v2, v3 := stack.top(-3), stack.top(-2), stack.top(-1)
				stack.push(v1)
				stack.push(v2)
				stack.push(v3)

			case opcode == OP_2OVER:
				// (x1 x2 x3 x4 -- x1 x2 x3 x4 x1 x2)
				if len(stack) < 4 {
					return ErrInvalidStackOperation
				}
				v1, v2 := stack.top(-4), stack.top(-3)
				stack.push(v1)
				stack.push(v2)

			case opcode == OP_2ROT:
				// (x1 x2 x3 x4 x5 x6 -- x3 x4 x5 x6 x1 x2)
				if len(stack) < 6 {
					return ErrInvalidStackOperation
				}
				n := len(stack)
				v1, v2 := stack[n-6], stack[n-5]
				copy(stack[n-6:], stack[n-4:])
				stack[n-2], stack[n-1] = v1, v2

			case opcode == OP_2SWAP:
				// (x1 x2 x3 x4 -- x3 x4 x1 x2)
				if len(stack) < 4 {
					return ErrInvalidStackOperation
				}
				n := len(stack)
				stack[n-4], stack[n-2] = stack[n-2], stack[n-4]
				stack[n-3], stack[n-1] = stack[n-1], stack[n-3]

			case opcode == OP_IFDUP:
				// (x - 0 | x x)
				if len(stack) < 1 {
					return ErrInvalidStackOperation
				}
				if v := stack.top(-1); castToBool(v) {
					stack.push(v)
				}

			case opcode == OP_DEPTH:
				// -- stacksize
				stack.push(EncodeNum(int64(len(stack))))

			case opcode == OP_DROP:
				// (x -- )
				if len(stack) < 1 {
					return ErrInvalidStackOperation
				}
				stack.pop()

			case opcode == OP_DUP:
				// (x -- x x)
				if len(stack) < 1 {
					return ErrInvalidStackOperation
				}
				stack.push(stack.top(-1))

			case opcode == OP_NIP:
				// (x1 x2 -- x2)
				if len(stack) < 2 {
					return ErrInvalidStackOperation
				}
				n := len(stack)
				stack[n-2] = stack[n-1]
				stack = stack[:n-1]

			case opcode == OP_OVER:
				// (x1 x2 -- x1 x2 x1)
				if len(stack) < 2 {
					return ErrInvalidStackOperation
				}
				stack.push(stack.top(-2))

			case opcode == OP_PICK || opcode == OP_ROLL:
				// (xn ... x2 x1 x0 n - xn ... x2 x1 x0 xn)
				// (xn ... x2 x1 x0 n - ... x2 x1 x0 xn)
				if len(stack) < 2 {
					return ErrInvalidStackOperation
				}
				n := getint(decodeNum(stack.top(-1), requireMinimal, 4))
				stack.pop()
				if n < 0 || n >= len(stack) {
					return ErrInvalidStackOperation
				}
				v := stack.top(-n - 1)
				if opcode == OP_ROLL {
					i := len(stack) - n - 1
					copy(stack[i:], stack[i+1:])
					stack = stack[:len(stack)-1]
				}
				stack.push(v)

			case opcode == OP_ROT:
				// (x1 x2 x3 -- x2 x3 x1)
				if len(stack) < 3 {
					return ErrInvalidStackOperation
				}
				n := len(stack)
				stack[n-3], stack[n-2] = stack[n-2], stack[n-3]
				stack[n-2], stack[n-1] = stack[n-1], stack[n-2]

			case opcode == OP_SWAP:
				// (x1 x2 -- x2 x1)
				if len(stack) < 2 {
					return ErrInvalidStackOperation
				}
				n := len(stack)
				stack[n-2], stack[n-1] = stack[n-1], stack[n-2]

			case opcode == OP_TUCK:
				// (x1 x2 -- x2 x1 x2)
				if len(stack) < 2 {
					return ErrInvalidStackOperation
				}
				n := len(stack)
				v := stack[n-1]
				stack = append(stack, nil)
				copy(stack[n-1:], stack[n-2:n])
				stack[n-2] = v

			case opcode == OP_SIZE:
				// (in -- in size)
				if len(stack) < 1 {
					return ErrInvalidStackOperation
				}
				stack.push(EncodeNum(int64(len(stack.top(-1)))))

			//
			// Bitwise logic
			//
			case opcode == OP_EQUAL || opcode == OP_EQUALVERIFY:
				// (x1 x2 - bool)
				if len(stack) < 2 {
					return ErrInvalidStackOperation
				}
				fEqual := bytes.Equal(stack.top(-2), stack.top(-1))
				stack.pop()
				stack.pop()
				stack.push(boolVch(fEqual))
				if opcode == OP_EQUALVERIFY {
					if fEqual {
						stack.pop()
					} else {
						return ErrEqualVerify
					}
				}

			//
			// Numeric
			//
			case opcode == OP_1ADD || opcode == OP_1SUB || opcode == OP_NEGATE || opcode == OP_ABS ||
				opcode == OP_NOT || opcode == OP_0NOTEQUAL:
				// (in -- out)
				if len(stack) < 1 {
					return ErrInvalidStackOperation
				}
				bn := decodeNum(stack.top(-1), requireMinimal, 4)
				switch opcode {
				case OP_1ADD:
					bn++
				case OP_1SUB:
					bn--
				case OP_NEGATE:
					bn = -bn
				case OP_ABS:
					if bn < 0 {
						bn = -bn
					}
				case OP_NOT:
					bn = b2i(bn == 0)
				case OP_0NOTEQUAL:
					bn = b2i(bn != 0)
				}
				stack.pop()
				stack.push(EncodeNum(bn))

			case opcode == OP_ADD || opcode == OP_SUB || (opcode >= OP_BOOLAND && opcode <= OP_MAX):
				// (x1 x2 -- out)
				if len(stack) < 2 {
					return ErrInvalidStackOperation
				}
				bn1 := decodeNum(stack.top(-2), requireMinimal, 4)
				bn2 := decodeNum(stack.top(-1), requireMinimal, 4)
				var bn int64
				switch opcode {
				case OP_ADD:
					bn = bn1 + bn2
				case OP_SUB:
					bn = bn1 - bn2
				case OP_BOOLAND:
					bn = b2i(bn1 != 0 && bn2 != 0)
				case OP_BOOLOR:
					bn = b2i(bn1 != 0 || bn2 != 0)
				case OP_NUMEQUAL, OP_NUMEQUALVERIFY:
					bn = b2i(bn1 == bn2)
				case OP_NUMNOTEQUAL:
					bn = b2i(bn1 != bn2)
				case OP_LESSTHAN:
					bn = b2i(bn1 < bn2)
				case OP_GREATERTHAN:
					bn = b2i(bn1 > bn2)
				case OP_LESSTHANOREQUAL:
					bn = b2i(bn1 <= bn2)
				case OP_GREATERTHANOREQUAL:
					bn = b2i(bn1 >= bn2)
				case OP_MIN:
					bn = bn2
					if bn1 < bn2 {
						bn = bn1
					}
				case OP_MAX:
					bn = bn2
					if bn1 > bn2 {
						bn = bn1
					}
				}
				stack.pop()
				stack.pop()
				stack.push(EncodeNum(bn))
				if opcode == OP_NUMEQUALVERIFY {
					if castToBool(stack.top(-1)) {
						stack.pop()
					} else {
						return ErrNumEqualVerify
					}
				}

			case opcode == OP_WITHIN:
				// (x min max -- out)
				if len(stack) < 3 {
					return ErrInvalidStackOperation
				}
				bn1 := decodeNum(stack.top(-3), requireMinimal, 4)
				bn2 := decodeNum(stack.top(-2), requireMinimal, 4)
				bn3 := decodeNum(stack.top(-1), requireMinimal, 4)
				fValue := bn2 <= bn1 && bn1 < bn3
				stack.pop()
				stack.pop()
				stack.pop()
				stack.push(boolVch(fValue))

			//
			// Crypto
			//
			case opcode >= OP_RIPEMD160 && opcode <= OP_HASH256:
				// (in -- hash)
				if len(stack) < 1 {
					return ErrInvalidStackOperation
				}
				v := stack.top(-1)
				var h []byte
				switch opcode {
				case OP_RIPEMD160:
					h = rmd160(v)
				case OP_SHA1:
					s := sha1.Sum(v)
					h = s[:]
				case OP_SHA256:
					s := sha256.Sum256(v)
					h = s[:]
				case OP_HASH160:
					s := sha256.Sum256(v)
					h = rmd160(s[:])
				case OP_HASH256:
					s := reftx.DoubleSHA256(v)
					h = s[:]
				}
				stack.pop()
				stack.push(h)

			case opcode == OP_CODESEPARATOR:
				// If SCRIPT_VERIFY_CONST_SCRIPTCODE flag is set, use of OP_CODESEPARATOR is rejected in
				// pre-segwit script, even in an unexecuted branch (this is checked above the opcode case
				// statement). Hash starts after the code separator
				pbegincodehash = pc
				ed.codesepPos = opcodePos

			case opcode == OP_CHECKSIG || opcode == OP_CHECKSIGVERIFY:
				// (sig pubkey -- bool)
				if len(stack) < 2 {
					return ErrInvalidStackOperation
				}
				fSuccess, e := c.evalChecksig(stack.top(-2), stack.top(-1), script, pbegincodehash, ed, flags, sv)
				if e != ErrOK {
					return e
				}
				stack.pop()
				stack.pop()
				stack.push(boolVch(fSuccess))
				if opcode == OP_CHECKSIGVERIFY {
					if fSuccess {
						stack.pop()
					} else {
						return ErrCheckSigVerify
					}
				}

			case opcode == OP_CHECKSIGADD:
				// OP_CHECKSIGADD is only available in Tapscript
				if sv == sigBase || sv == sigWitnessV0 {
					return ErrBadOpcode
				}
				// (sig num pubkey -- num)
				if len(stack) < 3 {
					return ErrInvalidStackOperation
				}
				sig := stack.top(-3)
				num := decodeNum(stack.top(-2), requireMinimal, 4)
				pub := stack.top(-1)
				fSuccess, e := c.evalChecksig(sig, pub, script, pbegincodehash, ed, flags, sv)
				if e != ErrOK {
					return e
				}
				stack.pop()
				stack.pop()
				stack.pop()
				stack.push(EncodeNum(num + b2i(fSuccess)))

			case opcode == OP_CHECKMULTISIG || opcode == OP_CHECKMULTISIGVERIFY:
				if sv == sigTapscript {
					return ErrTapscriptCheckMultisig
				}
				// ([sig ...] num_of_signatures [pubkey ...] num_of_pubkeys -- bool)
				i := 1
				if len(stack) < i {
					return ErrInvalidStackOperation
				}
				nKeysCount := getint(decodeNum(stack.top(-i), requireMinimal, 4))
				if nKeysCount < 0 || nKeysCount > MaxPubKeysPerMultisig {
					return ErrPubKeyCount
				}
				nOpCount += nKeysCount
				if nOpCount > MaxOpsPerScript {
					return ErrOpCount
				}
				i++
				ikey := i
				// ikey2 is the position of last non-signature item in the stack. Top stack item = 1.
				// With SCRIPT_VERIFY_NULLFAIL, this is used for cleanup if operation fails.
				ikey2 := nKeysCount + 2
				i += nKeysCount
				if len(stack) < i {
					return ErrInvalidStackOperation
				}
				nSigsCount := getint(decodeNum(stack.top(-i), requireMinimal, 4))
				if nSigsCount < 0 || nSigsCount > nKeysCount {
					return ErrSigCount
				}
				i++
				isig := i
				i += nSigsCount
				if len(stack) < i {
					return ErrInvalidStackOperation
				}
				// Subset of script starting at the most recent codeseparator
				scriptCode := script[pbegincodehash:]
				// Drop the signature in pre-segwit scripts but not segwit scripts
				for k := 0; k < nSigsCount; k++ {
					if sv == sigBase {
						var found int
						scriptCode, found = refsighash.FindAndDelete(scriptCode, c.sigPattern(stack.top(-isig-k)))
						if found > 0 && flags&FlagConstScriptCode != 0 {
							return ErrSigFindAndDelete
						}
					}
				}
				fSuccess := true
				for fSuccess && nSigsCount > 0 {
					sig := stack.top(-isig)
					pub := stack.top(-ikey)
					// Note how this makes the exact order of pubkey/signature evaluation distinguishable by
					// CHECKMULTISIG NOT if the STRICTENC flag is set. See the script_(in)valid tests for details.
					if e := checkSignatureEncoding(sig, flags, c.quirks); e != ErrOK {
						return e
					}
					if e := checkPubKeyEncoding(pub, flags, sv); e != ErrOK {
						return e
					}
					// Check signature
					if c.checkECDSASignature(sig, pub, scriptCode, sv) {
						isig++
						nSigsCount--
					}
					ikey++
					nKeysCount--
					// If there are more signatures left than keys left, then too many signatures have failed.
					if nSigsCount > nKeysCount {
						fSuccess = false
					}
				}
				// Clean up stack of actual arguments
				for ; i > 1; i-- {
					// If the operation failed, we require that all signatures must be empty vector
					if !fSuccess && flags&FlagNullFail != 0 && ikey2 == 0 && len(stack.top(-1)) > 0 {
						return ErrSigNullFail
					}
					if ikey2 > 0 {
						ikey2--
					}
					stack.pop()
				}
				// A bug causes CHECKMULTISIG to consume one extra argument whose contents were not checked
				// in any way. Unfortunately this is a potential source of mutability, so optionally verify
				// it is exactly equal to zero prior to removing it from the stack.
				if len(stack) < 1 {
					return ErrInvalidStackOperation
				}
				if flags&FlagNullDummy != 0 && len(stack.top(-1)) > 0 {
					return ErrSigNullDummy
				}
				stack.pop()
				stack.push(boolVch(fSuccess))
				if opcode == OP_CHECKMULTISIGVERIFY {
					if fSuccess {
						stack.pop()
					} else {
						return ErrCheckMultisigVerify
					}
				}

			default:
				return ErrBadOpcode
			}
		}
		// Size limits
		if len(stack)+len(altstack) > MaxStackSize {
			return ErrStackSize
		}
		if c.tr != nil && len(stack)+len(altstack) > c.tr.MaxStack {
			c.tr.MaxStack = len(stack) + len(altstack)
		}
	}
	if c.tr != nil && c.tr.Capture {
		c.tr.LastStack = append([][]byte(nil), stack...)
		c.tr.LastAltDepth = len(altstack)
		c.tr.LastCondDepth = len(vfExec)
		c.tr.LastExec = allTrue()
		c.tr.LastOps = nOpCount
	}
	if len(vfExec) != 0 {
		return ErrUnbalancedConditional
	}
	return ErrOK
}

// EvalForGenerator interprets one script on the given stack in the given signature version
// ("base", "witness_v0", "tapscript") against a dummy one-input transaction. It exists for workload
// generators that want to know the stack a random program prefix leaves behind; tr.Capture is set.
func EvalForGenerator(stack [][]byte, script []byte, flags uint32, sigver string, tr *Trace) ScriptError {
	sv := sigBase
	switch sigver {
	case "witness_v0":
		sv = sigWitnessV0
	case "tapscript":
		sv = sigTapscript
	}
	tx := &reftx.Tx{Version: 2, In: []reftx.TxIn{{Sequence: 0}}, Out: []reftx.TxOut{{}}}
	tr.Capture = true
	c := &checker{tx: tx, idx: 0, amount: 0, spent: []reftx.TxOut{{}}, tr: tr}
	st := stackT(append([][]byte(nil), stack...))
	ed := execData{weightLeft: 1 << 40, weightLeftInit: true}
	return c.evalScript(&st, script, flags, sv, &ed)
}

func b2i(b bool) int64 {
	if b {
		return 1
	}
	return 0
}

func rmd160(b []byte) []byte {
	h := ripemd160.New()
	h.Write(b)
	return h.Sum(nil)
}

// ---------------------------------------------------------------------------------------------
// witness

func witnessSerializeSize(w [][]byte) int64 {
	n := int64(reftx.CompactSizeLen(uint64(len(w))))
	for _, e := range w {
		n += int64(reftx.CompactSizeLen(uint64(len(e)))) + int64(len(e))
	}
	return n
}

func (c *checker) executeWitnessScript(stackIn [][]byte, execScript []byte, flags uint32, sv sigVersion, ed *execData) ScriptError {
	stack := stackT(append([][]byte(nil), stackIn...))
	if sv == sigTapscript {
		// OP_SUCCESSx processing overrides everything, including stack element size limits
		pc := 0
		for pc < len(execScript) {
			op, _, next, ok := getOp(execScript, pc)
			if !ok {
				// Note how this condition would not be reached if an unknown OP_SUCCESSx was found
				return ErrBadOpcode
			}
			pc = next
			// New opcodes will be listed here. May use a different sigversion to modify existing opcodes.
			if IsOpSuccess(op) {
				if flags&FlagDiscourageOpSuccess != 0 {
					return ErrDiscourageOpSuccess
				}
				if c.tr != nil {
					c.tr.OpSuccess++
				}
				return ErrOK
			}
		}
		// Tapscript enforces initial stack size limits (altstack is empty here)
		if len(stack) > MaxStackSize {
			return ErrStackSize
		}
	}
	// Disallow stack item size > MAX_SCRIPT_ELEMENT_SIZE in witness stack
	for _, e := range stack {
		if len(e) > MaxScriptElementSize {
			return ErrPushSize
		}
	}
	// Run the script interpreter.
	if e := c.evalScript(&stack, execScript, flags, sv, ed); e != ErrOK {
		return e
	}
	// Scripts inside witness implicitly require cleanstack behaviour
	if len(stack) != 1 {
		return ErrCleanStack
	}
	if !castToBool(stack.top(-1)) {
		return ErrEvalFalse
	}
	return ErrOK
}

// TapLeafHash and TapBranchHash follow BIP341.
func TapLeafHash(leafVersion byte, script []byte) [32]byte {
	return refsighash.TapLeafHash(leafVersion, script)
}

func TapBranchHash(a, b []byte) [32]byte {
	if bytes.Compare(a, b) < 0 {
		return refsighash.TaggedHash("TapBranch", a, b)
	}
	return refsighash.TaggedHash("TapBranch", b, a)
}

// ComputeTaprootMerkleRoot folds the control block's path over the leaf hash.
func ComputeTaprootMerkleRoot(control []byte, leaf [32]byte) [32]byte {
	pathLen := (len(control) - TaprootControlBaseSize) / TaprootControlNodeSize
	k := leaf
	for i := 0; i < pathLen; i++ {
		node := control[TaprootControlBaseSize+TaprootControlNodeSize*i : TaprootControlBaseSize+TaprootControlNodeSize*(i+1)]
		k = TapBranchHash(k[:], node)
	}
	return k
}

func (c *checker) verifyTaprootCommitment(control, program []byte, leaf [32]byte) bool {
	// The internal pubkey (x-only, so no Y coordinate parity).
	p := control[1:TaprootControlBaseSize]
	// The output pubkey (taken from the scriptPubKey).
	q := program
	root := ComputeTaprootMerkleRoot(control, leaf)
	if c.tr != nil {
		c.tr.TapTweak++
	}
	// Verify that the output pubkey matches the tweaked internal pubkey, after correcting for parity.
	return CheckTapTweak(q, p, root[:], control[0]&1 != 0)
}

func (c *checker) verifyWitnessProgram(witness [][]byte, version int, program []byte, flags uint32, isP2SH bool) ScriptError {
	stack := witness // span over the witness stack; never modified in place
	var ed execData

	if version == 0 {
		if len(program) == WitnessV0ScriptHashSize {
			// BIP141 P2WSH: 32-byte witness v0 program (which encodes SHA256(script))
			c.tr.path("p2wsh")
			if len(stack) == 0 {
				return ErrWitnessProgramWitnessEmpty
			}
			execScript := stack[len(stack)-1]
			stack = stack[:len(stack)-1]
			h := sha256.Sum256(execScript)
			if !bytes.Equal(h[:], program) {
				return ErrWitnessProgramMismatch
			}
			return c.executeWitnessScript(stack, execScript, flags, sigWitnessV0, &ed)
		} else if len(program) == WitnessV0KeyHashSize {
			// BIP141 P2WPKH: 20-byte witness v0 program (which encodes Hash160(pubkey))
			c.tr.path("p2wpkh")
			if len(stack) != 2 {
				return ErrWitnessProgramMismatch // 2 items in witness
			}
			execScript := append([]byte{OP_DUP, OP_HASH160, 20}, program...)
			execScript = append(execScript, OP_EQUALVERIFY, OP_CHECKSIG)
			return c.executeWitnessScript(stack, execScript, flags, sigWitnessV0, &ed)
		}
		return ErrWitnessProgramWrongLength
	} else if version == 1 && len(program) == WitnessV1TaprootSize && !isP2SH {
		// BIP341 Taproot: 32-byte non-P2SH witness v1 program (which encodes a P2C-tweaked pubkey)
		if flags&FlagTaproot == 0 {
			c.tr.path("p2tr-inactive")
			return ErrOK
		}
		if len(stack) == 0 {
			return ErrWitnessProgramWitnessEmpty
		}
		if len(stack) >= 2 && len(stack[len(stack)-1]) > 0 && stack[len(stack)-1][0] == AnnexTag {
			// Drop annex (this is non-standard; see IsWitnessStandard)
			ed.annex = stack[len(stack)-1]
			ed.annexPresent = true
			stack = stack[:len(stack)-1]
		}
		if len(stack) == 1 {
			// Key path spending (stack size is 1 after removing optional annex)
			c.tr.path("p2tr-key")
			return c.checkSchnorrSignature(stack[0], program, sigTaproot, &ed)
		}
		// Script path spending (stack size is >1 after removing optional annex)
		c.tr.path("p2tr-script")
		control := stack[len(stack)-1]
		script := stack[len(stack)-2]
		stack = stack[:len(stack)-2]
		if len(control) < TaprootControlBaseSize || len(control) > TaprootControlMaxSize ||
			(len(control)-TaprootControlBaseSize)%TaprootControlNodeSize != 0 {
			return ErrTaprootWrongControlSize
		}
		ed.tapleafHash = TapLeafHash(control[0]&TaprootLeafMask, script)
		if !c.verifyTaprootCommitment(control, program, ed.tapleafHash) {
			return ErrWitnessProgramMismatch
		}
		ed.tapleafHashInit = true
		if control[0]&TaprootLeafMask == TaprootLeafTapscript {
			// Tapscript (leaf version 0xc0)
			c.tr.path("tapscript")
			ed.weightLeft = witnessSerializeSize(witness) + ValidationWeightOffset
			ed.weightLeftInit = true
			return c.executeWitnessScript(stack, script, flags, sigTapscript, &ed)
		}
		if flags&FlagDiscourageUpgradableTaprootVer != 0 {
			return ErrDiscourageUpgradableTaprootVersion
		}
		c.tr.path("unknown-leaf-version")
		return ErrOK
	}
	// (Core 28 and later exempt pay-to-anchor, OP_1 <0x4e73>, from the discouragement below; the vector
	// files in /repo/lib/test predate that and the verdict only differs under this policy flag. Not modelled.)
	if flags&FlagDiscourageUpgradableWitnessProg != 0 {
		return ErrDiscourageUpgradableWitnessProgram
	}
	// Other version/size/p2sh combinations return true for future softfork compatibility
	c.tr.path("unknown-witness-program")
	return ErrOK
}

// ---------------------------------------------------------------------------------------------
// VerifyScript

// Verify is Core's VerifyScript with a GenericTransactionSignatureChecker over (tx, idx, amount)
// and precomputed transaction data holding spentOutputs (needed for taproot; one entry per input).
// flags must satisfy FlagsConsistent (Core asserts); Verify panics otherwise.
func Verify(scriptSig, scriptPubKey []byte, witness [][]byte, tx *reftx.Tx, idx int, amount int64,
	spentOutputs []reftx.TxOut, flags uint32) (bool, ScriptError) {
	return VerifyTrace(scriptSig, scriptPubKey, witness, tx, idx, amount, spentOutputs, flags, nil)
}

func VerifyTrace(scriptSig, scriptPubKey []byte, witness [][]byte, tx *reftx.Tx, idx int, amount int64,
	spentOutputs []reftx.TxOut, flags uint32, tr *Trace) (bool, ScriptError) {
	if !FlagsConsistent(flags) {
		panic("refscript.Verify: inconsistent flag set (Core asserts)")
	}
	c := &checker{tx: tx, idx: idx, amount: amount, spent: spentOutputs, tr: tr}
	e := c.verifyScript(scriptSig, scriptPubKey, witness, flags)
	return e == ErrOK, e
}

// VerifyWithQuirks is Verify with the given quirks switched on (diagnostic naming only, see Quirk*).
func VerifyWithQuirks(scriptSig, scriptPubKey []byte, witness [][]byte, tx *reftx.Tx, idx int, amount int64,
	spentOutputs []reftx.TxOut, flags uint32, quirks uint32) (bool, ScriptError) {
	c := &checker{tx: tx, idx: idx, amount: amount, spent: spentOutputs, quirks: quirks}
	e := c.verifyScript(scriptSig, scriptPubKey, witness, flags)
	return e == ErrOK, e
}

func (c *checker) verifyScript(scriptSig, scriptPubKey []byte, witness [][]byte, flags uint32) ScriptError {
	hadWitness := false
	if flags&FlagSigPushOnly != 0 && !IsPushOnly(scriptSig) {
		return ErrSigPushOnly
	}
	// scriptSig and scriptPubKey must be evaluated sequentially on the same stack rather than being
	// simply concatenated (see CVE-2010-5141)
	var stack, stackCopy stackT
	var ed execData
	if e := c.evalScript(&stack, scriptSig, flags, sigBase, &ed); e != ErrOK {
		return e
	}
	if flags&FlagP2SH != 0 {
		stackCopy = append(stackT(nil), stack...)
	}
	if e := c.evalScript(&stack, scriptPubKey, flags, sigBase, &ed); e != ErrOK {
		return e
	}
	if len(stack) == 0 {
		return ErrEvalFalse
	}
	if !castToBool(stack.top(-1)) {
		return ErrEvalFalse
	}

	// Bare witness programs
	if flags&FlagWitness != 0 {
		if ver, prog, ok := IsWitnessProgram(scriptPubKey); ok {
			hadWitness = true
			c.tr.path("native-witness")
			if len(scriptSig) != 0 {
				// The scriptSig must be _exactly_ CScript(), otherwise we reintroduce malleability.
				return ErrWitnessMalleated
			}
			if e := c.verifyWitnessProgram(witness, ver, prog, flags, false); e != ErrOK {
				return e
			}
			// Bypass the cleanstack check at the end. The actual stack is obviously not clean for
			// witness programs.
			stack = stack[:1]
		}
	}

	// Additional validation for spend-to-script-hash transactions:
	if flags&FlagP2SH != 0 && IsPayToScriptHash(scriptPubKey) {
		c.tr.path("p2sh")
		// scriptSig must be literals-only or validation fails
		if !IsPushOnly(scriptSig) {
			return ErrSigPushOnly
		}
		// Restore stack.
		stack, stackCopy = stackCopy, stack
		// stack cannot be empty here, because if it was the P2SH  HASH <> EQUAL  scriptPubKey would be
		// evaluated with an empty stack and the EvalScript above would return false.
		if len(stack) == 0 {
			panic("refscript: P2SH with empty stack")
		}
		pubKey2 := stack.top(-1)
		stack.pop()
		if e := c.evalScript(&stack, pubKey2, flags, sigBase, &ed); e != ErrOK {
			return e
		}
		if len(stack) == 0 {
			return ErrEvalFalse
		}
		if !castToBool(stack.top(-1)) {
			return ErrEvalFalse
		}
		// P2SH witness program
		if flags&FlagWitness != 0 {
			if ver, prog, ok := IsWitnessProgram(pubKey2); ok {
				hadWitness = true
				c.tr.path("p2sh-witness")
				if !bytes.Equal(scriptSig, refsighash.PushData(pubKey2)) {
					// The scriptSig must be _exactly_ a single push of the redeemScript. Otherwise we
					// reintroduce malleability.
					return ErrWitnessMalleatedP2SH
				}
				if e := c.verifyWitnessProgram(witness, ver, prog, flags, true); e != ErrOK {
					return e
				}
				// Bypass the cleanstack check at the end.
				stack = stack[:1]
			}
		}
	}

	// The CLEANSTACK check is only performed after potential P2SH evaluation, as the non-P2SH
	// evaluation of a P2SH script will obviously not result in a clean stack (the P2SH inputs remain).
	// The same holds for witness evaluation.
	if flags&FlagCleanStack != 0 {
		if len(stack) != 1 {
			return ErrCleanStack
		}
	}
	if flags&FlagWitness != 0 {
		if !hadWitness && len(witness) != 0 {
			return ErrWitnessUnexpected
		}
	}
	return ErrOK
}
