package refscript

import (
	"crypto/sha256"
	"math/big"
	"sync"

	"verif/ref/refec"
)

// ---------------------------------------------------------------------------------------------
// ecdsa_signature_parse_der_lax (Core, pubkey.cpp). Returns ok=false when the function returns 0.
// When it returns 1 the result is either the parsed (r, s), or (0, 0) when an integer does not
// fit 32 bytes after stripping leading zeros or is >= n ("correctly-parsed but invalid signature").

func ParseDERLax(in []byte) (r, s *big.Int, ok bool) {
	rb, sb, ok := parseDERLaxRaw(in)
	if !ok {
		return nil, nil, false
	}
	overflow := len(rb) > 32 || len(sb) > 32
	if !overflow {
		r = new(big.Int).SetBytes(rb)
		s = new(big.Int).SetBytes(sb)
		// secp256k1_ecdsa_signature_parse_compact: fails when r or s overflows the group order
		if r.Cmp(refec.N) >= 0 || s.Cmp(refec.N) >= 0 {
			overflow = true
		}
	}
	if overflow {
		return new(big.Int), new(big.Int), true
	}
	return r, s, true
}

// parseDERLaxRaw is the structural part of the lax parser: the content bytes of R and S with
// leading zero bytes stripped (any length).
func parseDERLaxRaw(in []byte) (rb, sb []byte, ok bool) {
	n := len(in)
	pos := 0
	// sequence tag
	if pos == n || in[pos] != 0x30 {
		return nil, nil, false
	}
	pos++
	// sequence length bytes (value ignored)
	if pos == n {
		return nil, nil, false
	}
	lenbyte := int(in[pos])
	pos++
	if lenbyte&0x80 != 0 {
		lenbyte -= 0x80
		if lenbyte > n-pos {
			return nil, nil, false
		}
		pos += lenbyte
	}
	readInt := func() (ipos, ilen int, ok bool) {
		// integer tag
		if pos == n || in[pos] != 0x02 {
			return 0, 0, false
		}
		pos++
		// integer length
		if pos == n {
			return 0, 0, false
		}
		lb := int(in[pos])
		pos++
		if lb&0x80 != 0 {
			lb -= 0x80
			if lb > n-pos {
				return 0, 0, false
			}
			for lb > 0 && in[pos] == 0 {
				pos++
				lb--
			}
			if lb >= 4 {
				return 0, 0, false
			}
			ilen = 0
			for lb > 0 {
				ilen = ilen<<8 + int(in[pos])
				pos++
				lb--
			}
		} else {
			ilen = lb
		}
		if ilen > n-pos {
			return 0, 0, false
		}
		ipos = pos
		return ipos, ilen, true
	}
	rpos, rlen, ok1 := readInt()
	if !ok1 {
		return nil, nil, false
	}
	pos += rlen
	spos, slen, ok2 := readInt()
	if !ok2 {
		return nil, nil, false
	}
	for rlen > 0 && in[rpos] == 0 {
		rlen--
		rpos++
	}
	for slen > 0 && in[spos] == 0 {
		slen--
		spos++
	}
	return in[rpos : rpos+rlen], in[spos : spos+slen], true
}

// ---------------------------------------------------------------------------------------------
// BIP66 IsValidSignatureEncoding (signature including the hash-type byte)

func IsValidSignatureEncoding(sig []byte) bool {
	// Format: 0x30 [total-length] 0x02 [R-length] [R] 0x02 [S-length] [S] [sighash]
	if len(sig) < 9 || len(sig) > 73 {
		return false
	}
	if sig[0] != 0x30 {
		return false
	}
	if int(sig[1]) != len(sig)-3 {
		return false
	}
	lenR := int(sig[3])
	if 5+lenR >= len(sig) {
		return false
	}
	lenS := int(sig[5+lenR])
	if lenR+lenS+7 != len(sig) {
		return false
	}
	if sig[2] != 0x02 {
		return false
	}
	if lenR == 0 {
		return false
	}
	if sig[4]&0x80 != 0 {
		return false
	}
	if lenR > 1 && sig[4] == 0 && sig[5]&0x80 == 0 {
		return false
	}
	if sig[lenR+4] != 0x02 {
		return false
	}
	if lenS == 0 {
		return false
	}
	if sig[lenR+6]&0x80 != 0 {
		return false
	}
	if lenS > 1 && sig[lenR+6] == 0 && sig[lenR+7]&0x80 == 0 {
		return false
	}
	return true
}

// checkLowS is CPubKey::CheckLowS on the signature without its hash-type byte.
func checkLowS(sigNoHT []byte, quirks uint32) bool {
	if quirks&QuirkLowSPlainComparison != 0 {
		_, sb, ok := parseDERLaxRaw(sigNoHT)
		return ok && new(big.Int).SetBytes(sb).Cmp(refec.HalfN) <= 0
	}
	_, s, ok := ParseDERLax(sigNoHT)
	if !ok {
		return false
	}
	return s.Cmp(refec.HalfN) <= 0
}

func isDefinedHashtypeSignature(sig []byte) bool {
	if len(sig) == 0 {
		return false
	}
	ht := sig[len(sig)-1] &^ 0x80
	return ht >= 1 && ht <= 3
}

// checkSignatureEncoding is Core's CheckSignatureEncoding.
func checkSignatureEncoding(sig []byte, flags uint32, quirks uint32) ScriptError {
	// Empty signature. Not strictly DER encoded, but allowed to provide a compact way to provide an
	// invalid signature for use with CHECK(MULTI)SIG
	if len(sig) == 0 {
		return ErrOK
	}
	if flags&(FlagDERSig|FlagLowS|FlagStrictEnc) != 0 && !IsValidSignatureEncoding(sig) {
		return ErrSigDER
	}
	if flags&FlagLowS != 0 {
		// IsLowDERSignature (its own IsValidSignatureEncoding test has already passed above)
		if !checkLowS(sig[:len(sig)-1], quirks) {
			return ErrSigHighS
		}
	}
	if flags&FlagStrictEnc != 0 && !isDefinedHashtypeSignature(sig) {
		return ErrSigHashType
	}
	return ErrOK
}

func isCompressedOrUncompressedPubKey(pk []byte) bool {
	if len(pk) < 33 {
		return false
	}
	switch pk[0] {
	case 0x04:
		return len(pk) == 65
	case 0x02, 0x03:
		return len(pk) == 33
	}
	return false
}

func isCompressedPubKey(pk []byte) bool {
	return len(pk) == 33 && (pk[0] == 2 || pk[0] == 3)
}

func checkPubKeyEncoding(pk []byte, flags uint32, sv sigVersion) ScriptError {
	if flags&FlagStrictEnc != 0 && !isCompressedOrUncompressedPubKey(pk) {
		return ErrPubKeyType
	}
	// Only compressed keys are accepted in segwit
	if flags&FlagWitnessPubKeyType != 0 && sv == sigWitnessV0 && !isCompressedPubKey(pk) {
		return ErrWitnessPubKeyType
	}
	return ErrOK
}

// ---------------------------------------------------------------------------------------------
// signature verification with memoisation (pure functions of their byte inputs)

var (
	sigCacheMu sync.Mutex
	sigCache   = map[[32]byte]bool{}
	// CacheHits / CacheMisses are informational.
	CacheHits, CacheMisses int64
)

func cacheKey(kind byte, parts ...[]byte) [32]byte {
	h := sha256.New()
	h.Write([]byte{kind})
	for _, p := range parts {
		var l [4]byte
		l[0], l[1], l[2], l[3] = byte(len(p)), byte(len(p)>>8), byte(len(p)>>16), byte(len(p)>>24)
		h.Write(l[:])
		h.Write(p)
	}
	var k [32]byte
	copy(k[:], h.Sum(nil))
	return k
}

func cached(k [32]byte, f func() bool) bool {
	sigCacheMu.Lock()
	v, ok := sigCache[k]
	if ok {
		CacheHits++
	}
	sigCacheMu.Unlock()
	if ok {
		return v
	}
	v = f()
	sigCacheMu.Lock()
	CacheMisses++
	if len(sigCache) > 200000 {
		sigCache = map[[32]byte]bool{}
	}
	sigCache[k] = v
	sigCacheMu.Unlock()
	return v
}

// VerifyECDSA is CPubKey::Verify: the key must be a well-formed SEC1 key (CPubKey validity by
// header byte and length, then secp256k1_ec_pubkey_parse: coordinates < p, on the curve, hybrid
// parity), the signature (without hash type) goes through the lax DER parser, S is normalised to
// the lower half, then standard ECDSA verification.
func VerifyECDSA(pub, sigNoHT []byte, digest [32]byte) bool {
	// CPubKey::IsValid(): length matches the header byte
	if len(pub) == 0 {
		return false
	}
	switch pub[0] {
	case 2, 3:
		if len(pub) != 33 {
			return false
		}
	case 4, 6, 7:
		if len(pub) != 65 {
			return false
		}
	default:
		return false
	}
	return cached(cacheKey('e', pub, sigNoHT, digest[:]), func() bool {
		q, why := refec.ParsePubKey(pub)
		if why != "" {
			return false
		}
		r, s, ok := ParseDERLax(sigNoHT)
		if !ok {
			return false
		}
		if s.Cmp(refec.HalfN) > 0 {
			s = new(big.Int).Sub(refec.N, s)
		}
		good, _ := refec.ECDSAVerifyPoint(q, r, s, digest[:])
		return good
	})
}

// verifyECDSARS verifies explicit (r, s) values (used by the diagnostic quirk only).
func verifyECDSARS(pub []byte, r, s *big.Int, digest [32]byte) bool {
	return cached(cacheKey('q', pub, r.Bytes(), []byte{0}, s.Bytes(), digest[:]), func() bool {
		q, why := refec.ParsePubKey(pub)
		if why != "" {
			return false
		}
		good, _ := refec.ECDSAVerifyPoint(q, r, s, digest[:])
		return good
	})
}

// VerifySchnorr is XOnlyPubKey::VerifySchnorr (BIP340) for a 32-byte key and 64-byte signature.
func VerifySchnorr(pk32, sig64 []byte, digest [32]byte) bool {
	if len(pk32) != 32 || len(sig64) != 64 {
		return false
	}
	return cached(cacheKey('s', pk32, sig64, digest[:]), func() bool {
		ok, _ := refec.SchnorrVerify(pk32, digest[:], sig64)
		return ok
	})
}

// CheckTapTweak is XOnlyPubKey::CheckTapTweak: q == x(lift_x(p) + H_TapTweak(p||root)*G) with the
// given parity of the y coordinate.
func CheckTapTweak(q32, p32, merkleRoot []byte, parity bool) bool {
	return cached(cacheKey('t', q32, p32, merkleRoot, []byte{b2b(parity)}), func() bool {
		t := refec.TapTweakHash(p32, merkleRoot)
		ok, _ := refec.TaprootTweakCheck(q32, p32, t, parity)
		return ok
	})
}

func b2b(b bool) byte {
	if b {
		return 1
	}
	return 0
}
