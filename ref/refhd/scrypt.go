package refhd

import (
	"crypto/sha256"
	"encoding/binary"
	"errors"
	"math/bits"
)

// scrypt per RFC 7914 (straightforward, unoptimised).

func salsa208(b *[16]uint32) {
	x := *b
	for i := 0; i < 8; i += 2 {
		// column round
		x[4] ^= bits.RotateLeft32(x[0]+x[12], 7)
		x[8] ^= bits.RotateLeft32(x[4]+x[0], 9)
		x[12] ^= bits.RotateLeft32(x[8]+x[4], 13)
		x[0] ^= bits.RotateLeft32(x[12]+x[8], 18)
		x[9] ^= bits.RotateLeft32(x[5]+x[1], 7)
		x[13] ^= bits.RotateLeft32(x[9]+x[5], 9)
		x[1] ^= bits.RotateLeft32(x[13]+x[9], 13)
		x[5] ^= bits.RotateLeft32(x[1]+x[13], 18)
		x[14] ^= bits.RotateLeft32(x[10]+x[6], 7)
		x[2] ^= bits.RotateLeft32(x[14]+x[10], 9)
		x[6] ^= bits.RotateLeft32(x[2]+x[14], 13)
		x[10] ^= bits.RotateLeft32(x[6]+x[2], 18)
		x[3] ^= bits.RotateLeft32(x[15]+x[11], 7)
		x[7] ^= bits.RotateLeft32(x[3]+x[15], 9)
		x[11] ^= bits.RotateLeft32(x[7]+x[3], 13)
		x[15] ^= bits.RotateLeft32(x[11]+x[7], 18)
		// row round
		x[1] ^= bits.RotateLeft32(x[0]+x[3], 7)
		x[2] ^= bits.RotateLeft32(x[1]+x[0], 9)
		x[3] ^= bits.RotateLeft32(x[2]+x[1], 13)
		x[0] ^= bits.RotateLeft32(x[3]+x[2], 18)
		x[6] ^= bits.RotateLeft32(x[5]+x[4], 7)
		x[7] ^= bits.RotateLeft32(x[6]+x[5], 9)
		x[4] ^= bits.RotateLeft32(x[7]+x[6], 13)
		x[5] ^= bits.RotateLeft32(x[4]+x[7], 18)
		x[11] ^= bits.RotateLeft32(x[10]+x[9], 7)
		x[8] ^= bits.RotateLeft32(x[11]+x[10], 9)
		x[9] ^= bits.RotateLeft32(x[8]+x[11], 13)
		x[10] ^= bits.RotateLeft32(x[9]+x[8], 18)
		x[12] ^= bits.RotateLeft32(x[15]+x[14], 7)
		x[13] ^= bits.RotateLeft32(x[12]+x[15], 9)
		x[14] ^= bits.RotateLeft32(x[13]+x[12], 13)
		x[15] ^= bits.RotateLeft32(x[14]+x[13], 18)
	}
	for i := range b {
		b[i] += x[i]
	}
}

// blockMix on 2r 64-byte blocks held as []uint32 (little endian words)
func blockMix(in []uint32, r int) []uint32 {
	var x [16]uint32
	copy(x[:], in[(2*r-1)*16:])
	y := make([]uint32, len(in))
	for i := 0; i < 2*r; i++ {
		for j := 0; j < 16; j++ {
			x[j] ^= in[i*16+j]
		}
		salsa208(&x)
		// even blocks first, then odd blocks
		dst := i / 2
		if i%2 == 1 {
			dst += r
		}
		copy(y[dst*16:], x[:])
	}
	return y
}

func roMix(b []byte, n, r int) {
	words := 32 * r
	x := make([]uint32, words)
	for i := range x {
		x[i] = binary.LittleEndian.Uint32(b[i*4:])
	}
	v := make([][]uint32, n)
	for i := 0; i < n; i++ {
		v[i] = x
		x = blockMix(x, r)
	}
	for i := 0; i < n; i++ {
		// Integerify: first 64 bits of the last 64-byte block, little endian, mod N
		j := int((uint64(x[(2*r-1)*16]) | uint64(x[(2*r-1)*16+1])<<32) % uint64(n))
		t := make([]uint32, words)
		for k := range t {
			t[k] = x[k] ^ v[j][k]
		}
		x = blockMix(t, r)
	}
	for i := range x {
		binary.LittleEndian.PutUint32(b[i*4:], x[i])
	}
}

func Scrypt(password, salt []byte, n, r, p, dkLen int) ([]byte, error) {
	if n < 2 || n&(n-1) != 0 {
		return nil, errors.New("scrypt: N must be a power of two > 1")
	}
	if r < 1 || p < 1 {
		return nil, errors.New("scrypt: bad r/p")
	}
	b := PBKDF2(sha256.New, password, salt, 1, p*128*r)
	for i := 0; i < p; i++ {
		roMix(b[i*128*r:(i+1)*128*r], n, r)
	}
	return PBKDF2(sha256.New, password, b, 1, dkLen), nil
}
