package refhd

import "testing"

func TestCalibrate(t *testing.T) {
	if err := Calibrate(); err != nil {
		t.Fatal(err)
	}
	for _, s := range bip32Invalid {
		_, err := ParseExtKey(s)
		t.Log(err)
	}
}

func BenchmarkBaseMul(b *testing.B) {
	k := CurveN
	for i := 0; i < b.N; i++ {
		BaseMul(k)
	}
}
