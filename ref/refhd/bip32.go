package refhd

import (
	"bytes"
	"crypto/hmac"
	"crypto/sha256"
	"crypto/sha512"
	"encoding/binary"
	"errors"
	"fmt"
	"math/big"
	"strconv"
	"strings"

	"verif/ref/refaddr"
)

// Extended-key version bytes (BIP32 + SLIP-132)
const (
	VerXpub = 0x0488B21E
	VerXprv = 0x0488ADE4
	VerYpub = 0x049d7cb2
	VerYprv = 0x049d7878
	VerZpub = 0x04b24746
	VerZprv = 0x04b2430c
	VerTpub = 0x043587cf
	VerTprv = 0x04358394
	VerUpub = 0x044a5262
	VerUprv = 0x044a4e28
	VerVpub = 0x045f1cf6
	VerVprv = 0x045f18bc
)

var prvToPub = map[uint32]uint32{VerXprv: VerXpub, VerYprv: VerYpub, VerZprv: VerZpub, VerTprv: VerTpub, VerUprv: VerUpub, VerVprv: VerVpub}

func IsPrivVersion(v uint32) bool { _, ok := prvToPub[v]; return ok }
func IsPubVersion(v uint32) bool {
	for _, p := range prvToPub {
		if p == v {
			return true
		}
	}
	return false
}
func PubVersionOf(v uint32) uint32 {
	if p, ok := prvToPub[v]; ok {
		return p
	}
	return v
}

const Hardened = uint32(0x80000000)

// ExtKey is a BIP32 extended key. Exactly one of Priv (32 bytes) / Pub is the key material;
// for private keys Pub is computed lazily by PubPoint().
type ExtKey struct {
	Version   uint32
	Depth     byte
	ParentFP  [4]byte
	ChildNum  uint32
	ChainCode []byte // 32
	Priv      []byte // 32 bytes, nil for public keys
	Pub       []byte // 33 bytes compressed (always set for public keys; cached for private)
}

func hmac512(key []byte, parts ...[]byte) []byte {
	m := hmac.New(sha512.New, key)
	for _, p := range parts {
		m.Write(p)
	}
	return m.Sum(nil)
}

// Master: I = HMAC-SHA512("Bitcoin seed", S); IL = key, IR = chain code.
// BIP32 declares the master key invalid if IL = 0 or >= n (reported as error).
func Master(seed []byte, version uint32) (*ExtKey, error) {
	I := hmac512([]byte("Bitcoin seed"), seed)
	k := &ExtKey{Version: version, ChainCode: I[32:], Priv: I[:32]}
	if !refaddr.ValidPrivKey(k.Priv) {
		return k, errors.New("master key out of range")
	}
	return k, nil
}

func (k *ExtKey) IsPrivate() bool { return k.Priv != nil }

// PubKey returns the 33-byte compressed public key.
func (k *ExtKey) PubKey() []byte {
	if k.Pub == nil {
		p, err := PubFromPriv(k.Priv)
		if err != nil {
			return nil
		}
		k.Pub = p.SerializeCompressed()
	}
	return k.Pub
}

func (k *ExtKey) Fingerprint() []byte { return refaddr.Hash160(k.PubKey())[:4] }

func ser32(i uint32) []byte {
	var b [4]byte
	binary.BigEndian.PutUint32(b[:], i)
	return b[:]
}

var ErrInvalidChild = errors.New("BIP32: IL >= n or resulting key invalid; proceed with next index")

// Child implements CKDpriv for private keys and CKDpub for public keys.
func (k *ExtKey) Child(i uint32) (*ExtKey, error) {
	if len(k.ChainCode) != 32 {
		return nil, errors.New("bad chain code")
	}
	c := &ExtKey{Version: k.Version, Depth: k.Depth + 1, ChildNum: i}
	copy(c.ParentFP[:], k.Fingerprint())
	if k.IsPrivate() {
		var I []byte
		if i >= Hardened {
			I = hmac512(k.ChainCode, []byte{0}, k.Priv, ser32(i))
		} else {
			I = hmac512(k.ChainCode, k.PubKey(), ser32(i))
		}
		il := new(big.Int).SetBytes(I[:32])
		if il.Cmp(CurveN) >= 0 {
			return nil, ErrInvalidChild
		}
		ki := il.Add(il, new(big.Int).SetBytes(k.Priv))
		ki.Mod(ki, CurveN)
		if ki.Sign() == 0 {
			return nil, ErrInvalidChild
		}
		c.Priv = pad32(ki)
		c.ChainCode = I[32:]
		return c, nil
	}
	if i >= Hardened {
		return nil, errors.New("hardened derivation from a public key")
	}
	I := hmac512(k.ChainCode, k.Pub, ser32(i))
	il := new(big.Int).SetBytes(I[:32])
	if il.Cmp(CurveN) >= 0 {
		return nil, ErrInvalidChild
	}
	parent, err := ParseCompressed(k.Pub)
	if err != nil {
		return nil, err
	}
	p := Add(BaseMul(il), parent)
	if p.Inf {
		return nil, ErrInvalidChild
	}
	c.Pub = p.SerializeCompressed()
	c.ChainCode = I[32:]
	return c, nil
}

// Neuter returns the extended public key (N function of BIP32).
func (k *ExtKey) Neuter() *ExtKey {
	if !k.IsPrivate() {
		c := *k
		return &c
	}
	return &ExtKey{Version: PubVersionOf(k.Version), Depth: k.Depth, ParentFP: k.ParentFP, ChildNum: k.ChildNum,
		ChainCode: k.ChainCode, Pub: k.PubKey()}
}

// Serialize: 78 bytes version||depth||parent fp||child number||chain code||key data.
func (k *ExtKey) Serialize() []byte {
	var b bytes.Buffer
	b.Write(ser32(k.Version))
	b.WriteByte(k.Depth)
	b.Write(k.ParentFP[:])
	b.Write(ser32(k.ChildNum))
	b.Write(k.ChainCode)
	if k.IsPrivate() {
		b.WriteByte(0)
		b.Write(k.Priv)
	} else {
		b.Write(k.Pub)
	}
	return b.Bytes()
}

func (k *ExtKey) String() string { return refaddr.Base58CheckEncode(k.Serialize()) }

// ParseExtKey decodes and validates a Base58Check extended key (validity rules of BIP32 test
// vector 5: known version, key prefix matches version, private key in range, public key on curve,
// depth 0 => zero parent fingerprint and zero index).
func ParseExtKey(s string) (*ExtKey, error) {
	pl, reason := refaddr.Base58CheckDecode(s)
	if reason != "" {
		return nil, errors.New(reason)
	}
	if len(pl) != 78 {
		return nil, fmt.Errorf("extended key payload length %d", len(pl))
	}
	k := &ExtKey{Version: binary.BigEndian.Uint32(pl[:4]), Depth: pl[4], ChildNum: binary.BigEndian.Uint32(pl[9:13]),
		ChainCode: append([]byte{}, pl[13:45]...)}
	copy(k.ParentFP[:], pl[5:9])
	kd := pl[45:78]
	switch {
	case IsPrivVersion(k.Version):
		if kd[0] != 0 {
			return nil, errors.New("private key data does not start with 00")
		}
		if !refaddr.ValidPrivKey(kd[1:]) {
			return nil, errors.New("private key out of range")
		}
		k.Priv = append([]byte{}, kd[1:]...)
	case IsPubVersion(k.Version):
		if _, err := ParseCompressed(kd); err != nil {
			return nil, err
		}
		k.Pub = append([]byte{}, kd...)
	default:
		return nil, errors.New("unknown version")
	}
	if k.Depth == 0 && (k.ParentFP != [4]byte{} || k.ChildNum != 0) {
		return nil, errors.New("depth 0 with non-zero parent fingerprint or index")
	}
	return k, nil
}

// ParsePath parses "m/0'/1/2h" into child numbers. Indexes must be < 2^31.
func ParsePath(p string) ([]uint32, error) {
	parts := strings.Split(p, "/")
	if len(parts) < 1 || parts[0] != "m" {
		return nil, errors.New("path must start with m")
	}
	var out []uint32
	for _, e := range parts[1:] {
		h := uint32(0)
		if strings.HasSuffix(e, "'") || strings.HasSuffix(e, "h") {
			h = Hardened
			e = e[:len(e)-1]
		}
		v, err := strconv.ParseUint(e, 10, 32)
		if err != nil || v >= uint64(Hardened) {
			return nil, fmt.Errorf("bad path element %q", e)
		}
		out = append(out, uint32(v)|h)
	}
	return out, nil
}

// Derive walks a path of child numbers.
func (k *ExtKey) Derive(path []uint32) (*ExtKey, error) {
	cur := k
	for _, i := range path {
		c, err := cur.Child(i)
		if err != nil {
			return nil, err
		}
		cur = c
	}
	return cur, nil
}

func Sha256(b ...[]byte) []byte {
	h := sha256.New()
	for _, x := range b {
		h.Write(x)
	}
	return h.Sum(nil)
}

func refaddrB58(pl []byte) string { return refaddr.Base58CheckEncode(pl) }
func hash160(b []byte) []byte     { return refaddr.Hash160(b) }
