// Package refhd is the reference model for BIP32 / BIP39 (and the scrypt / PBKDF2 primitives the
// wallet uses) for the C14 monitor. Written from the BIPs / RFCs with math/big and crypto/*;
// imports nothing from /repo. It contains its own minimal secp256k1 (independent of
// /verif/ref/refec on purpose: no build-time coupling between builders).
package refhd

import (
	"errors"
	"math/big"
	"sync"
)

var (
	curveP, _  = new(big.Int).SetString("FFFFFFFFFFFFFFFFFFFFFFFFFFFFFFFFFFFFFFFFFFFFFFFFFFFFFFFEFFFFFC2F", 16)
	CurveN, _  = new(big.Int).SetString("FFFFFFFFFFFFFFFFFFFFFFFFFFFFFFFEBAAEDCE6AF48A03BBFD25E8CD0364141", 16)
	curveGx, _ = new(big.Int).SetString("79BE667EF9DCBBAC55A06295CE870B07029BFCDB2DCE28D959F2815B16F81798", 16)
	curveGy, _ = new(big.Int).SetString("483ADA7726A3C4655DA4FBFC0E1108A8FD17B448A68554199C47D08FFB10D4B8", 16)
	big7       = big.NewInt(7)
)

// Point is an affine point; Inf marks the point at infinity.
type Point struct {
	X, Y *big.Int
	Inf  bool
}

func G() Point { return Point{X: new(big.Int).Set(curveGx), Y: new(big.Int).Set(curveGy)} }

func modP(x *big.Int) *big.Int { return x.Mod(x, curveP) }

func OnCurve(p Point) bool {
	if p.Inf {
		return false
	}
	if p.X.Sign() < 0 || p.X.Cmp(curveP) >= 0 || p.Y.Sign() < 0 || p.Y.Cmp(curveP) >= 0 {
		return false
	}
	l := new(big.Int).Mul(p.Y, p.Y)
	modP(l)
	r := new(big.Int).Mul(p.X, p.X)
	r.Mul(r, p.X)
	r.Add(r, big7)
	modP(r)
	return l.Cmp(r) == 0
}

// jacobian point (X/Z^2, Y/Z^3); Z==0 is infinity
type jac struct{ x, y, z *big.Int }

func toJac(p Point) jac {
	if p.Inf {
		return jac{big.NewInt(1), big.NewInt(1), big.NewInt(0)}
	}
	return jac{new(big.Int).Set(p.X), new(big.Int).Set(p.Y), big.NewInt(1)}
}

func (j jac) affine() Point {
	if j.z.Sign() == 0 {
		return Point{Inf: true}
	}
	zi := new(big.Int).ModInverse(j.z, curveP)
	zi2 := new(big.Int).Mul(zi, zi)
	modP(zi2)
	x := new(big.Int).Mul(j.x, zi2)
	modP(x)
	zi3 := zi2.Mul(zi2, zi)
	modP(zi3)
	y := new(big.Int).Mul(j.y, zi3)
	modP(y)
	return Point{X: x, Y: y}
}

// doubling for a=0 (dbl-2009-l)
func (j jac) double() jac {
	if j.z.Sign() == 0 || j.y.Sign() == 0 {
		return jac{big.NewInt(1), big.NewInt(1), big.NewInt(0)}
	}
	a := new(big.Int).Mul(j.x, j.x)
	modP(a)
	b := new(big.Int).Mul(j.y, j.y)
	modP(b)
	c := new(big.Int).Mul(b, b)
	modP(c)
	d := new(big.Int).Add(j.x, b)
	d.Mul(d, d)
	d.Sub(d, a)
	d.Sub(d, c)
	d.Lsh(d, 1)
	modP(d)
	e := new(big.Int).Mul(a, big.NewInt(3))
	f := new(big.Int).Mul(e, e)
	x3 := new(big.Int).Sub(f, new(big.Int).Lsh(d, 1))
	modP(x3)
	y3 := new(big.Int).Sub(d, x3)
	y3.Mul(y3, e)
	y3.Sub(y3, new(big.Int).Lsh(c, 3))
	modP(y3)
	z3 := new(big.Int).Mul(j.y, j.z)
	z3.Lsh(z3, 1)
	modP(z3)
	return jac{x3, y3, z3}
}

// general addition (handles doubling and infinity)
func (p jac) add(q jac) jac {
	if p.z.Sign() == 0 {
		return q
	}
	if q.z.Sign() == 0 {
		return p
	}
	z1z1 := new(big.Int).Mul(p.z, p.z)
	modP(z1z1)
	z2z2 := new(big.Int).Mul(q.z, q.z)
	modP(z2z2)
	u1 := new(big.Int).Mul(p.x, z2z2)
	modP(u1)
	u2 := new(big.Int).Mul(q.x, z1z1)
	modP(u2)
	s1 := new(big.Int).Mul(p.y, q.z)
	s1.Mul(s1, z2z2)
	modP(s1)
	s2 := new(big.Int).Mul(q.y, p.z)
	s2.Mul(s2, z1z1)
	modP(s2)
	h := new(big.Int).Sub(u2, u1)
	modP(h)
	r := new(big.Int).Sub(s2, s1)
	modP(r)
	if h.Sign() == 0 {
		if r.Sign() == 0 {
			return p.double()
		}
		return jac{big.NewInt(1), big.NewInt(1), big.NewInt(0)}
	}
	h2 := new(big.Int).Mul(h, h)
	modP(h2)
	h3 := new(big.Int).Mul(h2, h)
	modP(h3)
	v := new(big.Int).Mul(u1, h2)
	modP(v)
	x3 := new(big.Int).Mul(r, r)
	x3.Sub(x3, h3)
	x3.Sub(x3, new(big.Int).Lsh(v, 1))
	modP(x3)
	y3 := new(big.Int).Sub(v, x3)
	y3.Mul(y3, r)
	y3.Sub(y3, new(big.Int).Mul(s1, h3))
	modP(y3)
	z3 := new(big.Int).Mul(p.z, q.z)
	z3.Mul(z3, h)
	modP(z3)
	return jac{x3, y3, z3}
}

// Add returns P+Q (affine).
func Add(p, q Point) Point { return toJac(p).add(toJac(q)).affine() }

// Mul returns k*P, k reduced mod n (plain left-to-right double-and-add).
func Mul(k *big.Int, p Point) Point {
	k = new(big.Int).Mod(k, CurveN)
	acc := jac{big.NewInt(1), big.NewInt(1), big.NewInt(0)}
	base := toJac(p)
	for i := k.BitLen() - 1; i >= 0; i-- {
		acc = acc.double()
		if k.Bit(i) == 1 {
			acc = acc.add(base)
		}
	}
	return acc.affine()
}

// BaseMul returns k*G. It uses a table of j*16^i*G (i<64, 0<j<16) built once with the plain
// routines above, so that a multiplication is at most 64 point additions and no doubling.
// Calibrate cross-checks it against the plain double-and-add Mul.
func BaseMul(k *big.Int) Point {
	gTableOnce.Do(buildGTable)
	k = new(big.Int).Mod(k, CurveN)
	acc := jac{big.NewInt(1), big.NewInt(1), big.NewInt(0)}
	kb := pad32(k)
	for i := 0; i < 64; i++ {
		b := kb[31-i/2]
		nib := b & 15
		if i%2 == 1 {
			nib = b >> 4
		}
		if nib != 0 {
			acc = acc.add(gTable[i][nib])
		}
	}
	return acc.affine()
}

var (
	gTable     [64][16]jac
	gTableOnce sync.Once
)

func buildGTable() {
	base := toJac(G())
	for i := 0; i < 64; i++ {
		cur := base
		for j := 1; j < 16; j++ {
			gTable[i][j] = toJac(cur.affine()) // z = 1 keeps later additions cheap and uniform
			cur = cur.add(base)
		}
		base = cur // 16 * previous base
	}
}

func pad32(x *big.Int) []byte {
	b := x.Bytes()
	out := make([]byte, 32)
	copy(out[32-len(b):], b)
	return out
}

// SerializeCompressed: 02/03 || X
func (p Point) SerializeCompressed() []byte {
	out := make([]byte, 1, 33)
	out[0] = 2 + byte(p.Y.Bit(0))
	return append(out, pad32(p.X)...)
}

// SerializeUncompressed: 04 || X || Y
func (p Point) SerializeUncompressed() []byte {
	out := append([]byte{4}, pad32(p.X)...)
	return append(out, pad32(p.Y)...)
}

// ParseCompressed decodes a 33-byte SEC1 compressed point and checks it is on the curve.
func ParseCompressed(b []byte) (Point, error) {
	if len(b) != 33 || (b[0] != 2 && b[0] != 3) {
		return Point{}, errors.New("bad compressed point encoding")
	}
	x := new(big.Int).SetBytes(b[1:])
	if x.Cmp(curveP) >= 0 {
		return Point{}, errors.New("x out of range")
	}
	y2 := new(big.Int).Mul(x, x)
	y2.Mul(y2, x)
	y2.Add(y2, big7)
	modP(y2)
	// p = 3 mod 4: sqrt = y2^((p+1)/4)
	e := new(big.Int).Add(curveP, big.NewInt(1))
	e.Rsh(e, 2)
	y := new(big.Int).Exp(y2, e, curveP)
	if new(big.Int).Exp(y, big.NewInt(2), curveP).Cmp(y2) != 0 {
		return Point{}, errors.New("x not on curve")
	}
	if y.Bit(0) != uint(b[0]&1) {
		y.Sub(curveP, y)
	}
	return Point{X: x, Y: y}, nil
}

// PubFromPriv returns k*G for a 32-byte big-endian private key in [1, n-1].
func PubFromPriv(key []byte) (Point, error) {
	k := new(big.Int).SetBytes(key)
	if k.Sign() == 0 || k.Cmp(CurveN) >= 0 {
		return Point{}, errors.New("private key out of range")
	}
	return BaseMul(k), nil
}
