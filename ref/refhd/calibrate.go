package refhd

import (
	"bytes"
	"crypto/sha1"
	"crypto/sha256"
	_ "embed"
	"encoding/hex"
	"encoding/json"
	"fmt"
	"math/big"
	"strings"
)

//go:embed testdata/bip39_vectors.json
var bip39VectorsJSON []byte

// BIP32 test vectors 3 (leading zeros in the key) and 4 (leading zeros, hardened children),
// as printed in the BIP.
var bip32VectorsExtra = []bip32vec{
	{"4b381541583be4423346c643850da4b320e46a87ae3d2a4e6da11eba819cd4acba45d239319ac14f863b8d5ab5a0d0c64d2e8a1e7d1457df2e5a3c51c73235be", "m",
		"xpub661MyMwAqRbcEZVB4dScxMAdx6d4nFc9nvyvH3v4gJL378CSRZiYmhRoP7mBy6gSPSCYk6SzXPTf3ND1cZAceL7SfJ1Z3GC8vBgp2epUt13",
		"xprv9s21ZrQH143K25QhxbucbDDuQ4naNntJRi4KUfWT7xo4EKsHt2QJDu7KXp1A3u7Bi1j8ph3EGsZ9Xvz9dGuVrtHHs7pXeTzjuxBrCmmhgC6"},
	{"4b381541583be4423346c643850da4b320e46a87ae3d2a4e6da11eba819cd4acba45d239319ac14f863b8d5ab5a0d0c64d2e8a1e7d1457df2e5a3c51c73235be", "m/0'",
		"xpub68NZiKmJWnxxS6aaHmn81bvJeTESw724CRDs6HbuccFQN9Ku14VQrADWgqbhhTHBaohPX4CjNLf9fq9MYo6oDaPPLPxSb7gwQN3ih19Zm4Y",
		"xprv9uPDJpEQgRQfDcW7BkF7eTya6RPxXeJCqCJGHuCJ4GiRVLzkTXBAJMu2qaMWPrS7AANYqdq6vcBcBUdJCVVFceUvJFjaPdGZ2y9WACViL4L"},
	{"3ddd5602285899a946114506157c7997e5444528f3003f6134712147db19b678", "m",
		"xpub661MyMwAqRbcGczjuMoRm6dXaLDEhW1u34gKenbeYqAix21mdUKJyuyu5F1rzYGVxyL6tmgBUAEPrEz92mBXjByMRiJdba9wpnN37RLLAXa",
		"xprv9s21ZrQH143K48vGoLGRPxgo2JNkJ3J3fqkirQC2zVdk5Dgd5w14S7fRDyHH4dWNHUgkvsvNDCkvAwcSHNAQwhwgNMgZhLtQC63zxwhQmRv"},
	{"3ddd5602285899a946114506157c7997e5444528f3003f6134712147db19b678", "m/0'",
		"xpub69AUMk3qDBi3uW1sXgjCmVjJ2G6WQoYSnNHyzkmdCHEhSZ4tBok37xfFEqHd2AddP56Tqp4o56AePAgCjYdvpW2PU2jbUPFKsav5ut6Ch1m",
		"xprv9vB7xEWwNp9kh1wQRfCCQMnZUEG21LpbR9NPCNN1dwhiZkjjeGRnaALmPXCX7SgjFTiCTT6bXes17boXtjq3xLpcDjzEuGLQBM5ohqkao9G"},
	{"3ddd5602285899a946114506157c7997e5444528f3003f6134712147db19b678", "m/0'/1'",
		"xpub6BJA1jSqiukeaesWfxe6sNK9CCGaujFFSJLomWHprUL9DePQ4JDkM5d88n49sMGJxrhpjazuXYWdMf17C9T5XnxkopaeS7jGk1GyyVziaMt",
		"xprv9xJocDuwtYCMNAo3Zw76WENQeAS6WGXQ55RCy7tDJ8oALr4FWkuVoHJeHVAcAqiZLE7Je3vZJHxspZdFHfnBEjHqU5hG1Jaj32dVoS6XLT1"},
}

// BIP32 test vector 5: invalid extended keys (a selection; each must be refused by ParseExtKey).
var bip32Invalid = []string{
	"xpub661MyMwAqRbcEYS8w7XLSVeEsBXy79zSzH1J8vCdxAZningWLdN3zgtU6LBpB85b3D2yc8sfvZU521AAwdZafEz7mnzBBsz4wKY5fTtTQBm", // pubkey version / prvkey mismatch
	"xprv9s21ZrQH143K24Mfq5zL5MhWK9hUhhGbd45hLXo2Pq2oqzMMo63oStZzFGTQQD3dC4H2D5GBj7vWvSQaaBv5cxi9gafk7NF3pnBju6dwKvH", // prvkey version / pubkey mismatch
	"xpub661MyMwAqRbcEYS8w7XLSVeEsBXy79zSzH1J8vCdxAZningWLdN3zgtU6Txnt3siSujt9RCVYsx4qHZGc62TG4McvMGcAUjeuwZdduYEvFn", // invalid pubkey prefix 04
	"xprv9s21ZrQH143K24Mfq5zL5MhWK9hUhhGbd45hLXo2Pq2oqzMMo63oStZzFGpWnsj83BHtEy5Zt8CcDr1UiRXuWCmTQLxEK9vbz5gPstX92JQ", // invalid prvkey prefix 04
	"xprv9s21ZrQH143K24Mfq5zL5MhWK9hUhhGbd45hLXo2Pq2oqzMMo63oStZzFAzHGBP2UuGCqWLTAPLcMtD9y5gkZ6Eq3Rjuahrv17fEQ3Qen6J", // invalid prvkey prefix 01
}

func dbl(b []byte) []byte { a := sha256.Sum256(b); c := sha256.Sum256(a[:]); return c[:] }

// Type3Keys is the documented "type 3" deterministic wallet of gocoin (not a BIP): seed =
// SHA256d(password); key_i = SHA256d(seed_i); seed_{i+1} = seed_i || byte(i). It is pinned by the
// expected addresses embedded in /repo/wallet/wallet_test.go, against which Calibrate checks it.
func Type3Keys(pass []byte, n int) [][]byte {
	seed := dbl(pass)
	keys := make([][]byte, 0, n)
	for i := 0; i < n; i++ {
		keys = append(keys, dbl(seed))
		seed = append(seed, byte(i))
	}
	return keys
}

// GocoinBip39Entropy is gocoin's (non-BIP) way to turn a password into BIP39 entropy when the
// config asks for an N-word mnemonic: first N/3*4 bytes of SHA256(pass|"|gocoin|"|pass|byte(N/3*32)).
// Pinned by the addresses in /repo/wallet/wallet_test.go (checked in Calibrate).
func GocoinBip39Entropy(pass []byte, words int) []byte {
	h := Sha256(pass, []byte("|gocoin|"), pass, []byte{byte(words / 3 * 32)})
	return h[:words/3*4]
}

func p2pkh(pub []byte, ver byte) string {
	return refaddrB58(append([]byte{ver}, hash160(pub)...))
}

// Calibrate checks the model against BIP32 vectors 1-5, the BIP39 (Trezor) vectors, RFC 7914 /
// RFC 6070-style vectors and the wallet addresses embedded in the repo's tests.
func Calibrate() error {
	// secp256k1 sanity
	if !OnCurve(G()) {
		return fmt.Errorf("G not on curve")
	}
	if !BaseMul(CurveN).Inf {
		return fmt.Errorf("n*G != infinity")
	}
	two := BaseMul(big.NewInt(2))
	if fmt.Sprintf("%X", two.X) != "C6047F9441ED7D6D3045406E95C07CD85C778E4B8CEF3CA7ABAC09B95C709EE5" {
		return fmt.Errorf("2G wrong")
	}
	three := Add(two, G())
	if fmt.Sprintf("%X", three.X) != "F9308A019258C31049344F85F89D5229B531C845836F99B08601F113BCE036F9" {
		return fmt.Errorf("3G wrong")
	}
	if d := Add(G(), G()); d.X.Cmp(two.X) != 0 || d.Y.Cmp(two.Y) != 0 {
		return fmt.Errorf("G+G != 2G")
	}
	nm1 := new(big.Int).Sub(CurveN, big.NewInt(1))
	if m := BaseMul(nm1); m.X.Cmp(curveGx) != 0 || new(big.Int).Add(m.Y, curveGy).Cmp(curveP) != 0 {
		return fmt.Errorf("(n-1)G != -G")
	}
	if !Add(BaseMul(nm1), G()).Inf {
		return fmt.Errorf("-G + G != infinity")
	}
	// table-driven BaseMul against plain double-and-add
	x := new(big.Int).SetBytes(sha256Sum([]byte("basemul")))
	for i := 0; i < 40; i++ {
		a, b := BaseMul(x), Mul(x, G())
		if a.Inf != b.Inf || (!a.Inf && (a.X.Cmp(b.X) != 0 || a.Y.Cmp(b.Y) != 0)) || !OnCurve(a) {
			return fmt.Errorf("BaseMul table disagrees with double-and-add for %x", x)
		}
		x.SetBytes(sha256Sum(x.Bytes()))
		if i%8 == 7 {
			x.Rsh(x, uint(8*(i/4))) // short scalars too
		}
	}
	for _, e := range []int64{1, 2, 15, 16, 17, 255, 256} {
		a, b := BaseMul(big.NewInt(e)), Mul(big.NewInt(e), G())
		if a.X.Cmp(b.X) != 0 || a.Y.Cmp(b.Y) != 0 {
			return fmt.Errorf("BaseMul(%d) wrong", e)
		}
	}
	// vector embedded in /repo/lib/btc/wallet_test.go
	prv, _ := hex.DecodeString("bb87a5e3e786ecd05f4901ef7ef32726570bfd176ada37a31ef2861db2834d7e")
	pt, _ := PubFromPriv(prv)
	if hex.EncodeToString(pt.SerializeCompressed()) != "02a60d70cfba37177d8239d018185d864b2bdd0caf5e175fd4454cc006fd2d75ac" {
		return fmt.Errorf("pubkey vector mismatch")
	}
	if q, err := ParseCompressed(pt.SerializeCompressed()); err != nil || q.Y.Cmp(pt.Y) != 0 {
		return fmt.Errorf("ParseCompressed round trip")
	}
	// TestDeterministicPublic vector: P + s*G
	sec, _ := hex.DecodeString("4438addb9b147349432466d89d81f4dae1fc1fd9bcb764d2854f303931796c2d")
	pb, _ := hex.DecodeString("03578936ea365dd8921fe0e05eb4d2af9a0d333312ec01ae950f9450af09cef4d4")
	pp, err := ParseCompressed(pb)
	if err != nil {
		return err
	}
	if hex.EncodeToString(Add(BaseMul(new(big.Int).SetBytes(sec)), pp).SerializeCompressed()) != "03ba29c4d2168af9d8e4492d158ff76455999f94333f47bc15275a2586db6d491d" {
		return fmt.Errorf("P+sG vector mismatch")
	}

	// BIP32
	for _, v := range append(append([]bip32vec{}, bip32Vectors...), bip32VectorsExtra...) {
		seed, _ := hex.DecodeString(v.seed)
		m, err := Master(seed, VerXprv)
		if err != nil {
			return err
		}
		path, err := ParsePath(v.path)
		if err != nil {
			return err
		}
		k, err := m.Derive(path)
		if err != nil {
			return err
		}
		if k.String() != v.xprv {
			return fmt.Errorf("BIP32 %s %s: xprv %s want %s", v.seed[:8], v.path, k.String(), v.xprv)
		}
		if k.Neuter().String() != v.xpub {
			return fmt.Errorf("BIP32 %s %s: xpub %s want %s", v.seed[:8], v.path, k.Neuter().String(), v.xpub)
		}
		// parse + reserialise, and public derivation of the last step when it is not hardened
		if p, err := ParseExtKey(v.xprv); err != nil || p.String() != v.xprv {
			return fmt.Errorf("BIP32 parse xprv %s: %v", v.path, err)
		}
		if p, err := ParseExtKey(v.xpub); err != nil || p.String() != v.xpub {
			return fmt.Errorf("BIP32 parse xpub %s: %v", v.path, err)
		}
		if n := len(path); n > 0 && path[n-1] < Hardened {
			par, _ := m.Derive(path[:n-1])
			c, err := par.Neuter().Child(path[n-1])
			if err != nil || c.String() != v.xpub {
				return fmt.Errorf("BIP32 CKDpub %s", v.path)
			}
		}
	}
	for _, s := range bip32Invalid {
		if _, err := ParseExtKey(s); err == nil {
			return fmt.Errorf("invalid extended key accepted: %s", s)
		}
	}

	// BIP39
	if hex.EncodeToString(sha256Sum([]byte(englishTxt))) != EnglishSHA256 {
		return fmt.Errorf("english word list digest mismatch")
	}
	if len(Words) != 2048 {
		return fmt.Errorf("word list has %d words", len(Words))
	}
	var bv struct {
		Vectors []struct{ Entropy, Mnemonic, Seed string }
		Bad     []string `json:"bad_mnemonics"`
	}
	if err := json.Unmarshal(bip39VectorsJSON, &bv); err != nil {
		return err
	}
	if len(bv.Vectors) < 20 {
		return fmt.Errorf("only %d BIP39 vectors", len(bv.Vectors))
	}
	for _, v := range bv.Vectors {
		ent, _ := hex.DecodeString(v.Entropy)
		m, err := MnemonicFromEntropy(ent)
		if err != nil || m != v.Mnemonic {
			return fmt.Errorf("BIP39 mnemonic of %s = %q", v.Entropy, m)
		}
		back, r := EntropyFromMnemonic(m)
		if r != "" || !bytes.Equal(back, ent) {
			return fmt.Errorf("BIP39 entropy of %q: %s", m, r)
		}
		if hex.EncodeToString(SeedFromMnemonic(m, "TREZOR")) != v.Seed {
			return fmt.Errorf("BIP39 seed of %q", m)
		}
	}
	for _, b := range bv.Bad {
		if _, r := EntropyFromMnemonic(b); r == "" {
			return fmt.Errorf("bad mnemonic accepted: %q", b)
		}
	}
	// NFKD passphrase: value computed with Python hashlib.pbkdf2_hmac + unicodedata.normalize
	pp2, ok := NFKDKnown("café")
	if !ok || hex.EncodeToString(SeedFromMnemonic("abandon abandon abandon abandon abandon abandon abandon abandon abandon abandon abandon about", pp2)) !=
		"af8bbd2566df7b69d926f2b09dfdbd75db6c994a3399b2cc65f928d63e3fd4e61218ee0d15f8c810be4d45e66d47b43c15a5cc753976b1666912377ff7ae9818" {
		return fmt.Errorf("NFKD passphrase seed mismatch")
	}

	// PBKDF2 (RFC 6070, HMAC-SHA1) and scrypt (RFC 7914 + vectors of /repo/lib/others/scrypt/scrypt_test.go)
	if hex.EncodeToString(PBKDF2(sha1.New, []byte("password"), []byte("salt"), 4096, 20)) != "4b007901b765489abead49d926f721d065a429c1" {
		return fmt.Errorf("PBKDF2 RFC6070 vector mismatch")
	}
	if hex.EncodeToString(PBKDF2(sha1.New, []byte("passwordPASSWORDpassword"), []byte("saltSALTsaltSALTsaltSALTsaltSALTsalt"), 4096, 25)) != "3d2eec4fe41c849b80c8d83662c0e44a8b291a964cf2f07038" {
		return fmt.Errorf("PBKDF2 RFC6070 vector 5 mismatch")
	}
	for _, v := range []struct {
		pw, salt string
		n, r, p  int
		out      string
	}{
		{"password", "salt", 2, 10, 10, "482c858e229055e62f41e0ec819a5ee18bdb87251a534f75acd95ac5e50aa15f"},
		{"this is a long \000 password", "and this is a long \000 salt", 16384, 8, 1, "c3f182ee2dec846e70a6942fb529985a3a09765ef04c612923b17f18555a37076deb2b9830d69de5492651e4506ae5776d96d40f67aaee37e1777b8ad5c3111432bb3b6f7e1264401879e641ae"},
		{"p", "s", 2, 1, 1, "48b0d2a8a3272611984c50ebd630af52"},
		{"", "", 16, 1, 1, "77d6576238657b203b19ca42c18a0497f16b4844e3074ae8dfdffa3fede21442fcd0069ded0948f8326a753a0fc81f17e8d3e0fb2e0d3628cf35e20c38d18906"},
		{"password", "NaCl", 1024, 8, 16, "fdbabe1c9d3472007856e7190d01e9fe7c6ad7cbc8237830e77376634b3731622eaf30d92e22a3886ff109279d9830dac727afb94a83ee6d8360cbdfa2cc0640"},
	} {
		out, err := Scrypt([]byte(v.pw), []byte(v.salt), v.n, v.r, v.p, len(v.out)/2)
		if err != nil || hex.EncodeToString(out) != v.out {
			return fmt.Errorf("scrypt vector %q/%q N=%d mismatch", v.pw, v.salt, v.n)
		}
	}

	// gocoin-specific derivations pinned by /repo/wallet/wallet_test.go (password "qwerty12345")
	pw := []byte("qwerty12345")
	addrOf := func(key []byte, ver byte) string {
		p, _ := PubFromPriv(key)
		return p2pkh(p.SerializeCompressed(), ver)
	}
	t3 := Type3Keys(pw, 300)
	if a := addrOf(t3[299], 0); a != "1M8UbAaJ132nzgWQEhBxhydswWgHpASA2R" {
		return fmt.Errorf("type-3 key 300 address %s", a)
	}
	if a := addrOf(t3[299], 111); a != "n1eRtDfGp4U3mnz1xGALXtrCoWGzhjrDDr" {
		return fmt.Errorf("type-3 key 300 testnet address %s", a)
	}
	hdAddr := func(seed []byte, path string, idx uint32) (string, error) {
		m, _ := Master(seed, VerXprv)
		p, err := ParsePath(path)
		if err != nil {
			return "", err
		}
		par, err := m.Derive(p[:len(p)-1])
		if err != nil {
			return "", err
		}
		k, err := par.Child(p[len(p)-1] + idx)
		if err != nil {
			return "", err
		}
		return p2pkh(k.PubKey(), 0), nil
	}
	bipSeed := func(words int) []byte {
		m, _ := MnemonicFromEntropy(GocoinBip39Entropy(pw, words))
		return SeedFromMnemonic(m, "")
	}
	for _, c := range []struct {
		seed []byte
		path string
		idx  uint32
		want string
	}{
		{pw, "m/0'", 19, "1FvWLNinb9RfQ4pFanWVMZJKq3DiB817X9"},
		{pw, "m/0/0", 19, "13M4ypZeacDM2rZ62rqG8jZNg1LVRHhSGy"},
		{bipSeed(12), "m/0/0", 19, "1PP9HRai5dfWW8JByuP8jBEeu42b7AFRfR"},
		{bipSeed(15), "m/0/0", 19, "1DvsyQDNhnX1wSWBnaFfhaBCTMAiGAG6ig"},
		{bipSeed(18), "m/0/0", 19, "1BAkYsi4CzAjvgMBUe78QEVYhPJnmkNAyQ"},
		{bipSeed(21), "m/0/0", 19, "192TT86GEBkhRJUT6qD2YPgAVzKRU3f6V6"},
		{bipSeed(24), "m/0/0", 19, "1JRQ1zkTSuWkmVFDtz9A9ErD9x4BNNAYmY"},
		{bipSeed(12), "m/0'/0'/0'", 19, "14iD1SLEFL9SHWoo8WrT9Wa6Mde3b2R79j"},
		{pw, "m/0'/0/0", 19, "1HDTrCbonnRdN6dBmhEDmLstkDxTT6BEQM"},
		{pw, "m/44'/0'/0'/0", 19, "1ABhTNjkFGquAo9Wq8yj2UirN65oUSiKWR"},
		{bipSeed(12), "m/84'/0'/0'/0/0", 9, "1DCw8Gjgy3pfAh2NWQvgJEXHBjZvB4PAoD"},
	} {
		got, err := hdAddr(c.seed, c.path, c.idx)
		if err != nil || got != c.want {
			return fmt.Errorf("wallet_test vector %s #%d: %s want %s (%v)", c.path, c.idx, got, c.want, err)
		}
	}
	if !strings.HasPrefix(bip32Vectors[0].xprv, "xprv") {
		return fmt.Errorf("vector table broken")
	}
	return nil
}
