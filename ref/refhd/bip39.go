package refhd

import (
	"crypto/hmac"
	"crypto/sha256"
	"crypto/sha512"
	_ "embed"
	"encoding/binary"
	"errors"
	"hash"
	"strings"
)

// English BIP39 word list: a copy held as data (sha256 of the file is checked in Calibrate against
// the well-known digest of bips/bip-0039/english.txt).
//
//go:embed testdata/english.txt
var englishTxt string

const EnglishSHA256 = "2f5eed53a4727b4bf8880d8f3f199efc90e58503646d9ff8eff3a2ed3b24dbda"

var (
	Words   []string
	wordIdx map[string]int
)

func init() {
	Words = strings.Fields(englishTxt)
	wordIdx = make(map[string]int, len(Words))
	for i, w := range Words {
		wordIdx[w] = i
	}
}

// bit helpers on a big-endian bit string
func getBit(b []byte, i int) int { return int(b[i/8]>>(7-uint(i%8))) & 1 }
func setBit(b []byte, i int)     { b[i/8] |= 1 << (7 - uint(i%8)) }

// MnemonicFromEntropy: ENT in {128,160,192,224,256}; CS = ENT/32 first bits of SHA256(ENT);
// the ENT+CS bits are split into 11-bit word indexes.
func MnemonicFromEntropy(ent []byte) (string, error) {
	n := len(ent) * 8
	if n < 128 || n > 256 || n%32 != 0 {
		return "", errors.New("entropy length must be 128..256 bits, multiple of 32")
	}
	cs := n / 32
	bits := append(append([]byte{}, ent...), sha256Sum(ent)[0]) // only the first cs (<=8) bits are used
	words := make([]string, 0, (n+cs)/11)
	for w := 0; w < (n+cs)/11; w++ {
		idx := 0
		for j := 0; j < 11; j++ {
			idx = idx<<1 | getBit(bits, w*11+j)
		}
		words = append(words, Words[idx])
	}
	return strings.Join(words, " "), nil
}

// EntropyFromMnemonic validates a mnemonic whose words are separated by single spaces
// (the canonical form) and returns the entropy. Reasons: "word-count", "unknown-word", "checksum".
func EntropyFromMnemonic(m string) ([]byte, string) {
	ws := strings.Split(m, " ")
	if len(ws) < 12 || len(ws) > 24 || len(ws)%3 != 0 {
		return nil, "word-count"
	}
	total := len(ws) * 11
	cs := total / 33
	n := total - cs
	bits := make([]byte, (total+7)/8)
	for w, word := range ws {
		idx, ok := wordIdx[word]
		if !ok {
			return nil, "unknown-word"
		}
		for j := 0; j < 11; j++ {
			if idx>>(10-uint(j))&1 == 1 {
				setBit(bits, w*11+j)
			}
		}
	}
	ent := append([]byte{}, bits[:n/8]...)
	h := sha256Sum(ent)
	for j := 0; j < cs; j++ {
		if getBit(bits, n+j) != getBit(h, j) {
			return nil, "checksum"
		}
	}
	return ent, ""
}

func sha256Sum(b []byte) []byte { s := sha256.Sum256(b); return s[:] }

// PBKDF2 per RFC 8018 section 5.2.
func PBKDF2(h func() hash.Hash, password, salt []byte, iter, dkLen int) []byte {
	hLen := h().Size()
	var dk []byte
	for block := uint32(1); len(dk) < dkLen; block++ {
		var ib [4]byte
		binary.BigEndian.PutUint32(ib[:], block)
		m := hmac.New(h, password)
		m.Write(salt)
		m.Write(ib[:])
		u := m.Sum(nil)
		t := append([]byte{}, u...)
		for i := 1; i < iter; i++ {
			m := hmac.New(h, password)
			m.Write(u)
			u = m.Sum(nil)
			for j := 0; j < hLen; j++ {
				t[j] ^= u[j]
			}
		}
		dk = append(dk, t...)
	}
	return dk[:dkLen]
}

// SeedFromMnemonic: PBKDF2-HMAC-SHA512(password = NFKD(mnemonic), salt = "mnemonic"+NFKD(passphrase),
// 2048 rounds, 64 bytes). mnemonic and passphrase must already be NFKD-normalised by the caller
// (ASCII is always NFKD; see NFKDKnown for the few non-ASCII characters this model supports).
func SeedFromMnemonic(mnemonic, passphrase string) []byte {
	return PBKDF2(sha512.New, []byte(mnemonic), []byte("mnemonic"+passphrase), 2048, 64)
}

// nfkdTable holds the NFKD decomposition of a handful of code points (UnicodeData.txt); the model
// refuses (ok=false) any other non-ASCII rune rather than guessing.
var nfkdTable = map[rune]string{
	0x00E9: "e\u0301", // LATIN SMALL LETTER E WITH ACUTE
	0x00F1: "n\u0303", // LATIN SMALL LETTER N WITH TILDE
	0x00FC: "u\u0308", // LATIN SMALL LETTER U WITH DIAERESIS
	0x00C5: "A\u030a", // LATIN CAPITAL LETTER A WITH RING ABOVE
	0x212B: "A\u030a", // ANGSTROM SIGN
	0x00B5: "\u03bc",  // MICRO SIGN -> GREEK SMALL LETTER MU
	0xFB01: "fi",      // LATIN SMALL LIGATURE FI
	0x2460: "1",       // CIRCLED DIGIT ONE
	0x0301: "\u0301",  // combining marks and mu are already in NFKD form
	0x0303: "\u0303",
	0x0308: "\u0308",
	0x030A: "\u030a",
	0x03BC: "\u03bc",
}

// NFKDKnown normalises strings made of ASCII and the code points of nfkdTable. Canonical
// ordering is not needed for the supported set as long as at most one combining mark follows a
// base character (callers keep to that).
func NFKDKnown(s string) (string, bool) {
	var sb strings.Builder
	for _, r := range s {
		if r < 0x80 {
			sb.WriteRune(r)
			continue
		}
		d, ok := nfkdTable[r]
		if !ok {
			return "", false
		}
		sb.WriteString(d)
	}
	return sb.String(), true
}
