// Package snappyref is a reference model of the snappy *block* format, written from the format
// description (https://github.com/google/snappy/blob/main/format_description.txt). It imports
// nothing from /repo. It contains a plain decoder and a stream *builder* that emits a valid stream
// for an explicit list of elements (literal / copy with a chosen tag kind), so that decoders can be
// driven through encodings that gocoin's own encoder never produces (4-byte offsets, offsets
// beyond 64 KiB, overlapping copies, non-minimal literal length encodings).
package snappyref

import (
	"bytes"
	"errors"
	"fmt"
)

var (
	ErrHeader  = errors.New("snappyref: bad length header")
	ErrCorrupt = errors.New("snappyref: corrupt stream")
)

// MaxLen is the largest decoded length the reference accepts (the format allows 2^32-1).
const MaxLen = 1<<32 - 1

// uvarint decodes a little-endian base-128 varint (at most 5 bytes for a 32-bit value are
// meaningful, but longer encodings of small values are legal varints; more than 10 bytes is not).
func uvarint(b []byte) (uint64, int) {
	var x uint64
	var s uint
	for i, c := range b {
		if i == 10 {
			return 0, -1
		}
		if c < 0x80 {
			if i == 9 && c > 1 {
				return 0, -1
			}
			return x | uint64(c)<<s, i + 1
		}
		x |= uint64(c&0x7f) << s
		s += 7
	}
	return 0, 0
}

// DecodedLen returns the declared decoded length and the size of the header.
func DecodedLen(src []byte) (int64, int, error) {
	v, n := uvarint(src)
	if n <= 0 || v > MaxLen {
		return 0, 0, ErrHeader
	}
	return int64(v), n, nil
}

// Decode decodes one snappy block. limit bounds the decoded length the caller is willing to
// allocate (streams declaring more are reported as ErrTooBig, which is not a verdict on validity).
var ErrTooBig = errors.New("snappyref: declared length above the caller's limit")

func Decode(src []byte, limit int64) ([]byte, error) {
	dlen, s, err := DecodedLen(src)
	if err != nil {
		return nil, err
	}
	if dlen > limit {
		return nil, ErrTooBig
	}
	dst := make([]byte, 0, dlen)
	for s < len(src) {
		tag := src[s]
		var length, offset int64
		switch tag & 3 {
		case 0: // literal
			x := int64(tag >> 2)
			s++
			if x >= 60 {
				nb := int(x - 59) // 1..4 length bytes
				if s+nb > len(src) {
					return nil, ErrCorrupt
				}
				x = 0
				for i := 0; i < nb; i++ {
					x |= int64(src[s+i]) << (8 * uint(i))
				}
				s += nb
			}
			length = x + 1
			if length > dlen-int64(len(dst)) || length > int64(len(src)-s) {
				return nil, ErrCorrupt
			}
			dst = append(dst, src[s:s+int(length)]...)
			s += int(length)
			continue
		case 1:
			if s+2 > len(src) {
				return nil, ErrCorrupt
			}
			length = 4 + int64(tag>>2)&7
			offset = int64(tag>>5)<<8 | int64(src[s+1])
			s += 2
		case 2:
			if s+3 > len(src) {
				return nil, ErrCorrupt
			}
			length = 1 + int64(tag>>2)
			offset = int64(src[s+1]) | int64(src[s+2])<<8
			s += 3
		case 3:
			if s+5 > len(src) {
				return nil, ErrCorrupt
			}
			length = 1 + int64(tag>>2)
			offset = int64(src[s+1]) | int64(src[s+2])<<8 | int64(src[s+3])<<16 | int64(src[s+4])<<24
			s += 5
		}
		if offset <= 0 || offset > int64(len(dst)) || length > dlen-int64(len(dst)) {
			return nil, ErrCorrupt
		}
		// byte-by-byte: a copy may overlap its own output (offset < length)
		p := int64(len(dst)) - offset
		for i := int64(0); i < length; i++ {
			dst = append(dst, dst[p+i])
		}
	}
	if int64(len(dst)) != dlen {
		return nil, ErrCorrupt
	}
	return dst, nil
}

// Elem is one element of a stream to build.
type Elem struct {
	Lit []byte // literal (when non-nil / Copy==false)
	// copy
	Copy   bool
	Offset int
	Length int
	Kind   int // 1,2,4 = tag kind (copy with 1-, 2-, 4-byte offset); 0 = smallest that fits
	// literal length encoding: 0 = minimal, 1..4 = force that many explicit length bytes
	LitLenBytes int
}

func putUvarint(b []byte, v uint64) []byte {
	for v >= 0x80 {
		b = append(b, byte(v)|0x80)
		v >>= 7
	}
	return append(b, byte(v))
}

// Build returns (stream, plain) for the element list. It panics on an element that cannot be
// expressed (that is a bug of the caller, i.e. of the monitor).
func Build(elems []Elem) (stream, plain []byte) {
	var body []byte
	for _, e := range elems {
		if !e.Copy {
			n := len(e.Lit)
			if n == 0 {
				continue
			}
			nb := e.LitLenBytes
			if nb == 0 {
				switch {
				case n <= 60:
					nb = 0
				case n <= 1<<8:
					nb = 1
				case n <= 1<<16:
					nb = 2
				case n <= 1<<24:
					nb = 3
				default:
					nb = 4
				}
			} else if nb < 4 && n > 1<<(8*uint(nb)) {
				panic("snappyref.Build: literal too long for forced length bytes")
			}
			if nb == 0 {
				body = append(body, byte(n-1)<<2)
			} else {
				body = append(body, byte(59+nb)<<2)
				x := n - 1
				for i := 0; i < nb; i++ {
					body = append(body, byte(x))
					x >>= 8
				}
			}
			body = append(body, e.Lit...)
			plain = append(plain, e.Lit...)
			continue
		}
		if e.Offset <= 0 || e.Offset > len(plain) || e.Length <= 0 {
			panic(fmt.Sprintf("snappyref.Build: bad copy offset=%d length=%d at %d", e.Offset, e.Length, len(plain)))
		}
		rem := e.Length
		for rem > 0 {
			kind := e.Kind
			l := rem
			if kind == 0 {
				if l >= 4 && l <= 11 && e.Offset < 2048 {
					kind = 1
				} else if e.Offset < 65536 {
					kind = 2
				} else {
					kind = 4
				}
			}
			switch kind {
			case 1:
				if e.Offset >= 2048 {
					panic("snappyref.Build: copy1 offset")
				}
				if l > 11 {
					l = 11
				}
				if l < 4 { // not expressible: fall back to copy2
					body = append(body, byte(l-1)<<2|2, byte(e.Offset), byte(e.Offset>>8))
				} else {
					if rem-l > 0 && rem-l < 4 && l-(4-(rem-l)) >= 4 {
						l -= 4 - (rem - l) // leave at least 4 for the next copy1
					}
					body = append(body, byte(e.Offset>>8)<<5|byte(l-4)<<2|1, byte(e.Offset))
				}
			case 2:
				if e.Offset >= 65536 {
					panic("snappyref.Build: copy2 offset")
				}
				if l > 64 {
					l = 64
				}
				body = append(body, byte(l-1)<<2|2, byte(e.Offset), byte(e.Offset>>8))
			case 4:
				if l > 64 {
					l = 64
				}
				body = append(body, byte(l-1)<<2|3, byte(e.Offset), byte(e.Offset>>8), byte(e.Offset>>16), byte(e.Offset>>24))
			default:
				panic("snappyref.Build: kind")
			}
			p := len(plain) - e.Offset
			for i := 0; i < l; i++ {
				plain = append(plain, plain[p+i])
			}
			rem -= l
		}
	}
	stream = putUvarint(nil, uint64(len(plain)))
	stream = append(stream, body...)
	return
}

// SelfTest checks the decoder and the builder against streams derived by hand from the format
// description. A failure means the reference is broken (=> the check is BROKEN, not a verdict).
func SelfTest() error {
	type tc struct {
		in   string
		want string
		ok   bool
	}
	cases := []tc{
		{"\x00", "", true},
		{"\x03\x08\xff\xff\xff", "\xff\xff\xff", true},
		{"\x02\x08\xff\xff\xff", "", false},                  // literal longer than declared length
		{"\x03\x08\xff\xff", "", false},                      // literal longer than input
		{"\x08\x0cabcd\x01\x04", "abcdabcd", true},           // copy1 len 4 off 4
		{"\x0d\x0cabcd\x15\x04", "abcdabcdabcda", true},      // copy1 len 9 off 4 (overlapping)
		{"\x06\x0cabcd\x06\x03\x00", "abcdbc", true},         // copy2 len 2 off 3
		{"\x06\x0cabcd\x07\x03\x00\x00\x00", "abcdbc", true}, // copy4 len 2 off 3
		{"\x06\x0cabcd\x06\x00\x00", "", false},              // offset 0
		{"\x06\x0cabcd\x06\x05\x00", "", false},              // offset beyond start
		{"\x07\x0cabcd\x06\x03\x00", "", false},              // short of declared length
		{"\x05\x0cabcd\x06\x03\x00", "", false},              // copy beyond declared length
		{"\x03\xf0\x02\xff\xff\xff", "\xff\xff\xff", true},   // literal with one explicit length byte
		{"\x03\xf4\x02\x00\xff\xff\xff", "\xff\xff\xff", true},
		{"\x80", "", false}, // truncated varint
	}
	for i, c := range cases {
		got, err := Decode([]byte(c.in), 1<<20)
		if c.ok != (err == nil) || (c.ok && string(got) != c.want) {
			return fmt.Errorf("snappyref self-test %d: got %q err=%v", i, got, err)
		}
	}
	// builder/decoder agreement on every tag kind and literal length encoding
	big := make([]byte, 70000)
	for i := range big {
		big[i] = byte(i*7 + i>>8)
	}
	el := []Elem{{Lit: []byte("abcdefgh")}, {Copy: true, Offset: 8, Length: 5, Kind: 1}, {Copy: true, Offset: 3, Length: 70, Kind: 2},
		{Lit: big}, {Copy: true, Offset: 69000, Length: 130, Kind: 4}, {Copy: true, Offset: 1, Length: 300},
		{Lit: []byte("xyz"), LitLenBytes: 4}, {Lit: big[:61]}, {Lit: big[:256], LitLenBytes: 1}, {Lit: big[:257]}, {Copy: true, Offset: 2047, Length: 11, Kind: 1}}
	st, pl := Build(el)
	got, err := Decode(st, 1<<24)
	if err != nil || !bytes.Equal(got, pl) {
		return fmt.Errorf("snappyref self-test: Build/Decode disagree: %v", err)
	}
	// expected plain text computed independently of Build
	var want []byte
	want = append(want, "abcdefgh"...)
	cp := func(off, n int) {
		for i := 0; i < n; i++ {
			want = append(want, want[len(want)-off])
		}
	}
	cp(8, 5)
	cp(3, 70)
	want = append(want, big...)
	cp(69000, 130)
	cp(1, 300)
	want = append(want, "xyz"...)
	want = append(want, big[:61]...)
	want = append(want, big[:256]...)
	want = append(want, big[:257]...)
	cp(2047, 11)
	if !bytes.Equal(want, pl) {
		return fmt.Errorf("snappyref self-test: Build produced wrong plain text")
	}
	return nil
}
