module verif

go 1.18

require (
	github.com/anishathalye/porcupine v1.3.0
	github.com/piotrnar/gocoin v0.0.0
)

replace github.com/piotrnar/gocoin => /repo
