// C20 — the UTXO memory allocator never corrupts or aliases live data.
//
// Shadow-registry monitor over the real allocator: every allocation gets a unique id and is filled
// with a pattern derived from (id, size); the pattern, the slice header and pairwise disjointness of
// all live ranges are checked on free, on relocation and in full sweeps at barriers; Allocs is
// compared with the registry; DefragAllImproved is run at quiescence with a relocation callback
// that is itself checked (exactly once per moved allocation, new location holds old contents).
// Workers run in child processes (SIGSEGV / fatal errors are witnesses), in a plain build with
// checkptr and in a -race build, at several GOMAXPROCS values.
package main

import (
	"encoding/json"
	"fmt"
	"os"
	"reflect"
	"runtime"
	"sort"
	"strconv"
	"strings"
	"sync"
	"sync/atomic"
	"time"
	"unsafe"

	"github.com/piotrnar/gocoin/lib/others/memory"
	"verif/lib/vlib"
)

// size hints only (class capacities of slots.go); the oracle never depends on them
var classHints = []int{72, 80, 96, 104, 112, 120, 128, 136, 152, 160, 184, 200, 216, 240, 264, 288, 312, 368, 432, 512, 624, 744, 840, 1016, 1216, 1392, 1600, 1872, 2104, 2464, 2896, 3272, 3992, 4992, 5728, 6808, 8040, 9336, 10536, 12736, 16032, 20088, 24336, 29928, 34832, 41520, 49656, 65112, 86960, 131040}

type entry struct {
	p    *[]byte
	id   uint64
	size int
}

func pat(id uint64, i int) byte {
	x := id*0x9E3779B97F4A7C15 + uint64(i)*0xBF58476D1CE4E5B9
	x ^= x >> 29
	return byte(x ^ x>>8 ^ x>>17)
}

func fill(e *entry) {
	b := *e.p
	for i := range b {
		b[i] = pat(e.id, i)
	}
}

type stats struct {
	Ops, Mallocs, Frees, CrossFrees, Private, Barriers, LiveChecked int64
	DefragRounds, DefragMoved, DefragCallbacks                      int64
	Bursts                                                          int64
	CacheLevels                                                     map[int]int // mapped-but-unused megabytes seen after a burst had settled (= pages in the page cache)
	PagesReused                                                     int64       // 1 MiB address ranges of freed pages that were handed out again (phase C)
	SizesSeen, CapsSeen                                             map[int]int
	MaxLive                                                         int
	Fail                                                            []string
	FailClass                                                       []string
}

var (
	st     stats
	stMu   sync.Mutex
	failed atomic.Int32
)

func fail(class, format string, a ...interface{}) {
	stMu.Lock()
	if len(st.Fail) < 10 {
		st.Fail = append(st.Fail, fmt.Sprintf(format, a...))
		st.FailClass = append(st.FailClass, class)
	}
	stMu.Unlock()
	failed.Add(1)
}

func verify(e *entry, where string) bool {
	sh := (*reflect.SliceHeader)(unsafe.Pointer(e.p))
	if sh.Len != e.size {
		fail("header-len", "%s: id %d len changed %d != %d", where, e.id, sh.Len, e.size)
		return false
	}
	if sh.Cap < e.size {
		fail("header-cap", "%s: id %d cap %d < size %d", where, e.id, sh.Cap, e.size)
		return false
	}
	if sh.Data != uintptr(unsafe.Pointer(e.p))+24 {
		fail("header-data", "%s: id %d data pointer does not follow header", where, e.id)
		return false
	}
	b := *e.p
	for i := range b {
		if b[i] != pat(e.id, i) {
			fail("content", "%s: id %d size %d byte %d changed without its owner writing (got %02x want %02x)", where, e.id, e.size, i, b[i], pat(e.id, i))
			return false
		}
	}
	return true
}

func pickSize(r *vlib.Rand, big bool) int {
	switch r.Intn(10) {
	case 0:
		return r.Intn(3) // 0,1,2
	case 1, 2, 3:
		c := classHints[r.Intn(len(classHints))]
		if !big && c > 4000 {
			c = classHints[r.Intn(32)]
		}
		return c + r.Intn(3) - 1
	case 4:
		if big {
			return 131040 + r.Intn(5) - 2
		}
		return 1 + r.Intn(600)
	case 5:
		if big {
			return 131041 + r.Intn(200*1024-131041)
		}
		return 1 + r.Intn(200)
	default:
		return 1 + r.Intn(400)
	}
}

func child(args []string) {
	seed, _ := strconv.ParseUint(args[0], 10, 64)
	G, _ := strconv.Atoi(args[1])
	opsPer, _ := strconv.Atoi(args[2])
	rounds, _ := strconv.Atoi(args[3])
	defragN, _ := strconv.Atoi(args[4])
	st.SizesSeen = map[int]int{}
	st.CapsSeen = map[int]int{}
	A := memory.NewAllocator()
	var nextID atomic.Uint64
	regs := make([][]*entry, G)
	// hand-over channels: ownership transfer (channel = happens-before, monitor adds no other sync)
	chans := make([]chan *entry, G)
	for i := range chans {
		chans[i] = make(chan *entry, 64)
	}
	root := vlib.NewRand(seed)

	malloc := func(r *vlib.Rand, size int, loc *stats) *entry {
		p := A.Malloc(size)
		if p == nil {
			fail("malloc-nil", "Malloc(%d) returned nil", size)
			return nil
		}
		e := &entry{p: p, id: nextID.Add(1), size: size}
		if len(*p) != size {
			fail("len", "Malloc(%d): len %d", size, len(*p))
		}
		if cap(*p) < size {
			fail("cap", "Malloc(%d): cap %d", size, cap(*p))
		}
		loc.Mallocs++
		loc.SizesSeen[size]++
		loc.CapsSeen[cap(*p)]++
		fill(e)
		return e
	}

	barrier := func(tag string) {
		// quiescent point: merge, verify all, disjointness, Allocs
		var all []*entry
		for g := range regs {
			all = append(all, regs[g]...)
		}
		for g := range chans {
			n := len(chans[g])
			for i := 0; i < n; i++ {
				e := <-chans[g]
				regs[g] = append(regs[g], e)
				all = append(all, e)
			}
		}
		for _, e := range all {
			verify(e, tag)
		}
		sort.Slice(all, func(i, j int) bool { return uintptr(unsafe.Pointer(all[i].p)) < uintptr(unsafe.Pointer(all[j].p)) })
		for i := 1; i < len(all); i++ {
			a, b := all[i-1], all[i]
			endA := uintptr(unsafe.Pointer(a.p)) + 24 + uintptr(cap(*a.p))
			if endA > uintptr(unsafe.Pointer(b.p)) {
				fail("overlap", "%s: live allocations overlap: id %d [%x,%x) and id %d at %x", tag, a.id, uintptr(unsafe.Pointer(a.p)), endA, b.id, uintptr(unsafe.Pointer(b.p)))
			}
		}
		if got := A.Allocs.Load(); got != int64(len(all)) {
			fail("allocs-count", "%s: Allocs=%d but %d allocations are live", tag, got, len(all))
		}
		st.Barriers++
		st.LiveChecked += int64(len(all))
		if len(all) > st.MaxLive {
			st.MaxLive = len(all)
		}
	}

	merge := func(loc *stats) {
		stMu.Lock()
		st.Ops += loc.Ops
		st.Mallocs += loc.Mallocs
		st.Frees += loc.Frees
		st.CrossFrees += loc.CrossFrees
		st.Private += loc.Private
		for k, v := range loc.SizesSeen {
			st.SizesSeen[k] += v
		}
		for k, v := range loc.CapsSeen {
			st.CapsSeen[k] += v
		}
		stMu.Unlock()
	}

	for round := 0; round < rounds && failed.Load() == 0; round++ {
		// ---- phase A: concurrent malloc/free
		var wg sync.WaitGroup
		mode := round % 3 // 0 random, 1 LIFO, 2 FIFO
		for g := 0; g < G; g++ {
			wg.Add(1)
			go func(g int) {
				defer wg.Done()
				r := root.Fork(fmt.Sprintf("w%d/%d", round, g))
				loc := &stats{SizesSeen: map[int]int{}, CapsSeen: map[int]int{}}
				reg := regs[g]
				target := 200 + r.Intn(2000)
				for op := 0; op < opsPer && failed.Load() == 0; op++ {
					loc.Ops++
					// receive handed-over allocations
					select {
					case e := <-chans[g]:
						reg = append(reg, e)
					default:
					}
					doAlloc := len(reg) < target && (len(reg) == 0 || r.Intn(100) < 55)
					if op%5000 == 0 {
						target = 50 + r.Intn(3000)
					}
					if doAlloc {
						big := r.Intn(200) == 0
						size := pickSize(r, big)
						if e := malloc(r, size, loc); e != nil {
							if size+24 > A.MaxSharedSize {
								loc.Private++
							}
							reg = append(reg, e)
						}
					} else if len(reg) > 0 {
						var i int
						switch mode {
						case 0:
							i = r.Intn(len(reg))
						case 1:
							i = len(reg) - 1
						default:
							i = 0
						}
						e := reg[i]
						reg[i] = reg[len(reg)-1]
						reg = reg[:len(reg)-1]
						if G > 1 && r.Intn(4) == 0 {
							// hand over to another goroutine, which will verify+free or keep it
							select {
							case chans[(g+1+r.Intn(G-1))%G] <- e:
								loc.CrossFrees++
								continue
							default:
							}
						}
						if verify(e, "free") {
							A.Free(e.p)
							loc.Frees++
						}
					}
				}
				regs[g] = reg
				merge(loc)
			}(g)
		}
		wg.Wait()
		barrier(fmt.Sprintf("barrier r%d", round))
		if failed.Load() != 0 {
			break
		}

		// ---- phase B: build fragmentation then defragment at quiescence
		if defragN > 0 {
			r := root.Fork(fmt.Sprintf("defrag%d", round))
			loc := &stats{SizesSeen: map[int]int{}, CapsSeen: map[int]int{}}
			sizesets := [][]int{{40, 72}, {100, 104}, {300, 368}, {73, 80}}
			ss := sizesets[round%len(sizesets)]
			extra := make([]*entry, 0, defragN)
			// parallel fill to also stress class mutexes
			var mu sync.Mutex
			var wg2 sync.WaitGroup
			for g := 0; g < G; g++ {
				wg2.Add(1)
				go func(g int) {
					defer wg2.Done()
					rr := r.Fork(fmt.Sprint("f", g))
					l2 := &stats{SizesSeen: map[int]int{}, CapsSeen: map[int]int{}}
					var mine []*entry
					for i := 0; i < defragN/G; i++ {
						sz := ss[0] + rr.Intn(ss[1]-ss[0]+1)
						if e := malloc(rr, sz, l2); e != nil {
							mine = append(mine, e)
						}
					}
					mu.Lock()
					extra = append(extra, mine...)
					mu.Unlock()
					merge(l2)
				}(g)
			}
			wg2.Wait()
			// free 70% at random
			perm := r.Perm(len(extra))
			keep := extra[:0:0]
			for k, idx := range perm {
				e := extra[idx]
				if k < len(extra)*7/10 {
					if verify(e, "prefrag-free") {
						A.Free(e.p)
						loc.Frees++
					}
				} else {
					keep = append(keep, e)
				}
			}
			// churn right before the defragmentation: exhaust the bump page of the class so that
			// allocations are served from the free list, mix in frees, and end on either kind of
			// operation (defrag must cope with whatever list state the last Malloc/Free left behind)
			churn := r.Intn(30000)
			if r.Intn(3) == 0 {
				churn = r.Intn(40)
			}
			for i := 0; i < churn; i++ {
				sz := ss[0] + r.Intn(ss[1]-ss[0]+1)
				if e := malloc(r, sz, loc); e != nil {
					keep = append(keep, e)
				}
				if r.Intn(3) == 0 && len(keep) > 0 {
					j := r.Intn(len(keep))
					e := keep[j]
					keep[j] = keep[len(keep)-1]
					keep = keep[:len(keep)-1]
					if verify(e, "churn-free") {
						A.Free(e.p)
						loc.Frees++
					}
				}
			}
			if r.Bool() {
				if e := malloc(r, ss[0], loc); e != nil { // last operation before defrag: a Malloc
					keep = append(keep, e)
				}
			}
			regs[0] = append(regs[0], keep...)
			merge(loc)
			barrier(fmt.Sprintf("pre-defrag r%d", round))

			// registry by pointer
			byPtr := map[uintptr]*entry{}
			for g := range regs {
				for _, e := range regs[g] {
					byPtr[uintptr(unsafe.Pointer(e.p))] = e
				}
			}
			moved := map[uint64]int{}
			var cbMu sync.Mutex
			var callbacks int64
			cnt := A.DefragAllImproved(func(o, n *[]byte) {
				cbMu.Lock()
				defer cbMu.Unlock()
				callbacks++
				e := byPtr[uintptr(unsafe.Pointer(o))]
				if e == nil {
					fail("relocate-unknown", "relocate callback for an address that is not a live allocation: %x", uintptr(unsafe.Pointer(o)))
					return
				}
				moved[e.id]++
				if moved[e.id] > 1 {
					fail("relocate-twice", "relocate callback invoked %d times for id %d", moved[e.id], e.id)
				}
				if len(*n) != e.size {
					fail("relocate-len", "relocated id %d: new len %d != %d", e.id, len(*n), e.size)
					return
				}
				if cap(*n) < e.size {
					fail("relocate-cap", "relocated id %d: new cap %d < %d", e.id, cap(*n), e.size)
				}
				nb := *n
				for i := range nb {
					if nb[i] != pat(e.id, i) {
						fail("relocate-content", "relocated id %d: new location byte %d differs from old contents", e.id, i)
						break
					}
				}
				e.p = n
			})
			if int64(cnt) != callbacks {
				fail("relocate-count", "DefragAllImproved returned %d but callback ran %d times", cnt, callbacks)
			}
			st.DefragRounds++
			st.DefragMoved += int64(len(moved))
			st.DefragCallbacks += callbacks
			// every allocation not reported as moved must still be intact where it was (a moved but
			// unreported one lies in an unmapped page or a reused slot => SIGSEGV or content mismatch)
			barrier(fmt.Sprintf("post-defrag r%d", round))
		}
	}
	// ---- phase C: bursts of new-page demands on fresh allocators. Every first allocation of a class takes a page from
	// the page cache and, while the cache is low, starts a background refill; several refills in flight can overfill the
	// cache (capacity 5), the surplus page has to be given back to the OS - and only the surplus one. After the burst
	// has settled the cached pages are claimed by further allocations, every byte of which is written and read back: a
	// cached page that was unmapped faults, one that was handed out twice shows as overlapping live allocations.
	// The cache level is not visible from outside; mapped megabytes minus pages in use (Bytes, SharedMmaps) is.
	if failed.Load() == 0 {
		bursts := 40
		if rounds > 3 {
			bursts = 400
		}
		r := root.Fork("bursts")
		for it := 0; it < bursts && failed.Load() == 0; it++ {
			B := memory.NewAllocator()
			var mu sync.Mutex
			var live []*entry
			var wg sync.WaitGroup
			W := 4 + r.Intn(13)
			for w := 0; w < W; w++ {
				wg.Add(1)
				rw := r.Fork(fmt.Sprintf("b%d/%d", it, w))
				go func(w int) {
					defer wg.Done()
					var mine []*entry
					for _, ci := range rw.Perm(len(classHints)) {
						if ci%W != w && rw.Intn(3) != 0 {
							continue
						}
						size := classHints[ci] - 24 - rw.Intn(4)
						if size < 1 {
							size = 1
						}
						p := B.Malloc(size)
						if p == nil || len(*p) != size {
							fail("burst-malloc", "burst: Malloc(%d) returned a wrong slice", size)
							return
						}
						e := &entry{p: p, id: nextID.Add(1), size: size}
						fill(e)
						mine = append(mine, e)
					}
					mu.Lock()
					live = append(live, mine...)
					mu.Unlock()
				}(w)
			}
			wg.Wait()
			time.Sleep(time.Duration(200+r.Intn(1500)) * time.Microsecond) // refills in flight finish
			level := B.Bytes.Load()>>20 - int64(B.SharedMmaps.Load())
			stMu.Lock()
			if st.CacheLevels == nil {
				st.CacheLevels = map[int]int{}
			}
			st.CacheLevels[int(level)]++
			st.Bursts++
			stMu.Unlock()
			// claim what is cached (and more): the largest class has 8 slots per page
			for i := 0; i < 8*7; i++ {
				size := classHints[len(classHints)-1] - 24
				p := B.Malloc(size)
				if p == nil {
					fail("burst-malloc", "burst: Malloc(%d) returned nil", size)
					break
				}
				e := &entry{p: p, id: nextID.Add(1), size: size}
				fill(e)
				live = append(live, e)
			}
			sort.Slice(live, func(i, j int) bool { return uintptr(unsafe.Pointer(live[i].p)) < uintptr(unsafe.Pointer(live[j].p)) })
			for i, e := range live {
				verify(e, "burst")
				if i > 0 {
					a := live[i-1]
					if end := uintptr(unsafe.Pointer(a.p)) + 24 + uintptr(cap(*a.p)); end > uintptr(unsafe.Pointer(e.p)) {
						fail("overlap", "burst: live allocations overlap: id %d ends at %x, id %d starts at %x", a.id, end, e.id, uintptr(unsafe.Pointer(e.p)))
					}
				}
			}
			if got := B.Allocs.Load(); got != int64(len(live)) {
				fail("allocs-count", "burst: Allocs=%d but %d allocations are live", got, len(live))
			}
			for _, e := range live {
				B.Free(e.p)
			}
		}
	}
	// drain: free everything, Allocs must return to 0
	for g := range regs {
		for _, e := range regs[g] {
			if verify(e, "final-free") {
				A.Free(e.p)
				st.Frees++
			}
		}
		regs[g] = nil
	}
	if failed.Load() == 0 {
		if got := A.Allocs.Load(); got != 0 {
			fail("allocs-count", "after freeing everything Allocs=%d", got)
		}
	}
	b, _ := json.Marshal(&st)
	os.WriteFile(os.Getenv("VERIF_STATS"), b, 0o644)
	if failed.Load() != 0 {
		os.Exit(3)
	}
}

type job struct {
	bin             string
	race            bool
	procs, G, ops   int
	rounds, defragN int
	seed            uint64
}

func main() {
	if len(os.Args) > 1 && os.Args[1] == "child" {
		child(os.Args[2:])
		return
	}
	if len(os.Args) > 1 && os.Args[1] == "utxochild" {
		utxoChild(os.Args[2:])
		return
	}
	run := vlib.Start("C20", "exploration")
	bindir := os.Getenv("VERIF_BIN_DIR")
	plain := bindir + "/c20.main"
	race := bindir + "/c20.race"
	r := run.Rand("jobs")
	var jobs []job
	procsList := []int{1, 2, 4, 16}
	reps := run.N(1, 12)
	for rep := 0; rep < reps; rep++ {
		for _, p := range procsList {
			G := p
			if p == 1 {
				G = 3 // three goroutines on one P: cooperative interleavings
			}
			jobs = append(jobs, job{plain, false, p, G, run.N(60000, 400000), 3, run.N(240000, 480000), r.U64()})
			jobs = append(jobs, job{race, true, p, G, run.N(15000, 100000), 2, run.N(200000, 240000), r.U64()})
		}
	}
	tmp, _ := os.MkdirTemp("", "c20")
	defer os.RemoveAll(tmp)
	var mu sync.Mutex
	// integration part (utxoint.go): lib/chain + lib/utxo on top of the allocator, wired as client/common/config.go does
	var uwg sync.WaitGroup
	for k := 0; k < run.N(1, 6); k++ {
		uwg.Add(1)
		go func(k int) {
			defer uwg.Done()
			sf := fmt.Sprintf("%s/utxo%d.json", tmp, k)
			seed := run.Seed*100 + int64(k)
			res := vlib.RunChild(plain, []string{"utxochild", fmt.Sprint(seed), run.Tier, sf}, []string{"GOTRACEBACK=all", "TMPDIR=" + tmp}, nil, 40*time.Minute)
			mu.Lock()
			defer mu.Unlock()
			ok := run.ImportState(sf)
			if res.TimedOut {
				run.Inconclusive("utxo-on-allocator child watchdog fired (seed %d)", seed)
				return
			}
			if res.ExitCode != 0 || !ok {
				run.Violation("utxo-on-allocator/child-died", fmt.Sprintf("the node running its UTXO records on the allocator died (exit %d %s)", res.ExitCode, res.Signal),
					map[string]interface{}{"child_seed": seed, "output_tail": vlib.Tail(res.Out, 4000)})
			}
		}(k)
	}
	caps := map[int]bool{}
	vlib.Parallel(len(jobs), 4, func(i int) {
		j := jobs[i]
		sf := fmt.Sprintf("%s/stats%d.json", tmp, i)
		args := []string{"child", fmt.Sprint(j.seed), fmt.Sprint(j.G), fmt.Sprint(j.ops), fmt.Sprint(j.rounds), fmt.Sprint(j.defragN)}
		env := []string{"VERIF_STATS=" + sf, fmt.Sprintf("GOMAXPROCS=%d", j.procs), "GORACE=halt_on_error=1 exitcode=66", "GOTRACEBACK=all"}
		res := vlib.RunChild(j.bin, args, env, nil, 20*time.Minute)
		desc := map[string]interface{}{"bin": j.bin, "args": args, "GOMAXPROCS": j.procs, "race": j.race}
		if res.TimedOut {
			run.Inconclusive("child watchdog fired %v", desc)
			return
		}
		var s stats
		if b, err := os.ReadFile(sf); err == nil {
			json.Unmarshal(b, &s)
		}
		mu.Lock()
		defer mu.Unlock()
		run.Count("ops", s.Ops)
		for sz := range s.SizesSeen {
			run.Distinct("sizes", sz)
		}
		out := string(res.Out)
		if strings.Contains(out, "WARNING: DATA RACE") {
			for _, rr := range vlib.ParseRaces(out, "github.com/piotrnar/gocoin/") {
				desc["report"] = rr.Block
				run.Violation("race:"+rr.Sig, "data race in the allocator: "+rr.Sig, desc)
			}
			return
		}
		if res.ExitCode != 0 {
			if len(s.Fail) > 0 {
				for k, f := range s.Fail {
					desc["failure"] = f
					run.Violation(s.FailClass[k], f, desc)
				}
			} else {
				desc["output_tail"] = vlib.Tail(res.Out, 3000)
				cls := "crash"
				if strings.Contains(out, "checkptr") {
					cls = "checkptr"
				} else if strings.Contains(out, "SIGSEGV") || strings.Contains(out, "segmentation") {
					cls = "sigsegv"
				}
				run.Violation(cls, fmt.Sprintf("worker died (exit %d signal %s)", res.ExitCode, res.Signal), desc)
			}
			return
		}
		run.Count("children_ok", 1)
		run.Count("mallocs", s.Mallocs)
		run.Count("frees", s.Frees)
		run.Count("cross_goroutine_handover", s.CrossFrees)
		run.Count("private_mappings", s.Private)
		run.Count("barriers", s.Barriers)
		run.Count("live_allocations_swept", s.LiveChecked)
		run.Count("defrag_rounds", s.DefragRounds)
		run.Count("defrag_relocated", s.DefragMoved)
		run.Count("new_page_bursts_on_fresh_allocators", s.Bursts)
		for lv, n := range s.CacheLevels {
			run.Count(fmt.Sprintf("bursts_leaving_%d_pages_in_the_page_cache", lv), int64(n))
		}
		if j.race {
			run.Count("children_race_build", 1)
		}
		for c := range s.CapsSeen {
			run.Distinct("size_classes(cap)", c)
			caps[c] = true
		}
		run.Distinct("configs", j.race, j.procs, j.G)
		if run.WantSample() {
			run.Sample(map[string]interface{}{"child": desc, "mallocs": s.Mallocs, "frees": s.Frees, "defrag_relocated": s.DefragMoved, "max_live": s.MaxLive, "barriers": s.Barriers})
		}
	})
	if run.Get("defrag_relocated") == 0 && run.Violations() == 0 {
		run.Inconclusive("defragmentation never relocated anything")
	}
	_ = runtime.NumCPU
	run.Assume("allocator accesses to mmap'ed slot memory are invisible to the race detector; covered by pattern sweeps")
	run.Assume("defragmentation is exercised only at quiescence (documented as exclusive)")
	uwg.Wait()
	if run.Get("defrag_passes_that_moved_records") == 0 && run.Violations() == 0 {
		run.Inconclusive("utxo-on-allocator: no defragmentation pass moved a record of the live UTXO set")
	}
	os.RemoveAll(tmp) // Finish exits the process: deferred clean-up would not run
	run.Finish("each case = one Malloc(size)/Free/hand-over/defrag-relocation on the real allocator checked against a shadow registry (unique id pattern, header, disjointness, Allocs) ; distinct_nontrivial = distinct requested sizes", "ops", "sizes", 100)
}
