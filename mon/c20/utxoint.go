package main

// C20, integration part: the allocator where the client uses it. client/common/config.go wires
// utxo.Memory_Malloc / Memory_Free to the allocator and runs DefragAllImproved with UnspentDB.Relocate as the
// relocation callback after blocks have been connected. Here the real lib/chain + lib/utxo run a block history on
// top of the real allocator, large enough (> 12 MB of free slots in one size class) for the defragmenter to move
// records: after every delivery and after every defragmentation the node's complete UTXO set must equal the
// reference model's, the allocator's live count must equal the number of records the database holds, and every
// relocation callback must hand over a new slice with the old contents, exactly once per old slice.

import (
	"bytes"
	"fmt"
	"os"
	"strconv"
	"sync/atomic"
	"time"

	"github.com/piotrnar/gocoin/lib/others/memory"
	"github.com/piotrnar/gocoin/lib/utxo"

	"verif/lib/vlib"
	"verif/mon/chainsim"
	"verif/ref/refchain"
)

func utxoChild(args []string) {
	seed, _ := strconv.ParseInt(args[0], 10, 64)
	tier, stateFile := args[1], args[2]
	run := vlib.StartChild("C20", seed, tier)
	defer run.ExportState(stateFile)
	r := vlib.NewRand(uint64(seed)).Fork("C20/utxo")

	A := memory.NewAllocator()
	// what the database has asked for and not given back (its delete paths call Memory_Free from several goroutines)
	var outstanding atomic.Int64
	utxo.Memory_Malloc = func(n int) *[]byte { outstanding.Add(1); return A.Malloc(n) }
	utxo.Memory_Free = func(p *[]byte) {
		outstanding.Add(-1)
		for i := range *p { // whatever still reads a freed record gets poison, whether or not the slot is reused at once
			(*p)[i] = 0xDD
		}
		A.Free(p)
	}
	utxo.UTXO_WRITING_TIME_TARGET = 0

	dir, _ := os.MkdirTemp("", "c20utxo")
	defer os.RemoveAll(dir)
	p := chainsim.DefaultParams(uint64(seed), false)
	p.BIP34, p.BIP66, p.BIP65, p.CSV, p.Segwit, p.Taproot = 104, 105, 106, 107, 108, 109
	s := chainsim.NewSim(run, r, p, dir, chainsim.NodeOpts{CompressUTXO: (seed%100+seed/100)%2 == 1})
	s.XCheckEvery = 0 // every input of this history spends OP_TRUE with an empty scriptSig
	g := s.G
	viol := func(class, what string, w map[string]interface{}) {
		if w == nil {
			w = map[string]interface{}{}
		}
		w["child_seed"] = seed
		w["journal_tail"] = tailStr(s.Log, 10)
		run.Violation("utxo-on-allocator/"+class, what, w)
	}
	// the allocator's live count must equal what its user holds: allocations made and not freed (through
	// defragmentation passes too). Whether the database frees everything it drops is not the allocator's property
	// and is only recorded.
	liveOK := func(where string) bool {
		s.N.Ch.Unspent.AbortWriting()
		if a, n := A.Allocs.Load(), outstanding.Load(); a != n {
			viol("live-count", fmt.Sprintf("%s: the allocator counts %d live allocations, its user holds %d (allocated and not freed)", where, a, n), nil)
			return false
		}
		run.Inc("live_count_checks")
		return true
	}
	records := func() int64 {
		var n int64
		db := s.N.Ch.Unspent
		for i := range db.HashMap {
			db.MapMutex[i].RLock()
			n += int64(len(db.HashMap[i]))
			db.MapMutex[i].RUnlock()
		}
		return n
	}
	offer := func(b *refchain.Block, fam string) bool {
		rr, _, ok := s.Offer(b, fam)
		if !ok {
			return false
		}
		if rr.Stage != "connected" && rr.Stage != "stored" {
			run.Inconclusive("utxo-on-allocator: generator built a block the reference refuses (%s %s)", rr.Stage, rr.Reason)
			return false
		}
		run.Inc("deliveries_on_allocator")
		return liveOK("after " + fam)
	}
	defrag := func(where string) bool {
		s.N.Ch.Unspent.AbortWriting()
		seen := map[*[]byte]bool{}
		bad := ""
		moved := A.DefragAllImproved(func(o, n *[]byte) {
			if seen[o] && bad == "" {
				bad = "relocation callback invoked twice for the same old slice"
			}
			seen[o] = true
			if (len(*o) != len(*n) || !bytes.Equal(*o, *n)) && bad == "" {
				bad = fmt.Sprintf("relocation callback: new slice (len %d) does not hold the old contents (len %d)", len(*n), len(*o))
			}
			s.N.Ch.Unspent.Relocate(o, n)
		})
		for i := 0; i < 256; i++ {
			s.N.Ch.Unspent.DefragMap(true)
		}
		run.Count("records_relocated_by_defrag", int64(moved))
		run.Inc("defrag_passes_on_live_utxo")
		if moved > 0 {
			run.Inc("defrag_passes_that_moved_records")
		}
		if bad != "" {
			viol("relocation-callback", where+": "+bad, nil)
			return false
		}
		if moved != len(seen) {
			viol("relocation-count", fmt.Sprintf("%s: DefragAllImproved reports %d moved records, the callback saw %d", where, moved, len(seen)), nil)
			return false
		}
		if d := chainsim.DiffNodeUTXO(s.N.DumpUTXO(), s.Ref.Utxo); d != "" {
			viol("utxo-differs-after-defrag", where+": the UTXO set differs from the reference after defragmentation: "+d, nil)
			return false
		}
		return liveOK(where + " (after defrag)")
	}

	for s.Ref.Tip.Height < 112 {
		if !offer(g.RandomBlock(s.Ref.Tip, 0), "base") {
			return
		}
	}
	// phase A: groups x perGroup single-output records of one size class. The defragmenter only starts above 12 MB of
	// free slots in a class, so the records are made ~250 bytes long: "<190 bytes> OP_DROP OP_1", spendable with an empty
	// scriptSig.
	bigTrue := func() []byte {
		scr := append([]byte{0x4c, 190}, r.Bytes(190)...)
		return append(scr, 0x75, 0x51)
	}
	groups, perGroup := 17, 3700
	if tier == "thorough" {
		groups = 26
	}
	s.CompareUTXOEvery = 3
	type rec struct {
		op refchain.OutPoint
		c  refchain.Coin
	}
	var recs []rec
	for gi := 0; gi < groups; gi++ {
		view := g.View(s.Ref.Tip)
		h := s.Ref.Tip.Height + 1
		var src refchain.OutPoint
		found := false
		for _, op := range g.Spendable(view, h, true) {
			if view[op].Value > uint64(perGroup)*3000 {
				src, found = op, true
				break
			}
		}
		if !found {
			if !offer(g.RandomBlock(s.Ref.Tip, 0), "filler") {
				return
			}
			gi--
			continue
		}
		c := view[src]
		per := (c.Value - 10000) / uint64(perGroup)
		outs := make([]refchain.TxOut, perGroup)
		for i := range outs {
			outs[i] = g.OutTrue(per)
		}
		split := g.Spend([]refchain.OutPoint{src}, []refchain.Coin{c}, outs, 1, 0, nil, -1)
		if !offer(g.Build(chainsim.BlockSpec{Parent: s.Ref.Tip, Txs: []*refchain.Tx{split}, Fees: c.Value - per*uint64(perGroup)}), "splitter") {
			return
		}
		sid := split.TxID()
		txs := make([]*refchain.Tx, perGroup)
		for i := range txs {
			t := &refchain.Tx{Version: 1, In: []refchain.TxIn{{Prev: refchain.OutPoint{Hash: sid, Idx: uint32(i)}, Sequence: 0xffffffff}}, Out: []refchain.TxOut{{Value: per - 2, Script: bigTrue()}, {Value: 1, Script: []byte{0x51}}}}
			txs[i] = t
		}
		if !offer(g.Build(chainsim.BlockSpec{Parent: s.Ref.Tip, Txs: txs, Fees: uint64(perGroup)}), "records") {
			return
		}
		for _, t := range txs {
			recs = append(recs, rec{refchain.OutPoint{Hash: t.TxID(), Idx: 0}, refchain.Coin{Value: per - 2, Script: t.Out[0].Script, Height: s.Ref.Tip.Height}})
		}
	}
	run.Count("records_created", int64(len(recs)))
	if !defrag("no free slots yet") {
		return
	}
	// phase B: most of them are spent again (many inputs, one output): whole pages of free slots
	perm := r.Perm(len(recs))
	nSpend := len(recs) * 92 / 100
	spendList := perm[:nSpend]
	keep := perm[nSpend:]
	// the survivors lose their second, one-satoshi output in the first of these blocks: their records are re-serialized
	// (a new allocation, the old one freed) in the very pages the defragmenter is going to evacuate
	partial := &refchain.Tx{Version: 1}
	for _, i := range keep {
		partial.In = append(partial.In, refchain.TxIn{Prev: refchain.OutPoint{Hash: recs[i].op.Hash, Idx: 1}, Sequence: 0xffffffff})
	}
	partial.Out = []refchain.TxOut{g.OutTrue(uint64(len(keep)) - 100)}
	run.Count("survivor_records_partially_spent_before_the_defragmentation", int64(len(keep)))
	for off := 0; off < len(spendList); {
		var txs []*refchain.Tx
		var fees uint64
		weight := 0
		if partial != nil {
			txs, fees, weight = append(txs, partial), 100, 4*(len(partial.In)*41+30)
			partial = nil
		}
		for off < len(spendList) && weight < 3600000 {
			k := 400 + r.Intn(300)
			if off+k > len(spendList) {
				k = len(spendList) - off
			}
			t := &refchain.Tx{Version: 1}
			var in uint64
			for _, i := range spendList[off : off+k] {
				t.In = append(t.In, refchain.TxIn{Prev: recs[i].op, Sequence: 0xffffffff},
					refchain.TxIn{Prev: refchain.OutPoint{Hash: recs[i].op.Hash, Idx: 1}, Sequence: 0xffffffff}) // both outputs: the record goes
				in += recs[i].c.Value + 1
			}
			t.Out = []refchain.TxOut{g.OutTrue(in - 100)}
			fees += 100
			txs = append(txs, t)
			weight += 4 * (2*k*41 + 30)
			off += k
		}
		if !offer(g.Build(chainsim.BlockSpec{Parent: s.Ref.Tip, Txs: txs, Fees: fees}), "mass-spend") {
			return
		}
	}
	if !defrag("after the mass spend") {
		return
	}
	if run.Get("defrag_passes_that_moved_records") == 0 {
		run.Inconclusive("utxo-on-allocator: the defragmenter did not move any record (free slots: too few?)")
	}
	// phase C: the node goes on with relocated records: spends of survivors, a reorganisation that undoes them,
	// snapshot, clean restart (records are loaded into fresh allocations), another defragmentation
	var txs []*refchain.Tx
	for _, i := range keep[:len(keep)/2] {
		txs = append(txs, &refchain.Tx{Version: 1, In: []refchain.TxIn{{Prev: recs[i].op, Sequence: 0xffffffff}}, Out: []refchain.TxOut{g.OutTrue(recs[i].c.Value - 1), g.OutTrue(0)}})
		if len(txs) >= 6000 {
			break
		}
	}
	forkAt := s.Ref.Tip
	if !offer(g.Build(chainsim.BlockSpec{Parent: forkAt, Txs: txs, Fees: uint64(len(txs))}), "spend-relocated") {
		return
	}
	// competing branch: two empty blocks on forkAt => the block above is undone
	b1 := g.Build(chainsim.BlockSpec{Parent: forkAt})
	if !offer(b1, "reorg-1") {
		return
	}
	if n1 := s.Ref.Nodes[b1.Hash()]; n1 != nil {
		if !offer(g.Build(chainsim.BlockSpec{Parent: n1}), "reorg-2") {
			return
		}
	}
	if s.Ref.Reorgs == 0 {
		run.Inconclusive("utxo-on-allocator: the reorganisation did not happen in the reference")
	}
	if !defrag("after the reorganisation") {
		return
	}
	if s.N.Ch.Idle() {
		for k := 0; k < 5000 && s.N.Ch.Unspent.WritingInProgress.Get(); k++ {
			time.Sleep(time.Millisecond)
		}
	}
	for i := 0; i < 3; i++ {
		if !offer(g.RandomBlock(s.Ref.Tip, 3), "after-save") {
			return
		}
	}
	// phase D: multi-output records partially spent, one output per block, from several thousand records at a time: the
	// delete workers of UnspentDB.commit re-serialize shrunk records (free + allocate) while the insert workers allocate
	{
		view := g.View(s.Ref.Tip)
		h := s.Ref.Tip.Height + 1
		var src refchain.OutPoint
		found := false
		for _, op := range g.Spendable(view, h, true) {
			if view[op].Value > 40000000 {
				src, found = op, true
				break
			}
		}
		if found {
			const nrec, nout = 2500, 4
			c := view[src]
			per := (c.Value - 10000) / nrec
			outs := make([]refchain.TxOut, nrec)
			for i := range outs {
				outs[i] = g.OutTrue(per)
			}
			split := g.Spend([]refchain.OutPoint{src}, []refchain.Coin{c}, outs, 1, 0, nil, -1)
			if !offer(g.Build(chainsim.BlockSpec{Parent: s.Ref.Tip, Txs: []*refchain.Tx{split}, Fees: c.Value - per*nrec}), "splitter-2") {
				return
			}
			sid := split.TxID()
			multi := make([]*refchain.Tx, nrec)
			each := (per - 10) / nout
			for i := range multi {
				t := &refchain.Tx{Version: 1, In: []refchain.TxIn{{Prev: refchain.OutPoint{Hash: sid, Idx: uint32(i)}, Sequence: 0xffffffff}}}
				for q := 0; q < nout; q++ {
					t.Out = append(t.Out, refchain.TxOut{Value: each, Script: append([]byte{0x4c, byte(20 + q)}, append(r.Bytes(20+q), 0x75, 0x51)...)})
				}
				multi[i] = t
			}
			if !offer(g.Build(chainsim.BlockSpec{Parent: s.Ref.Tip, Txs: multi, Fees: uint64(nrec) * (per - each*nout)}), "multi-output-records") {
				return
			}
			for q := 0; q < nout-1; q++ {
				var txs []*refchain.Tx
				for i := 0; i < nrec; i += 50 {
					t := &refchain.Tx{Version: 1}
					for j := i; j < i+50 && j < nrec; j++ {
						t.In = append(t.In, refchain.TxIn{Prev: refchain.OutPoint{Hash: multi[j].TxID(), Idx: uint32(q)}, Sequence: 0xffffffff})
					}
					t.Out = []refchain.TxOut{g.OutTrue(each*uint64(len(t.In)) - 10), g.OutTrue(1)}
					txs = append(txs, t)
				}
				if !offer(g.Build(chainsim.BlockSpec{Parent: s.Ref.Tip, Txs: txs, Fees: uint64(len(txs)) * 9}), "partial-spend") {
					return
				}
				run.Count("records_partially_spent_on_allocator", nrec)
			}
		}
	}
	run.Count("allocations_the_database_holds_beyond_its_records(recorded, not judged)", outstanding.Load()-records())
	s.N.Close()
	run.Distinct("utxo_on_allocator_histories", seed)
}

func tailStr(l []string, n int) []string {
	if len(l) > n {
		return l[len(l)-n:]
	}
	return l
}
