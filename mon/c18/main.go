// C18 — bytes from untrusted peers never crash or wedge the node.
//
// Network part: the real dispatch loop OneConnection.Run() is driven over a scripted in-memory
// net.Conn carrying framed messages; after every connection the process is probed (recover banner
// of Run on the captured stdout, Run returning without a disconnect decision, TryLock on every
// mutex the handlers touch, per-script watchdog). Library part: the parsers get a mutation corpus,
// every call under recover. Everything runs in child processes; each case is journaled before it
// is executed, so that fatal errors (out of memory, unrecovered panics in goroutines) have a witness.
// Every batch starts (and ends) with a benign conversation that must work, otherwise the batch is
// inconclusive.
package main

import (
	"encoding/json"
	"fmt"
	"os"
	"path/filepath"
	"regexp"
	"sort"
	"strings"
	"sync"
	"sync/atomic"
	"time"

	"verif/lib/vlib"
)

func newSelfTestRand(phase string, n uint32) *vlib.Rand {
	return vlib.NewRand(77).Fork(fmt.Sprint("selftest/", phase, "/", n))
}

var (
	run  *vlib.Run
	tmp  string
	jmu  sync.Mutex
	self = func() string { p, _ := os.Executable(); return p }()
)

// ---------------------------------------------------------------------------------------------
// classification helpers

var reNum = regexp.MustCompile(`[0-9]+`)

func panicKind(msg string) string {
	m := strings.ToLower(msg)
	for _, k := range []string{"slice bounds out of range", "index out of range", "makeslice: len out of range", "makeslice: cap out of range",
		"interface conversion", "nil pointer dereference", "assignment to entry in nil map", "integer divide by zero",
		"makemap: size out of range", "out of memory", "concurrent map", "stack overflow", "all goroutines are asleep", "unlock of unlocked"} {
		if strings.Contains(m, k) {
			return strings.ReplaceAll(strings.TrimPrefix(k, "makeslice: "), " ", "-")
		}
	}
	m = reNum.ReplaceAllString(m, "N")
	if len(m) > 48 {
		m = m[:48]
	}
	return strings.ReplaceAll(strings.TrimSpace(m), " ", "-")
}

func shortFn(f string) string {
	f = strings.TrimPrefix(f, "github.com/piotrnar/gocoin/")
	f = strings.TrimPrefix(f, "client/network.(*OneConnection).")
	f = strings.TrimPrefix(f, "client/network.")
	f = strings.TrimPrefix(f, "client/")
	f = strings.TrimPrefix(f, "lib/")
	if i := strings.Index(f, ".func"); i > 0 { // closures
		f = f[:i]
	}
	return f
}

// where renders "handler@innermost" from gocoin frames (innermost first). The handler is the
// function called directly by Run.
func where(frames []string) string {
	if len(frames) == 0 {
		return "unknown"
	}
	inner := shortFn(frames[0])
	handler := ""
	for i, f := range frames {
		if strings.HasSuffix(f, "client/network.(*OneConnection).Run") || f == "client/network.(*OneConnection).Run" {
			if i > 0 {
				handler = shortFn(frames[i-1])
			}
			break
		}
	}
	if handler == "" {
		handler = shortFn(frames[len(frames)-1])
	}
	if handler == inner {
		return inner
	}
	return handler + "@" + inner
}

var reGoFrame = regexp.MustCompile(`^(github\.com/piotrnar/gocoin/\S+?)\(`)
var reGoFrame2 = regexp.MustCompile(`^(github\.com/piotrnar/gocoin/[^\s]+)\(`)

// crashInfo digests the log of a dead child: kind of death, message, gocoin frames of the first
// goroutine trace (the one that died), innermost first.
func crashInfo(log string) (kind, msg string, frames []string) {
	idx := -1
	for _, key := range []string{"fatal error: ", "\npanic: ", "runtime: out of memory", "SIGSEGV", "unexpected signal"} {
		if i := strings.Index(log, key); i >= 0 && (idx < 0 || i < idx) {
			idx = i
		}
	}
	if idx < 0 {
		return "died-silently", "", nil
	}
	rest := log[idx:]
	line := rest
	if i := strings.Index(strings.TrimLeft(rest, "\n"), "\n"); i > 0 {
		line = strings.TrimLeft(rest, "\n")[:i]
	}
	msg = strings.TrimSpace(line)
	switch {
	case strings.Contains(rest[:min(len(rest), 400)], "out of memory") || strings.Contains(rest[:min(len(rest), 400)], "cannot allocate"):
		kind = "fatal-oom"
	case strings.HasPrefix(strings.TrimLeft(rest, "\n"), "panic: "):
		kind = "crash-panic:" + panicKind(msg)
	default:
		kind = "fatal:" + panicKind(msg)
	}
	// first goroutine block after the message
	g := strings.Index(rest, "\ngoroutine ")
	if g < 0 {
		return
	}
	blk := rest[g+1:]
	if e := strings.Index(blk, "\n\n"); e > 0 {
		blk = blk[:e]
	}
	for _, l := range strings.Split(blk, "\n") {
		if m := reGoFrame2.FindStringSubmatch(l); m != nil {
			fn := m[1]
			// strip argument list remnants of generic / method value names
			frames = append(frames, strings.TrimPrefix(fn, "github.com/piotrnar/gocoin/"))
		}
	}
	return
}

func min(a, b int) int {
	if a < b {
		return a
	}
	return b
}

var reTagNum = regexp.MustCompile(`#[0-9]+|/[0-9]+`)

func normTag(s string) string { return reTagNum.ReplaceAllString(s, "") }

// ---------------------------------------------------------------------------------------------
// network part, parent side

type netStats struct {
	mu sync.Mutex
}

func tail(s string, n int) string {
	if len(s) > n {
		return s[len(s)-n:]
	}
	return s
}

type witness struct {
	Seed     int64           `json:"seed"`
	Script   int             `json:"script"`
	Synced   bool            `json:"node_synchronized"`
	Journal  json.RawMessage `json:"journal,omitempty"`
	Result   json.RawMessage `json:"result,omitempty"`
	Alone    string          `json:"replayed_alone,omitempty"`
	LogTail  string          `json:"log_tail,omitempty"`
	HowTo    string          `json:"replay"`
	Position string          `json:"batch_position,omitempty"`
}

func journalFor(jpath string, idx int) json.RawMessage {
	lines := readLines(jpath)
	for i := len(lines) - 1; i >= 0; i-- {
		var je struct {
			Idx int `json:"idx"`
		}
		if json.Unmarshal(lines[i], &je) == nil && je.Idx == idx {
			return lines[i]
		}
	}
	return nil
}

// judge turns the observations of one script into violations.
func judge(r *scriptResult, w *witness) {
	rb, _ := json.Marshal(r)
	w.Result = rb
	cmd := r.LastCmd
	if cmd == "" {
		cmd = "(none)"
	}
	loc := ""
	if r.Banner {
		loc = where(r.Frames)
		if len(r.Frames) == 0 {
			run.Inconclusive("script %d: recover banner without gocoin frames on the stack (harness bug?): %s", r.Idx, r.PanicMsg)
			run.Count("net.harness_suspect", 1)
		} else {
			run.Violation("panic:"+panicKind(r.PanicMsg)+"/"+loc,
				fmt.Sprintf("handler panicked (swallowed by Run's recover) on %q [%s]: %s; stack: %s", cmd, r.LastTag, r.PanicMsg, strings.Join(r.Frames, " <- ")), w)
		}
	}
	for _, l := range r.Leaks {
		at := loc
		if at == "" {
			at = "cmd=" + cmd
		}
		run.Violation("lock-leak:"+l+"/"+at,
			fmt.Sprintf("%s still locked after Run returned; last message %q [%s]", l, cmd, r.LastTag), w)
	}
	for _, c := range r.Consumer {
		_, fr, _ := panicInfoPlain(c)
		first := c
		if i := strings.Index(c, "\n"); i > 0 {
			first = c[:i]
		}
		run.Violation("txpool-panic:"+panicKind(first)+"/"+where(fr),
			"txpool.HandleNetTx (the main loop's consumer of NetTxs) panicked on a transaction received from the peer: "+first, w)
	}
	connLeaked := false
	for _, l := range r.Leaks {
		if l == "conn.Mutex" {
			connLeaked = true
		}
	}
	if !r.Banner && !connLeaked && !r.Broken && !r.Hang {
		run.Violation("early-return/cmd="+cmd,
			fmt.Sprintf("Run returned after %q without any disconnect/ban decision (connection closed=%v): the rest of the stream is never read, the writer goroutine and the 16 MB connection object stay", cmd, r.Closed), w)
	}
}

// panicInfoPlain extracts gocoin frames from a runtime.Stack dump (consumer goroutine).
func panicInfoPlain(s string) (msg string, frames []string, stack string) {
	seen := false
	for _, l := range strings.Split(s, "\n") {
		if strings.HasPrefix(l, "panic(") {
			seen = true
			frames = nil
			continue
		}
		if !seen {
			continue
		}
		if m := reGoFrame2.FindStringSubmatch(l); m != nil {
			frames = append(frames, strings.TrimPrefix(m[1], "github.com/piotrnar/gocoin/"))
		}
	}
	return "", frames, s
}

type batch struct {
	from, to int
	synced   bool
}

// children put their scratch directories under the parent's temporary directory, which the parent
// removes before it exits (vlib.Finish calls os.Exit, deferred clean-up does not run)
func childEnv() []string {
	return []string{"GOTRACEBACK=all", "GOMAXPROCS=2", "TMPDIR=" + tmp}
}

var (
	hangMu   sync.Mutex
	hangDone = map[string]bool{}
)

// A hang site confirmed once in this run (3/3 alone) is not confirmed again: later suspects at the
// same site are only counted.
func hangConfirmed(class string) bool {
	hangMu.Lock()
	defer hangMu.Unlock()
	return hangDone[class]
}
func markHangConfirmed(class string) {
	hangMu.Lock()
	hangDone[class] = true
	hangMu.Unlock()
}

// runOne re-runs a single script in a fresh child (self-test first) and reports what happened:
// "ok", "anomaly", "hang", "dead", "selftest-failed".
func runOne(seed int64, idx int, synced bool, tag string) (string, *scriptResult, string) {
	return runOneW(seed, idx, synced, tag, "")
}

// runOneW: wdog != "" overrides the per-script watchdog of the child (seconds).
func runOneW(seed int64, idx int, synced bool, tag string, wdog string) (string, *scriptResult, string) {
	j := filepath.Join(tmp, fmt.Sprintf("one-%s-%d.j", tag, idx))
	r := filepath.Join(tmp, fmt.Sprintf("one-%s-%d.r", tag, idx))
	l := filepath.Join(tmp, fmt.Sprintf("one-%s-%d.l", tag, idx))
	os.Remove(j)
	os.Remove(r)
	os.Remove(l)
	sy := "0"
	if synced {
		sy = "1"
	}
	env := childEnv()
	if wdog != "" {
		env = append(env, "C18_WDOG="+wdog)
	}
	res := vlib.RunChild(self, []string{"child", fmt.Sprint(seed), fmt.Sprint(idx), fmt.Sprint(idx + 1), j, r, l, sy}, env, nil, 4*time.Minute)
	logb, _ := os.ReadFile(l)
	var last *scriptResult
	preOK := false
	for _, ln := range readLines(r) {
		var st selfTestReport
		if json.Unmarshal(ln, &st) == nil && st.SelfTest == "pre" {
			preOK = st.OK
		}
		var sr scriptResult
		if json.Unmarshal(ln, &sr) == nil && sr.Kind != "" && sr.Idx == idx {
			x := sr
			last = &x
		}
	}
	switch {
	case res.TimedOut:
		return "watchdog", last, string(logb)
	case res.ExitCode == exitOK:
		return "ok", last, string(logb)
	case res.ExitCode == exitAnomaly:
		return "anomaly", last, string(logb)
	case res.ExitCode == exitHang:
		return "hang", last, string(logb)
	case res.ExitCode == exitSelfTest || res.ExitCode == exitBroken || !preOK:
		// (also: the child died before or during the benign conversation — never a verdict)
		return "selftest-failed", last, string(logb)
	case res.ExitCode == exitPostTest:
		return "posttest-failed", last, string(logb)
	}
	return "dead", last, string(logb)
}

var reHangFrame = regexp.MustCompile(`github\.com/piotrnar/gocoin/client/network\.\(\*OneConnection\)\.([A-Za-z0-9_]+)\(`)

// hangSite names where the goroutine executing Run is stuck: "handler@function-called-by-the-handler".
// (The innermost frame of a spinning loop differs from dump to dump, the two outermost ones do not.)
func hangSite(stacks string) string {
	for _, blk := range strings.Split(stacks, "\n\n") {
		if !strings.Contains(blk, "(*OneConnection).Run(") {
			continue
		}
		var fr []string
		for _, l := range strings.Split(blk, "\n") {
			if m := reGoFrame2.FindStringSubmatch(l); m != nil {
				fr = append(fr, strings.TrimPrefix(m[1], "github.com/piotrnar/gocoin/"))
			}
		}
		for i, f := range fr {
			if strings.HasSuffix(f, "client/network.(*OneConnection).Run") {
				switch {
				case i >= 2:
					return shortFn(fr[i-1]) + "@" + shortFn(fr[i-2])
				case i == 1:
					return shortFn(fr[0])
				}
				return "Run"
			}
		}
	}
	return "unknown"
}

// mainGoroutine lists the first frames of goroutine 1 of a dump (library child).
func mainGoroutine(dump string) string {
	i := strings.Index(dump, "goroutine 1 [")
	if i < 0 {
		return ""
	}
	blk := dump[i:]
	if e := strings.Index(blk, "\n\n"); e > 0 {
		blk = blk[:e]
	}
	var fr []string
	for _, l := range strings.Split(blk, "\n")[1:] {
		if !strings.HasPrefix(l, "\t") && strings.Contains(l, "(") {
			fr = append(fr, l[:strings.LastIndex(l, "(")])
		}
		if len(fr) >= 8 {
			break
		}
	}
	return strings.Join(fr, " <- ")
}

func runBatch(b batch, bi int) {
	seed := run.Seed
	cur := b.from
	attempt := 0
	sy := "0"
	if b.synced {
		sy = "1"
	}
	for cur < b.to && !abortRun.Load() {
		if selfTestFailed.Load() >= 5 && run.Get("net.selftests_passed") == 0 {
			// nothing works: do not wait for every batch to fail the same way
			run.Count("net.scripts_not_run(self-test failed)", int64(b.to-cur))
			return
		}
		attempt++
		j := filepath.Join(tmp, fmt.Sprintf("b%d-%d.j", bi, attempt))
		r := filepath.Join(tmp, fmt.Sprintf("b%d-%d.r", bi, attempt))
		l := filepath.Join(tmp, fmt.Sprintf("b%d-%d.l", bi, attempt))
		res := vlib.RunChild(self, []string{"child", fmt.Sprint(seed), fmt.Sprint(cur), fmt.Sprint(b.to), j, r, l, sy}, childEnv(), nil, 30*time.Minute)
		run.Count("net.children", 1)
		lines := readLines(r)
		preOK := false
		lastIdx := cur - 1
		var lastRes *scriptResult
		for _, ln := range lines {
			var st selfTestReport
			if json.Unmarshal(ln, &st) == nil && st.SelfTest != "" {
				if st.SelfTest == "pre" {
					preOK = st.OK
					if !st.OK {
						run.Inconclusive("batch %d [%d,%d): benign self-test failed, batch not judged: %v", bi, cur, b.to, st.Problems)
						selfTestFailed.Add(1)
					} else {
						run.Count("net.selftests_passed", 1)
					}
				} else if st.SelfTest == "post" {
					if st.OK {
						run.Count("net.selftests_passed", 1)
					}
				}
				if st.SelfTest == "post" && !st.OK {
					w := &witness{Seed: seed, Script: -1, Synced: b.synced, Position: fmt.Sprintf("scripts [%d,%d) ran before", cur, b.to),
						HowTo: fmt.Sprintf("VERIF_SEED=%d ./check C18 --range %d %d", seed, cur, b.to)}
					pb, _ := json.Marshal(st)
					w.Result = pb
					run.Violation("wedge/benign-conversation-fails-after-hostile-batch",
						"after the hostile scripts the benign conversation that worked before no longer works: "+strings.Join(st.Problems, "; "), w)
				}
				continue
			}
			var sr scriptResult
			if json.Unmarshal(ln, &sr) != nil || sr.Kind == "" {
				continue
			}
			x := sr
			lastRes = &x
			lastIdx = sr.Idx
			account(&x)
		}
		logb, _ := os.ReadFile(l)
		logs := string(logb)
		if !preOK && res.ExitCode != exitOK {
			run.Count("net.scripts_not_run(self-test failed)", int64(b.to-cur))
			if len(lines) == 0 {
				selfTestFailed.Add(1)
				run.Inconclusive("batch %d [%d,%d): child died before the self-test finished (exit %d %s): %s", bi, cur, b.to, res.ExitCode, res.Signal, tail(logs, 600))
			}
			run.Count("net.batches_inconclusive", 1)
			return
		}
		mkW := func(idx int) *witness {
			return &witness{Seed: seed, Script: idx, Synced: b.synced, Journal: journalFor(j, idx),
				Position: fmt.Sprintf("script %d of child started at %d", idx, cur),
				HowTo:    fmt.Sprintf("VERIF_SEED=%d ./check C18 --script %d", seed, idx)}
		}
		switch {
		case res.TimedOut:
			run.Inconclusive("batch %d: child watchdog fired at script %d", bi, lastIdx+1)
			cur = lastIdx + 2
		case res.ExitCode == exitOK || res.ExitCode == exitPostTest:
			cur = b.to
		case res.ExitCode == exitAnomaly && lastRes != nil:
			w := mkW(lastRes.Idx)
			judge(lastRes, w)
			cur = lastRes.Idx + 1
		case res.ExitCode == exitHang && lastRes != nil:
			judgeHang(lastRes, mkW(lastRes.Idx), b.synced)
			cur = lastRes.Idx + 1
		default:
			// the child died: the last journaled script without a result is the witness
			dead := lastIdx + 1
			jl := journalFor(j, dead)
			if jl == nil {
				run.Inconclusive("batch %d: child died (exit %d %s) outside a script: %s", bi, res.ExitCode, res.Signal, tail(logs, 600))
				run.Count("net.batches_inconclusive", 1)
				return
			}
			run.Count("net.scripts", 1)
			judgeDead(logs, mkW(dead), jl, b.synced, fmt.Sprintf("exit %d %s", res.ExitCode, res.Signal), true)
			cur = dead + 1
		}
	}
}

// runBlockedOnMutex says whether the goroutine executing Run is parked in a mutex Lock.
func runBlockedOnMutex(stacks string) bool {
	for _, blk := range strings.Split(stacks, "\n\n") {
		if strings.Contains(blk, "(*OneConnection).Run(") {
			return strings.Contains(blk, "sync.(*Mutex).Lock") || strings.Contains(blk, "sync.(*Mutex).lockSlow") || strings.Contains(blk, "sync.(*RWMutex)")
		}
	}
	return false
}

var selfTestFailed atomic.Int32
var hangSuspects atomic.Int32
var abortRun atomic.Bool

// judgeHang: a script that does not finish is a violation only when it reproduces 3/3 alone (with
// twice the time) at the same place; otherwise it is inconclusive. Run parked on a mutex that nobody
// releases is reported as deadlock:<locks held>/<handler>, Run spinning as hang/<handler>@<callee>.
func judgeHang(r *scriptResult, w *witness, synced bool) {
	site := hangSite(r.HangStack)
	kind, key := "hang", "hang/"+site
	if runBlockedOnMutex(r.HangStack) {
		held := append([]string{}, r.Leaks...)
		sort.Strings(held)
		kind = "deadlock:" + strings.Join(held, "+")
		key = kind // one confirmation per set of held locks, whatever handler waits for them
	}
	class := kind + "/" + site
	if n := hangSuspects.Add(1); n > 40 && run.Violations() > 0 && !abortRun.Load() {
		abortRun.Store(true)
		run.Inconclusive("more than 40 scripts ran into the watchdog and violations are already established: the remaining batches are not run")
	}
	if hangConfirmed(key) {
		run.Count("net.hang_suspects_at_a_site_already_confirmed_in_this_run", 1)
		return
	}
	var sameN atomic.Int32
	vlib.Parallel(3, 3, func(k int) {
		// a loop bounded by a 32-bit count ends within the doubled time, an unbounded one does not
		st, rr, _ := runOneW(w.Seed, r.Idx, synced, fmt.Sprintf("hang%d", k), fmt.Sprint(2*int(scriptWdog/time.Second)))
		if st == "hang" && rr != nil && hangSite(rr.HangStack) == site {
			sameN.Add(1)
		}
	})
	same := int(sameN.Load())
	w.LogTail = tail(runGoroutines(r.HangStack), 6000)
	r.HangStack = ""
	rb, _ := json.Marshal(r)
	w.Result = rb
	if same == 3 {
		markHangConfirmed(key)
		run.Violation(class, fmt.Sprintf("script does not finish within %v (and not within %v in 3/3 runs alone), Run is inside %s, mutexes held at that time: %v; last message of the script: %q", scriptWdog, 2*scriptWdog, site, r.Leaks, lastOf(r)), w)
	} else {
		run.Inconclusive("script %d exceeded the watchdog once (inside %s) but reproduced only %d/3 times", r.Idx, site, same)
	}
}

func lastOf(r *scriptResult) string {
	if len(r.Cmds) > 0 {
		return r.Cmds[len(r.Cmds)-1]
	}
	return ""
}

// judgeDead classifies the death of a child during a script.
func judgeDead(logs string, w *witness, jl json.RawMessage, synced bool, how string, replayAlone bool) {
	kind, msg, frames := crashInfo(logs)
	w.LogTail = tail(crashExcerpt(logs), 5000)
	if ex := crashExcerpt(logs); !strings.Contains(ex, "(*OneConnection).Run(") && !strings.Contains(ex, "created by github.com/piotrnar/gocoin") &&
		!strings.Contains(ex, "txpool.HandleNetTx") {
		// the dying goroutine was not executing the node's connection code: harness context
		run.Inconclusive("child died outside the node's connection code at script %d (%s: %s; %s)", w.Script, kind, msg, strings.Join(frames, " <- "))
		run.Count("net.harness_suspect", 1)
		return
	}
	if replayAlone && hangSuspects.Load() < 20 {
		st, _, _ := runOne(w.Seed, w.Script, synced, "dead")
		w.Alone = st
	}
	var je journalEntry
	json.Unmarshal(jl, &je)
	run.Count("net.child_deaths", 1)
	if n := hangSuspects.Add(1); n > 60 && run.Violations() > 0 && !abortRun.Load() {
		abortRun.Store(true)
		run.Inconclusive("more than 60 scripts killed the node or ran into the watchdog and violations are already established: the remaining batches are not run")
	}
	run.Violation(kind+"/"+where(frames),
		fmt.Sprintf("node process died (%s) while script %d was being processed: %s; stack: %s; messages: %v", how, w.Script, msg, strings.Join(frames, " <- "), je.Cmds), w)
}

// runProbes replays the fixed minimal witnesses of the recorded findings (see FINDINGS.md), each in a
// child of its own. They go through the same judgement as generated scripts; one that no longer
// reproduces is reported as a note.
func runProbes() {
	vlib.Parallel(len(probeNames), 5, func(k int) {
		idx := probeBase - k
		j := filepath.Join(tmp, fmt.Sprintf("one-probe-%d.j", idx))
		st, r, logs := runOne(run.Seed, idx, true, "probe")
		w := &witness{Seed: run.Seed, Script: idx, Synced: true, Journal: journalFor(j, idx), Position: "fixed witness " + probeNames[k],
			HowTo: fmt.Sprintf("./check C18 --script %d", idx)}
		run.Count("probe.runs", 1)
		switch st {
		case "anomaly":
			if r != nil {
				account(r)
				judge(r, w)
			}
		case "hang":
			if r != nil {
				judgeHang(r, w, true)
			}
		case "dead":
			judgeDead(logs, w, w.Journal, true, "fatal", false)
		case "ok":
			if c, was := probeFixed[k]; was {
				run.Count("probe.silent_as_expected(repaired in "+c+")", 1)
			} else {
				fmt.Printf("NOTE: fixed witness %q of a recorded finding did not trigger anything in this run\n", probeNames[k])
				run.Count("probe.not_reproduced", 1)
			}
			if r != nil {
				account(r)
			}
		default:
			run.Inconclusive("fixed witness %q: %s", probeNames[k], st)
		}
	})
}

// crashExcerpt cuts the part of the log from the fatal message to the end of the first goroutine.
func crashExcerpt(log string) string {
	for _, key := range []string{"fatal error: ", "\npanic: ", "runtime: out of memory"} {
		if i := strings.Index(log, key); i >= 0 {
			rest := log[i:]
			if g := strings.Index(rest, "\ngoroutine "); g >= 0 {
				if e := strings.Index(rest[g+1:], "\n\n"); e > 0 {
					return rest[:g+1+e]
				}
			}
			return rest[:min(len(rest), 5000)]
		}
	}
	return tail(log, 3000)
}

var reCmdTag = regexp.MustCompile(`^([^(]*)\((.*)\)$`)

// account records the observations of a script in the evidence.
func account(r *scriptResult) {
	run.Count("net.scripts", 1)
	run.Count("net.scripts."+r.Kind, 1)
	run.Count("net.messages_scripted", int64(r.Msgs))
	run.Count("net.messages_dispatched", int64(r.Consumed))
	handshaken := false
	for i := 0; i < r.Consumed && i < len(r.Cmds); i++ {
		m := reCmdTag.FindStringSubmatch(r.Cmds[i])
		if m == nil {
			continue
		}
		cmd, tag := m[1], normTag(m[2])
		run.Count("net.cmd."+cmd, 1)
		fam := tag
		if k := strings.IndexAny(fam, "=+"); k > 0 {
			fam = fam[:k]
		}
		run.Count("net.family."+fam, 1)
		run.Distinct("net.cmd_x_mutation_x_phase", cmd, tag, handshaken)
		run.Distinct("nontrivial", "net", cmd, tag, handshaken)
		if cmd == "version" {
			handshaken = true
		}
	}
	if r.Banned {
		run.Count("net.peers_banned", 1)
	}
	if r.Idx >= 0 && r.Idx%997 == 3 && run.WantSample() {
		run.Sample(map[string]interface{}{"script": r.Idx, "kind": r.Kind, "messages": r.Cmds, "dispatched": r.Consumed, "peer_banned": r.Banned,
			"misbehave_score": r.Misbehave, "node_sent": r.Sent, "micros": r.Micros})
	}
	if r.EOF {
		run.Count("net.scripts_fully_consumed", 1)
	}
	if r.Misbehave > 0 {
		run.Count("net.peers_penalised", 1)
	}
	for k, v := range r.Sent {
		run.Count("net.response."+k, int64(v))
	}
	if r.Micros > 0 {
		run.Count("net.handler_micros_total", r.Micros)
	}
}

func runNetwork(nScripts int, from int) {
	per := 125
	if run.Thorough() {
		per = 1000
	}
	var batches []batch
	for s := from; s < from+nScripts; s += per {
		e := s + per
		if e > from+nScripts {
			e = from + nScripts
		}
		// one batch in eight runs against a node that is still in initial block download
		batches = append(batches, batch{s, e, (s/per)%8 != 7})
	}
	run.Count("net.batches", int64(len(batches)))
	vlib.Parallel(len(batches), 9, func(i int) { runBatch(batches[i], i) })
}

// ---------------------------------------------------------------------------------------------

func main() {
	if len(os.Args) > 1 && os.Args[1] == "child" {
		childMain(os.Args[2:])
		return
	}
	if len(os.Args) > 1 && os.Args[1] == "libchild" {
		libChildMain(os.Args[2:])
		return
	}
	run = vlib.Start("C18", "exploration")
	var err error
	tmp, err = os.MkdirTemp("", "c18-parent-")
	if err != nil {
		fmt.Println("BROKEN: no temp dir")
		os.Exit(2)
	}
	defer os.RemoveAll(tmp)

	// replay / debugging entry points
	for i, a := range os.Args {
		switch a {
		case "--script":
			if i+1 < len(os.Args) {
				var idx int
				fmt.Sscan(os.Args[i+1], &idx)
				for _, sy := range []bool{true, false} {
					st, r, log := runOne(run.Seed, idx, sy, "replay")
					fmt.Printf("script %d (node synchronized=%v): %s\n", idx, sy, st)
					if r != nil {
						b, _ := json.MarshalIndent(r, "", " ")
						fmt.Println(string(b))
					}
					if st == "dead" {
						fmt.Println(crashExcerpt(log))
					}
				}
				os.RemoveAll(tmp)
				os.Exit(0)
			}
		case "--range":
			if i+2 < len(os.Args) {
				var a, b int
				fmt.Sscan(os.Args[i+1], &a)
				fmt.Sscan(os.Args[i+2], &b)
				runBatch(batch{a, b, true}, 0)
				run.Count("cases", run.Get("net.messages_dispatched"))
				os.RemoveAll(tmp)
				run.Finish("scripts of a range re-run in one child", "cases", "nontrivial", 1)
			}
		case "--libcase":
			if i+1 < len(os.Args) {
				var n int
				fmt.Sscan(os.Args[i+1], &n)
				replayLib(run.Seed, "", n)
				os.RemoveAll(tmp)
				os.Exit(0)
			}
		case "--replay":
			if i+1 < len(os.Args) {
				replay(os.Args[i+1])
				os.RemoveAll(tmp)
				os.Exit(0)
			}
		}
	}

	nScripts := run.N(6500, 150000)
	nLib := run.N(80000, 4000000)
	var wg sync.WaitGroup
	wg.Add(2)
	only := os.Getenv("C18_ONLY") // debugging aid: "net" or "lib"
	go func() {
		defer wg.Done()
		if only != "lib" {
			var pw sync.WaitGroup
			pw.Add(1)
			go func() { defer pw.Done(); runProbes() }()
			runNetwork(nScripts, 0)
			pw.Wait()
		}
	}()
	go func() {
		defer wg.Done()
		if only != "net" {
			runLibrary(nLib)
			runLibrary386(run.N(60000, 2000000))
		}
	}()
	wg.Wait()

	if only != "lib" && run.Violations() == 0 && !abortRun.Load() {
		// the network part must have been observed: a run in which the benign conversation fails is broken, not "held"
		lost := run.Get("net.scripts_not_run(self-test failed)")
		if run.Get("net.selftests_passed") == 0 || lost*4 > int64(nScripts) {
			fmt.Printf("BROKEN property=C18 the benign self-test failed for %d of %d scripts' batches (node or harness does not survive a benign conversation); see INCONCLUSIVE lines\n", lost, nScripts)
			os.RemoveAll(tmp)
			os.Exit(2)
		}
	}
	run.Count("cases", run.Get("net.messages_dispatched")+run.Get("lib.calls")+run.Get("lib386.calls"))
	run.Assume("the main loop is replaced by minimal consumers: NetTxs elements go through txpool.HandleNetTx, NetBlocks elements are dropped (block connection is not part of this property)")
	run.Assume(fmt.Sprintf("children run under RLIMIT_AS=%d GiB: a message that makes the node request more in one allocation counts as a crash", addrSpaceCap>>30))
	run.Assume("time-driven paths (ping every 15 s, header/block timeouts, peer dropping) are not reached: scripts finish within milliseconds")
	run.Assume("32-bit coverage is library-only (client/txpool does not compile for GOARCH=386): script walkers, sigop counters, templates, interpreter, tx/block decoders, key/signature/address parsers in the x386 worker")
	run.Assume("hang oracle: per-script watchdog, a violation only when reproduced 3/3 alone with the same handler on the stack")
	os.RemoveAll(tmp)
	run.Finish("each case = one framed message dispatched by the real OneConnection.Run() (or one library parser call) on hostile bytes, followed by panic-banner / early-return / lock / liveness probes; distinct_nontrivial = distinct (command, mutation family, before/after handshake) triples actually dispatched plus distinct (entry point, mutation family) pairs",
		"cases", "nontrivial", 150)
}

func replay(path string) {
	b, err := os.ReadFile(path)
	if err != nil {
		fmt.Println("cannot read", path)
		return
	}
	var doc struct {
		Seed    int64 `json:"seed"`
		Witness struct {
			Script int    `json:"script"`
			Synced bool   `json:"node_synchronized"`
			Lib    string `json:"lib_entry"`
			Case   int    `json:"lib_case"`
		} `json:"witness"`
	}
	json.Unmarshal(b, &doc)
	if doc.Witness.Lib != "" {
		replayLib(doc.Seed, doc.Witness.Lib, doc.Witness.Case)
		return
	}
	st, r, log := runOne(doc.Seed, doc.Witness.Script, doc.Witness.Synced, "replay")
	fmt.Printf("script %d seed %d: %s\n", doc.Witness.Script, doc.Seed, st)
	if r != nil {
		o, _ := json.MarshalIndent(r, "", " ")
		fmt.Println(string(o))
	}
	if st == "dead" {
		fmt.Println(crashExcerpt(log))
	}
}

func sortedKeys(m map[string]int) []string {
	k := make([]string, 0, len(m))
	for x := range m {
		k = append(k, x)
	}
	sort.Strings(k)
	return k
}
