package main

// Wire-format helpers of the harness (own code, independent of the code under test): varints,
// double-SHA256, transaction / block serialisation, message framing, and a payload builder that
// remembers field boundaries and the positions of count/length/index fields so that the hostile
// generators can truncate at every boundary and rewrite every count.

import (
	"crypto/sha256"
	"encoding/binary"
	"math/big"
)

func dsha(b []byte) (r [32]byte) {
	h := sha256.Sum256(b)
	return sha256.Sum256(h[:])
}

func varint(n uint64) []byte {
	switch {
	case n < 0xfd:
		return []byte{byte(n)}
	case n <= 0xffff:
		return []byte{0xfd, byte(n), byte(n >> 8)}
	case n <= 0xffffffff:
		b := make([]byte, 5)
		b[0] = 0xfe
		binary.LittleEndian.PutUint32(b[1:], uint32(n))
		return b
	}
	b := make([]byte, 9)
	b[0] = 0xff
	binary.LittleEndian.PutUint64(b[1:], n)
	return b
}

// varintW encodes n with a forced width (1,3,5,9), also non-canonically.
func varintW(n uint64, w int) []byte {
	switch w {
	case 1:
		return []byte{byte(n)}
	case 3:
		return []byte{0xfd, byte(n), byte(n >> 8)}
	case 5:
		b := make([]byte, 5)
		b[0] = 0xfe
		binary.LittleEndian.PutUint32(b[1:], uint32(n))
		return b
	}
	b := make([]byte, 9)
	b[0] = 0xff
	binary.LittleEndian.PutUint64(b[1:], n)
	return b
}

func le32(v uint32) []byte { b := make([]byte, 4); binary.LittleEndian.PutUint32(b, v); return b }
func le64(v uint64) []byte { b := make([]byte, 8); binary.LittleEndian.PutUint64(b, v); return b }

// ---------------------------------------------------------------------------------------------
// payload builder with marks

type cntField struct {
	Off, W int    // offset and encoded width of a varint field
	Val    uint64 // its honest value
	Elem   int    // size of one counted element when fixed (0 = variable)
	Kind   string // "count" | "len" | "index"
}

type pbuf struct {
	b      []byte
	bounds []int // field boundaries (offsets at which a field starts)
	cnts   []cntField
}

func (p *pbuf) mark()          { p.bounds = append(p.bounds, len(p.b)) }
func (p *pbuf) raw(d []byte)   { p.mark(); p.b = append(p.b, d...) }
func (p *pbuf) u8(v byte)      { p.raw([]byte{v}) }
func (p *pbuf) u32(v uint32)   { p.raw(le32(v)) }
func (p *pbuf) u64(v uint64)   { p.raw(le64(v)) }
func (p *pbuf) cont(d []byte)  { p.b = append(p.b, d...) } // no boundary
func (p *pbuf) count(n uint64, elem int, kind string) {
	p.mark()
	v := varint(n)
	p.cnts = append(p.cnts, cntField{Off: len(p.b), W: len(v), Val: n, Elem: elem, Kind: kind})
	p.b = append(p.b, v...)
}
func (p *pbuf) bytesL(d []byte) { // length-prefixed bytes
	p.count(uint64(len(d)), 1, "len")
	p.raw(d)
}

// sub appends another builder's content, shifting its marks.
func (p *pbuf) sub(q *pbuf) {
	base := len(p.b)
	for _, x := range q.bounds {
		p.bounds = append(p.bounds, base+x)
	}
	for _, c := range q.cnts {
		c.Off += base
		p.cnts = append(p.cnts, c)
	}
	p.b = append(p.b, q.b...)
}

// ---------------------------------------------------------------------------------------------
// transactions and blocks

type hTxIn struct {
	Prev     [32]byte
	Vout     uint32
	Script   []byte
	Sequence uint32
	Witness  [][]byte
}
type hTxOut struct {
	Value  uint64
	Script []byte
}
type hTx struct {
	Version  uint32
	In       []hTxIn
	Out      []hTxOut
	LockTime uint32
}

func (t *hTx) hasWitness() bool {
	for i := range t.In {
		if len(t.In[i].Witness) > 0 {
			return true
		}
	}
	return false
}

// build serialises the transaction (with witness data when present and withWit) into a pbuf.
func (t *hTx) build(withWit bool) *pbuf {
	p := &pbuf{}
	p.u32(t.Version)
	wit := withWit && t.hasWitness()
	if wit {
		p.raw([]byte{0, 1})
	}
	p.count(uint64(len(t.In)), 0, "count")
	for i := range t.In {
		p.raw(t.In[i].Prev[:])
		p.u32(t.In[i].Vout)
		p.bytesL(t.In[i].Script)
		p.u32(t.In[i].Sequence)
	}
	p.count(uint64(len(t.Out)), 0, "count")
	for i := range t.Out {
		p.u64(t.Out[i].Value)
		p.bytesL(t.Out[i].Script)
	}
	if wit {
		for i := range t.In {
			p.count(uint64(len(t.In[i].Witness)), 0, "count")
			for _, w := range t.In[i].Witness {
				p.bytesL(w)
			}
		}
	}
	p.u32(t.LockTime)
	return p
}

func (t *hTx) ser() []byte      { return t.build(true).b }
func (t *hTx) serNoWit() []byte { return t.build(false).b }
func (t *hTx) txid() [32]byte   { return dsha(t.serNoWit()) }
func (t *hTx) wtxid() [32]byte  { return dsha(t.ser()) }

func merkleRoot(ids [][32]byte) [32]byte {
	if len(ids) == 0 {
		return [32]byte{}
	}
	lvl := append([][32]byte{}, ids...)
	for len(lvl) > 1 {
		if len(lvl)%2 == 1 {
			lvl = append(lvl, lvl[len(lvl)-1])
		}
		nx := make([][32]byte, 0, len(lvl)/2)
		for i := 0; i < len(lvl); i += 2 {
			nx = append(nx, dsha(append(append([]byte{}, lvl[i][:]...), lvl[i+1][:]...)))
		}
		lvl = nx
	}
	return lvl[0]
}

type hHeader struct {
	Version uint32
	Prev    [32]byte
	Merkle  [32]byte
	Time    uint32
	Bits    uint32
	Nonce   uint32
}

func (h *hHeader) ser() []byte {
	b := make([]byte, 0, 80)
	b = append(b, le32(h.Version)...)
	b = append(b, h.Prev[:]...)
	b = append(b, h.Merkle[:]...)
	b = append(b, le32(h.Time)...)
	b = append(b, le32(h.Bits)...)
	b = append(b, le32(h.Nonce)...)
	return b
}

func compactToBig(bits uint32) *big.Int {
	exp := bits >> 24
	mant := int64(bits & 0x007fffff)
	r := big.NewInt(mant)
	if exp <= 3 {
		r.Rsh(r, uint(8*(3-exp)))
	} else {
		r.Lsh(r, uint(8*(exp-3)))
	}
	return r
}

func hashLEToBig(h [32]byte) *big.Int {
	var be [32]byte
	for i := 0; i < 32; i++ {
		be[i] = h[31-i]
	}
	return new(big.Int).SetBytes(be[:])
}

// mine grinds the nonce until the header hash is <= target(bits) (wantValid) or > target (!wantValid).
func (h *hHeader) mine(wantValid bool) [32]byte {
	tgt := compactToBig(h.Bits)
	for {
		hs := dsha(h.ser())
		ok := hashLEToBig(hs).Cmp(tgt) <= 0
		if ok == wantValid {
			return hs
		}
		h.Nonce++
	}
}

type hBlock struct {
	Hdr  hHeader
	Txs  []*hTx
	Hash [32]byte
}

func (b *hBlock) build() *pbuf {
	p := &pbuf{}
	p.raw(b.Hdr.ser())
	p.count(uint64(len(b.Txs)), 0, "count")
	for _, t := range b.Txs {
		p.mark()
		p.sub(t.build(true))
	}
	return p
}
func (b *hBlock) ser() []byte { return b.build().b }

// scriptNum encodes a height the way BIP34 wants it at the start of the coinbase script.
func scriptHeight(n uint32) []byte {
	if n == 0 {
		return []byte{0}
	}
	if n <= 16 {
		return []byte{byte(0x50 + n)}
	}
	var d []byte
	v := n
	for v > 0 {
		d = append(d, byte(v))
		v >>= 8
	}
	if d[len(d)-1]&0x80 != 0 {
		d = append(d, 0)
	}
	return append([]byte{byte(len(d))}, d...)
}

func coinbaseTx(height uint32, value uint64, extra uint32, outScript []byte) *hTx {
	scr := append(scriptHeight(height), le32(extra)...)
	scr = append(scr, 0x00, 0x01) // keep it >= 2 bytes and unique
	return &hTx{Version: 1, LockTime: 0,
		In:  []hTxIn{{Prev: [32]byte{}, Vout: 0xffffffff, Script: scr, Sequence: 0xffffffff}},
		Out: []hTxOut{{Value: value, Script: outScript}}}
}

// ---------------------------------------------------------------------------------------------
// message framing

func frame(magic [4]byte, cmd string, payload []byte) []byte {
	b := make([]byte, 24, 24+len(payload))
	copy(b[0:4], magic[:])
	copy(b[4:16], cmd)
	binary.LittleEndian.PutUint32(b[16:20], uint32(len(payload)))
	cs := dsha(payload)
	copy(b[20:24], cs[:4])
	return append(b, payload...)
}

// ---------------------------------------------------------------------------------------------
// misc

func sha256sum(b []byte) [32]byte { return sha256.Sum256(b) }
func leU64(b []byte) uint64       { return binary.LittleEndian.Uint64(b) }

func rotl(x uint64, b uint) uint64 { return (x << b) | (x >> (64 - b)) }

// siphash24 is SipHash-2-4 (BIP152 short ids), written from the reference description.
func siphash24(k0, k1 uint64, m []byte) uint64 {
	v0 := k0 ^ 0x736f6d6570736575
	v1 := k1 ^ 0x646f72616e646f6d
	v2 := k0 ^ 0x6c7967656e657261
	v3 := k1 ^ 0x7465646279746573
	round := func() {
		v0 += v1
		v1 = rotl(v1, 13)
		v1 ^= v0
		v0 = rotl(v0, 32)
		v2 += v3
		v3 = rotl(v3, 16)
		v3 ^= v2
		v0 += v3
		v3 = rotl(v3, 21)
		v3 ^= v0
		v2 += v1
		v1 = rotl(v1, 17)
		v1 ^= v2
		v2 = rotl(v2, 32)
	}
	n := len(m)
	i := 0
	for ; i+8 <= n; i += 8 {
		w := binary.LittleEndian.Uint64(m[i:])
		v3 ^= w
		round()
		round()
		v0 ^= w
	}
	var last uint64 = uint64(n) << 56
	for j := 0; i+j < n; j++ {
		last |= uint64(m[i+j]) << (8 * uint(j))
	}
	v3 ^= last
	round()
	round()
	v0 ^= last
	v2 ^= 0xff
	round()
	round()
	round()
	round()
	return v0 ^ v1 ^ v2 ^ v3
}
