package main

// Workload: well-formed payloads built from real structures of the harness chain, and the hostile
// families derived from them (truncation at every field boundary, count/length/index fields that
// disagree with the rest, size classes around the per-command limits, random bytes, mutations),
// assembled into connection scripts (before / after the handshake, repeated version, flows).

import (
	"fmt"

	"github.com/piotrnar/gocoin/lib/btc"
	"github.com/piotrnar/gocoin/lib/secp256k1"
	"verif/lib/vlib"
)

const (
	invTx       = 1
	invBlock    = 2
	invCmpct    = 4
	invWitTx    = 0x40000001
	invWitBlock = 0x40000002
)

// per-command payload limits of core.go (maxmsgsize); own copy, used only to pick sizes
var cmdLimit = map[string]int{
	"inv": 9 + 50000*36, "tx": 500e3, "addr": 9 + 1000*30, "block": 4e6,
	"getblocks": 4 + 9 + 101*32 + 32, "getdata": 9 + 50000*36, "headers": 9 + 2000*89,
	"getheaders": 4 + 9 + 101*32 + 32, "cmpctblock": 1e6, "getblocktxn": 1e6, "blocktxn": 4e6,
	"notfound": 9 + 50000*36, "getmp": 9 + 8*1e6,
}

func limitOf(cmd string) int {
	if l, ok := cmdLimit[cmd]; ok {
		return l
	}
	return 1024
}

var allCmds = []string{"version", "addr", "inv", "getdata", "getblocks", "getheaders", "headers", "tx", "block",
	"cmpctblock", "getblocktxn", "blocktxn", "ping", "pong", "feefilter", "sendcmpct", "getmp", "xauth",
	"verack", "getaddr", "notfound", "sendheaders", "authack", "getmpdone", "filterload", "mempool", "wtfisthis", ""}

type gen struct {
	h *harness
	r *vlib.Rand
}

func (g *gen) knownHash() [32]byte {
	return g.h.blocks[g.r.Intn(len(g.h.blocks))].Hash
}
func (g *gen) someHash() [32]byte {
	if len(g.h.staleFork) > 0 && g.r.Intn(9) == 0 {
		return g.h.staleFork[g.r.Intn(len(g.h.staleFork))]
	}
	switch g.r.Intn(6) {
	case 0:
		var x [32]byte
		g.r.Fill(x[:])
		return x
	case 1:
		return [32]byte{}
	case 2:
		return g.h.genesisID
	case 3:
		if len(g.h.mempool) > 0 {
			return g.h.mempool[g.r.Intn(len(g.h.mempool))].txid()
		}
	case 4:
		return g.h.tip()
	}
	return g.knownHash()
}

// ---- well-formed payloads ------------------------------------------------------------------

type verOpts struct {
	version  uint32
	services uint64
	agent    string
	nonce    []byte
	short    int // 0 full; 1 no relay byte; 2 no height; 3 stop after nonce (80 bytes)
}

func (g *gen) version(o verOpts) *pbuf {
	p := &pbuf{}
	p.u32(o.version)
	p.u64(o.services)
	p.u64(uint64(g.h.tipTime) + 86400)
	p.raw(append(le64(o.services), []byte{0, 0, 0, 0, 0, 0, 0, 0, 0, 0, 0xff, 0xff, 51, 2, 3, 4, 0x20, 0x8d}...)) // addr_recv
	p.raw(append(le64(o.services), []byte{0, 0, 0, 0, 0, 0, 0, 0, 0, 0, 0xff, 0xff, 0, 0, 0, 0, 0, 0}...))         // addr_from
	p.raw(o.nonce)
	if o.short == 3 {
		return p
	}
	p.bytesL([]byte(o.agent))
	if o.short == 2 {
		return p
	}
	p.u32(chainLen)
	if o.short == 1 {
		return p
	}
	p.u8(1)
	return p
}

func (g *gen) goodVersion() *pbuf {
	nonce := g.r.Bytes(8)
	nonce[0] |= 1
	agents := []string{"/Satoshi:27.0.0/", "/Gocoin:1.10.5/", "/btcd:0.24/", "", "/Satoshi:26.0.0/Knots:20231115/"}
	vers := []uint32{70016, 70015, 70014, 70013, 70012, 70001, 60001, 60000, 209}
	svcs := []uint64{0x409, 0x9, 0xd, 0x408, 0x40d, 0x1409}
	return g.version(verOpts{version: vers[g.r.Intn(len(vers))], services: svcs[g.r.Intn(len(svcs))],
		agent: agents[g.r.Intn(len(agents))], nonce: nonce, short: []int{0, 0, 0, 0, 1, 2, 3}[g.r.Intn(7)]})
}

func (g *gen) plainVersion() *pbuf {
	nonce := g.r.Bytes(8)
	nonce[0] |= 1
	return g.version(verOpts{version: 70016, services: 0x409, agent: "/Satoshi:27.0.0/", nonce: nonce})
}

func (g *gen) addr(n int) *pbuf {
	p := &pbuf{}
	p.count(uint64(n), 30, "count")
	for i := 0; i < n; i++ {
		ts := uint32(0)
		switch g.r.Intn(5) {
		case 0:
			ts = 0
		case 1:
			ts = 0xffffffff
		case 2:
			ts = nowU32() + 7200
		default:
			ts = nowU32() - uint32(g.r.Intn(100000))
		}
		ip := []byte{byte(50 + g.r.Intn(40)), byte(g.r.Intn(256)), byte(g.r.Intn(256)), byte(1 + g.r.Intn(250))}
		if g.r.Intn(8) == 0 {
			ip = [][]byte{{10, 0, 0, 1}, {127, 0, 0, 1}, {0, 0, 0, 0}, {192, 168, 1, 1}}[g.r.Intn(4)]
		}
		if g.r.Intn(3) == 0 {
			// a handful of hosts that are advertised again and again (within one message and across messages and
			// connections, with older, equal and newer time stamps): the second advertisement finds a record in the database
			ip = []byte{61, 7, 7, byte(1 + g.r.Intn(6))}
			if g.r.Intn(3) == 0 {
				ts = nowU32() - 5000 // the very same entry again
			}
		}

		p.u32(ts)
		p.u64([]uint64{0x409, 1, 0, 0xffffffffffffffff, 8}[g.r.Intn(5)])
		p.raw([]byte{0, 0, 0, 0, 0, 0, 0, 0, 0, 0, 0xff, 0xff})
		p.raw(ip)
		p.raw([]byte{0x20, 0x8d})
	}
	return p
}

type invEnt struct {
	typ  uint32
	hash [32]byte
}

func (g *gen) invList(es []invEnt) *pbuf {
	p := &pbuf{}
	p.count(uint64(len(es)), 36, "count")
	for _, e := range es {
		p.u32(e.typ)
		p.raw(e.hash[:])
	}
	return p
}

func (g *gen) randInv(n int) []invEnt {
	types := []uint32{invTx, invBlock, invCmpct, invWitTx, invWitBlock, 0, 3, 5, 0x40000004, 0xffffffff}
	es := make([]invEnt, n)
	for i := range es {
		es[i] = invEnt{types[g.r.Intn(len(types))], g.someHash()}
		if g.r.Intn(3) == 0 {
			es[i].typ = types[g.r.Intn(5)]
		}
	}
	return es
}

func (g *gen) locator(hashes [][32]byte, stop *[32]byte) *pbuf {
	p := &pbuf{}
	p.u32(70016)
	p.count(uint64(len(hashes)), 32, "count")
	for _, x := range hashes {
		p.raw(x[:])
	}
	if stop != nil {
		p.raw(stop[:])
	}
	return p
}

func (g *gen) randLocator() *pbuf {
	n := []int{0, 1, 1, 2, 5, 30, 100, 101, 102}[g.r.Intn(9)]
	hs := make([][32]byte, n)
	for i := range hs {
		hs[i] = g.someHash()
	}
	var stop *[32]byte
	if g.r.Intn(5) != 0 {
		s := g.someHash()
		if g.r.Intn(2) == 0 {
			s = [32]byte{}
		}
		stop = &s
	}
	return g.locator(hs, stop)
}

func (g *gen) headers(hs []hHeader) *pbuf {
	p := &pbuf{}
	p.count(uint64(len(hs)), 81, "count")
	for i := range hs {
		p.raw(hs[i].ser())
		p.count(0, 0, "count")
	}
	return p
}

// freshHeaders mines n connected headers; the first one on top of a known block.
func (g *gen) freshHeaders(n int, valid bool) []hHeader {
	var hs []hHeader
	base := len(g.h.blocks) - 1
	if g.r.Intn(3) == 0 {
		base = g.r.Intn(len(g.h.blocks))
	}
	prev := g.h.blocks[base].Hash
	t := g.h.blocks[base].Hdr.Time
	for i := 0; i < n; i++ {
		g.h.nextExtra++
		var mr [32]byte
		g.r.Fill(mr[:])
		t += 1 + uint32(g.r.Intn(600))
		hd := hHeader{Version: 0x20000000, Prev: prev, Merkle: mr, Time: t, Bits: regBits}
		if !valid {
			switch g.r.Intn(6) {
			case 0:
				hd.Version = 0
			case 1:
				hd.Bits = 0x1d00ffff
			case 2:
				hd.Time = g.h.blocks[0].Hdr.Time
			case 3:
				hd.Time = nowU32() + 3*3600
			case 4:
				hd.Version = 1
			case 5:
				g.r.Fill(hd.Prev[:])
			}
		}
		if hd.Bits != regBits {
			prev = hd.mine(false) // a real-network target cannot be met here: leave the hash above it
		} else {
			prev = hd.mine(valid || g.r.Intn(2) == 0)
		}
		hs = append(hs, hd)
	}
	return hs
}

func (g *gen) tx(t *hTx) *pbuf { return t.build(true) }

// hostileTx builds a syntactically valid transaction with odd content.
// fillerTx: a well-formed transaction of ~200 bytes that spends nothing the node knows
func (g *gen) fillerTx() *hTx {
	t := &hTx{Version: 2, In: []hTxIn{{Prev: g.someHash(), Vout: uint32(g.r.Intn(4)), Sequence: 0xfffffffe, Script: g.randScript(20 + g.r.Intn(30))}}}
	for i := 2 + g.r.Intn(2); i > 0; i-- {
		t.Out = append(t.Out, hTxOut{Value: uint64(1000 + g.r.Intn(100000)), Script: g.randScript(25 + g.r.Intn(40))})
	}
	return t
}

func (g *gen) oddTx() *hTx {
	t := &hTx{Version: []uint32{1, 2, 0, 0xffffffff}[g.r.Intn(4)], LockTime: []uint32{0, 1, 499999999, 500000000, 0xffffffff}[g.r.Intn(5)]}
	nin := []int{0, 1, 1, 1, 2, 3, 20}[g.r.Intn(7)]
	for i := 0; i < nin; i++ {
		in := hTxIn{Prev: g.someHash(), Vout: []uint32{0, 1, 0xffffffff, 7}[g.r.Intn(4)], Sequence: []uint32{0, 0xffffffff, 0xfffffffe, 1 << 22}[g.r.Intn(4)]}
		in.Script = g.randScript(g.r.Intn(40))
		if g.r.Intn(3) == 0 {
			nw := g.r.Intn(4)
			for k := 0; k < nw; k++ {
				in.Witness = append(in.Witness, g.randScript(g.r.Intn(70)))
			}
		}
		// make some of them spend real outputs with a junk script
		if g.r.Intn(3) == 0 {
			in.Prev = g.h.blocks[g.r.Intn(20)].Txs[0].txid()
			in.Vout = 0
		}
		t.In = append(t.In, in)
	}
	nout := []int{0, 1, 1, 2, 3, 30}[g.r.Intn(6)]
	for i := 0; i < nout; i++ {
		t.Out = append(t.Out, hTxOut{Value: []uint64{0, 1, 546, 50e8, 21e14, 21e14 + 1, 1 << 63, ^uint64(0)}[g.r.Intn(8)], Script: g.randScript(g.r.Intn(50))})
	}
	return t
}

var scriptOps = []byte{0x00, 0x51, 0x52, 0x60, 0x61, 0x63, 0x64, 0x67, 0x68, 0x69, 0x6a, 0x6b, 0x6c, 0x6d, 0x6e, 0x73, 0x74, 0x75, 0x76, 0x77,
	0x78, 0x79, 0x7a, 0x7b, 0x7c, 0x7d, 0x7e, 0x7f, 0x80, 0x82, 0x87, 0x88, 0x8b, 0x93, 0x94, 0x9a, 0x9c, 0xa0, 0xa5, 0xa6, 0xa7, 0xa8, 0xa9,
	0xaa, 0xab, 0xac, 0xad, 0xae, 0xaf, 0xb0, 0xb1, 0xb2, 0xb3, 0xba, 0xbb, 0xfe, 0xff, 0x4c, 0x4d, 0x4e, 0x4f, 0x50}

func (g *gen) randScript(n int) []byte {
	var s []byte
	for len(s) < n {
		switch g.r.Intn(6) {
		case 0: // small push
			k := 1 + g.r.Intn(40)
			s = append(s, byte(k))
			s = append(s, g.r.Bytes(k)...)
		case 1: // pushdata with a lying length
			s = append(s, []byte{0x4c, 0x4d, 0x4e}[g.r.Intn(3)])
			s = append(s, g.r.Bytes(1+g.r.Intn(4))...)
		case 2:
			s = append(s, g.r.Bytes(1)...)
		default:
			s = append(s, scriptOps[g.r.Intn(len(scriptOps))])
		}
	}
	if len(s) > n {
		s = s[:n]
	}
	return s
}

func (g *gen) block(b *hBlock) *pbuf { return b.build() }

// cmpct builds a BIP152 cmpctblock: header, nonce, short ids, prefilled (differentially indexed).
type prefilled struct {
	diff uint64
	tx   []byte
}

func (g *gen) cmpct(hdr []byte, nonce uint64, sids [][]byte, pre []prefilled) *pbuf {
	p := &pbuf{}
	p.raw(hdr)
	p.u64(nonce)
	p.count(uint64(len(sids)), 6, "count")
	for _, s := range sids {
		p.raw(s)
	}
	p.count(uint64(len(pre)), 0, "count")
	for _, x := range pre {
		p.count(x.diff, 0, "index")
		p.raw(x.tx)
	}
	return p
}

func (g *gen) getblocktxn(hash [32]byte, diffs []uint64) *pbuf {
	p := &pbuf{}
	p.raw(hash[:])
	p.count(uint64(len(diffs)), 1, "count")
	for _, d := range diffs {
		p.count(d, 0, "index")
	}
	return p
}

func (g *gen) blocktxn(hash [32]byte, txs [][]byte) *pbuf {
	p := &pbuf{}
	p.raw(hash[:])
	p.count(uint64(len(txs)), 0, "count")
	for _, t := range txs {
		p.raw(t)
	}
	return p
}

func (g *gen) getmp(n int) *pbuf {
	p := &pbuf{}
	p.count(uint64(n), 8, "count")
	for i := 0; i < n; i++ {
		x := g.someHash()
		p.raw(x[:8])
	}
	return p
}

// xauth builds the authorisation message of a friend: pubkey, signature over the node's nonce,
// last block hash and height.
func (g *gen) xauth(valid bool) *pbuf {
	p := &pbuf{}
	pub := g.h.friendPub
	key := g.h.friendKey
	if !valid && g.r.Intn(2) == 0 {
		key = g.r.Bytes(32)
		key[0] = 1
		pub = btc.PublicFromPrivate(key, true)
	}
	p.raw(pub)
	msg := make([]byte, 32)
	if g.h.nodeNonce != nil {
		copy(msg, g.h.nodeNonce)
	}
	if !valid && g.r.Intn(2) == 0 {
		msg[3] ^= 1
	}
	r, s, err := btc.EcdsaSign(key, msg)
	if err != nil {
		p.raw(g.r.Bytes(70))
	} else {
		var sig secp256k1.Signature
		sig.R.Set(r)
		sig.S.Set(s)
		p.raw(sig.Bytes())
	}
	tip := g.h.tip()
	p.raw(tip[:])
	p.u32(chainLen)
	return p
}

func (g *gen) sendcmpct(hb byte, ver uint64) *pbuf {
	p := &pbuf{}
	p.u8(hb)
	p.u64(ver)
	return p
}

// ---- mutation families -------------------------------------------------------------------

func (g *gen) specialCount(c cntField) uint64 {
	v := c.Val
	vals := []uint64{0, 1, v - 1, v + 1, v + 2, 0xfc, 0xfd, 0xfe, 0xff, 0xffff, 0x10000, 0x10001, 0xffffffff, 1 << 32,
		1 << 31, 1 << 24, 1 << 40, 1 << 47, v + 1<<62, v + 1<<59, v + 1<<61, v + 1<<63, 1 << 63, 1<<63 - 1, ^uint64(0), ^uint64(0) - 1,
		50000, 50001, 2000, 2001, 1000, 1001, 101, 102, 65535}
	return vals[g.r.Intn(len(vals))]
}

// mutCount rewrites one count/length/index field.
func (g *gen) mutCount(p *pbuf) ([]byte, string) {
	if len(p.cnts) == 0 {
		return g.mutBytes(p)
	}
	ci := g.r.Intn(len(p.cnts))
	if g.r.Intn(2) == 0 { // bias to the outermost counts
		ci = g.r.Intn(1 + len(p.cnts)/4)
	}
	c := p.cnts[ci]
	nv := g.specialCount(c)
	var enc []byte
	if g.r.Intn(4) == 0 {
		enc = varintW(nv, []int{1, 3, 5, 9}[g.r.Intn(4)]) // possibly non-canonical / truncating width
	} else {
		enc = varint(nv)
	}
	out := append(append(append([]byte{}, p.b[:c.Off]...), enc...), p.b[c.Off+c.W:]...)
	return out, fmt.Sprintf("%s#%d=%s", c.Kind, ci, describeCount(nv, c.Val))
}

func describeCount(nv, v uint64) string {
	switch {
	case nv == 0:
		return "0"
	case nv == v-1:
		return "exact-1"
	case nv == v+1:
		return "exact+1"
	case nv == v+2:
		return "exact+2"
	case nv == v+1<<62 || nv == v+1<<59 || nv == v+1<<61 || nv == v+1<<63:
		return "exact+2^k(mul-overflow)"
	case nv >= 1<<63:
		return ">=2^63"
	case nv >= 1<<40:
		return "2^40..2^63"
	case nv >= 1<<31:
		return "2^31..2^40"
	case nv >= 1<<24:
		return "2^24..2^31"
	case nv >= 0xffff:
		return "2^16..2^24"
	}
	return "small"
}

// mutCountCut: a count/length field set to a huge value and the data ending inside (or right at
// the start of) the first element that follows it.
func (g *gen) mutCountCut(p *pbuf) ([]byte, string) {
	if len(p.cnts) == 0 {
		return g.mutTrunc(p)
	}
	ci := g.r.Intn(len(p.cnts))
	if g.r.Intn(2) == 0 {
		ci = 0
	}
	c := p.cnts[ci]
	nv := []uint64{1 << 40, 1 << 62, 1<<63 - 1, 1 << 24, 1 << 48}[g.r.Intn(5)]
	enc := varint(nv)
	end := c.Off + c.W
	// cut at one of the next few field boundaries, or a few bytes into the element
	var cands []int
	for _, b := range p.bounds {
		if b >= end && len(cands) < 6 {
			cands = append(cands, b)
		}
	}
	cut := end + g.r.Intn(48)
	if len(cands) > 0 && g.r.Intn(4) != 0 {
		cut = cands[g.r.Intn(len(cands))] + []int{0, 0, 0, 1, 2, -1}[g.r.Intn(6)]
	}
	if cut > len(p.b) {
		cut = len(p.b)
	}
	if cut < end {
		cut = end
	}
	out := append(append(append([]byte{}, p.b[:c.Off]...), enc...), p.b[end:cut]...)
	return out, fmt.Sprintf("%s#%d=huge+cut", c.Kind, ci)
}

func (g *gen) mutTrunc(p *pbuf) ([]byte, string) {
	if len(p.b) == 0 {
		return nil, "trunc@0"
	}
	var cut int
	if len(p.bounds) > 0 && g.r.Intn(5) != 0 {
		bi := g.r.Intn(len(p.bounds))
		if g.r.Intn(2) == 0 && len(p.bounds) > 12 { // the first boundaries carry the fixed fields
			bi = g.r.Intn(12)
		}
		cut = p.bounds[bi] + []int{0, 0, 1, -1}[g.r.Intn(4)]
	} else {
		cut = g.r.Intn(len(p.b))
	}
	if cut < 0 {
		cut = 0
	}
	if cut > len(p.b) {
		cut = len(p.b)
	}
	return append([]byte{}, p.b[:cut]...), "trunc"
}

func (g *gen) mutBytes(p *pbuf) ([]byte, string) {
	out := append([]byte{}, p.b...)
	switch g.r.Intn(4) {
	case 0: // flip a few bytes
		for k := 0; k < 1+g.r.Intn(4) && len(out) > 0; k++ {
			out[g.r.Intn(len(out))] ^= byte(1 << g.r.Intn(8))
		}
		return out, "bitflip"
	case 1: // set a byte at a boundary to a var-int marker
		if len(p.bounds) > 0 {
			o := p.bounds[g.r.Intn(len(p.bounds))]
			if o < len(out) {
				out[o] = []byte{0xfd, 0xfe, 0xff, 0x00, 0x80}[g.r.Intn(5)]
			}
		}
		return out, "marker"
	case 2: // trailing junk
		return append(out, g.r.Bytes(1+g.r.Intn(64))...), "trailing"
	default: // overwrite a run
		if len(out) > 0 {
			o := g.r.Intn(len(out))
			n := 1 + g.r.Intn(16)
			for i := o; i < o+n && i < len(out); i++ {
				out[i] = byte(g.r.U64())
			}
		}
		return out, "overwrite"
	}
}

// sizeClass returns random bytes whose length sits on an interesting boundary for cmd.
func (g *gen) sizeClass(cmd string) ([]byte, string) {
	lim := limitOf(cmd)
	sizes := []int{0, 1, 2, 3, 4, 5, 8, 9, 32, 33, 34, 36, 37, 38, 79, 80, 81, 82, 83, 84, 85, 86, 87, 88, 89, 90, 91, 99, 100, 101}
	var n int
	tag := "rand"
	switch g.r.Intn(12) {
	case 0:
		n, tag = lim-1, "limit-1"
	case 1:
		n, tag = lim, "limit"
	case 2:
		n = g.r.Intn(4096)
	default:
		n = sizes[g.r.Intn(len(sizes))]
	}
	b := g.r.Bytes(n)
	if n > 4096 { // keep big ones cheap to hash: mostly zeros with a random head
		for i := 512; i < len(b); i++ {
			b[i] = 0
		}
	}
	if n > 0 {
		switch g.r.Intn(4) {
		case 0:
			b[0] = []byte{0, 1, 0xfd, 0xfe, 0xff}[g.r.Intn(5)]
		}
	}
	return b, fmt.Sprintf("%s/%d", tag, n)
}

// ---- per-command hostile message -------------------------------------------------------------

// wellFormed returns a structurally valid payload for cmd built from real objects.
func (g *gen) wellFormed(cmd string) *pbuf {
	h := g.h
	switch cmd {
	case "version":
		return g.goodVersion()
	case "addr":
		return g.addr([]int{0, 1, 2, 10, 999, 1000, 1001}[g.r.Intn(7)])
	case "inv", "getdata", "notfound":
		n := []int{0, 1, 1, 2, 3, 10, 500, 501}[g.r.Intn(8)]
		es := g.randInv(n)
		if cmd == "getdata" && g.r.Intn(2) == 0 {
			for i := range es {
				es[i] = invEnt{[]uint32{invWitBlock, invCmpct, invWitTx}[g.r.Intn(3)], g.knownHash()}
				if es[i].typ == invWitTx && len(h.mempool) > 0 {
					es[i].hash = h.mempool[g.r.Intn(len(h.mempool))].txid()
				}
			}
		}
		return g.invList(es)
	case "getblocks", "getheaders":
		return g.randLocator()
	case "headers":
		n := []int{0, 1, 1, 2, 3, 8}[g.r.Intn(6)]
		return g.headers(g.freshHeaders(n, g.r.Intn(4) != 0))
	case "tx":
		switch g.r.Intn(4) {
		case 0:
			return g.tx(h.spendTx(uint64(1000+g.r.Intn(5000)), 0))
		case 1:
			if len(h.mempool) > 0 {
				return g.tx(h.mempool[g.r.Intn(len(h.mempool))])
			}
			fallthrough
		case 2:
			return g.tx(h.blocks[g.r.Intn(len(h.blocks))].Txs[0])
		}
		return g.tx(g.oddTx())
	case "block":
		switch g.r.Intn(5) {
		case 0:
			return g.block(h.blocks[g.r.Intn(len(h.blocks))]) // already known
		case 1:
			var txs []*hTx
			for i := g.r.Intn(3); i > 0; i-- {
				txs = append(txs, g.oddTx())
			}
			return g.block(h.newTipBlock(txs)) // valid header, odd content
		case 2: // valid header, merkle root not matching
			b := h.newTipBlock(nil)
			b2 := *b
			b2.Txs = []*hTx{coinbaseTx(chainLen+1, subsidy, 0xdead0000+uint32(g.r.Intn(1000)), opTrue)}
			return g.block(&b2)
		}
		return g.block(h.newTipBlock(nil))
	case "cmpctblock":
		return g.wellFormedCmpct()
	case "getblocktxn":
		n := 1 + g.r.Intn(3)
		d := make([]uint64, n)
		for i := range d {
			d[i] = uint64(g.r.Intn(3))
		}
		if g.r.Intn(2) == 0 {
			d = []uint64{0}
		}
		return g.getblocktxn(g.someHash(), d)
	case "blocktxn":
		var txs [][]byte
		for i := g.r.Intn(3); i > 0; i-- {
			txs = append(txs, g.oddTx().ser())
		}
		return g.blocktxn(g.someHash(), txs)
	case "ping", "pong":
		p := &pbuf{}
		p.raw(g.r.Bytes([]int{8, 8, 8, 0, 4, 16}[g.r.Intn(6)]))
		return p
	case "feefilter":
		p := &pbuf{}
		p.u64([]uint64{0, 1000, 1 << 63, ^uint64(0)}[g.r.Intn(4)])
		return p
	case "sendcmpct":
		return g.sendcmpct(byte(g.r.Intn(3)), []uint64{1, 2, 3, 0, ^uint64(0)}[g.r.Intn(5)])
	case "getmp":
		return g.getmp([]int{0, 1, 5, 200}[g.r.Intn(4)])
	case "xauth":
		return g.xauth(g.r.Intn(2) == 0)
	case "authack", "getmpdone":
		p := &pbuf{}
		p.raw(g.r.Bytes(g.r.Intn(3)))
		return p
	}
	p := &pbuf{}
	p.raw(g.r.Bytes(g.r.Intn(64)))
	return p
}

func shortID(k0, k1 uint64, id [32]byte) []byte {
	v := siphash24(k0, k1, id[:]) & 0xffffffffffff
	return []byte{byte(v), byte(v >> 8), byte(v >> 16), byte(v >> 24), byte(v >> 32), byte(v >> 40)}
}

// wellFormedCmpct: a fresh valid block announced compactly; transactions either prefilled,
// in the node's mempool, or unknown to the node (=> getblocktxn round).
func (g *gen) wellFormedCmpct() *pbuf {
	h := g.h
	var txs []*hTx
	nmem := 0
	if len(h.mempool) > 0 {
		nmem = g.r.Intn(3)
		if nmem > len(h.mempool) {
			nmem = len(h.mempool)
		}
	}
	txs = append(txs, h.mempool[:nmem]...)
	nunk := g.r.Intn(3)
	for i := 0; i < nunk; i++ {
		txs = append(txs, g.oddTx())
	}
	b := h.newTipBlock(txs)
	if g.r.Intn(6) == 0 { // header of a block the node already has
		b = h.blocks[g.r.Intn(len(h.blocks))]
	}
	nonce := g.r.U64()
	hdr := b.Hdr.ser()
	k := sha256sum(append(append([]byte{}, hdr...), le64(nonce)...))
	k0 := leU64(k[0:8])
	k1 := leU64(k[8:16])
	var sids [][]byte
	pre := []prefilled{{0, b.Txs[0].ser()}}
	last := 0
	for i := 1; i < len(b.Txs); i++ {
		if g.r.Intn(4) == 0 {
			pre = append(pre, prefilled{uint64(i - last - 1), b.Txs[i].ser()})
			last = i
		} else {
			sids = append(sids, shortID(k0, k1, b.Txs[i].wtxid()))
		}
	}
	return g.cmpct(hdr, nonce, sids, pre)
}

// embedded: a well-formed envelope (tx / block / cmpctblock / blocktxn) around a transaction
// serialisation that went through the mutation families (the parsers TxSize / NewTx see it).
func (g *gen) embedded(cmd string) ([]byte, string, bool) {
	h := g.h
	var honest *hTx
	switch g.r.Intn(3) {
	case 0:
		honest = g.oddTx()
	case 1:
		honest = h.blocks[g.r.Intn(len(h.blocks))].Txs[0]
	default:
		honest = h.spendTx(1500, 0)
	}
	bad, tag := g.mutate(honest.build(true), "tx")
	tag = "embedded-tx/" + tag
	switch cmd {
	case "tx":
		return bad, tag, true
	case "block":
		b := h.newTipBlock(nil)
		p := &pbuf{}
		p.raw(b.Hdr.ser())
		n := 1 + g.r.Intn(2)
		p.count(uint64(n), 0, "count")
		if n == 2 {
			p.raw(b.Txs[0].ser())
		}
		p.raw(bad)
		return p.b, tag, true
	case "cmpctblock":
		b := h.newTipBlock(nil)
		if g.r.Intn(2) == 0 {
			return g.cmpct(b.Hdr.ser(), g.r.U64(), nil, []prefilled{{0, bad}}).b, tag, true
		}
		sid := g.r.Bytes(6)
		return g.cmpct(b.Hdr.ser(), g.r.U64(), [][]byte{sid}, []prefilled{{0, b.Txs[0].ser()}, {0, bad}}).b, tag, true
	case "blocktxn":
		return g.blocktxn(g.someHash(), [][]byte{bad}).b, tag, true
	}
	return nil, "", false
}

// hostile returns one hostile (or, rarely, well-formed) payload for cmd plus its family tag.
func (g *gen) hostile(cmd string) ([]byte, string) {
	if g.r.Intn(5) == 0 {
		if b, tag, ok := g.embedded(cmd); ok {
			return b, tag
		}
	}
	switch x := g.r.Intn(21); {
	case x < 3:
		return g.wellFormed(cmd).b, "wellformed"
	case x < 8:
		return g.mutTrunc(g.wellFormed(cmd))
	case x < 14:
		return g.mutCount(g.wellFormed(cmd))
	case x < 17:
		return g.mutBytes(g.wellFormed(cmd))
	case x < 18:
		return g.mutCountCut(g.wellFormed(cmd))
	default:
		return g.sizeClass(cmd)
	}
}

func (g *gen) hostileMsg(cmd string) wireMsg {
	pl, tag := g.hostile(cmd)
	m := wireMsg{Cmd: cmd, Pl: pl, Tag: tag}
	lim := limitOf(cmd)
	if len(pl) > lim { // the node refuses to read such a payload: announce it, send only a little
		m.Pl = pl[:lim]
		m.LenLie = 1
		m.Tag += "+limit+1"
	}
	switch g.r.Intn(60) {
	case 0:
		m.BadSum = true
		m.Tag += "+badsum"
	case 1:
		m.BadMag = true
		m.Tag += "+badmagic"
	case 2:
		m.Encrypt = true
		m.Tag += "+encbit"
	case 3:
		m.LenLie = lim + 1 - len(m.Pl)
		m.Tag += "+announce-limit+1"
	}
	return m
}

// ---- scripts --------------------------------------------------------------------------------

var hostileCmdWeights = []struct {
	cmd string
	w   int
}{{"addr", 5}, {"inv", 6}, {"getdata", 6}, {"getblocks", 4}, {"getheaders", 5}, {"headers", 8}, {"tx", 10}, {"block", 10},
	{"cmpctblock", 12}, {"getblocktxn", 6}, {"blocktxn", 6}, {"ping", 2}, {"pong", 2}, {"feefilter", 2}, {"sendcmpct", 3},
	{"getmp", 3}, {"xauth", 3}, {"version", 2}, {"notfound", 1}, {"getaddr", 1}, {"verack", 1}, {"sendheaders", 1},
	{"authack", 1}, {"getmpdone", 1}, {"filterload", 1}, {"mempool", 1}, {"wtfisthis", 2}, {"", 1}}

func (g *gen) pickCmd() string {
	tot := 0
	for _, x := range hostileCmdWeights {
		tot += x.w
	}
	k := g.r.Intn(tot)
	for _, x := range hostileCmdWeights {
		if k < x.w {
			return x.cmd
		}
		k -= x.w
	}
	return "inv"
}

// makeScript derives script number idx of the run deterministically from the run seed.
func makeScript(h *harness, seed uint64, idx int) *script {
	if idx <= probeBase {
		return makeProbe(h, probeBase-idx)
	}
	r := vlib.NewRand(seed).Fork(fmt.Sprint("script/", idx))
	g := &gen{h: h, r: r}
	s := &script{Idx: idx}
	s.Chunked = r.Intn(3) == 0
	if r.Intn(6) == 0 {
		s.Timeouts = 2 + r.Intn(5)
	}
	s.Outgoing = r.Intn(8) == 0
	s.Friend = r.Intn(12) == 0
	s.Stall = r.Intn(25) == 0
	add := func(m wireMsg) { s.Msgs = append(s.Msgs, m) }
	ver := func() { add(wireMsg{Cmd: "version", Pl: g.plainVersion().b, Tag: "handshake"}) }
	hostileN := func(n int) {
		for i := 0; i < n; i++ {
			add(g.hostileMsg(g.pickCmd()))
		}
	}
	switch k := r.Intn(100); {
	case k < 18: // hostile version as the first message (the only way to reach HandleVersion)
		s.Kind = "version-first"
		add(g.hostileMsg("version"))
		hostileN(1 + r.Intn(4))
	case k < 26: // anything before the handshake
		s.Kind = "pre-handshake"
		hostileN(1 + r.Intn(6))
		ver()
		hostileN(1 + r.Intn(4))
	case k < 34: // well-formed version variants, then hostile traffic, then version again
		s.Kind = "version-variants"
		add(wireMsg{Cmd: "version", Pl: g.goodVersion().b, Tag: "wellformed-variant"})
		hostileN(2 + r.Intn(6))
		add(g.hostileMsg("version"))
		hostileN(1 + r.Intn(3))
	case k < 42:
		s.Kind = "cmpct-flow"
		ver()
		add(wireMsg{Cmd: "sendcmpct", Pl: g.sendcmpct(byte(r.Intn(2)), 2).b, Tag: "wellformed"})
		g.cmpctFlow(s)
	case k < 48:
		s.Kind = "block-flow"
		ver()
		g.blockFlow(s)
	case k < 53:
		s.Kind = "friend-flow"
		ver()
		add(wireMsg{Cmd: "xauth", Pl: g.xauth(true).b, Tag: "wellformed-valid"})
		for i := 1 + r.Intn(4); i > 0; i-- {
			if r.Intn(2) == 0 {
				add(g.hostileMsg("getmp"))
			} else {
				add(g.hostileMsg(g.pickCmd()))
			}
		}
	case k < 58:
		s.Kind = "single-cmd-burst"
		ver()
		cmd := g.pickCmd()
		for i := 3 + r.Intn(10); i > 0; i-- {
			add(g.hostileMsg(cmd))
		}
	default:
		s.Kind = "mixed"
		ver()
		hostileN(4 + r.Intn(14))
	}
	return s
}

// cmpctFlow: cmpctblock (well-formed or hostile) followed by blocktxn answers that are complete,
// incomplete, for another block, or mutated.
func (g *gen) cmpctFlow(s *script) {
	h := g.h
	r := g.r
	add := func(m wireMsg) { s.Msgs = append(s.Msgs, m) }
	for round := 1 + r.Intn(3); round > 0; round-- {
		var unk []*hTx
		for i := 1 + r.Intn(3); i > 0; i-- {
			unk = append(unk, g.oddTx())
		}
		b := h.newTipBlock(unk)
		nonce := r.U64()
		hdr := b.Hdr.ser()
		k := sha256sum(append(append([]byte{}, hdr...), le64(nonce)...))
		k0, k1 := leU64(k[0:8]), leU64(k[8:16])
		var sids [][]byte
		for i := 1; i < len(b.Txs); i++ {
			sids = append(sids, shortID(k0, k1, b.Txs[i].wtxid()))
		}
		p := g.cmpct(hdr, nonce, sids, []prefilled{{0, b.Txs[0].ser()}})
		switch r.Intn(6) {
		case 5: // a second prefilled transaction whose differential index is individually in range
			d := uint64(len(sids)) + uint64(r.Intn(2))
			p = g.cmpct(hdr, nonce, sids, []prefilled{{0, b.Txs[0].ser()}, {d, g.oddTx().ser()}})
			add(wireMsg{Cmd: "cmpctblock", Pl: p.b, Tag: "flow/prefilled-index-sum"})
		case 0:
			pl, tag := g.mutCount(p)
			add(wireMsg{Cmd: "cmpctblock", Pl: pl, Tag: "flow/" + tag})
		case 1:
			pl, tag := g.mutTrunc(p)
			add(wireMsg{Cmd: "cmpctblock", Pl: pl, Tag: "flow/" + tag})
		default:
			add(wireMsg{Cmd: "cmpctblock", Pl: p.b, Tag: "flow/wellformed"})
		}
		var txs [][]byte
		for i := 1; i < len(b.Txs); i++ {
			txs = append(txs, b.Txs[i].ser())
		}
		switch r.Intn(7) {
		case 0: // complete answer
			add(wireMsg{Cmd: "blocktxn", Pl: g.blocktxn(b.Hash, txs).b, Tag: "flow/complete"})
		case 1: // one transaction missing
			add(wireMsg{Cmd: "blocktxn", Pl: g.blocktxn(b.Hash, txs[:len(txs)-1]).b, Tag: "flow/missing-last"})
		case 2: // none
			add(wireMsg{Cmd: "blocktxn", Pl: g.blocktxn(b.Hash, nil).b, Tag: "flow/empty"})
		case 3: // a transaction that was not asked for
			add(wireMsg{Cmd: "blocktxn", Pl: g.blocktxn(b.Hash, append([][]byte{g.oddTx().ser()}, txs...)).b, Tag: "flow/foreign-tx"})
		case 4:
			pl, tag := g.mutCount(g.blocktxn(b.Hash, txs))
			add(wireMsg{Cmd: "blocktxn", Pl: pl, Tag: "flow/" + tag})
		case 5:
			pl, tag := g.mutTrunc(g.blocktxn(b.Hash, txs))
			add(wireMsg{Cmd: "blocktxn", Pl: pl, Tag: "flow/" + tag})
		case 6: // twice
			add(wireMsg{Cmd: "blocktxn", Pl: g.blocktxn(b.Hash, txs).b, Tag: "flow/complete"})
			add(wireMsg{Cmd: "blocktxn", Pl: g.blocktxn(b.Hash, txs).b, Tag: "flow/repeated"})
		}
		if r.Intn(3) == 0 { // the awaited answer carries a mutated transaction
			bad, tag := g.mutate(g.oddTx().build(true), "tx")
			s.Msgs[len(s.Msgs)-1] = wireMsg{Cmd: "blocktxn", Pl: g.blocktxn(b.Hash, [][]byte{bad}).b, Tag: "flow/embedded-tx/" + tag}
		}
		if r.Intn(3) == 0 {
			add(g.hostileMsg([]string{"getblocktxn", "getdata", "cmpctblock", "block"}[r.Intn(4)]))
		}
	}
}

// blockFlow: headers announcing fresh blocks, then the blocks themselves, honest or hostile
// (valid proof of work on the header, hostile body).
func (g *gen) blockFlow(s *script) {
	h := g.h
	r := g.r
	add := func(m wireMsg) { s.Msgs = append(s.Msgs, m) }
	for round := 1 + r.Intn(3); round > 0; round-- {
		var txs []*hTx
		if r.Intn(2) == 0 {
			txs = append(txs, h.spendTx(2000, 0))
		}
		// every third body is bulky (40-150 well-formed filler transactions, 8-30 kB): the block parser hands the
		// transactions to hashing goroutines in packs of 4 kB, so what happens when byte 20,000 is malformed differs
		// from what happens when byte 200 is
		bulky := r.Intn(3) == 0
		if bulky {
			for i := 40 + r.Intn(111); i > 0; i-- {
				txs = append(txs, g.fillerTx())
			}
		}
		b := h.newTipBlock(txs)
		if r.Intn(2) == 0 || bulky {
			add(wireMsg{Cmd: "headers", Pl: g.headers([]hHeader{b.Hdr}).b, Tag: "flow/announce"})
		}
		if r.Intn(3) == 0 {
			add(wireMsg{Cmd: "inv", Pl: g.invList([]invEnt{{invBlock, b.Hash}}).b, Tag: "flow/announce"})
		}
		p := g.block(b)
		k := r.Intn(6)
		if bulky {
			if k >= 4 && r.Intn(4) != 0 {
				k = r.Intn(4) // mostly mutated: a bulky body spends nothing real and would only get the peer dropped
			}
			if k == 2 {
				// cut somewhere in the second half, so that whole packs parse before the parser runs out of bytes
				cut := len(p.b)/2 + r.Intn(len(p.b)/2)
				add(wireMsg{Cmd: "block", Pl: append([]byte(nil), p.b[:cut]...), Tag: "flow/bulky-truncated-in-second-half"})
				continue
			}
		}
		bp := ""
		if bulky {
			bp = "bulky-"
		}
		switch k {
		case 0, 1:
			pl, tag := g.mutCount(p)
			add(wireMsg{Cmd: "block", Pl: pl, Tag: "flow/" + bp + tag})
		case 2:
			pl, tag := g.mutTrunc(p)
			add(wireMsg{Cmd: "block", Pl: pl, Tag: "flow/" + bp + tag})
		case 3:
			pl, tag := g.mutBytes(p)
			add(wireMsg{Cmd: "block", Pl: pl, Tag: "flow/" + bp + tag})
		default:
			add(wireMsg{Cmd: "block", Pl: p.b, Tag: "flow/" + bp + "wellformed"})
		}
		if r.Intn(2) == 0 {
			add(g.hostileMsg([]string{"getdata", "getheaders", "getblocks", "block", "headers"}[r.Intn(5)]))
		}
	}
}
