package main

import (
	"encoding/binary"
	"encoding/json"
	"fmt"
	"os"
	"path/filepath"
	"regexp"
	"strings"
	"time"

	"verif/lib/vlib"
)

// runLibrary386 runs the 32-bit library worker (mon/c18/x386, built by ./check as bin/c18.x386): the client does not
// build for 32-bit targets, the library does, and there lengths taken from untrusted bytes can wrap a 32-bit int.
// Classes carry "@386".
func runLibrary386(total int) {
	bin := filepath.Join(os.Getenv("VERIF_BIN_DIR"), "c18.x386")
	if _, err := os.Stat(bin); err != nil {
		run.Inconclusive("the 32-bit library worker %s is missing", bin)
		return
	}
	per := 10000
	type seg struct{ from, to int }
	var segs []seg
	for s := 0; s < total; s += per {
		e := s + per
		if e > total {
			e = total
		}
		segs = append(segs, seg{s, e})
	}
	num := regexp.MustCompile(`-?[0-9]+`)
	vlib.Parallel(len(segs), 4, func(i int) {
		cur := segs[i].from
		for attempt := 0; cur < segs[i].to && attempt < 50; attempt++ {
			jf := filepath.Join(tmp, fmt.Sprintf("x386-%d-%d.j", i, attempt))
			rf := filepath.Join(tmp, fmt.Sprintf("x386-%d-%d.json", i, attempt))
			res := vlib.RunChild(bin, []string{fmt.Sprint(run.Seed), fmt.Sprint(cur), fmt.Sprint(segs[i].to), jf, rf}, []string{"GOTRACEBACK=single", "TMPDIR=" + tmp}, nil, 20*time.Minute)
			var r struct {
				Calls    map[string]int64
				Families map[string]int64
				Done     int
				Fail     []struct {
					Case                      int
					Entry, Family, Msg, Input string
					Frames                    []string
				}
			}
			if b, err := os.ReadFile(rf); err == nil && json.Unmarshal(b, &r) == nil && res.ExitCode == 0 && !res.TimedOut {
				if r.Families["NOT-A-32-BIT-BUILD"] > 0 {
					run.Inconclusive("bin/c18.x386 is not a 32-bit build")
					return
				}
				for e, n := range r.Calls {
					run.Count("lib386.calls", n)
					run.Count("lib386.calls/"+e, n)
				}
				for f, n := range r.Families {
					run.Count("lib386.family/"+f, n)
					for e := range r.Calls {
						run.Distinct("nontrivial", "386", e, f)
					}
				}
				run.Count("lib.calls", 0)
				run.Count("lib386.cases", int64(r.Done))
				for _, f := range r.Fail {
					inner := "?"
					if len(f.Frames) > 0 {
						inner = shortFn(f.Frames[0])
					}
					msg := num.ReplaceAllString(f.Msg, "N")
					run.Violation("lib-panic@386:"+panicKind(f.Msg)+"/"+f.Entry+"@"+inner,
						fmt.Sprintf("[GOARCH=386] %s panicked on hostile input (family %s): %s", f.Entry, f.Family, msg),
						map[string]interface{}{"goarch": "386", "case": f.Case, "entry": f.Entry, "family": f.Family, "msg": f.Msg, "stack": strings.Join(f.Frames, " <- "), "input_hex": f.Input,
							"replay_cmd": fmt.Sprintf("bin/c18.x386 %d %d %d /dev/null /dev/stdout", run.Seed, f.Case, f.Case+1)})
				}
				cur = segs[i].to
				continue
			}
			// the worker died (fatal error / out of memory / watchdog): the journal names the case
			at := -1
			if b, err := os.ReadFile(jf); err == nil && len(b) >= 8 {
				if v := binary.LittleEndian.Uint64(b); v != ^uint64(0) {
					at = int(v)
				}
			}
			if res.TimedOut || at < cur {
				run.Inconclusive("32-bit library worker: watchdog or death outside a case (exit %d %s, journal %d): %s", res.ExitCode, res.Signal, at, vlib.Tail(res.Out, 300))
				return
			}
			kind, msg, frames := crashInfo(string(res.Out))
			run.Violation("lib-"+kind+"@386/"+innermost(frames), fmt.Sprintf("[GOARCH=386] the process died in library case %d: %s", at, msg),
				map[string]interface{}{"goarch": "386", "case": at, "output_tail": vlib.Tail(res.Out, 3000), "replay_cmd": fmt.Sprintf("bin/c18.x386 %d %d %d /dev/null /dev/stdout", run.Seed, at, at+1)})
			cur = at + 1
		}
	})
}
