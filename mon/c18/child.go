package main

// Child worker for the network part: one process = one node instance. Starts with the benign
// self-test, then runs scripts [from,to) of the run, journaling each before it is sent.

import (
	"bufio"
	"encoding/hex"
	"encoding/json"
	"fmt"
	"os"
	"strconv"
	"strings"
	"syscall"
	"time"

	"github.com/piotrnar/gocoin/client/common"
	"github.com/piotrnar/gocoin/client/txpool"
	"github.com/piotrnar/gocoin/lib/btc"
)

const (
	exitOK        = 0
	exitAnomaly   = 3 // a script produced something the parent must judge; child retired
	exitHang      = 4
	exitBroken    = 5 // harness could not be brought up
	exitSelfTest  = 6 // benign conversation failed: batch inconclusive
	exitPostTest  = 7 // benign conversation failed after the hostile batch
	addrSpaceCap  = 8 << 30
	journalHexMax = 1500
)

func nowU32() uint32 { return uint32(time.Now().Unix()) }

type journalEntry struct {
	Idx      int      `json:"idx"`
	Kind     string   `json:"kind"`
	Outgoing bool     `json:"outgoing,omitempty"`
	Friend   bool     `json:"friend,omitempty"`
	Stall    bool     `json:"stall,omitempty"`
	Cmds     []string `json:"cmds"`
	Sizes    []int    `json:"sizes"`
	Hex      []string `json:"hex"` // payloads, long ones abbreviated
}

func abbreviate(b []byte) string {
	if len(b) <= journalHexMax {
		return hex.EncodeToString(b)
	}
	return hex.EncodeToString(b[:journalHexMax]) + fmt.Sprintf("...(+%d bytes)", len(b)-journalHexMax)
}

func journalOf(s *script) *journalEntry {
	j := &journalEntry{Idx: s.Idx, Kind: s.Kind, Outgoing: s.Outgoing, Friend: s.Friend, Stall: s.Stall}
	for _, m := range s.Msgs {
		j.Cmds = append(j.Cmds, m.Cmd+"("+m.Tag+")")
		j.Sizes = append(j.Sizes, len(m.Pl))
		j.Hex = append(j.Hex, abbreviate(m.Pl))
	}
	return j
}

type selfTestReport struct {
	SelfTest string   `json:"selftest"` // "pre" | "post"
	OK       bool     `json:"ok"`
	Problems []string `json:"problems,omitempty"`
	Sent     map[string]int `json:"sent,omitempty"`
}

// selfTest runs the benign conversation (three connections) and checks that the node answered
// the way a working node does. Any failure means the harness (or a previous hostile script)
// broke the node: the batch is inconclusive, never a violation by itself.
func (h *harness) selfTest(phase string) *selfTestReport {
	rep := &selfTestReport{SelfTest: phase, OK: true, Sent: map[string]int{}}
	bad := func(f string, a ...interface{}) {
		rep.OK = false
		rep.Problems = append(rep.Problems, fmt.Sprintf(f, a...))
	}
	g := &gen{h: h, r: newSelfTestRand(phase, h.nextExtra)}
	check := func(name string, s *script, want []string, wantBlocks, wantTxs int64) *scriptResult {
		h.quiesce()
		b0, t0 := h.blocksQueued.Load(), h.txsHandled.Load()
		r := h.runScript(s)
		for k, v := range r.Sent {
			rep.Sent[k] += v
		}
		switch {
		case r.Hang:
			bad("%s: hang; goroutines: %s", name, runGoroutines(r.HangStack))
		case r.Banner:
			bad("%s: panic banner: %s %v", name, r.PanicMsg, r.Frames)
		case r.Consumed != r.Msgs:
			bad("%s: only %d of %d messages consumed (last %s)", name, r.Consumed, r.Msgs, r.LastCmd)
		case len(r.Leaks) > 0:
			bad("%s: locks not free: %v", name, r.Leaks)
		case !r.Broken || !r.Closed || !r.EOF:
			bad("%s: connection did not end by EOF+close (broken=%v closed=%v eof=%v)", name, r.Broken, r.Closed, r.EOF)
		case r.Banned:
			bad("%s: benign peer was banned", name)
		case r.Misbehave != 0:
			bad("%s: benign peer got misbehave score %d", name, r.Misbehave)
		case len(r.Consumer) > 0:
			bad("%s: tx consumer panicked: %v", name, r.Consumer)
		}
		for _, w := range want {
			if r.Sent[w] == 0 {
				bad("%s: node never sent %q (sent: %v) %s us=%d", name, w, r.Sent, r.Diag, r.Micros)
			}
		}
		if d := h.blocksQueued.Load() - b0; d != wantBlocks {
			bad("%s: %d blocks queued to NetBlocks, want %d", name, d, wantBlocks)
		}
		if d := h.txsHandled.Load() - t0; d != wantTxs {
			bad("%s: %d txs went through NetTxs, want %d", name, d, wantTxs)
		}
		return r
	}
	msg := func(cmd string, p *pbuf) wireMsg { return wireMsg{Cmd: cmd, Pl: p.b, Tag: "benign"} }
	raw := func(cmd string, b []byte) wireMsg { return wireMsg{Cmd: cmd, Pl: b, Tag: "benign"} }

	// --- connection A: handshake, queries about known objects, a new header, a new block, a new tx
	tx1 := h.spendTx(3000, map[string]int{"pre": 1, "post": 2}[phase])
	newBlk := h.newTipBlock(nil)
	hdrOnly := h.newTipBlock(nil)
	var unknownTx [32]byte
	g.r.Fill(unknownTx[:])
	zero := [32]byte{}
	a := &script{Idx: -1, Kind: "selftest-A", Msgs: []wireMsg{
		msg("version", g.plainVersion()),
		raw("verack", nil),
		raw("sendheaders", nil),
		msg("sendcmpct", g.sendcmpct(0, 2)),
		raw("feefilter", le64(1000)),
		raw("ping", []byte{1, 2, 3, 4, 5, 6, 7, 8}),
		raw("getaddr", nil),
		raw("addr", append(append([]byte{2}, append(le32(nowU32()-600), append(le64(0x409), []byte{0, 0, 0, 0, 0, 0, 0, 0, 0, 0, 0xff, 0xff, 52, 1, 2, 3, 0x20, 0x8d}...)...)...),
			append(le32(nowU32()-7200), append(le64(0x409), []byte{0, 0, 0, 0, 0, 0, 0, 0, 0, 0, 0xff, 0xff, 52, 1, 2, 4, 0x20, 0x8d}...)...)...)),
		msg("inv", g.invList([]invEnt{{invBlock, h.blocks[50].Hash}, {invTx, unknownTx}})),
		msg("getheaders", g.locator([][32]byte{h.blocks[99].Hash}, &zero)),
		msg("getblocks", g.locator([][32]byte{h.blocks[119].Hash}, &zero)),
		msg("getdata", g.invList([]invEnt{{invWitBlock, h.blocks[77].Hash}, {invCmpct, h.blocks[78].Hash}})),
		msg("getblocktxn", g.getblocktxn(h.blocks[79].Hash, []uint64{0})),
		msg("headers", g.headers([]hHeader{hdrOnly.Hdr})),
		msg("block", g.block(newBlk)),
		msg("tx", g.tx(tx1)),
		raw("pong", []byte{8, 7, 6, 5, 4, 3, 2, 1}),
		msg("notfound", g.invList([]invEnt{{invWitTx, unknownTx}})),
		raw("wtfisthis", []byte{1, 2, 3}),
	}}
	check("A", a, []string{"version", "verack", "pong", "getdata", "headers", "inv", "block", "cmpctblock", "blocktxn", "getheaders"}, 1, 1)
	txpool.TxMutex.Lock()
	_, inPool := txpool.TransactionsToSend[btc.BIdx(func() []byte { x := tx1.txid(); return x[:] }())]
	txpool.TxMutex.Unlock()
	if !inPool {
		bad("A: the valid transaction did not reach the mempool")
	} else {
		h.mempool = append(h.mempool, tx1)
		h.lastMemTx = tx1
	}
	if h.nodeNonce == nil {
		bad("A: node's version message (nonce) not seen")
	}

	// --- connection B: the mempool tx is served; a compact block made of it is reconstructed
	cb := h.newTipBlock([]*hTx{tx1})
	nonce := uint64(0x1122334455667788)
	hdr := cb.Hdr.ser()
	k := sha256sum(append(append([]byte{}, hdr...), le64(nonce)...))
	sid := shortID(leU64(k[0:8]), leU64(k[8:16]), tx1.wtxid())
	b := &script{Idx: -2, Kind: "selftest-B", Chunked: true, Timeouts: 3, Msgs: []wireMsg{
		msg("version", g.plainVersion()),
		raw("verack", nil),
		msg("sendcmpct", g.sendcmpct(1, 2)),
		msg("getdata", g.invList([]invEnt{{invWitTx, tx1.txid()}})),
		msg("cmpctblock", g.cmpct(hdr, nonce, [][]byte{sid}, []prefilled{{0, cb.Txs[0].ser()}})),
	}}
	if inPool {
		check("B", b, []string{"tx"}, 1, 0)
	}

	// --- connection C: an authorised friend asks for the mempool; outgoing connection
	c := &script{Idx: -3, Kind: "selftest-C", Outgoing: true, Msgs: []wireMsg{
		msg("version", g.plainVersion()),
		raw("verack", nil),
		msg("xauth", g.xauth(true)),
		msg("getmp", g.getmp(0)),
	}}
	if h.nodeNonce != nil {
		want := []string{"version", "authack", "getmpdone"}
		if inPool {
			want = append(want, "tx")
		}
		check("C", c, want, 0, 0)
	}
	return rep
}

// runGoroutines keeps the goroutines of a dump that execute node code.
func runGoroutines(dump string) string {
	var keep []string
	for _, blk := range strings.Split(dump, "\n\n") {
		if strings.Contains(blk, "piotrnar/gocoin") {
			if len(blk) > 1800 {
				blk = blk[:1800]
			}
			keep = append(keep, blk)
		}
	}
	return strings.Join(keep, "\n--\n")
}

func childMain(args []string) {
	if len(args) < 7 {
		fmt.Println("usage: child seed from to journal results log sync")
		os.Exit(exitBroken)
	}
	seed, _ := strconv.ParseUint(args[0], 10, 64)
	from, _ := strconv.Atoi(args[1])
	to, _ := strconv.Atoi(args[2])
	journalPath, resultsPath, logPath := args[3], args[4], args[5]
	synced := args[6] == "1"

	lim := syscall.Rlimit{Cur: addrSpaceCap, Max: addrSpaceCap}
	syscall.Setrlimit(syscall.RLIMIT_AS, &lim)

	jf, err := os.OpenFile(journalPath, os.O_WRONLY|os.O_CREATE|os.O_APPEND, 0o644)
	if err != nil {
		os.Exit(exitBroken)
	}
	rf, err := os.OpenFile(resultsPath, os.O_WRONLY|os.O_CREATE|os.O_APPEND, 0o644)
	if err != nil {
		os.Exit(exitBroken)
	}
	writeLine := func(f *os.File, v interface{}) {
		b, _ := json.Marshal(v)
		f.Write(append(b, '\n'))
	}

	// bringing the node up takes well under a second; if it does not finish, say so and leave
	ready := make(chan struct{})
	go func() {
		select {
		case <-ready:
		case <-time.After(90 * time.Second):
			fmt.Fprintf(os.Stderr, "HARNESS-BROKEN: node start-up did not finish within 90s\n%s\n", allStacks())
			os.Exit(exitBroken)
		}
	}()
	// the benign conversation expects a synchronised node (tx relay, compact blocks); a batch against a
	// node in initial-block-download mode flips the flag after the self-test and back before the last one
	h := newHarness(logPath, true)
	close(ready)
	code := exitOK
	func() {
		rep := h.selfTest("pre")
		writeLine(rf, rep)
		if !rep.OK {
			code = exitSelfTest
			return
		}
		common.BlockChainSynchronized.Store(synced)
		for idx := from; idx < to; idx++ {
			s := makeScript(h, seed, idx)
			writeLine(jf, journalOf(s))
			res := h.runScript(s)
			writeLine(rf, res)
			if res.Hang {
				code = exitHang
				return
			}
			if res.anomaly() {
				code = exitAnomaly
				return
			}
		}
		common.BlockChainSynchronized.Store(true)
		rep = h.selfTest("post")
		writeLine(rf, rep)
		if !rep.OK {
			code = exitPostTest
		}
	}()
	jf.Close()
	rf.Close()
	h.cleanup()
	os.Exit(code)
}

// readLines parses a JSON-lines file into raw messages.
func readLines(path string) []json.RawMessage {
	f, err := os.Open(path)
	if err != nil {
		return nil
	}
	defer f.Close()
	var out []json.RawMessage
	sc := bufio.NewScanner(f)
	sc.Buffer(make([]byte, 1<<20), 64<<20)
	for sc.Scan() {
		l := strings.TrimSpace(sc.Text())
		if l == "" {
			continue
		}
		out = append(out, json.RawMessage(append([]byte{}, l...)))
	}
	return out
}
