package main

// Child-side harness: brings up what client/main.go brings up before it accepts connections
// (config defaults, a regtest-like chain built through the public API, peers db, mempool, friends),
// provides the scripted in-memory net.Conn, drives OneConnection.Run() over it and probes the
// process afterwards (banner on captured stdout/stderr, early return, locks, conn state).

import (
	"bytes"
	"encoding/binary"
	"errors"
	"fmt"
	"io"
	"net"
	"os"
	"regexp"
	"runtime"
	"runtime/debug"
	"strings"
	"sync"
	"sync/atomic"
	"syscall"
	"time"

	"github.com/piotrnar/gocoin/client/common"
	"github.com/piotrnar/gocoin/client/network"
	"github.com/piotrnar/gocoin/client/peersdb"
	"github.com/piotrnar/gocoin/client/txpool"
	"github.com/piotrnar/gocoin/lib/btc"
	"github.com/piotrnar/gocoin/lib/chain"
	"github.com/piotrnar/gocoin/lib/others/qdb"
	"verif/lib/vlib"
)

const (
	chainLen    = 130 // > COINBASE_MATURITY so that the first coinbases are spendable by mempool txs
	regBits     = 0x207fffff
	blockSpace  = 600
	subsidy     = 50e8
	bannerText  = "THIS SHOULD NOT HAPPEN"
	bannerEnd   = "END OF REPORT"
	scriptWdog  = 12 * time.Second // per-script / per-call watchdog (scripts take milliseconds); suspects are confirmed alone with twice as much
	lockRetries = 60               // x 2 ms: a leaked lock never becomes free, a busy one does
)

var opTrue = []byte{0x51}

type harness struct {
	tmp       string
	logf      *os.File // fd 1 and 2 of the process point here
	logOff    int64
	magic     [4]byte
	ch        *chain.Chain
	blocks    []*hBlock // blocks[h-1] = block at height h
	staleFork [][32]byte // hashes of the stored side-branch blocks (never connected)
	genesisID [32]byte
	tipTime   uint32
	nodeNonce []byte // nonce of the node's version message (learnt in the self-test)
	friendKey []byte // private key of the authorised friend
	friendPub []byte
	bystander *network.OneConnection
	nextIP    uint32
	peersFull bool // the peers database currently holds the capacity filler
	nextExtra uint32
	mempool   []*hTx // transactions accepted into the node's mempool (by the self-test)
	lastMemTx *hTx   // tail of the chain of mempool txs; output 0 is spendable

	txSync, blkSync chan chan struct{}
	consumerErr  []string
	consumerMu   sync.Mutex
	blocksQueued atomic.Int64
	txsHandled   atomic.Int64
}

func fatalBroken(format string, a ...interface{}) {
	fmt.Fprintf(os.Stderr, "HARNESS-BROKEN: "+format+"\n", a...)
	os.Exit(5)
}

// newHarness initialises the node state. stdout/stderr of the whole process are redirected into
// logPath so that the recover banner of Run, println() output and Go fatal errors are all visible.
func newHarness(logPath string, synchronized bool) *harness {
	h := &harness{}
	var err error
	h.tmp, err = os.MkdirTemp("", "c18-")
	if err != nil {
		fatalBroken("mkdirtemp: %v", err)
	}
	h.logf, err = os.OpenFile(logPath, os.O_RDWR|os.O_CREATE|os.O_APPEND, 0o644)
	if err != nil {
		fatalBroken("log: %v", err)
	}
	syscall.Dup2(int(h.logf.Fd()), 1)
	syscall.Dup2(int(h.logf.Fd()), 2)
	os.Chdir(h.tmp) // gocoin.conf and "<hash>.bin" dumps of corrupt compact blocks land here

	// --- common.InitConfig(): the real one, with a private data dir and no config file
	os.Args = []string{os.Args[0], "-d", h.tmp + "/data"}
	os.Setenv("GOCOIN_CLIENT_CONFIG", h.tmp+"/gocoin.conf")
	common.InitConfig()

	// --- host_init() equivalent for a private network
	common.GocoinHomeDir = common.CFG.Datadir + "/regnet/"
	os.MkdirAll(common.GocoinHomeDir, 0o770)
	common.Testnet = false
	h.magic = [4]byte{0xfa, 0xbf, 0xb5, 0xda}
	common.Magic = h.magic
	common.DefaultTcpPort = 18444
	for i := range h.genesisID {
		h.genesisID[i] = byte(0xA0 + i) // first byte != 0x43: main-net rule set
	}
	common.GenesisBlock = btc.NewUint256(h.genesisID[:])
	common.SecretKey = bytes.Repeat([]byte{0x11}, 32)
	common.PublicKeyBin = btc.PublicFromPrivate(common.SecretKey, true)
	common.PublicKey = btc.Encodeb58(common.PublicKeyBin)

	ext := &chain.NewChanOpts{UtxoFilesSubdir: common.CFG.UtxoSubdir, DoNotRescan: true,
		CompressUTXO: common.CFG.UTXOSave.CompressRecords}
	ch := chain.NewChainExt(common.GocoinHomeDir, common.GenesisBlock, false, ext, &chain.BlockDBOpts{
		MaxCachedBlocks: int(common.CFG.Memory.MaxCachedBlks),
		MaxDataFileSize: uint64(common.CFG.Memory.MaxDataFileMB) << 20,
		DataFilesKeep:   common.CFG.Memory.DataFilesKeep,
		CompressOnDisk:  common.CFG.Memory.CompressBlockDB})
	ch.Consensus.MaxPOWBits = regBits
	ch.Consensus.MaxPOWValue = btc.SetCompact(regBits)
	ch.Consensus.BIP34Height = 2
	ch.Consensus.BIP66Height = 3
	ch.Consensus.BIP65Height = 4
	ch.Consensus.Enforce_CSV = 5
	ch.Consensus.Enforce_SEGWIT = 6
	ch.Consensus.Enforce_Taproot = 7
	// deterministic within a UTC day; everything lies at least two days in the past
	day := uint32(time.Now().Unix()/86400) * 86400
	ch.Consensus.GensisTimestamp = day - 4*86400
	ch.RebuildGenesisHeader()
	common.BlockChain = ch
	h.ch = ch

	prev := h.genesisID
	t := ch.Consensus.GensisTimestamp
	for height := uint32(1); height <= chainLen; height++ {
		t += blockSpace
		b := h.makeBlock(prev, height, t, nil)
		bl, er := btc.NewBlock(b.ser())
		if er != nil {
			fatalBroken("NewBlock: %v", er)
		}
		ch.BlockIndexAccess.Lock()
		_, _, er = ch.CheckBlock(bl)
		ch.BlockIndexAccess.Unlock()
		if er != nil {
			fatalBroken("CheckBlock height %d: %v", height, er)
		}
		bl.LastKnownHeight = chainLen
		if er = ch.AcceptBlock(bl); er != nil {
			fatalBroken("AcceptBlock height %d: %v", height, er)
		}
		h.blocks = append(h.blocks, b)
		prev = b.Hash
	}
	h.tipTime = t
	// a stale side branch the node knows about: two blocks forking off six blocks below the tip (less work than the main
	// chain, so they are stored and indexed but never connected) - locators may name them
	{
		fp := h.blocks[chainLen-7].Hash
		ft := ch.Consensus.GensisTimestamp + uint32(chainLen-6)*blockSpace + 7
		for k := uint32(0); k < 2; k++ {
			b := h.makeBlock(fp, chainLen-5+k, ft+k*blockSpace, nil)
			bl, er := btc.NewBlock(b.ser())
			if er != nil {
				fatalBroken("NewBlock (side branch): %v", er)
			}
			ch.BlockIndexAccess.Lock()
			_, _, er = ch.CheckBlock(bl)
			ch.BlockIndexAccess.Unlock()
			if er != nil {
				fatalBroken("CheckBlock side branch: %v", er)
			}
			bl.LastKnownHeight = chainLen
			if er = ch.AcceptBlock(bl); er != nil {
				fatalBroken("AcceptBlock side branch: %v", er)
			}
			h.staleFork = append(h.staleFork, b.Hash)
			fp = b.Hash
		}
	}
	if ch.LastBlock().Height != chainLen {
		fatalBroken("tip height %d", ch.LastBlock().Height)
	}

	common.Last.Block = ch.LastBlock()
	common.Last.Time = time.Unix(int64(common.Last.Block.Timestamp()), 0)
	common.UpdateScriptFlags(0)
	common.LockCfg()
	common.ApplyLastTrustedBlock()
	common.UnlockCfg()
	common.StartTime = time.Now()
	os.RemoveAll(common.TempBlocksDir())
	common.MkTempBlocksDir()
	common.RecalcAverageBlockSize()

	// --- main(): peers db without seeding, received-blocks index, header tip, mempool
	peersdb.Services = common.Services
	peersdb.PeerDB, err = qdb.NewDB(common.GocoinHomeDir+"peers3", true)
	if err != nil || peersdb.PeerDB == nil {
		fatalBroken("peers db: %v", err)
	}
	for k, v := range ch.BlockIndex {
		network.ReceivedBlocks[k] = &network.OneReceivedBlock{TmStart: time.Unix(int64(v.Timestamp()), 0)}
	}
	network.LastCommitedHeader = common.Last.Block
	txpool.InitMempool()
	common.BlockChainSynchronized.Store(synchronized)

	// friends.txt equivalent: one authorised key
	h.friendKey = bytes.Repeat([]byte{0x22}, 32)
	h.friendPub = btc.PublicFromPrivate(h.friendKey, true)
	network.FriendsAccess.Lock()
	network.AuthPubkeys = [][]byte{h.friendPub}
	network.FriendsAccess.Unlock()

	// minimal consumers of the two channels the main loop would serve
	h.txSync, h.blkSync = make(chan chan struct{}), make(chan chan struct{})
	go h.consumeTxs()
	go h.consumeBlocks()

	// an idle, already handshaken bystander connection, so that code walking the connection list
	// (nonce check in HandleVersion, inv routing) has something to walk
	bad, _ := peersdb.NewIncommingConnection("45.0.0.1:18444", true)
	by := network.NewConnection(bad)
	by.X.ConnectedAt = time.Now()
	by.X.Incomming = true
	by.X.VersionReceived = true
	by.Node.Version = 70016
	by.Node.Services = 0x409
	copy(by.Node.Nonce[:], []byte{9, 9, 9, 9, 1, 2, 3, 4})
	by.Conn = newFakeConn(nil, nil, 0)
	network.Mutex_net.Lock()
	network.OpenCons[bad.UniqID()] = by
	network.InConsActive++
	network.Mutex_net.Unlock()
	h.bystander = by

	h.nextIP = 0x2e000100
	h.logOff = h.logSize()
	return h
}

func (h *harness) cleanup() {
	os.Chdir("/")
	os.RemoveAll(h.tmp)
}

// The consumers answer a sync request only between two elements, so "answered + channel empty" means
// that everything queued so far has been handled completely (no window between receive and count).
func (h *harness) consumeTxs() {
	for {
		select {
		case ack := <-h.txSync:
			ack <- struct{}{}
		case ntx := <-network.NetTxs:
			func() {
				defer func() {
					if r := recover(); r != nil {
						buf := make([]byte, 16384)
						buf = buf[:runtime.Stack(buf, false)]
						h.consumerMu.Lock()
						h.consumerErr = append(h.consumerErr, fmt.Sprintf("%v\n%s", r, buf))
						h.consumerMu.Unlock()
					}
				}()
				txpool.HandleNetTx(ntx) // what the main loop does with an element of NetTxs
				h.txsHandled.Add(1)
			}()
		}
	}
}

func (h *harness) consumeBlocks() {
	for {
		select {
		case ack := <-h.blkSync:
			ack <- struct{}{}
		case <-network.NetBlocks:
			h.blocksQueued.Add(1) // the main loop (block connection) is not part of this property
		}
	}
}

func (h *harness) logSize() int64 {
	st, err := h.logf.Stat()
	if err != nil {
		return 0
	}
	return st.Size()
}

// logSince returns what the process printed since the last call.
func (h *harness) logSince() string {
	sz := h.logSize()
	if sz <= h.logOff {
		return ""
	}
	n := sz - h.logOff
	if n > 8<<20 {
		h.logOff = sz - (8 << 20)
		n = 8 << 20
	}
	buf := make([]byte, n)
	h.logf.ReadAt(buf, h.logOff)
	h.logOff = sz
	return string(buf)
}

// makeBlock builds and mines a block on top of prev. Extra txs must be valid spends.
func (h *harness) makeBlock(prev [32]byte, height uint32, t uint32, txs []*hTx) *hBlock {
	h.nextExtra++
	b := &hBlock{}
	cb := coinbaseTx(height, subsidy, h.nextExtra, opTrue)
	b.Txs = append([]*hTx{cb}, txs...)
	anyWit := false
	for _, x := range txs {
		if x.hasWitness() {
			anyWit = true
		}
	}
	if anyWit {
		// BIP141 commitment
		ids := make([][32]byte, len(b.Txs))
		for i := 1; i < len(b.Txs); i++ {
			ids[i] = b.Txs[i].wtxid()
		}
		wroot := merkleRoot(ids)
		nonce := make([]byte, 32)
		cm := dsha(append(append([]byte{}, wroot[:]...), nonce...))
		cb.In[0].Witness = [][]byte{nonce}
		cb.Out = append(cb.Out, hTxOut{Value: 0, Script: append([]byte{0x6a, 0x24, 0xaa, 0x21, 0xa9, 0xed}, cm[:]...)})
	}
	ids := make([][32]byte, len(b.Txs))
	for i, x := range b.Txs {
		ids[i] = x.txid()
	}
	b.Hdr = hHeader{Version: 0x20000000, Prev: prev, Merkle: merkleRoot(ids), Time: t, Bits: regBits}
	b.Hash = b.Hdr.mine(true)
	return b
}

// tip returns the hash of the best block of the harness chain (the node's tip never advances,
// the main loop is not running).
func (h *harness) tip() [32]byte { return h.blocks[len(h.blocks)-1].Hash }

// newTipBlock mines a fresh valid block on the static tip (unique by coinbase extra + time).
func (h *harness) newTipBlock(txs []*hTx) *hBlock {
	return h.makeBlock(h.tip(), chainLen+1, h.tipTime+1+h.nextExtra%5000, txs)
}

// spendTx returns a valid transaction. reserved > 0: spends the coinbase of that height (heights 1
// and 2 are reserved for the two self-tests, so that no script can have spent them before);
// otherwise a matured coinbase from height 3 on, or the tail of the chain of mempool transactions.
func (h *harness) spendTx(fee uint64, reserved int) *hTx {
	var t *hTx
	h.nextExtra++
	tag := []byte{0x6a, 0x04, byte(h.nextExtra), byte(h.nextExtra >> 8), byte(h.nextExtra >> 16), byte(h.nextExtra >> 24)}
	switch {
	case reserved > 0:
		cb := h.blocks[reserved-1].Txs[0]
		t = &hTx{Version: 2, In: []hTxIn{{Prev: cb.txid(), Vout: 0, Sequence: 0xfffffffd}},
			Out: []hTxOut{{Value: subsidy - fee, Script: opTrue}, {Value: 0, Script: tag}}}
	case h.lastMemTx == nil || h.nextExtra%3 == 0:
		cb := h.blocks[2+int(h.nextExtra)%(chainLen-101-3)].Txs[0]
		t = &hTx{Version: 2, In: []hTxIn{{Prev: cb.txid(), Vout: 0, Sequence: 0xfffffffd}},
			Out: []hTxOut{{Value: subsidy - fee, Script: opTrue}, {Value: 0, Script: tag}}}
	default:
		p := h.lastMemTx
		t = &hTx{Version: 2, In: []hTxIn{{Prev: p.txid(), Vout: 0, Sequence: 0xfffffffd}},
			Out: []hTxOut{{Value: p.Out[0].Value - fee, Script: opTrue}, {Value: 0, Script: tag}}}
	}
	return t
}

// ---------------------------------------------------------------------------------------------
// scripted connection

type timeoutErr struct{}

func (timeoutErr) Error() string   { return "i/o timeout" }
func (timeoutErr) Timeout() bool   { return true }
func (timeoutErr) Temporary() bool { return true }

type fakeAddr string

func (a fakeAddr) Network() string { return "tcp4" }
func (a fakeAddr) String() string  { return string(a) }

type fakeConn struct {
	mu       sync.Mutex
	data     []byte
	pos      int
	chunk    *vlib.Rand // nil: deliver as much as asked
	timeouts int        // every n-th Read reports a timeout first (0 = never)
	reads    int
	eofSeen  bool
	// a real peer waits for the answers before it hangs up: after the script is consumed Read
	// reports timeouts until the node has been quiet for `quiet` (bounded by maxLinger)
	quiet, maxLinger time.Duration
	minPolls         int // ... and for at least that many polls (a descheduled process makes no polls)
	pollsQuiet       int
	exhaustedAt      time.Time
	lastWrite        time.Time

	stall    bool // the peer never reads: Write blocks until the deadline is moved / conn closed
	stallCh  chan struct{}
	stallOne sync.Once
	closed   bool

	wbuf      []byte
	sent      map[string]int
	sentBytes int
	writes    int
	versionPl []byte
}

func newFakeConn(data []byte, chunk *vlib.Rand, timeouts int) *fakeConn {
	return &fakeConn{data: data, chunk: chunk, timeouts: timeouts, sent: map[string]int{}, stallCh: make(chan struct{})}
}

func (f *fakeConn) Read(b []byte) (int, error) {
	f.mu.Lock()
	defer f.mu.Unlock()
	f.reads++
	if f.closed {
		return 0, net.ErrClosed
	}
	if f.pos >= len(f.data) {
		now := time.Now()
		if f.exhaustedAt.IsZero() {
			f.exhaustedAt = now
		}
		ref := f.exhaustedAt
		if f.lastWrite.After(ref) {
			ref = f.lastWrite
		}
		f.pollsQuiet++
		if f.pollsQuiet < f.minPolls || (now.Sub(ref) < f.quiet && now.Sub(f.exhaustedAt) < f.maxLinger) {
			f.mu.Unlock()
			time.Sleep(300 * time.Microsecond)
			f.mu.Lock()
			return 0, timeoutErr{}
		}
		f.eofSeen = true
		return 0, io.EOF
	}
	if f.timeouts > 0 && f.reads%f.timeouts == 0 {
		return 0, timeoutErr{}
	}
	n := len(b)
	if n > len(f.data)-f.pos {
		n = len(f.data) - f.pos
	}
	if f.chunk != nil && n > 1 {
		switch f.chunk.Intn(4) {
		case 0:
			n = 1 + f.chunk.Intn(n)
		case 1:
			if n > 7 {
				n = 1 + f.chunk.Intn(7)
			}
		}
	}
	copy(b, f.data[f.pos:f.pos+n])
	f.pos += n
	return n, nil
}

func (f *fakeConn) Write(b []byte) (int, error) {
	if f.stall {
		<-f.stallCh
		return 0, errors.New("write: deadline exceeded")
	}
	f.mu.Lock()
	defer f.mu.Unlock()
	if f.closed {
		return 0, net.ErrClosed
	}
	f.sentBytes += len(b)
	f.writes++
	f.pollsQuiet = 0
	f.lastWrite = time.Now()
	f.wbuf = append(f.wbuf, b...)
	for len(f.wbuf) >= 24 {
		l := int(binary.LittleEndian.Uint32(f.wbuf[16:20]) & 0x7fffffff)
		if len(f.wbuf) < 24+l {
			break
		}
		cmd := strings.TrimRight(string(f.wbuf[4:16]), "\x00")
		f.sent[cmd]++
		if cmd == "version" && f.versionPl == nil {
			f.versionPl = append([]byte{}, f.wbuf[24:24+l]...)
		}
		f.wbuf = f.wbuf[24+l:]
	}
	if len(f.wbuf) == 0 {
		f.wbuf = nil
	}
	return len(b), nil
}

func (f *fakeConn) release() { f.stallOne.Do(func() { close(f.stallCh) }) }
func (f *fakeConn) Close() error {
	f.mu.Lock()
	f.closed = true
	f.mu.Unlock()
	f.release()
	return nil
}
func (f *fakeConn) LocalAddr() net.Addr                { return fakeAddr("127.0.0.1:18444") }
func (f *fakeConn) RemoteAddr() net.Addr               { return fakeAddr("46.0.0.1:50000") }
func (f *fakeConn) SetDeadline(t time.Time) error      { return nil }
func (f *fakeConn) SetReadDeadline(t time.Time) error  { return nil }
func (f *fakeConn) SetWriteDeadline(t time.Time) error { f.release(); return nil }

// ---------------------------------------------------------------------------------------------
// one scripted connection

type wireMsg struct {
	Cmd     string
	Pl      []byte
	Tag     string // generator family + mutation, for evidence and classes
	BadSum  bool
	BadMag  bool
	LenLie  int  // != 0: header announces len(Pl)+LenLie
	Encrypt bool // set the "encrypted" bit in the length field
}

type script struct {
	Idx      int
	Kind     string // template
	Msgs     []wireMsg
	Outgoing bool // the node dialled (sends its version first)
	Friend   bool // the peer is on the friends list (special connection)
	Chunked  bool
	Timeouts int
	Stall    bool
}

type scriptResult struct {
	Idx        int            `json:"idx"`
	Kind       string         `json:"kind"`
	Msgs       int            `json:"msgs"`
	Consumed   int            `json:"consumed"` // messages fully read by the node
	Cmds       []string       `json:"cmds"`     // command(tag) of each message
	Broken     bool           `json:"broken"`
	Banned     bool           `json:"banned"`
	Closed     bool           `json:"closed"`
	EOF        bool           `json:"eof"`
	Banner     bool           `json:"banner"`
	PanicMsg   string         `json:"panic_msg,omitempty"`
	Frames     []string       `json:"frames,omitempty"` // gocoin frames of the panic stack, innermost first
	Stack      string         `json:"stack,omitempty"`
	Leaks      []string       `json:"leaks,omitempty"`
	Consumer   []string       `json:"consumer_panics,omitempty"`
	Hang       bool           `json:"hang,omitempty"`
	HangStack  string         `json:"hang_stack,omitempty"`
	Sent       map[string]int `json:"sent,omitempty"`
	LastCmd    string         `json:"last_cmd"`     // last command fully delivered
	LastTag    string         `json:"last_tag"`     //
	Misbehave  int            `json:"misbehave"`    // score reported by the node
	Micros     int64          `json:"us"`
	Diag       string         `json:"diag,omitempty"`
	LogExcerpt string         `json:"log,omitempty"`
}

func (s *script) wire(magic [4]byte) (data []byte, ends []int) {
	for _, m := range s.Msgs {
		f := frame(magic, m.Cmd, m.Pl)
		if m.BadSum {
			f[20] ^= 0x5a
		}
		if m.BadMag {
			f[1] ^= 0x01
		}
		if m.LenLie != 0 {
			binary.LittleEndian.PutUint32(f[16:20], uint32(len(m.Pl)+m.LenLie))
		}
		if m.Encrypt {
			f[19] |= 0x80
		}
		data = append(data, f...)
		ends = append(ends, len(data))
	}
	return
}

var reFrame = regexp.MustCompile(`^(github\.com/piotrnar/gocoin/[^\s(]+(?:\([^)]*\))?[^\s(]*)\(`)

// panicInfo extracts the message and the gocoin frames (innermost first, Run's own recover closure
// and runtime frames skipped) from the recover banner printed by Run.
func panicInfo(log string) (msg string, frames []string, stack string) {
	i := strings.Index(log, bannerText)
	if i < 0 {
		return
	}
	rest := log[i:]
	if j := strings.Index(rest, bannerEnd); j >= 0 {
		rest = rest[:j]
	}
	k := strings.Index(rest, "Make sure to include the data below:")
	if k >= 0 {
		lines := strings.Split(rest[k:], "\n")
		for _, l := range lines[1:] {
			if strings.TrimSpace(l) != "" {
				msg = strings.TrimSpace(l)
				break
			}
		}
	}
	stack = rest
	if len(stack) > 6000 {
		stack = stack[:6000]
	}
	seenPanic := false
	for _, l := range strings.Split(rest, "\n") {
		if strings.HasPrefix(l, "panic(") {
			seenPanic = true
			frames = nil // frames above panic() belong to the deferred recover
			continue
		}
		if !seenPanic {
			continue
		}
		if m := reFrame.FindStringSubmatch(l); m != nil {
			fn := strings.TrimPrefix(m[1], "github.com/piotrnar/gocoin/")
			frames = append(frames, fn)
		}
	}
	return
}

type lockProbe struct {
	name string
	try  func() bool // acquires and releases; false when not acquirable
}

func tryMutex(m *sync.Mutex) func() bool {
	return func() bool {
		if m.TryLock() {
			m.Unlock()
			return true
		}
		return false
	}
}

// timedLock probes a mutex reachable only through Lock()/Unlock() wrappers. At probe time the
// process is quiescent, so a lock that cannot be taken within the budget is leaked. The prober
// goroutine of a leaked lock stays parked; the child is retired after any finding anyway.
func timedLock(lock, unlock func()) func() bool {
	return func() bool {
		got := make(chan struct{})
		go func() { lock(); unlock(); close(got) }()
		select {
		case <-got:
			return true
		case <-time.After(time.Duration(lockRetries) * 2 * time.Millisecond):
			return false
		}
	}
}

func (h *harness) probes(c *network.OneConnection) []lockProbe {
	return []lockProbe{
		{"conn.Mutex", tryMutex(&c.Mutex)},
		{"bystander.Mutex", tryMutex(&h.bystander.Mutex)},
		{"network.Mutex_net", tryMutex(&network.Mutex_net)},
		{"network.MutexRcv", tryMutex(&network.MutexRcv)},
		{"txpool.TxMutex", tryMutex(&txpool.TxMutex)},
		{"common.Last.Mutex", tryMutex(&common.Last.Mutex)},
		{"BlockChain.BlockIndexAccess", tryMutex(&h.ch.BlockIndexAccess)},
		{"network.FriendsAccess", tryMutex(&network.FriendsAccess)},
		{"network.ExternalIpMutex", tryMutex(&network.ExternalIpMutex)},
		{"network.HammeringMutex", tryMutex(&network.HammeringMutex)},
		{"network.CompactBlocksMutex", tryMutex(&network.CompactBlocksMutex)},
		{"network.CachedBlocksMutex", tryMutex(&network.CachedBlocksMutex)},
		{"common.CounterMutex", tryMutex(&common.CounterMutex)},
		{"peersdb.PeerDB.Mutex", tryMutex(&peersdb.PeerDB.Mutex)},
		{"peersdb.peerdb_mutex", timedLock(peersdb.Lock, peersdb.Unlock)},
		{"common.mutex_cfg", timedLock(common.LockCfg, common.UnlockCfg)},
		{"common.bw_mutex", timedLock(common.LockBw, common.UnlockBw)},
	}
}

// quiesce returns when both consumers have handled everything that was queued.
func (h *harness) quiesce() {
	// (bounded: a consumer stuck on a mutex leaked by a handler must not stop the lock probes)
	deadline := time.After(3 * time.Second)
	for round := 0; round < 1000; round++ {
		a, b := make(chan struct{}, 1), make(chan struct{}, 1)
		select {
		case h.txSync <- a:
			<-a
		case <-deadline:
			return
		}
		select {
		case h.blkSync <- b:
			<-b
		case <-deadline:
			return
		}
		if len(network.NetTxs) == 0 && len(network.NetBlocks) == 0 {
			return
		}
	}
}

// wdog is the per-script watchdog; confirmation runs of a suspected hang get more (C18_WDOG seconds).
func wdog() time.Duration {
	if v := os.Getenv("C18_WDOG"); v != "" {
		var n int
		fmt.Sscan(v, &n)
		if n > 0 {
			return time.Duration(n) * time.Second
		}
	}
	return scriptWdog
}

func allStacks() string {
	buf := make([]byte, 1<<20)
	return string(buf[:runtime.Stack(buf, true)])
}

// runScript drives one connection. It returns the observations; deciding is done by the parent.
// setPeersFull fills the peers database up to its hard capacity (MaxPeersInDB+MaxPeersDeviation records) or removes
// the filler again: the state is a function of the script index, so that a script replayed alone meets the same state.
func (h *harness) setPeersFull(want bool) {
	if want == h.peersFull {
		return
	}
	h.peersFull = want
	now := uint32(time.Now().Unix())
	n := peersdb.MaxPeersInDB + peersdb.MaxPeersDeviation
	for i := 0; i < n; i++ {
		p, err := peersdb.NewAddrFromString(fmt.Sprintf("100.%d.%d.%d:8333", byte(i>>16), byte(i>>8), byte(i)), false)
		if err != nil || p == nil {
			fatalBroken("filler peer: %v", err)
		}
		k := qdb.KeyType(p.UniqID())
		if want {
			p.Time = now
			p.Services = 0x409
			peersdb.PeerDB.Put(k, p.Bytes())
		} else {
			peersdb.PeerDB.Del(k)
		}
	}
}

func (h *harness) runScript(s *script) *scriptResult {
	h.setPeersFull(s.Idx >= 0 && (s.Idx/40)%5 == 3)
	res := &scriptResult{Idx: s.Idx, Kind: s.Kind, Msgs: len(s.Msgs)}
	for _, m := range s.Msgs {
		res.Cmds = append(res.Cmds, m.Cmd+"("+m.Tag+")")
	}
	data, ends := s.wire(h.magic)
	var chunk *vlib.Rand
	if s.Chunked {
		chunk = vlib.NewRand(uint64(s.Idx)*7919 + 13)
	}
	fc := newFakeConn(data, chunk, s.Timeouts)
	fc.stall = s.Stall
	fc.quiet, fc.maxLinger, fc.minPolls = 2*time.Millisecond, 150*time.Millisecond, 6
	if s.Idx < 0 { // self-test: be patient, the answers are part of the check
		fc.quiet, fc.maxLinger, fc.minPolls = 100*time.Millisecond, 5*time.Second, 150
	}

	h.nextIP++
	ip := h.nextIP
	ad, err := peersdb.NewIncommingConnection(fmt.Sprintf("%d.%d.%d.%d:18444", byte(ip>>24), byte(ip>>16), byte(ip>>8), byte(ip)), true)
	if err != nil || ad == nil {
		fatalBroken("NewIncommingConnection: %v", err)
	}
	ad.Friend = s.Friend
	c := network.NewConnection(ad)
	c.X.ConnectedAt = time.Now()
	c.X.Incomming = !s.Outgoing
	c.X.IsSpecial = s.Friend
	c.Conn = fc
	network.Mutex_net.Lock()
	network.OpenCons[ad.UniqID()] = c
	if s.Outgoing {
		network.OutConsActive++
	} else {
		network.InConsActive++
	}
	network.Mutex_net.Unlock()

	h.logSince()
	t0 := time.Now()
	done := make(chan struct{})
	go func() {
		defer close(done)
		c.Run()
	}()
	select {
	case <-done:
	case <-time.After(wdog()):
		res.Hang = true
		res.HangStack = allStacks()
		// which mutexes are held while Run is stuck (non-blocking probes only)
		for _, p := range h.probes(c) {
			if strings.HasPrefix(p.name, "peersdb.peerdb_mutex") || strings.HasPrefix(p.name, "common.mutex_cfg") || strings.HasPrefix(p.name, "common.bw_mutex") {
				continue
			}
			ok := false
			for i := 0; i < 20 && !ok; i++ {
				if ok = p.try(); !ok {
					time.Sleep(2 * time.Millisecond)
				}
			}
			if !ok {
				res.Leaks = append(res.Leaks, p.name)
			}
		}
		return res
	}
	res.Micros = time.Since(t0).Microseconds()
	h.quiesce()

	// what tcp_server / DoNetwork do after Run returns
	if network.Mutex_net.TryLock() {
		delete(network.OpenCons, ad.UniqID())
		if s.Outgoing {
			network.OutConsActive--
		} else {
			network.InConsActive--
		}
		network.Mutex_net.Unlock()
	}

	// --- observations
	log := h.logSince()
	if strings.Contains(log, bannerText) {
		res.Banner = true
		res.PanicMsg, res.Frames, res.Stack = panicInfo(log)
	}
	fc.mu.Lock()
	pos := fc.pos
	res.Diag = fmt.Sprintf("reads=%d writes=%d wbytes=%d linger=%v lastWriteAfterExhaust=%v", fc.reads, fc.writes, fc.sentBytes, time.Since(fc.exhaustedAt), fc.lastWrite.Sub(fc.exhaustedAt))
	res.Closed = fc.closed
	res.EOF = fc.eofSeen
	res.Sent = fc.sent
	if h.nodeNonce == nil && len(fc.versionPl) >= 80 {
		h.nodeNonce = append([]byte{}, fc.versionPl[72:80]...)
	}
	fc.mu.Unlock()
	for i, e := range ends {
		if pos >= e {
			res.Consumed = i + 1
		}
	}
	if res.Consumed > 0 {
		res.LastCmd = s.Msgs[res.Consumed-1].Cmd
		res.LastTag = s.Msgs[res.Consumed-1].Tag
	}
	for _, p := range h.probes(c) {
		ok := false
		for i := 0; i < lockRetries && !ok; i++ {
			if ok = p.try(); !ok {
				time.Sleep(2 * time.Millisecond)
			}
		}
		if !ok {
			res.Leaks = append(res.Leaks, p.name)
		}
	}
	connLocked := false
	for _, l := range res.Leaks {
		if l == "conn.Mutex" {
			connLocked = true
		}
	}
	if !connLocked {
		res.Broken = c.IsBroken()
		var ci network.ConnInfo
		c.GetStats(&ci)
		res.Misbehave = int(ci.Misbehave)
	}
	res.Banned = ad.Banned != 0
	h.consumerMu.Lock()
	res.Consumer = h.consumerErr
	h.consumerErr = nil
	h.consumerMu.Unlock()
	if res.Banner || len(res.Leaks) > 0 || len(res.Consumer) > 0 || (!res.Broken && !connLocked) {
		if len(log) > 3000 {
			log = log[:3000]
		}
		res.LogExcerpt = log
	}
	if !res.Closed {
		fc.Close() // lets a leaked writing thread of an aborted Run see an error and stop spinning on data
	}
	dropGarbage()
	return res
}

// dropGarbage returns memory of huge, already dead allocations to the OS, so that the address-space
// cap of the child judges single requests of the node, not garbage accumulated by the harness loop.
func dropGarbage() {
	var ms runtime.MemStats
	runtime.ReadMemStats(&ms)
	if ms.HeapSys-ms.HeapReleased > 1<<30 {
		debug.FreeOSMemory()
	}
}

// anomaly says whether the observations contain anything the parent has to judge (the child is
// retired after such a script because global state may be damaged).
func (r *scriptResult) anomaly() bool {
	return r.Hang || r.Banner || len(r.Leaks) > 0 || len(r.Consumer) > 0 || !r.Broken || !r.Closed
}
