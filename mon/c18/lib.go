package main

// Library part: the parsers of untrusted data on a mutation corpus. Every call runs under recover
// in a child process; the case number is written to a marker file before the call so that a fatal
// error (out of memory, unrecovered panic in a goroutine of the library) has a witness: the parent
// regenerates the input from (seed, case number).

import (
	"encoding/binary"
	"encoding/hex"
	"encoding/json"
	"fmt"
	"os"
	"path/filepath"
	"runtime"
	"strconv"
	"strings"
	"sync/atomic"
	"syscall"
	"time"

	"github.com/piotrnar/gocoin/lib/btc"
	"github.com/piotrnar/gocoin/lib/others/bech32"
	gscript "github.com/piotrnar/gocoin/lib/script"
	"github.com/piotrnar/gocoin/lib/secp256k1"
	"verif/lib/vlib"
)

type libCase struct {
	Entry  string
	Family string
	In     []byte   // main input
	Aux    [][]byte // further inputs (pk scripts of the spent outputs, ...)
	Flags  uint32
}

var libEntries = []string{"btc.NewTx", "btc.TxSize", "btc.NewBlock+BuildTxList", "btc.GetOpcode", "gscript.VerifyTxScript",
	"btc.NewSignature", "btc.NewPublicKey", "btc.NewAddrFromString", "btc.script-predicates", "btc.tx-inspectors",
	"secp256k1.parse", "btc.Decodeb58+bech32", "script.compress"}

// corpus of honest structures the mutations start from
type libCorpus struct {
	txs    []*hTx
	blocks []*hBlock
	sigs   [][]byte
	addrs  []string
}

func newLibCorpus() *libCorpus {
	c := &libCorpus{}
	h32 := func(b byte) (x [32]byte) {
		for i := range x {
			x[i] = b + byte(i)
		}
		return
	}
	p2pkh := append(append([]byte{0x76, 0xa9, 0x14}, make([]byte, 20)...), 0x88, 0xac)
	c.txs = append(c.txs,
		&hTx{Version: 1, In: []hTxIn{{Prev: h32(1), Vout: 0, Script: []byte{0x51}, Sequence: 0xffffffff}}, Out: []hTxOut{{Value: 5000, Script: p2pkh}}},
		&hTx{Version: 2, In: []hTxIn{{Prev: h32(2), Vout: 1, Script: nil, Sequence: 0xfffffffd, Witness: [][]byte{make([]byte, 71), make([]byte, 33)}}},
			Out: []hTxOut{{Value: 1, Script: []byte{0, 0x14, 1, 2, 3, 4, 5, 6, 7, 8, 9, 10, 11, 12, 13, 14, 15, 16, 17, 18, 19, 20}}, {Value: 2, Script: p2pkh}}, LockTime: 99},
		&hTx{Version: 2, In: []hTxIn{{Prev: h32(3), Script: make([]byte, 107), Sequence: 1}, {Prev: h32(4), Vout: 3, Sequence: 2, Witness: [][]byte{{}, {1}, make([]byte, 300)}}, {Prev: h32(5), Sequence: 3}},
			Out: []hTxOut{{Value: 10, Script: []byte{0x6a, 0x02, 1, 2}}, {Value: 20, Script: p2pkh}, {Value: 30, Script: append([]byte{0x51, 0x20}, make([]byte, 32)...)}}},
		coinbaseTx(200, 50e8, 7, opTrue),
	)
	big := &hTx{Version: 1}
	for i := 0; i < 300; i++ {
		big.In = append(big.In, hTxIn{Prev: h32(byte(i)), Vout: uint32(i), Script: []byte{0x00, 0x51}, Sequence: 0xffffffff})
		big.Out = append(big.Out, hTxOut{Value: uint64(i), Script: p2pkh})
	}
	c.txs = append(c.txs, big)
	mk := func(txs ...*hTx) *hBlock {
		b := &hBlock{Txs: txs}
		ids := make([][32]byte, len(txs))
		for i, t := range txs {
			ids[i] = t.txid()
		}
		b.Hdr = hHeader{Version: 0x20000000, Prev: h32(9), Merkle: merkleRoot(ids), Time: 1700000000, Bits: regBits}
		b.Hash = b.Hdr.mine(true)
		return b
	}
	c.blocks = append(c.blocks, mk(c.txs[3]), mk(c.txs[3], c.txs[0], c.txs[1]), mk(c.txs[3], c.txs[0], c.txs[1], c.txs[2], c.txs[4]))
	c.sigs = append(c.sigs,
		vlib.UnHex("304402203f16c7f6b2e3a1d1c5e8d1a5b6c7d8e9f0a1b2c3d4e5f60718293a4b5c6d7e8f02201a2b3c4d5e6f708192a3b4c5d6e7f8091a2b3c4d5e6f708192a3b4c5d6e7f80901"),
		vlib.UnHex("3045022100ff16c7f6b2e3a1d1c5e8d1a5b6c7d8e9f0a1b2c3d4e5f60718293a4b5c6d7e8f02201a2b3c4d5e6f708192a3b4c5d6e7f8091a2b3c4d5e6f708192a3b4c5d6e7f80981"),
		vlib.UnHex("3006020101020101"))
	c.addrs = []string{"1A1zP1eP5QGefi2DMPTfTL5SLmv7DivfNa", "3J98t1WpEZ73CNmQviecrnyiWrnqRhWNLy", "bc1qw508d6qejxtdg4y5r3zarvary0c5xw7kv8f3t4",
		"bc1p0xlxvlhemja6c4dqv22uapctqupfhlxm9h8z3k2e72q4k9hcz7vqzk5jj0", "tb1qw508d6qejxtdg4y5r3zarvary0c5xw7kxpjzsx", "mipcBbFg9gMiCh81Kj8tqqdgoZub1ZJRfn",
		"BC1SW50QGDZ25J", "bc1zw508d6qejxtdg4y5r3zarvaryvaxxpcs"}
	return c
}

// mutate applies one of the hostile families to an honest serialisation.
func (g *gen) mutate(p *pbuf, cmdForSizes string) ([]byte, string) {
	switch x := g.r.Intn(20); {
	case x < 1:
		return p.b, "wellformed"
	case x < 6:
		return g.mutTrunc(p)
	case x < 12:
		return g.mutCount(p)
	case x < 16:
		return g.mutBytes(p)
	case x < 18: // two mutations
		if g.r.Intn(4) == 0 {
			return g.mutCountCut(p)
		}
		b, t1 := g.mutCount(p)
		q := &pbuf{b: b, bounds: p.bounds}
		b2, t2 := g.mutTrunc(q)
		return b2, t1 + "+" + t2
	default:
		return g.sizeClass(cmdForSizes)
	}
}

func makeLibCase(c *libCorpus, seed uint64, n int) *libCase {
	r := vlib.NewRand(seed).Fork(fmt.Sprint("lib/", n))
	g := &gen{r: r}
	lc := &libCase{Entry: libEntries[n%len(libEntries)]}
	switch lc.Entry {
	case "btc.NewTx", "btc.TxSize", "btc.tx-inspectors":
		t := c.txs[r.Intn(len(c.txs))]
		if r.Intn(3) == 0 {
			t = g.oddTxNoChain()
		}
		lc.In, lc.Family = g.mutate(t.build(true), "tx")
		lc.Aux = [][]byte{g.randScript(r.Intn(60))}
	case "btc.NewBlock+BuildTxList":
		b := c.blocks[r.Intn(len(c.blocks))]
		lc.In, lc.Family = g.mutate(b.build(), "headers")
	case "btc.GetOpcode", "btc.script-predicates", "script.compress":
		n := []int{0, 1, 2, 5, 22, 23, 25, 34, 35, 67, 100, 520, 10001}[r.Intn(13)]
		lc.In = g.randScript(n)
		lc.Family = "randscript"
		if r.Intn(3) == 0 {
			lc.In = r.Bytes(n)
			lc.Family = "randbytes"
		}
		if r.Intn(4) == 0 { // templates with one byte off
			tpl := [][]byte{append(append([]byte{0x76, 0xa9, 0x14}, make([]byte, 20)...), 0x88, 0xac), append(append([]byte{0xa9, 0x14}, make([]byte, 20)...), 0x87),
				append([]byte{0x00, 0x14}, make([]byte, 20)...), append([]byte{0x51, 0x20}, make([]byte, 32)...), append(append([]byte{0x21}, make([]byte, 33)...), 0xac),
				append(append([]byte{0x41}, make([]byte, 65)...), 0xac), append([]byte{0x60, 0x28}, make([]byte, 40)...)}
			t := append([]byte{}, tpl[r.Intn(len(tpl))]...)
			switch r.Intn(3) {
			case 0:
				t = t[:len(t)-1]
			case 1:
				t = append(t, 0)
			case 2:
				t[r.Intn(len(t))] ^= byte(1 << r.Intn(8))
			}
			lc.In, lc.Family = t, "template-off-by-one"
		}
	case "gscript.VerifyTxScript":
		makeScriptCase(g, lc)
	case "btc.NewSignature", "secp256k1.parse":
		s := append([]byte{}, c.sigs[r.Intn(len(c.sigs))]...)
		switch r.Intn(6) {
		case 0:
			s = s[:r.Intn(len(s)+1)]
			lc.Family = "trunc"
		case 1:
			s[1+r.Intn(5)%len(s)] = byte(r.U64())
			lc.Family = "lenbyte"
		case 2:
			if len(s) > 3 {
				s[3] = []byte{0, 0x80, 0xff, byte(len(s)), byte(len(s) - 5), byte(len(s) - 6), byte(len(s) - 4)}[r.Intn(7)]
			}
			lc.Family = "rlen"
		case 3:
			s = r.Bytes(r.Intn(80))
			if len(s) > 0 && r.Intn(2) == 0 {
				s[0] = 0x30
			}
			lc.Family = "rand"
		case 4:
			s[r.Intn(len(s))] ^= byte(1 << r.Intn(8))
			lc.Family = "bitflip"
		default:
			s = append(s, r.Bytes(r.Intn(4))...)
			lc.Family = "trailing"
		}
		lc.In = s
	case "btc.NewPublicKey":
		n := []int{0, 1, 32, 33, 33, 33, 34, 64, 65, 65, 66}[r.Intn(11)]
		k := r.Bytes(n)
		if n > 0 {
			k[0] = []byte{2, 3, 4, 6, 7, 0, 5, 0xff}[r.Intn(8)]
		}
		if r.Intn(4) == 0 && n >= 33 {
			for i := 1; i < 33; i++ {
				k[i] = 0xff // x >= p
			}
		}
		lc.In, lc.Family = k, fmt.Sprint("len", n)
	case "btc.NewAddrFromString", "btc.Decodeb58+bech32":
		a := []byte(c.addrs[r.Intn(len(c.addrs))])
		switch r.Intn(7) {
		case 0:
			a = a[:r.Intn(len(a)+1)]
			lc.Family = "trunc"
		case 1:
			a[r.Intn(len(a))] = byte(r.U64())
			lc.Family = "bytesub"
		case 2:
			a = append(a, a...)
			a = append(a, a...)
			lc.Family = "long"
		case 3:
			a = r.Bytes(r.Intn(100))
			lc.Family = "rand"
		case 4:
			a[r.Intn(len(a))] = "0OIl1bc"[r.Intn(7)]
			lc.Family = "charset"
		case 5:
			a = []byte(strings.ToUpper(string(a)))
			lc.Family = "upper"
		default:
			a = append([]byte("bc1"), []byte(strings.Repeat("q", r.Intn(120)))...)
			lc.Family = "bech32-run"
		}
		lc.In = a
	}
	// exact capacity: the parsers slice beyond len() when the capacity allows it; network payloads
	// and block bodies are exact-size allocations, so the corpus is as well
	lc.In = append(make([]byte, 0, len(lc.In)), lc.In...)
	return lc
}

// oddTxNoChain is oddTx without references to a harness chain.
func (g *gen) oddTxNoChain() *hTx {
	t := &hTx{Version: 2, LockTime: uint32(g.r.Intn(3))}
	for i := g.r.Intn(4); i >= 0; i-- {
		var p [32]byte
		g.r.Fill(p[:])
		in := hTxIn{Prev: p, Vout: uint32(g.r.Intn(3)), Script: g.randScript(g.r.Intn(30)), Sequence: 0xffffffff}
		for k := g.r.Intn(3); k > 0; k-- {
			in.Witness = append(in.Witness, g.randScript(g.r.Intn(40)))
		}
		if g.r.Intn(3) == 0 {
			// what the inscription detector (Tx.ContainsOrdFile, used by the block statistics) looks for: a tapscript that
			// starts with a 32-byte push followed by the "ord" envelope - whole, and cut at every length around the
			// offsets it indexes
			env := append([]byte{0x20}, g.r.Bytes(32)...)
			env = append(env, 0xac, 0x00, 0x63, 0x03, 0x6f, 0x72, 0x64, 0x01, 0x01, 0x0a, 0x74, 0x65, 0x78, 0x74, 0x2f, 0x70, 0x6c, 0x61, 0x69, 0x6e, 0x00, 0x02, 0x68, 0x69, 0x68)
			if g.r.Intn(4) != 0 {
				env = env[:1+g.r.Intn(len(env))]
				if g.r.Intn(2) == 0 {
					env = env[:min(len(env), 30+g.r.Intn(14))]
				}
			}
			in.Witness = append(in.Witness, env)
		}
		t.In = append(t.In, in)
	}
	for i := g.r.Intn(3); i >= 0; i-- {
		t.Out = append(t.Out, hTxOut{Value: uint64(g.r.Intn(100000)), Script: g.randScript(g.r.Intn(40))})
	}
	return t
}

func pushData(d []byte) []byte {
	switch {
	case len(d) < 0x4c:
		return append([]byte{byte(len(d))}, d...)
	case len(d) <= 0xff:
		return append([]byte{0x4c, byte(len(d))}, d...)
	default:
		return append([]byte{0x4d, byte(len(d)), byte(len(d) >> 8)}, d...)
	}
}

// makeScriptCase: a spending transaction with one hostile input of a chosen script family.
func makeScriptCase(g *gen, lc *libCase) {
	r := g.r
	t := &hTx{Version: 2, LockTime: uint32(r.Intn(2)) * 500000001}
	var prev [32]byte
	r.Fill(prev[:])
	in := hTxIn{Prev: prev, Vout: 0, Sequence: []uint32{0xffffffff, 0, 1 << 22, 5}[r.Intn(4)]}
	var pk []byte
	rs := func(max int) []byte { return g.randScript(r.Intn(max)) }
	switch r.Intn(8) {
	case 0:
		lc.Family = "bare-random"
		pk = rs(80)
		in.Script = rs(40)
	case 1:
		lc.Family = "p2sh-random-redeem"
		red := rs(60)
		h := btc.Rimp160AfterSha256(red)
		pk = append(append([]byte{0xa9, 0x14}, h[:]...), 0x87)
		in.Script = append(rs(20), pushData(red)...)
	case 2:
		lc.Family = "p2wsh-random"
		ws := rs(80)
		h := sha256sum(ws)
		pk = append([]byte{0x00, 0x20}, h[:]...)
		for k := r.Intn(4); k > 0; k-- {
			in.Witness = append(in.Witness, rs(40))
		}
		in.Witness = append(in.Witness, ws)
	case 3:
		lc.Family = "p2wpkh-random-witness"
		pk = append([]byte{0x00, 0x14}, r.Bytes(20)...)
		for k := r.Intn(4); k > 0; k-- {
			in.Witness = append(in.Witness, r.Bytes([]int{0, 1, 33, 65, 71, 72}[r.Intn(6)]))
		}
	case 4:
		lc.Family = "p2tr-keypath-random"
		pk = append([]byte{0x51, 0x20}, r.Bytes(32)...)
		in.Witness = append(in.Witness, r.Bytes([]int{0, 1, 63, 64, 65, 66}[r.Intn(6)]))
		if r.Intn(3) == 0 {
			in.Witness = append(in.Witness, append([]byte{0x50}, r.Bytes(r.Intn(10))...)) // annex
		}
	case 5:
		lc.Family = "p2tr-scriptpath-random"
		pk = append([]byte{0x51, 0x20}, r.Bytes(32)...)
		for k := r.Intn(3); k > 0; k-- {
			in.Witness = append(in.Witness, rs(40))
		}
		in.Witness = append(in.Witness, rs(60))
		cb := r.Bytes([]int{0, 1, 32, 33, 34, 65, 97, 33 + 32*128, 33 + 32*129}[r.Intn(9)])
		if len(cb) > 0 {
			cb[0] = []byte{0xc0, 0xc1, 0xc2, 0x50, 0x00}[r.Intn(5)]
		}
		in.Witness = append(in.Witness, cb)
	case 6:
		lc.Family = "witness-program-odd"
		ver := []byte{0x00, 0x51, 0x52, 0x60}[r.Intn(4)]
		n := []int{1, 2, 19, 20, 21, 31, 32, 33, 40, 41}[r.Intn(10)]
		pk = append([]byte{ver, byte(n)}, r.Bytes(n)...)
		for k := r.Intn(3); k > 0; k-- {
			in.Witness = append(in.Witness, rs(40))
		}
		if r.Intn(2) == 0 { // nested in P2SH
			h := btc.Rimp160AfterSha256(pk)
			in.Script = pushData(pk)
			pk = append(append([]byte{0xa9, 0x14}, h[:]...), 0x87)
			lc.Family += "-p2sh"
		}
	case 7:
		lc.Family = "checksig-family"
		sig := append([]byte{}, vlib.UnHex("304402203f16c7f6b2e3a1d1c5e8d1a5b6c7d8e9f0a1b2c3d4e5f60718293a4b5c6d7e8f02201a2b3c4d5e6f708192a3b4c5d6e7f8091a2b3c4d5e6f708192a3b4c5d6e7f80901")...)
		sig[r.Intn(len(sig))] = byte(r.U64())
		key := append([]byte{byte(2 + r.Intn(2))}, r.Bytes(32)...)
		in.Script = pushData(sig)
		pk = append(pushData(key), []byte{0xac, 0xad, 0xae, 0xaf, 0xba}[r.Intn(5)])
		if r.Intn(2) == 0 {
			pk = append([]byte{byte(0x50 + r.Intn(17))}, pk...)
			pk = append(pk, byte(0x50+r.Intn(17)), 0xae)
		}
	}
	t.In = []hTxIn{in}
	if r.Intn(3) == 0 {
		t.In = append(t.In, hTxIn{Prev: prev, Vout: 1, Sequence: 0xffffffff})
	}
	t.Out = []hTxOut{{Value: 1000, Script: opTrue}}
	lc.In = t.ser()
	lc.Aux = [][]byte{pk}
	flagSets := []uint32{0, gscript.VER_P2SH, gscript.VER_P2SH | gscript.VER_DERSIG | gscript.VER_CLTV | gscript.VER_CSV | gscript.VER_WITNESS | gscript.VER_NULLDUMMY,
		gscript.VER_P2SH | gscript.VER_DERSIG | gscript.VER_CLTV | gscript.VER_CSV | gscript.VER_WITNESS | gscript.VER_NULLDUMMY | gscript.VER_TAPROOT,
		gscript.STANDARD_VERIFY_FLAGS, uint32(r.U64()) & 0x1fffff}
	lc.Flags = flagSets[r.Intn(len(flagSets))]
	// flag combinations the verifier rejects with a deliberate panic (caller error, as in Core's asserts)
	if lc.Flags&gscript.VER_CLEANSTACK != 0 {
		lc.Flags |= gscript.VER_P2SH | gscript.VER_WITNESS
	}
	if lc.Flags&gscript.VER_WITNESS != 0 {
		lc.Flags |= gscript.VER_P2SH
	}
}

type libStats struct {
	Calls      map[string]int64
	Families   map[string]int64
	Accepted   map[string]int64 // parser returned an object
	Fail       []libFail
	Steps      int64
	MaxCaseUs  int64
	Slow       []string // cases that took more than a second
	Samples    []string
}

type libFail struct {
	Case   int
	Entry  string
	Family string
	Kind   string // "panic" | "noprogress"
	Msg    string
	Frames []string
	Input  string
}

var libProgress atomic.Int64

// execLibCase runs one case; panics propagate to the caller's recover.
func execLibCase(lc *libCase, st *libStats) {
	ok := func() { st.Accepted[lc.Entry]++ }
	switch lc.Entry {
	case "btc.NewTx":
		if tx, n := btc.NewTx(lc.In); tx != nil {
			ok()
			if n > len(lc.In) || n <= 0 {
				panic(fmt.Sprintf("oracle: NewTx consumed %d of %d bytes", n, len(lc.In)))
			}
			tx.SetHash(lc.In[:n])
			_ = tx.WTxID()
			_ = tx.Serialize()
		}
	case "btc.TxSize":
		n := btc.TxSize(lc.In)
		if n != 0 {
			ok()
		}
	case "btc.tx-inspectors":
		if tx, n := btc.NewTx(lc.In); tx != nil && n <= len(lc.In) {
			ok()
			tx.SetHash(lc.In[:n])
			_ = tx.GetLegacySigOpCount()
			_ = tx.CheckTransaction()
			_ = tx.IsCoinBase()
			_ = tx.Weight()
			_ = tx.VSize()
			_ = tx.IsFinal(100, 1700000000)
			tx.ContainsOrdFile(false)
			for i := range tx.TxIn {
				_ = tx.CountWitnessSigOps(i, lc.Aux[0])
				if btc.IsP2SH(lc.Aux[0]) {
					_ = btc.GetP2SHSigOpCount(tx.TxIn[i].ScriptSig)
				}
			}
		}
	case "btc.NewBlock+BuildTxList":
		bl, er := btc.NewBlock(lc.In)
		if er == nil && bl != nil {
			if bl.BuildTxList() == nil {
				ok()
				bl.MerkleRootMatch()
				bl.GetUserInfo()
			}
			b2, _ := btc.NewBlock(lc.In)
			if b2 != nil {
				b2.BuildTxListExt(false)
			}
		}
	case "btc.GetOpcode":
		p := lc.In
		for steps := 0; len(p) > 0; steps++ {
			_, _, n, e := btc.GetOpcode(p)
			st.Steps++
			if e != nil {
				break
			}
			if n <= 0 || n > len(p) {
				panic(fmt.Sprintf("oracle:noprogress GetOpcode returned n=%d with %d bytes left", n, len(p)))
			}
			p = p[n:]
		}
		ok()
	case "btc.script-predicates":
		s := lc.In
		_ = btc.GetSigOpCount(s, true)
		_ = btc.GetSigOpCount(s, false)
		_ = btc.GetP2SHSigOpCount(s)
		_ = btc.IsPushOnly(s)
		_, _ = btc.IsWitnessProgram(s)
		_ = btc.IsP2SH(s)
		_ = btc.IsPayToScript(s)
		_ = btc.NewAddrFromPkScript(s, false)
		_ = btc.NewAddrFromPkScript(s, true)
		_ = gscript.IsP2KH(s)
		_ = gscript.IsP2WPKH(s)
		_ = gscript.IsP2WSH(s)
		_ = gscript.IsP2TAP(s)
		_, _ = gscript.IsP2PK(s)
		_ = gscript.IsUnspendable(s)
		_ = gscript.IsValidSignatureEncoding(s)
		_ = gscript.IsDefinedHashtypeSignature(s)
		_ = gscript.CheckSignatureEncoding(s, gscript.STANDARD_VERIFY_FLAGS)
		_ = gscript.IsCompressedOrUncompressedPubKey(s)
		ok()
	case "script.compress":
		c := gscript.CompressScript(lc.In) // (DecompressScript reads the node's own database, not peer data)
		if c != nil {
			_ = gscript.DecompressScript(c)
			ok()
		}
	case "gscript.VerifyTxScript":
		tx, n := btc.NewTx(lc.In)
		if tx == nil {
			panic("oracle: harness-built transaction does not parse")
		}
		tx.SetHash(lc.In[:n])
		tx.AllocVerVars()
		tx.Spent_outputs = make([]*btc.TxOut, len(tx.TxIn))
		for i := range tx.Spent_outputs {
			tx.Spent_outputs[i] = &btc.TxOut{Value: 5000, Pk_script: lc.Aux[0]}
		}
		if gscript.VerifyTxScript(lc.Aux[0], &gscript.SigChecker{Amount: 5000, Idx: 0, Tx: tx}, lc.Flags) {
			ok()
		}
	case "btc.NewSignature":
		if s, e := btc.NewSignature(lc.In); e == nil && s != nil {
			ok()
			_ = s.IsLowS()
		}
	case "secp256k1.parse":
		var s secp256k1.Signature
		if s.ParseBytes(lc.In) >= 0 {
			ok()
		}
		var xy secp256k1.XY
		xy.ParsePubkey(lc.In)
	case "btc.NewPublicKey":
		if k, e := btc.NewPublicKey(lc.In); e == nil && k != nil {
			ok()
			_ = k.Bytes(true)
		}
	case "btc.NewAddrFromString":
		if a, e := btc.NewAddrFromString(string(lc.In)); e == nil && a != nil {
			ok()
			_ = a.String()
		}
	case "btc.Decodeb58+bech32":
		if d := btc.Decodeb58(string(lc.In)); d != nil {
			ok()
		}
		bech32.Decode(string(lc.In))
		bech32.SegwitDecode("bc", string(lc.In))
	}
}

func libChildMain(args []string) {
	seed, _ := strconv.ParseUint(args[0], 10, 64)
	from, _ := strconv.Atoi(args[1])
	to, _ := strconv.Atoi(args[2])
	marker, statsPath, logPath := args[3], args[4], args[5]
	lim := syscall.Rlimit{Cur: addrSpaceCap, Max: addrSpaceCap}
	syscall.Setrlimit(syscall.RLIMIT_AS, &lim)
	lf, _ := os.OpenFile(logPath, os.O_RDWR|os.O_CREATE|os.O_APPEND, 0o644)
	syscall.Dup2(int(lf.Fd()), 1)
	syscall.Dup2(int(lf.Fd()), 2)
	mf, err := os.OpenFile(marker, os.O_WRONLY|os.O_CREATE, 0o644)
	if err != nil {
		os.Exit(exitBroken)
	}
	gscript.DBG_ERR = false
	st := &libStats{Calls: map[string]int64{}, Families: map[string]int64{}, Accepted: map[string]int64{}}
	corpus := newLibCorpus()
	writeStats := func() {
		b, _ := json.Marshal(st)
		os.WriteFile(statsPath, b, 0o644)
	}
	// liveness watchdog: a case that does not finish is dumped and the child leaves
	go func() {
		last, since := int64(-1), time.Now()
		for {
			time.Sleep(time.Second)
			cur := libProgress.Load()
			if cur != last {
				last, since = cur, time.Now()
				continue
			}
			if time.Since(since) > wdog() {
				fmt.Fprintf(os.Stderr, "LIB-HANG case=%d\n%s\n", cur, allStacks())
				os.Exit(exitHang)
			}
		}
	}()
	var buf [8]byte
	for n := from; n < to; n++ {
		lc := makeLibCase(corpus, seed, n)
		binary.LittleEndian.PutUint64(buf[:], uint64(n))
		mf.WriteAt(buf[:], 0)
		libProgress.Store(int64(n))
		st.Calls[lc.Entry]++
		fam := normTag(lc.Family)
		if k := strings.IndexAny(fam, "=+"); k > 0 {
			fam = fam[:k]
		}
		st.Families[lc.Entry+"|"+fam]++
		t0 := time.Now()
		func() {
			defer func() {
				if r := recover(); r != nil {
					stack := make([]byte, 16384)
					stack = stack[:runtime.Stack(stack, false)]
					msg := fmt.Sprint(r)
					kind := "panic"
					if strings.HasPrefix(msg, "oracle:noprogress") {
						kind = "noprogress"
					}
					_, fr, _ := panicInfoPlain(string(stack))
					if len(st.Fail) < 200 {
						st.Fail = append(st.Fail, libFail{Case: n, Entry: lc.Entry, Family: lc.Family, Kind: kind, Msg: msg, Frames: fr, Input: abbreviate(lc.In)})
					}
				}
			}()
			execLibCase(lc, st)
		}()
		us := time.Since(t0).Microseconds()
		if us > st.MaxCaseUs {
			st.MaxCaseUs = us
		}
		if us > 20000 {
			dropGarbage()
		}
		if n%4999 == 7 && len(st.Samples) < 3 {
			st.Samples = append(st.Samples, fmt.Sprintf("case %d %s [%s] input %s", n, lc.Entry, lc.Family, abbreviate(lc.In)))
		}
		if us > 1e6 && len(st.Slow) < 50 {
			st.Slow = append(st.Slow, fmt.Sprintf("case %d %s [%s] %d ms", n, lc.Entry, lc.Family, us/1000))
			writeStats()
		}
		if n%1000 == 0 {
			writeStats()
		}
	}
	writeStats()
	binary.LittleEndian.PutUint64(buf[:], ^uint64(0))
	mf.WriteAt(buf[:], 0)
	os.Exit(exitOK)
}

type libWitness struct {
	Seed   int64    `json:"seed"`
	Entry  string   `json:"lib_entry"`
	Case   int      `json:"lib_case"`
	Family string   `json:"family"`
	Input  string   `json:"input_hex"`
	Aux    []string `json:"aux_hex,omitempty"`
	Flags  uint32   `json:"flags,omitempty"`
	Msg    string   `json:"message,omitempty"`
	Stack  string   `json:"stack,omitempty"`
	HowTo  string   `json:"replay"`
}

func libWitnessOf(seed int64, n int, corpus *libCorpus) *libWitness {
	lc := makeLibCase(corpus, uint64(seed), n)
	w := &libWitness{Seed: seed, Entry: lc.Entry, Case: n, Family: lc.Family, Input: abbreviate(lc.In), Flags: lc.Flags,
		HowTo: fmt.Sprintf("VERIF_SEED=%d ./check C18 --libcase %d", seed, n)}
	for _, a := range lc.Aux {
		w.Aux = append(w.Aux, hex.EncodeToString(a))
	}
	return w
}

func runLibrary(total int) {
	corpus := newLibCorpus()
	per := total / 12
	if per > 100000 {
		per = 100000
	}
	if per < 1 {
		per = total
	}
	type seg struct{ from, to int }
	var segs []seg
	for s := 0; s < total; s += per {
		e := s + per
		if e > total {
			e = total
		}
		segs = append(segs, seg{s, e})
	}
	vlib.Parallel(len(segs), 5, func(i int) {
		cur := segs[i].from
		attempt := 0
		for cur < segs[i].to && !abortRun.Load() {
			attempt++
			marker := filepath.Join(tmp, fmt.Sprintf("lib%d-%d.m", i, attempt))
			stats := filepath.Join(tmp, fmt.Sprintf("lib%d-%d.s", i, attempt))
			logp := filepath.Join(tmp, fmt.Sprintf("lib%d-%d.l", i, attempt))
			res := vlib.RunChild(self, []string{"libchild", fmt.Sprint(run.Seed), fmt.Sprint(cur), fmt.Sprint(segs[i].to), marker, stats, logp}, childEnv(), nil, 30*time.Minute)
			run.Count("lib.children", 1)
			var st libStats
			if b, err := os.ReadFile(stats); err == nil {
				json.Unmarshal(b, &st)
			}
			at := -1
			if b, err := os.ReadFile(marker); err == nil && len(b) >= 8 {
				v := binary.LittleEndian.Uint64(b)
				if v != ^uint64(0) {
					at = int(v)
				}
			}
			for _, f := range st.Fail {
				w := libWitnessOf(run.Seed, f.Case, corpus)
				w.Msg = f.Msg
				w.Stack = strings.Join(f.Frames, " <- ")
				if strings.HasPrefix(f.Msg, "oracle:") && f.Kind != "noprogress" {
					run.Inconclusive("library case %d (%s): %s", f.Case, f.Entry, f.Msg)
					continue
				}
				if f.Kind == "noprogress" {
					run.Violation("lib-noprogress/"+f.Entry, f.Msg, w)
					continue
				}
				run.Violation("lib-panic:"+panicKind(f.Msg)+"/"+f.Entry+"@"+innermost(f.Frames),
					fmt.Sprintf("%s panicked on hostile input (family %s): %s", f.Entry, f.Family, f.Msg), w)
			}
			if res.ExitCode == exitOK && !res.TimedOut {
				accountLib(&st, corpus, cur, segs[i].to)
				cur = segs[i].to
				continue
			}
			logb, _ := os.ReadFile(logp)
			if at < 0 {
				run.Inconclusive("library child died outside a case (exit %d %s): %s", res.ExitCode, res.Signal, tail(string(logb), 500))
				return
			}
			// stats of a dead child are partial (written every 20000 cases); count what is certain
			accountLib(&st, corpus, cur, at+1)
			w := libWitnessOf(run.Seed, at, corpus)
			switch {
			case res.TimedOut:
				run.Inconclusive("library child watchdog fired at case %d (%s)", at, w.Entry)
			case res.ExitCode == exitHang && func() bool {
				if n := hangSuspects.Add(1); n > 40 && run.Violations() > 0 && !abortRun.Load() {
					abortRun.Store(true)
					run.Inconclusive("more than 40 cases ran into the watchdog and violations are already established: the remaining work is not run")
				}
				return hangConfirmed("lib-hang/" + w.Entry)
			}():
				run.Count("lib.hang_suspects_at_a_site_already_confirmed_in_this_run", 1)
			case res.ExitCode == exitHang:
				var same atomic.Int32
				vlib.Parallel(3, 3, func(k int) {
					if libAloneW(run.Seed, at, fmt.Sprint("h", k), fmt.Sprint(2*int(scriptWdog/time.Second))) == "hang" {
						same.Add(1)
					}
				})
				w.Stack = tail(string(logb), 4000)
				if same.Load() == 3 {
					markHangConfirmed("lib-hang/" + w.Entry)
					run.Violation("lib-hang/"+w.Entry, fmt.Sprintf("%s does not return within %v on this input (3/3 alone)", w.Entry, 2*scriptWdog), w)
				} else {
					run.Inconclusive("library case %d (%s) exceeded the watchdog once, reproduced %d/3; main goroutine was in: %s", at, w.Entry, same.Load(), mainGoroutine(string(logb)))
				}
			default:
				kind, msg, frames := crashInfo(string(logb))
				w.Msg = msg
				w.Stack = tail(crashExcerpt(string(logb)), 4000)
				run.Count("lib.child_deaths", 1)
				if n := hangSuspects.Add(1); n > 60 && run.Violations() > 0 && !abortRun.Load() {
					abortRun.Store(true)
					run.Inconclusive("more than 60 cases killed the process or ran into the watchdog and violations are already established: the remaining work is not run")
				}
				run.Violation("lib-"+kind+"/"+w.Entry+"@"+innermost(frames),
					fmt.Sprintf("process died inside %s (family %s): %s; stack: %s", w.Entry, w.Family, msg, strings.Join(frames, " <- ")), w)
			}
			cur = at + 1
		}
	})
}

// accountLib records cases [from,to) as executed. Entry points and families are recomputed from the
// generator (a dead child cannot report them); the accepted-counts come from the child's last stats
// file and are therefore lower bounds.
func accountLib(st *libStats, corpus *libCorpus, from, to int) {
	for n := from; n < to; n++ {
		lc := makeLibCase(corpus, uint64(run.Seed), n)
		fam := normTag(lc.Family)
		if k := strings.IndexAny(fam, "=+"); k > 0 {
			fam = fam[:k]
		}
		run.Count("lib.calls", 1)
		run.Count("lib.entry."+lc.Entry, 1)
		run.Distinct("nontrivial", "lib", lc.Entry, normTag(lc.Family))
		run.Distinct("lib.entry_x_family", lc.Entry, fam)
	}
	for k, v := range st.Accepted {
		run.Count("lib.accepted(lower bound)."+k, v)
	}
	for _, sm := range st.Samples {
		if run.WantSample() {
			run.Sample(sm)
		}
	}
	for _, sl := range st.Slow {
		run.Count("lib.slow_cases(>1s)", 1)
		if os.Getenv("C18_DEBUG") != "" {
			fmt.Println("SLOW", sl)
		}
	}
	run.Count("lib.getopcode_steps", st.Steps)
}

func innermost(frames []string) string {
	if len(frames) == 0 {
		return "unknown"
	}
	return shortFn(frames[0])
}

// libAlone runs one library case in a fresh child.
func libAlone(seed int64, n int, tag string) string { return libAloneW(seed, n, tag, "") }

func libAloneW(seed int64, n int, tag string, wd string) string {
	marker := filepath.Join(tmp, fmt.Sprintf("libone-%s-%d.m", tag, n))
	stats := filepath.Join(tmp, fmt.Sprintf("libone-%s-%d.s", tag, n))
	logp := filepath.Join(tmp, fmt.Sprintf("libone-%s-%d.l", tag, n))
	env := childEnv()
	if wd != "" {
		env = append(env, "C18_WDOG="+wd)
	}
	res := vlib.RunChild(self, []string{"libchild", fmt.Sprint(seed), fmt.Sprint(n), fmt.Sprint(n + 1), marker, stats, logp}, env, nil, 4*time.Minute)
	switch {
	case res.TimedOut:
		return "watchdog"
	case res.ExitCode == exitHang:
		return "hang"
	case res.ExitCode == exitOK:
		var st libStats
		if b, err := os.ReadFile(stats); err == nil {
			json.Unmarshal(b, &st)
		}
		if len(st.Fail) > 0 {
			return "panic: " + st.Fail[0].Msg
		}
		return "ok"
	}
	logb, _ := os.ReadFile(logp)
	return "dead: " + tail(crashExcerpt(string(logb)), 1500)
}

func replayLib(seed int64, entry string, n int) {
	w := libWitnessOf(seed, n, newLibCorpus())
	b, _ := json.MarshalIndent(w, "", " ")
	fmt.Println(string(b))
	fmt.Println("result:", libAlone(seed, n, "replay"))
}
