// C18, 32-bit library worker. The client does not build for 32-bit targets, the library (and the wallet that
// uses it) does: int is 32 bits wide there, so lengths and counts taken from untrusted bytes can wrap. This small
// program (built with GOARCH=386 by ./check, variant "x386") feeds hostile byte strings to the library's parsers of
// untrusted data - script opcode walkers, sigop counters, script templates, the interpreter, transaction / block
// decoders, address, key and signature parsers - every call under recover, every case journaled before it runs.
//
//	c18.x386 <seed> <from> <to> <journal> <result.json>
//
// Result: {"Calls": {entry: n}, "Families": {...}, "Fail": [{Case, Entry, Family, Msg, Frames, Input}]}. A case
// that kills the process (fatal error) is identified by the journal; the parent re-runs the rest.
package main

import (
	"encoding/binary"
	"encoding/hex"
	"encoding/json"
	"fmt"
	"os"
	"runtime"
	"strconv"
	"strings"

	"github.com/piotrnar/gocoin/lib/btc"
	"github.com/piotrnar/gocoin/lib/others/bech32"
	"github.com/piotrnar/gocoin/lib/script"
	"github.com/piotrnar/gocoin/lib/secp256k1"
	"github.com/piotrnar/gocoin/lib/utxo"

	"verif/lib/vlib"
)

type fail struct {
	Case   int
	Entry  string
	Family string
	Msg    string
	Frames []string
	Input  string
}

type result struct {
	Calls    map[string]int64
	Families map[string]int64
	Fail     []fail
	Done     int
}

var hugeLens = []uint32{0x7fffffff, 0x80000000, 0x80000001, 0xffffffff, 0xfffffffe, 0xfffffff0, 0x7ffffff0, 0x40000000, 0xc0000000, 0x10000, 0xffff}

// scriptCase builds a byte string that looks like a script: ordinary opcodes and pushes, with one or more push
// opcodes whose length field is hostile (beyond the remaining bytes, around 2^31 and 2^32).
func scriptCase(r *vlib.Rand) ([]byte, string) {
	var s []byte
	fam := "script/soup"
	n := 1 + r.Intn(12)
	hostileAt := r.Intn(n)
	for i := 0; i < n; i++ {
		if i == hostileAt {
			switch r.Intn(7) {
			case 0, 1: // PUSHDATA4 with a huge length
				l := hugeLens[r.Intn(len(hugeLens))]
				if r.Intn(4) == 0 {
					l += uint32(r.Intn(64)) - 32
				}
				s = append(s, 0x4e, byte(l), byte(l>>8), byte(l>>16), byte(l>>24))
				s = append(s, r.Bytes(r.Intn(40))...)
				fam = "script/pushdata4-huge"
			case 2: // PUSHDATA4 cut inside its length field
				s = append(s, 0x4e)
				s = append(s, r.Bytes(r.Intn(4))...)
				fam = "script/pushdata4-cut"
				return s, fam
			case 3: // PUSHDATA2 beyond the end
				l := uint16(r.Intn(0x10000))
				s = append(s, 0x4d, byte(l), byte(l>>8))
				s = append(s, r.Bytes(r.Intn(40))...)
				fam = "script/pushdata2-beyond"
			case 4: // PUSHDATA1 beyond the end
				s = append(s, 0x4c, byte(r.Intn(256)))
				s = append(s, r.Bytes(r.Intn(20))...)
				fam = "script/pushdata1-beyond"
			case 5: // direct push beyond the end
				s = append(s, byte(1+r.Intn(75)))
				s = append(s, r.Bytes(r.Intn(10))...)
				fam = "script/direct-push-beyond"
			default: // exact PUSHDATA4 (valid)
				d := r.Bytes(r.Intn(30))
				s = append(s, 0x4e, byte(len(d)), 0, 0, 0)
				s = append(s, d...)
				fam = "script/pushdata4-exact"
			}
			continue
		}
		switch r.Intn(5) {
		case 0:
			d := r.Bytes(1 + r.Intn(40))
			s = append(s, byte(len(d)))
			s = append(s, d...)
		case 1:
			s = append(s, []byte{0xac, 0xad, 0xae, 0xaf, 0x6a, 0xab, 0x63, 0x68, 0x87, 0xa9, 0x76, 0x51, 0x60, 0x00}[r.Intn(14)])
		case 2:
			s = append(s, byte(r.Intn(256)))
		case 3: // template heads
			t := [][]byte{{0x76, 0xa9, 0x14}, {0xa9, 0x14}, {0x00, 0x14}, {0x00, 0x20}, {0x51, 0x20}, {0x21}, {0x41}}[r.Intn(7)]
			s = append(s, t...)
			s = append(s, r.Bytes(r.Intn(34))...)
		default:
			s = append(s, 0x4c, 0x02, 0xaa, 0xbb)
		}
	}
	return s, fam
}

func compactSize(v uint64, form int) []byte {
	switch form {
	case 0:
		return []byte{byte(v)}
	case 1:
		return []byte{0xfd, byte(v), byte(v >> 8)}
	case 2:
		return []byte{0xfe, byte(v), byte(v >> 8), byte(v >> 16), byte(v >> 24)}
	}
	b := make([]byte, 9)
	b[0] = 0xff
	binary.LittleEndian.PutUint64(b[1:], v)
	return b
}

// txCase: a small transaction in which one count or length is replaced by a hostile CompactSize.
func txCase(r *vlib.Rand) ([]byte, string) {
	hostile := func() []byte {
		vals := []uint64{0x7fffffff, 0x80000000, 0xffffffff, 0x100000000, 0x7fffffffffffffff, 0x8000000000000000, 0xffffffffffffffff, 0x80000001, 0xfffffffe, 0x1fffffff, 0x20000000, 0x0fffffff}
		v := vals[r.Intn(len(vals))]
		if v <= 0xffffffff && r.Bool() {
			return compactSize(v, 2)
		}
		return compactSize(v, 3)
	}
	field := r.Intn(7)
	pick := func(i int, normal []byte) []byte {
		if i == field {
			return hostile()
		}
		return normal
	}
	segwit := r.Bool()
	b := []byte{1, 0, 0, 0}
	if segwit {
		b = append(b, 0, 1)
	}
	b = append(b, pick(0, []byte{1})...) // input count
	b = append(b, r.Bytes(32)...)
	b = append(b, 0, 0, 0, 0)
	ss := r.Bytes(r.Intn(20))
	b = append(b, pick(1, []byte{byte(len(ss))})...)
	b = append(b, ss...)
	b = append(b, 0xff, 0xff, 0xff, 0xff)
	b = append(b, pick(2, []byte{1})...) // output count
	b = append(b, r.Bytes(8)...)
	pk := r.Bytes(r.Intn(30))
	b = append(b, pick(3, []byte{byte(len(pk))})...)
	b = append(b, pk...)
	if segwit {
		b = append(b, pick(4, []byte{2})...) // witness item count
		w1 := r.Bytes(r.Intn(20))
		b = append(b, pick(5, []byte{byte(len(w1))})...)
		b = append(b, w1...)
		w2 := r.Bytes(r.Intn(20))
		b = append(b, pick(6, []byte{byte(len(w2))})...)
		b = append(b, w2...)
	}
	b = append(b, 0, 0, 0, 0)
	return b, fmt.Sprintf("tx/hostile-compactsize-field%d", field)
}

func debugStack() []byte { b := make([]byte, 8192); return b[:runtime.Stack(b, false)] }

func frames() []string {
	pc := make([]uintptr, 40)
	n := runtime.Callers(4, pc)
	fr := runtime.CallersFrames(pc[:n])
	var out []string
	for {
		f, more := fr.Next()
		if strings.Contains(f.Function, "github.com/piotrnar/gocoin/") {
			out = append(out, strings.TrimPrefix(f.Function, "github.com/piotrnar/gocoin/"))
		}
		if !more || len(out) >= 6 {
			break
		}
	}
	return out
}

func main() {
	if len(os.Args) < 6 {
		fmt.Println("usage: c18.x386 seed from to journal result")
		os.Exit(2)
	}
	script.DBG_ERR = false
	seed, _ := strconv.ParseUint(os.Args[1], 10, 64)
	from, _ := strconv.Atoi(os.Args[2])
	to, _ := strconv.Atoi(os.Args[3])
	jf, _ := os.OpenFile(os.Args[4], os.O_CREATE|os.O_WRONLY|os.O_TRUNC, 0o644)
	res := result{Calls: map[string]int64{}, Families: map[string]int64{}}
	if strconv.IntSize != 32 {
		res.Families["NOT-A-32-BIT-BUILD"] = 1
	}
	var cur struct {
		n      int
		entry  string
		family string
		input  []byte
	}
	call := func(entry string, f func()) {
		cur.entry = entry
		res.Calls[entry]++
		defer func() {
			if p := recover(); p != nil {
				if os.Getenv("X386_DEBUG") != "" {
					fmt.Fprintf(os.Stderr, "PANIC %v\n%s\n", p, debugStack())
					os.Exit(3)
				}
				res.Fail = append(res.Fail, fail{cur.n, entry, cur.family, fmt.Sprint(p), frames(), hex.EncodeToString(cur.input)})
			}
		}()
		f()
	}
	for n := from; n < to; n++ {
		r := vlib.NewRand(seed).Fork(fmt.Sprint("x386/", n))
		var in []byte
		var fam string
		kind := n % 4
		switch kind {
		case 0, 1:
			in, fam = scriptCase(r)
		case 2:
			in, fam = txCase(r)
		default:
			in = r.Bytes(1 + r.Intn(90))
			fam = "bytes/random"
		}
		cur.n, cur.family, cur.input = n, fam, in
		res.Families[fam]++
		var j [8]byte
		binary.LittleEndian.PutUint64(j[:], uint64(n))
		jf.WriteAt(j[:], 0)
		s := append([]byte(nil), in...) // exact capacity
		switch kind {
		case 0, 1, 3:
			call("btc.GetOpcode", func() {
				for p, steps := s, 0; len(p) > 0 && steps < 20000; steps++ {
					_, _, k, e := btc.GetOpcode(p)
					if e != nil || k <= 0 || k > len(p) {
						break
					}
					p = p[k:]
				}
			})
			call("btc.GetSigOpCount", func() { btc.GetSigOpCount(s, true); btc.GetSigOpCount(s, false) })
			call("btc.GetP2SHSigOpCount", func() { btc.GetP2SHSigOpCount(s) })
			call("btc.script-predicates", func() {
				btc.IsP2SH(s)
				btc.IsPayToScript(s)
				script.IsP2KH(s)
				script.IsP2SH(s)
				script.IsP2WPKH(s)
				script.IsP2WSH(s)
				script.IsP2TAP(s)
				script.IsP2PK(s)
				script.IsValidSignatureEncoding(s)
				script.IsDefinedHashtypeSignature(s)
				script.IsLowS(s)
				btc.IsPushOnly(s)
				btc.IsWitnessProgram(s)
				btc.NewAddrFromPkScript(s, false)
				script.IsUnspendable(s)
			})
			call("script.CompressScript", func() {
				c := script.CompressScript(s)
				if c != nil {
					script.DecompressScript(c)
				}
			})
			call("utxo.records", func() {
				rec := &utxo.UtxoRec{InBlock: 7, Outs: []*utxo.UtxoTxOut{{Value: 5, PKScr: s}}}
				utxo.NewUtxoRecOwnU(*utxo.SerializeU(rec, nil), &utxo.UtxoRec{}, nil)
				utxo.NewUtxoRecOwnC(*utxo.SerializeC(rec, nil), &utxo.UtxoRec{}, nil)
			})
			call("Tx.SignatureHash", func() {
				tx := &btc.Tx{Version: 1, TxIn: []*btc.TxIn{{Sequence: 1}}, TxOut: []*btc.TxOut{{Value: 1, Pk_script: []byte{0x51}}}}
				tx.AllocVerVars()
				tx.Spent_outputs = []*btc.TxOut{{Value: 5, Pk_script: []byte{0x51}}}
				tx.SignatureHash(s, 0, int32(r.Intn(256)))
				tx.WitnessSigHash(s, 5, 0, int32(r.Intn(256)))
			})
			call("script.VerifyTxScript", func() {
				// s as scriptPubKey with an empty scriptSig, and as scriptSig in front of OP_1
				for side := 0; side < 2; side++ {
					tx := &btc.Tx{Version: 2, TxIn: []*btc.TxIn{{Sequence: 0xffffffff}}, TxOut: []*btc.TxOut{{Value: 1, Pk_script: []byte{0x51}}}}
					pk := s
					if side == 1 {
						tx.TxIn[0].ScriptSig = s
						pk = []byte{0x51}
					}
					raw := tx.Serialize()
					t2, _ := btc.NewTx(raw)
					if t2 == nil {
						continue
					}
					t2.SetHash(raw)
					t2.AllocVerVars()
					t2.Spent_outputs = []*btc.TxOut{{Value: 10, Pk_script: pk}}
					flags := []uint32{0, script.VER_P2SH, script.VER_P2SH | script.VER_WITNESS | script.VER_TAPROOT, script.STANDARD_VERIFY_FLAGS}[r.Intn(4)]
					script.VerifyTxScript(pk, &script.SigChecker{Amount: 10, Idx: 0, Tx: t2}, flags)
				}
			})
			call("keys-and-signatures", func() {
				var xy secp256k1.XY
				xy.ParsePubkey(s)
				var sg secp256k1.Signature
				sg.ParseBytes(s)
				sg.ParseBytesLax(s)
				btc.NewSignature(s)
				btc.NewPublicKey(s)
				if len(s) > 33 {
					btc.EcdsaVerify(s[:33], s[33:], make([]byte, 32))
				}
			})
			call("addresses", func() {
				str := string(s)
				btc.NewAddrFromString(str)
				btc.DecodePrivateAddr(str)
				bech32.Decode(str)
				bech32.SegwitDecode("bc", str)
				btc.Decodeb58(str)
			})
		}
		if kind == 2 || kind == 3 {
			call("btc.NewTx", func() {
				if tx, _ := btc.NewTx(s); tx != nil {
					tx.Serialize()
					tx.SerializeNew()
				}
			})
			call("btc.TxSize", func() { btc.TxSize(s) })
			call("btc.NewBlock", func() {
				hdr := make([]byte, 80)
				raw := append(append(hdr, 1), s...)
				if bl, _ := btc.NewBlock(raw); bl != nil {
					bl.BuildTxList()
				}
			})
			call("btc.VLen", func() { btc.VLen(s); btc.VULe(s) })
		}
		res.Done = n + 1 - from
	}
	var j [8]byte
	binary.LittleEndian.PutUint64(j[:], ^uint64(0))
	jf.WriteAt(j[:], 0)
	jf.Close()
	b, _ := json.Marshal(res)
	os.WriteFile(os.Args[5], b, 0o644)
}
