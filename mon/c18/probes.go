package main

// Fixed minimal witnesses of the findings recorded in FINDINGS.md. They are addressed as scripts
// with indexes probeBase, probeBase-1, ... and go through the same machinery as generated scripts.

const probeBase = -100

var probeNames = []string{
	"F1 version: 82-byte payload, agent length 2",
	"F2 tx: 19 bytes, input count 2^40",
	"F3 getmp from an authorised peer: count 2^32-1",
	"F4 message header with the encrypted-length bit, no key",
	"F5 block: valid header, transaction count 0xffffffffffffffff",
	"F6a cmpctblock: prefilled tx whose computed size exceeds the payload",
	"F6b cmpctblock: prefilled differential indexes summing beyond the list",
	"F6c blocktxn: tx whose computed size exceeds the payload",
	"F7 blocktxn that delivers none of the requested transactions",
	"F8 inv: count 2^62+1 with one entry",
	"F9 getblocktxn: differential index 2^64-1",
	"F10 unsigned authack",
	"F11 cmpctblock: prefilled tx with input count 2^62 and data ending after the outpoint",
}

// probeFixed marks witnesses of defects that have been repaired in /repo meanwhile: they are still
// replayed (a reappearance is a VIOLATION, their classes are no longer listed as known), silence is expected.
var probeFixed = map[int]string{1: "7772e905", 4: "aca522c6", 5: "62303404", 7: "62303404", 9: "79673eae", 12: "62303404"}

func makeProbe(h *harness, k int) *script {
	g := &gen{h: h, r: newSelfTestRand("probe", uint32(k))}
	s := &script{Idx: probeBase - k, Kind: "fixed-witness"}
	add := func(cmd string, pl []byte) { s.Msgs = append(s.Msgs, wireMsg{Cmd: cmd, Pl: pl, Tag: "fixed"}) }
	ver := func() { add("version", g.plainVersion().b) }
	cat := func(parts ...[]byte) (r []byte) {
		for _, p := range parts {
			r = append(r, p...)
		}
		return
	}
	// a transaction for which btc.TxSize computes 65595 bytes although it has 64
	oversize := cat(le32(1), []byte{1}, make([]byte, 36), []byte{0}, le32(0xffffffff), []byte{1}, le64(1), []byte{0xfd, 0xff, 0xff})
	// a transaction announcing 2^62 inputs and ending right after the first outpoint
	spin := cat(le32(1), varintW(1<<62, 9), make([]byte, 36))
	cmpctHead := func() (*hBlock, []byte) {
		b := h.newTipBlock(nil)
		return b, cat(b.Hdr.ser(), le64(0x0102030405060708))
	}
	switch k {
	case 0:
		p := g.version(verOpts{version: 70016, services: 0x409, nonce: []byte{1, 2, 3, 4, 5, 6, 7, 8}, short: 3}).b // 80 bytes
		add("version", cat(p, []byte{2, 'a'}))
	case 1:
		ver()
		add("tx", cat(le32(1), varintW(1<<40, 9), make([]byte, 6)))
	case 2:
		ver()
		add("xauth", g.xauth(true).b)
		add("getmp", varintW(0xffffffff, 5))
	case 3:
		ver()
		s.Msgs = append(s.Msgs, wireMsg{Cmd: "ping", Pl: []byte{0}, Tag: "fixed", Encrypt: true})
	case 4:
		ver()
		b := h.newTipBlock(nil)
		add("block", cat(b.Hdr.ser(), varintW(^uint64(0), 9), make([]byte, 11)))
	case 5:
		ver()
		add("sendcmpct", g.sendcmpct(0, 2).b)
		_, hd := cmpctHead()
		add("cmpctblock", cat(hd, []byte{0, 1, 0}, oversize))
	case 6:
		ver()
		add("sendcmpct", g.sendcmpct(0, 2).b)
		b, hd := cmpctHead()
		add("cmpctblock", cat(hd, []byte{0, 2, 1}, b.Txs[0].ser(), []byte{0}, b.Txs[0].ser()))
	case 7, 8:
		ver()
		add("sendcmpct", g.sendcmpct(0, 2).b)
		b, hd := cmpctHead()
		add("cmpctblock", cat(hd, []byte{1, 9, 9, 9, 9, 9, 9, 1, 0}, b.Txs[0].ser())) // one unknown short id => getblocktxn
		if k == 7 {
			add("blocktxn", cat(b.Hash[:], []byte{1}, oversize))
		} else {
			add("blocktxn", cat(b.Hash[:], []byte{0}))
		}
	case 9:
		ver()
		hsh := h.blocks[10].Hash
		add("inv", cat(varintW(1<<62+1, 9), le32(invBlock), hsh[:]))
	case 10:
		ver()
		hsh := h.blocks[10].Hash
		add("getblocktxn", cat(hsh[:], []byte{1}, varintW(^uint64(0), 9)))
	case 11:
		ver()
		add("authack", nil)
	case 12:
		ver()
		add("sendcmpct", g.sendcmpct(0, 2).b)
		_, hd := cmpctHead()
		add("cmpctblock", cat(hd, []byte{0, 1, 0}, spin))
	}
	return s
}
