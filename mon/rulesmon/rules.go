// Package rulesmon implements the C04 / C05 monitors: a linear regtest-like chain is grown on the
// real node and on the reference model; at every height single-rule violators (and their valid
// neighbours across the boundary) are offered; after every delivery tip and full UTXO dump are
// compared with the reference, and a refused block must leave both unchanged.
package rulesmon

import (
	"crypto/sha256"
	"fmt"
	"math/big"
	"sync"

	"github.com/piotrnar/gocoin/lib/btc"
	"github.com/piotrnar/gocoin/lib/chain"
	"os"
	"strings"
	"time"

	"verif/lib/vlib"
	"verif/mon/chainsim"
	"verif/mon/forksmon"
	"verif/ref/refchain"
	"verif/ref/ripemd160"
)

type probe struct {
	name   string
	prop   string   // C04 or C05
	expect []string // acceptable reference reasons ("" = must be valid)
	build  func(c *ctx) *refchain.Block
}

type ctx struct {
	s           *chainsim.Sim
	g           *chainsim.Gen
	r           *vlib.Rand
	tip         *refchain.Node
	height      uint32
	view        refchain.UTXO
	avail       []refchain.OutPoint
	segwit, csv bool
	spentHist   []refchain.OutPoint
	now         int64
}

func (c *ctx) coin(op refchain.OutPoint) refchain.Coin { return c.view[op] }

// take removes and returns n spendable outpoints (nil if not enough)
func (c *ctx) take(n int) ([]refchain.OutPoint, []refchain.Coin) {
	if len(c.avail) < n {
		return nil, nil
	}
	var ops []refchain.OutPoint
	var cs []refchain.Coin
	for i := 0; i < n; i++ {
		j := c.r.Intn(len(c.avail))
		ops = append(ops, c.avail[j])
		cs = append(cs, c.view[c.avail[j]])
		c.avail[j] = c.avail[len(c.avail)-1]
		c.avail = c.avail[:len(c.avail)-1]
	}
	return ops, cs
}

// takeRound removes and returns the spendable coin whose amount has the most trailing decimal zeros (at least three;
// among equals the larger amount)
func (c *ctx) takeRound() (refchain.OutPoint, refchain.Coin, bool) {
	best, bz := -1, 2
	for j, op := range c.avail {
		v := c.view[op].Value
		z := 0
		for v > 0 && v%10 == 0 {
			v /= 10
			z++
		}
		if v > 0 && (z > bz || (z == bz && best >= 0 && c.view[op].Value > c.view[c.avail[best]].Value)) {
			best, bz = j, z
		}
	}
	if best < 0 {
		return refchain.OutPoint{}, refchain.Coin{}, false
	}
	op := c.avail[best]
	c.avail[best] = c.avail[len(c.avail)-1]
	c.avail = c.avail[:len(c.avail)-1]
	return op, c.view[op], true
}

func sum(cs []refchain.Coin) (v uint64) {
	for _, c := range cs {
		v += c.Value
	}
	return
}

// oneTxBlock wraps a single non-coinbase tx (fee claimed exactly unless delta given)
func (c *ctx) blockWith(txs []*refchain.Tx, fees uint64, spec chainsim.BlockSpec) *refchain.Block {
	spec.Parent = c.tip
	spec.Txs = txs
	spec.Fees = fees
	return c.g.Build(spec)
}

func (c *ctx) simpleSpend(version, locktime uint32, seqs []uint32, outsF func(in uint64) []refchain.TxOut) (*refchain.Tx, uint64) {
	n := 1
	if seqs != nil {
		n = len(seqs)
	}
	ops, cs := c.take(n)
	if ops == nil {
		return nil, 0
	}
	in := sum(cs)
	outs := outsF(in)
	var out uint64
	for _, o := range outs {
		out += o.Value
	}
	t := c.g.Spend(ops, cs, outs, version, locktime, seqs, -1)
	return t, in - out // may wrap when outs exceed ins: callers pass CoinbaseDelta accordingly
}

var probes []probe

// transactions chain.TrustedTxChecker vouches for (installed in Child)
var (
	vouchMu sync.Mutex
	vouched = map[refchain.Hash]bool{}
)

func vouch(id refchain.Hash) {
	vouchMu.Lock()
	vouched[id] = true
	vouchMu.Unlock()
}

func reg(name, prop string, expect []string, f func(c *ctx) *refchain.Block) {
	probes = append(probes, probe{name, prop, expect, f})
}

func init() {
	valid := []string{""}
	// ------------------------------------------------------------------ C05: header rules
	reg("pow/high-hash", "C05", []string{"high-hash"}, func(c *ctx) *refchain.Block {
		return c.g.Build(chainsim.BlockSpec{Parent: c.tip, FailPoW: true})
	})
	reg("bits/mantissa-1", "C05", []string{"bad-diffbits"}, func(c *ctx) *refchain.Block {
		req := c.g.P.RequiredBits(c.tip, c.tip.Time+600)
		return c.g.Build(chainsim.BlockSpec{Parent: c.tip, Time: c.tip.Time + 600, Bits: req - 1})
	})
	reg("bits/above-limit", "C05", []string{"high-hash", "bad-diffbits"}, func(c *ctx) *refchain.Block {
		return c.g.Build(chainsim.BlockSpec{Parent: c.tip, Bits: 0x2100ffff})
	})
	reg("bits/negative", "C05", []string{"high-hash"}, func(c *ctx) *refchain.Block {
		return c.g.Build(chainsim.BlockSpec{Parent: c.tip, Bits: 0x20ffffff})
	})
	reg("bits/zero-mantissa", "C05", []string{"high-hash"}, func(c *ctx) *refchain.Block {
		return c.g.Build(chainsim.BlockSpec{Parent: c.tip, Bits: 0x20000000})
	})
	reg("bits/overflow-exponent", "C05", []string{"high-hash"}, func(c *ctx) *refchain.Block {
		return c.g.Build(chainsim.BlockSpec{Parent: c.tip, Bits: 0xff123456})
	})
	reg("time/eq-mtp", "C05", []string{"time-too-old"}, func(c *ctx) *refchain.Block {
		return c.g.Build(chainsim.BlockSpec{Parent: c.tip, Time: c.tip.MTP()})
	})
	reg("time/below-mtp", "C05", []string{"time-too-old"}, func(c *ctx) *refchain.Block {
		return c.g.Build(chainsim.BlockSpec{Parent: c.tip, Time: c.tip.MTP() - uint32(1+c.r.Intn(1000))})
	})
	reg("version/too-low", "C05", []string{"bad-version"}, func(c *ctx) *refchain.Block {
		p := c.g.P
		var v uint32
		switch {
		case c.height >= p.BIP65:
			v = 1 + uint32(c.r.Intn(3))
		case c.height >= p.BIP66:
			v = 1 + uint32(c.r.Intn(2))
		case c.height >= p.BIP34:
			v = 1
		default:
			return nil
		}
		return c.g.Build(chainsim.BlockSpec{Parent: c.tip, Version: v})
	})
	// ------------------------------------------------------------------ C05: structure rules
	reg("coinbase/script-len-1", "C05", []string{"bad-cb-length"}, func(c *ctx) *refchain.Block {
		return c.g.Build(chainsim.BlockSpec{Parent: c.tip, CoinbaseScript: []byte{0x51}})
	})
	reg("coinbase/script-len-101", "C05", []string{"bad-cb-length"}, func(c *ctx) *refchain.Block {
		s := append(refchain.BIP34Prefix(c.height), c.r.Bytes(101)...)
		return c.g.Build(chainsim.BlockSpec{Parent: c.tip, CoinbaseScript: s[:101]})
	})
	reg("coinbase/bip34-wrong-height", "C05", []string{"bad-cb-height"}, func(c *ctx) *refchain.Block {
		if c.height < c.g.P.BIP34 {
			return nil
		}
		s := append(refchain.BIP34Prefix(c.height+1+uint32(c.r.Intn(3))), c.r.Bytes(4)...)
		return c.g.Build(chainsim.BlockSpec{Parent: c.tip, CoinbaseScript: s})
	})
	reg("coinbase/bip34-nonminimal-push", "C05", []string{"bad-cb-height"}, func(c *ctx) *refchain.Block {
		if c.height < c.g.P.BIP34 || c.height < 17 {
			return nil
		}
		pre := refchain.BIP34Prefix(c.height)
		// same number, one byte longer (padded with 00): not the required encoding
		s := append([]byte{pre[0] + 1}, pre[1:]...)
		s = append(s, 0x00)
		s = append(s, c.r.Bytes(4)...)
		return c.g.Build(chainsim.BlockSpec{Parent: c.tip, CoinbaseScript: s})
	})
	reg("coinbase/second-coinbase", "C05", []string{"bad-cb-multiple"}, func(c *ctx) *refchain.Block {
		cb2 := &refchain.Tx{Version: 1, In: []refchain.TxIn{{Prev: refchain.OutPoint{Idx: 0xffffffff}, ScriptSig: c.r.Bytes(8), Sequence: 0xffffffff}},
			Out: []refchain.TxOut{c.g.OutTrue(0)}}
		return c.blockWith([]*refchain.Tx{cb2}, 0, chainsim.BlockSpec{})
	})
	reg("coinbase/first-tx-not-coinbase", "C05", []string{"bad-cb-missing"}, func(c *ctx) *refchain.Block {
		t, fee := c.simpleSpend(1, 0, nil, func(in uint64) []refchain.TxOut { return []refchain.TxOut{c.g.OutTrue(in)} })
		if t == nil {
			return nil
		}
		return c.blockWith([]*refchain.Tx{t}, fee, chainsim.BlockSpec{NoCommitment: true, Tweak: func(b *refchain.Block) {
			b.Txs[0], b.Txs[1] = b.Txs[1], b.Txs[0]
		}})
	})
	reg("finality/locktime-eq-height", "C05", []string{"bad-txns-nonfinal"}, func(c *ctx) *refchain.Block {
		t, fee := c.simpleSpend(1, c.height, []uint32{0xfffffffe}, func(in uint64) []refchain.TxOut { return []refchain.TxOut{c.g.OutTrue(in - 10)} })
		if t == nil {
			return nil
		}
		return c.blockWith([]*refchain.Tx{t}, fee, chainsim.BlockSpec{})
	})
	reg("finality/locktime-eq-cutoff-time", "C05", []string{"bad-txns-nonfinal"}, func(c *ctx) *refchain.Block {
		bt := c.tip.Time + 600
		cut := bt
		if c.csv {
			cut = c.tip.MTP()
		}
		t, fee := c.simpleSpend(1, cut, []uint32{0}, func(in uint64) []refchain.TxOut { return []refchain.TxOut{c.g.OutTrue(in - 10)} })
		if t == nil {
			return nil
		}
		return c.blockWith([]*refchain.Tx{t}, fee, chainsim.BlockSpec{Time: bt})
	})
	reg("finality/mtp-vs-blocktime-window", "C05", []string{"bad-txns-nonfinal"}, func(c *ctx) *refchain.Block {
		// lock time between MTP(prev) and the block's own time: final by block time, not final by MTP
		if !c.csv {
			return nil
		}
		bt := c.tip.Time + 600
		lt := c.tip.MTP() + 1
		if lt >= bt {
			return nil
		}
		t, fee := c.simpleSpend(1, lt, []uint32{0}, func(in uint64) []refchain.TxOut { return []refchain.TxOut{c.g.OutTrue(in - 10)} })
		if t == nil {
			return nil
		}
		return c.blockWith([]*refchain.Tx{t}, fee, chainsim.BlockSpec{Time: bt})
	})
	reg("merkle/mismatch", "C05", []string{"bad-txnmrklroot"}, func(c *ctx) *refchain.Block {
		return c.g.Build(chainsim.BlockSpec{Parent: c.tip, BadMerkle: true})
	})
	reg("merkle/dup-tail", "C05", []string{"bad-txns-duplicate", "bad-txns-inputs-missingorspent", "bad-txns-BIP30", "bad-cb-multiple"}, func(c *ctx) *refchain.Block {
		n := c.r.Intn(8) // 0..7 extra transactions => tx counts 1..8
		var txs []*refchain.Tx
		var fees uint64
		for i := 0; i < n; i++ {
			t, fee := c.simpleSpend(1, 0, nil, func(in uint64) []refchain.TxOut { return []refchain.TxOut{c.g.OutTrue(in - 5)} })
			if t == nil {
				break
			}
			txs = append(txs, t)
			fees += fee
		}
		d := 1 + c.r.Intn(len(txs)+1)
		return c.blockWith(txs, fees, chainsim.BlockSpec{DupTail: d})
	})
	reg("witness/wrong-commitment", "C05", []string{"bad-witness-merkle-match"}, func(c *ctx) *refchain.Block {
		if !c.segwit {
			return nil
		}
		return c.g.Build(chainsim.BlockSpec{Parent: c.tip, ForceCommitment: true, WrongCommitment: true})
	})
	reg("witness/nonce-31", "C05", []string{"bad-witness-nonce-size"}, func(c *ctx) *refchain.Block {
		if !c.segwit {
			return nil
		}
		return c.g.Build(chainsim.BlockSpec{Parent: c.tip, ForceCommitment: true, NonceLen: 31})
	})
	reg("witness/nonce-33", "C05", []string{"bad-witness-nonce-size"}, func(c *ctx) *refchain.Block {
		if !c.segwit {
			return nil
		}
		return c.g.Build(chainsim.BlockSpec{Parent: c.tip, ForceCommitment: true, NonceLen: 33})
	})
	reg("witness/nonce-two-items", "C05", []string{"bad-witness-nonce-size"}, func(c *ctx) *refchain.Block {
		if !c.segwit {
			return nil
		}
		return c.g.Build(chainsim.BlockSpec{Parent: c.tip, ForceCommitment: true, Tweak: func(b *refchain.Block) {
			w := b.Txs[0].In[0].Witness
			b.Txs[0].In[0].Witness = [][]byte{w[0], w[0]}
		}})
	})
	reg("witness/data-without-commitment", "C05", []string{"unexpected-witness"}, func(c *ctx) *refchain.Block {
		if !c.segwit {
			return nil
		}
		// a coinbase carrying a witness although the block has no commitment
		return c.g.Build(chainsim.BlockSpec{Parent: c.tip, NoCommitment: true, Tweak: func(b *refchain.Block) {
			b.Txs[0].In[0].Witness = [][]byte{c.r.Bytes(32)}
		}})
	})
	reg("witness/data-before-activation", "C05", []string{"unexpected-witness"}, func(c *ctx) *refchain.Block {
		if c.segwit {
			return nil
		}
		return c.g.Build(chainsim.BlockSpec{Parent: c.tip, ForceCommitment: true})
	})
	reg("tx/vout-empty", "C05", []string{"bad-txns-vout-empty"}, func(c *ctx) *refchain.Block {
		t, _ := c.simpleSpend(1, 0, nil, func(in uint64) []refchain.TxOut { return nil })
		if t == nil {
			return nil
		}
		return c.blockWith([]*refchain.Tx{t}, 0, chainsim.BlockSpec{})
	})
	reg("tx/prevout-null-in-noncoinbase", "C05", []string{"bad-txns-prevout-null"}, func(c *ctx) *refchain.Block {
		ops, cs := c.take(1)
		if ops == nil {
			return nil
		}
		t := c.g.Spend(ops, cs, []refchain.TxOut{c.g.OutTrue(cs[0].Value)}, 1, 0, nil, -1)
		t.In = append(t.In, refchain.TxIn{Prev: refchain.OutPoint{Idx: 0xffffffff}, Sequence: 0xffffffff})
		t.Invalidate()
		return c.blockWith([]*refchain.Tx{t}, 0, chainsim.BlockSpec{})
	})
	reg("weight/4000001-with-witness", "C05", []string{"bad-blk-weight"}, func(c *ctx) *refchain.Block { return weightWitnessBlock(c, 4000001) })
	reg("valid/weight-4000000-with-witness", "C05", valid, func(c *ctx) *refchain.Block { return weightWitnessBlock(c, 4000000) })
	// the same boundary with 260 transactions: the transaction count then takes three bytes in the block, which are part
	// of what is weighed (a block that reaches the node header-first is weighed on an object that knew no count before)
	reg("weight/4000004-with-260-txs", "C05", []string{"bad-blk-weight"}, func(c *ctx) *refchain.Block { return weightManyTxBlock(c, 4000004, 260) })
	reg("valid/weight-4000000-with-260-txs", "C05", valid, func(c *ctx) *refchain.Block { return weightManyTxBlock(c, 4000000, 260) })
	reg("weight/4000004", "C05", []string{"bad-blk-weight"}, func(c *ctx) *refchain.Block { return weightBlock(c, 4000004) })
	reg("weight/4000000-valid", "C05", valid, func(c *ctx) *refchain.Block { return weightBlock(c, 4000000) })
	// valid neighbours (they extend the chain)
	reg("valid/time-mtp+1", "C05", valid, func(c *ctx) *refchain.Block {
		return c.g.Build(chainsim.BlockSpec{Parent: c.tip, Time: c.tip.MTP() + 1})
	})
	reg("valid/coinbase-script-2-or-100", "C05", valid, func(c *ctx) *refchain.Block {
		pre := refchain.BIP34Prefix(c.height)
		if c.height < c.g.P.BIP34 {
			pre = nil
		}
		l := 100
		if c.r.Bool() && len(pre) <= 2 {
			l = 2
		}
		s := append(append([]byte{}, pre...), c.r.Bytes(100)...)[:l]
		if l == 2 && len(pre) < 2 {
			s = append(append([]byte{}, pre...), c.r.Bytes(2)...)[:2]
		}
		return c.g.Build(chainsim.BlockSpec{Parent: c.tip, CoinbaseScript: s})
	})
	reg("valid/locktime-height-1", "C05", valid, func(c *ctx) *refchain.Block {
		t, fee := c.simpleSpend(1, c.height-1, []uint32{0xfffffffe}, func(in uint64) []refchain.TxOut { return []refchain.TxOut{c.g.OutTrue(in - 10)} })
		if t == nil {
			return nil
		}
		return c.blockWith([]*refchain.Tx{t}, fee, chainsim.BlockSpec{})
	})
	reg("valid/locktime-cutoff-1", "C05", valid, func(c *ctx) *refchain.Block {
		bt := c.tip.Time + 600
		cut := bt
		if c.csv {
			cut = c.tip.MTP()
		}
		t, fee := c.simpleSpend(1, cut-1, []uint32{0}, func(in uint64) []refchain.TxOut { return []refchain.TxOut{c.g.OutTrue(in - 10)} })
		if t == nil {
			return nil
		}
		return c.blockWith([]*refchain.Tx{t}, fee, chainsim.BlockSpec{Time: bt})
	})
	reg("valid/nonfinal-locktime-but-final-sequences", "C05", valid, func(c *ctx) *refchain.Block {
		t, fee := c.simpleSpend(1, c.height+100, []uint32{0xffffffff}, func(in uint64) []refchain.TxOut { return []refchain.TxOut{c.g.OutTrue(in - 10)} })
		if t == nil {
			return nil
		}
		return c.blockWith([]*refchain.Tx{t}, fee, chainsim.BlockSpec{})
	})
	reg("valid/two-commitments-last-wins", "C05", valid, func(c *ctx) *refchain.Block {
		if !c.segwit {
			return nil
		}
		return c.g.Build(chainsim.BlockSpec{Parent: c.tip, ForceCommitment: true, TwoCommitments: true})
	})
	reg("valid/superfluous-commitment", "C05", valid, func(c *ctx) *refchain.Block {
		if !c.segwit {
			return nil
		}
		return c.g.Build(chainsim.BlockSpec{Parent: c.tip, ForceCommitment: true})
	})
	reg("valid/version-at-gate", "C05", valid, func(c *ctx) *refchain.Block {
		p := c.g.P
		v := uint32(4)
		switch {
		case c.height < p.BIP34:
			v = 1 + uint32(c.r.Intn(4))
		case c.height < p.BIP66:
			v = 2 + uint32(c.r.Intn(3))
		case c.height < p.BIP65:
			v = 3 + uint32(c.r.Intn(2))
		}
		return c.g.Build(chainsim.BlockSpec{Parent: c.tip, Version: v})
	})

	// ------------------------------------------------------------------ C04: connection rules
	missing := []string{"bad-txns-inputs-missingorspent"}
	reg("input/missing", "C04", missing, func(c *ctx) *refchain.Block {
		var op refchain.OutPoint
		copy(op.Hash[:], c.r.Bytes(32))
		op.Idx = uint32(c.r.Intn(3))
		coin := refchain.Coin{Value: 1000, Script: []byte{0x51}}
		t := c.g.Spend([]refchain.OutPoint{op}, []refchain.Coin{coin}, []refchain.TxOut{c.g.OutTrue(900)}, 1, 0, nil, -1)
		return c.blockWith([]*refchain.Tx{t}, 0, chainsim.BlockSpec{})
	})
	reg("input/vout-beyond-tx", "C04", missing, func(c *ctx) *refchain.Block {
		ops, cs := c.take(1)
		if ops == nil {
			return nil
		}
		ops[0].Idx += 1000
		t := c.g.Spend(ops, cs, []refchain.TxOut{c.g.OutTrue(cs[0].Value)}, 1, 0, nil, -1)
		return c.blockWith([]*refchain.Tx{t}, 0, chainsim.BlockSpec{})
	})
	reg("input/duplicate-within-tx", "C04", []string{"bad-txns-inputs-duplicate"}, func(c *ctx) *refchain.Block {
		ops, cs := c.take(1)
		if ops == nil {
			return nil
		}
		t := c.g.Spend([]refchain.OutPoint{ops[0], ops[0]}, []refchain.Coin{cs[0], cs[0]}, []refchain.TxOut{c.g.OutTrue(2 * cs[0].Value)}, 1, 0, nil, -1)
		return c.blockWith([]*refchain.Tx{t}, 0, chainsim.BlockSpec{})
	})
	reg("input/double-spend-within-block", "C04", missing, func(c *ctx) *refchain.Block {
		ops, cs := c.take(1)
		if ops == nil {
			return nil
		}
		t1 := c.g.Spend(ops, cs, []refchain.TxOut{c.g.OutTrue(cs[0].Value - 1)}, 1, 0, nil, -1)
		t2 := c.g.Spend(ops, cs, []refchain.TxOut{c.g.OutTrue(cs[0].Value - 2)}, 1, 0, nil, -1)
		return c.blockWith([]*refchain.Tx{t1, t2}, 3, chainsim.BlockSpec{})
	})
	reg("input/double-spend-across-blocks", "C04", missing, func(c *ctx) *refchain.Block {
		if len(c.spentHist) == 0 {
			return nil
		}
		op := c.spentHist[c.r.Intn(len(c.spentHist))]
		coin := refchain.Coin{Value: 5000, Script: []byte{0x51}}
		t := c.g.Spend([]refchain.OutPoint{op}, []refchain.Coin{coin}, []refchain.TxOut{c.g.OutTrue(4000)}, 1, 0, nil, -1)
		return c.blockWith([]*refchain.Tx{t}, 0, chainsim.BlockSpec{})
	})
	reg("input/spend-later-tx-output", "C04", missing, func(c *ctx) *refchain.Block {
		ops, cs := c.take(1)
		if ops == nil {
			return nil
		}
		t1 := c.g.Spend(ops, cs, []refchain.TxOut{c.g.OutTrue(cs[0].Value - 1)}, 1, 0, nil, -1)
		op2 := refchain.OutPoint{Hash: t1.TxID(), Idx: 0}
		t2 := c.g.Spend([]refchain.OutPoint{op2}, []refchain.Coin{{Value: cs[0].Value - 1, Script: []byte{0x51}}}, []refchain.TxOut{c.g.OutTrue(cs[0].Value - 2)}, 1, 0, nil, -1)
		return c.blockWith([]*refchain.Tx{t2, t1}, 2, chainsim.BlockSpec{}) // child before parent
	})
	reg("valid/spend-earlier-tx-output", "C04", valid, func(c *ctx) *refchain.Block {
		ops, cs := c.take(1)
		if ops == nil {
			return nil
		}
		t1 := c.g.Spend(ops, cs, []refchain.TxOut{c.g.OutTrue(cs[0].Value - 1), c.g.OutTrue(0)}, 1, 0, nil, -1)
		op2 := refchain.OutPoint{Hash: t1.TxID(), Idx: 0}
		t2 := c.g.Spend([]refchain.OutPoint{op2}, []refchain.Coin{{Value: cs[0].Value - 1, Script: []byte{0x51}}}, []refchain.TxOut{c.g.OutTrue(cs[0].Value - 2)}, 1, 0, nil, -1)
		return c.blockWith([]*refchain.Tx{t1, t2}, 2, chainsim.BlockSpec{})
	})
	reg("coinbase/spend-own-coinbase", "C04", []string{"bad-txns-premature-spend-of-coinbase"}, func(c *ctx) *refchain.Block {
		return c.g.Build(chainsim.BlockSpec{Parent: c.tip, NoCommitment: true, CoinbaseKind: chainsim.KTrue, Tweak: func(b *refchain.Block) {
			cb := b.Txs[0]
			op := refchain.OutPoint{Hash: cb.TxID(), Idx: 0}
			t := c.g.Spend([]refchain.OutPoint{op}, []refchain.Coin{{Value: cb.Out[0].Value, Script: cb.Out[0].Script}}, []refchain.TxOut{c.g.OutTrue(cb.Out[0].Value)}, 1, 0, nil, -1)
			b.Txs = append(b.Txs, t)
		}})
	})
	reg("coinbase/immature-99", "C04", []string{"bad-txns-premature-spend-of-coinbase"}, func(c *ctx) *refchain.Block { return maturity(c, 99) })
	reg("valid/coinbase-mature-100", "C04", valid, func(c *ctx) *refchain.Block { return maturity(c, 100) })
	reg("value/output-above-max", "C04", []string{"bad-txns-vout-toolarge"}, func(c *ctx) *refchain.Block {
		return valueBlock(c, func(in uint64) []refchain.TxOut { return []refchain.TxOut{c.g.OutTrue(refchain.MaxMoney + 1)} })
	})
	reg("value/output-negative-2^63", "C04", []string{"bad-txns-vout-negative"}, func(c *ctx) *refchain.Block {
		return valueBlock(c, func(in uint64) []refchain.TxOut { return []refchain.TxOut{c.g.OutTrue(1 << 63)} })
	})
	reg("value/outputs-wrap-2^64", "C04", []string{"bad-txns-vout-negative"}, func(c *ctx) *refchain.Block {
		return valueBlock(c, func(in uint64) []refchain.TxOut {
			return []refchain.TxOut{c.g.OutTrue(1 << 63), c.g.OutTrue(1<<63 + in/2)}
		})
	})
	reg("value/tx-total-above-max", "C04", []string{"bad-txns-txouttotal-toolarge"}, func(c *ctx) *refchain.Block {
		return valueBlock(c, func(in uint64) []refchain.TxOut {
			return []refchain.TxOut{c.g.OutTrue(refchain.MaxMoney), c.g.OutTrue(refchain.MaxMoney)}
		})
	})
	reg("value/many-in-range-outputs-wrap-2^64", "C04", []string{"bad-txns-txouttotal-toolarge"}, func(c *ctx) *refchain.Block {
		// every output is within [0, MAX_MONEY]; only the running total leaves the range - and, taken modulo 2^64,
		// comes back below the input value (8784 x MAX_MONEY + one more in-range output)
		return valueBlock(c, func(in uint64) []refchain.TxOut {
			n := (1<<64 - 1) / uint64(refchain.MaxMoney)
			outs := make([]refchain.TxOut, 0, n+1)
			for i := uint64(0); i < n; i++ {
				outs = append(outs, c.g.OutTrue(refchain.MaxMoney))
			}
			last := -(n * uint64(refchain.MaxMoney)) + in/2 // 2^64 - n*MAX + in/2
			return append(outs, c.g.OutTrue(last))          // 2^64 - n*MAX is about 3.4e14, far below MAX_MONEY
		})
	})
	reg("value/coinbase-output-above-max", "C04", []string{"bad-txns-vout-toolarge", "bad-txns-vout-negative"}, func(c *ctx) *refchain.Block {
		v := uint64(refchain.MaxMoney + 1)
		if c.r.Bool() {
			v = 1<<64 - 1
		}
		return c.g.Build(chainsim.BlockSpec{Parent: c.tip, CoinbaseOuts: []refchain.TxOut{c.g.OutTrue(v)}})
	})
	reg("value/coinbase-outputs-wrap", "C04", []string{"bad-txns-vout-negative", "bad-txns-txouttotal-toolarge"}, func(c *ctx) *refchain.Block {
		// two outputs whose 64-bit sum wraps to a small number
		return c.g.Build(chainsim.BlockSpec{Parent: c.tip, CoinbaseOuts: []refchain.TxOut{c.g.OutTrue(1 << 63), c.g.OutTrue(1<<63 + 1000)}})
	})
	reg("value/outputs-exceed-inputs-by-1", "C04", []string{"bad-txns-in-belowout"}, func(c *ctx) *refchain.Block {
		t, _ := c.simpleSpend(1, 0, nil, func(in uint64) []refchain.TxOut { return []refchain.TxOut{c.g.OutTrue(in + 1)} })
		if t == nil {
			return nil
		}
		return c.blockWith([]*refchain.Tx{t}, 0, chainsim.BlockSpec{})
	})
	// coins with round amounts (d x 10^e satoshi, the larger e the better; 100 BTC and more when there is one): the
	// compressed UTXO codec stores them as mantissa and exponent, and what comes back is what the inputs are worth
	reg("value/outputs-exceed-round-input-by-1", "C04", []string{"bad-txns-in-belowout"}, func(c *ctx) *refchain.Block {
		op, co, ok := c.takeRound()
		if !ok {
			return nil
		}
		t := c.g.Spend([]refchain.OutPoint{op}, []refchain.Coin{co}, []refchain.TxOut{c.g.OutTrue(co.Value + 1)}, 1, 0, nil, -1)
		return c.blockWith([]*refchain.Tx{t}, 0, chainsim.BlockSpec{})
	})
	reg("valid/round-input-spent-to-the-last-satoshi", "C04", valid, func(c *ctx) *refchain.Block {
		op, co, ok := c.takeRound()
		if !ok {
			return nil
		}
		t := c.g.Spend([]refchain.OutPoint{op}, []refchain.Coin{co}, []refchain.TxOut{c.g.OutTrue(co.Value)}, 1, 0, nil, -1)
		return c.blockWith([]*refchain.Tx{t}, 0, chainsim.BlockSpec{})
	})
	reg("valid/merge-into-multiples-of-10-btc", "C04", valid, func(c *ctx) *refchain.Block {
		// three or four coins (coinbases mostly) into k x 10 BTC (k >= 10 when the coins allow it) plus change
		n := 3 + c.r.Intn(2)
		ops, cs := c.take(n)
		if ops == nil {
			return nil
		}
		in := sum(cs)
		unit := uint64(1000000000)
		for unit > 1 && in < 10*unit {
			unit /= 10
		}
		big := in - in%unit
		if c.r.Bool() && big > 10*unit {
			big -= uint64(c.r.Intn(int(big/unit)-10+1)) * unit // k anywhere in 10..K
		}
		outs := []refchain.TxOut{c.g.OutTrue(big)}
		if in-big > 0 {
			outs = append(outs, c.g.OutTrue(in-big))
		}
		t := c.g.Spend(ops, cs, outs, 1, 0, nil, -1)
		return c.blockWith([]*refchain.Tx{t}, 0, chainsim.BlockSpec{})
	})
	reg("value/fee-underflow-hidden-by-other-tx", "C04", []string{"bad-txns-in-belowout"}, func(c *ctx) *refchain.Block {
		// tx A overpays fee by 1000, tx B creates 500 out of nothing: block-level sums still balance
		a, fa := c.simpleSpend(1, 0, nil, func(in uint64) []refchain.TxOut { return []refchain.TxOut{c.g.OutTrue(in - 1000)} })
		b, _ := c.simpleSpend(1, 0, nil, func(in uint64) []refchain.TxOut { return []refchain.TxOut{c.g.OutTrue(in + 500)} })
		if a == nil || b == nil {
			return nil
		}
		return c.blockWith([]*refchain.Tx{a, b}, fa-500, chainsim.BlockSpec{})
	})
	reg("coinbase/claims-subsidy+fees+1", "C04", []string{"bad-cb-amount"}, func(c *ctx) *refchain.Block {
		t, fee := c.simpleSpend(1, 0, nil, func(in uint64) []refchain.TxOut { return []refchain.TxOut{c.g.OutTrue(in - uint64(c.r.Intn(1000)))} })
		if t == nil {
			return c.g.Build(chainsim.BlockSpec{Parent: c.tip, CoinbaseDelta: 1})
		}
		return c.blockWith([]*refchain.Tx{t}, fee, chainsim.BlockSpec{CoinbaseDelta: 1})
	})
	reg("valid/coinbase-claims-exactly", "C04", valid, func(c *ctx) *refchain.Block {
		t, fee := c.simpleSpend(1, 0, nil, func(in uint64) []refchain.TxOut { return []refchain.TxOut{c.g.OutTrue(in - uint64(c.r.Intn(1000)))} })
		if t == nil {
			return nil
		}
		return c.blockWith([]*refchain.Tx{t}, fee, chainsim.BlockSpec{})
	})
	reg("valid/coinbase-claims-less", "C04", valid, func(c *ctx) *refchain.Block {
		return c.g.Build(chainsim.BlockSpec{Parent: c.tip, CoinbaseDelta: -int64(1 + c.r.Intn(1000))})
	})
	reg("sigops/80004-checksig-in-output", "C04", []string{"bad-blk-sigops"}, func(c *ctx) *refchain.Block { return sigopsBlock(c, 20001, 0xac, false) })
	reg("valid/sigops-80000-checksig-in-output", "C04", valid, func(c *ctx) *refchain.Block { return sigopsBlock(c, 20000, 0xac, false) })
	reg("sigops/80080-checkmultisig", "C04", []string{"bad-blk-sigops"}, func(c *ctx) *refchain.Block { return sigopsBlock(c, 1001, 0xae, false) })
	reg("valid/sigops-80000-checkmultisig", "C04", valid, func(c *ctx) *refchain.Block { return sigopsBlock(c, 1000, 0xae, false) })
	reg("sigops/80004-after-op_return", "C04", []string{"bad-blk-sigops"}, func(c *ctx) *refchain.Block { return sigopsBlock(c, 20001, 0xac, true) })
	// sigops carried by spent outputs: P2SH redeem scripts (x4), native P2WSH witness scripts (x1) and
	// P2SH-wrapped P2WSH (x1), each at the limit and just above it
	reg("sigops/p2sh-redeem-80004", "C04", []string{"bad-blk-sigops"}, func(c *ctx) *refchain.Block { return spentSigops(c, "p2sh", 80004) })
	reg("valid/sigops-p2sh-redeem-80000", "C04", valid, func(c *ctx) *refchain.Block { return spentSigops(c, "p2sh", 80000) })
	reg("sigops/native-p2wsh-80001", "C04", []string{"bad-blk-sigops"}, func(c *ctx) *refchain.Block { return spentSigops(c, "p2wsh", 80001) })
	reg("valid/sigops-native-p2wsh-80000", "C04", valid, func(c *ctx) *refchain.Block { return spentSigops(c, "p2wsh", 80000) })
	reg("sigops/nested-p2sh-p2wsh-80001", "C04", []string{"bad-blk-sigops"}, func(c *ctx) *refchain.Block { return spentSigops(c, "nested", 80001) })
	reg("valid/sigops-nested-p2sh-p2wsh-80000", "C04", valid, func(c *ctx) *refchain.Block { return spentSigops(c, "nested", 80000) })
	// chain.TrustedTxChecker, as the client's txpool installs it, vouches for a transaction it has verified itself: no
	// script verifier is started for that transaction - and for that one only
	vouchedPair := func(c *ctx, badSecond bool) *refchain.Block {
		ops, cs := c.take(2)
		if ops == nil {
			return nil
		}
		a := c.g.Spend(ops[:1], cs[:1], []refchain.TxOut{c.g.OutTrue(cs[0].Value - 7)}, 1, 0, nil, -1)
		bad := -1
		if badSecond {
			bad = 0
		}
		b := c.g.Spend(ops[1:], cs[1:], []refchain.TxOut{c.g.OutTrue(cs[1].Value - 7)}, 1, 0, nil, bad)
		vouch(a.WTxID())
		txs := []*refchain.Tx{a, b}
		if c.r.Bool() { // more unvouched transactions behind
			if o3, c3 := c.take(1); o3 != nil {
				txs = append(txs, c.g.Spend(o3, c3, []refchain.TxOut{c.g.OutTrue(c3[0].Value - 7)}, 1, 0, nil, -1))
			}
		}
		return c.blockWith(txs, uint64(7*len(txs)), chainsim.BlockSpec{})
	}
	reg("script/invalid-input-behind-a-vouched-tx", "C04", []string{"mandatory-script-verify-flag-failed"}, func(c *ctx) *refchain.Block { return vouchedPair(c, true) })
	reg("valid/vouched-tx-then-unvouched-ones", "C04", valid, func(c *ctx) *refchain.Block { return vouchedPair(c, false) })
	reg("script/invalid-input", "C04", []string{"mandatory-script-verify-flag-failed"}, func(c *ctx) *refchain.Block {
		var txs []*refchain.Tx
		var fees uint64
		n := 1 + c.r.Intn(3)
		badAt := c.r.Intn(n)
		for i := 0; i < n; i++ {
			k := 1 + c.r.Intn(3)
			ops, cs := c.take(k)
			if ops == nil {
				break
			}
			bad := -1
			if i == badAt {
				bad = c.r.Intn(k)
			}
			in := sum(cs)
			t := c.g.Spend(ops, cs, []refchain.TxOut{c.g.OutTrue(in - 7)}, 1, 0, nil, bad)
			fees += 7
			txs = append(txs, t)
			if bad >= 0 {
				badAt = -2
			}
		}
		if badAt != -2 {
			return nil
		}
		return c.blockWith(txs, fees, chainsim.BlockSpec{})
	})
	reg("bip68/height-lock-unsatisfied", "C04", []string{"bad-txns-nonfinal(BIP68)"}, func(c *ctx) *refchain.Block { return bip68(c, false, 1) })
	reg("valid/bip68-height-lock-exact", "C04", valid, func(c *ctx) *refchain.Block { return bip68(c, false, 0) })
	reg("bip68/time-lock-unsatisfied", "C04", []string{"bad-txns-nonfinal(BIP68)"}, func(c *ctx) *refchain.Block { return bip68(c, true, 1) })
	reg("valid/bip68-time-lock-exact", "C04", valid, func(c *ctx) *refchain.Block { return bip68(c, true, 0) })
	// relative locks on a coin created earlier in the same block: the coin's height is the block's own height
	reg("bip68/in-block-parent-height-lock-1", "C04", []string{"bad-txns-nonfinal(BIP68)"}, func(c *ctx) *refchain.Block { return bip68InBlock(c, 1, 2) })
	reg("bip68/in-block-parent-time-lock-1", "C04", []string{"bad-txns-nonfinal(BIP68)"}, func(c *ctx) *refchain.Block { return bip68InBlock(c, 1|1<<22, 2) })
	reg("bip68/in-block-parent-height-lock-deep", "C04", []string{"bad-txns-nonfinal(BIP68)"}, func(c *ctx) *refchain.Block {
		return bip68InBlock(c, c.height, 2) // would be satisfied if the coin were taken to be at height 0
	})
	reg("valid/bip68-in-block-parent-lock-0", "C04", valid, func(c *ctx) *refchain.Block { return bip68InBlock(c, 0, 2) })
	reg("valid/bip68-in-block-parent-time-lock-0", "C04", valid, func(c *ctx) *refchain.Block { return bip68InBlock(c, 1<<22, 2) })
	reg("valid/bip68-in-block-parent-disabled", "C04", valid, func(c *ctx) *refchain.Block { return bip68InBlock(c, 1<<31|50, 2) })
	reg("valid/bip68-in-block-parent-version-1", "C04", valid, func(c *ctx) *refchain.Block { return bip68InBlock(c, 50, 1) })
	// time-based locks of 128 units (65,536 s) and more: the unit count is 16 bits wide, the seconds are not
	reg("bip68/time-lock-128-units-on-young-coin", "C04", []string{"bad-txns-nonfinal(BIP68)"}, func(c *ctx) *refchain.Block { return bip68Units(c, 128) })
	reg("bip68/time-lock-256-units-on-young-coin", "C04", []string{"bad-txns-nonfinal(BIP68)"}, func(c *ctx) *refchain.Block { return bip68Units(c, 256) })
	reg("bip68/time-lock-0x8000-units-on-young-coin", "C04", []string{"bad-txns-nonfinal(BIP68)"}, func(c *ctx) *refchain.Block { return bip68Units(c, 0x8000) })
	reg("bip68/time-lock-0xffff-units-on-young-coin", "C04", []string{"bad-txns-nonfinal(BIP68)"}, func(c *ctx) *refchain.Block { return bip68Units(c, 0xffff) })
	reg("bip68/height-lock-0xffff-on-young-coin", "C04", []string{"bad-txns-nonfinal(BIP68)"}, func(c *ctx) *refchain.Block { return bip68Units(c, -0xffff) })
	reg("bip68/old-coin-time-lock-unsatisfied", "C04", []string{"bad-txns-nonfinal(BIP68)"}, func(c *ctx) *refchain.Block { return bip68Old(c, 1) })
	reg("valid/bip68-old-coin-time-lock-exact", "C04", valid, func(c *ctx) *refchain.Block { return bip68Old(c, 0) })
	reg("valid/bip68-ignored-for-version-1", "C04", valid, func(c *ctx) *refchain.Block {
		ops, cs := c.take(1)
		if ops == nil {
			return nil
		}
		t := c.g.Spend(ops, cs, []refchain.TxOut{c.g.OutTrue(cs[0].Value)}, 1, 0, []uint32{0xffff}, -1)
		return c.blockWith([]*refchain.Tx{t}, 0, chainsim.BlockSpec{})
	})
	reg("bip30/duplicate-coinbase-overwrites-unspent", "C04", []string{"bad-txns-BIP30"}, func(c *ctx) *refchain.Block {
		if c.height >= c.g.P.BIP34 || c.tip.Block == nil {
			return nil
		}
		prevcb := c.tip.Block.Txs[0]
		if len(prevcb.In[0].Witness) > 0 {
			return nil
		}
		return c.g.Build(chainsim.BlockSpec{Parent: c.tip, CoinbaseScript: prevcb.In[0].ScriptSig, CoinbaseOuts: prevcb.Out, NoCommitment: true})
	})
	reg("bip30/duplicate-of-older-coinbase", "C04", []string{"bad-txns-BIP30"}, func(c *ctx) *refchain.Block {
		if c.height >= c.g.P.BIP34 {
			return nil
		}
		// an ancestor 2..40 blocks back whose coinbase still has a spendable unspent output
		n := c.tip
		for d := 0; d < 1+c.r.Intn(40) && n.Parent != nil && n.Parent.Block != nil; d++ {
			n = n.Parent
		}
		if n.Block == nil || n == c.tip {
			return nil
		}
		cb := n.Block.Txs[0]
		if len(cb.In[0].Witness) > 0 {
			return nil
		}
		id := cb.TxID()
		live := false
		for i, o := range cb.Out {
			if _, ok := c.view[refchain.OutPoint{Hash: id, Idx: uint32(i)}]; ok && !(len(o.Script) > 0 && o.Script[0] == 0x6a) {
				live = true
			}
		}
		if !live {
			return nil
		}
		return c.g.Build(chainsim.BlockSpec{Parent: c.tip, CoinbaseScript: cb.In[0].ScriptSig, CoinbaseOuts: cb.Out, NoCommitment: true})
	})
	reg("valid/bip30-same-coinbase-script-other-output", "C04", valid, func(c *ctx) *refchain.Block {
		if c.height >= c.g.P.BIP34 || c.tip.Block == nil {
			return nil
		}
		prevcb := c.tip.Block.Txs[0]
		if len(prevcb.In[0].Witness) > 0 || len(prevcb.Out) == 0 || prevcb.Out[0].Value == 0 {
			return nil
		}
		outs := append([]refchain.TxOut(nil), prevcb.Out...)
		outs[0].Value-- // another txid: nothing is overwritten
		var tot uint64
		for _, o := range outs {
			tot += o.Value
		}
		if tot > refchain.Subsidy(c.height) { // the previous coinbase also claimed fees
			return nil
		}
		return c.g.Build(chainsim.BlockSpec{Parent: c.tip, CoinbaseScript: prevcb.In[0].ScriptSig, CoinbaseOuts: outs, NoCommitment: true})
	})
}

// sigopScript: spendable without any signature (OP_0 OP_IF ... OP_ENDIF OP_1) while its unexecuted
// branch carries exactly n signature operations for the accurate counting rule
// (OP_16 OP_CHECKMULTISIG = 16 each, OP_CHECKSIG = 1 each); at most 201 counted opcodes.
func sigopScript(n int) []byte {
	s := []byte{0x00, 0x63}
	ops := 2
	for n >= 16 && ops < 190 {
		s = append(s, 0x60, 0xae)
		n -= 16
		ops++
	}
	for ; n > 0; n-- {
		s = append(s, 0xac)
		ops++
	}
	if ops > 201 {
		return nil
	}
	return append(s, 0x68, 0x51)
}

func pushData(d []byte) []byte {
	switch {
	case len(d) < 0x4c:
		return append([]byte{byte(len(d))}, d...)
	case len(d) <= 0xff:
		return append([]byte{0x4c, byte(len(d))}, d...)
	}
	return append([]byte{0x4d, byte(len(d)), byte(len(d) >> 8)}, d...)
}

func hash160(b []byte) []byte {
	h := sha256.Sum256(b)
	r := ripemd160.New()
	r.Write(h[:])
	return r.Sum(nil)
}

// spentSigops builds a block [coinbase, setup tx, spending tx]: the setup tx creates outputs whose
// redeem / witness scripts carry signature operations, the spending tx spends them in the same
// block, so that the block's total sigop cost is exactly `cost`.
func spentSigops(c *ctx, flavor string, cost int) *refchain.Block {
	if !c.segwit && flavor != "p2sh" {
		return nil
	}
	scale := 1
	if flavor == "p2sh" {
		scale = 4
	}
	need := cost / scale
	if cost%scale != 0 {
		return nil
	}
	var scripts [][]byte
	for need > 0 {
		n := 16 * 187 // a full script
		if need < n {
			n = need
		}
		sc := sigopScript(n)
		if sc == nil {
			// remainder too long for one script in CHECKSIGs: split
			n = 180
			if need < n {
				n = need
			}
			sc = sigopScript(n)
		}
		scripts = append(scripts, sc)
		need -= n
	}
	// the funding coin must not add sigops of its own (a P2WPKH spend costs 1)
	var ops []refchain.OutPoint
	var cs []refchain.Coin
	for try := 0; try < 8; try++ {
		ops, cs = c.take(1)
		if ops == nil {
			return nil
		}
		if k, _ := c.g.KindOf(cs[0].Script); k != chainsim.KP2WPKH {
			break
		}
		ops = nil
	}
	if ops == nil {
		return nil
	}
	per := uint64(3000)
	if cs[0].Value < per*uint64(len(scripts))+10000 {
		return nil
	}
	var outs []refchain.TxOut
	for _, sc := range scripts {
		var spk []byte
		w := sha256.Sum256(sc)
		switch flavor {
		case "p2sh":
			spk = append(append([]byte{0xa9, 0x14}, hash160(sc)...), 0x87)
		case "p2wsh":
			spk = append([]byte{0x00, 0x20}, w[:]...)
		default:
			prog := append([]byte{0x00, 0x20}, w[:]...)
			spk = append(append([]byte{0xa9, 0x14}, hash160(prog)...), 0x87)
		}
		outs = append(outs, refchain.TxOut{Value: per, Script: spk})
	}
	outs = append(outs, c.g.OutTrue(cs[0].Value-per*uint64(len(scripts))-1000))
	setup := c.g.Spend(ops, cs, outs, 1, 0, nil, -1)
	sid := setup.TxID()
	spend := &refchain.Tx{Version: 1, Out: []refchain.TxOut{c.g.OutTrue(per*uint64(len(scripts)) - 1000)}}
	for i, sc := range scripts {
		in := refchain.TxIn{Prev: refchain.OutPoint{Hash: sid, Idx: uint32(i)}, Sequence: 0xffffffff}
		w := sha256.Sum256(sc)
		switch flavor {
		case "p2sh":
			in.ScriptSig = pushData(sc)
		case "p2wsh":
			in.Witness = [][]byte{sc}
		default:
			in.ScriptSig = pushData(append([]byte{0x00, 0x20}, w[:]...))
			in.Witness = [][]byte{sc}
		}
		spend.In = append(spend.In, in)
	}
	return c.blockWith([]*refchain.Tx{setup, spend}, 2000, chainsim.BlockSpec{CoinbaseKind: chainsim.KTrue})
}

func maturity(c *ctx, depth uint32) *refchain.Block {
	if c.height < depth {
		return nil
	}
	n := c.tip.Ancestor(c.height - depth)
	if n == nil || n.Block == nil {
		return nil
	}
	cb := n.Block.Txs[0]
	op := refchain.OutPoint{Hash: cb.TxID(), Idx: 0}
	coin, ok := c.view[op]
	if !ok {
		return nil
	}
	k, _ := c.g.KindOf(coin.Script)
	if k == chainsim.KOther || k == chainsim.KOpReturn || (!c.segwit && (k == chainsim.KP2WSHTrue || k == chainsim.KP2WPKH)) {
		return nil
	}
	// make sure nothing else in this block spends it
	for i, a := range c.avail {
		if a == op {
			c.avail[i] = c.avail[len(c.avail)-1]
			c.avail = c.avail[:len(c.avail)-1]
			break
		}
	}
	t := c.g.Spend([]refchain.OutPoint{op}, []refchain.Coin{coin}, []refchain.TxOut{c.g.OutTrue(coin.Value - 3)}, 1, 0, nil, -1)
	return c.blockWith([]*refchain.Tx{t}, 3, chainsim.BlockSpec{})
}

func valueBlock(c *ctx, outs func(in uint64) []refchain.TxOut) *refchain.Block {
	ops, cs := c.take(1)
	if ops == nil {
		return nil
	}
	t := c.g.Spend(ops, cs, outs(cs[0].Value), 1, 0, nil, -1)
	return c.blockWith([]*refchain.Tx{t}, 0, chainsim.BlockSpec{})
}

func sigopsBlock(c *ctx, n int, op byte, afterReturn bool) *refchain.Block {
	// the coinbase output script itself may carry sigops: subtract what the standard part contributes
	var scr []byte
	if afterReturn {
		scr = append(scr, 0x6a)
	}
	for i := 0; i < n; i++ {
		scr = append(scr, op)
	}
	outs := []refchain.TxOut{{Value: refchain.Subsidy(c.height), Script: []byte{0x51}}, {Value: 0, Script: scr}}
	return c.g.Build(chainsim.BlockSpec{Parent: c.tip, CoinbaseOuts: outs, NoCommitment: true})
}

func weightBlock(c *ctx, target int) *refchain.Block {
	// coinbase-only block padded with a large unspendable output to hit an exact weight
	mk := func(pad int) *refchain.Block {
		scr := make([]byte, pad)
		scr[0] = 0x6a
		outs := []refchain.TxOut{{Value: refchain.Subsidy(c.height), Script: []byte{0x51}}, {Value: 0, Script: scr}}
		return c.g.Build(chainsim.BlockSpec{Parent: c.tip, CoinbaseOuts: outs, NoCommitment: true})
	}
	b := mk(1000)
	w := b.Weight()
	need := target - w
	if need%4 != 0 {
		return nil
	}
	pad := 1000 + need/4
	// crossing a CompactSize boundary of the script length changes the size by 2 more bytes
	for try := 0; try < 4; try++ {
		b = mk(pad)
		d := target - b.Weight()
		if d == 0 {
			return b
		}
		pad += d / 4
	}
	return nil
}

// weightManyTxBlock: an in-block chain of ntx small transactions (each spends the previous one's anyone-can-spend output)
// under a coinbase padded to the exact weight.
func weightManyTxBlock(c *ctx, target, ntx int) *refchain.Block {
	var op refchain.OutPoint
	var co refchain.Coin
	found := false
	for i, a := range c.avail {
		if k, _ := c.g.KindOf(c.view[a].Script); k == chainsim.KTrue && c.view[a].Value > 1000000 {
			op, co, found = a, c.view[a], true
			c.avail[i] = c.avail[len(c.avail)-1]
			c.avail = c.avail[:len(c.avail)-1]
			break
		}
	}
	if !found {
		return nil
	}
	var txs []*refchain.Tx
	var fees uint64
	for i := 0; i < ntx; i++ {
		t := c.g.Spend([]refchain.OutPoint{op}, []refchain.Coin{co}, []refchain.TxOut{c.g.OutTrue(co.Value - 10)}, 1, 0, nil, -1)
		txs = append(txs, t)
		fees += 10
		op = refchain.OutPoint{Hash: t.TxID(), Idx: 0}
		co = refchain.Coin{Value: co.Value - 10, Script: t.Out[0].Script, Height: c.height}
	}
	mk := func(pad int) *refchain.Block {
		scr := make([]byte, pad)
		scr[0] = 0x6a
		outs := []refchain.TxOut{{Value: refchain.Subsidy(c.height) + fees, Script: []byte{0x51}}, {Value: 0, Script: scr}}
		return c.blockWith(txs, fees, chainsim.BlockSpec{CoinbaseOuts: outs, NoCommitment: true})
	}
	pad := 900000
	for try := 0; try < 6; try++ {
		b := mk(pad)
		d := target - b.Weight()
		if d == 0 {
			return b
		}
		if d%4 != 0 {
			return nil
		}
		pad += d / 4
	}
	return nil
}

// weightWitnessBlock hits an exact block weight that is not a multiple of 4: the coinbase carries a
// large unspendable output (4 weight units per byte) and a witness commitment, a transaction created
// in the block pays to P2WSH(<push n bytes> OP_DROP OP_1) and the next one spends it, so the witness
// script length n tunes the weight in single units.
func weightWitnessBlock(c *ctx, target int) *refchain.Block {
	if !c.segwit {
		return nil
	}
	ops, cs := c.take(1)
	if ops == nil || cs[0].Value < 20000 {
		return nil
	}
	mk := func(pad, n int) *refchain.Block {
		ws := append([]byte{0x4d, byte(n), byte(n >> 8)}, make([]byte, n)...)
		ws = append(ws, 0x75, 0x51)
		h := sha256.Sum256(ws)
		setup := c.g.Spend(ops, cs, []refchain.TxOut{{Value: 5000, Script: append([]byte{0x00, 0x20}, h[:]...)}, c.g.OutTrue(cs[0].Value - 6000)}, 1, 0, nil, -1)
		spend := &refchain.Tx{Version: 1, In: []refchain.TxIn{{Prev: refchain.OutPoint{Hash: setup.TxID(), Idx: 0}, Sequence: 0xffffffff, Witness: [][]byte{ws}}},
			Out: []refchain.TxOut{c.g.OutTrue(4000)}}
		scr := make([]byte, pad)
		scr[0] = 0x6a
		outs := []refchain.TxOut{{Value: refchain.Subsidy(c.height), Script: []byte{0x51}}, {Value: 0, Script: scr}}
		return c.blockWith([]*refchain.Tx{setup, spend}, 2000, chainsim.BlockSpec{CoinbaseOuts: outs})
	}
	pad, n := 900000, 300
	for try := 0; try < 8; try++ {
		b := mk(pad, n)
		d := target - b.Weight()
		if d == 0 {
			return b
		}
		r := ((d % 4) + 4) % 4
		if r != 0 && n+r < 500 {
			n += r // single weight units through the witness script length
			continue
		}
		pad += d / 4
	}
	return nil
}

func bip68(c *ctx, timeBased bool, excess uint32) *refchain.Block {
	if !c.csv {
		return nil
	}
	// pick a non-coinbase-immature coin with small depth
	var op refchain.OutPoint
	var coin refchain.Coin
	found := false
	for i, a := range c.avail {
		cn := c.view[a]
		d := c.height - cn.Height
		if d >= 1 && d < 60 {
			op, coin, found = a, cn, true
			c.avail[i] = c.avail[len(c.avail)-1]
			c.avail = c.avail[:len(c.avail)-1]
			break
		}
	}
	if !found {
		return nil
	}
	var seq uint32
	if !timeBased {
		// satisfied iff coinHeight + k - 1 < height  <=> k <= height - coinHeight
		seq = c.height - coin.Height + excess
	} else {
		var anc uint32
		if coin.Height > 0 {
			anc = coin.Height - 1
		}
		base := int64(c.tip.Ancestor(anc).MTP())
		mtp := int64(c.tip.MTP())
		// satisfied iff base + n*512 - 1 < mtp  <=> n*512 <= mtp - base
		n := (mtp - base) / 512
		if n < 0 || n > 0xfffe {
			return nil
		}
		seq = uint32(n) + excess | 1<<22
	}
	t := c.g.Spend([]refchain.OutPoint{op}, []refchain.Coin{coin}, []refchain.TxOut{c.g.OutTrue(coin.Value - 1)}, 2, 0, []uint32{seq}, -1)
	return c.blockWith([]*refchain.Tx{t}, 1, chainsim.BlockSpec{})
}

// bip68Units: a coin at most 20 blocks old spent with a relative lock of `units` (time-based; negative = height-based)
// that is far from satisfied.
func bip68Units(c *ctx, units int) *refchain.Block {
	if !c.csv {
		return nil
	}
	for i, a := range c.avail {
		cn := c.view[a]
		if d := c.height - cn.Height; d >= 1 && d <= 20 && !cn.Coinbase {
			c.avail[i] = c.avail[len(c.avail)-1]
			c.avail = c.avail[:len(c.avail)-1]
			seq := uint32(units) | 1<<22
			if units < 0 {
				seq = uint32(-units)
			}
			t := c.g.Spend([]refchain.OutPoint{a}, []refchain.Coin{cn}, []refchain.TxOut{c.g.OutTrue(cn.Value - 1)}, 2, 0, []uint32{seq}, -1)
			return c.blockWith([]*refchain.Tx{t}, 1, chainsim.BlockSpec{})
		}
	}
	return nil
}

// bip68Old: the oldest spendable coin (a time-based lock of 128 units or more can be satisfied only by a coin more than
// 65,536 s of median time old) with the lock exactly satisfied / one unit short.
func bip68Old(c *ctx, excess uint32) *refchain.Block {
	if !c.csv {
		return nil
	}
	best := -1
	for i, a := range c.avail {
		if best < 0 || c.view[a].Height < c.view[c.avail[best]].Height {
			best = i
		}
	}
	if best < 0 {
		return nil
	}
	op := c.avail[best]
	coin := c.view[op]
	var anc uint32
	if coin.Height > 0 {
		anc = coin.Height - 1
	}
	n := (int64(c.tip.MTP()) - int64(c.tip.Ancestor(anc).MTP())) / 512
	if n < 128 || n > 0xfffe {
		return nil // not old enough for the wide range (or too old for the field)
	}
	c.avail[best] = c.avail[len(c.avail)-1]
	c.avail = c.avail[:len(c.avail)-1]
	t := c.g.Spend([]refchain.OutPoint{op}, []refchain.Coin{coin}, []refchain.TxOut{c.g.OutTrue(coin.Value - 1)}, 2, 0, []uint32{uint32(n) + excess | 1<<22}, -1)
	return c.blockWith([]*refchain.Tx{t}, 1, chainsim.BlockSpec{})
}

// bip68InBlock: a parent transaction and, later in the same block, a child spending the parent's output with the
// given nSequence. The spent coin is created at the block's own height.
func bip68InBlock(c *ctx, seq uint32, version uint32) *refchain.Block {
	if !c.csv {
		return nil
	}
	ops, cs := c.take(1)
	if ops == nil {
		return nil
	}
	parent := c.g.Spend(ops, cs, []refchain.TxOut{c.g.OutTrue(cs[0].Value - 1)}, 1, 0, nil, -1)
	pc := refchain.Coin{Value: cs[0].Value - 1, Script: parent.Out[0].Script, Height: c.height}
	child := c.g.Spend([]refchain.OutPoint{{Hash: parent.TxID(), Idx: 0}}, []refchain.Coin{pc}, []refchain.TxOut{c.g.OutTrue(pc.Value - 1)}, version, 0, []uint32{seq}, -1)
	return c.blockWith([]*refchain.Tx{parent, child}, 2, chainsim.BlockSpec{})
}

// ---------------------------------------------------------------------------------------------

type Config struct {
	Testnet4    bool // testnet4 rule set (BIP94 retarget base) - implies Testnet
	HeaderFirst bool // chainsim.NodeOpts.HeaderFirst: client-style delivery
	Halving     bool // coinbase-only chain across the first subsidy halving (C04 thorough only)
	Retarget    bool // coinbase-only chain across several 2016-block epochs (C05 only)
	Name        string
	Testnet     bool
	Late        bool // late activation heights (all boundaries above coinbase maturity)
	Compress    bool
	Blocks      int
}

func params(cfg Config, seed uint64) refchain.Params {
	p := chainsim.DefaultParams(seed, cfg.Testnet)
	if cfg.Late {
		p.BIP34, p.BIP66, p.BIP65, p.CSV, p.Segwit, p.Taproot = 104, 107, 110, 113, 118, 124
	}
	if cfg.Testnet4 {
		p.GenesisHash[0], p.GenesisHash[1] = 0x43, 0xf0 // gocoin: testnet4 rule set
		p.MinDiffBlocks, p.BIP94 = true, true
	}
	if cfg.Halving {
		p.GenesisTime = 1420070400 // 2015: 210,000 blocks at 600 s spacing end in 2019, well before "now"
	}
	return p
}

// Child runs one workload in this process and exports its state.
func Child(prop string, seed int64, tier string, cfgName string, stateFile string, isolate map[string]bool, only string) {
	run := vlib.StartChild(prop, seed, tier)
	defer run.ExportState(stateFile)
	var cfg Config
	for _, c := range Configs(tier) {
		if c.Name == cfgName {
			cfg = c
		}
	}
	r := vlib.NewRand(uint64(seed)).Fork(prop + "/" + cfgName)
	dir, _ := os.MkdirTemp("", "rules")
	defer os.RemoveAll(dir)
	p := params(cfg, uint64(seed))
	chainsim.SetPurge(cfg.Compress && !cfg.Retarget) // the compressed-record configurations also run with the purge-unspendable option
	s := chainsim.NewSim(run, r, p, dir, chainsim.NodeOpts{CompressUTXO: cfg.Compress, HeaderFirst: cfg.HeaderFirst})
	defer s.Close()
	g := s.G
	chain.TrustedTxChecker = func(tx *btc.Tx) bool {
		var h refchain.Hash
		copy(h[:], tx.WTxID().Hash[:]) // by wtxid, as the client's checker does: a witness that differs is not what was verified
		vouchMu.Lock()
		defer vouchMu.Unlock()
		return vouched[h]
	}
	if cfg.Retarget {
		runRetarget(run, s, r, cfg)
		return
	}
	if cfg.Halving {
		runHalving(run, s, r)
		return
	}
	c := &ctx{s: s, g: g, r: r}
	var mine []probe
	var onlyProbe *probe
	for i, pb := range probes {
		if pb.prop == prop && !isolate[pb.name] {
			mine = append(mine, pb)
		}
		if only != "" && pb.name == only {
			onlyProbe = &probes[i]
		}
	}
	if only != "" {
		// isolated re-confirmation of a recorded finding: grow a plain chain, then offer only that
		// probe at a few heights; the history ends at the first divergence.
		mine = nil
	}
	clockDone := false
	for int(s.Ref.Tip.Height) < cfg.Blocks {
		tip := s.Ref.Tip
		height := tip.Height + 1
		// probes at this height: all of them around activation boundaries and once coins exist,
		// a sample otherwise
		interesting := height <= 3 || near(height, p) || height >= 101
		var order []int
		if interesting {
			order = r.Perm(len(mine))
		}
		nviol := 0
		advanced := false
		for _, pi := range order {
			pb := mine[pi]
			isValid := pb.expect[0] == ""
			if isValid && advanced {
				continue
			}
			if !isValid && height >= 101 && !near(height, p) && r.Intn(3) != 0 {
				continue // sample violators at ordinary heights
			}
			c.tip, c.height = tip, height
			c.view = g.View(tip)
			c.segwit = p.Segwit != 0 && height >= p.Segwit
			c.csv = p.CSV != 0 && height >= p.CSV
			c.avail = richOnly(g.Spendable(c.view, height, c.segwit), c.view)
			b := pb.build(c)
			if b == nil {
				run.Inc("probe_not_applicable")
				continue
			}
			rr, _, ok := s.Offer(b, pb.name)
			if !ok {
				return // state diverged: stop this history (violation recorded)
			}
			// calibration of generator vs reference: the reference must refuse for the intended reason
			good := false
			for _, e := range pb.expect {
				if e == rr.Reason && ((e == "") == (rr.Stage == "connected")) {
					good = true
				}
			}
			if !good {
				run.Inconclusive("generator/reference calibration: probe %s expected %v, reference says %s/%s (height %d, journal %v)", pb.name, pb.expect, rr.Stage, rr.Reason, height, tailStr(s.Log, 6))
				return
			}
			run.Distinct("probes", pb.name)
			run.Distinct("probe_x_height", pb.name, height)
			if isValid {
				advanced = true
				c.spentHist = append(c.spentHist, spentOf(b)...)
				break
			}
			nviol++
		}
		if onlyProbe != nil {
			c.tip, c.height = tip, height
			c.view = g.View(tip)
			c.segwit = p.Segwit != 0 && height >= p.Segwit
			c.csv = p.CSV != 0 && height >= p.CSV
			c.avail = richOnly(g.Spendable(c.view, height, c.segwit), c.view)
			if b := onlyProbe.build(c); b != nil {
				if _, _, ok := s.Offer(b, onlyProbe.name); !ok {
					return
				}
				run.Distinct("probe_x_height", onlyProbe.name, height)
			}
		}
		if prop == "C05" && only == "" && !advanced && !clockDone && height >= 30 && r.Intn(25) == 0 {
			clockDone = true
			if !clockProbe(s, run, tip) {
				return
			}
			continue
		}
		if prop == "C05" && only == "" && !advanced && r.Intn(20) == 0 {
			if !malformedProbe(s, run, g, tip, r) {
				return
			}
		}
		if !advanced {
			var b *refchain.Block
			if height < 101 {
				b = g.RandomBlock(tip, 0)
			} else {
				b = g.RandomBlock(tip, 6)
			}
			rr, _, ok := s.Offer(b, "valid/random")
			if !ok {
				return
			}
			if rr.Stage != "connected" {
				run.Inconclusive("generator produced a block the reference refuses: %s/%s", rr.Stage, rr.Reason)
				return
			}
			c.spentHist = append(c.spentHist, spentOf(b)...)
		}
		if len(c.spentHist) > 200 {
			c.spentHist = c.spentHist[len(c.spentHist)-200:]
		}
		if height%16 == 0 {
			s.N.Ch.Idle()
		}
		g.DropView(tip.Hash)
	}
	// final self-check of the reference: incremental UTXO equals replay from genesis
	if d := chainsim.DiffUTXO(s.Ref.Utxo, s.Ref.ReplayTip()); d != "" {
		run.Inconclusive("reference self-check failed: %s", d)
	}
	if run.WantSample() {
		run.Sample(map[string]interface{}{"config": cfg.Name, "final_height": s.Ref.Tip.Height, "journal_tail": lastN(s.Log, 12)})
	}
}

// runHalving connects a coinbase-only chain across the first subsidy halving and offers, at heights
// 209,999 / 210,000 / 210,001, coinbases claiming subsidy+1 (refused), the previous era's subsidy
// (refused from 210,000 on) and exactly the subsidy (accepted).
func runHalving(run *vlib.Run, s *chainsim.Sim, r *vlib.Rand) {
	g := s.G
	g.KeepViews = false
	s.CompareUTXOEvery = 9973
	s.XCheckEvery = 0
	claim := func(tip *refchain.Node, v uint64) *refchain.Block {
		return g.Build(chainsim.BlockSpec{Parent: tip, CoinbaseOuts: []refchain.TxOut{g.OutTrue(v)}, NoCommitment: true})
	}
	for s.Ref.Tip.Height < 210002 {
		tip := s.Ref.Tip
		h := tip.Height + 1
		sub := refchain.Subsidy(h)
		if h >= 209998 || h%30011 == 0 {
			s.CompareUTXOEvery = 1
			for _, v := range []uint64{sub + 1, 2 * sub, 50 * 100000000} {
				if v <= sub {
					continue
				}
				rr, _, ok := s.Offer(claim(tip, v), "halving/overclaim")
				if !ok {
					return
				}
				if rr.Reason != "bad-cb-amount" {
					run.Inconclusive("halving calibration: expected bad-cb-amount at height %d, reference says %s/%s", h, rr.Stage, rr.Reason)
					return
				}
				run.Distinct("probe_x_height", "halving/overclaim", h, v)
			}
		} else {
			s.CompareUTXOEvery = 9973
		}
		rr, _, ok := s.Offer(claim(tip, sub), "valid/halving-chain-block")
		if !ok {
			return
		}
		if rr.Stage != "connected" {
			run.Inconclusive("halving chain: reference refuses its own block at %d: %s", h, rr.Reason)
			return
		}
		g.DropView(tip.Hash)
		if h%20000 == 0 {
			s.N.Ch.Idle()
		}
	}
	run.Distinct("probes", "halving/overclaim")
	if run.WantSample() {
		run.Sample(map[string]interface{}{"config": "halving", "final_height": s.Ref.Tip.Height, "subsidy_at_209999": refchain.Subsidy(209999), "subsidy_at_210000": refchain.Subsidy(210000)})
	}
}

// runRetarget grows a coinbase-only chain over three difficulty epochs (timespan far below 1/4,
// far above 4x, and in range) and probes the required-target rule at every boundary and, for the
// testnet rule set, the 20-minute minimum-difficulty exception at ordinary heights.
func runRetarget(run *vlib.Run, s *chainsim.Sim, r *vlib.Rand, cfg Config) {
	g := s.G
	g.KeepViews = false
	s.CompareUTXOEvery = 97
	p := g.P
	// fast, slow, negative timespan (0), in range
	spacings := []uint32{1 + uint32(r.Intn(3)), 2400 + uint32(r.Intn(400)), 0, 400 + uint32(r.Intn(300))}
	if p.MinDiffBlocks {
		// testnet: keep the gaps of the second epoch below 20 minutes so that real difficulty is in force
		spacings = []uint32{1 + uint32(r.Intn(3)), 400 + uint32(r.Intn(300)), 2400 + uint32(r.Intn(400))}
	}
	if !p.MinDiffBlocks || r.Bool() {
		run.Inc("retarget_histories_with_clamp_from_below_the_limit")
		// first a somewhat faster epoch (target = 0.5..0.9 of the limit), then a slow one: the retargeted value exceeds
		// the proof-of-work limit from a period that was not at the limit itself, and has to be clamped to it
		spacings = append([]uint32{300 + uint32(r.Intn(240)), 2400 + uint32(r.Intn(400))}, spacings...)
	}
	end := uint32(cfg.Blocks)
	refuse := func(b *refchain.Block, fam string) bool {
		rr, _, ok := s.Offer(b, fam)
		if !ok {
			return false
		}
		if rr.Stage != "check-refused" {
			run.Inconclusive("retarget calibration: %s expected refusal, reference says %s/%s", fam, rr.Stage, rr.Reason)
			return false
		}
		run.Distinct("probes", fam)
		run.Distinct("probe_x_height", fam, s.Ref.Tip.Height+1)
		return true
	}
	for s.Ref.Tip.Height < end {
		tip := s.Ref.Tip
		h := tip.Height + 1
		epoch := int(tip.Height / refchain.Interval)
		sp := spacings[epoch%len(spacings)]
		t := tip.Time + sp
		if sp == 0 {
			// "negative timespan" epoch: the first block of the window is dated far ahead, the others creep
			// just above the median-time-past, so the window's last timestamp is below its first
			if tip.Height%refchain.Interval == refchain.Interval-1 || tip.Height == 0 {
				t = tip.Time + 200000
			} else {
				t = tip.MTP() + 1
			}
		}
		if m := tip.MTP(); t <= m {
			t = m + 1
		}
		if p.MinDiffBlocks && r.Intn(25) == 0 {
			t = tip.Time + 1201 + uint32(r.Intn(100)) // 20-minute rule applies
		}
		req := p.RequiredBits(tip, t)
		boundary := h%refchain.Interval == 0
		if boundary {
			run.Distinct("retarget_results", epoch, req, tip.Bits)
			if req != tip.Bits {
				if !refuse(g.Build(chainsim.BlockSpec{Parent: tip, Time: t, Bits: tip.Bits}), "retarget/old-bits-kept") {
					return
				}
			}
			if !refuse(g.Build(chainsim.BlockSpec{Parent: tip, Time: t, Bits: req - 1}), "retarget/bits-1") {
				return
			}
			if !refuse(g.Build(chainsim.BlockSpec{Parent: tip, Time: t, Bits: req + 1}), "retarget/bits+1") {
				return
			}
			// the unclamped result (timespan not limited to [1/4, 4x])
			first := tip.Ancestor(tip.Height - (refchain.Interval - 1))
			span := int64(tip.Time) - int64(first.Time)
			tg, _, _ := refchain.DecodeCompact(tip.Bits)
			tg.Mul(tg, big.NewInt(span))
			tg.Div(tg, big.NewInt(refchain.TargetTimespan))
			if tg.Sign() > 0 {
				if unc := refchain.EncodeCompact(tg); unc != req {
					if !refuse(g.Build(chainsim.BlockSpec{Parent: tip, Time: t, Bits: unc}), "retarget/unclamped-timespan") {
						return
					}
				}
			}
		} else if p.MinDiffBlocks && r.Intn(12) == 0 {
			// testnet rule probes at ordinary heights
			if int64(t) > int64(tip.Time)+1200 {
				if tip.Bits != p.PowLimitBits || true {
					x := tip
					for x.Parent != nil && x.Height%refchain.Interval != 0 && x.Bits == p.PowLimitBits {
						x = x.Parent
					}
					if x.Bits != p.PowLimitBits {
						if !refuse(g.Build(chainsim.BlockSpec{Parent: tip, Time: t, Bits: x.Bits}), "testnet/real-bits-after-20min-gap") {
							return
						}
					}
				}
			} else if req != p.PowLimitBits {
				if !refuse(g.Build(chainsim.BlockSpec{Parent: tip, Time: t, Bits: p.PowLimitBits}), "testnet/min-difficulty-without-gap") {
					return
				}
			}
		} else if r.Intn(300) == 0 {
			if !refuse(g.Build(chainsim.BlockSpec{Parent: tip, Time: t, Bits: req - 1}), "bits/mantissa-1") {
				return
			}
		}
		fam := "valid/epoch-block"
		if boundary {
			fam = "valid/retarget-block"
			run.Distinct("probe_x_height", fam, h)
		}
		rr, _, ok := s.Offer(g.Build(chainsim.BlockSpec{Parent: tip, Time: t}), fam)
		if !ok {
			return
		}
		if rr.Stage != "connected" {
			run.Inconclusive("retarget chain: generator produced a block the reference refuses: %s/%s", rr.Stage, rr.Reason)
			return
		}
		g.DropView(tip.Hash)
		if h%500 == 0 {
			s.N.Ch.Idle()
		}
	}
	if run.WantSample() {
		run.Sample(map[string]interface{}{"config": cfg.Name, "final_height": s.Ref.Tip.Height, "final_bits": fmt.Sprintf("%08x", s.Ref.Tip.Bits), "journal_tail": lastN(s.Log, 6)})
	}
}

// clockProbe checks the two-hour rule: at the start of wall-clock second S a block with time
// S+7201 must be refused and one with S+7200 accepted. The probe is judged only if the clock still
// shows S after each call; otherwise it is repeated (max 5), then inconclusive.
func clockProbe(s *chainsim.Sim, run *vlib.Run, tip *refchain.Node) bool {
	for try := 0; try < 5; try++ {
		base := time.Now().Unix() + 2
		bad := s.G.Build(chainsim.BlockSpec{Parent: tip, Time: uint32(base + 7201)})
		good := s.G.Build(chainsim.BlockSpec{Parent: tip, Time: uint32(base + 7200)})
		for time.Now().Unix() < base {
			time.Sleep(2 * time.Millisecond)
		}
		if time.Now().Unix() != base {
			continue
		}
		// violator first: the node's verdict is only meaningful if the second did not change meanwhile
		gr := s.N.Deliver(bad.Serialize())
		if time.Now().Unix() != base {
			if gr.Stage == "ok" { // accepted after the second ticked: legitimately valid now; history cannot continue in sync
				run.Inconclusive("clock probe straddled a second boundary")
				return false
			}
			continue
		}
		if gr.Stage == "ok" {
			run.Violation("accepts-invalid/time-too-new/clock", "block with timestamp now+7201 was accepted", map[string]interface{}{"block_hex": vlib.Hex(bad.Serialize()), "now": base})
			return false
		}
		run.Inc("family/time/now+7201")
		rr, _, ok := s.Offer(good, "valid/time-now+7200")
		if time.Now().Unix() != base && !ok {
			run.Inconclusive("clock probe straddled a second boundary (valid side)")
			return false
		}
		if !ok {
			return false
		}
		if rr.Stage != "connected" {
			run.Inconclusive("clock probe: reference refused the now+7200 block: %s/%s", rr.Stage, rr.Reason)
			return false
		}
		run.Distinct("probes", "time/clock-rule")
		run.Distinct("probe_x_height", "time/clock-rule", tip.Height+1)
		return true
	}
	run.Inconclusive("clock probe could not be aligned in 5 attempts")
	return true
}

// malformedProbe offers byte strings that are not well-formed blocks (header only, header plus
// one byte, truncated body, trailing garbage count). The node must refuse and nothing may change.
func malformedProbe(s *chainsim.Sim, run *vlib.Run, g *chainsim.Gen, tip *refchain.Node, r *vlib.Rand) bool {
	b := g.RandomBlock(tip, 3)
	raw := b.Serialize()
	var cases [][]byte
	cases = append(cases, raw[:80], raw[:81], raw[:80+1+r.Intn(len(raw)-81)], raw[:len(raw)-1])
	// tx count larger than the transactions present
	more := append([]byte{}, raw...)
	more[80]++
	cases = append(cases, more)
	before, _ := s.N.Tip()
	for i, cs0 := range cases {
		// exact-capacity copy: a re-slice of the full block would leave the cut-off bytes reachable
		// within the slice capacity, which Go slicing does not bounds-check against the length
		cs := make([]byte, len(cs0))
		copy(cs, cs0)
		gr := s.N.Deliver(cs)
		after, _ := s.N.Tip()
		wit := map[string]interface{}{"raw_hex": vlib.Hex(cs), "node": gr.Stage + "/" + gr.Err, "case": i}
		if gr.Stage == "panic" {
			run.Violation("panic/malformed-block", "node panicked on a malformed block: "+gr.Err, wit)
			return false
		}
		if gr.Stage == "ok" || after != before {
			run.Violation("accepts-invalid/malformed-block", "node accepted a truncated / inconsistent block encoding", wit)
			return false
		}
		if d := chainsim.DiffNodeUTXO(s.N.DumpUTXO(), s.Ref.Utxo); d != "" {
			wit["utxo_diff"] = d
			run.Violation("utxo-mismatch/malformed-block", "UTXO set changed by a refused malformed block", wit)
			return false
		}
		run.Inc("family/malformed/truncated")
		run.Inc("deliveries")
	}
	run.Distinct("probes", "malformed/truncated")
	run.Distinct("probe_x_height", "malformed/truncated", tip.Height+1)
	return true
}

// richOnly keeps coins large enough for the probes' fee arithmetic.
func richOnly(l []refchain.OutPoint, v refchain.UTXO) []refchain.OutPoint {
	o := l[:0]
	for _, op := range l {
		if v[op].Value >= 100000 {
			o = append(o, op)
		}
	}
	return o
}

func lastN(l []string, n int) []string {
	if len(l) > n {
		return l[len(l)-n:]
	}
	return l
}

func spentOf(b *refchain.Block) (l []refchain.OutPoint) {
	for _, t := range b.Txs[1:] {
		for _, in := range t.In {
			l = append(l, in.Prev)
		}
	}
	return
}

func near(h uint32, p refchain.Params) bool {
	for _, a := range []uint32{p.BIP34, p.BIP65, p.BIP66, p.CSV, p.Segwit, p.Taproot} {
		if h+1 >= a && h <= a+1 {
			return true
		}
	}
	return false
}

func Configs(tier string) []Config {
	l := []Config{
		{Name: "late-plain", Late: true, Blocks: 150},
		{Name: "early-compressed", Late: false, Compress: true, Blocks: 130},
		{Name: "testnet-late", Late: true, Testnet: true, Blocks: 140},
		// blocks handed over the way the client does it: header into the tree first, body checked on the same object
		{Name: "late-plain-headerfirst", Late: true, HeaderFirst: true, Blocks: 150},
	}
	if tier == "thorough" {
		l = append(l, Config{Name: "halving", Halving: true})
	}
	if tier == "quick" {
		// five full periods: fast-ish, slow (clamp from below the limit), fast, slow, negative timespan
		l = append(l, Config{Name: "retarget-mainnet", Retarget: true, Blocks: 5*2016 + 20}, Config{Name: "retarget-testnet", Retarget: true, Testnet: true, Blocks: 2*2016 + 20},
			Config{Name: "retarget-testnet4", Retarget: true, Testnet: true, Testnet4: true, Blocks: 3*2016 + 20})
	} else {
		l = append(l, Config{Name: "retarget-mainnet", Retarget: true, Blocks: 6*2016 + 20}, Config{Name: "retarget-testnet", Retarget: true, Testnet: true, Blocks: 6*2016 + 20},
			Config{Name: "retarget-testnet4", Retarget: true, Testnet: true, Testnet4: true, Blocks: 6*2016 + 20})
	}
	if tier == "thorough" {
		l = append(l,
			Config{Name: "late-compressed", Late: true, Compress: true, Blocks: 220},
			Config{Name: "early-plain", Late: false, Blocks: 180},
			Config{Name: "testnet-early-compressed", Testnet: true, Compress: true, Blocks: 180},
		)
	}
	return l
}

// subsidySchedule compares btc.GetBlockReward with the reference schedule at every halving
// boundary (+-2) up to the 70th interval and at random heights (function level; the chain-level
// "subsidy+fees+1" probe uses the same function at the heights it reaches).
func subsidySchedule(run *vlib.Run) {
	r := run.Rand("subsidy")
	check := func(h uint32) {
		if got, want := btc.GetBlockReward(h), refchain.Subsidy(h); got != want {
			run.Violation("subsidy-schedule/height-class-"+fmt.Sprint(h/210000), fmt.Sprintf("GetBlockReward(%d) = %d, schedule says %d", h, got, want), map[string]interface{}{"height": h})
		}
		run.Inc("subsidy_heights_checked")
	}
	for k := uint32(0); k <= 70; k++ {
		for d := -2; d <= 2; d++ {
			h := int64(k)*210000 + int64(d)
			if h >= 0 && h <= 0xffffffff {
				check(uint32(h))
			}
		}
	}
	for i := 0; i < 20000; i++ {
		check(r.U32())
	}
	check(0xffffffff)
}

// Main is the entry point of mon/c04 and mon/c05.
func Main(prop string) {
	if len(os.Args) > 1 && os.Args[1] == "child" {
		var seed int64
		fmt.Sscan(os.Args[2], &seed)
		iso := map[string]bool{}
		for _, n := range strings.Split(os.Getenv("VERIF_ISOLATE"), ",") {
			if n != "" {
				iso[n] = true
			}
		}
		if strings.HasPrefix(os.Args[4], "trees:") {
			// block trees whose side branches carry header/structure/commitment violators and
			// CVE-2012-2459 twins: a violator that is merely *stored* must never get connected later
			forksmon.ChildFor(prop, seed, os.Args[3], strings.TrimPrefix(os.Args[4], "trees:"), os.Args[5], 5)
			return
		}
		Child(prop, seed, os.Args[3], os.Args[4], os.Args[5], iso, os.Getenv("VERIF_ONLY"))
		return
	}
	run := vlib.Start(prop, "exploration")
	if prop == "C04" {
		subsidySchedule(run)
	}
	tmp, _ := os.MkdirTemp("", "rulesmon")
	defer os.RemoveAll(tmp)
	type job struct {
		cfg  Config
		seed int64
		only string
	}
	var jobs []job
	// probes whose violation is a recorded known finding are isolated: they run in histories of
	// their own so that the divergence they cause cannot hide anything else
	var isolated []string
	for _, pb := range probes {
		for _, k := range run.KnownClasses() {
			if pb.prop == prop && strings.HasSuffix(k, "/"+pb.name) {
				isolated = append(isolated, pb.name)
				break
			}
		}
	}
	for i, name := range isolated {
		cfgs := Configs(run.Tier)
		jobs = append(jobs, job{cfgs[i%len(cfgs)], run.Seed*1000 + 500 + int64(i), name})
	}
	reps := run.N(5, 60)
	for i := 0; i < reps; i++ {
		for _, c := range Configs(run.Tier) {
			if c.Retarget && (prop != "C05" || i >= run.N(1, 6)) {
				continue
			}
			if c.Halving && (prop != "C04" || i >= 1) {
				continue
			}
			jobs = append(jobs, job{c, run.Seed*1000 + int64(i), ""})
		}
	}
	{
		for i := 0; i < run.N(3, 40); i++ {
			for _, fc := range forksmon.Configs() {
				jobs = append(jobs, job{Config{Name: "trees:" + fc.Name}, run.Seed*1000 + 700 + int64(i), ""})
			}
		}
	}
	vlib.Parallel(len(jobs), 8, func(i int) {
		j := jobs[i]
		sf := fmt.Sprintf("%s/state%d.json", tmp, i)
		logf := fmt.Sprintf("%s/log%d.txt", tmp, i)
		res := vlib.RunChild("", []string{"child", fmt.Sprint(j.seed), run.Tier, j.cfg.Name, sf}, []string{"VERIF_CHILD_LOG=" + logf, "VERIF_ISOLATE=" + strings.Join(isolated, ","), "VERIF_ONLY=" + j.only}, nil, 150*time.Minute)
		desc := map[string]interface{}{"config": j.cfg.Name, "child_seed": j.seed, "only": j.only}
		if res.TimedOut {
			run.Inconclusive("child watchdog fired: %v", desc)
			return
		}
		okState := run.ImportState(sf)
		if res.ExitCode != 0 || !okState {
			desc["output_tail"] = vlib.Tail(res.Out, 4000)
			cls := "child-died"
			if strings.Contains(string(res.Out), "panic") {
				cls = "child-panic"
			}
			run.Violation(cls+"/"+j.cfg.Name, fmt.Sprintf("worker process died (exit %d %s) while processing blocks", res.ExitCode, res.Signal), desc)
			return
		}
		run.Inc("histories")
		run.Distinct("configs", j.cfg.Name)
	})
	run.Assume("script validity of generated inputs is ground truth by construction (valid spends signed with the library's signer, invalid ones corrupted); C01-C03 tie that to the specification")
	run.Assume("the reference model /verif/ref/refchain is the oracle for every other rule; it shares no code with gocoin")
	os.RemoveAll(tmp) // Finish exits the process: deferred clean-up would not run
	run.Finish("each delivery = one block (valid, or violating exactly one consensus rule, or the valid neighbour across the boundary) offered to the real chain code and to the reference; after each: tip + full UTXO dump compared; distinct_nontrivial = distinct (probe family, height) pairs",
		"deliveries", "probe_x_height", 20)
}

func tailStr(l []string, n int) []string {
	if len(l) > n {
		return l[len(l)-n:]
	}
	return l
}
