package main

// Field-operation sequences with tracked magnitudes, compared with big.Int arithmetic mod p.
//
// Contract used (libsecp256k1's VERIFY-mode rules, which the gocoin code was ported from):
//   * a value of magnitude m has limbs <= F*m*(2^B-1) (top limb F*m*(2^T-1)); 5x52: B=52,T=48,F=2;
//     10x26: B=26,T=22,F=1 (its Negate adds (m+1)*p, not 2(m+1)*p)
//   * Mul/Sqr/Inv/Sqrt need operands of magnitude <= 8 and give magnitude 1 (not normalised)
//   * Negate(m) needs magnitude <= m, gives m+1; MulInt(k) multiplies it; SetAdd adds; all <= 32
//   * Normalize / InvVar accept any magnitude <= 32; Equals/IsOdd/IsZero/GetB32 need normalised operands
// Only sequences respecting this contract are issued. Register contents are read back through the
// raw-limb hook (sum limb_i * 2^(B*i) mod p), i.e. independently of Normalize/GetB32.

import (
	"fmt"
	"math/big"

	"github.com/piotrnar/gocoin/lib/secp256k1"
	"verif/lib/vlib"
	"verif/ref/refec"
)

var (
	P      = refec.P
	N      = refec.N
	nLimbs = secp256k1.VerifLimbs()
	arch   = secp256k1.FieldArch
	lBits  uint
	tBits  uint
	lFact  uint64
	pLimbs []uint64
)

func init() {
	if nLimbs == 5 {
		lBits, tBits, lFact = 52, 48, 2
	} else {
		lBits, tBits, lFact = 26, 22, 1
	}
	pLimbs = canonLimbs(P)
}

func limbMax(m int, i int) uint64 {
	b := lBits
	if i == nLimbs-1 {
		b = tBits
	}
	return lFact * uint64(m) * (uint64(1)<<b - 1)
}

// canonLimbs splits v (< 2^256) into radix-2^B digits.
func canonLimbs(v *big.Int) []uint64 {
	l := make([]uint64, nLimbs)
	t := new(big.Int).Set(v)
	mask := new(big.Int).Sub(new(big.Int).Lsh(big.NewInt(1), lBits), big.NewInt(1))
	for i := 0; i < nLimbs; i++ {
		l[i] = new(big.Int).And(t, mask).Uint64()
		t.Rsh(t, lBits)
	}
	return l
}

// limbsInt is the exact integer a limb vector represents.
func limbsInt(l []uint64) *big.Int {
	v := new(big.Int)
	for i := len(l) - 1; i >= 0; i-- {
		v.Lsh(v, lBits)
		v.Add(v, new(big.Int).SetUint64(l[i]))
	}
	return v
}

func fieldInt(f *secp256k1.Field) *big.Int { return limbsInt(f.VerifGetLimbs()) }
func fieldVal(f *secp256k1.Field) *big.Int { return fieldInt(f).Mod(fieldInt(f), P) }

func isCanonical(f *secp256k1.Field) bool {
	l := f.VerifGetLimbs()
	for i, x := range l {
		if x > limbMax(1, i)/lFact {
			return false
		}
	}
	return limbsInt(l).Cmp(P) < 0
}

func callNeg[T uint32 | uint64](f func(*secp256k1.Field, T), r *secp256k1.Field, m int) { f(r, T(m)) }
func callU[T uint32 | uint64](f func(T), v uint64)                                      { f(T(v)) }

func hexv(v *big.Int) string { return fmt.Sprintf("%x", v) }

// ---------------------------------------------------------------------------------------------

type freg struct {
	f    secp256k1.Field
	v    *big.Int // value mod p
	mag  int
	norm bool
}

type fail struct {
	class   string
	what    string
	witness map[string]interface{}
}

type fieldEnv struct {
	rng   *vlib.Rand
	regs  [6]freg
	trace *[]string
	ops   map[string]int64
	fail  *fail
}

func (e *fieldEnv) tr(format string, a ...interface{}) {
	if e.trace != nil {
		*e.trace = append(*e.trace, fmt.Sprintf(format, a...))
	}
}

var two256 = refec.Two256

func (e *fieldEnv) edgeBytes() []byte {
	r := e.rng
	small := func() *big.Int { return big.NewInt(int64(r.Intn(2000))) }
	var v *big.Int
	switch r.Intn(16) {
	case 0:
		v = big.NewInt(int64(r.Intn(3)))
	case 1:
		v = new(big.Int).Sub(P, big.NewInt(int64(1+r.Intn(3))))
	case 2:
		v = new(big.Int).Set(P)
	case 3:
		v = new(big.Int).Add(P, small())
	case 4:
		v = new(big.Int).Sub(two256, big.NewInt(int64(1+r.Intn(3))))
	case 5: // 2^256 mod p and neighbours
		v = new(big.Int).Add(new(big.Int).Sub(two256, P), big.NewInt(int64(r.Intn(3)-1)))
	case 6: // limb boundary: 2^(B*i) +- 1
		i := uint(1 + r.Intn(nLimbs-1))
		v = new(big.Int).Lsh(big.NewInt(1), lBits*i)
		v.Add(v, big.NewInt(int64(r.Intn(3)-1)))
	case 7: // all ones up to a limb boundary
		i := uint(1 + r.Intn(nLimbs))
		sh := lBits * i
		if sh > 256 {
			sh = 256
		}
		v = new(big.Int).Sub(new(big.Int).Lsh(big.NewInt(1), sh), big.NewInt(1))
	case 8: // one limb all ones
		i := uint(r.Intn(nLimbs))
		v = new(big.Int).Lsh(new(big.Int).Sub(new(big.Int).Lsh(big.NewInt(1), lBits), big.NewInt(1)), lBits*i)
		v.Mod(v, two256)
	case 9: // random with long runs
		b := make([]byte, 32)
		for i := range b {
			b[i] = []byte{0, 0xff, 0xff, 0, 0x80, 0x7f, 1, 0xfe}[r.Intn(8)]
		}
		return b
	case 10:
		v = new(big.Int).Sub(P, small())
	default:
		return r.Bytes(32)
	}
	return refec.Bytes32(v)
}

// rawLimbs produces a limb pattern of magnitude m and the value it stands for.
func (e *fieldEnv) rawLimbs(m int) []uint64 {
	r := e.rng
	l := make([]uint64, nLimbs)
	switch r.Intn(6) {
	case 0: // uniform below the bound
		for i := range l {
			l[i] = r.U64() % (limbMax(m, i) + 1)
		}
	case 1: // every limb at an edge
		for i := range l {
			mx := limbMax(m, i)
			one := limbMax(1, i) / lFact
			opts := []uint64{0, 1, mx, mx - 1, one, one + 1, one - 1, mx / 2}
			v := opts[r.Intn(len(opts))]
			if v > mx {
				v = mx
			}
			l[i] = v
		}
	case 2: // all limbs at the bound
		for i := range l {
			l[i] = limbMax(m, i)
		}
	case 3: // canonical edge value plus j*p spread over the limbs (what lazy additions produce)
		c := canonLimbs(new(big.Int).SetBytes(e.edgeBytes()))
		j := uint64(0)
		if lFact*uint64(m) > 1 {
			j = uint64(r.Intn(int(lFact*uint64(m)-1) + 1))
		}
		for i := range l {
			l[i] = c[i] + j*pLimbs[i]
			if l[i] > limbMax(m, i) {
				l[i] = limbMax(m, i)
			}
		}
	case 4: // k * (2^B - 1) in every limb: sums of all-ones values
		k := uint64(1 + r.Intn(int(lFact)*m))
		for i := range l {
			l[i] = k * (limbMax(1, i) / lFact)
		}
		if r.Bool() {
			l[0] -= uint64(r.Intn(3))
		}
	case 5: // value just below / above a multiple of 2^256: top limb carries the multiple, rest all ones
		for i := range l {
			l[i] = limbMax(1, i) / lFact
		}
		k := uint64(r.Intn(int(lFact)*m)) + 1
		l[nLimbs-1] = k*(uint64(1)<<tBits) - 1
		if l[nLimbs-1] > limbMax(m, nLimbs-1) {
			l[nLimbs-1] = limbMax(m, nLimbs-1)
		}
		l[0] -= uint64(r.Intn(2000))
	}
	return l
}

func (e *fieldEnv) setRaw(i int, m int) {
	l := e.rawLimbs(m)
	e.regs[i].f.VerifSetLimbs(l)
	e.regs[i].v = new(big.Int).Mod(limbsInt(l), P)
	e.regs[i].mag = m
	e.regs[i].norm = false
	e.tr("R%d = rawlimbs(mag %d) %x", i, m, l)
}

func (e *fieldEnv) setB32(i int) {
	b := e.edgeBytes()
	e.regs[i].f.SetB32(b)
	v := new(big.Int).SetBytes(b)
	e.regs[i].norm = v.Cmp(P) < 0
	e.regs[i].v = v.Mod(v, P)
	e.regs[i].mag = 1
	e.tr("R%d.SetB32(%x)", i, b)
}

func (e *fieldEnv) count(op string) { e.ops[op]++ }

// check compares register i with its model; op is the operation that produced it.
func (e *fieldEnv) check(op string, i int, pre func() map[string]interface{}) bool {
	got := fieldVal(&e.regs[i].f)
	if got.Cmp(e.regs[i].v) == 0 {
		return true
	}
	w := map[string]interface{}{"arch": arch, "op": op, "expected": hexv(e.regs[i].v), "got": hexv(got), "result_limbs": fmt.Sprintf("%x", e.regs[i].f.VerifGetLimbs())}
	class := fmt.Sprintf("field/%s/wrong-value", op)
	if pre != nil {
		for k, v := range pre() {
			if k == "class_suffix" {
				class += "/" + v.(string)
				continue
			}
			w[k] = v
		}
	}
	e.fail = &fail{class: class + "@" + arch, what: fmt.Sprintf("%s on %s returned a value different from arithmetic mod p", op, arch), witness: w}
	return false
}

func (e *fieldEnv) pick(cond func(r *freg) bool) int {
	var c []int
	for i := range e.regs {
		if cond(&e.regs[i]) {
			c = append(c, i)
		}
	}
	if len(c) == 0 {
		return -1
	}
	return c[e.rng.Intn(len(c))]
}

// normalizeDiscriminator tells WHICH reduction situation an input of Normalize is in: after folding the
// part above 2^256 once (t + c*(2^32+977)), does the sum leave 2^256 again?
func normalizeDiscriminator(l []uint64) string {
	V := limbsInt(l)
	c := new(big.Int).Rsh(V, 256)
	t := new(big.Int).Mod(V, two256)
	t.Add(t, new(big.Int).Mul(c, new(big.Int).Sub(two256, P)))
	if t.Cmp(two256) >= 0 {
		return "second-carry-out-of-2^256"
	}
	if c.Sign() == 0 && t.Cmp(P) >= 0 {
		return "value-in-[p,2^256)"
	}
	return "other"
}

// step performs one random contract-respecting operation. Returns false on a failure (e.fail set).
func (e *fieldEnv) step() bool {
	r := e.rng
	any := func(*freg) bool { return true }
	le8 := func(x *freg) bool { return x.mag <= 8 }
	normd := func(x *freg) bool { return x.norm }
	for {
		switch r.Intn(30) {
		case 0, 1:
			e.count("SetB32")
			i := r.Intn(len(e.regs))
			e.setB32(i)
			return e.check("SetB32", i, nil)
		case 2:
			i := r.Intn(len(e.regs))
			m := 1 + r.Intn(8)
			if r.Intn(4) == 0 {
				m = 1 + r.Intn(32)
			}
			e.count("rawlimbs")
			e.setRaw(i, m)
			return true
		case 3:
			e.count("SetInt")
			i := r.Intn(len(e.regs))
			k := uint64(r.Intn(8))
			if r.Intn(3) == 0 {
				k = uint64(r.Intn(1 << 16))
			}
			callU(e.regs[i].f.SetInt, k)
			e.regs[i].v, e.regs[i].mag, e.regs[i].norm = new(big.Int).SetUint64(k), 1, true
			e.tr("R%d.SetInt(%d)", i, k)
			return e.check("SetInt", i, nil)
		case 4, 5, 6:
			i := r.Intn(len(e.regs))
			e.count("Normalize")
			before := e.regs[i].f.VerifGetLimbs()
			e.tr("R%d.Normalize()  [mag %d]", i, e.regs[i].mag)
			e.regs[i].f.Normalize()
			e.regs[i].mag, e.regs[i].norm = 1, true
			pre := func() map[string]interface{} {
				return map[string]interface{}{"input_limbs": fmt.Sprintf("%x", before), "input_integer": hexv(limbsInt(before)), "class_suffix": normalizeDiscriminator(before)}
			}
			if !e.check("Normalize", i, pre) {
				return false
			}
			if !isCanonical(&e.regs[i].f) {
				e.fail = &fail{class: fmt.Sprintf("field/Normalize/not-canonical/%s@%s", normalizeDiscriminator(before), arch), what: "Normalize left a non-canonical representation (value >= p or limb overflow)",
					witness: map[string]interface{}{"arch": arch, "input_limbs": fmt.Sprintf("%x", before), "result_limbs": fmt.Sprintf("%x", e.regs[i].f.VerifGetLimbs())}}
				return false
			}
			return true
		case 7, 8, 9, 10, 11:
			a, b := e.pick(le8), e.pick(le8)
			if a < 0 {
				continue
			}
			d := r.Intn(len(e.regs))
			switch r.Intn(5) { // aliasing patterns used by the group code
			case 0:
				d = a
			case 1:
				d = b
			case 2:
				b = a
			}
			e.count("Mul")
			av, bv := e.regs[a].v, e.regs[b].v
			la, lb := e.regs[a].f.VerifGetLimbs(), e.regs[b].f.VerifGetLimbs()
			e.tr("R%d.Mul(&R%d, &R%d)  [mags %d,%d]", a, d, b, e.regs[a].mag, e.regs[b].mag)
			e.regs[a].f.Mul(&e.regs[d].f, &e.regs[b].f)
			e.regs[d].v, e.regs[d].mag, e.regs[d].norm = refec.FMul(av, bv), 1, false
			return e.check("Mul", d, func() map[string]interface{} {
				return map[string]interface{}{"a_limbs": fmt.Sprintf("%x", la), "b_limbs": fmt.Sprintf("%x", lb)}
			})
		case 12, 13, 14:
			a := e.pick(le8)
			if a < 0 {
				continue
			}
			d := r.Intn(len(e.regs))
			if r.Bool() {
				d = a
			}
			e.count("Sqr")
			av := e.regs[a].v
			la := e.regs[a].f.VerifGetLimbs()
			e.tr("R%d.Sqr(&R%d)  [mag %d]", a, d, e.regs[a].mag)
			e.regs[a].f.Sqr(&e.regs[d].f)
			e.regs[d].v, e.regs[d].mag, e.regs[d].norm = refec.FSqr(av), 1, false
			return e.check("Sqr", d, func() map[string]interface{} {
				return map[string]interface{}{"a_limbs": fmt.Sprintf("%x", la)}
			})
		case 15, 16, 17:
			a := e.pick(func(x *freg) bool { return x.mag <= 31 })
			if a < 0 {
				continue
			}
			m := e.regs[a].mag + r.Intn(3)
			if m > 31 {
				m = 31
			}
			d := r.Intn(len(e.regs))
			if r.Bool() {
				d = a
			}
			e.count("Negate")
			av := e.regs[a].v
			la := e.regs[a].f.VerifGetLimbs()
			e.tr("R%d.Negate(&R%d, %d)  [mag %d]", a, d, m, e.regs[a].mag)
			callNeg(e.regs[a].f.Negate, &e.regs[d].f, m)
			e.regs[d].v, e.regs[d].mag, e.regs[d].norm = refec.FNeg(av), m+1, false
			return e.check("Negate", d, func() map[string]interface{} {
				return map[string]interface{}{"a_limbs": fmt.Sprintf("%x", la), "m": m}
			})
		case 18, 19:
			a := e.pick(func(x *freg) bool { return x.mag <= 16 })
			if a < 0 {
				continue
			}
			k := 1 + r.Intn(32/e.regs[a].mag)
			if r.Intn(16) == 0 {
				k = 0
			}
			e.count("MulInt")
			av := e.regs[a].v
			e.tr("R%d.MulInt(%d)  [mag %d]", a, k, e.regs[a].mag)
			callU(e.regs[a].f.MulInt, uint64(k))
			e.regs[a].v, e.regs[a].norm = refec.FMulInt(av, int64(k)), false
			if k > 0 {
				e.regs[a].mag *= k
			}
			return e.check("MulInt", a, nil)
		case 20, 21, 22:
			d := r.Intn(len(e.regs))
			a := e.pick(func(x *freg) bool { return x.mag+e.regs[d].mag <= 32 })
			if a < 0 {
				continue
			}
			e.count("SetAdd")
			sum := refec.FAdd(e.regs[d].v, e.regs[a].v)
			e.tr("R%d.SetAdd(&R%d)  [mags %d,%d]", d, a, e.regs[d].mag, e.regs[a].mag)
			e.regs[d].f.SetAdd(&e.regs[a].f)
			e.regs[d].mag += e.regs[a].mag
			e.regs[d].v, e.regs[d].norm = sum, false
			return e.check("SetAdd", d, nil)
		case 23:
			// Inv / InvVar / Sqrt: expensive in the reference (modular exponentiation), sampled less often
			a := e.pick(le8)
			if a < 0 {
				continue
			}
			d := r.Intn(len(e.regs))
			if r.Intn(3) == 0 {
				d = a
			}
			av := e.regs[a].v
			la := e.regs[a].f.VerifGetLimbs()
			pre := func() map[string]interface{} {
				return map[string]interface{}{"a_limbs": fmt.Sprintf("%x", la)}
			}
			switch r.Intn(3) {
			case 0:
				e.count("Inv")
				e.tr("R%d.Inv(&R%d)  [mag %d]", a, d, e.regs[a].mag)
				e.regs[a].f.Inv(&e.regs[d].f)
				e.regs[d].mag, e.regs[d].norm = 1, false
				if av.Sign() == 0 { // no inverse: nothing is defined, resynchronise
					e.regs[d].v = fieldVal(&e.regs[d].f)
					return true
				}
				e.regs[d].v = refec.FInv(av)
				return e.check("Inv", d, pre)
			case 1:
				e.count("InvVar")
				e.tr("R%d.InvVar(&R%d)  [mag %d]", a, d, e.regs[a].mag)
				e.regs[a].f.InvVar(&e.regs[d].f)
				e.regs[d].mag, e.regs[d].norm = 1, false
				if av.Sign() == 0 {
					e.regs[d].v = fieldVal(&e.regs[d].f)
					return true
				}
				e.regs[d].v = refec.FInv(av)
				return e.check("InvVar", d, func() map[string]interface{} {
					return map[string]interface{}{"a_limbs": fmt.Sprintf("%x", la), "class_suffix": "operand-" + normalizeDiscriminator(la)}
				})
			default:
				e.count("Sqrt")
				e.tr("R%d.Sqrt(&R%d)  [mag %d]", a, d, e.regs[a].mag)
				e.regs[a].f.Sqrt(&e.regs[d].f)
				e.regs[d].mag, e.regs[d].norm = 1, false
				got := fieldVal(&e.regs[d].f)
				e.regs[d].v = got
				if refec.FIsSquare(av) {
					e.ops["Sqrt(square)"]++
					if refec.FSqr(got).Cmp(av) != 0 {
						e.fail = &fail{class: fmt.Sprintf("field/Sqrt/wrong-value@%s", arch), what: "Sqrt of a quadratic residue returned r with r^2 != a",
							witness: map[string]interface{}{"arch": arch, "a": hexv(av), "a_limbs": fmt.Sprintf("%x", la), "got": hexv(got)}}
						return false
					}
				}
				return true
			}
		case 24: // InvVar accepts any magnitude
			a := e.pick(any)
			d := r.Intn(len(e.regs))
			av := e.regs[a].v
			la := e.regs[a].f.VerifGetLimbs()
			e.count("InvVar")
			e.tr("R%d.InvVar(&R%d)  [mag %d]", a, d, e.regs[a].mag)
			e.regs[a].f.InvVar(&e.regs[d].f)
			e.regs[d].mag, e.regs[d].norm = 1, false
			if av.Sign() == 0 {
				e.regs[d].v = fieldVal(&e.regs[d].f)
				return true
			}
			e.regs[d].v = refec.FInv(av)
			return e.check("InvVar", d, func() map[string]interface{} {
				return map[string]interface{}{"a_limbs": fmt.Sprintf("%x", la), "class_suffix": "operand-" + normalizeDiscriminator(la)}
			})
		case 25, 26: // predicates on normalised operands
			a, b := e.pick(normd), e.pick(normd)
			if a < 0 {
				continue
			}
			fa, fb := &e.regs[a], &e.regs[b]
			switch r.Intn(3) {
			case 0:
				e.count("Equals")
				e.tr("R%d.Equals(&R%d)", a, b)
				if got, exp := fa.f.Equals(&fb.f), fa.v.Cmp(fb.v) == 0; got != exp {
					e.fail = &fail{class: fmt.Sprintf("field/Equals/wrong-answer@%s", arch), what: "Equals on normalised operands disagrees with value equality",
						witness: map[string]interface{}{"arch": arch, "a": hexv(fa.v), "b": hexv(fb.v), "got": got}}
					return false
				}
			case 1:
				e.count("IsOdd")
				e.tr("R%d.IsOdd()", a)
				if got, exp := fa.f.IsOdd(), fa.v.Bit(0) == 1; got != exp {
					e.fail = &fail{class: fmt.Sprintf("field/IsOdd/wrong-answer@%s", arch), what: "IsOdd on a normalised operand is wrong",
						witness: map[string]interface{}{"arch": arch, "a": hexv(fa.v), "got": got}}
					return false
				}
			case 2:
				e.count("IsZero")
				e.tr("R%d.IsZero()", a)
				if got, exp := fa.f.IsZero(), fa.v.Sign() == 0; got != exp {
					e.fail = &fail{class: fmt.Sprintf("field/IsZero/wrong-answer@%s", arch), what: "IsZero on a normalised operand is wrong",
						witness: map[string]interface{}{"arch": arch, "a": hexv(fa.v), "got": got}}
					return false
				}
			}
			return true
		case 27: // GetB32 of a normalised operand, then SetB32 round trip
			a := e.pick(normd)
			if a < 0 {
				continue
			}
			e.count("GetB32")
			var b [32]byte
			e.tr("R%d.GetB32()", a)
			e.regs[a].f.GetB32(b[:])
			if new(big.Int).SetBytes(b[:]).Cmp(e.regs[a].v) != 0 {
				e.fail = &fail{class: fmt.Sprintf("field/GetB32/wrong-value@%s", arch), what: "GetB32 of a normalised element differs from its value",
					witness: map[string]interface{}{"arch": arch, "expected": hexv(e.regs[a].v), "got": fmt.Sprintf("%x", b), "limbs": fmt.Sprintf("%x", e.regs[a].f.VerifGetLimbs())}}
				return false
			}
			return true
		case 28: // copy
			a, d := r.Intn(len(e.regs)), r.Intn(len(e.regs))
			e.tr("R%d = R%d", d, a)
			e.regs[d] = e.regs[a]
			return true
		case 29: // String()/GetBig(): normalising readers used all over the code base
			a := e.pick(any)
			e.count("String")
			e.tr("R%d.String()", a)
			s := e.regs[a].f.String()
			if s != fmt.Sprintf("%064x", e.regs[a].v) {
				e.fail = &fail{class: fmt.Sprintf("field/String/wrong-value/%s@%s", normalizeDiscriminator(e.regs[a].f.VerifGetLimbs()), arch), what: "Field.String() (normalise a copy + GetB32) differs from the value",
					witness: map[string]interface{}{"arch": arch, "expected": hexv(e.regs[a].v), "got": s, "limbs": fmt.Sprintf("%x", e.regs[a].f.VerifGetLimbs())}}
				return false
			}
			return true
		}
	}
}

// runFieldSequence executes one sequence; trace != nil records the operations and stops at the first
// failure. Without trace a failure is reported, the models are resynchronised with the implementation
// and the sequence goes on (at most 3 reports per sequence), so that a known defect does not cut coverage.
func runFieldSequence(rng *vlib.Rand, ops map[string]int64, trace *[]string, onFail func(*fail)) {
	e := &fieldEnv{rng: rng, ops: ops, trace: trace}
	for i := range e.regs {
		if rng.Intn(3) == 0 {
			e.setRaw(i, 1+rng.Intn(8))
		} else {
			e.setB32(i)
		}
	}
	nfail := 0
	failed := func() bool { // returns true when the sequence must stop
		onFail(e.fail)
		e.fail = nil
		nfail++
		for i := range e.regs {
			e.regs[i].v = fieldVal(&e.regs[i].f)
		}
		return trace != nil || nfail >= 3
	}
	n := 6 + rng.Intn(20)
	for s := 0; s < n; s++ {
		if !e.step() && failed() {
			return
		}
	}
	// final sweep: every register still equals its model
	for i := range e.regs {
		if !e.check("final-sweep", i, nil) && failed() {
			return
		}
	}
}
