package main

// Scalar-multiplication entry points on scalar edge sets, plus the helper decompositions
// (GLV split, wNAF) they are built from.

import (
	"bytes"
	"fmt"
	"math/big"

	"github.com/piotrnar/gocoin/lib/secp256k1"
	"verif/lib/vlib"
	"verif/ref/refec"
)

var (
	// GLV lattice basis of secp256k1 (public constants; used only to steer scalars to the extremes of the split)
	latA1 = mustHex("3086d221a7d46bcde86c90e49284eb15")
	latB1 = mustHex("e4437ed6010e88286f547fa90abfe4c3") // |b1|, b1 is negative
	latA2 = mustHex("114ca50f7a8e2f3f657c1108d9d44cfd8")
)

func pow2(k uint) *big.Int { return new(big.Int).Lsh(big.NewInt(1), k) }

// edgeScalar returns a scalar in [0, 2^256) and a label of its family.
func edgeScalar(r *vlib.Rand) (*big.Int, string) {
	small := func() *big.Int { return big.NewInt(int64(r.Intn(3))) }
	pm := func(v *big.Int) *big.Int {
		if r.Bool() {
			return new(big.Int).Add(v, small())
		}
		return new(big.Int).Sub(v, small())
	}
	fix := func(v *big.Int) *big.Int {
		v = new(big.Int).Mod(v, refec.Two256)
		return v
	}
	switch r.Intn(14) {
	case 0:
		return big.NewInt(int64(r.Intn(4))), "0..3"
	case 1:
		return fix(pm(N)), "n+-k"
	case 2:
		return fix(pm(pow2(128))), "2^128+-k"
	case 3:
		return fix(new(big.Int).Sub(refec.Two256, big.NewInt(int64(1+r.Intn(3))))), "2^256-k"
	case 4:
		return fix(pm(pow2(uint(1 + r.Intn(255))))), "2^i+-k"
	case 5: // run of ones
		k, s := uint(1+r.Intn(256)), uint(r.Intn(256))
		v := new(big.Int).Lsh(new(big.Int).Sub(pow2(k), big.NewInt(1)), s)
		return fix(v), "run-of-ones"
	case 6:
		return fix(pm(lambda)), "lambda+-k"
	case 7: // r1 + r2*lambda with r1, r2 at the extremes of the decomposition
		ext := []*big.Int{big.NewInt(0), big.NewInt(1), pow2(127), new(big.Int).Sub(pow2(128), big.NewInt(1)), pow2(128), latA1, latB1, latA2,
			new(big.Int).Rsh(new(big.Int).Add(latA1, latA2), 1), new(big.Int).Rsh(new(big.Int).Add(latB1, latA1), 1), new(big.Int).Rsh(latA2, 1), new(big.Int).Rsh(latB1, 1)}
		r1 := new(big.Int).Set(ext[r.Intn(len(ext))])
		r2 := new(big.Int).Set(ext[r.Intn(len(ext))])
		if r.Bool() {
			r1.Neg(r1)
		}
		if r.Bool() {
			r2.Neg(r2)
		}
		r1.Add(r1, big.NewInt(int64(r.Intn(5)-2)))
		r2.Add(r2, big.NewInt(int64(r.Intn(5)-2)))
		v := new(big.Int).Add(r1, new(big.Int).Mul(r2, lambda))
		v.Mod(v, N)
		if r.Intn(4) == 0 {
			v.Add(v, N) // same class above n
		}
		return fix(v), "lambda-split-extreme"
	case 8: // alternating patterns
		b := bytes.Repeat([]byte{[]byte{0xaa, 0x55, 0xf0, 0x0f, 0x80, 0x01, 0xfe, 0x7f}[r.Intn(8)]}, 32)
		return new(big.Int).SetBytes(b), "pattern"
	case 9: // half-words: high or low 128 bits only
		v := new(big.Int).SetBytes(r.Bytes(16))
		if r.Bool() {
			v.Lsh(v, 128)
		}
		return v, "128-bit-half"
	case 10: // above n, random
		v := new(big.Int).SetBytes(r.Bytes(16))
		return fix(v.Add(v, N)), "n+random128"
	case 11:
		return new(big.Int).Rsh(new(big.Int).Add(N, big.NewInt(int64(r.Intn(3)))), 1), "n/2"
	}
	return new(big.Int).SetBytes(r.Bytes(32)), "random"
}

func num(v *big.Int) *secp256k1.Number {
	var n secp256k1.Number
	n.Set(v)
	return &n
}

func scalarFail(fn, kind, what string, w map[string]interface{}) *fail {
	w["arch"] = arch
	w["function"] = fn
	return &fail{class: fmt.Sprintf("scalar/%s/%s@%s", fn, kind, arch), what: what, witness: w}
}

func guard(fn string, w map[string]interface{}, f func() *fail) (res *fail) {
	defer func() {
		if x := recover(); x != nil {
			w["panic"] = fmt.Sprint(x)
			res = scalarFail(fn, "panic", fn+" panicked", w)
		}
	}()
	return f()
}

// ECmult: r = na*A + ng*G
func caseECmult(r *vlib.Rand, pool []refec.Point, count func(string, string)) *fail {
	na, la := edgeScalar(r)
	ng, lg := edgeScalar(r)
	if r.Intn(6) == 0 {
		ng = big.NewInt(0)
		lg = "0"
	}
	if r.Intn(10) == 0 {
		na = big.NewInt(0)
		la = "0"
	}
	A := pool[r.Intn(len(pool))]
	switch r.Intn(8) {
	case 0:
		A = refec.G()
	case 1:
		A = refec.G().Neg()
	case 2:
		A = refec.Infinity()
	}
	z := big.NewInt(1)
	if r.Bool() {
		z = refec.FRed(new(big.Int).SetBytes(r.Bytes(32)))
		if z.Sign() == 0 {
			z = big.NewInt(1)
		}
	}
	den := r.Intn(3)
	count("ECmult", "na:"+la)
	count("ECmult", "ng:"+lg)
	w := map[string]interface{}{"na": hexv(na), "ng": hexv(ng), "A": ptStr(A), "z": hexv(z), "na_family": la, "ng_family": lg}
	return guard("ECmult", w, func() *fail {
		a := mkXYZ(A, z, den, r)
		var res secp256k1.XYZ
		nna, nng := num(na), num(ng)
		if r.Intn(4) == 0 {
			a.ECmult(&a, nna, nng) // in place, as Multiply() does
			res = a
		} else {
			a.ECmult(&res, nna, nng)
			// the operands are inputs: the scalars must come back unchanged (value and usability), and the same objects
			// used again must give the same point
			if nna.Cmp(na) != 0 || nng.Cmp(ng) != 0 || new(big.Int).Add(&nng.Int, big.NewInt(0)).Cmp(ng) != 0 {
				w["na_after"], w["ng_after"] = hexv(&nna.Int), hexv(&nng.Int)
				return scalarFail("ECmult", "modifies-its-scalar-operands", "ECmult changed the scalar objects it was given", w)
			}
			var res2 secp256k1.XYZ
			a.ECmult(&res2, nna, nng)
			if g1, g2 := readXYZ(&res), readXYZ(&res2); !g1.Equal(g2) {
				w["first"], w["second"] = ptStr(g1), ptStr(g2)
				return scalarFail("ECmult", "second-call-same-operands-differs", "ECmult with the very same operand objects gives another point the second time", w)
			}
		}
		exp := refec.MulAdd(na, A, ng)
		got := readXYZ(&res)
		if !got.Equal(exp) {
			w["expected"], w["got"] = ptStr(exp), ptStr(got)
			kind := "wrong-point"
			if exp.Inf {
				kind = "identity-result/wrong-point"
			}
			// which part of ng is populated: ECmult splits ng at bit 128 with Number.split/mask_bits
			if new(big.Int).Rsh(new(big.Int).Mod(ng, pow2(128)), 64).Sign() != 0 {
				kind += "/ng-bits-64..127-set"
			}
			return scalarFail("ECmult", kind, "na*A + ng*G differs from the group law", w)
		}
		return nil
	})
}

func caseECmultGen(r *vlib.Rand, count func(string, string)) *fail {
	a, la := edgeScalar(r)
	count("ECmultGen", la)
	w := map[string]interface{}{"a": hexv(a), "family": la}
	return guard("ECmultGen", w, func() *fail {
		var res secp256k1.XYZ
		secp256k1.ECmultGen(&res, num(a))
		exp := refec.ScalarBaseMult(a)
		got := readXYZ(&res)
		if !got.Equal(exp) {
			w["expected"], w["got"] = ptStr(exp), ptStr(got)
			kind := "wrong-point"
			if exp.Inf {
				kind = "identity-result/wrong-point"
			}
			return scalarFail("ECmultGen", kind, "a*G differs from the group law", w)
		}
		return nil
	})
}

// judgeBytes compares a byte-returning API (BaseMultiply, Multiply, BaseMultiplyAdd) with the expected point.
func judgeBytes(fn string, ok bool, out []byte, exp refec.Point, w map[string]interface{}) *fail {
	w["returned_ok"], w["out"] = ok, fmt.Sprintf("%x", out)
	if exp.Inf {
		if ok {
			w["expected"] = "infinity (no encoding exists)"
			return scalarFail(fn, "identity-result-returned-as-point", fn+" reports success and returns the encoding of some point although the result is the identity", w)
		}
		return nil
	}
	var want []byte
	if len(out) == 65 {
		want = exp.SerializeUncompressed()
	} else {
		want = exp.SerializeCompressed()
	}
	w["expected"] = fmt.Sprintf("%x", want)
	if !ok {
		return scalarFail(fn, "fails-on-valid-input", fn+" returns false on a valid input", w)
	}
	if bytes.Equal(out, want) {
		return nil
	}
	if len(out) == 33 && bytes.Equal(out[1:], want[1:]) {
		return scalarFail(fn, "compressed-prefix-parity-wrong", fn+" returns the right X but the wrong 02/03 parity prefix", w)
	}
	return scalarFail(fn, "wrong-point", fn+" returns a different point", w)
}

func caseBaseMultiply(r *vlib.Rand, count func(string, string)) *fail {
	k, lk := edgeScalar(r)
	count("BaseMultiply", lk)
	out := make([]byte, []int{33, 65}[r.Intn(2)])
	w := map[string]interface{}{"k": hexv(k), "family": lk}
	return guard("BaseMultiply", w, func() *fail {
		ok := secp256k1.BaseMultiply(refec.Bytes32(k), out)
		return judgeBytes("BaseMultiply", ok, out, refec.ScalarBaseMult(k), w)
	})
}

func caseMultiply(r *vlib.Rand, pool []refec.Point, count func(string, string)) *fail {
	k, lk := edgeScalar(r)
	A := pool[r.Intn(len(pool))]
	if A.Inf {
		A = refec.G()
	}
	count("Multiply", lk)
	var in []byte
	if r.Bool() {
		in = A.SerializeCompressed()
	} else {
		in = A.SerializeUncompressed()
	}
	out := make([]byte, []int{33, 65}[r.Intn(2)])
	w := map[string]interface{}{"k": hexv(k), "family": lk, "xy": fmt.Sprintf("%x", in)}
	return guard("Multiply", w, func() *fail {
		ok := secp256k1.Multiply(in, refec.Bytes32(k), out)
		return judgeBytes("Multiply", ok, out, refec.ScalarMultJ(k, A), w)
	})
}

func caseBaseMultiplyAdd(r *vlib.Rand, pool []refec.Point, count func(string, string)) *fail {
	k, lk := edgeScalar(r)
	A := pool[r.Intn(len(pool))]
	kg := refec.ScalarBaseMult(k)
	switch r.Intn(6) {
	case 0: // result is the identity
		if !kg.Inf {
			A = kg.Neg()
			lk += "/A=-kG"
		}
	case 1: // doubling inside the final addition
		if !kg.Inf {
			A = kg
			lk += "/A=kG"
		}
	}
	if A.Inf {
		A = refec.G()
	}
	count("BaseMultiplyAdd", lk)
	var in []byte
	if r.Bool() {
		in = A.SerializeCompressed()
	} else {
		in = A.SerializeUncompressed()
	}
	out := make([]byte, []int{33, 65}[r.Intn(2)])
	w := map[string]interface{}{"k": hexv(k), "family": lk, "xy": fmt.Sprintf("%x", in)}
	return guard("BaseMultiplyAdd", w, func() *fail {
		ok := secp256k1.BaseMultiplyAdd(in, refec.Bytes32(k), out)
		return judgeBytes("BaseMultiplyAdd", ok, out, refec.Add(kg, A), w)
	})
}

// sweepBaseMultiply: consecutive secret keys k0, k0+1, ... against the reference's incremental P+G.
// Cheap per case, so it reaches rare representation-dependent faults (e.g. a parity read from a
// non-normalised coordinate).
func sweepBaseMultiply(r *vlib.Rand, n int, count func(string, string), report func(*fail)) {
	k := new(big.Int).SetBytes(r.Bytes(32))
	k.Mod(k, N)
	cur := refec.ScalarBaseMult(k)
	g := refec.G()
	out := make([]byte, 33)
	out65 := make([]byte, 65)
	for i := 0; i < n; i++ {
		if !cur.Inf {
			w := map[string]interface{}{"k": hexv(k), "family": "consecutive-keys"}
			kb := refec.Bytes32(k)
			f := guard("BaseMultiply", w, func() *fail {
				ok := secp256k1.BaseMultiply(kb, out)
				if f := judgeBytes("BaseMultiply", ok, out, cur, w); f != nil {
					return f
				}
				if i%8 == 0 {
					ok = secp256k1.BaseMultiply(kb, out65)
					return judgeBytes("BaseMultiply", ok, out65, cur, w)
				}
				return nil
			})
			count("BaseMultiply", "consecutive-keys")
			if f != nil {
				report(f)
			}
		}
		k.Add(k, big.NewInt(1))
		if k.Cmp(N) >= 0 {
			k.Sub(k, N)
		}
		cur = refec.Add(cur, g)
	}
}

func caseDecompress(r *vlib.Rand, pool []refec.Point, count func(string, string)) *fail {
	pt := pool[r.Intn(len(pool))]
	if pt.Inf {
		pt = refec.G()
	}
	if r.Intn(3) == 0 { // fresh x: lift it
		for {
			x := refec.FRed(new(big.Int).SetBytes(r.Bytes(32)))
			if q, ok := refec.LiftX(x); ok {
				pt = q
				break
			}
		}
	}
	if r.Intn(3) == 0 {
		// edge coordinates: y tiny or just below p (a weakly reduced limb representation of such a y may be y+p, whose
		// low bit is the opposite parity), or x tiny
		for tries := 0; tries < 200; tries++ {
			if r.Intn(4) == 0 {
				if q, ok := refec.LiftX(big.NewInt(int64(1 + r.Intn(2000)))); ok {
					pt = q
					break
				}
				continue
			}
			var y *big.Int
			switch r.Intn(3) {
			case 0:
				y = big.NewInt(int64(1 + r.Intn(4000)))
			case 1:
				y = new(big.Int).SetUint64(r.U64() % (1<<32 + 977))
			default:
				y = new(big.Int).SetUint64(1<<32 + 977 - uint64(r.Intn(3)) + uint64(r.Intn(3)))
			}
			if y.Sign() == 0 {
				continue
			}
			if x, ok := refec.FCbrt(refec.FSub(refec.FSqr(y), big.NewInt(7))); ok {
				if r.Bool() {
					y = refec.FNeg(y)
				}
				if q := refec.NewPoint(x, y); q.IsOnCurve() {
					pt = q
					break
				}
			}
		}
	}
	odd := r.Bool()
	exp, _ := refec.Decompress(pt.X, odd)
	w := map[string]interface{}{"x": hexv(pt.X), "odd": odd}
	switch r.Intn(4) {
	case 0:
		count("DecompressPoint", "-")
		return guard("DecompressPoint", w, func() *fail {
			y := make([]byte, 32)
			secp256k1.DecompressPoint(refec.Bytes32(pt.X), odd, y)
			if !bytes.Equal(y, refec.Bytes32(exp.Y)) {
				w["expected_y"], w["got_y"] = hexv(exp.Y), fmt.Sprintf("%x", y)
				return scalarFail("DecompressPoint", "wrong-y", "DecompressPoint returns a Y different from the curve point with that X and parity", w)
			}
			return nil
		})
	case 1:
		count("SetXO", "-")
		return guard("SetXO", w, func() *fail {
			var x secp256k1.Field
			setField(&x, pt.X, r.Intn(3), r)
			var a secp256k1.XY
			a.SetXO(&x, odd)
			if got := readXY(&a); !got.Equal(exp) {
				w["expected"], w["got"] = ptStr(exp), ptStr(got)
				return scalarFail("SetXO", "wrong-point", "SetXO returns a different point", w)
			}
			if !a.IsValid() {
				return scalarFail("SetXO", "result-not-valid", "SetXO result fails IsValid", w)
			}
			return nil
		})
	case 2:
		count("ParseXOnlyPubkey", "-")
		return guard("ParseXOnlyPubkey", w, func() *fail {
			var a secp256k1.XY
			a.ParseXOnlyPubkey(refec.Bytes32(pt.X))
			e2, _ := refec.LiftX(pt.X)
			if got := readXY(&a); !got.Equal(e2) {
				w["expected"], w["got"] = ptStr(e2), ptStr(got)
				return scalarFail("ParseXOnlyPubkey", "wrong-point", "x-only lifting returns a point different from lift_x", w)
			}
			return nil
		})
	default:
		count("ParsePubkey", "-")
		return guard("ParsePubkey", w, func() *fail {
			encs := [][]byte{exp.SerializeCompressed(), exp.SerializeUncompressed(), exp.SerializeHybrid()}
			enc := encs[r.Intn(3)]
			w["encoding"] = fmt.Sprintf("%x", enc)
			var a secp256k1.XY
			if !a.ParsePubkey(enc) {
				return scalarFail("ParsePubkey", "rejects-valid", "ParsePubkey rejects a valid encoding", w)
			}
			if got := readXY(&a); !got.Equal(exp) {
				w["expected"], w["got"] = ptStr(exp), ptStr(got)
				return scalarFail("ParsePubkey", "wrong-point", "ParsePubkey decodes a different point", w)
			}
			// and back
			out := make([]byte, len(enc))
			if len(enc) == 65 {
				a.GetPublicKey(out)
				if !bytes.Equal(out[1:], enc[1:]) || out[0] != 4 {
					return scalarFail("GetPublicKey", "wrong-bytes", "GetPublicKey(65) differs", w)
				}
			}
			return nil
		})
	}
}

// helper decompositions, through the hook
func caseSplitWnaf(r *vlib.Rand, count func(string, string)) *fail {
	a, la := edgeScalar(r)
	w := map[string]interface{}{"a": hexv(a), "family": la}
	if r.Bool() {
		count("split_exp", la)
		return guard("split_exp", w, func() *fail {
			r1, r2 := secp256k1.VerifSplitExp(num(a))
			v := new(big.Int).Mul(&r2.Int, lambda)
			v.Add(v, &r1.Int)
			v.Mod(v, N)
			w["r1"], w["r2"] = r1.Int.String(), r2.Int.String()
			if v.Cmp(new(big.Int).Mod(a, N)) != 0 {
				return scalarFail("split_exp", "not-a-decomposition", "r1 + r2*lambda != a (mod n)", w)
			}
			if r1.Int.BitLen() > 128 || r2.Int.BitLen() > 128 {
				// 129 wNAF slots are provided by ECmult: |x| < 2^128 is required for them to suffice
				return scalarFail("split_exp", "part-longer-than-128-bits", "a part of the decomposition exceeds 128 bits (wNAF buffer of ECmult holds 129 digits)", w)
			}
			return nil
		})
	}
	// wNAF of signed numbers up to 128 bits, windows 5 and 14 (the two the library uses)
	x := new(big.Int).Set(a)
	if r.Intn(4) != 0 {
		x.Rsh(x, 128) // the sizes ECmult feeds; otherwise the full 256 bits
	}
	if r.Bool() {
		x.Neg(x)
	}
	wd := uint(5)
	if r.Bool() {
		wd = 14
	}
	w["x"], w["window"] = x.String(), wd
	count("wnaf", fmt.Sprintf("w=%d", wd))
	return guard("ecmult_wnaf", w, func() *fail {
		d := secp256k1.VerifWNAF(num(x), wd)
		sum := new(big.Int)
		last := -1000
		for i := len(d) - 1; i >= 0; i-- {
			sum.Lsh(sum, 1)
			sum.Add(sum, big.NewInt(int64(d[i])))
		}
		if sum.Cmp(x) != 0 {
			w["digits"] = fmt.Sprint(d)
			return scalarFail("ecmult_wnaf", "digits-do-not-sum-to-input", "sum d_i 2^i != x", w)
		}
		for i, v := range d {
			if v == 0 {
				continue
			}
			if v&1 == 0 || v >= 1<<(wd-1) || v <= -(1<<(wd-1)) {
				w["digits"] = fmt.Sprint(d)
				return scalarFail("ecmult_wnaf", "digit-out-of-range", "non-zero digit even or outside (-2^(w-1), 2^(w-1))", w)
			}
			if i-last < int(wd) {
				w["digits"] = fmt.Sprint(d)
				return scalarFail("ecmult_wnaf", "digits-too-dense", "two non-zero digits within one window", w)
			}
			last = i
		}
		if len(d) > x.BitLen()+1 {
			w["digits"] = fmt.Sprint(d)
			return scalarFail("ecmult_wnaf", "too-long", "more digits than bitlen+1", w)
		}
		return nil
	})
}

// the endomorphism used by ECmult: mul_lambda(P) must be lambda*P
func caseMulLambda(r *vlib.Rand, pool []refec.Point, count func(string, string)) *fail {
	pt := pool[r.Intn(len(pool))]
	if pt.Inf {
		pt = refec.G()
	}
	z := refec.FRed(new(big.Int).SetBytes(r.Bytes(32)))
	if z.Sign() == 0 {
		z = big.NewInt(1)
	}
	count("mul_lambda", "-")
	w := map[string]interface{}{"point": ptStr(pt), "z": hexv(z)}
	return guard("mul_lambda", w, func() *fail {
		a := mkXYZ(pt, z, r.Intn(3), r)
		var res secp256k1.XYZ
		a.VerifMulLambda(&res)
		exp := refec.ScalarMultJ(lambda, pt)
		if got := readXYZ(&res); !got.Equal(exp) {
			w["expected"], w["got"] = ptStr(exp), ptStr(got)
			return scalarFail("mul_lambda", "wrong-point", "mul_lambda(P) != lambda*P", w)
		}
		if secp256k1.VerifLambda().Int.Cmp(lambda) != 0 {
			return scalarFail("mul_lambda", "lambda-constant", "TheCurve.lambda differs from the published constant", w)
		}
		return nil
	})
}
