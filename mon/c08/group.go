package main

// Group-operation chains on a small register file of Jacobian (XYZ) and affine (XY) points, each
// with a reference model (refec.Point). Operands come in every representation: normalised,
// non-normalised coordinates (value + j*p in the limbs, double negation), Jacobian with random Z,
// the identity, P/P, P/-P, P/lambda*P (equal y). Results are read through the raw-limb hook and
// converted with the reference's own Jacobian->affine map.

import (
	"fmt"
	"math/big"

	"github.com/piotrnar/gocoin/lib/secp256k1"
	"verif/lib/vlib"
	"verif/ref/refec"
)

var (
	lambda = mustHex("5363ad4cc05c30e0a5261c028812645a122e22ea20816678df02967c1b23bd72")
	beta   = mustHex("7ae96a2b657c07106e64479eac3434e99cf0497512f58995c1396c28719501ee")
)

func mustHex(s string) *big.Int {
	v, ok := new(big.Int).SetString(s, 16)
	if !ok {
		panic(s)
	}
	return v
}

// setField stores value v in representation `den`: 0 canonical, 1 canonical + j*p in the limbs
// (magnitude <= 3), 2 double negation through the public API (magnitude 3).
func setField(f *secp256k1.Field, v *big.Int, den int, rng *vlib.Rand) {
	f.SetB32(refec.Bytes32(refec.FRed(v)))
	switch den {
	case 1:
		l := f.VerifGetLimbs()
		j := uint64(1 + rng.Intn(2))
		if lFact == 1 {
			j = uint64(1 + rng.Intn(2))
		}
		for i := range l {
			l[i] += j * pLimbs[i]
		}
		f.VerifSetLimbs(l)
	case 2:
		callNeg(f.Negate, f, 1)
		callNeg(f.Negate, f, 2)
	}
}

func mkXY(pt refec.Point, den int, rng *vlib.Rand) (r secp256k1.XY) {
	if pt.Inf {
		r.Infinity = true
		if rng.Bool() { // stale coordinates must not matter
			setField(&r.X, new(big.Int).SetBytes(rng.Bytes(32)), 0, rng)
			setField(&r.Y, new(big.Int).SetBytes(rng.Bytes(32)), 0, rng)
		}
		return
	}
	setField(&r.X, pt.X, den, rng)
	setField(&r.Y, pt.Y, den, rng)
	return
}

func mkXYZ(pt refec.Point, z *big.Int, den int, rng *vlib.Rand) (r secp256k1.XYZ) {
	if pt.Inf {
		r.Infinity = true
		if rng.Bool() {
			setField(&r.X, new(big.Int).SetBytes(rng.Bytes(32)), 0, rng)
			setField(&r.Y, new(big.Int).SetBytes(rng.Bytes(32)), 0, rng)
			setField(&r.Z, new(big.Int).SetBytes(rng.Bytes(32)), 0, rng)
		}
		return
	}
	j := pt.ToJacobian(z)
	setField(&r.X, j.X, den, rng)
	setField(&r.Y, j.Y, den, rng)
	setField(&r.Z, j.Z, den, rng)
	return
}

func readXY(a *secp256k1.XY) refec.Point {
	if a.Infinity {
		return refec.Infinity()
	}
	return refec.Point{X: fieldVal(&a.X), Y: fieldVal(&a.Y)}
}

func readXYZ(a *secp256k1.XYZ) refec.Point {
	if a.Infinity {
		return refec.Infinity()
	}
	return refec.JPoint{X: fieldVal(&a.X), Y: fieldVal(&a.Y), Z: fieldVal(&a.Z)}.ToAffine()
}

func ptStr(p refec.Point) string {
	if p.Inf {
		return "infinity"
	}
	return fmt.Sprintf("(%x,%x)", p.X, p.Y)
}

func relation(a, b refec.Point) string {
	switch {
	case a.Inf || b.Inf:
		return "identity-operand"
	case a.Equal(b):
		return "P+P"
	case a.Equal(b.Neg()):
		return "P+(-P)"
	case a.Y.Cmp(b.Y) == 0:
		return "equal-y"
	}
	return "generic"
}

type groupEnv struct {
	rng   *vlib.Rand
	J     [4]secp256k1.XYZ
	JM    [4]refec.Point
	A     [4]secp256k1.XY
	AM    [4]refec.Point
	pool  []refec.Point // shared pool of points (expensive to create)
	trace *[]string
	ops   map[string]int64
	fail  *fail
}

func (e *groupEnv) tr(format string, a ...interface{}) {
	if e.trace != nil {
		*e.trace = append(*e.trace, fmt.Sprintf(format, a...))
	}
}

func (e *groupEnv) randZ() *big.Int {
	switch e.rng.Intn(6) {
	case 0:
		return big.NewInt(1)
	case 1:
		return new(big.Int).Sub(P, big.NewInt(1))
	case 2:
		return big.NewInt(int64(2 + e.rng.Intn(5)))
	}
	for {
		z := refec.FRed(new(big.Int).SetBytes(e.rng.Bytes(32)))
		if z.Sign() != 0 {
			return z
		}
	}
}

// freshPoint picks a point, often related to a point already in a register.
func (e *groupEnv) freshPoint() refec.Point {
	r := e.rng
	var others []refec.Point
	others = append(others, e.JM[:]...)
	others = append(others, e.AM[:]...)
	o := others[r.Intn(len(others))]
	switch r.Intn(10) {
	case 0:
		return refec.Infinity()
	case 1:
		return o
	case 2:
		return o.Neg()
	case 3: // lambda * P: same y, x*beta
		if !o.Inf {
			return refec.Point{X: refec.FMul(o.X, beta), Y: new(big.Int).Set(o.Y)}
		}
	case 4:
		return refec.G()
	case 5:
		if !o.Inf {
			return refec.Double(o)
		}
	}
	return e.pool[r.Intn(len(e.pool))]
}

func (e *groupEnv) checkJ(op string, d int, rel string, desc func() map[string]interface{}) bool {
	got := readXYZ(&e.J[d])
	if got.Equal(e.JM[d]) && (e.JM[d].Inf || !e.J[d].Infinity) {
		return true
	}
	w := map[string]interface{}{"arch": arch, "op": op, "relation": rel, "expected": ptStr(e.JM[d]), "got": ptStr(got), "got_infinity_flag": e.J[d].Infinity}
	for k, v := range desc() {
		w[k] = v
	}
	e.fail = &fail{class: fmt.Sprintf("group/%s/%s/wrong-point@%s", op, rel, arch), what: fmt.Sprintf("%s (%s) returned a point different from the group law", op, rel), witness: w}
	return false
}

func (e *groupEnv) checkA(op string, d int, rel string, desc func() map[string]interface{}) bool {
	got := readXY(&e.A[d])
	if got.Equal(e.AM[d]) {
		return true
	}
	w := map[string]interface{}{"arch": arch, "op": op, "relation": rel, "expected": ptStr(e.AM[d]), "got": ptStr(got)}
	for k, v := range desc() {
		w[k] = v
	}
	e.fail = &fail{class: fmt.Sprintf("group/%s/%s/wrong-point@%s", op, rel, arch), what: fmt.Sprintf("%s (%s) returned a point different from the group law", op, rel), witness: w}
	return false
}

func (e *groupEnv) step() bool {
	r := e.rng
	none := func() map[string]interface{} { return map[string]interface{}{} }
	switch r.Intn(14) {
	case 0: // reseed a Jacobian register
		d := r.Intn(4)
		pt := e.freshPoint()
		z := e.randZ()
		den := r.Intn(3)
		e.J[d] = mkXYZ(pt, z, den, r)
		e.JM[d] = pt
		e.tr("J%d = %s with Z=%x representation %d", d, ptStr(pt), z, den)
		e.ops["seed-jacobian"]++
		return e.checkJ("seed", d, "-", none)
	case 1: // reseed an affine register
		d := r.Intn(4)
		pt := e.freshPoint()
		den := r.Intn(3)
		e.A[d] = mkXY(pt, den, r)
		e.AM[d] = pt
		e.tr("A%d = %s representation %d", d, ptStr(pt), den)
		e.ops["seed-affine"]++
		return e.checkA("seed", d, "-", none)
	case 2, 3, 4: // Add
		a, b, d := r.Intn(4), r.Intn(4), r.Intn(4)
		if r.Intn(3) == 0 {
			d = a
		}
		if d == b && b != a {
			d = a // r aliasing only the receiver, as the library uses it
		}
		rel := relation(e.JM[a], e.JM[b])
		exp := refec.Add(e.JM[a], e.JM[b])
		e.tr("J%d.Add(&J%d, &J%d)  %s", a, d, b, rel)
		e.J[a].Add(&e.J[d], &e.J[b])
		e.JM[d] = exp
		e.ops["Add/"+rel]++
		return e.checkJ("Add", d, rel, none)
	case 5, 6, 7: // AddXY
		a, b, d := r.Intn(4), r.Intn(4), r.Intn(4)
		if r.Intn(3) == 0 {
			d = a
		}
		rel := relation(e.JM[a], e.AM[b])
		exp := refec.Add(e.JM[a], e.AM[b])
		e.tr("J%d.AddXY(&J%d, &A%d)  %s", a, d, b, rel)
		e.J[a].AddXY(&e.J[d], &e.A[b])
		e.JM[d] = exp
		e.ops["AddXY/"+rel]++
		return e.checkJ("AddXY", d, rel, none)
	case 8: // Double
		a, d := r.Intn(4), r.Intn(4)
		if r.Bool() {
			d = a
		}
		rel := "generic"
		if e.JM[a].Inf {
			rel = "identity-operand"
		}
		exp := refec.Double(e.JM[a])
		e.tr("J%d.Double(&J%d)", a, d)
		e.J[a].Double(&e.J[d])
		e.JM[d] = exp
		e.ops["Double/"+rel]++
		return e.checkJ("Double", d, rel, none)
	case 9: // Neg (both kinds)
		a, d := r.Intn(4), r.Intn(4)
		if r.Bool() {
			exp := e.JM[a].Neg()
			e.tr("J%d.Neg(&J%d)", a, d)
			e.J[a].Neg(&e.J[d])
			e.JM[d] = exp
			e.ops["XYZ.Neg"]++
			return e.checkJ("XYZ.Neg", d, "-", none)
		}
		exp := e.AM[a].Neg()
		e.tr("A%d.Neg(&A%d)", a, d)
		e.A[a].Neg(&e.A[d])
		e.AM[d] = exp
		e.ops["XY.Neg"]++
		return e.checkA("XY.Neg", d, "-", none)
	case 10: // SetXY
		a, d := r.Intn(4), r.Intn(4)
		e.tr("J%d.SetXY(&A%d)", d, a)
		e.J[d].SetXY(&e.A[a])
		e.JM[d] = e.AM[a]
		e.ops["SetXY"]++
		return e.checkJ("SetXY", d, "-", none)
	case 11: // SetXYZ: Jacobian -> affine (also rewrites the source with Z=1)
		a, d := r.Intn(4), r.Intn(4)
		rel := "generic"
		if e.JM[a].Inf {
			rel = "identity-operand"
		}
		e.tr("A%d.SetXYZ(&J%d)", d, a)
		e.A[d].SetXYZ(&e.J[a])
		e.AM[d] = e.JM[a]
		e.ops["SetXYZ/"+rel]++
		if !e.checkA("SetXYZ", d, rel, none) {
			return false
		}
		return e.checkJ("SetXYZ(source)", a, rel, none)
	case 12: // XY.AddXY
		a, d := r.Intn(4), r.Intn(4)
		rel := relation(e.AM[d], e.AM[a])
		exp := refec.Add(e.AM[d], e.AM[a])
		e.tr("A%d.AddXY(&A%d)  %s", d, a, rel)
		e.A[d].AddXY(&e.A[a])
		e.AM[d] = exp
		e.ops["XY.AddXY/"+rel]++
		return e.checkA("XY.AddXY", d, rel, none)
	case 13: // IsValid of curve points / identity
		a := r.Intn(4)
		if r.Bool() {
			e.tr("J%d.IsValid()", a)
			e.ops["XYZ.IsValid"]++
			if got := e.J[a].IsValid(); got != !e.JM[a].Inf {
				e.fail = &fail{class: fmt.Sprintf("group/XYZ.IsValid/wrong-answer@%s", arch), what: "XYZ.IsValid wrong for a curve point / the identity",
					witness: map[string]interface{}{"arch": arch, "point": ptStr(e.JM[a]), "got": got}}
				return false
			}
		} else {
			e.tr("A%d.IsValid()", a)
			e.ops["XY.IsValid"]++
			if got := e.A[a].IsValid(); got != !e.AM[a].Inf {
				e.fail = &fail{class: fmt.Sprintf("group/XY.IsValid/wrong-answer@%s", arch), what: "XY.IsValid wrong for a curve point / the identity",
					witness: map[string]interface{}{"arch": arch, "point": ptStr(e.AM[a]), "got": got}}
				return false
			}
		}
		return true
	}
	return true
}

func runGroupChain(rng *vlib.Rand, pool []refec.Point, ops map[string]int64, trace *[]string) (f *fail) {
	e := &groupEnv{rng: rng, pool: pool, ops: ops, trace: trace}
	defer func() {
		if x := recover(); x != nil {
			f = &fail{class: fmt.Sprintf("group/panic@%s", arch), what: fmt.Sprintf("group operation panicked: %v", x), witness: map[string]interface{}{"arch": arch, "panic": fmt.Sprint(x)}}
		}
	}()
	for i := 0; i < 4; i++ {
		e.JM[i], e.AM[i] = pool[rng.Intn(len(pool))], pool[rng.Intn(len(pool))]
		e.J[i] = mkXYZ(e.JM[i], e.randZ(), rng.Intn(3), rng)
		e.A[i] = mkXY(e.AM[i], rng.Intn(3), rng)
		e.tr("J%d = %s ; A%d = %s", i, ptStr(e.JM[i]), i, ptStr(e.AM[i]))
	}
	n := 8 + rng.Intn(16)
	for s := 0; s < n; s++ {
		if !e.step() {
			return e.fail
		}
	}
	return nil
}

// off-curve detection by IsValid (not a group operation, but part of "x-only lifting/decompression" hygiene)
func offCurveIsValid(rng *vlib.Rand, pool []refec.Point) *fail {
	pt := pool[rng.Intn(len(pool))]
	if pt.Inf {
		return nil
	}
	bad := refec.Point{X: pt.X, Y: refec.FAdd(pt.Y, big.NewInt(int64(1+rng.Intn(5))))}
	a := mkXY(bad, rng.Intn(3), rng)
	if a.IsValid() {
		return &fail{class: fmt.Sprintf("group/XY.IsValid/accepts-off-curve@%s", arch), what: "XY.IsValid accepts a point off the curve", witness: map[string]interface{}{"arch": arch, "point": ptStr(bad)}}
	}
	j := mkXYZ(pt, big.NewInt(1), 0, rng)
	setField(&j.Y, bad.Y, 0, rng)
	if j.IsValid() {
		return &fail{class: fmt.Sprintf("group/XYZ.IsValid/accepts-off-curve@%s", arch), what: "XYZ.IsValid accepts a point off the curve", witness: map[string]interface{}{"arch": arch, "point": ptStr(bad)}}
	}
	return nil
}
