// C08 — secp256k1 field and group arithmetic equals the mathematical definition; the embedded
// tables contain exactly the multiples of G they stand for.
//
// Differential monitor against /verif/ref/refec (math/big). Four workloads, each executed for the
// native 5x52 field (c08.main) and for the 10x26 field (c08.x386, GOARCH=386) in child workers:
//
//	field-seq  random contract-respecting sequences of field operations (field.go)
//	group      chains of group operations incl. identity, P+P, P+(-P), non-normalised / Jacobian operands (group.go)
//	scalar     ECmult / ECmultGen / Multiply / BaseMultiply(Add) / DecompressPoint / SetXO / split / wNAF on edge scalars (scalar.go)
//	tables     every entry of pre_g, pre_g_128, prec and fin (exhaustive)
package main

import (
	"fmt"
	"math/big"
	"os"
	"strconv"
	"strings"
	"sync"
	"time"

	"github.com/piotrnar/gocoin/lib/secp256k1"
	"verif/lib/vlib"
	"verif/ref/refec"
)

const ID = "C08"

type wk struct {
	run     *vlib.Run
	fam     string
	chunk   int
	journal *os.File
}

func (w *wk) note(s string) {
	if w.journal != nil {
		if len(s) > 200 {
			s = s[:200]
		}
		w.journal.WriteAt([]byte(s+strings.Repeat(" ", 201-len(s))+"\n"), 0)
	}
}

func (w *wk) report(f *fail, trace []string) {
	if f == nil {
		return
	}
	if trace != nil {
		if len(trace) > 80 {
			trace = trace[len(trace)-80:]
		}
		f.witness["trace"] = trace
	}
	f.witness["family"] = w.fam
	f.witness["chunk"] = w.chunk
	w.run.Inc("disagree/" + f.class)
	w.run.Violation(f.class, f.what, f.witness)
}

func mergeOps(run *vlib.Run, prefix string, ops map[string]int64) {
	for k, v := range ops {
		run.Count(prefix+k, v)
		run.Distinct("operation_kinds", arch, prefix, k)
	}
}

var (
	limbEdgeOnce sync.Once
	limbEdgePts  []refec.Point
)

// limbEdgePoints: small multiples of G one of whose coordinates has a 26-bit limb (the 32-bit field representation)
// within ~1000 of the top of its range or equal to zero - values at which a limb-wise subtraction without enough head
// room borrows. Found by scanning k*G, k = 1..45000 (a given limb is extreme for about one point in 65000).
func limbEdgePoints() []refec.Point {
	limbEdgeOnce.Do(func() {
		mask := big.NewInt(1<<26 - 1)
		g := refec.G()
		cur := refec.G()
		tmp := new(big.Int)
		perLimb := map[int]int{}
		for k := 1; k <= 45000 && len(limbEdgePts) < 14; k++ {
			for ci, c := range []*big.Int{cur.X, cur.Y} {
				hit := false
				for l := 0; l < 10 && !hit; l++ {
					v := tmp.And(tmp.Rsh(c, uint(26*l)), mask).Int64()
					top := int64(1<<26 - 1)
					if l == 9 {
						top = 1<<22 - 1
					}
					if (v > top-1000 || v == 0) && perLimb[ci*10+l] < 2 {
						perLimb[ci*10+l]++
						hit = true
					}
				}
				if hit {
					limbEdgePts = append(limbEdgePts, refec.NewPoint(cur.X, cur.Y))
					break
				}
			}
			cur = refec.Add(cur, g)
		}
	})
	return limbEdgePts
}

func pointPool(r *vlib.Rand, n int) []refec.Point {
	pool := []refec.Point{refec.G(), refec.G().Neg(), refec.Double(refec.G())}
	edge := []*big.Int{new(big.Int).Sub(N, big.NewInt(2)), new(big.Int).Rsh(N, 1), new(big.Int).Add(new(big.Int).Rsh(N, 1), big.NewInt(1)), big.NewInt(3), lambda}
	for _, k := range edge {
		pool = append(pool, refec.ScalarBaseMult(k))
	}
	pool = append(pool, limbEdgePoints()...)
	n += len(limbEdgePoints())
	for len(pool) < n {
		k := new(big.Int).SetBytes(r.Bytes(32))
		pt := refec.ScalarBaseMult(k)
		if !pt.Inf {
			pool = append(pool, pt)
		}
	}
	return pool
}

func worker(args []string) {
	fam := args[0]
	chunk, _ := strconv.Atoi(args[1])
	n, _ := strconv.Atoi(args[2])
	statePath, journalPath := args[3], args[4]
	seed := int64(1)
	if s := os.Getenv("VERIF_SEED"); s != "" {
		seed, _ = strconv.ParseInt(s, 10, 64)
	}
	run := vlib.StartChild(ID, seed, os.Getenv("VERIF_TIER"))
	jf, _ := os.OpenFile(journalPath, os.O_CREATE|os.O_RDWR, 0o644)
	w := &wk{run: run, fam: fam, chunk: chunk, journal: jf}
	defer run.ExportState(statePath)
	base := run.Rand(fmt.Sprintf("%s/%s/%d", arch, fam, chunk))
	count := func(fn, label string) {
		run.Inc("scalar_cases/" + arch + "/" + fn)
		run.Distinct("operation_kinds", arch, "scalar", fn, label)
	}

	switch fam {
	case "field-seq":
		ops := map[string]int64{}
		for i := 0; i < n; i++ {
			w.note(fmt.Sprintf("%s field-seq chunk=%d seq=%d", arch, chunk, i))
			rng := base.Fork(fmt.Sprint(i))
			var fails []*fail
			func() {
				defer func() {
					if x := recover(); x != nil {
						fails = append(fails, &fail{class: fmt.Sprintf("field/panic@%s", arch), what: fmt.Sprintf("field operation panicked: %v", x), witness: map[string]interface{}{"arch": arch, "panic": fmt.Sprint(x)}})
					}
				}()
				runFieldSequence(rng, ops, nil, func(f *fail) { fails = append(fails, f) })
			}()
			run.Inc("evaluations")
			run.Inc("field_sequences/" + arch)
			run.Distinct("cases", arch, "field-seq", chunk, i, rng.Drawn)
			for k, f := range fails {
				var trace []string
				if k == 0 {
					func() {
						defer func() { recover() }()
						runFieldSequence(base.Fork(fmt.Sprint(i)), map[string]int64{}, &trace, func(*fail) {})
					}()
				}
				f.witness["sequence_index"] = i
				w.report(f, trace)
			}
		}
		mergeOps(run, "field_ops/"+arch+"/", ops)
	case "group":
		ops := map[string]int64{}
		pool := pointPool(base.Fork("pool"), 28)
		for i := 0; i < n; i++ {
			w.note(fmt.Sprintf("%s group chunk=%d chain=%d", arch, chunk, i))
			rng := base.Fork(fmt.Sprint(i))
			f := runGroupChain(rng, pool, ops, nil)
			run.Inc("evaluations")
			run.Inc("group_chains/" + arch)
			run.Distinct("cases", arch, "group", chunk, i, rng.Drawn)
			if f != nil {
				var trace []string
				func() {
					defer func() { recover() }()
					runGroupChain(base.Fork(fmt.Sprint(i)), pool, map[string]int64{}, &trace)
				}()
				f.witness["chain_index"] = i
				w.report(f, trace)
			}
			if i%4 == 0 {
				w.report(offCurveIsValid(rng, pool), nil)
			}
		}
		var total int64
		for _, v := range ops {
			total += v
		}
		run.Count("group_ops_total/"+arch, total)
		mergeOps(run, "group_ops/"+arch+"/", ops)
	case "scalar":
		pool := pointPool(base.Fork("pool"), 20)
		// n is the number of ECmult cases; the other entry points scale with it
		plan := []struct {
			name string
			n    int
			f    func(r *vlib.Rand) *fail
		}{
			{"ECmult", n, func(r *vlib.Rand) *fail { return caseECmult(r, pool, count) }},
			{"ECmultGen", n * 3 / 4, func(r *vlib.Rand) *fail { return caseECmultGen(r, count) }},
			{"BaseMultiply", n * 3 / 8, func(r *vlib.Rand) *fail { return caseBaseMultiply(r, count) }},
			{"Multiply", n / 4, func(r *vlib.Rand) *fail { return caseMultiply(r, pool, count) }},
			{"BaseMultiplyAdd", n * 3 / 8, func(r *vlib.Rand) *fail { return caseBaseMultiplyAdd(r, pool, count) }},
			{"Decompress", n * 2, func(r *vlib.Rand) *fail { return caseDecompress(r, pool, count) }},
			{"SplitWnaf", n * 4, func(r *vlib.Rand) *fail { return caseSplitWnaf(r, count) }},
			{"MulLambda", n / 5, func(r *vlib.Rand) *fail { return caseMulLambda(r, pool, count) }},
		}
		for _, p := range plan {
			for i := 0; i < p.n; i++ {
				w.note(fmt.Sprintf("%s scalar chunk=%d %s case=%d", arch, chunk, p.name, i))
				rng := base.Fork(fmt.Sprintf("%s/%d", p.name, i))
				f := p.f(rng)
				run.Inc("evaluations")
				run.Distinct("cases", arch, "scalar", p.name, chunk, i, rng.Drawn)
				w.report(f, nil)
			}
		}
	case "sweep":
		w.note(fmt.Sprintf("%s sweep chunk=%d", arch, chunk))
		if chunk == 0 {
			// keys for which XY.GetPublicKey once returned the wrong 02/03 prefix (parity read from a
			// non-normalised Y; fixed in /repo 14c88d01): must stay right
			for _, kh := range []string{"72464c074491db52316defcf84e87376b21f61e28c45149e540517e0288b8d2d", "e4910d9ff7dfa181152659a51de807001662a38b34066fa0fda9a2ca66639851"} {
				k := mustHex(kh)
				for _, l := range []int{33, 65} {
					out := make([]byte, l)
					wit := map[string]interface{}{"k": kh, "family": "regression-keys"}
					w.report(guard("BaseMultiply", wit, func() *fail {
						return judgeBytes("BaseMultiply", secp256k1.BaseMultiply(refec.Bytes32(k), out), out, refec.ScalarBaseMult(k), wit)
					}), nil)
					count("BaseMultiply", "regression-keys")
				}
			}
		}
		sweepBaseMultiply(base, n, count, func(f *fail) { w.report(f, nil) })
		run.Count("evaluations", int64(n))
		run.Distinct("cases", arch, "sweep", chunk, n)
	case "tables":
		w.note(arch + " tables")
		checkTables(w)
	default:
		fmt.Println("unknown family", fam)
		os.Exit(4)
	}
}

// checkTables: every entry of every embedded table (exhaustive).
func checkTables(w *wk) {
	run := w.run
	preG, preG128, prec, fin := secp256k1.VerifTables()
	bad := func(table string, idx string, exp refec.Point, e *secp256k1.XY) {
		w.report(&fail{class: fmt.Sprintf("table/%s/entry-wrong@%s", table, arch), what: fmt.Sprintf("%s[%s] is not the multiple of G it stands for", table, idx),
			witness: map[string]interface{}{"arch": arch, "table": table, "index": idx, "expected": ptStr(exp), "got": ptStr(readXY(e)), "x_limbs": fmt.Sprintf("%x", e.X.VerifGetLimbs()), "y_limbs": fmt.Sprintf("%x", e.Y.VerifGetLimbs())}}, nil)
	}
	wantLen := 1 << (secp256k1.WINDOW_G - 2)
	if len(preG) != wantLen || len(preG128) != wantLen {
		w.report(&fail{class: fmt.Sprintf("table/length@%s", arch), what: "odd-multiples table has the wrong length", witness: map[string]interface{}{"pre_g": len(preG), "pre_g_128": len(preG128), "want": wantLen}}, nil)
	}
	// pre_g[i] = (2i+1) G ; pre_g_128[i] = (2i+1) 2^128 G
	g128 := refec.G()
	for i := 0; i < 128; i++ {
		g128 = refec.Double(g128)
	}
	if !g128.Equal(refec.ScalarBaseMult(pow2(128))) {
		fmt.Println("BROKEN reference 2^128*G")
		os.Exit(5)
	}
	for ti, tb := range []struct {
		name string
		t    []secp256k1.XY
		base refec.Point
	}{{"pre_g", preG, refec.G()}, {"pre_g_128", preG128, g128}} {
		cur := tb.base
		step := refec.Double(tb.base)
		for i := range tb.t {
			if !readXY(&tb.t[i]).Equal(cur) || tb.t[i].Infinity {
				bad(tb.name, fmt.Sprint(i), cur, &tb.t[i])
			}
			run.Inc("table_entries_checked/" + arch + "/" + tb.name)
			run.Distinct("cases", arch, "table", ti, i)
			cur = refec.Add(cur, step)
		}
		// spot cross-check of the incremental expectation itself
		last := new(big.Int).Mul(big.NewInt(int64(2*len(tb.t)-1)), big.NewInt(1))
		if ti == 1 {
			last.Lsh(last, 128)
		}
		if len(tb.t) > 0 && !refec.Add(cur, step.Neg()).Equal(refec.ScalarBaseMult(last)) {
			fmt.Println("BROKEN reference incremental multiples")
			os.Exit(5)
		}
	}
	// prec[j][i] - prec[j][0] = i * 16^j * G ; sum_j prec[j][0] + fin = identity
	d := refec.G() // 16^j G
	sum := refec.Infinity()
	for j := 0; j < 64; j++ {
		base := readXY(&prec[j][0])
		if !base.IsOnCurve() || prec[j][0].Infinity {
			bad("prec", fmt.Sprintf("%d][0", j), refec.Point{Inf: true}, &prec[j][0])
		}
		sum = refec.Add(sum, base)
		exp := base
		for i := 0; i < 16; i++ {
			if !readXY(&prec[j][i]).Equal(exp) || prec[j][i].Infinity {
				bad("prec", fmt.Sprintf("%d][%d", j, i), exp, &prec[j][i])
			}
			run.Inc("table_entries_checked/" + arch + "/prec")
			run.Distinct("cases", arch, "table", "prec", j, i)
			exp = refec.Add(exp, d)
		}
		for k := 0; k < 4; k++ {
			d = refec.Double(d)
		}
	}
	if !d.Equal(refec.ScalarBaseMult(new(big.Int).Mod(pow2(256), N))) {
		fmt.Println("BROKEN reference 16^64*G")
		os.Exit(5)
	}
	if !refec.Add(sum, readXY(fin)).Inf || fin.Infinity {
		bad("fin", "0", sum.Neg(), fin)
	}
	run.Inc("table_entries_checked/" + arch + "/fin")
	run.Distinct("cases", arch, "table", "fin")
	run.Inc("tables_done/" + arch)
	run.Count("evaluations", int64(len(preG)+len(preG128)+64*16+1))
}

type job struct {
	bin, tag, fam string
	chunk, n      int
}

func main() {
	if len(os.Args) > 1 && os.Args[1] == "worker" {
		worker(os.Args[2:])
		return
	}
	if len(os.Args) > 1 && os.Args[1] == "probe" {
		fmt.Println("probe", secp256k1.FieldArch, secp256k1.VerifLimbs())
		return
	}
	run := vlib.Start(ID, "exploration")
	rep, err := refec.Calibrate("/repo/lib")
	if err != nil {
		fmt.Printf("BROKEN property=%s %v\n", ID, err)
		os.Exit(2)
	}
	run.Extra("reference_calibration", rep)
	// the endomorphism constants used by the generators
	if lg := refec.ScalarMultJ(lambda, refec.G()); lg.X.Cmp(refec.FMul(refec.Gx, beta)) != 0 || lg.Y.Cmp(refec.Gy) != 0 {
		fmt.Printf("BROKEN property=%s lambda/beta constants of the harness\n", ID)
		os.Exit(2)
	}

	bindir := os.Getenv("VERIF_BIN_DIR")
	if bindir == "" {
		bindir = vlib.Root + "/bin"
	}
	native := bindir + "/c08.main"
	x386 := bindir + "/c08.x386"
	bins := []struct{ bin, tag string }{{native, "native"}}
	// can the 386 binary execute here?
	pr := vlib.RunChild(x386, []string{"probe"}, nil, nil, 2*time.Minute)
	if pr.ExitCode == 0 && !pr.TimedOut && strings.Contains(string(pr.Out), "probe 10x26 10") {
		bins = append(bins, struct{ bin, tag string }{x386, "x386"})
		run.Extra("x386_executes", true)
	} else {
		run.Extra("x386_executes", false)
		run.Inconclusive("GOARCH=386 binary does not execute in this sandbox (10x26 field not exercised): exit=%d %s", pr.ExitCode, vlib.Tail(pr.Out, 300))
	}
	var jobs []job
	for _, b := range bins {
		slow := 1
		if b.tag == "x386" {
			slow = 2 // 64-bit big.Int arithmetic on 386 is ~2x slower: fewer cases for the same wall time
		}
		add := func(fam string, chunks, per int) {
			for c := 0; c < chunks; c++ {
				jobs = append(jobs, job{b.bin, b.tag, fam, c, per})
			}
		}
		add("tables", 1, 0)
		add("field-seq", run.N(16, 400)/slow, run.N(12500, 125000))
		add("group", run.N(6, 120)/slow, run.N(400, 1400))
		add("scalar", run.N(8, 200)/slow, run.N(200, 800))
		add("sweep", run.N(4, 64)/slow, run.N(40000, 400000))
	}
	tmp, _ := os.MkdirTemp("", "c08")
	defer os.RemoveAll(tmp)
	vlib.Parallel(len(jobs), 14, func(i int) {
		j := jobs[i]
		sf := fmt.Sprintf("%s/state%d.json", tmp, i)
		jf := fmt.Sprintf("%s/journal%d.txt", tmp, i)
		args := []string{"worker", j.fam, fmt.Sprint(j.chunk), fmt.Sprint(j.n), sf, jf}
		env := []string{fmt.Sprintf("VERIF_SEED=%d", run.Seed), "VERIF_TIER=" + run.Tier, "GOMAXPROCS=2", "GOTRACEBACK=all"}
		res := vlib.RunChild(j.bin, args, env, nil, 60*time.Minute)
		imported := run.ImportState(sf)
		if res.TimedOut {
			run.Inconclusive("worker watchdog fired: %s %v", j.tag, args[:4])
			return
		}
		if res.ExitCode == 5 {
			fmt.Printf("BROKEN property=%s reference self-check failed in worker %s %v: %s\n", ID, j.tag, args[:4], vlib.Tail(res.Out, 300))
			os.Exit(2)
		}
		if res.ExitCode != 0 || !imported {
			last, _ := os.ReadFile(jf)
			run.Violation("worker-died@"+j.tag+"/"+j.fam, fmt.Sprintf("%s worker for %s died (exit %d signal %s)", j.tag, j.fam, res.ExitCode, res.Signal),
				map[string]interface{}{"args": args[:4], "bin": j.bin, "last_journaled_case": strings.TrimSpace(string(last)), "output_tail": vlib.Tail(res.Out, 3000)})
			return
		}
		run.Inc("workers_ok/" + j.tag)
	})
	entries := int64(2*(1<<(secp256k1.WINDOW_G-2)) + 64*16 + 1)
	sumTab := func(a string) int64 {
		return run.Get("table_entries_checked/"+a+"/pre_g") + run.Get("table_entries_checked/"+a+"/pre_g_128") + run.Get("table_entries_checked/"+a+"/prec") + run.Get("table_entries_checked/"+a+"/fin")
	}
	run.Extra("tables_exhaustive", run.Get("tables_done/5x52") == 1 && sumTab("5x52") == entries)
	run.Extra("tables_exhaustive_10x26", run.Get("tables_done/10x26") == 1 && sumTab("10x26") == entries)
	run.Extra("table_entries_per_arch", entries)
	run.Extra("table_entries_checked", map[string]int64{"5x52": sumTab("5x52"), "10x26": sumTab("10x26")})
	if run.Get("tables_done/5x52") != 1 && run.Violations() == 0 {
		run.Inconclusive("table check did not complete for 5x52")
	}
	run.Assume("magnitude contract = libsecp256k1 VERIFY rules (Mul/Sqr/Inv/Sqrt operands <= 8, Negate(m) operand <= m, sums <= 32; predicates and GetB32 on normalised operands); limb bound per magnitude 2m(2^52-1) for 5x52, m(2^26-1) for 10x26")
	run.Assume("Inv/InvVar of 0 and Sqrt of a non-residue, DecompressPoint/SetXO of an x without a point are undefined mathematically: executed, not judged (the predicates are C03's)")
	run.Finish("each case = one contract-respecting sequence of field operations, one chain of group operations, one scalar-multiplication call or one table entry, compared with math/big arithmetic mod p and the affine group law; distinct_nontrivial = distinct cases over both field representations",
		"evaluations", "cases", run.N(100000, 5000000))
}
