package main

// Generators for C10: neutral record model (no gocoin types), script / amount / record families.
// The small secp256k1 helper below is generator-side only (it builds on-curve, off-curve and
// non-canonical keys and describes how a wrongly decoded key relates to the original); the oracle
// of C10 is plain deep equality with the generated record.

import (
	"bytes"
	"crypto/sha256"
	"encoding/binary"
	"fmt"
	"math/big"

	"verif/lib/vlib"
)

const maxMoney = 2100000000000000

type out struct {
	Value uint64
	Scr   []byte
	SFam  string // script family
	AFam  string // amount family
}

type rec struct {
	TxID [32]byte
	CB   bool
	H    uint32
	Outs []*out // nil = spent
	Fam  string
}

func (r *rec) live() int {
	n := 0
	for _, o := range r.Outs {
		if o != nil {
			n++
		}
	}
	return n
}

func (r *rec) scriptBytes() int {
	n := 0
	for _, o := range r.Outs {
		if o != nil {
			n += len(o.Scr)
		}
	}
	return n
}

// hash identifies the record content (for distinct counting).
func (r *rec) hash() [8]byte {
	h := sha256.New()
	h.Write(r.TxID[:])
	var b [16]byte
	binary.LittleEndian.PutUint32(b[:], r.H)
	if r.CB {
		b[4] = 1
	}
	binary.LittleEndian.PutUint32(b[8:], uint32(len(r.Outs)))
	h.Write(b[:])
	for i, o := range r.Outs {
		if o != nil {
			binary.LittleEndian.PutUint64(b[:], o.Value)
			binary.LittleEndian.PutUint32(b[8:], uint32(i))
			binary.LittleEndian.PutUint32(b[12:], uint32(len(o.Scr)))
			h.Write(b[:])
			h.Write(o.Scr)
		}
	}
	var k [8]byte
	copy(k[:], h.Sum(nil))
	return k
}

// ---------------------------------------------------------------------------------------------
// secp256k1 helper (big.Int)

var (
	fp, _   = new(big.Int).SetString("FFFFFFFFFFFFFFFFFFFFFFFFFFFFFFFFFFFFFFFFFFFFFFFFFFFFFFFEFFFFFC2F", 16)
	gx, _   = new(big.Int).SetString("79BE667EF9DCBBAC55A06295CE870B07029BFCDB2DCE28D959F2815B16F81798", 16)
	gy, _   = new(big.Int).SetString("483ADA7726A3C4655DA4FBFC0E1108A8FD17B448A68554199C47D08FFB10D4B8", 16)
	g2x, _  = new(big.Int).SetString("C6047F9441ED7D6D3045406E95C07CD85C778E4B8CEF3CA7ABAC09B95C709EE5", 16)
	g2y, _  = new(big.Int).SetString("1AE168FEA63DC339A3C58419466CEAEEF7F632653266D0E1236431A950CFE52A", 16)
	two256  = new(big.Int).Lsh(big.NewInt(1), 256)
	sqrtExp = new(big.Int).Rsh(new(big.Int).Add(fp, big.NewInt(1)), 2)
)

type pt struct{ x, y *big.Int }

func onCurve(x, y *big.Int) bool {
	l := new(big.Int).Mul(y, y)
	l.Mod(l, fp)
	r := new(big.Int).Mul(x, x)
	r.Mul(r, x)
	r.Add(r, big.NewInt(7))
	r.Mod(r, fp)
	return l.Cmp(r) == 0
}

func liftX(x *big.Int) (*big.Int, bool) {
	a := new(big.Int).Mul(x, x)
	a.Mul(a, x)
	a.Add(a, big.NewInt(7))
	a.Mod(a, fp)
	y := new(big.Int).Exp(a, sqrtExp, fp)
	if new(big.Int).Mod(new(big.Int).Mul(y, y), fp).Cmp(a) != 0 {
		return nil, false
	}
	return y, true
}

func cubeRoot(a *big.Int) (*big.Int, bool) {
	m9 := new(big.Int).Mod(fp, big.NewInt(9)).Int64()
	var e *big.Int
	switch m9 {
	case 7:
		e = new(big.Int).Div(new(big.Int).Add(fp, big.NewInt(2)), big.NewInt(9))
	case 4:
		e = new(big.Int).Div(new(big.Int).Add(new(big.Int).Lsh(fp, 1), big.NewInt(1)), big.NewInt(9))
	default:
		return nil, false
	}
	r := new(big.Int).Exp(a, e, fp)
	c := new(big.Int).Exp(r, big.NewInt(3), fp)
	if c.Cmp(new(big.Int).Mod(a, fp)) != 0 {
		return nil, false
	}
	return r, true
}

func be32(x *big.Int) []byte {
	b := x.Bytes()
	if len(b) > 32 {
		panic("be32 overflow")
	}
	o := make([]byte, 32)
	copy(o[32-len(b):], b)
	return o
}

// calibrateCurve checks the helper against known points of secp256k1.
func calibrateCurve() error {
	if !onCurve(gx, gy) || !onCurve(g2x, g2y) {
		return fmt.Errorf("G or 2G not on the helper's curve")
	}
	if y, ok := liftX(gx); !ok || (y.Cmp(gy) != 0 && new(big.Int).Sub(fp, y).Cmp(gy) != 0) {
		return fmt.Errorf("liftX(G.x) != +-G.y")
	}
	if onCurve(gx, new(big.Int).Add(gy, big.NewInt(1))) {
		return fmt.Errorf("(G.x, G.y+1) accepted")
	}
	if _, ok := liftX(big.NewInt(1)); !ok {
		return fmt.Errorf("x=1 expected to be liftable")
	}
	if _, ok := liftX(big.NewInt(5)); ok { // x=5: 132 is a non-residue (known: 5 is not a valid x)
		// not fatal knowledge; checked through consistency instead
		y, _ := liftX(big.NewInt(5))
		if !onCurve(big.NewInt(5), y) {
			return fmt.Errorf("liftX inconsistent")
		}
	}
	return nil
}

type gen struct {
	smallX []pt // on-curve points with tiny x (x+p still fits 32 bytes)
	tinyY  []pt // on-curve points with tiny y (y+p still fits 32 bytes)
}

func newGen() *gen {
	g := &gen{}
	for x := int64(1); len(g.smallX) < 48; x++ {
		X := big.NewInt(x)
		if y, ok := liftX(X); ok {
			g.smallX = append(g.smallX, pt{X, y})
		}
	}
	for y := int64(1); len(g.tinyY) < 32 && y < 2000; y++ {
		Y := big.NewInt(y)
		a := new(big.Int).Mul(Y, Y)
		a.Sub(a, big.NewInt(7))
		a.Mod(a, fp)
		if x, ok := cubeRoot(a); ok && onCurve(x, Y) {
			g.tinyY = append(g.tinyY, pt{x, Y})
		}
	}
	return g
}

func (g *gen) randPoint(r *vlib.Rand) pt {
	for {
		x := new(big.Int).SetBytes(r.Bytes(32))
		x.Mod(x, fp)
		if y, ok := liftX(x); ok {
			if r.Bool() {
				y = new(big.Int).Sub(fp, y)
			}
			return pt{x, y}
		}
	}
}

func (g *gen) randNonLiftableX(r *vlib.Rand) *big.Int {
	for {
		x := new(big.Int).SetBytes(r.Bytes(32))
		x.Mod(x, fp)
		if _, ok := liftX(x); !ok {
			return x
		}
	}
}

// ---------------------------------------------------------------------------------------------
// scripts

func p2pkh(h []byte) []byte {
	s := []byte{0x76, 0xa9, 0x14}
	s = append(s, h...)
	return append(s, 0x88, 0xac)
}
func p2sh(h []byte) []byte {
	s := []byte{0xa9, 0x14}
	s = append(s, h...)
	return append(s, 0x87)
}
func p2pk33(prefix byte, x []byte) []byte {
	s := make([]byte, 35)
	s[0] = 33
	s[1] = prefix
	copy(s[2:34], x)
	s[34] = 0xac
	return s
}
func p2pk65(prefix byte, x, y []byte) []byte {
	s := make([]byte, 67)
	s[0] = 65
	s[1] = prefix
	copy(s[2:34], x)
	copy(s[34:66], y)
	s[66] = 0xac
	return s
}

func otherByte(r *vlib.Rand, b byte, cands ...byte) byte {
	for {
		var c byte
		if len(cands) > 0 && r.Intn(3) != 0 {
			c = cands[r.Intn(len(cands))]
		} else {
			c = byte(r.U64())
		}
		if c != b {
			return c
		}
	}
}

const nSpecial = 26

// special returns one of the specially-compressed forms or a look-alike.
func (g *gen) special(r *vlib.Rand, k int) ([]byte, string) {
	switch k {
	case 0:
		return p2pkh(r.Bytes(20)), "p2pkh"
	case 1:
		return p2sh(r.Bytes(20)), "p2sh"
	case 2:
		p := g.randPoint(r)
		return p2pk33(2+byte(p.y.Bit(0)), be32(p.x)), "p2pk33-valid"
	case 3:
		return p2pk33(2+byte(r.Intn(2)), be32(g.randNonLiftableX(r))), "p2pk33-x-not-on-curve"
	case 4:
		x := new(big.Int).Add(fp, big.NewInt(int64(r.Intn(1000))))
		if r.Intn(4) == 0 {
			x = new(big.Int).Sub(two256, big.NewInt(1+int64(r.Intn(5))))
		}
		return p2pk33(2+byte(r.Intn(2)), be32(x)), "p2pk33-x>=p"
	case 5:
		p := g.randPoint(r)
		return p2pk65(4, be32(p.x), be32(p.y)), "p2pk65-valid"
	case 6:
		p := g.randPoint(r)
		y := new(big.Int).Add(p.y, big.NewInt(1))
		y.Mod(y, fp)
		return p2pk65(4, be32(p.x), be32(y)), "p2pk65-offcurve"
	case 7:
		return p2pk65(4, r.Bytes(32), r.Bytes(32)), "p2pk65-offcurve"
	case 8:
		p := g.smallX[r.Intn(len(g.smallX))]
		y := p.y
		if r.Bool() {
			y = new(big.Int).Sub(fp, y)
		}
		return p2pk65(4, be32(new(big.Int).Add(p.x, fp)), be32(y)), "p2pk65-oncurve-x>=p"
	case 9:
		if len(g.tinyY) == 0 {
			return g.special(r, 8)
		}
		p := g.tinyY[r.Intn(len(g.tinyY))]
		return p2pk65(4, be32(p.x), be32(new(big.Int).Add(p.y, fp))), "p2pk65-oncurve-y>=p"
	case 10:
		p := g.smallX[r.Intn(len(g.smallX))]
		y := new(big.Int).Add(p.y, big.NewInt(1+int64(r.Intn(5))))
		y.Mod(y, fp)
		return p2pk65(4, be32(new(big.Int).Add(p.x, fp)), be32(y)), "p2pk65-offcurve-x>=p"
	case 11:
		p := g.randPoint(r)
		return p2pk65(6+byte(p.y.Bit(0)), be32(p.x), be32(p.y)), "p2pk65-hybrid"
	case 12:
		p := g.randPoint(r)
		return p2pk65(7-byte(p.y.Bit(0)), be32(p.x), be32(p.y)), "p2pk65-hybrid-wrong-parity"
	case 13:
		z := make([]byte, 32)
		switch r.Intn(3) {
		case 0:
			return p2pk65(4, z, z), "p2pk65-zero-or-p"
		case 1:
			return p2pk65(4, be32(fp), be32(fp)), "p2pk65-zero-or-p"
		default:
			return p2pk65(4, z, be32(fp)), "p2pk65-zero-or-p"
		}
	case 14:
		s := p2pkh(r.Bytes(20))
		switch r.Intn(7) {
		case 0:
			s[0] = otherByte(r, s[0], 0x77, 0x75, 0xa9)
		case 1:
			s[1] = otherByte(r, s[1], 0xa8, 0xaa, 0x76)
		case 2:
			s[2] = otherByte(r, s[2], 0x13, 0x15, 0x00)
		case 3:
			s[23] = otherByte(r, s[23], 0x87, 0x89, 0xac)
		case 4:
			s[24] = otherByte(r, s[24], 0xab, 0xad, 0x88)
		case 5:
			s = s[:24]
		default:
			s = append(s, byte(r.U64()))
		}
		return s, "lookalike-p2pkh"
	case 15:
		s := p2sh(r.Bytes(20))
		switch r.Intn(5) {
		case 0:
			s[0] = otherByte(r, s[0], 0xa8, 0xaa, 0x76)
		case 1:
			s[1] = otherByte(r, s[1], 0x13, 0x15, 0x00)
		case 2:
			s[22] = otherByte(r, s[22], 0x86, 0x88, 0xac)
		case 3:
			s = s[:22]
		default:
			s = append(s, byte(r.U64()))
		}
		return s, "lookalike-p2sh"
	case 16:
		p := g.randPoint(r)
		s := p2pk33(2+byte(p.y.Bit(0)), be32(p.x))
		switch r.Intn(5) {
		case 0:
			s[0] = otherByte(r, s[0], 32, 34, 65)
		case 1:
			s[1] = otherByte(r, s[1]|1, 0, 1, 4, 5, 6, 7) // never 02/03
			if s[1] == 2 {
				s[1] = 5
			}
		case 2:
			s[34] = otherByte(r, s[34], 0xab, 0xad, 0x00)
		case 3:
			s = s[:34]
		default:
			s = append(s, byte(r.U64()))
		}
		return s, "lookalike-p2pk33"
	case 17:
		p := g.randPoint(r)
		s := p2pk65(4, be32(p.x), be32(p.y))
		switch r.Intn(5) {
		case 0:
			s[0] = otherByte(r, s[0], 64, 66, 33)
		case 1:
			s[1] = otherByte(r, 4, 0, 1, 2, 3, 5)
		case 2:
			s[66] = otherByte(r, s[66], 0xab, 0xad, 0x00)
		case 3:
			s = s[:66]
		default:
			s = append(s, byte(r.U64()))
		}
		return s, "lookalike-p2pk65"
	case 18:
		// raw scripts that look like the payload of a compressed script
		l := []int{20, 21, 32, 33}[r.Intn(4)]
		s := r.Bytes(l)
		s[0] = byte(r.Intn(6))
		return s, "raw-compressed-payload-lookalike"
	case 19:
		// canonical keys close to the field prime (must round-trip)
		for k := int64(1); ; k++ {
			x := new(big.Int).Sub(fp, big.NewInt(k+int64(r.Intn(40))))
			if y, ok := liftX(x); ok {
				if r.Bool() {
					y = new(big.Int).Sub(fp, y)
				}
				return p2pk65(4, be32(x), be32(y)), "p2pk65-valid-x-near-p"
			}
		}
	case 20:
		p := g.smallX[r.Intn(len(g.smallX))]
		y := p.y
		if r.Bool() {
			y = new(big.Int).Sub(fp, y)
		}
		return p2pk65(4, be32(p.x), be32(y)), "p2pk65-valid-small-x"
	case 21:
		if len(g.tinyY) == 0 {
			return g.special(r, 20)
		}
		p := g.tinyY[r.Intn(len(g.tinyY))]
		return p2pk65(4, be32(p.x), be32(p.y)), "p2pk65-valid-tiny-y"
	case 22:
		s := make([]byte, 22)
		s[1] = 20
		copy(s[2:], r.Bytes(20))
		return s, "p2wpkh"
	case 23:
		s := make([]byte, 34)
		s[1] = 32
		copy(s[2:], r.Bytes(32))
		return s, "p2wsh"
	case 24:
		s := make([]byte, 34)
		s[0] = 0x51
		s[1] = 32
		copy(s[2:], r.Bytes(32))
		return s, "p2tr"
	default:
		p := g.randPoint(r)
		// valid uncompressed key with chosen parity of Y (both parities must round-trip)
		return p2pk65(4, be32(p.x), be32(p.y)), fmt.Sprintf("p2pk65-valid-yparity%d", p.y.Bit(0))
	}
}

var bndLens = []int{0, 1, 2, 3, 4, 5, 6, 7, 19, 20, 21, 22, 23, 24, 25, 26, 32, 33, 34, 35, 36, 66, 67, 68,
	245, 246, 247, 248, 251, 252, 253, 254, 255, 256, 257}
var bigLens = []int{65528, 65529, 65530, 65531, 65534, 65535, 65536, 65537, 10000, 10001}

func (g *gen) lenScript(r *vlib.Rand, allowBig bool) ([]byte, string) {
	var l int
	if allowBig && r.Intn(12) == 0 {
		l = bigLens[r.Intn(len(bigLens))]
	} else {
		l = bndLens[r.Intn(len(bndLens))]
	}
	s := r.Bytes(l)
	if l > 0 && r.Intn(3) == 0 {
		s[0] = byte(r.Intn(8))
	}
	return s, fmt.Sprintf("random-len%d", l)
}

func (g *gen) mixScript(r *vlib.Rand) ([]byte, string) {
	switch k := r.Intn(32); {
	case k < 7:
		return g.special(r, 0)
	case k < 11:
		return g.special(r, 1)
	case k < 13:
		return g.special(r, 22)
	case k < 15:
		return g.special(r, 23+r.Intn(2))
	case k < 17:
		return g.special(r, 2)
	case k < 18:
		return g.special(r, 5)
	case k < 19:
		s := append([]byte{0x6a, 0x14}, r.Bytes(20)...)
		return s, "op_return"
	case k < 20:
		s := []byte{0x51}
		for i := 0; i < 1+r.Intn(3); i++ {
			p := g.randPoint(r)
			s = append(s, 33, 2+byte(p.y.Bit(0)))
			s = append(s, be32(p.x)...)
		}
		s = append(s, 0x53, 0xae)
		return s, "multisig"
	case k < 23:
		l := r.Intn(80)
		return r.Bytes(l), "random-short"
	case k < 24:
		return g.lenScript(r, false)
	default:
		return g.special(r, r.Intn(nSpecial))
	}
}

// ---------------------------------------------------------------------------------------------
// amounts

var pow10 [20]uint64

func init() {
	pow10[0] = 1
	for i := 1; i < 20; i++ {
		pow10[i] = pow10[i-1] * 10
	}
}

const nAmountFam = 12

func (g *gen) amount(r *vlib.Rand, k int) (uint64, string) {
	for {
		var v uint64
		var fam string
		switch k {
		case 0:
			v, fam = []uint64{0, 1, 2, 9, 10, 11, maxMoney, maxMoney - 1, maxMoney - 100000000, 546, 5000000000, 2500000000, 1250000000, 625000000, 312500000}[r.Intn(15)], "fixed"
		case 1:
			v, fam = pow10[r.Intn(16)], "10^k"
		case 2:
			v = uint64(1+r.Intn(9)) * pow10[r.Intn(16)]
			v = v + uint64(r.Intn(3)) - 1
			fam = "k*10^j+-1"
		case 3:
			v = uint64(1+r.Intn(99)) * pow10[r.Intn(15)]
			v = v + uint64(r.Intn(3)) - 1
			fam = "kk*10^j+-1"
		case 4:
			// compressor pattern e<9: (n*10+d)*10^e, d in 1..9
			e := r.Intn(9)
			d := uint64(1 + r.Intn(9))
			var n uint64
			switch r.Intn(4) {
			case 0:
				n = 0
			case 1:
				n = uint64(r.Intn(100))
			case 2:
				n = pow10[r.Intn(7)] * uint64(1+r.Intn(9)) // n ending in zeros
			default:
				n = r.U64() % (maxMoney / pow10[e] / 10)
			}
			v = (n*10 + d) * pow10[e]
			fam = fmt.Sprintf("digit-pattern-e%d", e)
		case 5:
			// e==9: n*10^9 with n possibly ending in zeros
			n := uint64(1 + r.Intn(2100000))
			if r.Bool() {
				n = uint64(1+r.Intn(21)) * pow10[r.Intn(6)]
			}
			v = n * pow10[9]
			fam = "digit-pattern-e9"
		case 6:
			v, fam = []uint64{252, 253, 254, 65535, 65536, 65537, 1<<32 - 1, 1 << 32, 1<<32 + 1}[r.Intn(9)], "compactsize-boundary"
		case 7:
			// amounts whose *compressed* value sits on a CompactSize boundary: found by search, no decompressor used
			v, fam = compBoundaryAmounts[r.Intn(len(compBoundaryAmounts))], "compressed-compactsize-boundary"
		case 8:
			v, fam = r.U64()%(maxMoney+1), "uniform"
		case 9:
			v, fam = r.U64()%pow10[1+r.Intn(15)], "uniform-digits"
		case 10:
			v, fam = (r.U64()%100000)*pow10[r.Intn(11)], "round"
		default:
			v, fam = uint64(r.Intn(100000)), "small"
		}
		if v <= maxMoney {
			return v, fam
		}
		k = r.Intn(nAmountFam)
	}
}

// Amounts x for which the spec'd compressed value (computed by the monitor's own transcription of
// the published algorithm, used only to *choose inputs*) lies at 252..254, 65535.., 2^32-1.. .
var compBoundaryAmounts []uint64

func specCompress(n uint64) uint64 {
	if n == 0 {
		return 0
	}
	e := uint64(0)
	for n%10 == 0 && e < 9 {
		n /= 10
		e++
	}
	if e < 9 {
		d := n % 10
		return 1 + (n/10*9+d-1)*10 + e
	}
	return 1 + (n-1)*10 + 9
}

func init() {
	targets := []uint64{252, 253, 254, 65535, 65536, 65537, 1<<32 - 1, 1 << 32, 1<<32 + 1}
	// invert by construction: c-1 = 10*q + e
	for _, c := range targets {
		x := c - 1
		e := x % 10
		q := x / 10
		var n uint64
		if e < 9 {
			n = (q/9)*10 + q%9 + 1
		} else {
			n = q + 1
		}
		v := n * pow10[e]
		if v <= maxMoney && specCompress(v) == c {
			compBoundaryAmounts = append(compBoundaryAmounts, v)
		}
	}
	if len(compBoundaryAmounts) == 0 {
		compBoundaryAmounts = []uint64{0}
	}
}

func (g *gen) mixAmount(r *vlib.Rand) (uint64, string) {
	return g.amount(r, r.Intn(nAmountFam))
}

// ---------------------------------------------------------------------------------------------
// records

var heights = []uint32{0, 1, 2, 251, 252, 253, 254, 255, 256, 65534, 65535, 65536, 65537, 1<<32 - 1, 1<<32 - 2, 1 << 31, 1<<31 - 1, 16777215, 16777216}

func (g *gen) height(r *vlib.Rand) uint32 {
	switch r.Intn(4) {
	case 0:
		return heights[r.Intn(len(heights))]
	case 1:
		return r.U32()
	default:
		return uint32(r.Intn(1000000))
	}
}

var bigCounts = []int{253, 254, 255, 256, 257, 1000, 13106, 13107, 13108, 15000, 15001, 30000, 30001, 252, 65, 128}

const (
	famSmall = iota
	famSpecial
	famAmounts
	famScriptLen
	famSparseBig
	famDenseMedium
	famExtreme
	famAllSpent
	nRecFam
)

var recFamNames = []string{"small-mix", "special-scripts", "amounts", "script-lengths", "sparse-big", "dense-medium", "extreme", "all-spent"}

func familyOf(idx int) (fam int, sub int) {
	m := idx % 100
	switch {
	case m < 48:
		return famSmall, idx / 100
	case m < 64:
		return famSpecial, idx / 100
	case m < 78:
		return famAmounts, idx / 100
	case m < 88:
		return famScriptLen, idx / 100
	case m < 96:
		return famSparseBig, (idx/100)*8 + (m - 88)
	case m < 98:
		return famDenseMedium, idx / 100
	case m < 99:
		return famAllSpent, idx / 100
	default:
		return famExtreme, idx / 100
	}
}

func (g *gen) newOut(r *vlib.Rand, scr []byte, sf string) *out {
	v, af := g.mixAmount(r)
	return &out{Value: v, Scr: scr, SFam: sf, AFam: af}
}

// record generates case idx of the record workload.
func (g *gen) record(r *vlib.Rand, idx int) *rec {
	fam, sub := familyOf(idx)
	return g.recordFam(r, fam, sub)
}

func (g *gen) recordFam(r *vlib.Rand, fam, sub int) *rec {
	rc := &rec{Fam: recFamNames[fam]}
	r.Fill(rc.TxID[:])
	rc.CB = r.Bool()
	rc.H = g.height(r)
	switch fam {
	case famSmall:
		n := 1 + r.Intn(8)
		rc.Outs = make([]*out, n)
		for i := range rc.Outs {
			if r.Intn(3) != 0 {
				s, sf := g.mixScript(r)
				rc.Outs[i] = g.newOut(r, s, sf)
			}
		}
	case famSpecial:
		n := 1 + r.Intn(4)
		rc.Outs = make([]*out, n)
		for i := range rc.Outs {
			if r.Intn(4) != 0 {
				s, sf := g.special(r, (sub+i+r.Intn(2)*r.Intn(nSpecial))%nSpecial)
				rc.Outs[i] = g.newOut(r, s, sf)
			}
		}
	case famAmounts:
		n := 1 + r.Intn(6)
		rc.Outs = make([]*out, n)
		for i := range rc.Outs {
			if r.Intn(5) != 0 {
				s, sf := g.special(r, r.Intn(2))
				if r.Intn(4) == 0 {
					s, sf = r.Bytes(r.Intn(30)), "random-short"
				}
				v, af := g.amount(r, (sub+i)%nAmountFam)
				rc.Outs[i] = &out{Value: v, Scr: s, SFam: sf, AFam: af}
			}
		}
	case famScriptLen:
		n := 1 + r.Intn(3)
		rc.Outs = make([]*out, n)
		for i := range rc.Outs {
			if r.Intn(4) != 0 {
				s, sf := g.lenScript(r, true)
				rc.Outs[i] = g.newOut(r, s, sf)
			}
		}
	case famSparseBig:
		var n int
		if r.Intn(3) == 0 {
			n = 1 + r.Intn(30001)
		} else {
			n = bigCounts[sub%len(bigCounts)]
		}
		rc.Outs = make([]*out, n)
		var pos []int
		switch r.Intn(6) {
		case 0:
			pos = []int{0}
		case 1:
			pos = []int{n - 1}
		case 2:
			pos = []int{0, n - 1}
		case 3:
			pos = []int{251, 252, 253, 254, 255, n - 2}
		case 4:
			for i := 0; i < 1+r.Intn(12); i++ {
				pos = append(pos, r.Intn(n))
			}
		default:
			pos = []int{r.Intn(n)}
		}
		for _, p := range pos {
			if p >= 0 && p < n {
				s, sf := g.mixScript(r)
				rc.Outs[p] = g.newOut(r, s, sf)
			}
		}
	case famDenseMedium:
		n := 100 + r.Intn(2900)
		rc.Outs = make([]*out, n)
		for i := range rc.Outs {
			if r.Intn(10) != 0 {
				s, sf := g.special(r, r.Intn(2))
				if r.Intn(8) == 0 {
					s, sf = g.mixScript(r)
				}
				rc.Outs[i] = g.newOut(r, s, sf)
			}
		}
	case famAllSpent:
		rc.Outs = make([]*out, 1+r.Intn(300))
	case famExtreme:
		switch sub % 6 {
		case 0, 1:
			n := 30001
			if sub%6 == 1 {
				n = []int{13107, 13108, 15001, 30000}[r.Intn(4)]
			}
			rc.Outs = make([]*out, n)
			h := r.Bytes(20)
			for i := range rc.Outs {
				binary.LittleEndian.PutUint32(h, uint32(i))
				var s []byte
				var sf string
				if i%3 == 0 {
					s, sf = p2sh(h), "p2sh"
				} else {
					s, sf = p2pkh(h), "p2pkh"
				}
				rc.Outs[i] = &out{Value: uint64(i) * 1000, Scr: s, SFam: sf, AFam: "round"}
			}
		case 2:
			rc.Outs = make([]*out, 3)
			for i := range rc.Outs {
				l := bigLens[r.Intn(8)]
				rc.Outs[i] = g.newOut(r, r.Bytes(l), fmt.Sprintf("random-len%d", l))
			}
		case 3:
			rc.Outs = make([]*out, 30001)
			s, sf := g.special(r, r.Intn(nSpecial))
			rc.Outs[30000] = g.newOut(r, s, sf)
		case 4:
			rc.Outs = make([]*out, 30001)
			s, sf := g.special(r, r.Intn(nSpecial))
			rc.Outs[0] = g.newOut(r, s, sf)
		default:
			n := 300
			rc.Outs = make([]*out, n)
			for i := range rc.Outs {
				s, sf := g.special(r, i%nSpecial)
				rc.Outs[i] = g.newOut(r, s, sf)
			}
		}
	}
	if fam != famAllSpent && rc.live() == 0 {
		s, sf := g.mixScript(r)
		rc.Outs[r.Intn(len(rc.Outs))] = g.newOut(r, s, sf)
	}
	return rc
}

// keyRelation describes, for an uncompressed P2PK script that came back different, how the returned
// key relates to the stored one (pure observation, used to make the violation class precise).
func keyRelation(exp, got []byte) string {
	if len(exp) != 67 || len(got) != 67 || got[0] != 65 || got[1] != 4 || got[66] != 0xac {
		return "decoded-as-other-script"
	}
	ex := new(big.Int).SetBytes(exp[2:34])
	ey := new(big.Int).SetBytes(exp[34:66])
	ox := new(big.Int).SetBytes(got[2:34])
	oy := new(big.Int).SetBytes(got[34:66])
	exm := new(big.Int).Mod(ex, fp)
	eym := new(big.Int).Mod(ey, fp)
	if ox.Cmp(exm) == 0 && oy.Cmp(eym) == 0 {
		return "decoded-as-same-point-canonical"
	}
	if ox.Cmp(exm) == 0 && oy.Cmp(new(big.Int).Mod(new(big.Int).Sub(fp, eym), fp)) == 0 {
		return "decoded-as-negated-point-canonical"
	}
	return "decoded-as-other-key"
}

func scriptDiffClass(sfam string, exp, got []byte, where string) string {
	cls := "lossy-script/" + sfam
	if len(exp) == 67 && exp[0] == 65 && bytes.HasPrefix([]byte(sfam), []byte("p2pk65")) {
		cls += "/" + keyRelation(exp, got)
	}
	return cls + "/" + where
}

func shortHex(b []byte) string {
	if len(b) <= 160 {
		return vlib.Hex(b)
	}
	h := sha256.Sum256(b)
	return fmt.Sprintf("%s...(len %d, sha256 %s)", vlib.Hex(b[:32]), len(b), vlib.Hex(h[:8]))
}

// describe renders a record as a JSON-able witness.
func (r *rec) describe() map[string]interface{} {
	var outs []map[string]interface{}
	for i, o := range r.Outs {
		if o != nil {
			if len(outs) >= 40 {
				outs = append(outs, map[string]interface{}{"more": r.live() - 40})
				break
			}
			outs = append(outs, map[string]interface{}{"vout": i, "value": o.Value, "script": shortHex(o.Scr), "script_family": o.SFam, "amount_family": o.AFam})
		}
	}
	return map[string]interface{}{"txid": vlib.Hex(r.TxID[:]), "coinbase": r.CB, "height": r.H, "n_outs": len(r.Outs), "live": outs, "family": r.Fam}
}
