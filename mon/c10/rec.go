package main

// Part 1 of C10: record round trips in both formats, run in child workers.

import (
	"bytes"
	"encoding/json"
	"fmt"
	"os"
	"reflect"
	"strconv"

	"github.com/piotrnar/gocoin/lib/btc"
	"github.com/piotrnar/gocoin/lib/others/memory"
	"github.com/piotrnar/gocoin/lib/script"
	"github.com/piotrnar/gocoin/lib/utxo"
	"verif/lib/vlib"
)

type failure struct {
	Class   string
	What    string
	Witness map[string]interface{}
}

type childStats struct {
	Counts   map[string]int64
	Distinct map[string][]string // set -> elements (strings)
	RecHash  []string            // hex of 8-byte record hashes (distinct)
	Fails    []failure
	Samples  []interface{}
	Done     bool
}

func newStats() *childStats {
	return &childStats{Counts: map[string]int64{}, Distinct: map[string][]string{}}
}

type setT map[string]struct{}

type recChecker struct {
	st       *childStats
	sets     map[string]setT
	recSeen  map[[8]byte]struct{}
	bigbuf   []byte
	realloc  bool
	seed     uint64
	idx      int
	failSeen map[string]int
}

func (c *recChecker) add(set, el string) {
	m := c.sets[set]
	if m == nil {
		m = setT{}
		c.sets[set] = m
	}
	m[el] = struct{}{}
}

func (c *recChecker) fail(class, what string, r *rec, extra map[string]interface{}) {
	c.failSeen[class]++
	if c.failSeen[class] > 3 || len(c.st.Fails) >= 60 {
		c.st.Counts["failures_not_listed"]++
		return
	}
	w := map[string]interface{}{"record": r.describe(), "case_seed": c.seed, "case_idx": c.idx, "real_allocator": c.realloc}
	for k, v := range extra {
		w[k] = v
	}
	c.st.Fails = append(c.st.Fails, failure{class, what, w})
}

func toUtxo(r *rec) *utxo.UtxoRec {
	u := &utxo.UtxoRec{TxID: r.TxID, Coinbase: r.CB, InBlock: r.H}
	u.Outs = make([]*utxo.UtxoTxOut, len(r.Outs))
	for i, o := range r.Outs {
		if o != nil {
			u.Outs[i] = &utxo.UtxoTxOut{Value: o.Value, PKScr: append([]byte(nil), o.Scr...)}
		}
	}
	return u
}

type recDiff struct {
	kind string // txid coinbase height outs-count out-missing out-extra value script
	idx  int
	text string
}

// cmpRec lists the differences between the generated record and a decoded one (max 6).
func cmpRec(r *rec, u *utxo.UtxoRec) (ds []recDiff) {
	if u == nil {
		return []recDiff{{"nil-record", -1, "decoder returned nil"}}
	}
	if u.TxID != r.TxID {
		ds = append(ds, recDiff{"txid", -1, fmt.Sprintf("txid %x != %x", u.TxID, r.TxID)})
	}
	if u.Coinbase != r.CB {
		ds = append(ds, recDiff{"coinbase", -1, fmt.Sprintf("coinbase %v != %v", u.Coinbase, r.CB)})
	}
	if u.InBlock != r.H {
		ds = append(ds, recDiff{"height", -1, fmt.Sprintf("height %d != %d", u.InBlock, r.H)})
	}
	if len(u.Outs) != len(r.Outs) {
		ds = append(ds, recDiff{"outs-count", -1, fmt.Sprintf("number of outputs %d != %d", len(u.Outs), len(r.Outs))})
		return
	}
	for i, o := range r.Outs {
		g := u.Outs[i]
		switch {
		case o == nil && g == nil:
		case o != nil && g == nil:
			ds = append(ds, recDiff{"out-missing", i, fmt.Sprintf("output %d is unspent in the stored record but missing after decoding", i)})
		case o == nil && g != nil:
			ds = append(ds, recDiff{"out-extra", i, fmt.Sprintf("output %d is spent in the stored record but present after decoding", i)})
		default:
			if g.Value != o.Value {
				ds = append(ds, recDiff{"value", i, fmt.Sprintf("output %d value %d != %d", i, g.Value, o.Value)})
			}
			if !bytes.Equal(g.PKScr, o.Scr) {
				ds = append(ds, recDiff{"script", i, fmt.Sprintf("output %d script %s != %s", i, shortHex(g.PKScr), shortHex(o.Scr))})
			}
		}
		if len(ds) >= 6 {
			return
		}
	}
	return
}

func diffClass(r *rec, u *utxo.UtxoRec, d recDiff, where string) string {
	switch d.kind {
	case "script":
		return scriptDiffClass(r.Outs[d.idx].SFam, r.Outs[d.idx].Scr, u.Outs[d.idx].PKScr, where)
	case "value":
		return "lossy-value/" + r.Outs[d.idx].AFam + "/" + where
	case "out-missing", "out-extra":
		return "lossy-" + d.kind + "/" + r.Fam + "/" + where
	default:
		return "lossy-" + d.kind + "/" + where
	}
}

// cmpUtxo compares two decodes of the same bytes.
func cmpUtxo(a, b *utxo.UtxoRec) string {
	if b == nil {
		return "nil"
	}
	if a.TxID != b.TxID || a.Coinbase != b.Coinbase || a.InBlock != b.InBlock || len(a.Outs) != len(b.Outs) {
		return "header"
	}
	for i := range a.Outs {
		x, y := a.Outs[i], b.Outs[i]
		if (x == nil) != (y == nil) {
			return fmt.Sprintf("out %d presence", i)
		}
		if x != nil && (x.Value != y.Value || !bytes.Equal(x.PKScr, y.PKScr)) {
			return fmt.Sprintf("out %d content", i)
		}
	}
	return ""
}

type codec struct {
	name string
	ser  func(*utxo.UtxoRec, []byte) *[]byte
	dec  func([]byte, *utxo.UtxoRec, *utxo.NewUtxoOutAllocCbs)
	one  func([]byte, uint32) *btc.TxOut
}

var codecs = []codec{
	{"U", utxo.SerializeU, utxo.NewUtxoRecOwnU, utxo.OneUtxoRecU},
	{"C", utxo.SerializeC, utxo.NewUtxoRecOwnC, utxo.OneUtxoRecC},
}

func exact(b []byte) []byte {
	x := make([]byte, len(b))
	copy(x, b)
	return x[:len(b):len(b)]
}

func (c *recChecker) vouts(r *rec, rr *vlib.Rand) []uint32 {
	n := len(r.Outs)
	var vs []uint32
	if n <= 300 {
		for i := 0; i < n; i++ {
			vs = append(vs, uint32(i))
		}
	} else {
		seen := map[int]bool{}
		addv := func(i int) {
			if i >= 0 && i < n && !seen[i] {
				seen[i] = true
				vs = append(vs, uint32(i))
			}
		}
		for _, i := range []int{0, 1, 251, 252, 253, 254, 255, 256, n - 2, n - 1} {
			addv(i)
		}
		var live []int
		for i, o := range r.Outs {
			if o != nil {
				live = append(live, i)
			}
		}
		if len(live) <= 80 {
			for _, i := range live {
				addv(i)
			}
		} else {
			for k := 0; k < 80; k++ {
				addv(live[rr.Intn(len(live))])
			}
			addv(live[0])
			addv(live[len(live)-1])
		}
		for k := 0; k < 16; k++ {
			addv(rr.Intn(n))
		}
	}
	vs = append(vs, uint32(n), uint32(n+1), 0xffffffff, 0x80000000)
	return vs
}

func (c *recChecker) checkFormat(r *rec, cd codec, rr *vlib.Rand) {
	stage := "serialize"
	defer func() {
		if e := recover(); e != nil {
			c.fail("panic/"+cd.name+"/"+stage+"/"+r.Fam, fmt.Sprintf("panic in %s (format %s): %v", stage, cd.name, e), r, nil)
		}
	}()
	where := "rec-" + cd.name
	in := toUtxo(r)
	buf := cd.ser(in, nil)
	if ds := cmpRec(r, in); len(ds) > 0 {
		c.fail("serialize-mutates-input/"+cd.name+"/"+ds[0].kind, "Serialize changed the record it was given: "+ds[0].text, r, nil)
	}
	if r.live() == 0 {
		c.st.Counts["all_spent_records_"+cd.name]++
		if buf != nil {
			c.fail("serialize-allspent-nonnil/"+cd.name, "record without unspent outputs serialized to non-nil", r, nil)
		}
		return
	}
	if buf == nil {
		c.fail("serialize-nil/"+cd.name+"/"+r.Fam, "Serialize returned nil for a record with unspent outputs", r, nil)
		return
	}
	b := exact(*buf)
	c.st.Counts["serialized_bytes_"+cd.name] += int64(len(b))

	stage = "serialize-usebuf"
	if len(b) <= len(c.bigbuf) {
		b2 := cd.ser(in, c.bigbuf)
		if b2 == nil || !bytes.Equal(*b2, b) {
			c.fail("serialize-usebuf-differs/"+cd.name, "Serialize into a caller buffer differs from Serialize into allocated memory", r, nil)
		}
	}

	stage = "decode-own"
	var whole utxo.UtxoRec
	cd.dec(b, &whole, nil)
	for _, d := range cmpRec(r, &whole) {
		c.fail(diffClass(r, &whole, d, where), fmt.Sprintf("format %s: decode(encode(r)) != r: %s", cd.name, d.text), r, map[string]interface{}{"encoded": shortHex(b)})
	}
	c.st.Counts["roundtrips_"+cd.name]++

	// entry points that go through the package-level format switch
	stage = "decode-via-global-switch"
	utxo.Serialize, utxo.NewUtxoRecOwn, utxo.OneUtxoRec = cd.ser, cd.dec, cd.one
	if g := utxo.Serialize(in, nil); g == nil || !bytes.Equal(*g, b) {
		c.fail("global-switch/serialize-differs/"+cd.name, "utxo.Serialize after switching the format differs from the direct call", r, nil)
	} else {
		utxo.Memory_Free(g)
	}
	type dpath struct {
		name string
		f    func([]byte) *utxo.UtxoRec
	}
	paths := []dpath{{"NewUtxoRec", utxo.NewUtxoRec}, {"FullUtxoRec", utxo.FullUtxoRec}, {"NewUtxoRecStatic", utxo.NewUtxoRecStatic}}
	if cd.name == "U" {
		paths = append(paths, dpath{"NewUtxoRecU", utxo.NewUtxoRecU}, dpath{"NewUtxoRecStaticU", utxo.NewUtxoRecStaticU})
	}
	for _, p := range paths {
		stage = "decode-" + p.name
		got := p.f(b)
		if d := cmpUtxo(&whole, got); d != "" {
			c.fail("decoder-disagrees/"+cd.name+"/"+p.name, fmt.Sprintf("%s disagrees with NewUtxoRecOwn%s on the same bytes: %s", p.name, cd.name, d), r, map[string]interface{}{"encoded": shortHex(b)})
		}
		c.st.Counts["decoder_paths_compared"]++
	}

	stage = "one"
	for _, v := range c.vouts(r, rr) {
		for pass := 0; pass < 2; pass++ {
			var o *btc.TxOut
			if pass == 0 {
				o = cd.one(b, v)
			} else {
				if v%7 != 0 {
					continue
				}
				o = utxo.OneUtxoRec(b, v)
			}
			c.st.Counts["single_lookups_"+cd.name]++
			var w *utxo.UtxoTxOut
			if int64(v) < int64(len(whole.Outs)) {
				w = whole.Outs[v]
			}
			kind := ""
			switch {
			case w == nil && o == nil:
			case w == nil && o != nil:
				kind = "returns-spent-or-absent-output"
			case w != nil && o == nil:
				kind = "misses-unspent-output"
			default:
				c.st.Counts["single_lookups_live_"+cd.name]++
				if o.Value != w.Value {
					kind = "value"
				} else if !bytes.Equal(o.Pk_script, w.PKScr) {
					kind = "script"
				} else if o.BlockHeight != whole.InBlock {
					kind = "height"
				} else if o.WasCoinbase != whole.Coinbase {
					kind = "coinbase"
				} else if o.VoutCount != uint32(len(whole.Outs)) {
					kind = "vout-count"
				}
			}
			if kind != "" {
				c.fail("one-vs-whole/"+cd.name+"/"+kind, fmt.Sprintf("OneUtxoRec%s(bytes,%d) differs from output %d of the whole decode (%s)", cd.name, v, v, kind), r, map[string]interface{}{"vout": v, "encoded": shortHex(b)})
			}
		}
	}
	stage = "free"
	utxo.Memory_Free(buf)
	utxo.Serialize, utxo.NewUtxoRecOwn, utxo.OneUtxoRec = utxo.SerializeU, utxo.NewUtxoRecOwnU, utxo.OneUtxoRecU
}

func (c *recChecker) checkScripts(r *rec) {
	for i, o := range r.Outs {
		if o == nil {
			continue
		}
		func() {
			defer func() {
				if e := recover(); e != nil {
					c.fail("panic/CompressScript/"+o.SFam, fmt.Sprintf("panic in CompressScript/DecompressScript: %v", e), r, map[string]interface{}{"vout": i})
				}
			}()
			cs := script.CompressScript(o.Scr)
			if cs == nil {
				c.st.Counts["script_stored_raw:"+famGroup(o.SFam)]++
				return
			}
			c.st.Counts["script_compressed:"+famGroup(o.SFam)]++
			if len(cs) == 0 || int(cs[0]) >= len(utxo.ComprScrLen) || len(cs) != utxo.ComprScrLen[cs[0]] {
				c.fail("compress-script-shape/"+o.SFam, fmt.Sprintf("CompressScript output %x does not fit the record format's length table", cs), r, map[string]interface{}{"vout": i})
				return
			}
			ds := script.DecompressScript(cs)
			if !bytes.Equal(ds, o.Scr) {
				c.fail(scriptDiffClass(o.SFam, o.Scr, ds, "CompressScript"), fmt.Sprintf("DecompressScript(CompressScript(s)) != s: got %s want %s", shortHex(ds), shortHex(o.Scr)), r, map[string]interface{}{"vout": i, "compressed": vlib.Hex(cs)})
			}
		}()
	}
}

func famGroup(sf string) string {
	if len(sf) > 10 && sf[:10] == "random-len" {
		return "random-len*"
	}
	return sf
}

func (c *recChecker) observe(r *rec) {
	h := r.hash()
	if _, ok := c.recSeen[h]; !ok && r.live() > 0 {
		c.recSeen[h] = struct{}{}
	}
	c.st.Counts["records:"+r.Fam]++
	c.add("n_outs", strconv.Itoa(len(r.Outs)))
	c.add("heights", strconv.FormatUint(uint64(r.H), 10))
	for i, o := range r.Outs {
		if o != nil {
			c.add("script_families", o.SFam)
			c.add("amount_families", o.AFam)
			c.add("script_lengths", strconv.Itoa(len(o.Scr)))
			if i >= 250 && i <= 256 || i >= 13100 {
				c.add("boundary_vouts", strconv.Itoa(i))
			}
			c.st.Counts["live_outputs"]++
		}
	}
}

func caseRand(seed uint64, idx int) *vlib.Rand {
	return vlib.NewRand(seed).Fork(fmt.Sprintf("rec/%d", idx))
}

func recChild(args []string) {
	seed, _ := strconv.ParseUint(args[0], 10, 64)
	shard, _ := strconv.Atoi(args[1])
	nshards, _ := strconv.Atoi(args[2])
	total, _ := strconv.Atoi(args[3])
	realloc := args[4] == "1"
	statsFile, journal := args[5], args[6]
	only := -1
	if len(args) > 7 {
		only, _ = strconv.Atoi(args[7])
	}
	if realloc {
		// as client/common/config.go does
		Memory := memory.NewAllocator()
		utxo.Memory_Malloc = Memory.Malloc
		utxo.Memory_Free = Memory.Free
	}
	g := newGen()
	c := &recChecker{st: newStats(), sets: map[string]setT{}, recSeen: map[[8]byte]struct{}{}, bigbuf: make([]byte, 4<<20),
		realloc: realloc, seed: seed, failSeen: map[string]int{}}
	jf, _ := os.OpenFile(journal, os.O_CREATE|os.O_WRONLY|os.O_TRUNC, 0o644)
	for idx := shard; idx < total; idx += nshards {
		if only >= 0 && idx != only {
			continue
		}
		fmt.Fprintf(jf, "%d\n", idx)
		c.idx = idx
		rr := caseRand(seed, idx)
		r := g.record(rr, idx)
		c.observe(r)
		c.checkScripts(r)
		for _, cd := range codecs {
			c.checkFormat(r, cd, rr)
		}
		c.st.Counts["record_cases"]++
		if len(c.st.Samples) < 2 && idx%100 == 50+shard%10 {
			c.st.Samples = append(c.st.Samples, r.describe())
		}
	}
	jf.Close()
	for s, m := range c.sets {
		for e := range m {
			c.st.Distinct[s] = append(c.st.Distinct[s], e)
		}
	}
	for h := range c.recSeen {
		c.st.RecHash = append(c.st.RecHash, vlib.Hex(h[:]))
	}
	c.st.Done = true
	b, _ := json.Marshal(c.st)
	os.WriteFile(statsFile, b, 0o644)
}

// ---------------------------------------------------------------------------------------------
// amount compressor child

func amtChild(args []string) {
	seed, _ := strconv.ParseUint(args[0], 10, 64)
	exh, _ := strconv.ParseUint(args[1], 10, 64)
	nrand, _ := strconv.Atoi(args[2])
	statsFile := args[3]
	st := newStats()
	seen := map[string]int{}
	fail := func(fam string, x, c, d uint64) {
		cls := "lossy-amount/" + fam
		seen[cls]++
		if seen[cls] <= 3 && len(st.Fails) < 40 {
			st.Fails = append(st.Fails, failure{cls, fmt.Sprintf("DecompressAmount(CompressAmount(%d)) = %d (compressed %d)", x, d, c),
				map[string]interface{}{"amount": x, "compressed": c, "decompressed": d}})
		}
	}
	for x := uint64(0); x < exh; x++ {
		c := btc.CompressAmount(x)
		if d := btc.DecompressAmount(c); d != x {
			fail("exhaustive<2^24", x, c, d)
		}
	}
	st.Counts["amount_exhaustive"] = int64(exh)
	// every power of ten and k*10^j+-1 exhaustively
	for j := 0; j < 16; j++ {
		for k := uint64(1); k <= 999; k++ {
			for dlt := -1; dlt <= 1; dlt++ {
				x := k*pow10[j] + uint64(dlt)
				if x > maxMoney {
					continue
				}
				c := btc.CompressAmount(x)
				if d := btc.DecompressAmount(c); d != x {
					fail("k*10^j+-1", x, c, d)
				}
				st.Counts["amount_k10j"]++
			}
		}
	}
	g := newGen()
	r := vlib.NewRand(seed).Fork("amounts")
	fams := setT{}
	for i := 0; i < nrand; i++ {
		x, fam := g.amount(r, i%nAmountFam)
		c := btc.CompressAmount(x)
		if d := btc.DecompressAmount(c); d != x {
			fail(fam, x, c, d)
		}
		if i < 200000 {
			fams[fam] = struct{}{}
		}
	}
	st.Counts["amount_random"] = int64(nrand)
	// beyond MAX_MONEY: outside the property's quantifier; observed, not judged
	for i := 0; i < 200000; i++ {
		x := r.U64()
		if x <= maxMoney {
			continue
		}
		if i%2 == 0 {
			x = maxMoney + 1 + x%(1<<60)
		}
		if btc.DecompressAmount(btc.CompressAmount(x)) != x {
			st.Counts["info_amount_above_21e14_not_lossless"]++
		} else {
			st.Counts["info_amount_above_21e14_lossless"]++
		}
	}
	for f := range fams {
		st.Distinct["amount_families"] = append(st.Distinct["amount_families"], f)
	}
	st.Done = true
	b, _ := json.Marshal(st)
	os.WriteFile(statsFile, b, 0o644)
}

func funcPtr(f interface{}) uintptr { return reflect.ValueOf(f).Pointer() }
