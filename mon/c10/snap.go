package main

// Part 2 of C10: snapshots. A deterministic plan of block changes is generated from a seed (the
// same function runs in the parent, which keeps the shadow model, and in the writer children, which
// apply the changes to the real UnspentDB). Every open of a data directory happens in a fresh
// child process.

import (
	"bufio"
	"bytes"
	"encoding/json"
	"fmt"
	"os"
	"path/filepath"
	"strings"
	"time"

	"github.com/piotrnar/gocoin/lib/btc"
	"github.com/piotrnar/gocoin/lib/others/memory"
	"github.com/piotrnar/gocoin/lib/utxo"
	"verif/lib/vlib"
)

type blk struct {
	Height uint32
	Hash   [32]byte
	Add    []*rec
	Del    map[[32]byte][]bool
	Undo   map[[32]byte]*rec
}

type state map[[32]byte]*rec

type plan struct {
	Blocks []blk
	States []state // States[i] = set after i blocks (States[0] = empty)
}

// genBulkPlan builds a snapshot of exactly nrec records, almost all tiny (1-2 outputs, short
// scripts), so that record counts around the loader's read-ahead pack (0x10000 records, 6 pools)
// and the saver's 64 KiB chunks / 100-chunk queue are cheap to reach. A handful of records are
// larger than one save chunk (0x10000), than the loader's bufio buffer (0x40000) and than both.
func genBulkPlan(seed uint64, nrec int, baseH uint32) *plan {
	r := vlib.NewRand(seed).Fork("bulk")
	g := newGen()
	p := &plan{}
	p.States = append(p.States, state{})
	cur := state{}
	keys := map[[8]byte]bool{}
	const extra = 40 // records that get fully spent again
	bigScripts := []int{65500, 66000, 70000, 131100, 262100, 262200, 300000}
	if nrec < len(bigScripts)+10 {
		bigScripts = nil
	}
	total := nrec + extra
	var order [][32]byte
	var twoOuts [][32]byte
	tiny := func() *rec {
		for {
			rc := &rec{Fam: "bulk-tiny", CB: r.Intn(16) == 0, H: baseH - uint32(r.Intn(int(baseH%1000)+1))}
			r.Fill(rc.TxID[:])
			var k8 [8]byte
			copy(k8[:], rc.TxID[:8])
			if keys[k8] {
				continue
			}
			keys[k8] = true
			n := 1
			if r.Intn(10) < 3 {
				n = 2 + r.Intn(2)
			}
			rc.Outs = make([]*out, n)
			for i := range rc.Outs {
				if i > 0 && r.Intn(4) == 0 {
					continue
				}
				var sc []byte
				var sf string
				switch k := r.Intn(10); {
				case k < 6:
					sc, sf = g.special(r, 0)
				case k < 8:
					sc, sf = g.special(r, 1)
				case k < 9:
					sc, sf = g.special(r, 22)
				default:
					sc, sf = r.Bytes(r.Intn(11)), "random-short"
				}
				rc.Outs[i] = g.newOut(r, sc, sf)
			}
			return rc
		}
	}
	nblocks := 4
	added := 0
	for b := 0; b < nblocks; b++ {
		bl := blk{Height: baseH + uint32(b), Del: map[[32]byte][]bool{}, Undo: map[[32]byte]*rec{}}
		r.Fill(bl.Hash[:])
		next := make(state, len(cur)+total/2)
		for k, v := range cur {
			next[k] = v
		}
		spend := func(id [32]byte, all bool) {
			old := next[id]
			if old == nil || bl.Del[id] != nil {
				return
			}
			del := make([]bool, len(old.Outs))
			und := &rec{TxID: old.TxID, CB: old.CB, H: old.H, Outs: make([]*out, len(old.Outs)), Fam: old.Fam}
			nw := &rec{TxID: old.TxID, CB: old.CB, H: old.H, Outs: make([]*out, len(old.Outs)), Fam: old.Fam}
			first := true
			for i, o := range old.Outs {
				if o == nil {
					continue
				}
				if all || first {
					del[i], und.Outs[i] = true, o
				} else {
					nw.Outs[i] = o
				}
				first = false
			}
			bl.Del[id], bl.Undo[id] = del, und
			if nw.live() == 0 {
				delete(next, id)
			} else {
				next[id] = nw
			}
		}
		if b == 2 {
			for i := 0; i < extra; i++ {
				spend(order[i*7%len(order)], true) // distinct while extra*7 < len(order)
			}
		}
		if b >= 2 {
			for i := 0; i < 200 && i < len(twoOuts); i++ {
				id := twoOuts[r.Intn(len(twoOuts))]
				if old := next[id]; old != nil && old.live() >= 2 {
					spend(id, false)
				}
			}
		}
		var na int
		switch b {
		case 0:
			na = total / 2
		case 1:
			na = total/2 - 100
		case 2:
			na = 50
		default:
			na = total - added
		}
		if na > total-added {
			na = total - added
		}
		for a := 0; a < na; a++ {
			var rc *rec
			if b == 1 && a%997 == 5 && len(bigScripts) > 0 {
				rc = tiny()
				rc.Fam = "bulk-big"
				l := bigScripts[0]
				bigScripts = bigScripts[1:]
				rc.Outs = []*out{g.newOut(r, r.Bytes(l), fmt.Sprintf("random-len%d", l))}
			} else if b == 1 && a == 11 && nrec > 5000 {
				rc = tiny()
				rc.Fam = "bulk-big"
				rc.Outs = make([]*out, 3000) // ~100 KB of small outputs in one record
				for i := range rc.Outs {
					sc, sf := g.special(r, 0)
					rc.Outs[i] = g.newOut(r, sc, sf)
				}
			} else {
				rc = tiny()
				if rc.live() >= 2 {
					twoOuts = append(twoOuts, rc.TxID)
				}
			}
			bl.Add = append(bl.Add, rc)
			next[rc.TxID] = rc
			order = append(order, rc.TxID)
			added++
		}
		p.Blocks = append(p.Blocks, bl)
		p.States = append(p.States, next)
		cur = next
	}
	return p
}

func makePlan(seed uint64, nrec int, baseH uint32, spendAll, bulk bool) *plan {
	if bulk {
		return genBulkPlan(seed, nrec, baseH)
	}
	return genPlan(seed, nrec, baseH, spendAll)
}

// genPlan builds ~nrec final records. spendAll empties the set again (snapshot with 0 records).
func genPlan(seed uint64, nrec int, baseH uint32, spendAll bool) *plan {
	r := vlib.NewRand(seed).Fork("plan")
	g := newGen()
	p := &plan{}
	cur := state{}
	p.States = append(p.States, state{})
	keys := map[[8]byte]bool{}
	nblocks := 2 + nrec/250
	if nblocks > 24 {
		nblocks = 24
	}
	toAdd := nrec + nrec/8 + 2
	if nrec == 0 && !spendAll {
		toAdd = 0
	}
	var order [][32]byte // insertion order for deterministic picking
	for b := 0; b < nblocks; b++ {
		bl := blk{Height: baseH + uint32(b), Del: map[[32]byte][]bool{}, Undo: map[[32]byte]*rec{}}
		r.Fill(bl.Hash[:])
		// spends first (of records existing before this block)
		nsp := 0
		if len(order) > 0 {
			nsp = len(order) / 6
			if b == nblocks-1 && spendAll {
				nsp = len(order)
			}
		}
		next := state{}
		for k, v := range cur {
			next[k] = v
		}
		picked := map[[32]byte]bool{}
		for s := 0; s < nsp; s++ {
			var id [32]byte
			if b == nblocks-1 && spendAll {
				id = order[s]
			} else {
				id = order[r.Intn(len(order))]
			}
			old, ok := next[id]
			if !ok || picked[id] || old.scriptBytes() > 400000 {
				continue
			}
			picked[id] = true
			del := make([]bool, len(old.Outs))
			und := &rec{TxID: old.TxID, CB: old.CB, H: old.H, Outs: make([]*out, len(old.Outs)), Fam: old.Fam}
			nw := &rec{TxID: old.TxID, CB: old.CB, H: old.H, Outs: make([]*out, len(old.Outs)), Fam: old.Fam}
			all := r.Intn(3) == 0 || (b == nblocks-1 && spendAll) || nrec <= 3 && !spendAll && r.Bool()
			any := false
			for i, o := range old.Outs {
				if o == nil {
					continue
				}
				if all || r.Intn(3) == 0 {
					del[i] = true
					und.Outs[i] = o
					any = true
				} else {
					nw.Outs[i] = o
				}
			}
			if !any {
				continue
			}
			bl.Del[id] = del
			bl.Undo[id] = und
			if nw.live() == 0 {
				delete(next, id)
			} else {
				next[id] = nw
			}
		}
		// additions
		na := toAdd / nblocks
		if b == 0 {
			na += toAdd % nblocks
		}
		if b == nblocks-1 && spendAll {
			na = 0
		}
		for a := 0; a < na; a++ {
			var rc *rec
			switch k := r.Intn(100); {
			case k < 60:
				rc = g.recordFam(r, famSmall, a)
			case k < 78:
				rc = g.recordFam(r, famSpecial, a)
			case k < 90:
				rc = g.recordFam(r, famAmounts, a)
			case k < 96:
				rc = g.recordFam(r, famScriptLen, a)
			case k < 99:
				rc = g.recordFam(r, famSparseBig, a)
			default:
				rc = g.recordFam(r, famDenseMedium, a)
			}
			var k8 [8]byte
			copy(k8[:], rc.TxID[:8])
			if keys[k8] {
				continue
			}
			keys[k8] = true
			bl.Add = append(bl.Add, rc)
			next[rc.TxID] = rc
			order = append(order, rc.TxID)
		}
		p.Blocks = append(p.Blocks, bl)
		p.States = append(p.States, next)
		cur = next
	}
	return p
}

// ---------------------------------------------------------------------------------------------
// children

type snapArgs struct {
	Bulk        bool
	Op          string // write | read | convert
	Dir         string
	Seed        uint64
	NRec        int
	BaseH       uint32
	SpendAll    bool
	A, B        int    // block range [A,B)
	Save        string // close | idle-close | idle-abort-exit | none
	K           int    // idle after K blocks (absolute index)
	M           int    // second idle after M blocks (idle-abort-exit)
	CompressOpt bool
	RealAlloc   bool
	Compress    bool // convert target
	Out         string
}

type dbCounters struct {
	TotalTxs, DataSize int // UnspentDB.GetUTXOSize(): totalTxs, dataSize
	MapCount, MapBytes int // recomputed from HashMap
}

func readCounters(db *utxo.UnspentDB) (c dbCounters) {
	c.DataSize, c.TotalTxs, _ = db.GetUTXOSize()
	for i := range db.HashMap {
		c.MapCount += len(db.HashMap[i])
		for _, v := range db.HashMap[i] {
			c.MapBytes += len(*v)
		}
	}
	return
}

type writerReport struct {
	Counters         dbCounters
	Applied          int
	UndoRedo         int // blocks disconnected and connected again
	IdleReturned     []bool
	SaveCompleted    []bool
	ComprFlag        bool
	SerializeIsC     bool
	DecoderIsC       bool
	LoadedHeight     uint32
	LoadedCompressed bool
	Converted        int
	Done             bool
	Err              string
}

func wireAlloc(real bool) {
	if real {
		Memory := memory.NewAllocator()
		utxo.Memory_Malloc = Memory.Malloc
		utxo.Memory_Free = Memory.Free
	}
}

// waitSave waits until the background save started by Idle() is complete *on disk*. save() clears
// WritingInProgress before its file goroutine has flushed, closed and renamed <hash>.db.tmp to
// UTXO.db (only Close() waits for that, through the unexported lastFileClosed), so the monitor also
// waits until UTXO.db is a new file (not the one seen before Idle) and no *.db.tmp is left.
// Otherwise the next save() finds no UTXO.db to rename to UTXO.old, and which files exist afterwards
// depends on goroutine scheduling.
func waitSave(db *utxo.UnspentDB, dir string, before os.FileInfo) bool {
	db.HurryUp()
	for i := 0; i < 120000; i++ {
		if !db.WritingInProgress.Get() {
			fi, err := os.Stat(dir + "UTXO.db")
			tmps, _ := filepath.Glob(dir + "*.db.tmp")
			if err == nil && len(tmps) == 0 && (before == nil || !os.SameFile(before, fi)) {
				return true
			}
		}
		time.Sleep(time.Millisecond)
	}
	return false
}

func snapChild(js string) {
	var a snapArgs
	if err := json.Unmarshal([]byte(js), &a); err != nil {
		fmt.Println("bad args", err)
		os.Exit(9)
	}
	wireAlloc(a.RealAlloc)
	switch a.Op {
	case "write":
		snapWrite(&a)
	case "read":
		snapRead(&a)
	case "convert":
		snapConvert(&a)
	}
}

func writeReport(a *snapArgs, rep *writerReport) {
	b, _ := json.Marshal(rep)
	os.WriteFile(a.Out, b, 0o644)
}

func snapWrite(a *snapArgs) {
	rep := &writerReport{}
	p := makePlan(a.Seed, a.NRec, a.BaseH, a.SpendAll, a.Bulk)
	db := utxo.NewUnspentDb(&utxo.NewUnspentOpts{Dir: a.Dir, CompressRecords: a.CompressOpt})
	rep.LoadedHeight = db.LastBlockHeight
	rep.LoadedCompressed = db.ComprssedUTXO
	for i := a.A; i < a.B && i < len(p.Blocks); i++ {
		bl := &p.Blocks[i]
		ch := &utxo.BlockChanges{Height: bl.Height, DeledTxs: map[[32]byte][]bool{}, UndoData: map[[32]byte]*utxo.UtxoRec{}}
		for k, v := range bl.Del {
			ch.DeledTxs[k] = append([]bool(nil), v...)
		}
		for k, v := range bl.Undo {
			ch.UndoData[k] = toUtxo(v)
		}
		for _, rc := range bl.Add {
			ch.AddList = append(ch.AddList, toUtxo(rc))
		}
		prevHash := make([]byte, 32)
		copy(prevHash, db.LastBlockHash)
		if e := db.CommitBlockTxs(ch, bl.Hash[:]); e != nil {
			rep.Err = "CommitBlockTxs: " + e.Error()
			writeReport(a, rep)
			os.Exit(5)
		}
		if (uint64(i)+a.Seed)%3 == 0 {
			// the block is disconnected again (what it created goes, what it spent comes back from the undo file and is
			// merged into what is left of partly spent records) and connected a second time: the stored records have to
			// be what they are after connecting it once
			ub := &btc.Block{}
			for _, rc := range bl.Add {
				tx := &btc.Tx{}
				tx.Hash.Hash = rc.TxID
				tx.TxOut = make([]*btc.TxOut, len(rc.Outs))
				ub.Txs = append(ub.Txs, tx)
			}
			db.UndoBlockTxs(ub, prevHash)
			ch2 := &utxo.BlockChanges{Height: bl.Height, DeledTxs: map[[32]byte][]bool{}, UndoData: map[[32]byte]*utxo.UtxoRec{}}
			for k, v := range bl.Del {
				ch2.DeledTxs[k] = append([]bool(nil), v...)
			}
			for k, v := range bl.Undo {
				ch2.UndoData[k] = toUtxo(v)
			}
			for _, rc := range bl.Add {
				ch2.AddList = append(ch2.AddList, toUtxo(rc))
			}
			if e := db.CommitBlockTxs(ch2, bl.Hash[:]); e != nil {
				rep.Err = "CommitBlockTxs (after undo): " + e.Error()
				writeReport(a, rep)
				os.Exit(5)
			}
			rep.UndoRedo++
		}
		rep.Applied++
		done := i + 1
		if (a.Save == "idle-close" || a.Save == "idle-abort-exit") && done == a.K {
			before, _ := os.Stat(a.Dir + "UTXO.db")
			ok := db.Idle()
			rep.IdleReturned = append(rep.IdleReturned, ok)
			if ok {
				rep.SaveCompleted = append(rep.SaveCompleted, waitSave(db, a.Dir, before))
			} else {
				rep.SaveCompleted = append(rep.SaveCompleted, false)
			}
		}
		if a.Save == "idle-abort-exit" && done == a.M {
			rep.IdleReturned = append(rep.IdleReturned, db.Idle())
			// no wait: the next commit aborts the save if it is still running
		}
	}
	rep.Counters = readCounters(db)
	rep.ComprFlag = db.ComprssedUTXO
	rep.SerializeIsC = funcPtr(utxo.Serialize) == funcPtr(utxo.SerializeC)
	rep.DecoderIsC = funcPtr(utxo.NewUtxoRecOwn) == funcPtr(utxo.NewUtxoRecOwnC)
	switch a.Save {
	case "idle-abort-exit":
		rep.Done = true
		writeReport(a, rep)
		os.Exit(0) // dies without Close
	case "none":
	default:
		db.Close()
	}
	rep.Done = true
	writeReport(a, rep)
}

// snapConvert re-serialises every record in the other format and saves, the way tools/utxo
// (package main, not importable) does it.
func snapConvert(a *snapArgs) {
	rep := &writerReport{}
	db := utxo.NewUnspentDb(&utxo.NewUnspentOpts{Dir: a.Dir})
	rep.LoadedHeight = db.LastBlockHeight
	rep.LoadedCompressed = db.ComprssedUTXO
	for i := range db.HashMap {
		for k, v := range db.HashMap[i] {
			var rc utxo.UtxoRec
			utxo.NewUtxoRecOwn(*v, &rc, nil)
			if a.Compress {
				db.HashMap[i][k] = utxo.SerializeC(&rc, nil)
			} else {
				db.HashMap[i][k] = utxo.SerializeU(&rc, nil)
			}
			utxo.Memory_Free(v)
			rep.Converted++
		}
	}
	db.ComprssedUTXO = a.Compress
	db.DirtyDB.Set()
	db.Close()
	rep.ComprFlag = db.ComprssedUTXO
	rep.Done = true
	writeReport(a, rep)
}

type dumpOut struct {
	V uint32 `json:"v"`
	A uint64 `json:"a"`
	S string `json:"s"`
}

type dumpRec struct {
	T     string    `json:"t"`
	C     bool      `json:"c"`
	H     uint32    `json:"h"`
	N     int       `json:"n"`
	O     []dumpOut `json:"o"`
	Panic string    `json:"panic,omitempty"`
	Raw   string    `json:"raw,omitempty"`
	One   string    `json:"one,omitempty"` // first mismatch between UnspentGet and the whole decode
	Key   string    `json:"k"`
}

type dumpHead struct {
	Height     uint32 `json:"height"`
	Hash       string `json:"hash"`
	Compressed bool   `json:"compressed"`
	Count      int    `json:"count"`
	DecoderIsC bool   `json:"decoder_is_c"`
	Lookups    int    `json:"lookups"`
	Counters   dbCounters
	Files      []string
}

func snapRead(a *snapArgs) {
	db := utxo.NewUnspentDb(&utxo.NewUnspentOpts{Dir: a.Dir})
	f, _ := os.Create(a.Out + ".tmp")
	w := bufio.NewWriterSize(f, 1<<20)
	enc := json.NewEncoder(w)
	head := dumpHead{Height: db.LastBlockHeight, Hash: vlib.Hex(db.LastBlockHash), Compressed: db.ComprssedUTXO,
		DecoderIsC: funcPtr(utxo.NewUtxoRecOwn) == funcPtr(utxo.NewUtxoRecOwnC)}
	var recs []dumpRec
	for i := range db.HashMap {
		for k, v := range db.HashMap[i] {
			head.Count++
			d := dumpRec{Key: vlib.Hex(k[:])}
			func() {
				defer func() {
					if e := recover(); e != nil {
						d.Panic = fmt.Sprint(e)
						d.Raw = shortHex(*v)
					}
				}()
				if len(*v) >= 32 {
					d.T = vlib.Hex((*v)[:32])
				}
				rc := utxo.NewUtxoRec(*v)
				d.T = vlib.Hex(rc.TxID[:])
				d.C, d.H, d.N = rc.Coinbase, rc.InBlock, len(rc.Outs)
				looked := 0
				for vo, o := range rc.Outs {
					if o != nil {
						d.O = append(d.O, dumpOut{uint32(vo), o.Value, vlib.Hex(o.PKScr)})
					}
					if looked < 40 || vo == len(rc.Outs)-1 || (vo >= 250 && vo <= 256) {
						looked++
						head.Lookups++
						got := db.UnspentGet(&btc.TxPrevOut{Hash: rc.TxID, Vout: uint32(vo)})
						if d.One == "" {
							switch {
							case o == nil && got != nil:
								d.One = fmt.Sprintf("vout %d: UnspentGet returns a spent output", vo)
							case o != nil && got == nil:
								d.One = fmt.Sprintf("vout %d: UnspentGet misses an unspent output", vo)
							case o != nil && (got.Value != o.Value || !bytes.Equal(got.Pk_script, o.PKScr) || got.BlockHeight != rc.InBlock || got.WasCoinbase != rc.Coinbase || got.VoutCount != uint32(len(rc.Outs))):
								d.One = fmt.Sprintf("vout %d: UnspentGet differs from the whole decode", vo)
							}
						}
					}
				}
			}()
			recs = append(recs, d)
		}
	}
	ents, _ := os.ReadDir(a.Dir)
	for _, e := range ents {
		head.Files = append(head.Files, e.Name())
	}
	head.Counters = readCounters(db)
	enc.Encode(&head)
	for i := range recs {
		enc.Encode(&recs[i])
	}
	w.Flush()
	f.Close()
	os.Rename(a.Out+".tmp", a.Out)
}

// ---------------------------------------------------------------------------------------------
// parent side

type snapRunner struct {
	run  *vlib.Run
	self string
}

func (s *snapRunner) child(a *snapArgs) (vlib.ChildResult, *writerReport) {
	js, _ := json.Marshal(a)
	res := vlib.RunChild(s.self, []string{"snap", string(js)}, []string{"GOTRACEBACK=all"}, nil, 10*time.Minute)
	var rep *writerReport
	if a.Op != "read" {
		if b, err := os.ReadFile(a.Out); err == nil {
			rep = &writerReport{}
			json.Unmarshal(b, rep)
		}
	}
	return res, rep
}

func loadDump(path string) (*dumpHead, map[string]*dumpRec, []*dumpRec, error) {
	f, err := os.Open(path)
	if err != nil {
		return nil, nil, nil, err
	}
	defer f.Close()
	dec := json.NewDecoder(bufio.NewReaderSize(f, 1<<20))
	var h dumpHead
	if err := dec.Decode(&h); err != nil {
		return nil, nil, nil, err
	}
	m := map[string]*dumpRec{}
	var bad []*dumpRec
	for {
		d := &dumpRec{}
		if err := dec.Decode(d); err != nil {
			break
		}
		if d.Panic != "" {
			bad = append(bad, d)
			continue
		}
		m[d.T] = d
	}
	return &h, m, bad, nil
}

func dumpToUtxo(d *dumpRec) *utxo.UtxoRec {
	u := &utxo.UtxoRec{Coinbase: d.C, InBlock: d.H, Outs: make([]*utxo.UtxoTxOut, d.N)}
	copy(u.TxID[:], vlib.UnHex(d.T))
	for _, o := range d.O {
		if int(o.V) < d.N {
			u.Outs[o.V] = &utxo.UtxoTxOut{Value: o.A, PKScr: vlib.UnHex(o.S)}
		}
	}
	return u
}

// compare judges one reopened directory against the model state expected for the header height.
// allowed: candidate block counts (index into plan.States); the header height selects which.
func (s *snapRunner) compare(sc *scenario, step string, p *plan, allowed []int, dumpPath string, wantCompressed int, codecMismatch bool) (ok bool) {
	run := s.run
	wit := func(extra map[string]interface{}) map[string]interface{} {
		w := map[string]interface{}{"scenario": sc, "step": step}
		for k, v := range extra {
			w[k] = v
		}
		return w
	}
	h, m, bad, err := loadDump(dumpPath)
	if err != nil {
		run.Violation("snapshot/reader-produced-no-dump/"+sc.Kind, "reader child produced no dump: "+err.Error(), wit(nil))
		return false
	}
	fm := "U"
	if h.Compressed {
		fm = "C"
	}
	where := "snapshot-" + fm
	if step == "reopen-converted-back" {
		where = "snapshot-U-converted-from-C" // plain records that went through the compressed format
	}
	if codecMismatch {
		// root cause observed directly in the writer: header flag says compressed, codec is plain
		if len(bad) > 0 || !s.equalQuiet(p.States[allowed[len(allowed)-1]], m) {
			run.Violation("snapshot/compress-option-on-fresh-db/compressed-flag-with-plain-records",
				"NewUnspentDb{CompressRecords:true} on a directory without UTXO.db sets the compressed flag but keeps the plain codec: UTXO.db is written with the compressed bit over plain records and is misread after restart",
				wit(map[string]interface{}{"records_panicking_on_decode": len(bad), "records_in_dump": len(m)}))
			return false
		}
	}
	// which state does the header claim?
	var exp state
	sel := -1
	for _, n := range allowed {
		var hh uint32
		var hash string
		if n == 0 {
			hh, hash = 0, ""
		} else {
			hh, hash = p.Blocks[n-1].Height, vlib.Hex(p.Blocks[n-1].Hash[:])
		}
		if h.Height == hh && (h.Hash == hash || n == 0) {
			exp, sel = p.States[n], n
		}
	}
	if sel < 0 {
		run.Violation("snapshot/header-height-or-hash/"+sc.Kind+"/"+step, fmt.Sprintf("reopened snapshot claims height %d hash %s which is none of the states it may hold %v", h.Height, h.Hash, allowed), wit(nil))
		return false
	}
	run.Count("snapshot_state_selected:"+sc.Kind+fmt.Sprintf(":%d/%d", indexOf(allowed, sel), len(allowed)), 1)
	ok = true
	if wantCompressed >= 0 && h.Compressed != (wantCompressed == 1) {
		run.Violation("snapshot/header-format-flag/"+sc.Kind+"/"+step, fmt.Sprintf("snapshot format flag compressed=%v, expected %v", h.Compressed, wantCompressed == 1), wit(nil))
		ok = false
	}
	if h.Compressed != h.DecoderIsC {
		run.Violation("snapshot/decoder-not-switched/"+fm, "after loading, the active decoder does not match the snapshot's format flag", wit(nil))
		ok = false
	}
	for _, d := range bad {
		run.Violation("snapshot/record-decode-panic/"+fm+"/"+sc.Kind, "decoding a reloaded record panics: "+d.Panic, wit(map[string]interface{}{"raw": d.Raw, "key": d.Key}))
		ok = false
	}
	if h.Count != len(m)+len(bad) {
		run.Violation("snapshot/duplicate-txid-in-map/"+fm, fmt.Sprintf("%d map entries but %d distinct txids", h.Count, len(m)), wit(nil))
		ok = false
	}
	nExtra := 0
	for t, d := range m {
		var id [32]byte
		copy(id[:], vlib.UnHex(t))
		if _, in := exp[id]; !in {
			nExtra++
			if nExtra <= 2 {
				run.Violation("snapshot/extra-record/"+fm+"/"+sc.Kind, "reloaded set contains a record that is not in the saved set: "+t, wit(map[string]interface{}{"dumped": d}))
			}
			ok = false
		}
	}
	nMissing := 0
	for id, r := range exp {
		d := m[vlib.Hex(id[:])]
		if d == nil {
			nMissing++
			if nMissing <= 2 {
				run.Violation("snapshot/missing-record/"+fm+"/"+sc.Kind, "record of the saved set is missing after reload", wit(map[string]interface{}{"record": r.describe()}))
			}
			ok = false
			continue
		}
		u := dumpToUtxo(d)
		for _, df := range cmpRec(r, u) {
			run.Violation(diffClass(r, u, df, where), fmt.Sprintf("snapshot (%s records) reload != saved: %s", fm, df.text), wit(map[string]interface{}{"record": r.describe()}))
			ok = false
		}
		if d.One != "" {
			run.Violation("snapshot/one-vs-whole/"+fm, "UnspentGet on the reloaded DB: "+d.One, wit(map[string]interface{}{"record": r.describe()}))
			ok = false
		}
		run.Count("snapshot_records_compared_"+fm, 1)
		run.Count("snapshot_outputs_compared_"+fm, int64(r.live()))
		for _, o := range r.Outs {
			if o != nil {
				run.Distinct("snapshot_script_families_"+fm, o.SFam)
			}
		}
	}
	// the DB's own bookkeeping after the reload against what is really in its maps
	if c := h.Counters; c.TotalTxs != c.MapCount {
		run.Violation("snapshot/counter-totalTxs-vs-map/"+fm, fmt.Sprintf("after reload totalTxs=%d but the maps hold %d records (saved set: %d)", c.TotalTxs, c.MapCount, len(exp)), wit(nil))
		ok = false
	} else if c.DataSize != c.MapBytes {
		run.Violation("snapshot/counter-dataSize-vs-map/"+fm, fmt.Sprintf("after reload dataSize=%d but the records in the maps total %d bytes", c.DataSize, c.MapBytes), wit(nil))
		ok = false
	}
	run.Count("snapshot_counter_checks", 1)
	run.Count("snapshot_lookups", int64(h.Lookups))
	run.Count("snapshot_reopens", 1)
	run.Count("snapshot_reopens_"+fm, 1)
	run.Distinct("snapshots", sc.Kind, sc.Seed, step, fm)
	run.Distinct("snapshot_sizes", len(exp))
	run.Distinct("snapshot_sizes_"+fm, len(exp))
	return ok
}

func indexOf(a []int, x int) int {
	for i, v := range a {
		if v == x {
			return i
		}
	}
	return -1
}

func (s *snapRunner) equalQuiet(exp state, m map[string]*dumpRec) bool {
	if len(exp) != len(m) {
		return false
	}
	for id, r := range exp {
		d := m[vlib.Hex(id[:])]
		if d == nil || len(cmpRec(r, dumpToUtxo(d))) > 0 {
			return false
		}
	}
	return true
}

type scenario struct {
	Kind       string
	Seed       uint64
	NRec       int
	BaseH      uint32
	SpendAll   bool
	RealAlloc  bool
	Bulk       bool
	OtherState int `json:"-"`
}

var scenarioKinds = []string{"A-plain-close", "A2-plain-two-sessions", "B-compress-option-fresh", "C-converted-compressed",
	"D-idle-then-close", "E-idle-abort-exit", "F-only-old-stray-tmp", "G-unreadable-db-good-old", "H-nothing-committed", "I-info-truncated-records-db-good-old", "K-bulk-plain", "L-bulk-compressed", "M-bulk-plain-idle-then-close"}

// generalKinds are run at many small/medium sizes; the bulk kinds (K, L, M) are scheduled explicitly.
var generalKinds = scenarioKinds[:10]

func (s *snapRunner) childFailed(sc *scenario, step string, res vlib.ChildResult, rep *writerReport) bool {
	if res.TimedOut {
		s.run.Inconclusive("snapshot child watchdog fired: %v %s", sc, step)
		return true
	}
	if res.ExitCode != 0 || (rep != nil && !rep.Done) {
		cls := "snapshot/child-died/" + sc.Kind + "/" + step
		s.run.Violation(cls, fmt.Sprintf("child process died (exit %d signal %s)", res.ExitCode, res.Signal),
			map[string]interface{}{"scenario": sc, "step": step, "output_tail": vlib.Tail(res.Out, 3000)})
		return true
	}
	return false
}

func (s *snapRunner) runScenario(sc *scenario) {
	run := s.run
	sc.OtherState = -1
	tmp, err := os.MkdirTemp("", "c10snap")
	if err != nil {
		run.Inconclusive("MkdirTemp: %v", err)
		return
	}
	defer os.RemoveAll(tmp)
	dir := tmp + "/db/"
	os.MkdirAll(dir, 0o755)
	p := makePlan(sc.Seed, sc.NRec, sc.BaseH, sc.SpendAll, sc.Bulk)
	nb := len(p.Blocks)
	if sc.Bulk && len(p.States[nb]) != sc.NRec {
		run.Inconclusive("bulk plan holds %d records instead of %d %v", len(p.States[nb]), sc.NRec, sc)
		return
	}
	base := snapArgs{Dir: dir, Seed: sc.Seed, NRec: sc.NRec, BaseH: sc.BaseH, SpendAll: sc.SpendAll, RealAlloc: sc.RealAlloc, Bulk: sc.Bulk}
	stepNo := 0
	write := func(step string, mod func(a *snapArgs)) (*writerReport, bool) {
		a := base
		a.Op = "write"
		a.Save = "close"
		stepNo++
		a.Out = fmt.Sprintf("%s/rep%d.json", tmp, stepNo)
		mod(&a)
		res, rep := s.child(&a)
		if s.childFailed(sc, step, res, rep) {
			return rep, false
		}
		if rep == nil {
			run.Inconclusive("no writer report %v %s", sc, step)
			return nil, false
		}
		// GetUTXOSize's statistics are maintained by commit only; UndoBlockTxs removes and restores records without
		// touching them (recorded as an observation, they are no part of what is stored), so the comparison is made
		// for sessions that disconnected nothing
		if rep.UndoRedo > 0 {
			if c := rep.Counters; c.TotalTxs != c.MapCount || c.DataSize != c.MapBytes {
				run.Inc("aux_size_statistics_drifted_after_undo")
			}
		} else if c := rep.Counters; c.TotalTxs != c.MapCount || c.DataSize != c.MapBytes {
			run.Violation("snapshot/counters-after-commit/"+sc.Kind, fmt.Sprintf("after CommitBlockTxs totalTxs=%d dataSize=%d but the maps hold %d records / %d bytes", c.TotalTxs, c.DataSize, c.MapCount, c.MapBytes),
				map[string]interface{}{"scenario": sc, "step": step})
		}
		run.Count("writer_counter_checks", 1)
		run.Count("blocks_disconnected_and_connected_again", int64(rep.UndoRedo))
		return rep, true
	}
	read := func(step string, allowed []int, wantC int, mismatch bool) bool {
		a := base
		a.Op = "read"
		stepNo++
		a.Out = fmt.Sprintf("%s/dump%d.json", tmp, stepNo)
		res, _ := s.child(&a)
		if res.TimedOut {
			run.Inconclusive("snapshot reader watchdog fired: %v %s", sc, step)
			return false
		}
		if res.ExitCode != 0 {
			cls := "snapshot/reader-died/" + sc.Kind + "/" + step
			if mismatch {
				cls = "snapshot/compress-option-on-fresh-db/compressed-flag-with-plain-records"
			}
			run.Violation(cls, fmt.Sprintf("process reopening the snapshot died (exit %d signal %s)", res.ExitCode, res.Signal),
				map[string]interface{}{"scenario": sc, "step": step, "output_tail": vlib.Tail(res.Out, 3000)})
			return false
		}
		return s.compare(sc, step, p, allowed, a.Out, wantC, mismatch)
	}
	convert := func(step string, toC bool) bool {
		a := base
		a.Op = "convert"
		a.Compress = toC
		stepNo++
		a.Out = fmt.Sprintf("%s/rep%d.json", tmp, stepNo)
		res, rep := s.child(&a)
		return !s.childFailed(sc, step, res, rep)
	}
	run.Count("snapshot_scenarios:"+sc.Kind, 1)

	switch sc.Kind {
	case "A-plain-close":
		if _, ok := write("write-all", func(a *snapArgs) { a.A, a.B = 0, nb }); ok {
			read("reopen", []int{nb}, 0, false)
		}
	case "A2-plain-two-sessions":
		h := nb / 2
		if _, ok := write("write-first-half", func(a *snapArgs) { a.A, a.B = 0, h }); !ok {
			return
		}
		if rep, ok := write("write-second-half", func(a *snapArgs) { a.A, a.B = h, nb }); ok {
			if h > 0 && rep.LoadedHeight != p.Blocks[h-1].Height {
				run.Violation("snapshot/header-height-or-hash/"+sc.Kind+"/second-session", fmt.Sprintf("second session loaded height %d, saved %d", rep.LoadedHeight, p.Blocks[h-1].Height), map[string]interface{}{"scenario": sc})
			}
			read("reopen", []int{nb}, 0, false)
		}
	case "B-compress-option-fresh":
		rep, ok := write("write-all-compress-option", func(a *snapArgs) { a.A, a.B = 0, nb; a.CompressOpt = true })
		if ok {
			mismatch := rep.ComprFlag && !rep.SerializeIsC
			if mismatch {
				run.Count("observed_compressed_flag_with_plain_codec", 1)
			}
			read("reopen", []int{nb}, 1, mismatch)
		}
	case "C-converted-compressed":
		h := nb / 2
		if _, ok := write("write-first-half", func(a *snapArgs) { a.A, a.B = 0, h }); !ok {
			return
		}
		if !convert("convert-to-compressed", true) {
			return
		}
		read("reopen-converted", []int{h}, 1, false)
		rep, ok := write("write-second-half-on-compressed", func(a *snapArgs) { a.A, a.B = h, nb })
		if !ok {
			return
		}
		if !rep.LoadedCompressed || !rep.SerializeIsC {
			run.Violation("snapshot/decoder-not-switched/C", "a compressed snapshot was loaded but the package codec was not switched to the compressed format", map[string]interface{}{"scenario": sc, "report": rep})
		}
		read("reopen-final-compressed", []int{nb}, 1, false)
		if !convert("convert-to-plain", false) {
			return
		}
		read("reopen-converted-back", []int{nb}, 0, false)
	case "D-idle-then-close":
		k := nb / 2
		if k < 1 {
			k = 1
		}
		rep, ok := write("write-idle-close", func(a *snapArgs) { a.A, a.B = 0, nb; a.Save = "idle-close"; a.K = k })
		if !ok {
			return
		}
		if len(rep.SaveCompleted) == 0 || !rep.SaveCompleted[0] {
			run.Inconclusive("background save was not observed complete on disk %v", sc)
			return
		}
		if len(rep.IdleReturned) == 0 || !rep.IdleReturned[0] {
			run.Count("idle_did_not_start_save", 1)
		}
		read("reopen", []int{nb}, 0, false)
		if k < nb {
			os.Remove(dir + "UTXO.db")
			read("reopen-from-UTXO.old", []int{k}, 0, false)
		}
	case "E-idle-abort-exit":
		k := nb / 3
		if k < 1 {
			k = 1
		}
		m := k + (nb-k)/2
		if m <= k {
			m = k + 1
		}
		if m >= nb {
			// too few blocks for this scenario shape
			run.Count("scenario_E_skipped_short_plan", 1)
			return
		}
		if rep, ok := write("write-idle-abort-exit", func(a *snapArgs) { a.A, a.B = 0, nb; a.Save = "idle-abort-exit"; a.K = k; a.M = m }); ok {
			if len(rep.SaveCompleted) == 0 || !rep.SaveCompleted[0] {
				run.Inconclusive("first background save was not observed complete on disk %v", sc)
				return
			}
			read("reopen-after-death", []int{k, m}, 0, false)
		}
	case "F-only-old-stray-tmp":
		if _, ok := write("write-all", func(a *snapArgs) { a.A, a.B = 0, nb }); !ok {
			return
		}
		os.Rename(dir+"UTXO.db", dir+"UTXO.old")
		os.WriteFile(dir+"00000000000000000000000000000000000000000000000000000000deadbeef.db.tmp", []byte("garbage left by a killed save"), 0o644)
		os.MkdirAll(dir+"undo", 0o755)
		os.WriteFile(dir+"undo/tmp", []byte("garbage"), 0o644)
		read("reopen-only-UTXO.old", []int{nb}, 0, false)
	case "G-unreadable-db-good-old", "I-info-truncated-records-db-good-old":
		k := nb / 2
		if k < 1 {
			k = 1
		}
		rep, ok := write("write-idle-close", func(a *snapArgs) { a.A, a.B = 0, nb; a.Save = "idle-close"; a.K = k })
		if !ok {
			return
		}
		if len(rep.SaveCompleted) == 0 || !rep.SaveCompleted[0] {
			run.Inconclusive("background save was not observed complete on disk %v", sc)
			return
		}
		fi, err := os.Stat(dir + "UTXO.db")
		if err != nil || fi.Size() < 49 {
			run.Count("scenario_G_skipped_no_records", 1)
			return
		}
		if _, err := os.Stat(dir + "UTXO.old"); err != nil {
			run.Count("scenario_G_skipped_no_old", 1)
			return
		}
		r := vlib.NewRand(sc.Seed).Fork("trunc")
		if sc.Kind == "G-unreadable-db-good-old" {
			// UTXO.db cut inside its 48-byte header: the loader must fall back to the intact UTXO.old
			os.Truncate(dir+"UTXO.db", int64(r.Intn(48)))
			read("reopen-db-cut-in-header", []int{k}, 0, false)
			return
		}
		// Informational only (fault injection beyond the property's quantifier): UTXO.db cut inside
		// the record area. Observed and counted, never judged.
		cut := int64(49) + int64(r.U64()%uint64(fi.Size()-49))
		os.Truncate(dir+"UTXO.db", cut)
		a := base
		a.Op = "read"
		a.Out = tmp + "/dumpinfo.json"
		js, _ := json.Marshal(&a)
		res := vlib.RunChild(s.self, []string{"snap", string(js)}, []string{"GOTRACEBACK=all"}, nil, 2*time.Minute)
		switch {
		case res.TimedOut:
			run.Count("info_truncated_records_UTXO.db:loader_hangs", 1)
		case res.ExitCode != 0 && strings.Contains(string(res.Out), "all goroutines are asleep"):
			run.Count("info_truncated_records_UTXO.db:loader_deadlocks", 1)
		case res.ExitCode != 0:
			run.Count("info_truncated_records_UTXO.db:loader_dies", 1)
		default:
			_, m, bad, err := loadDump(a.Out)
			if err == nil && len(bad) == 0 && s.equalQuiet(p.States[k], m) {
				run.Count("info_truncated_records_UTXO.db:fallback_to_old_exact", 1)
			} else {
				run.Count("info_truncated_records_UTXO.db:fallback_set_differs_from_old", 1)
			}
		}
	case "K-bulk-plain", "L-bulk-compressed":
		wantC := 0
		if sc.Kind == "L-bulk-compressed" {
			wantC = 1
		}
		if _, ok := write("write-all", func(a *snapArgs) { a.A, a.B = 0, nb; a.CompressOpt = wantC == 1 }); ok {
			read("reopen", []int{nb}, wantC, false)
		}
	case "M-bulk-plain-idle-then-close":
		// background (paced, chunk-queued) save of a large set, then a second save on Close
		rep, ok := write("write-idle-close", func(a *snapArgs) { a.A, a.B = 0, nb; a.Save = "idle-close"; a.K = nb - 1 })
		if !ok {
			return
		}
		if len(rep.SaveCompleted) == 0 || !rep.SaveCompleted[0] {
			run.Inconclusive("background save was not observed complete on disk %v", sc)
			return
		}
		read("reopen", []int{nb}, 0, false)
		os.Remove(dir + "UTXO.db")
		read("reopen-from-UTXO.old", []int{nb - 1}, 0, false)
	case "H-nothing-committed":
		if _, ok := write("open-close", func(a *snapArgs) { a.A, a.B = 0, 0 }); ok {
			read("reopen", []int{0}, -1, false)
		}
	}
}

func replaySnapshot(run *vlib.Run, self string, w map[string]interface{}) {
	b, _ := json.Marshal(w["scenario"])
	var sc scenario
	json.Unmarshal(b, &sc)
	if !strings.Contains(strings.Join(scenarioKinds, " "), sc.Kind) || sc.Kind == "" {
		fmt.Println("replay: witness holds no scenario")
		return
	}
	(&snapRunner{run, self}).runScenario(&sc)
}
