// C10 — UTXO records and snapshot files are lossless.
//
// Part 1 (records): generated records (1..30001 outputs, sparse survivors, scripts at every
// CompactSize boundary and at the compressed-length escape, P2PKH/P2SH/P2PK forms and look-alikes,
// amounts 0..21e14 with the compressor's digit patterns, boundary heights and vouts) are stored with
// SerializeU / SerializeC and read back through every decoder entry point; decode(encode(r)) must be
// deeply equal to r, every decoder path must agree, OneUtxoRec(bytes, v) must equal output v of the
// whole decode. CompressScript/DecompressScript and CompressAmount/DecompressAmount are also driven
// directly (amounts exhaustively below 2^24). Runs in child workers (journal before each case), one
// of them with the real lib/others/memory allocator wired as client/common/config.go does.
// Part 2 (snapshots): UnspentDB filled through CommitBlockTxs from a generated plan, saved via
// Close / Idle, reopened in fresh child processes, dumped and compared with the shadow model; plain
// and compressed records, UTXO.db / UTXO.old / *.db.tmp handling.
// Oracle: deep equality with the generated record (no reference codec).
package main

import (
	"encoding/json"
	"fmt"
	"os"
	"strconv"
	"strings"
	"sync"
	"time"

	"verif/lib/vlib"
)

func mergeStats(run *vlib.Run, st *childStats) {
	for k, v := range st.Counts {
		run.Count(k, v)
	}
	for s, els := range st.Distinct {
		for _, e := range els {
			run.Distinct(s, e)
		}
	}
	for _, h := range st.RecHash {
		run.DistinctBytes("records", []byte(h))
	}
	for _, f := range st.Fails {
		run.Violation(f.Class, f.What, f.Witness)
	}
	for _, s := range st.Samples {
		run.Sample(s)
	}
}

func readStats(path string) *childStats {
	b, err := os.ReadFile(path)
	if err != nil {
		return nil
	}
	st := &childStats{}
	if json.Unmarshal(b, st) != nil {
		return nil
	}
	return st
}

func lastLine(path string) string {
	b, _ := os.ReadFile(path)
	ls := strings.Split(strings.TrimSpace(string(b)), "\n")
	return ls[len(ls)-1]
}

func main() {
	if len(os.Args) > 2 {
		switch os.Args[1] {
		case "rec":
			recChild(os.Args[2:])
			return
		case "amt":
			amtChild(os.Args[2:])
			return
		case "snap":
			snapChild(os.Args[2])
			return
		}
	}
	run := vlib.Start("C10", "exploration")
	self, _ := os.Executable()

	// calibration of the generator-side curve helper (a wrong helper would mislabel key families)
	if err := calibrateCurve(); err != nil {
		fmt.Println("BROKEN property=C10 calibration:", err)
		os.Exit(2)
	}
	g := newGen()
	if len(g.smallX) == 0 || len(g.tinyY) == 0 {
		fmt.Println("BROKEN property=C10 calibration: no small-coordinate curve points found")
		os.Exit(2)
	}
	for _, p := range append(append([]pt{}, g.smallX...), g.tinyY...) {
		if !onCurve(p.x, p.y) {
			fmt.Println("BROKEN property=C10 calibration: pool point off curve")
			os.Exit(2)
		}
	}
	// amount compressor vectors of Bitcoin Core's compress_tests (checks the input chooser only)
	for _, v := range [][2]uint64{{0, 0}, {1, 1}, {1000000, 7}, {100000000, 9}, {5000000000, 0x32}, {2100000000000000, 0x1406f40}} {
		if specCompress(v[0]) != v[1] {
			fmt.Println("BROKEN property=C10 calibration: amount pattern chooser disagrees with published vectors")
			os.Exit(2)
		}
	}

	tmp, err := os.MkdirTemp("", "c10")
	if err != nil {
		fmt.Println("BROKEN property=C10 MkdirTemp:", err)
		os.Exit(2)
	}
	defer os.RemoveAll(tmp)

	// --replay <file>
	for i, a := range os.Args {
		if a == "--replay" && i+1 < len(os.Args) {
			replay(run, self, tmp, os.Args[i+1])
			os.RemoveAll(tmp)
			run.Count("replay_evaluations", run.Get("record_cases")+run.Get("snapshot_reopens"))
			run.Finish("replay of one witness", "replay_evaluations", "records", 0)
		}
	}

	seed := uint64(run.Seed)
	total := run.N(120000, 5000000)
	nshards := run.N(12, 64)
	var jobs []func()
	var mu sync.Mutex

	// ---- record shards
	for sh := 0; sh < nshards; sh++ {
		sh := sh
		jobs = append(jobs, func() {
			sf := fmt.Sprintf("%s/rec%d.json", tmp, sh)
			jf := fmt.Sprintf("%s/rec%d.journal", tmp, sh)
			realloc := "0"
			if sh == 1 || sh%8 == 5 {
				realloc = "1"
			}
			args := []string{"rec", fmt.Sprint(seed), fmt.Sprint(sh), fmt.Sprint(nshards), fmt.Sprint(total), realloc, sf, jf}
			res := vlib.RunChild(self, args, []string{"GOTRACEBACK=all"}, nil, 60*time.Minute)
			mu.Lock()
			defer mu.Unlock()
			if res.TimedOut {
				run.Inconclusive("record worker %d watchdog fired", sh)
				return
			}
			st := readStats(sf)
			if res.ExitCode != 0 || st == nil || !st.Done {
				idx, _ := strconv.Atoi(lastLine(jf))
				w := map[string]interface{}{"args": args, "case_seed": seed, "case_idx": idx, "output_tail": vlib.Tail(res.Out, 3000)}
				fam := "?"
				func() {
					defer func() { recover() }()
					r := g.record(caseRand(seed, idx), idx)
					w["record"] = r.describe()
					fam = r.Fam
				}()
				run.Violation("record-worker-died/"+fam, fmt.Sprintf("worker died (exit %d signal %s) on journaled case %d", res.ExitCode, res.Signal, idx), w)
				return
			}
			if realloc == "1" {
				run.Count("record_cases_with_real_allocator", st.Counts["record_cases"])
			}
			run.Count("record_workers_ok", 1)
			mergeStats(run, st)
		})
	}
	// ---- amount compressor
	jobs = append(jobs, func() {
		sf := tmp + "/amt.json"
		args := []string{"amt", fmt.Sprint(seed), fmt.Sprint(run.N(1<<24, 1<<30)), fmt.Sprint(run.N(10000000, 200000000)), sf}
		res := vlib.RunChild(self, args, []string{"GOTRACEBACK=all"}, nil, 60*time.Minute)
		mu.Lock()
		defer mu.Unlock()
		if res.TimedOut {
			run.Inconclusive("amount worker watchdog fired")
			return
		}
		st := readStats(sf)
		if res.ExitCode != 0 || st == nil || !st.Done {
			run.Violation("amount-worker-died", fmt.Sprintf("amount worker died (exit %d signal %s)", res.ExitCode, res.Signal), map[string]interface{}{"args": args, "output_tail": vlib.Tail(res.Out, 3000)})
			return
		}
		mergeStats(run, st)
	})
	// ---- snapshots
	sr := &snapRunner{run, self}
	rs := run.Rand("snapshots")
	sizes := []int{0, 1, 2, 3, 40, 255, 256, 257, 700, 1500, 3000, 5000}
	bases := []uint32{1, 2, 1000, 70000, 800000, 0x7fffffe0, 0xffffff00}
	var scs []*scenario
	if !run.Thorough() {
		// every kind with small / medium / large sets, sizes rotated by seed
		for ki, kind := range generalKinds {
			reps := 4
			if kind == "C-converted-compressed" {
				reps = 6
			}
			if kind == "H-nothing-committed" || strings.HasPrefix(kind, "I-") {
				reps = 1
			}
			for k := 0; k < reps; k++ {
				n := sizes[(ki*3+k*5+int(run.Seed))%len(sizes)]
				if k == 1 {
					n = rs.Intn(5001)
				}
				if k == 2 && (kind == "A-plain-close" || kind == "C-converted-compressed") {
					n = 5000
				}
				if (strings.HasPrefix(kind, "G-") || strings.HasPrefix(kind, "I-") || kind == "E-idle-abort-exit" || kind == "D-idle-then-close") && n < 300 {
					n = 300 + rs.Intn(1500)
				}
				scs = append(scs, &scenario{Kind: kind, Seed: rs.U64(), NRec: n, BaseH: bases[rs.Intn(len(bases))], SpendAll: rs.Intn(8) == 0, RealAlloc: rs.Intn(3) == 0})
			}
		}
		scs = append(scs, &scenario{Kind: "A-plain-close", Seed: rs.U64(), NRec: 0, BaseH: 5, SpendAll: true})
		scs = append(scs, &scenario{Kind: "C-converted-compressed", Seed: rs.U64(), NRec: 0, BaseH: 5, SpendAll: true})
		scs = append(scs, &scenario{Kind: "A-plain-close", Seed: rs.U64(), NRec: 1, BaseH: 1})
	} else {
		for i := 0; i < 1000; i++ {
			n := rs.Intn(5001)
			if i%4 == 0 {
				n = sizes[rs.Intn(len(sizes))]
			}
			scs = append(scs, &scenario{Kind: generalKinds[i%len(generalKinds)], Seed: rs.U64(), NRec: n, BaseH: bases[rs.Intn(len(bases))], SpendAll: rs.Intn(8) == 0, RealAlloc: rs.Intn(3) == 0})
		}
	}
	// size-dependent loader/saver paths: record counts around the loader's 0x10000-record packs (6
	// pools) and the saver's 64 KiB chunks, tiny records plus a few larger than the chunk / bufio sizes
	bulk := func(kind string, n int) {
		scs = append(scs, &scenario{Kind: kind, Seed: rs.U64(), NRec: n, BaseH: 800000, Bulk: true, RealAlloc: rs.Intn(4) == 0})
	}
	if !run.Thorough() {
		kl := []string{"K-bulk-plain", "L-bulk-compressed"}
		bulk(kl[run.Seed&1], 65537)
		bulk(kl[1-run.Seed&1], 131073)
	} else {
		for _, n := range []int{65535, 65536, 65537, 131071, 131072, 131073, 196609, 6*65536 + 5} {
			bulk("K-bulk-plain", n)
			bulk("L-bulk-compressed", n)
		}
		bulk("M-bulk-plain-idle-then-close", 131073)
		bulk("M-bulk-plain-idle-then-close", 65536)
	}
	// bulk scenarios first: they are the longest jobs
	for i := len(scs) - 1; i >= 0; i-- {
		if scs[i].Bulk {
			sc := scs[i]
			jobs = append([]func(){func() { sr.runScenario(sc) }}, jobs...)
		}
	}
	for _, sc := range scs {
		sc := sc
		if sc.Bulk {
			continue
		}
		jobs = append(jobs, func() { sr.runScenario(sc) })
	}
	run.Extra("snapshot_scenarios", len(scs))

	vlib.Parallel(len(jobs), 14, func(i int) { jobs[i]() })

	if run.Get("record_workers_ok") < int64(nshards) && run.Violations() == 0 {
		run.Inconclusive("only %d of %d record workers finished", run.Get("record_workers_ok"), nshards)
	}
	if run.Get("snapshot_reopens_C") == 0 || run.Get("snapshot_reopens_U") == 0 {
		run.Inconclusive("a snapshot format was never reopened (U=%d C=%d)", run.Get("snapshot_reopens_U"), run.Get("snapshot_reopens_C"))
	}
	run.Count("evaluations_total", run.Get("roundtrips_U")+run.Get("roundtrips_C")+run.Get("snapshot_records_compared_U")+run.Get("snapshot_records_compared_C"))
	run.Assume("TxIDs of one snapshot differ in their first 8 bytes (the DB key); colliding keys are outside the property")
	run.Assume("amounts above 21e14 are outside the property's quantifier: observed (info_* counters), not judged")
	run.Assume("UTXO_PURGE_UNSPENDABLE stays at the library default (false)")
	run.Assume("format conversion of a snapshot re-implements the 10-line loop of tools/utxo/compress.go (package main cannot be imported)")
	os.RemoveAll(tmp)
	minD := run.N(50000, 2000000)
	if run.Get("snapshot_reopens") < int64(run.N(20, 1000)) && run.Violations() == 0 {
		run.Inconclusive("only %d snapshot reopens observed", run.Get("snapshot_reopens"))
		minD = 1 << 40 // exit 2: observed too little
	}
	run.Finish("each evaluation = one record stored and read back in one format (record part) or one record compared after a snapshot reload in a fresh process; distinct_nontrivial = distinct generated records with at least one unspent output that were round-tripped in both formats",
		"evaluations_total", "records", minD)
}

// replay re-executes the case of a witness file.
func replay(run *vlib.Run, self, tmp, path string) {
	b, err := os.ReadFile(path)
	if err != nil {
		fmt.Println("replay:", err)
		os.Exit(2)
	}
	var doc struct {
		Witness map[string]interface{} `json:"witness"`
		Tier    string                 `json:"tier"`
	}
	json.Unmarshal(b, &doc)
	w := doc.Witness
	if _, ok := w["scenario"]; ok {
		replaySnapshot(run, self, w)
		return
	}
	if idx, ok := w["case_idx"].(float64); ok {
		seed := uint64(w["case_seed"].(float64))
		ra := "0"
		if v, _ := w["real_allocator"].(bool); v {
			ra = "1"
		}
		sf, jf := tmp+"/r.json", tmp+"/r.journal"
		res := vlib.RunChild(self, []string{"rec", fmt.Sprint(seed), "0", "1", fmt.Sprint(int(idx) + 1), ra, sf, jf, fmt.Sprint(int(idx))}, nil, nil, 10*time.Minute)
		st := readStats(sf)
		if st == nil || !st.Done {
			run.Violation("record-worker-died/replay", "worker died in replay", map[string]interface{}{"output_tail": vlib.Tail(res.Out, 3000)})
			return
		}
		mergeStats(run, st)
		return
	}
	if a, ok := w["amount"].(float64); ok {
		fmt.Printf("replay: amount witness %d: run `go test`-style by hand: DecompressAmount(CompressAmount(x))\n", uint64(a))
		return
	}
	fmt.Println("replay: unrecognised witness")
}
