// C05 — blocks violating header, structure or commitment rules are never accepted (see mon/rulesmon).
package main

import "verif/mon/rulesmon"

func main() { rulesmon.Main("C05") }
