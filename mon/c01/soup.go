package main

import (
	"verif/ref/refscript"
)

// Opcode soup: random programs over the whole opcode alphabet. The generator is steered by the
// reference interpreter (it looks at the stack the program prefix leaves behind, to bias towards
// programs that survive), and it usually ends the program by pinning the final stack contents with
// <value> EQUALVERIFY checks so that any divergence in a computed value flips the verdict.

var numEdges = []int64{0, 1, -1, 2, 16, 17, -16, 127, 128, -127, -128, 255, 256, 32767, 32768, -32768, 65535, 8388607, 8388608,
	2147483647, -2147483647, 2147483646, 2147483648, -2147483648, 4294967295}

var rawNumEdges = [][]byte{{}, {0x80}, {0x00}, {0x00, 0x80}, {0x01, 0x00}, {0xff, 0xff, 0xff, 0xff}, {0xff, 0xff, 0xff, 0x7f}, {0x00, 0x00, 0x00, 0x80, 0x00},
	{0x00, 0x00, 0x00, 0x00, 0x80}, {0x01, 0x00, 0x00, 0x00, 0x00}, {0xff, 0xff, 0xff, 0xff, 0x7f}}

type soupState struct {
	stack [][]byte
	alt   int
	cond  int
	exec  bool
	ops   int
	err   refscript.ScriptError
	dead  bool // failed with something else than an open conditional
}

type souper struct {
	g      *gctx
	sigver string // base | witness_v0 | tapscript
	flags  uint32
	init   [][]byte
	prog   []byte
}

func (s *souper) eval(prog []byte) soupState {
	tr := &refscript.Trace{}
	e := refscript.EvalForGenerator(s.init, prog, s.flags, s.sigver, tr)
	st := soupState{err: e}
	if e == refscript.ErrOK || (e == refscript.ErrUnbalancedConditional && tr.LastCondDepth > 0) {
		st.stack, st.alt, st.cond, st.exec, st.ops = tr.LastStack, tr.LastAltDepth, tr.LastCondDepth, tr.LastExec, tr.LastOps
		return st
	}
	st.dead = true
	return st
}

func isNum(b []byte) bool { return len(b) <= 4 }

func (s *souper) pushRandom() []byte {
	r := s.g.r
	switch r.Intn(12) {
	case 0, 1, 2, 3:
		return pushN(numEdges[r.Intn(len(numEdges))])
	case 4:
		return pushMinimal(rawNumEdges[r.Intn(len(rawNumEdges))])
	case 5:
		return push(rawNumEdges[r.Intn(len(rawNumEdges))]) // possibly non-minimal push of small values
	case 6:
		return pushN(int64(r.Intn(20)) - 2)
	case 7:
		return push(r.Bytes(r.Intn(9)))
	case 8:
		return push(r.Bytes([]int{20, 32, 33, 64, 65, 75, 76, 80}[r.Intn(8)]))
	case 9:
		if r.Chance(1, 4) {
			return pushWith(refscript.OP_PUSHDATA2, r.Bytes([]int{255, 256, 519, 520}[r.Intn(4)]))
		}
		return pushWith([]byte{refscript.OP_PUSHDATA1, refscript.OP_PUSHDATA2, refscript.OP_PUSHDATA4}[r.Intn(3)], r.Bytes(r.Intn(6)))
	case 10:
		return []byte{refscript.OP_1NEGATE}
	}
	return []byte{byte(refscript.OP_1 + r.Intn(16))}
}

var unaryNum = []byte{refscript.OP_1ADD, refscript.OP_1SUB, refscript.OP_NEGATE, refscript.OP_ABS, refscript.OP_NOT, refscript.OP_0NOTEQUAL}
var binaryNum = []byte{refscript.OP_ADD, refscript.OP_SUB, refscript.OP_BOOLAND, refscript.OP_BOOLOR, refscript.OP_NUMEQUAL, refscript.OP_NUMNOTEQUAL,
	refscript.OP_LESSTHAN, refscript.OP_GREATERTHAN, refscript.OP_LESSTHANOREQUAL, refscript.OP_GREATERTHANOREQUAL, refscript.OP_MIN, refscript.OP_MAX}
var hashOps = []byte{refscript.OP_RIPEMD160, refscript.OP_SHA1, refscript.OP_SHA256, refscript.OP_HASH160, refscript.OP_HASH256}
var nopOps = []byte{refscript.OP_NOP, refscript.OP_NOP1, refscript.OP_NOP4, refscript.OP_NOP5, refscript.OP_NOP6, refscript.OP_NOP7, refscript.OP_NOP8, refscript.OP_NOP9, refscript.OP_NOP10}
var killOps = []byte{refscript.OP_RETURN, refscript.OP_RESERVED, refscript.OP_VER, refscript.OP_VERIF, refscript.OP_VERNOTIF, refscript.OP_RESERVED1, refscript.OP_RESERVED2,
	refscript.OP_CAT, refscript.OP_SUBSTR, refscript.OP_LEFT, refscript.OP_RIGHT, refscript.OP_INVERT, refscript.OP_AND, refscript.OP_OR, refscript.OP_XOR, refscript.OP_2MUL,
	refscript.OP_2DIV, refscript.OP_MUL, refscript.OP_DIV, refscript.OP_MOD, refscript.OP_LSHIFT, refscript.OP_RSHIFT, refscript.OP_CHECKSIGADD, 0xbb, 0xc0, 0xfe, 0xff}

// step proposes the next fragment given the current state.
func (s *souper) step(st soupState) []byte {
	r := s.g.r
	d := len(st.stack)
	if !st.exec {
		// inside an unexecuted branch: anything parses, only IF..ENDIF are interpreted
		switch r.Intn(10) {
		case 0:
			return []byte{refscript.OP_ENDIF}
		case 1:
			return []byte{refscript.OP_ELSE}
		case 2:
			return []byte{[]byte{refscript.OP_IF, refscript.OP_NOTIF}[r.Intn(2)]}
		case 3:
			return []byte{killOps[r.Intn(len(killOps))]}
		case 4:
			return []byte{byte(r.Intn(256))}
		case 5:
			return s.pushRandom()
		case 6:
			return []byte{refscript.OP_CODESEPARATOR}
		case 7:
			return []byte{refscript.OP_CHECKMULTISIG}
		}
		return []byte{byte(0x61 + r.Intn(0x59))}
	}
	top := func(i int) []byte { return st.stack[d-1-i] }
	for try := 0; try < 20; try++ {
		switch r.Intn(30) {
		case 0, 1, 2, 3:
			return s.pushRandom()
		case 4:
			if d >= 1 && isNum(top(0)) {
				return []byte{unaryNum[r.Intn(len(unaryNum))]}
			}
		case 5, 6:
			if d >= 2 && isNum(top(0)) && isNum(top(1)) {
				return []byte{binaryNum[r.Intn(len(binaryNum))]}
			}
			return cat(pushN(numEdges[r.Intn(len(numEdges))]), pushN(numEdges[r.Intn(len(numEdges))]), []byte{binaryNum[r.Intn(len(binaryNum))]})
		case 7:
			if d >= 3 && isNum(top(0)) && isNum(top(1)) && isNum(top(2)) {
				return []byte{refscript.OP_WITHIN}
			}
		case 8:
			ops := []struct {
				op   byte
				need int
			}{{refscript.OP_2DROP, 2}, {refscript.OP_2DUP, 2}, {refscript.OP_3DUP, 3}, {refscript.OP_2OVER, 4}, {refscript.OP_2ROT, 6}, {refscript.OP_2SWAP, 4},
				{refscript.OP_IFDUP, 1}, {refscript.OP_DEPTH, 0}, {refscript.OP_DROP, 1}, {refscript.OP_DUP, 1}, {refscript.OP_NIP, 2}, {refscript.OP_OVER, 2},
				{refscript.OP_ROT, 3}, {refscript.OP_SWAP, 2}, {refscript.OP_TUCK, 2}, {refscript.OP_SIZE, 1}}
			o := ops[r.Intn(len(ops))]
			if d >= o.need || r.Chance(1, 30) {
				return []byte{o.op}
			}
		case 9, 10:
			o := ops9[r.Intn(len(ops9))]
			if d >= o.need {
				return []byte{o.op}
			}
		case 11:
			if d >= 1 {
				n := int64(r.Intn(d))
				switch r.Intn(12) {
				case 0:
					n = int64(d) // one too far
				case 1:
					n = -1
				case 2:
					n = int64(d) - 1
				case 3:
					n = 0
				}
				return cat(pushN(n), []byte{[]byte{refscript.OP_PICK, refscript.OP_ROLL}[r.Intn(2)]})
			}
		case 12:
			if d >= 1 {
				return []byte{hashOps[r.Intn(len(hashOps))]}
			}
		case 13:
			if d >= 1 {
				if r.Chance(2, 3) {
					return []byte{refscript.OP_DUP, []byte{refscript.OP_EQUAL, refscript.OP_EQUALVERIFY}[r.Intn(2)]}
				}
				if d >= 2 {
					return []byte{refscript.OP_EQUAL}
				}
			}
		case 14:
			if d >= 1 && len(top(0)) > 0 && r.Chance(1, 2) {
				return []byte{refscript.OP_VERIFY}
			}
			return []byte{refscript.OP_1, refscript.OP_VERIFY}
		case 15:
			if d >= 1 {
				return []byte{refscript.OP_TOALTSTACK}
			}
		case 16:
			if st.alt >= 1 || r.Chance(1, 40) {
				return []byte{refscript.OP_FROMALTSTACK}
			}
		case 17, 18:
			// conditionals: provide a minimal operand most of the time
			op := []byte{refscript.OP_IF, refscript.OP_NOTIF}[r.Intn(2)]
			switch r.Intn(8) {
			case 0:
				if d >= 1 {
					return []byte{op} // whatever is on the stack
				}
			case 1:
				return cat(push([][]byte{{2}, {0}, {1, 0}, {0x80}, {0, 1}}[r.Intn(5)]), []byte{op})
			}
			return []byte{byte([]int{refscript.OP_0, refscript.OP_1}[r.Intn(2)]), op}
		case 19:
			if st.cond > 0 {
				return []byte{[]byte{refscript.OP_ELSE, refscript.OP_ENDIF, refscript.OP_ENDIF}[r.Intn(3)]}
			}
			if r.Chance(1, 40) {
				return []byte{[]byte{refscript.OP_ELSE, refscript.OP_ENDIF}[r.Intn(2)]}
			}
		case 20:
			return []byte{nopOps[r.Intn(len(nopOps))]}
		case 21:
			// CLTV / CSV with an operand
			op := []byte{refscript.OP_CHECKLOCKTIMEVERIFY, refscript.OP_CHECKSEQUENCEVERIFY}[r.Intn(2)]
			var operand []byte
			switch r.Intn(5) {
			case 0:
				operand = pushN(0)
			case 1:
				operand = pushN(numEdges[r.Intn(len(numEdges))])
			case 2:
				operand = push(rawNumEdges[r.Intn(len(rawNumEdges))])
			case 3:
				operand = pushN(int64(1)<<31 | int64(r.Intn(100)))
			case 4:
				operand = nil
			}
			return cat(operand, []byte{op})
		case 22:
			// signature checks with junk: empty signature => false; junk signature => flag dependent
			k := s.g.key()
			pub := k.comp
			if s.sigver == "tapscript" {
				pub = k.xonly
			}
			sig := []byte{}
			if r.Chance(1, 4) {
				sig = r.Bytes(1 + r.Intn(72))
			}
			op := []byte{refscript.OP_CHECKSIG, refscript.OP_CHECKSIG, refscript.OP_CHECKSIGVERIFY}[r.Intn(3)]
			if s.sigver == "tapscript" && r.Chance(1, 3) {
				return cat(pushMinimal(sig), pushN(int64(r.Intn(5))), push(pub), []byte{refscript.OP_CHECKSIGADD})
			}
			return cat(pushMinimal(sig), push(pub), []byte{op})
		case 23:
			// CHECKMULTISIG: weights the op count by the number of keys
			n := r.Intn(21)
			if r.Chance(1, 15) {
				n = 21
			}
			frag := []byte{refscript.OP_0, refscript.OP_0}
			for i := 0; i < n; i++ {
				frag = append(frag, push(s.g.key().comp)...)
			}
			frag = append(frag, pushN(int64(n))...)
			return append(frag, []byte{refscript.OP_CHECKMULTISIG, refscript.OP_CHECKMULTISIG, refscript.OP_CHECKMULTISIGVERIFY}[r.Intn(3)])
		case 24:
			return []byte{refscript.OP_CODESEPARATOR}
		case 25:
			if r.Chance(1, 6) {
				return []byte{killOps[r.Intn(len(killOps))]}
			}
		case 26:
			if r.Chance(1, 8) {
				return []byte{byte(r.Intn(256))}
			}
		case 27:
			if r.Chance(1, 10) {
				// oversize or truncated push
				switch r.Intn(3) {
				case 0:
					return pushWith(refscript.OP_PUSHDATA2, make([]byte, 521))
				case 1:
					return []byte{refscript.OP_PUSHDATA1}
				case 2:
					return []byte{refscript.OP_PUSHDATA2, 0xff, 0xff, 1, 2, 3}
				}
			}
		case 28, 29:
			if d >= 1 {
				return []byte{[]byte{refscript.OP_DROP, refscript.OP_DUP, refscript.OP_SIZE, refscript.OP_SWAP, refscript.OP_OVER}[r.Intn(5)]}
			}
		}
	}
	return []byte{refscript.OP_1}
}

var ops9 = []struct {
	op   byte
	need int
}{{refscript.OP_DUP, 1}, {refscript.OP_OVER, 2}, {refscript.OP_SWAP, 2}, {refscript.OP_ROT, 3}, {refscript.OP_TUCK, 2}, {refscript.OP_2DUP, 2}, {refscript.OP_DEPTH, 0}, {refscript.OP_SIZE, 1}}

// build produces the program.
func (s *souper) build(steps int) []byte {
	r := s.g.r
	st := s.eval(nil)
	for i := 0; i < steps; i++ {
		frag := s.step(st)
		cand := cat(s.prog, frag)
		nst := s.eval(cand)
		if nst.dead {
			// keep a dying program only rarely: most cases should get far
			if r.Chance(1, 12) {
				s.prog = cand
				if r.Chance(1, 2) {
					// and keep appending a little after the fatal point
					for j := r.Intn(4); j > 0; j-- {
						s.prog = cat(s.prog, s.step(st))
					}
				}
				return s.prog
			}
			continue
		}
		s.prog, st = cand, nst
	}
	// close conditionals
	if st.cond > 0 && !r.Chance(1, 20) {
		for i := 0; i < st.cond; i++ {
			s.prog = append(s.prog, refscript.OP_ENDIF)
		}
		st = s.eval(s.prog)
		if st.dead {
			return s.prog
		}
	}
	if st.cond > 0 {
		return s.prog
	}
	// finalisation
	mode := r.Intn(10)
	switch {
	case mode < 6: // pin the stack contents
		for st.alt > 0 && st.alt < 30 {
			s.prog = append(s.prog, refscript.OP_FROMALTSTACK)
			st.alt--
		}
		st = s.eval(s.prog)
		if st.dead {
			return s.prog
		}
		n := len(st.stack)
		pinned := 0
		for i := n - 1; i >= 0 && pinned < 40; i-- {
			v := st.stack[i]
			if r.Chance(1, 60) { // a deliberately wrong pin now and then
				v = append(append([]byte(nil), v...), 1)
			}
			s.prog = cat(s.prog, pushMinimal(v), []byte{refscript.OP_EQUALVERIFY})
			pinned++
		}
		for rest := n - pinned; rest > 0; {
			if rest >= 2 {
				s.prog = append(s.prog, refscript.OP_2DROP)
				rest -= 2
			} else {
				s.prog = append(s.prog, refscript.OP_DROP)
				rest--
			}
		}
		s.prog = append(s.prog, refscript.OP_1)
	case mode < 8: // clean up without looking
		for i := len(st.stack); i > 0; i-- {
			s.prog = append(s.prog, refscript.OP_DROP)
		}
		s.prog = append(s.prog, refscript.OP_1)
	}
	return s.prog
}

// buildSoup wraps a random program into one of the execution contexts.
func (g *gctx) buildSoup() *spend {
	r := g.r
	ctx := []string{"bare", "bare", "p2sh", "p2wsh", "p2wsh", "p2sh-p2wsh", "tapscript", "tapscript", "scriptsig"}[r.Intn(9)]
	s := &souper{g: g, sigver: "base"}
	switch ctx {
	case "p2wsh", "p2sh-p2wsh":
		s.sigver = "witness_v0"
	case "tapscript":
		s.sigver = "tapscript"
	}
	// steering flags
	s.flags = consensusAll
	switch r.Intn(5) {
	case 0:
		s.flags = randomFlags(r)
	case 1:
		s.flags = consensusAll | refscript.FlagMinimalData | refscript.FlagMinimalIf | refscript.FlagNullFail | refscript.FlagStrictEnc
	}
	for i := r.Intn(4); i > 0; i-- {
		if r.Chance(1, 2) {
			s.init = append(s.init, refscript.EncodeNum(numEdges[r.Intn(len(numEdges))]))
		} else {
			s.init = append(s.init, r.Bytes(r.Intn(6)))
		}
	}
	steps := 3 + r.Intn(40)
	if r.Chance(1, 15) {
		steps = 150 + r.Intn(120)
	}
	prog := s.build(steps)
	g.note = append(g.note, "ctx="+ctx)
	return g.wrapProgram("soup", ctx, prog, s.init)
}

// wrapProgram puts a program and its initial stack into an execution context.
func (g *gctx) wrapProgram(family, ctx string, prog []byte, init [][]byte) *spend {
	g.newTx()
	var sp *spend
	switch ctx {
	case "bare":
		sp = g.finish(family, "soup/bare", prog, pushAll(init), nil, false)
	case "scriptsig":
		// the program runs as scriptSig (no SIGPUSHONLY unless flagged); scriptPubKey just checks the top
		sp = g.finish(family, "soup/scriptsig", []byte{refscript.OP_NOP}, cat(pushAll(init), prog), nil, false)
	case "p2sh":
		g.prefer |= fP2SH
		sp = g.finish(family, "soup/p2sh", p2shScript(prog), cat(pushAll(init), push(prog)), nil, false)
	case "p2wsh":
		g.prefer |= fP2SH | fWitness
		sp = g.finish(family, "soup/p2wsh", cat([]byte{0, 32}, sha256b(prog)), []byte{}, append(append([][]byte(nil), init...), prog), false)
	case "p2sh-p2wsh":
		g.prefer |= fP2SH | fWitness
		redeem := cat([]byte{0, 32}, sha256b(prog))
		sp = g.finish(family, "soup/p2sh-p2wsh", p2shScript(redeem), push(redeem), append(append([][]byte(nil), init...), prog), false)
	case "tapscript":
		g.prefer |= fP2SH | fWitness | fTaproot
		ik := g.key()
		depth := g.r.Intn(3)
		tree := &tapTree{leafVersion: 0xc0, script: prog}
		for i := 0; i < depth; i++ {
			tree.path = append(tree.path, g.r.Bytes(32))
		}
		out := makeTapOut(ik, tree.root())
		control := cat([]byte{out.controlByte(0xc0)}, ik.xonly)
		for _, n := range tree.path {
			control = append(control, n...)
		}
		wit := append(append([][]byte(nil), init...), prog, control)
		sp = g.finish(family, "soup/tapscript", out.spk, []byte{}, wit, false)
	default:
		panic("ctx " + ctx)
	}
	return sp
}
