package main

import (
	"verif/ref/refscript"
)

// Directed cases: one small case per reference error code (and a few accepts), run under a fixed
// flag set in addition to the drawn ones. They make the coverage evidence (error codes reached)
// independent of the seed. `want` is the error the reference is expected to give under `flags`;
// a different answer is reported as inconclusive (the generator's expectation is wrong), never as a
// violation.

type directedCase struct {
	name  string
	tmpl  string // template + mutation, or
	mut   string
	arg   int
	sig   string // scriptSig / scriptPubKey in test-vector notation
	pk    string
	flags uint32
	want  string
}

const (
	fStrict     = refscript.FlagStrictEnc
	fLowS       = refscript.FlagLowS
	fMinData    = refscript.FlagMinimalData
	fMinIf      = refscript.FlagMinimalIf
	fNullFail   = refscript.FlagNullFail
	fCleanStack = refscript.FlagCleanStack
	fPushOnly   = refscript.FlagSigPushOnly
	fWitPubKey  = refscript.FlagWitnessPubKeyType
	fConstCode  = refscript.FlagConstScriptCode
	fDisNops    = refscript.FlagDiscourageUpgradableNops
	fDisWitProg = refscript.FlagDiscourageUpgradableWitnessProg
	fDisTapVer  = refscript.FlagDiscourageUpgradableTaprootVer
	fDisSuccess = refscript.FlagDiscourageOpSuccess
	fDisPubKey  = refscript.FlagDiscourageUpgradablePubKeyType
	keyHex      = "0x21 0x0279be667ef9dcbbac55a06295ce870b07029bfcdb2dce28d959f2815b16f81798"
)

var directedCases = []directedCase{
	{name: "ok-trivial", sig: "1", pk: "NOP", flags: consensusAll, want: "OK"},
	{name: "eval-false", sig: "0", pk: "NOP", flags: consensusAll, want: "EVAL_FALSE"},
	{name: "eval-false-empty-stack", sig: "", pk: "NOP", flags: consensusAll, want: "EVAL_FALSE"},
	{name: "op-return", sig: "1", pk: "RETURN", flags: consensusAll, want: "OP_RETURN"},
	{name: "sig-count", sig: "0 2", pk: keyHex + " 1 CHECKMULTISIG", flags: consensusAll, want: "SIG_COUNT"},
	{name: "pubkey-count", sig: "0 0", pk: "21 CHECKMULTISIG", flags: consensusAll, want: "PUBKEY_COUNT"},
	{name: "pubkey-count-negative", sig: "0 0", pk: "-1 CHECKMULTISIG", flags: consensusAll, want: "PUBKEY_COUNT"},
	{name: "verify", sig: "0", pk: "VERIFY 1", flags: consensusAll, want: "VERIFY"},
	{name: "equalverify", sig: "1 2", pk: "EQUALVERIFY 1", flags: consensusAll, want: "EQUALVERIFY"},
	{name: "checkmultisigverify", sig: "0 0", pk: "1 " + keyHex + " 1 CHECKMULTISIGVERIFY 1", flags: consensusAll, want: "CHECKMULTISIGVERIFY"},
	{name: "checksigverify", sig: "0", pk: keyHex + " CHECKSIGVERIFY 1", flags: consensusAll, want: "CHECKSIGVERIFY"},
	{name: "numequalverify", sig: "1 2", pk: "NUMEQUALVERIFY 1", flags: consensusAll, want: "NUMEQUALVERIFY"},
	{name: "bad-opcode-verif", sig: "1", pk: "0 IF VERIF ENDIF", flags: consensusAll, want: "BAD_OPCODE"},
	{name: "bad-opcode-ff", sig: "1", pk: "0xff", flags: consensusAll, want: "BAD_OPCODE"},
	{name: "bad-opcode-checksigadd-legacy", sig: "0 0 0", pk: "CHECKSIGADD", flags: consensusAll, want: "BAD_OPCODE"},
	{name: "disabled-unexecuted", sig: "1", pk: "0 IF CAT ENDIF", flags: consensusAll, want: "DISABLED_OPCODE"},
	{name: "invalid-stack-operation", sig: "", pk: "DUP", flags: consensusAll, want: "INVALID_STACK_OPERATION"},
	{name: "invalid-altstack-operation", sig: "1", pk: "FROMALTSTACK", flags: consensusAll, want: "INVALID_ALTSTACK_OPERATION"},
	{name: "unbalanced-conditional", sig: "1", pk: "IF", flags: consensusAll, want: "UNBALANCED_CONDITIONAL"},
	{name: "unbalanced-else", sig: "1", pk: "ELSE", flags: consensusAll, want: "UNBALANCED_CONDITIONAL"},
	{name: "unbalanced-endif", sig: "1", pk: "ENDIF", flags: consensusAll, want: "UNBALANCED_CONDITIONAL"},
	{name: "negative-locktime", sig: "-1", pk: "CHECKLOCKTIMEVERIFY", flags: consensusAll, want: "NEGATIVE_LOCKTIME"},
	{name: "unsatisfied-locktime", sig: "0x05 0xffffffff7f", pk: "CHECKLOCKTIMEVERIFY", flags: consensusAll, want: "UNSATISFIED_LOCKTIME"},
	{name: "unknown-error-scriptnum", sig: "2147483648", pk: "1ADD", flags: consensusAll, want: "UNKNOWN_ERROR"},
	{name: "unknown-error-nonminimal-num", sig: "0x02 0x0100", pk: "1ADD", flags: consensusAll | fMinData, want: "UNKNOWN_ERROR"},
	{name: "minimaldata", sig: "0x01 0x05", pk: "NOP", flags: consensusAll | fMinData, want: "MINIMALDATA"},
	{name: "sig-pushonly", sig: "1 NOP", pk: "NOP", flags: consensusAll | fPushOnly, want: "SIG_PUSHONLY"},
	{name: "discourage-nops", sig: "1", pk: "NOP4", flags: consensusAll | fDisNops, want: "DISCOURAGE_UPGRADABLE_NOPS"},
	{name: "cltv-as-nop-with-discourage-nops", sig: "1", pk: "CHECKLOCKTIMEVERIFY", flags: fP2SH | fDisNops, want: "OK"},
	{name: "csv-as-nop-with-discourage-nops", sig: "1", pk: "CHECKSEQUENCEVERIFY", flags: fP2SH | fDisNops, want: "OK"},
	{name: "op-codeseparator-const-scriptcode", sig: "1", pk: "0 IF CODESEPARATOR ENDIF", flags: consensusAll | fConstCode, want: "OP_CODESEPARATOR"},
	{name: "cleanstack", sig: "1 1", pk: "NOP", flags: consensusAll | fCleanStack, want: "CLEANSTACK"},
	{name: "witness-unexpected", tmpl: "bare(pk)", mut: "unexpected-witness", flags: consensusAll, want: "WITNESS_UNEXPECTED"},
	{name: "sig-hashtype", tmpl: "bare(pk)", mut: "hashtype", arg: 0x04, flags: consensusAll | fStrict, want: "SIG_HASHTYPE"},
	{name: "sig-der", tmpl: "bare(pk)", mut: "der", arg: 0, flags: consensusAll, want: "SIG_DER"},
	{name: "sig-without-hashtype-byte", tmpl: "bare(pk)", mut: "sig-hashtype-is-last-s-byte", arg: 1, flags: fP2SH | fCLTV | fCSV, want: "EVAL_FALSE"},
	{name: "der-long-form-length-without-dersig", tmpl: "bare(pk)", mut: "der", arg: 4, flags: fP2SH, want: "OK"},
	{name: "der-wrong-sequence-length-without-dersig", tmpl: "p2sh(pk)", mut: "der", arg: 7, flags: fP2SH, want: "OK"},
	{name: "low-s-with-s-ge-n", tmpl: "bare(checksig-not-badsig)", mut: "badsig-mode", arg: 1, flags: fP2SH | fLowS, want: "OK"},
	{name: "sig-high-s", tmpl: "bare(pk)", mut: "high-s", flags: consensusAll | fLowS, want: "SIG_HIGH_S"},
	{name: "sig-nulldummy", tmpl: "bare(multisig)", mut: "multisig-dummy-nonnull", flags: consensusAll, want: "SIG_NULLDUMMY"},
	{name: "pubkeytype", tmpl: "bare(pk)", mut: "key-hybrid", flags: consensusAll | fStrict, want: "PUBKEYTYPE"},
	{name: "witness-pubkeytype", tmpl: "p2wsh(pk)", mut: "key-uncompressed", flags: consensusAll | fWitPubKey, want: "WITNESS_PUBKEYTYPE"},
	{name: "minimalif", tmpl: "p2wsh(ifelse)", mut: "minimalif-operand", arg: 0, flags: consensusAll | fMinIf, want: "MINIMALIF"},
	{name: "nullfail", tmpl: "bare(checksig-not)", mut: "nullfail-nonempty-invalid-sig", flags: consensusAll | fNullFail, want: "NULLFAIL"},
	{name: "nullfail-off", tmpl: "bare(checksig-not)", mut: "nullfail-nonempty-invalid-sig", flags: consensusAll, want: "OK"},
	{name: "witness-program-wrong-length", sig: "", pk: "0 0x0a 0x01000000000000000000", flags: consensusAll, want: "WITNESS_PROGRAM_WRONG_LENGTH"},
	{name: "witness-program-witness-empty", tmpl: "p2wsh(pk)", mut: "witness-empty", flags: consensusAll, want: "WITNESS_PROGRAM_WITNESS_EMPTY"},
	{name: "witness-program-mismatch", tmpl: "p2wsh(pk)", mut: "witness-program-mismatch", flags: consensusAll, want: "WITNESS_PROGRAM_MISMATCH"},
	{name: "witness-malleated", tmpl: "p2wpkh", mut: "native-witness-nonempty-scriptsig", flags: consensusAll, want: "WITNESS_MALLEATED"},
	{name: "witness-malleated-p2sh", tmpl: "p2sh-p2wpkh", mut: "p2sh-redeem-push-malleated", arg: 0, flags: consensusAll, want: "WITNESS_MALLEATED_P2SH"},
	{name: "discourage-witness-program", sig: "", pk: "5 0x02 0x0102", flags: consensusAll | fDisWitProg, want: "DISCOURAGE_UPGRADABLE_WITNESS_PROGRAM"},
	{name: "unknown-witness-program-ok", sig: "", pk: "5 0x02 0x0102", flags: consensusAll, want: "OK"},
	{name: "sig-findanddelete", tmpl: "sig-in-scriptcode", mut: "find-and-delete-size", arg: 0, flags: consensusAll | fConstCode, want: "SIG_FINDANDDELETE"},
	{name: "find-and-delete-ok", tmpl: "sig-in-scriptcode", mut: "find-and-delete-size", arg: 0, flags: fP2SH, want: "OK"},
	{name: "find-and-delete-pushdata1", tmpl: "sig-in-scriptcode", mut: "find-and-delete-size", arg: 30, flags: fP2SH, want: "OK"},
	{name: "find-and-delete-pushdata2", tmpl: "sig-in-scriptcode", mut: "find-and-delete-size", arg: 300, flags: fP2SH, want: "OK"},
	{name: "schnorr-sig-size", tmpl: "p2tr-key", mut: "schnorr-len", arg: 0, flags: consensusAll, want: "SCHNORR_SIG_SIZE"},
	{name: "schnorr-sig-hashtype", tmpl: "p2tr-key", mut: "hashtype", arg: 0x04, flags: consensusAll, want: "SCHNORR_SIG_HASHTYPE"},
	{name: "schnorr-sig-hashtype-80", tmpl: "p2tr-key", mut: "hashtype", arg: 0x80, flags: consensusAll, want: "SCHNORR_SIG_HASHTYPE"},
	{name: "schnorr-sig-hashtype-single-no-output", tmpl: "p2tr-key", mut: "hashtype-single-no-output", flags: consensusAll, want: "SCHNORR_SIG_HASHTYPE"},
	{name: "schnorr-sig-hashtype-script", tmpl: "p2tr-script(checksig)", mut: "hashtype", arg: 0x7f, flags: consensusAll, want: "SCHNORR_SIG_HASHTYPE"},
	{name: "schnorr-sig", tmpl: "p2tr-key", mut: "sign-wrong-key", flags: consensusAll, want: "SCHNORR_SIG"},
	{name: "taproot-wrong-control-size", tmpl: "p2tr-script(checksig)", mut: "control-len", arg: 0, flags: consensusAll, want: "TAPROOT_WRONG_CONTROL_SIZE"},
	{name: "taproot-control-129", tmpl: "p2tr-script(checksig)", mut: "control-129-nodes", flags: consensusAll, want: "TAPROOT_WRONG_CONTROL_SIZE"},
	{name: "taproot-parity", tmpl: "p2tr-script(checksig)", mut: "control-parity-flip", flags: consensusAll, want: "WITNESS_PROGRAM_MISMATCH"},
	{name: "taproot-internal-key-ge-p", tmpl: "p2tr-script(checksig)", mut: "internal-key-ge-p", flags: consensusAll, want: "WITNESS_PROGRAM_MISMATCH"},
	{name: "taproot-internal-key-not-liftable", tmpl: "p2tr-script(checksig)", mut: "internal-key-not-liftable", flags: consensusAll, want: "WITNESS_PROGRAM_MISMATCH"},
	{name: "taproot-internal-key-not-liftable-2", tmpl: "p2tr-script(success)", mut: "internal-key-not-liftable", arg: 1, flags: consensusAll, want: "WITNESS_PROGRAM_MISMATCH"},
	{name: "tapscript-validation-weight", tmpl: "p2tr-script(sigops-budget)", mut: "sigops-budget-minus-1", flags: consensusAll, want: "TAPSCRIPT_VALIDATION_WEIGHT"},
	{name: "tapscript-checkmultisig", tmpl: "p2tr-script(checkmultisig)", flags: consensusAll, want: ""},
	{name: "tapscript-minimalif", tmpl: "p2tr-script(ifelse)", mut: "minimalif-operand", arg: 0, flags: consensusAll, want: "TAPSCRIPT_MINIMALIF"},
	{name: "tapscript-empty-pubkey", tmpl: "p2tr-script(checksig)", mut: "key-empty", flags: consensusAll, want: "TAPSCRIPT_EMPTY_PUBKEY"},
	{name: "tapscript-stack-1001", tmpl: "p2tr-script(bigstack)", mut: "tapscript-initial-stack-1001", flags: consensusAll, want: "STACK_SIZE"},
	{name: "discourage-taproot-version", tmpl: "p2tr-script(unknown-leaf-version)", flags: consensusAll | fDisTapVer, want: ""},
	{name: "discourage-op-success", tmpl: "p2tr-script(success)", flags: consensusAll | fDisSuccess, want: "DISCOURAGE_OP_SUCCESS"},
	{name: "op-success-ok", tmpl: "p2tr-script(success)", flags: consensusAll, want: "OK"},
	{name: "discourage-pubkeytype", tmpl: "p2tr-script(upgradable-pubkey)", flags: consensusAll | fDisPubKey, want: "DISCOURAGE_UPGRADABLE_PUBKEYTYPE"},
	{name: "upgradable-pubkey-ok", tmpl: "p2tr-script(upgradable-pubkey)", flags: consensusAll, want: "OK"},
	{name: "taproot-keypath-ok", tmpl: "p2tr-key", flags: consensusAll, want: "OK"},
	{name: "taproot-scriptpath-ok", tmpl: "p2tr-script(checksigadd)", flags: consensusAll, want: "OK"},
	{name: "taproot-inactive", tmpl: "p2tr-key", mut: "sign-wrong-key", flags: consensusAll &^ fTaproot, want: "OK"},
}

func directed(g *gctx, i int) *spend {
	d := directedCases[i]
	var sp *spend
	if d.tmpl != "" {
		t := findTemplate(d.tmpl)
		g.mut, g.arg = d.mut, d.arg
		sp = t.build(g)
		sp.Mutation = d.mut
	} else {
		g.newTx()
		ss, err := refscript.ParseScript(d.sig)
		if err != nil {
			panic(err)
		}
		pk, err := refscript.ParseScript(d.pk)
		if err != nil {
			panic(err)
		}
		g.tx.LockTime = 0
		sp = g.finish("directed", "asm", pk, ss, nil, false)
	}
	sp.Family = "directed"
	if d.tmpl == "" {
		sp.Template = "directed/" + d.name
	}
	sp.Note += ";directed=" + d.name
	sp.WantOK = false
	sp.directed = &directedCases[i]
	return sp
}
