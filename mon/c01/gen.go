package main

import (
	"bytes"
	"crypto/sha1"
	"crypto/sha256"
	"fmt"
	"math/big"
	"strings"

	"github.com/piotrnar/gocoin/lib/secp256k1"

	"verif/lib/vlib"
	"verif/ref/refec"
	"verif/ref/refscript"
	"verif/ref/refsighash"
	"verif/ref/reftx"
	"verif/ref/ripemd160"
)

// spend is one (scriptSig, scriptPubKey, witness, amount, tx, idx) tuple; it is verified under several
// flag sets.
type spend struct {
	Family   string // tmpl | mut | soup | limits | directed
	Template string
	Mutation string
	PkScript []byte
	Tx       *reftx.Tx
	Idx      int
	Amount   int64
	Spent    []reftx.TxOut
	Prefer   uint32 // flags without which the case is trivial
	WantOK   bool   // unmutated template: the reference must accept under consensusAll
	Note     string

	directed *directedCase
}

const (
	fP2SH      = refscript.FlagP2SH
	fWitness   = refscript.FlagWitness
	fTaproot   = refscript.FlagTaproot
	fCLTV      = refscript.FlagCheckLockTimeVerify
	fCSV       = refscript.FlagCheckSequenceVerify
	fDERSig    = refscript.FlagDERSig
	fNullDummy = refscript.FlagNullDummy
)

const consensusAll = fP2SH | fDERSig | fCLTV | fCSV | fWitness | fNullDummy | fTaproot

// ---------------------------------------------------------------------------------------------

type gctx struct {
	r        *vlib.Rand
	thorough bool
	mut      string // requested mutation ("" = none)
	arg      int    // its parameter
	sweep    bool   // arg enumerates a template parameter
	applied  bool
	tags     map[string]bool

	tx     *reftx.Tx
	idx    int
	amount int64
	spent  []reftx.TxOut
	prefer uint32
	note   []string
}

// m reports whether mutation name is requested and not yet applied; it marks it applied.
func (g *gctx) m(name string) bool {
	if g.mut == name && !g.applied {
		g.applied = true
		return true
	}
	return false
}

// mAll is like m but fires on every call.
func (g *gctx) mAll(name string) bool {
	if g.mut == name {
		g.applied = true
		return true
	}
	return false
}

func (g *gctx) key() *keyT { return keys[g.r.Intn(len(keys))] }

// withMut runs f with a secondary mutation switched on (used by templates that are built around a
// deliberately bad signature); the primary mutation is restored afterwards.
func (g *gctx) withMut(name string, arg int, f func()) {
	m, a, ap := g.mut, g.arg, g.applied
	g.mut, g.arg, g.applied = name, arg, false
	f()
	g.mut, g.arg, g.applied = m, a, ap
}

var badSigModes = []struct {
	name string
	args int
}{{"sign-wrong-key", 24}, {"s-plus-n", 1}, {"r-plus-n", 1}, {"s-zero", 1}, {"high-s", 1}, {"der", 30}, {"sig-bitflip", 600}, {"sig-truncate", 3},
	{"sig-no-hashtype", 1}, {"sign-wrong-scriptcode", 1}, {"sign-wrong-sigversion", 1}, {"hashtype", 256}, {"sign-wrong-amount", 40}, {"sig-empty", 1}}

func hash160(b []byte) []byte {
	s := sha256.Sum256(b)
	h := ripemd160.New()
	h.Write(s[:])
	return h.Sum(nil)
}

func sha256b(b []byte) []byte { s := sha256.Sum256(b); return s[:] }
func sha1sum(b []byte) []byte { s := sha1.Sum(b); return s[:] }

func push(b []byte) []byte { return refscript.PushData(b) }
func pushN(n int64) []byte { return refscript.PushInt(n) }

func cat(parts ...[]byte) []byte {
	var o []byte
	for _, p := range parts {
		o = append(o, p...)
	}
	return o
}

func pushAll(items [][]byte) []byte {
	var o []byte
	for _, it := range items {
		o = append(o, pushMinimal(it)...)
	}
	return o
}

// pushMinimal is the push a MINIMALDATA-conforming wallet would emit.
func pushMinimal(b []byte) []byte {
	if len(b) == 0 {
		return []byte{refscript.OP_0}
	}
	if len(b) == 1 && b[0] >= 1 && b[0] <= 16 {
		return []byte{refscript.OP_1 - 1 + b[0]}
	}
	if len(b) == 1 && b[0] == 0x81 {
		return []byte{refscript.OP_1NEGATE}
	}
	return push(b)
}

// pushWith encodes a push with a chosen (possibly non-minimal) opcode.
func pushWith(op byte, b []byte) []byte {
	switch op {
	case refscript.OP_PUSHDATA1:
		return cat([]byte{op, byte(len(b))}, b)
	case refscript.OP_PUSHDATA2:
		return cat([]byte{op, byte(len(b)), byte(len(b) >> 8)}, b)
	case refscript.OP_PUSHDATA4:
		return cat([]byte{op, byte(len(b)), byte(len(b) >> 8), byte(len(b) >> 16), byte(len(b) >> 24)}, b)
	}
	return push(b)
}

var lockTimes = []uint32{0, 1, 100, 499999999, 500000000, 500000001, 0x7fffffff, 0x80000000, 0xfffffffe, 0xffffffff}
var sequences = []uint32{0xffffffff, 0xfffffffe, 0, 1, 0xffff, 0x10000, 0x0040ffff, 0x00400000, 0x00400001, 0x80000000, 0x80400005, 0x7fffffff, 5}
var versions = []uint32{1, 2, 2, 2, 2, 0, 3, 0xffffffff, 0x80000000, 0x7fffffff}

func (g *gctx) randScriptPubKey() []byte {
	switch g.r.Intn(6) {
	case 0:
		return cat([]byte{0x76, 0xa9, 20}, g.r.Bytes(20), []byte{0x88, 0xac})
	case 1:
		return cat([]byte{0xa9, 20}, g.r.Bytes(20), []byte{0x87})
	case 2:
		return cat([]byte{0, 20}, g.r.Bytes(20))
	case 3:
		return cat([]byte{0, 32}, g.r.Bytes(32))
	case 4:
		return cat([]byte{0x51, 32}, g.r.Bytes(32))
	}
	return g.r.Bytes(g.r.Intn(40))
}

// newTx makes the transaction skeleton around the input under test.
func (g *gctx) newTx() {
	r := g.r
	nIn := 1
	if r.Chance(1, 2) {
		nIn = 1 + r.Intn(3)
	}
	nOut := 1 + r.Intn(3)
	if r.Chance(1, 25) {
		nOut = 0
	}
	tx := &reftx.Tx{Version: versions[r.Intn(len(versions))]}
	if r.Chance(1, 2) {
		tx.LockTime = lockTimes[r.Intn(len(lockTimes))]
	} else if r.Chance(1, 4) {
		tx.LockTime = r.U32()
	}
	g.spent = make([]reftx.TxOut, nIn)
	for i := 0; i < nIn; i++ {
		in := reftx.TxIn{PrevIndex: uint32(r.Intn(4)), Sequence: 0xffffffff}
		r.Fill(in.PrevHash[:])
		if r.Chance(1, 2) {
			in.Sequence = sequences[r.Intn(len(sequences))]
		} else if r.Chance(1, 4) {
			in.Sequence = r.U32()
		}
		tx.In = append(tx.In, in)
		g.spent[i] = reftx.TxOut{Value: int64(r.U64() % 2100000000000000), PkScript: g.randScriptPubKey()}
	}
	for i := 0; i < nOut; i++ {
		tx.Out = append(tx.Out, reftx.TxOut{Value: int64(r.U64() % 2100000000000000), PkScript: g.randScriptPubKey()})
	}
	g.tx = tx
	g.idx = r.Intn(nIn)
	switch r.Intn(8) {
	case 0:
		g.amount = 0
	case 1:
		g.amount = 2100000000000000
	case 2:
		g.amount = 0x7fffffffffffffff
	default:
		g.amount = int64(r.U64() % 2100000000000000)
	}
	g.spent[g.idx].Value = g.amount
}

// ---------------------------------------------------------------------------------------------
// signatures

var derStyles = []string{"r-zero-padded", "s-zero-padded", "r-no-sign-pad", "s-no-sign-pad", "long-form-int-len",
	"long-form-seq-len", "long-form-all", "seq-len-wrong", "seq-len-zero", "trailing-garbage"}

var hashTypesCommon = []byte{1, 1, 1, 1, 2, 3, 0x81, 0x82, 0x83}

func (g *gctx) pickHashType() byte {
	if g.r.Chance(1, 12) {
		return byte(g.r.Intn(256))
	}
	return hashTypesCommon[g.r.Intn(len(hashTypesCommon))]
}

// sigECDSA signs for the input under test. sv: 0 = legacy digest, 1 = BIP143 digest.
func (g *gctx) sigECDSA(k *keyT, scriptCode []byte, sv int) []byte {
	ht := g.pickHashType()
	if g.m("hashtype") {
		ht = byte(g.arg)
	}
	if g.m("hashtype-single-no-output") {
		ht = 3 | byte(g.arg&0x80)
		for len(g.tx.Out) > g.idx {
			g.tx.Out = g.tx.Out[:len(g.tx.Out)-1]
		}
	}
	if g.m("sig-empty") {
		return []byte{}
	}
	amount := g.amount
	if g.m("sign-wrong-amount") {
		amount ^= 1 << uint(g.arg%40)
	}
	if g.m("sign-wrong-scriptcode") {
		scriptCode = cat(scriptCode, []byte{refscript.OP_NOP})
	}
	tx := g.tx
	idx := g.idx
	if g.m("sign-wrong-input-index") && len(tx.In) > 1 {
		idx = (idx + 1) % len(tx.In)
	}
	var digest [32]byte
	if sv == 1 {
		digest = refsighash.WitnessV0(tx, scriptCode, amount, idx, uint32(ht))
	} else {
		digest = refsighash.Legacy(tx, scriptCode, idx, uint32(ht))
	}
	if g.m("sign-wrong-sigversion") {
		if sv == 1 {
			digest = refsighash.Legacy(tx, scriptCode, idx, uint32(ht))
		} else {
			digest = refsighash.WitnessV0(tx, scriptCode, amount, idx, uint32(ht))
		}
	}
	d := k.d
	if g.m("sign-wrong-key") {
		d = keys[(g.arg+1)%len(keys)].d
		if d.Cmp(k.d) == 0 {
			d = keys[(g.arg+2)%len(keys)].d
		}
	}
	lowS := true
	if g.m("high-s") {
		lowS = false
	}
	if g.m("sig-hashtype-is-last-s-byte") {
		// search a (hash type, nonce) pair for which the last byte of S equals the hash type, and send
		// DER(r,s) WITHOUT a hash-type byte: a parser that reads S up to the end of the whole signature
		// and takes the last byte as hash type as well sees a complete valid signature
		for h := 0; h < 256; h++ {
			ht2 := byte((h + g.arg) & 0xff)
			var dg [32]byte
			if sv == 1 {
				dg = refsighash.WitnessV0(tx, scriptCode, amount, idx, uint32(ht2))
			} else {
				dg = refsighash.Legacy(tx, scriptCode, idx, uint32(ht2))
			}
			for ni := 0; ni < nNonces; ni++ {
				r2, s2 := ecdsaSign(d, dg[:], ni, true)
				sb := s2.Bytes()
				if len(sb) == 32 && sb[31] == ht2 {
					g.note = append(g.note, fmt.Sprintf("hashtype-byte-shared-with-s:%02x", ht2))
					return encodeDER(r2, s2, "strict", 0)
				}
			}
		}
	}
	r, s := ecdsaSign(d, digest[:], g.r.Intn(nNonces), lowS)
	if g.m("s-plus-n") { // s >= n, same residue
		s = new(big.Int).Add(s, refec.N)
	}
	if g.m("r-plus-n") {
		r = new(big.Int).Add(r, refec.N)
	}
	if g.m("s-zero") {
		s = new(big.Int)
	}
	style := "strict"
	pad := 0
	if g.m("der") {
		style = derStyles[g.arg%len(derStyles)]
		pad = 1 + (g.arg/len(derStyles))%3
		if g.arg >= 1000 { // big padding: signatures of 76..520 bytes
			pad = g.arg - 1000
		}
	}
	sig := encodeDER(r, s, style, pad)
	sig = append(sig, ht)
	if g.m("sig-bitflip") {
		i := g.arg % (len(sig) * 8)
		sig[i/8] ^= 1 << uint(i%8)
	}
	if g.m("sig-truncate") {
		sig = sig[:len(sig)-1-g.arg%3]
	}
	if g.m("sig-no-hashtype") {
		sig = sig[:len(sig)-1]
	}
	return sig
}

// pubForm returns the key serialisation for the template (mutations can ask for other forms).
func (g *gctx) pubForm(k *keyT, allowUncompressed bool) []byte {
	p := k.comp
	if allowUncompressed && g.r.Chance(1, 4) {
		p = k.uncomp
	}
	if g.m("key-uncompressed") {
		p = k.uncomp
	}
	if g.m("key-hybrid") {
		p = k.hybrid
	}
	if g.m("key-hybrid-wrong-parity") {
		p = append([]byte(nil), k.hybrid...)
		p[0] ^= 1
	}
	if g.m("key-bitflip") {
		p = append([]byte(nil), p...)
		i := g.arg % (len(p) * 8)
		p[i/8] ^= 1 << uint(i%8)
	}
	if g.m("key-x-ge-p") {
		// x := p + small, a value that is a valid x after reduction
		p = append([]byte(nil), p[:33]...)
		copy(p[1:], refec.Bytes32(new(big.Int).Add(refec.P, big.NewInt(int64(1+g.arg%5)))))
	}
	if g.m("key-truncated") {
		p = p[:len(p)-1]
	}
	if g.m("key-empty") {
		p = []byte{}
	}
	return p
}

// ---------------------------------------------------------------------------------------------
// inner scripts for legacy / P2SH / P2WSH (ECDSA)

type inner struct {
	name   string
	script []byte
	// items builds the unlocking stack (bottom -> top). sign(k, from) signs with script code
	// script[from:].
	items func(sign func(k *keyT, from int) []byte) [][]byte
}

var innerKinds = []string{"pk", "pkh", "multisig", "multisig", "codesep", "cltv", "csv", "ifelse", "hashlock", "checksig-not", "multisig-not", "pk-verify-pk", "multisigverify",
	"checksig-not-badsig", "multisig-not-badsig"}

func (g *gctx) makeInner(kind string, witness bool) inner {
	r := g.r
	allowUnc := !witness || r.Chance(1, 6)
	switch kind {
	case "pk":
		k := g.key()
		pub := g.pubForm(k, allowUnc)
		return inner{kind, cat(push(pub), []byte{refscript.OP_CHECKSIG}), func(sign func(*keyT, int) []byte) [][]byte {
			return [][]byte{sign(k, 0)}
		}}
	case "pkh":
		k := g.key()
		pub := g.pubForm(k, allowUnc)
		h := hash160(pub)
		if g.m("pkh-hash-mismatch") {
			h = append([]byte(nil), h...)
			h[g.arg%20] ^= 1
		}
		return inner{kind, cat([]byte{0x76, 0xa9}, push(h), []byte{0x88, 0xac}), func(sign func(*keyT, int) []byte) [][]byte {
			return [][]byte{sign(k, 0), pub}
		}}
	case "multisig", "multisig-not", "multisigverify":
		n := r.Intn(21)
		switch r.Intn(4) {
		case 0:
			n = r.Intn(4)
		case 1:
			n = 18 + r.Intn(3)
		}
		if g.m("multisig-21-keys") {
			n = 21
		}
		m := 0
		if n > 0 {
			m = r.Intn(n + 1)
			if r.Chance(1, 2) && m > 3 {
				m = 1 + r.Intn(3)
			}
		}
		if kind == "multisig-not" {
			if n == 0 {
				n = 1 + r.Intn(3)
			}
			if m == 0 {
				m = 1
			}
		}
		if g.m("multisig-m-gt-n") {
			m = n + 1
		}
		ks := make([]*keyT, n)
		var scr []byte
		scr = append(scr, pushN(int64(m))...)
		for i := range ks {
			ks[i] = g.key()
			scr = append(scr, push(g.pubForm(ks[i], allowUnc))...)
		}
		scr = append(scr, pushN(int64(n))...)
		if g.m("multisig-negative-n") {
			scr = cat(pushN(0), pushN(-1))
			m, n, ks = 0, 0, nil
		}
		switch kind {
		case "multisig":
			scr = append(scr, refscript.OP_CHECKMULTISIG)
		case "multisig-not":
			scr = append(scr, refscript.OP_CHECKMULTISIG, refscript.OP_NOT)
		default:
			scr = append(scr, refscript.OP_CHECKMULTISIGVERIFY, refscript.OP_1)
		}
		// which keys sign: m of them, in key order
		signers := map[int]bool{}
		if n > 0 {
			for _, p := range r.Perm(n)[:min(m, n)] {
				signers[p] = true
			}
		}
		not := kind == "multisig-not"
		return inner{kind, scr, func(sign func(*keyT, int) []byte) [][]byte {
			dummy := []byte{}
			if g.m("multisig-dummy-nonnull") {
				dummy = [][]byte{{1}, {0}, {0x80}, {0x51}, {1, 2, 3}}[g.arg%5]
			}
			items := [][]byte{dummy}
			if not {
				// all signatures empty => CHECKMULTISIG false => NOT true (needs m > 0)
				for i := 0; i < min(m, n); i++ {
					s := []byte{}
					if g.m("nullfail-nonempty-invalid-sig") {
						s = sign(keys[0], 0) // a signature by an unrelated key
						if len(ks) > 0 && ks[0] == keys[0] {
							s = sign(keys[1], 0)
						}
					}
					items = append(items, s)
				}
				return items
			}
			order := make([]int, 0, m)
			for i := 0; i < n; i++ {
				if signers[i] {
					order = append(order, i)
				}
			}
			if g.m("multisig-sigs-wrong-order") && len(order) > 1 {
				order[0], order[len(order)-1] = order[len(order)-1], order[0]
			}
			for _, i := range order {
				items = append(items, sign(ks[i], 0))
			}
			if g.m("multisig-missing-sig") && len(items) > 1 {
				items = items[:len(items)-1]
			}
			if g.m("multisig-missing-dummy") {
				items = items[1:]
			}
			return items
		}}
	case "codesep":
		k1, k2 := g.key(), g.key()
		p1, p2 := g.pubForm(k1, allowUnc), g.pubForm(k2, allowUnc)
		a := cat(push(p1), []byte{refscript.OP_CHECKSIGVERIFY, refscript.OP_CODESEPARATOR})
		scr := cat(a, push(p2), []byte{refscript.OP_CHECKSIG})
		viaMultisig := r.Chance(1, 3) // the second check as 1-of-1 CHECKMULTISIG: same script code rule, other opcode
		if viaMultisig {
			scr = cat(a, []byte{refscript.OP_1}, push(p2), []byte{refscript.OP_1, refscript.OP_CHECKMULTISIG})
		}
		return inner{kind, scr, func(sign func(*keyT, int) []byte) [][]byte {
			from2 := len(a)
			if g.m("codesep-ignored-by-signer") {
				from2 = 0
			}
			s2 := sign(k2, from2)
			s1 := sign(k1, 0)
			if viaMultisig {
				return [][]byte{{}, s2, s1}
			}
			return [][]byte{s2, s1}
		}}
	case "cltv":
		k := g.key()
		// make the lock satisfiable, then pick the operand
		if g.tx.In[g.idx].Sequence == 0xffffffff {
			g.tx.In[g.idx].Sequence = 0xfffffffe
		}
		lt := int64(g.tx.LockTime)
		n := lt
		if r.Chance(1, 2) {
			if lt >= 500000000 {
				n = 500000000 + int64(r.U64()%uint64(lt-500000000+1))
			} else {
				n = int64(r.U64() % uint64(lt+1))
			}
		}
		op := pushN(n)
		if g.m("cltv-operand") {
			op = g.lockOperand(lt)
		}
		if g.m("cltv-final-sequence") {
			g.tx.In[g.idx].Sequence = 0xffffffff
		}
		scr := cat(op, []byte{refscript.OP_CHECKLOCKTIMEVERIFY, refscript.OP_DROP}, push(g.pubForm(k, allowUnc)), []byte{refscript.OP_CHECKSIG})
		return inner{kind, scr, func(sign func(*keyT, int) []byte) [][]byte { return [][]byte{sign(k, 0)} }}
	case "csv":
		k := g.key()
		if g.tx.Version < 2 {
			g.tx.Version = 2
		}
		seq := g.tx.In[g.idx].Sequence
		if seq&(1<<31) != 0 {
			seq &^= 1 << 31
			g.tx.In[g.idx].Sequence = seq
		}
		masked := int64(seq & 0x0040ffff)
		n := masked
		if r.Chance(1, 2) {
			n = masked&0x00400000 | int64(r.U64()%uint64(masked&0xffff+1))
		}
		if r.Chance(1, 4) {
			n |= int64(r.U32()) & 0x7fbf0000 // bits without consensus meaning
		}
		op := pushN(n)
		if g.m("csv-operand") {
			op = g.lockOperand(masked)
		}
		if g.m("csv-version-1") {
			g.tx.Version = uint32(g.arg % 2)
		}
		if g.m("csv-sequence-disabled") {
			g.tx.In[g.idx].Sequence |= 1 << 31
		}
		scr := cat(op, []byte{refscript.OP_CHECKSEQUENCEVERIFY, refscript.OP_DROP}, push(g.pubForm(k, allowUnc)), []byte{refscript.OP_CHECKSIG})
		return inner{kind, scr, func(sign func(*keyT, int) []byte) [][]byte { return [][]byte{sign(k, 0)} }}
	case "ifelse":
		k1, k2 := g.key(), g.key()
		opIf := byte(refscript.OP_IF)
		if r.Chance(1, 3) {
			opIf = refscript.OP_NOTIF
		}
		scr := cat([]byte{opIf}, push(g.pubForm(k1, allowUnc)), []byte{refscript.OP_CHECKSIG, refscript.OP_ELSE}, push(g.pubForm(k2, allowUnc)), []byte{refscript.OP_CHECKSIG, refscript.OP_ENDIF})
		first := r.Bool()
		return inner{kind, scr, func(sign func(*keyT, int) []byte) [][]byte {
			k := k2
			if first {
				k = k1
			}
			sel := []byte{}
			if first != (opIf == refscript.OP_NOTIF) {
				sel = []byte{1}
			}
			if g.m("minimalif-operand") {
				truthy := [][]byte{{2}, {1, 0}, {0x81}, {0, 1}, {0xff}, {1, 0, 0, 0, 0}}
				falsy := [][]byte{{0}, {0x80}, {0, 0}, {0, 0x80}}
				if len(sel) == 1 {
					sel = truthy[g.arg%len(truthy)]
				} else {
					sel = falsy[g.arg%len(falsy)]
				}
			}
			return [][]byte{sign(k, 0), sel}
		}}
	case "hashlock":
		k := g.key()
		pre := r.Bytes(r.Intn(40))
		if g.m("hashlock-preimage-size") {
			pre = r.Bytes([]int{519, 520, 521, 522}[g.arg%4])
		}
		ops := []byte{refscript.OP_SHA256, refscript.OP_HASH160, refscript.OP_RIPEMD160, refscript.OP_SHA1, refscript.OP_HASH256}
		op := ops[r.Intn(len(ops))]
		var h []byte
		switch op {
		case refscript.OP_SHA256:
			h = sha256b(pre)
		case refscript.OP_HASH160:
			h = hash160(pre)
		case refscript.OP_RIPEMD160:
			x := ripemd160.New()
			x.Write(pre)
			h = x.Sum(nil)
		case refscript.OP_SHA1:
			h = sha1sum(pre)
		case refscript.OP_HASH256:
			h = sha256b(sha256b(pre))
		}
		scr := cat([]byte{op}, push(h), []byte{refscript.OP_EQUALVERIFY}, push(g.pubForm(k, allowUnc)), []byte{refscript.OP_CHECKSIG})
		return inner{kind, scr, func(sign func(*keyT, int) []byte) [][]byte {
			p := pre
			if g.m("hashlock-wrong-preimage") {
				p = append(append([]byte(nil), pre...), 0)
			}
			return [][]byte{sign(k, 0), p}
		}}
	case "checksig-not":
		k := g.key()
		scr := cat(push(g.pubForm(k, allowUnc)), []byte{refscript.OP_CHECKSIG, refscript.OP_NOT})
		return inner{kind, scr, func(sign func(*keyT, int) []byte) [][]byte {
			s := []byte{}
			if g.m("nullfail-nonempty-invalid-sig") {
				other := keys[0]
				if other == k {
					other = keys[1]
				}
				s = sign(other, 0)
			}
			if g.m("valid-sig-under-not") {
				s = sign(k, 0)
			}
			return [][]byte{s}
		}}
	case "checksig-not-badsig":
		// <key> CHECKSIG NOT with a signature that is bad (or non-standard) in one chosen way: whether
		// that makes CHECKSIG push false or abort the script is what the flags decide
		k := g.key()
		mode := badSigModes[r.Intn(len(badSigModes))]
		if g.m("badsig-mode") {
			mode = badSigModes[g.arg%len(badSigModes)]
		}
		marg := r.Intn(mode.args)
		scr := cat(push(g.pubForm(k, allowUnc)), []byte{refscript.OP_CHECKSIG, refscript.OP_NOT})
		return inner{kind + ":" + mode.name, scr, func(sign func(*keyT, int) []byte) [][]byte {
			var s []byte
			g.withMut(mode.name, marg, func() { s = sign(k, 0) })
			return [][]byte{s}
		}}
	case "multisig-not-badsig":
		// m-of-n CHECKMULTISIG NOT where the signatures fail in different ways
		n := 1 + r.Intn(5)
		m := 1 + r.Intn(n)
		ks := make([]*keyT, n)
		scr := pushN(int64(m))
		for i := range ks {
			ks[i] = g.key()
			scr = append(scr, push(g.pubForm(ks[i], allowUnc))...)
		}
		scr = cat(scr, pushN(int64(n)), []byte{refscript.OP_CHECKMULTISIG, refscript.OP_NOT})
		sub := []string{"valid-wrong-order", "one-valid-rest-empty", "wrong-keys", "one-bad", "first-empty-rest-valid"}[r.Intn(5)]
		mode := badSigModes[r.Intn(len(badSigModes))]
		marg := r.Intn(mode.args)
		return inner{kind + ":" + sub, scr, func(sign func(*keyT, int) []byte) [][]byte {
			items := [][]byte{{}}
			sigs := make([][]byte, m)
			for i := 0; i < m; i++ {
				sigs[i] = sign(ks[i], 0) // keys 0..m-1 in order: a passing set
			}
			switch sub {
			case "valid-wrong-order":
				for i, j := 0, m-1; i < j; i, j = i+1, j-1 {
					sigs[i], sigs[j] = sigs[j], sigs[i]
				}
			case "one-valid-rest-empty":
				for i := 1; i < m; i++ {
					sigs[i] = []byte{}
				}
			case "wrong-keys":
				for i := 0; i < m; i++ {
					sigs[i] = sign(keys[(i+7)%len(keys)], 0)
				}
			case "one-bad":
				g.withMut(mode.name, marg, func() { sigs[r.Intn(m)] = sign(ks[0], 0) })
			case "first-empty-rest-valid":
				sigs[0] = []byte{}
			}
			return append(items, sigs...)
		}}
	case "pk-verify-pk":
		k1, k2 := g.key(), g.key()
		scr := cat(push(g.pubForm(k1, allowUnc)), []byte{refscript.OP_CHECKSIGVERIFY}, push(g.pubForm(k2, allowUnc)), []byte{refscript.OP_CHECKSIG})
		return inner{kind, scr, func(sign func(*keyT, int) []byte) [][]byte {
			return [][]byte{sign(k2, 0), sign(k1, 0)}
		}}
	}
	panic("unknown inner kind " + kind)
}

func min(a, b int) int {
	if a < b {
		return a
	}
	return b
}

// lockOperand returns an edge operand for CLTV/CSV relative to the value base that would satisfy it.
func (g *gctx) lockOperand(base int64) []byte {
	switch g.arg % 14 {
	case 0:
		return pushN(base + 1) // just unsatisfied (or other kind)
	case 1:
		return pushN(-1)
	case 2:
		return push([]byte{}) // 0-byte operand
	case 3:
		return push([]byte{0xff, 0xff, 0xff, 0xff, 0x00}) // 5 bytes: 2^32-1
	case 4:
		return push([]byte{0xff, 0xff, 0xff, 0xff, 0x7f}) // 5 bytes max
	case 5:
		return push([]byte{0, 0, 0, 0, 0, 0}) // 6 bytes
	case 6:
		return push([]byte{0xff, 0xff, 0xff, 0xff, 0x80}) // negative 5 bytes
	case 7:
		return push(append(refscript.EncodeNum(base), 0)) // non-minimal encoding of a satisfying value
	case 8:
		return pushN(base ^ 0x00400000) // other type (CSV) / different value
	case 9:
		return pushN(500000000)
	case 10:
		return pushN(499999999)
	case 11:
		return pushN(base | 1<<31) // CSV: disable flag set -> NOP
	case 12:
		return push([]byte{0x80}) // negative zero
	}
	return []byte{} // no operand at all: stack underflow (or consumes the signature)
}

// ---------------------------------------------------------------------------------------------
// outer wrappers

func p2shScript(redeem []byte) []byte {
	return cat([]byte{refscript.OP_HASH160, 20}, hash160(redeem), []byte{refscript.OP_EQUAL})
}

func (g *gctx) finish(family, tmpl string, pk, scriptSig []byte, witness [][]byte, wantOK bool) *spend {
	g.tx.In[g.idx].ScriptSig = scriptSig
	g.tx.In[g.idx].Witness = witness
	g.spent[g.idx].PkScript = pk
	g.spent[g.idx].Value = g.amount
	s := &spend{Family: family, Template: tmpl, PkScript: pk, Tx: g.tx, Idx: g.idx, Amount: g.amount, Spent: g.spent, Prefer: g.prefer,
		WantOK: wantOK, Note: strings.Join(g.note, ";")}
	return s
}

// scriptSigFrom builds the scriptSig from stack items, with the scriptSig-level mutations.
func (g *gctx) scriptSigFrom(items [][]byte, redeem []byte) []byte {
	var ss []byte
	nonMin := g.m("scriptsig-nonminimal-push")
	for i, it := range items {
		p := pushMinimal(it)
		if nonMin && (i == g.arg%len(items) || g.arg%7 == 0) {
			switch {
			case len(it) == 0:
				p = []byte{refscript.OP_PUSHDATA1, 0}
			case len(it) == 1 && it[0] >= 1 && it[0] <= 16, len(it) == 1 && it[0] == 0x81:
				p = push(it)
			default:
				p = pushWith([]byte{refscript.OP_PUSHDATA1, refscript.OP_PUSHDATA2, refscript.OP_PUSHDATA4}[g.arg%3], it)
			}
		}
		ss = append(ss, p...)
	}
	if redeem != nil {
		p := push(redeem)
		if g.m("p2sh-redeem-push-malleated") {
			switch g.arg % 4 {
			case 0:
				p = pushWith(refscript.OP_PUSHDATA1, redeem)
			case 1:
				p = pushWith(refscript.OP_PUSHDATA2, redeem)
			case 2:
				p = cat([]byte{refscript.OP_0}, push(redeem)) // extra push in front
			case 3:
				p = cat(push(redeem), []byte{refscript.OP_NOP}) // not push-only
			}
		}
		ss = append(ss, p...)
	}
	if g.m("scriptsig-not-pushonly") {
		extra := [][]byte{{refscript.OP_NOP}, {refscript.OP_1, refscript.OP_DROP}, {refscript.OP_DUP, refscript.OP_DROP}, {refscript.OP_RESERVED}, {refscript.OP_CODESEPARATOR}}[g.arg%5]
		if g.arg%2 == 0 {
			ss = cat(extra, ss)
		} else if redeem == nil {
			ss = cat(ss, extra)
		} else {
			ss = cat(extra, ss)
		}
	}
	if g.m("scriptsig-extra-item") {
		ss = cat([]byte{refscript.OP_1}, ss)
	}
	return ss
}

// buildECDSA builds a spend of an inner script under one of the wrappers
// bare | p2sh | p2wsh | p2sh-p2wsh.
func (g *gctx) buildECDSA(wrapper, kind string) *spend {
	g.newTx()
	witness := wrapper == "p2wsh" || wrapper == "p2sh-p2wsh"
	in := g.makeInner(kind, witness)
	script := in.script
	sv := 0
	if witness {
		sv = 1
		g.prefer |= fWitness | fP2SH
	}
	if wrapper == "p2sh" || wrapper == "p2sh-p2wsh" {
		g.prefer |= fP2SH
	}
	if kind == "cltv" {
		g.prefer |= fCLTV
	}
	if kind == "csv" {
		g.prefer |= fCSV
	}
	sign := func(k *keyT, from int) []byte { return g.sigECDSA(k, script[from:], sv) }
	items := in.items(sign)
	if g.m("extra-stack-item") {
		items = append([][]byte{{1}}, items...)
	}
	tmpl := wrapper + "(" + in.name + ")"
	wantOK := g.mut == "" && !strings.Contains(kind, "badsig")
	if wrapper == "p2sh" && len(script) > refscript.MaxScriptElementSize {
		wantOK = false // the redeem script cannot be pushed
	}
	var pk, scriptSig []byte
	var wit [][]byte
	switch wrapper {
	case "bare":
		pk = script
		scriptSig = g.scriptSigFrom(items, nil)
	case "p2sh":
		pk = p2shScript(script)
		if g.m("p2sh-hash-mismatch") {
			pk = append([]byte(nil), pk...)
			pk[2+g.arg%20] ^= 1
		}
		scriptSig = g.scriptSigFrom(items, script)
	case "p2wsh":
		prog := sha256b(script)
		if g.m("witness-program-mismatch") {
			prog = append([]byte(nil), prog...)
			prog[g.arg%32] ^= 1
		}
		pk = cat([]byte{0, 32}, prog)
		wit = append(append([][]byte(nil), items...), script)
		scriptSig = []byte{}
	case "p2sh-p2wsh":
		prog := sha256b(script)
		if g.m("witness-program-mismatch") {
			prog = append([]byte(nil), prog...)
			prog[g.arg%32] ^= 1
		}
		redeem := cat([]byte{0, 32}, prog)
		pk = p2shScript(redeem)
		wit = append(append([][]byte(nil), items...), script)
		scriptSig = g.scriptSigFrom(nil, redeem)
	}
	scriptSig, wit = g.witnessLevelMutations(scriptSig, wit, witness)
	return g.finish("", tmpl, pk, scriptSig, wit, wantOK)
}

// witnessLevelMutations: malleations of the scriptSig / witness pairing.
func (g *gctx) witnessLevelMutations(scriptSig []byte, wit [][]byte, isWitness bool) ([]byte, [][]byte) {
	if isWitness {
		if g.m("native-witness-nonempty-scriptsig") {
			scriptSig = cat(scriptSig, [][]byte{{refscript.OP_0}, {refscript.OP_1}, {refscript.OP_NOP}, {1, 0x55}}[g.arg%4])
		}
		if g.m("witness-empty") {
			wit = nil
		}
		if g.m("witness-item-521") && len(wit) > 0 {
			wit = append([][]byte{make([]byte, 521)}, wit...)
		}
		if g.m("witness-item-520") && len(wit) > 0 {
			wit = append([][]byte{make([]byte, 520)}, wit...)
		}
		if g.m("witness-script-dropped") && len(wit) > 0 {
			wit = wit[:len(wit)-1]
		}
	} else {
		if g.m("unexpected-witness") {
			wit = [][]byte{{}, {1}, g.r.Bytes(10)}[: 1+g.arg%3 : 3]
		}
	}
	return scriptSig, wit
}

func (g *gctx) buildP2PKHLike(wrapper string) *spend {
	// p2wpkh | p2sh-p2wpkh
	g.newTx()
	g.prefer |= fWitness | fP2SH
	k := g.key()
	pub := g.pubForm(k, g.r.Chance(1, 8))
	h := hash160(pub)
	if g.m("pkh-hash-mismatch") {
		h = append([]byte(nil), h...)
		h[g.arg%20] ^= 1
	}
	scriptCode := cat([]byte{0x76, 0xa9, 20}, h, []byte{0x88, 0xac})
	sig := g.sigECDSA(k, scriptCode, 1)
	wit := [][]byte{sig, pub}
	if g.m("extra-stack-item") {
		wit = append([][]byte{{1}}, wit...)
	}
	if g.m("p2wpkh-one-item") {
		wit = wit[:1]
	}
	prog := cat([]byte{0, 20}, h)
	var pk, scriptSig []byte
	if wrapper == "p2wpkh" {
		pk = prog
		scriptSig = []byte{}
	} else {
		pk = p2shScript(prog)
		scriptSig = g.scriptSigFrom(nil, prog)
	}
	scriptSig, wit = g.witnessLevelMutations(scriptSig, wit, true)
	return g.finish("", wrapper, pk, scriptSig, wit, g.mut == "")
}

// ---------------------------------------------------------------------------------------------
// unknown witness programs

func (g *gctx) buildWitnessUnknown() *spend {
	g.newTx()
	g.prefer |= fWitness | fP2SH
	r := g.r
	ver := 2 + r.Intn(15) // 2..16
	plen := 2 + r.Intn(39)
	switch r.Intn(5) {
	case 0:
		ver = 1 // v1 with a length other than 32, or P2SH-wrapped v1
		if plen == 32 {
			plen = 31 + 2*r.Intn(2)
		}
	case 1:
		ver = 0 // v0 with wrong length
		for plen == 20 || plen == 32 {
			plen = 2 + r.Intn(39)
		}
	case 2:
		plen = []int{1, 2, 40, 41, 42}[r.Intn(5)] // 1, 41, 42: not witness programs at all
	}
	opv := byte(0)
	if ver > 0 {
		opv = byte(0x50 + ver)
	}
	prog := cat([]byte{opv, byte(plen)}, r.Bytes(plen))
	if r.Chance(1, 10) { // push length byte disagrees with the script length: not a witness program
		prog[1]++
	}
	var wit [][]byte
	for i := r.Intn(4); i > 0; i-- {
		wit = append(wit, r.Bytes(r.Intn(70)))
	}
	tmpl := fmt.Sprintf("witness-v%d", ver)
	if r.Chance(1, 4) {
		g.prefer |= fTaproot
		if r.Chance(1, 2) {
			prog = cat([]byte{0x51, 32}, r.Bytes(32))
		}
		return g.finish("", "p2sh-"+tmpl, p2shScript(prog), push(prog), wit, false)
	}
	return g.finish("", tmpl, prog, []byte{}, wit, false)
}

// ---------------------------------------------------------------------------------------------
// taproot

type tapTree struct {
	leafVersion byte
	script      []byte
	path        [][]byte // sibling hashes from the leaf upwards
}

func (t *tapTree) root() []byte {
	lh := refscript.TapLeafHash(t.leafVersion, t.script)
	k := lh[:]
	for _, n := range t.path {
		h := refscript.TapBranchHash(k, n)
		k = h[:]
	}
	return k
}

// tapOutput computes the output key for an internal key and Merkle root (nil = no script tree).
type tapOut struct {
	internal *keyT
	root     []byte
	q        refec.Point
	tweak    *big.Int
	spk      []byte
}

func makeTapOut(k *keyT, root []byte) *tapOut {
	t := refec.TapTweakHash(k.xonly, root)
	q, why := refec.TaprootOutputKey(k.xonly, t)
	if why != "" {
		panic("taproot output: " + why)
	}
	return &tapOut{internal: k, root: root, q: q, tweak: new(big.Int).SetBytes(t), spk: cat([]byte{0x51, 32}, refec.Bytes32(q.X))}
}

// secret key of the output key, adjusted to the even-y point
func (o *tapOut) seckeyEven() *big.Int {
	d := new(big.Int).Add(o.internal.dEven, o.tweak)
	d.Mod(d, refec.N)
	if o.q.Y.Bit(0) == 1 {
		d.Sub(refec.N, d)
	}
	return d
}

func (o *tapOut) controlByte(leafVersion byte) byte {
	return leafVersion | byte(o.q.Y.Bit(0))
}

var tapHashTypes = []byte{0, 0, 0, 1, 2, 3, 0x81, 0x82, 0x83}

// sigSchnorr signs the BIP341/342 message. sp == nil: key path.
func (g *gctx) sigSchnorr(dEven *big.Int, px []byte, annex []byte, sp *refsighash.ScriptPath) []byte {
	ht := tapHashTypes[g.r.Intn(len(tapHashTypes))]
	if ht&3 == 3 && g.idx >= len(g.tx.Out) {
		ht = 1
	}
	undefinedZero := false
	if g.m("hashtype") {
		ht = byte(g.arg)
	}
	if g.m("hashtype-single-no-output") {
		ht = 3 | byte(g.arg&0x80)
		for len(g.tx.Out) > g.idx {
			g.tx.Out = g.tx.Out[:len(g.tx.Out)-1]
		}
	}
	if g.m("sig-empty") {
		return []byte{}
	}
	spent := g.spent
	if g.m("sign-wrong-amount") {
		spent = append([]reftx.TxOut(nil), g.spent...)
		i := g.arg % len(spent)
		spent[i].Value ^= 1 << uint(g.arg%40)
	}
	if g.m("sign-wrong-spent-script") {
		spent = append([]reftx.TxOut(nil), g.spent...)
		i := g.arg % len(spent)
		spent[i].PkScript = cat(spent[i].PkScript, []byte{0})
	}
	if g.m("sign-annex-ignored") {
		annex = nil
	}
	if g.m("sign-wrong-annex") {
		annex = cat([]byte{0x50}, annex, []byte{1})
	}
	if sp != nil {
		c := *sp
		sp = &c
		if g.m("sign-wrong-leafhash") {
			sp.LeafHash[g.arg%32] ^= 1
		}
		if g.m("sign-key-version-1") {
			sp.KeyVersion = 1
		}
		if g.m("sign-wrong-codesep-pos") {
			if sp.CodeSepPos == 0xffffffff {
				sp.CodeSepPos = uint32(g.arg % 4)
			} else {
				sp.CodeSepPos = [...]uint32{0xffffffff, sp.CodeSepPos + 1, sp.CodeSepPos - 1, 0}[g.arg%4]
			}
		}
		if g.m("sign-as-keypath") {
			sp = nil
		}
	} else if g.m("sign-as-scriptpath") {
		sp = &refsighash.ScriptPath{CodeSepPos: 0xffffffff}
	}
	idx := g.idx
	if g.m("sign-wrong-input-index") && len(g.tx.In) > 1 {
		idx = (idx + 1) % len(g.tx.In)
	}
	digest, err := refsighash.Taproot(g.tx, spent, idx, ht, annex, sp)
	if err != nil {
		// BIP341 defines no digest (undefined hash type / SINGLE without output). Sign the all-zero
		// message: that is what an implementation returning a zero digest would accept.
		digest = [32]byte{}
		undefinedZero = true
		g.note = append(g.note, "no-digest:signed-zero-message")
	}
	_ = undefinedZero
	if g.m("sign-wrong-key") {
		o := keys[(g.arg+3)%len(keys)]
		dEven = o.dEven
	}
	sig := schnorrSign(dEven, px, digest[:], g.r.Intn(nNonces))
	if ht != 0 {
		sig = append(sig, ht)
	}
	if g.m("schnorr-explicit-default-hashtype") && len(sig) == 64 {
		sig = append(sig, 0)
	}
	if g.m("schnorr-len") {
		switch g.arg % 4 {
		case 0:
			sig = sig[:63]
		case 1:
			sig = append(sig[:64:64], 1, 0)
		case 2:
			sig = append(sig, 0)
			if len(sig) == 65 {
				sig = append(sig, 0)
			}
		case 3:
			sig = sig[:32]
		}
	}
	if g.m("sig-bitflip") {
		i := g.arg % (len(sig) * 8)
		sig[i/8] ^= 1 << uint(i%8)
	}
	if g.m("schnorr-s-plus-n") {
		s := new(big.Int).Add(new(big.Int).SetBytes(sig[32:64]), refec.N)
		if s.BitLen() <= 256 {
			copy(sig[32:64], refec.Bytes32(s))
		}
	}
	if g.m("schnorr-r-ge-p") {
		copy(sig[:32], refec.Bytes32(new(big.Int).Add(refec.P, big.NewInt(int64(g.arg%7)))))
	}
	return sig
}

func (g *gctx) maybeAnnex() []byte {
	if g.r.Chance(1, 4) || g.mut == "sign-annex-ignored" || g.mut == "sign-wrong-annex" || g.mut == "annex-added-after-signing" && false {
		n := g.r.Intn(20)
		if g.r.Chance(1, 10) {
			n = 300
		}
		return cat([]byte{0x50}, g.r.Bytes(n))
	}
	return nil
}

func (g *gctx) buildP2TRKey() *spend {
	g.newTx()
	g.prefer |= fTaproot | fWitness | fP2SH
	k := g.key()
	var root []byte
	if g.r.Chance(1, 2) {
		root = g.r.Bytes(32)
	}
	out := makeTapOut(k, root)
	pk := out.spk
	d := out.seckeyEven()
	px := refec.Bytes32(out.q.X)
	if g.r.Chance(1, 8) {
		// an output key that is not a tweaked key at all (key path does not care)
		pk = cat([]byte{0x51, 32}, k.xonly)
		d, px = k.dEven, k.xonly
	}
	if g.m("output-key-bitflip") {
		pk = append([]byte(nil), pk...)
		pk[2+g.arg%32] ^= 1 << uint(g.arg%8)
	}
	if g.m("output-key-ge-p") {
		pk = cat([]byte{0x51, 32}, refec.Bytes32(new(big.Int).Add(refec.P, big.NewInt(int64(1+g.arg%5)))))
	}
	g.spent[g.idx].PkScript = pk
	annex := g.maybeAnnex()
	sig := g.sigSchnorr(d, px, annex, nil)
	wit := [][]byte{sig}
	if annex != nil {
		wit = append(wit, annex)
	}
	if g.m("annex-added-after-signing") {
		if annex == nil {
			wit = append(wit, cat([]byte{0x50}, g.r.Bytes(g.arg%5)))
		} else {
			wit = wit[:1]
		}
	}
	if g.m("annex-only") {
		wit = [][]byte{{0x50, 1}}
	}
	if g.m("witness-empty") {
		wit = nil
	}
	scriptSig := []byte{}
	if g.m("native-witness-nonempty-scriptsig") {
		scriptSig = [][]byte{{refscript.OP_0}, {refscript.OP_1}, {refscript.OP_NOP}}[g.arg%3]
	}
	if g.m("p2sh-wrapped-taproot") {
		// P2SH(v1 program) is not taproot: anything goes (DISCOURAGE_UPGRADABLE_WITNESS_PROGRAM aside)
		scriptSig = push(pk)
		pk = p2shScript(pk)
	}
	return g.finish("", "p2tr-key", pk, scriptSig, wit, g.mut == "")
}

var tapLeafKinds = []string{"checksig", "checksig", "checksigadd", "checksigadd", "codesep", "success", "unknown-leaf-version", "sigops-budget",
	"checksig-not", "ifelse", "checkmultisig", "upgradable-pubkey", "bigstack"}

var successOps = func() []byte {
	var l []byte
	for op := 0; op < 256; op++ {
		if refscript.IsOpSuccess(byte(op)) {
			l = append(l, byte(op))
		}
	}
	return l
}()

func (g *gctx) buildP2TRScript(kind string) *spend {
	g.newTx()
	g.prefer |= fTaproot | fWitness | fP2SH
	r := g.r
	ik := g.key()
	leafVersion := byte(0xc0)
	maxDepth := 5
	if g.thorough {
		maxDepth = 128
	}
	depth := r.Intn(maxDepth + 1)
	if r.Chance(1, 3) {
		depth = r.Intn(3)
	}
	if g.m("control-129-nodes") {
		depth = 129
	}
	annex := g.maybeAnnex()
	var script []byte
	wantOK := g.mut == ""
	// the leaf script is needed before signing (leaf hash); build it first, signatures after
	type sigReq struct {
		k      *keyT
		codesp uint32
	}
	var mkItems func(sign func(k *keyT, codesep uint32) []byte) [][]byte
	xonly := func(k *keyT) []byte {
		p := k.xonly
		if g.m("key-bitflip") {
			p = append([]byte(nil), p...)
			i := g.arg % 256
			p[i/8] ^= 1 << uint(i%8)
		}
		if g.m("key-x-ge-p") {
			p = refec.Bytes32(new(big.Int).Add(refec.P, big.NewInt(int64(1+g.arg%5))))
		}
		if g.m("key-empty") {
			p = []byte{}
		}
		if g.m("key-33-bytes") {
			p = k.comp
		}
		if g.m("key-truncated") {
			p = p[:31]
		}
		return p
	}
	switch kind {
	case "checksig":
		k := g.key()
		script = cat(push(xonly(k)), []byte{refscript.OP_CHECKSIG})
		mkItems = func(sign func(*keyT, uint32) []byte) [][]byte { return [][]byte{sign(k, 0xffffffff)} }
	case "checksig-not":
		k := g.key()
		script = cat(push(xonly(k)), []byte{refscript.OP_CHECKSIG, refscript.OP_NOT})
		mkItems = func(sign func(*keyT, uint32) []byte) [][]byte {
			s := []byte{}
			if g.m("nullfail-nonempty-invalid-sig") {
				other := keys[0]
				if other == k {
					other = keys[1]
				}
				s = sign(other, 0xffffffff)
			}
			return [][]byte{s}
		}
	case "checksigadd":
		n := 1 + r.Intn(6)
		if r.Chance(1, 10) {
			n = 20 + r.Intn(30)
		}
		m := 1 + r.Intn(n)
		if m > 4 {
			m = 1 + r.Intn(4)
		}
		ks := make([]*keyT, n)
		for i := range ks {
			ks[i] = g.key()
			script = append(script, push(xonly(ks[i]))...)
			if i == 0 {
				script = append(script, refscript.OP_CHECKSIG)
			} else {
				script = append(script, refscript.OP_CHECKSIGADD)
			}
		}
		script = append(script, pushN(int64(m))...)
		script = append(script, refscript.OP_NUMEQUAL)
		signers := map[int]bool{}
		for _, p := range r.Perm(n)[:m] {
			signers[p] = true
		}
		mkItems = func(sign func(*keyT, uint32) []byte) [][]byte {
			items := make([][]byte, n)
			for i := 0; i < n; i++ {
				s := []byte{}
				if signers[i] {
					s = sign(ks[i], 0xffffffff)
				}
				items[n-1-i] = s
			}
			if g.m("checksigadd-one-sig-too-many") {
				for i := 0; i < n; i++ {
					if !signers[i] {
						items[n-1-i] = sign(ks[i], 0xffffffff)
						break
					}
				}
			}
			return items
		}
	case "codesep":
		k1, k2 := g.key(), g.key()
		variant := r.Intn(3)
		switch variant {
		case 0: // <k1> CHECKSIGVERIFY CODESEPARATOR <k2> CHECKSIG : positions 0 1 2 3 4
			script = cat(push(xonly(k1)), []byte{refscript.OP_CHECKSIGVERIFY, refscript.OP_CODESEPARATOR}, push(xonly(k2)), []byte{refscript.OP_CHECKSIG})
			mkItems = func(sign func(*keyT, uint32) []byte) [][]byte {
				return [][]byte{sign(k2, 2), sign(k1, 0xffffffff)}
			}
		case 1: // CODESEPARATOR in an unexecuted branch does not count; the executed one at position 5 does
			// 0 IF(1) CODESEPARATOR(2) ENDIF(3) NOP(4) CODESEPARATOR(5) <k1>(6) CHECKSIG(7)
			script = cat([]byte{refscript.OP_0, refscript.OP_IF, refscript.OP_CODESEPARATOR, refscript.OP_ENDIF, refscript.OP_NOP, refscript.OP_CODESEPARATOR}, push(xonly(k1)), []byte{refscript.OP_CHECKSIG})
			mkItems = func(sign func(*keyT, uint32) []byte) [][]byte { return [][]byte{sign(k1, 5)} }
		case 2: // two separators: the last executed one counts; pushes of several bytes are one opcode
			// <20 bytes>(0) DROP(1) CODESEPARATOR(2) <k1>(3) CHECKSIGVERIFY(4) CODESEPARATOR(5) <k2>(6) CHECKSIG(7)
			script = cat(push(r.Bytes(20)), []byte{refscript.OP_DROP, refscript.OP_CODESEPARATOR}, push(xonly(k1)), []byte{refscript.OP_CHECKSIGVERIFY, refscript.OP_CODESEPARATOR}, push(xonly(k2)), []byte{refscript.OP_CHECKSIG})
			mkItems = func(sign func(*keyT, uint32) []byte) [][]byte {
				return [][]byte{sign(k2, 5), sign(k1, 2)}
			}
		}
	case "success":
		op := successOps[r.Intn(len(successOps))]
		if g.sweep {
			op = successOps[g.arg%len(successOps)]
		}
		var pre, post []byte
		for i := r.Intn(4); i > 0; i-- {
			pre = append(pre, push(r.Bytes(r.Intn(6)))...)
		}
		switch r.Intn(5) {
		case 0:
			post = r.Bytes(r.Intn(20)) // arbitrary garbage incl. unparsable pushes after the OP_SUCCESS
		case 1:
			post = []byte{refscript.OP_PUSHDATA1} // truncated push after
		case 2:
			post = []byte{refscript.OP_RETURN, refscript.OP_CAT, 0xff}
		}
		if g.m("success-after-truncated-push") {
			pre = cat(pre, []byte{refscript.OP_PUSHDATA2, 0xff}) // swallows the rest: BAD_OPCODE, no OP_SUCCESS seen
			wantOK = false
		}
		if g.m("success-inside-push-data") {
			pre = cat(pre, []byte{2, op}) // the OP_SUCCESS byte is push data, not an opcode
			op = refscript.OP_1
			post = nil
		}
		script = cat(pre, []byte{op}, post)
		nItems := r.Intn(4)
		if g.m("success-with-oversize-stack") {
			nItems = 1001
		}
		mkItems = func(sign func(*keyT, uint32) []byte) [][]byte {
			var it [][]byte
			for i := 0; i < nItems; i++ {
				it = append(it, r.Bytes(r.Intn(3)))
			}
			if g.m("success-with-521-byte-item") {
				it = append(it, make([]byte, 521))
			}
			return it
		}
	case "unknown-leaf-version":
		vers := []byte{0xc2, 0xc4, 0x00, 0x02, 0x66, 0x7e, 0x80, 0xbe, 0xfe, 0x52, 0xfa}
		leafVersion = vers[r.Intn(len(vers))]
		if r.Chance(1, 8) {
			leafVersion = byte(r.Intn(128)) << 1
			if leafVersion == 0xc0 {
				leafVersion = 0xc2
			}
		}
		if leafVersion == 0x50 {
			wantOK = false // control block starting 0x50/0x51 is taken for an annex
		}
		script = r.Bytes(r.Intn(30))
		mkItems = func(sign func(*keyT, uint32) []byte) [][]byte {
			var it [][]byte
			for i := r.Intn(3); i > 0; i-- {
				it = append(it, r.Bytes(r.Intn(5)))
			}
			return it
		}
	case "upgradable-pubkey":
		// non-32-byte, non-empty key: CHECKSIG succeeds for any non-empty signature
		kl := []int{1, 2, 31, 33, 64, 65, 100}[r.Intn(7)]
		script = cat(push(r.Bytes(kl)), []byte{refscript.OP_CHECKSIG})
		mkItems = func(sign func(*keyT, uint32) []byte) [][]byte {
			if g.m("sig-empty") {
				return [][]byte{{}}
			}
			return [][]byte{r.Bytes(1 + r.Intn(70))}
		}
	case "sigops-budget":
		// DUP <33-byte key> CHECKSIGVERIFY repeated: every check with a non-empty signature costs 50
		// units of the budget 50 + serialized witness size. The annex length tunes the budget to
		// exactly delta units above/below what is needed.
		reps := 8 + r.Intn(30)
		if depth > 2 {
			depth = r.Intn(3) // keep the control block small so that the annex can tune the budget
		}
		key33 := cat([]byte{2}, r.Bytes(32))
		for i := 0; i < reps; i++ {
			script = cat(script, []byte{refscript.OP_DUP}, push(key33), []byte{refscript.OP_CHECKSIGVERIFY})
		}
		script = cat(script, push(key33), []byte{refscript.OP_CHECKSIG})
		need := int64(50 * (reps + 1))
		delta := int64([]int{0, 0, 1, -1, -1, 2, -50}[r.Intn(7)])
		if g.m("sigops-budget-minus-1") {
			delta = -1
		}
		wantOK = wantOK && delta >= 0
		mkItems = func(sign func(*keyT, uint32) []byte) [][]byte {
			// sizes: count(1) + sigitem + script + control + annex
			ctrl := 33 + 32*depth
			base := int64(1 + ser(1) + ser(len(script)) + ser(ctrl))
			// want base + annexSer + 50 == need + delta
			annexSer := need + delta - 50 - base
			sigLen := 1
			if annexSer < 2 {
				// no room for an annex: grow nothing; use the signature length instead
				annex = nil
				sl := need + delta - 50 - int64(1+ser(len(script))+ser(ctrl))
				// ser(sigLen) == sl
				if sl >= 2 && sl <= 253 {
					sigLen = int(sl) - 1
				} else {
					wantOK = false
				}
			} else {
				// annexSer = compactsize(len)+len
				l := annexSer - 1
				if l > 252 {
					l = annexSer - 3
				}
				if l < 1 || l > 60000 || int64(ser(int(l))) != annexSer {
					wantOK = false
					l = 1
				}
				annex = append([]byte{0x50}, make([]byte, l-1)...)
			}
			s := bytes.Repeat([]byte{0x01}, sigLen)
			return [][]byte{s}
		}
	case "ifelse":
		k1, k2 := g.key(), g.key()
		script = cat([]byte{refscript.OP_IF}, push(xonly(k1)), []byte{refscript.OP_CHECKSIG, refscript.OP_ELSE}, push(xonly(k2)), []byte{refscript.OP_CHECKSIG, refscript.OP_ENDIF})
		first := r.Bool()
		mkItems = func(sign func(*keyT, uint32) []byte) [][]byte {
			k, sel := k2, []byte{}
			if first {
				k, sel = k1, []byte{1}
			}
			if g.m("minimalif-operand") {
				truthy := [][]byte{{2}, {1, 0}, {0x81}, {0, 1}, {0xff}}
				falsy := [][]byte{{0}, {0x80}, {0, 0}}
				if first {
					sel = truthy[g.arg%len(truthy)]
				} else {
					sel = falsy[g.arg%len(falsy)]
				}
			}
			return [][]byte{sign(k, 0xffffffff), sel}
		}
	case "checkmultisig":
		// disabled in tapscript, also in an executed branch only
		k := g.key()
		if r.Bool() {
			script = cat(pushN(0), pushN(0), []byte{refscript.OP_CHECKMULTISIG})
			wantOK = false
			mkItems = func(sign func(*keyT, uint32) []byte) [][]byte { return [][]byte{{}} }
		} else {
			script = cat([]byte{refscript.OP_0, refscript.OP_IF, refscript.OP_CHECKMULTISIG, refscript.OP_CHECKMULTISIGVERIFY, refscript.OP_ENDIF}, push(xonly(k)), []byte{refscript.OP_CHECKSIG})
			mkItems = func(sign func(*keyT, uint32) []byte) [][]byte { return [][]byte{sign(k, 0xffffffff)} }
		}
	case "bigstack":
		// initial stack of exactly 1000 / 1001 items (tapscript checks it before execution)
		n := 1000 + r.Intn(2)
		if g.m("tapscript-initial-stack-1001") {
			n = 1001
		}
		wantOK = wantOK && n == 1000
		// 1000 items + script: 2DROP x499, then DROP and leave one: items must be non-empty true at the bottom
		for i := 0; i < 499; i++ {
			script = append(script, refscript.OP_2DROP)
		}
		script = append(script, refscript.OP_DROP)
		mkItems = func(sign func(*keyT, uint32) []byte) [][]byte {
			it := make([][]byte, n)
			for i := range it {
				it[i] = []byte{1}
			}
			return it
		}
	default:
		panic("tap leaf kind " + kind)
	}
	if g.m("leaf-version-odd-bit") {
		// the parity bit is not part of the leaf version; handled below via control byte
	}
	tree := &tapTree{leafVersion: leafVersion, script: script}
	for i := 0; i < depth; i++ {
		tree.path = append(tree.path, r.Bytes(32))
	}
	root := tree.root()
	out := makeTapOut(ik, root)
	pk := out.spk
	internal := ik.xonly
	ctrl0 := out.controlByte(leafVersion)

	if g.m("internal-key-ge-p") {
		// internal key bytes = x + p for a small liftable x: an implementation that reduces mod p lifts x
		var x *big.Int
		for c := int64(1 + g.arg%3); ; c++ {
			x = big.NewInt(c)
			if _, ok := refec.LiftX(x); ok {
				break
			}
		}
		internal = refec.Bytes32(new(big.Int).Add(refec.P, x))
		pt, _ := refec.LiftX(x)
		t := refec.TapTweakHash(internal, root)
		q := refec.Add(pt, refec.ScalarBaseMult(new(big.Int).SetBytes(t)))
		pk = cat([]byte{0x51, 32}, refec.Bytes32(q.X))
		ctrl0 = leafVersion | byte(q.Y.Bit(0))
	}
	if g.m("internal-key-not-liftable") {
		// x with x^3+7 a non-residue; the output key is computed with the implementation's own
		// arithmetic (no validity check) so that its tweak equation holds
		var x *big.Int
		for c := int64(1 + g.arg%50); ; c++ {
			x = big.NewInt(c)
			if g.arg%2 == 1 {
				x = new(big.Int).SetBytes(sha256b([]byte(fmt.Sprint("nl", c))))
				x.Mod(x, refec.P)
			}
			if _, ok := refec.LiftX(x); !ok {
				break
			}
		}
		internal = refec.Bytes32(x)
		t := refec.TapTweakHash(internal, root)
		var pt secp256k1.XY
		pt.X.SetB32(internal)
		pt.SetXO(&pt.X, false)
		var tw secp256k1.Number
		tw.SetBytes(t)
		if pt.ECPublicTweakAdd(&tw) {
			pt.X.Normalize()
			pt.Y.Normalize()
			var qx [32]byte
			pt.X.GetB32(qx[:])
			pk = cat([]byte{0x51, 32}, qx[:])
			ctrl0 = leafVersion
			if pt.Y.IsOdd() {
				ctrl0 |= 1
			}
		}
	}
	g.spent[g.idx].PkScript = pk

	lh := refscript.TapLeafHash(leafVersion, script)
	sign := func(k *keyT, codesep uint32) []byte {
		return g.sigSchnorr(k.dEven, k.xonly, annex, &refsighash.ScriptPath{LeafHash: lh, CodeSepPos: codesep})
	}
	items := mkItems(sign)
	if g.m("extra-stack-item") {
		items = append([][]byte{{1}}, items...)
	}
	control := cat([]byte{ctrl0}, internal)
	for _, n := range tree.path {
		control = append(control, n...)
	}
	if g.m("control-parity-flip") {
		control[0] ^= 1
	}
	if g.m("control-bitflip") {
		i := 8 + g.arg%((len(control)-1)*8)
		control[i/8] ^= 1 << uint(i%8)
	}
	if g.m("control-leaf-version-flip") {
		control[0] ^= 2 << uint(g.arg%7)
	}
	if g.m("control-len") {
		switch g.arg % 6 {
		case 0:
			control = control[:len(control)-1]
		case 1:
			control = append(control, 0)
		case 2:
			control = append(control, make([]byte, 32)...) // one more (uncommitted) node
		case 3:
			control = control[:32]
		case 4:
			control = control[:1]
		case 5:
			if len(control) >= 65 {
				control = control[:len(control)-32] // one node fewer
			} else {
				control = append(control, make([]byte, 31)...)
			}
		}
	}
	if g.m("script-bitflip") && len(script) > 0 {
		script = append([]byte(nil), script...)
		i := g.arg % (len(script) * 8)
		script[i/8] ^= 1 << uint(i%8)
	}
	if g.m("output-key-bitflip") {
		pk = append([]byte(nil), pk...)
		pk[2+g.arg%32] ^= 1 << uint(g.arg%8)
		g.spent[g.idx].PkScript = pk
	}
	wit := append(append([][]byte(nil), items...), script, control)
	if annex != nil {
		wit = append(wit, annex)
	}
	if g.m("annex-added-after-signing") {
		if annex == nil {
			wit = append(wit, cat([]byte{0x50}, r.Bytes(g.arg%5)))
		} else {
			wit = wit[:len(wit)-1]
		}
	}
	if g.m("witness-empty") {
		wit = nil
	}
	if g.m("witness-item-521") {
		wit = append([][]byte{make([]byte, 521)}, wit...)
	}
	scriptSig := []byte{}
	if g.m("native-witness-nonempty-scriptsig") {
		scriptSig = [][]byte{{refscript.OP_0}, {refscript.OP_1}, {refscript.OP_NOP}}[g.arg%3]
	}
	return g.finish("", "p2tr-script("+kind+")", pk, scriptSig, wit, wantOK)
}

func ser(n int) int { return reftx.CompactSizeLen(uint64(n)) + n }

// ---------------------------------------------------------------------------------------------
// FindAndDelete: the signature (or something that looks like its push) sits inside the script code

func (g *gctx) buildSigInScript() *spend {
	g.newTx()
	r := g.r
	k := g.key()
	pub := k.comp
	// sizes: ordinary (71..73 bytes), or padded to 76..252 (PUSHDATA1) / 253..520 (PUSHDATA2)
	pad := 0
	switch r.Intn(4) {
	case 1:
		pad = 5 + r.Intn(170)
	case 2:
		pad = 190 + r.Intn(250)
	case 3:
		pad = []int{3, 4, 5, 6, 180, 181, 182, 183}[r.Intn(8)]
	}
	if g.mut == "find-and-delete-size" {
		g.applied = true
		pad = g.arg
	}
	variant := r.Intn(5)
	ht := byte(1)
	tail := cat(push(pub), []byte{refscript.OP_CHECKSIG})
	// The signed script code is the script with every push of the signature removed; that does not
	// depend on the signature, so it can be computed first.
	var prefix []byte
	switch variant {
	case 1:
		prefix = []byte{refscript.OP_NOP}
	case 2:
		prefix = cat(push(r.Bytes(5)), []byte{refscript.OP_DROP})
	}
	codeWithout := cat(prefix, tail)
	digest := refsighash.Legacy(g.tx, codeWithout, g.idx, uint32(ht))
	rr, ss := ecdsaSign(k.d, digest[:], r.Intn(nNonces), true)
	style := "strict"
	if pad > 0 {
		style = "r-zero-padded"
	}
	sig := append(encodeDER(rr, ss, style, pad), ht)
	var pk, scriptSig []byte
	tmpl := "sig-in-scriptcode"
	switch variant {
	case 0, 1, 2:
		// scriptPubKey: prefix <sig> <pub> CHECKSIG, empty scriptSig
		pk = cat(prefix, push(sig), tail)
		scriptSig = []byte{}
	case 3:
		// signature pushed by the scriptSig, and the scriptPubKey carries a copy that is dropped:
		// <sig> DROP <pub> CHECKSIG ; script code without the push: DROP <pub> CHECKSIG
		code := cat([]byte{refscript.OP_DROP}, tail)
		digest = refsighash.Legacy(g.tx, code, g.idx, uint32(ht))
		rr, ss = ecdsaSign(k.d, digest[:], r.Intn(nNonces), true)
		sig = append(encodeDER(rr, ss, style, pad), ht)
		pk = cat(push(sig), code)
		scriptSig = push(sig)
		tmpl = "sig-in-scriptcode-dup"
	case 4:
		// the same through CHECKMULTISIG: <sig> DROP 1 <pub> 1 CHECKMULTISIG, scriptSig: 0 <sig>
		code := cat([]byte{refscript.OP_DROP, refscript.OP_1}, push(pub), []byte{refscript.OP_1, refscript.OP_CHECKMULTISIG})
		digest = refsighash.Legacy(g.tx, code, g.idx, uint32(ht))
		rr, ss = ecdsaSign(k.d, digest[:], r.Intn(nNonces), true)
		sig = append(encodeDER(rr, ss, style, pad), ht)
		pk = cat(push(sig), code)
		scriptSig = cat([]byte{refscript.OP_0}, push(sig))
		tmpl = "sig-in-scriptcode-multisig"
	}
	if g.m("find-and-delete-nonminimal-push") {
		// the copy inside the script uses a different push opcode than CScript() << sig: not deleted
		op := byte(refscript.OP_PUSHDATA2)
		if len(sig) > 75 && len(sig) < 256 {
			op = []byte{refscript.OP_PUSHDATA2, refscript.OP_PUSHDATA4}[g.arg%2]
		} else if len(sig) <= 75 {
			op = []byte{refscript.OP_PUSHDATA1, refscript.OP_PUSHDATA2, refscript.OP_PUSHDATA4}[g.arg%3]
		} else {
			op = refscript.OP_PUSHDATA4
		}
		pk = bytes.Replace(pk, push(sig), pushWith(op, sig), 1)
	}
	g.note = append(g.note, fmt.Sprintf("siglen=%d", len(sig)))
	s := g.finish("", tmpl, pk, scriptSig, nil, g.mut == "" && pad == 0)
	return s
}
