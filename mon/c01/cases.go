package main

import (
	"bytes"
	"fmt"

	"verif/lib/vlib"
	"verif/ref/refscript"
)

// ---------------------------------------------------------------------------------------------
// flag sets

var stageFlags = []uint32{
	0,
	fP2SH,
	fP2SH | fDERSig,
	fP2SH | fDERSig | fCLTV,
	fP2SH | fDERSig | fCLTV | fCSV,
	fP2SH | fDERSig | fCLTV | fCSV | fWitness | fNullDummy,
	consensusAll,
}

// gocoin's script.STANDARD_VERIFY_FLAGS and Core's STANDARD_SCRIPT_VERIFY_FLAGS
const (
	gocoinStandard = refscript.FlagP2SH | refscript.FlagStrictEnc | refscript.FlagDERSig | refscript.FlagLowS | refscript.FlagNullDummy |
		refscript.FlagMinimalData | refscript.FlagDiscourageUpgradableNops | refscript.FlagCleanStack | refscript.FlagCheckLockTimeVerify |
		refscript.FlagCheckSequenceVerify | refscript.FlagWitness | refscript.FlagDiscourageUpgradableWitnessProg | refscript.FlagMinimalIf |
		refscript.FlagNullFail | refscript.FlagWitnessPubKeyType | refscript.FlagConstScriptCode | refscript.FlagTaproot |
		refscript.FlagDiscourageOpSuccess | refscript.FlagDiscourageUpgradablePubKeyType
	coreStandard = gocoinStandard | refscript.FlagDiscourageUpgradableTaprootVer
)

// closeFlags makes a flag set consistent (Core's IsValidFlagCombination, plus TAPROOT => WITNESS).
func closeFlags(f uint32, r *vlib.Rand) uint32 {
	f &= refscript.AllFlags
	if f&refscript.FlagCleanStack != 0 {
		if r.Bool() {
			f |= fP2SH | fWitness
		} else {
			f &^= refscript.FlagCleanStack
		}
	}
	if f&fTaproot != 0 {
		f |= fWitness
	}
	if f&fWitness != 0 {
		f |= fP2SH
	}
	return f
}

func randomFlags(r *vlib.Rand) uint32 {
	f := uint32(r.U64())
	switch r.Intn(4) {
	case 0: // sparse
		f &= uint32(r.U64())
	case 1: // dense
		f |= uint32(r.U64())
	}
	return closeFlags(f, r)
}

// flagSetsFor picks the flag sets one spend is verified under.
func flagSetsFor(sp *spend, r *vlib.Rand, n int) []uint32 {
	var out []uint32
	add := func(f uint32) {
		f = closeFlags(f, r)
		for _, x := range out {
			if x == f {
				return
			}
		}
		out = append(out, f)
	}
	// 1. a chain stage at which the case is meaningful (the last one mostly)
	st := stageFlags[len(stageFlags)-1]
	if r.Chance(1, 3) {
		st = stageFlags[r.Intn(len(stageFlags))]
	}
	add(st)
	// 2. the standard policy set, or that set with one flag removed / one stage plus one flag
	switch r.Intn(4) {
	case 0:
		add(gocoinStandard)
	case 1:
		add(coreStandard)
	case 2:
		add(coreStandard &^ (1 << uint(r.Intn(21))))
	case 3:
		add(consensusAll | 1<<uint(r.Intn(21)))
	}
	// 3. random subsets, one of them containing what the case needs
	add(randomFlags(r) | sp.Prefer)
	for len(out) < n {
		add(randomFlags(r))
	}
	return out
}

// ---------------------------------------------------------------------------------------------
// templates and mutations

type tmplDef struct {
	name  string
	tags  []string
	build func(g *gctx) *spend
	w     int
}

var templates []tmplDef

func tagsOfInner(kind string) []string {
	t := []string{"ecdsa", "inner"}
	switch kind {
	case "pkh":
		t = append(t, "pkh")
	case "multisig", "multisigverify":
		t = append(t, "multisig")
	case "multisig-not":
		t = append(t, "multisig", "not")
	case "checksig-not":
		t = append(t, "not", "checksig-not")
	case "checksig-not-badsig", "multisig-not-badsig":
		t = append(t, "badsig")
	case "codesep", "cltv", "csv", "ifelse", "hashlock":
		t = append(t, kind)
	}
	return t
}

func init() {
	seen := map[string]bool{}
	for _, kind := range innerKinds {
		if seen[kind] {
			continue
		}
		seen[kind] = true
		kind := kind
		base := tagsOfInner(kind)
		templates = append(templates,
			tmplDef{"bare(" + kind + ")", append([]string{"legacy", "scriptsig", "bare"}, base...), func(g *gctx) *spend { return g.buildECDSA("bare", kind) }, 2},
			tmplDef{"p2sh(" + kind + ")", append([]string{"legacy", "scriptsig", "p2sh"}, base...), func(g *gctx) *spend { return g.buildECDSA("p2sh", kind) }, 2},
			tmplDef{"p2wsh(" + kind + ")", append([]string{"witv0", "witness", "native-witness", "wsh"}, base...), func(g *gctx) *spend { return g.buildECDSA("p2wsh", kind) }, 2},
			tmplDef{"p2sh-p2wsh(" + kind + ")", append([]string{"witv0", "witness", "p2sh", "p2sh-witness", "wsh"}, base...), func(g *gctx) *spend { return g.buildECDSA("p2sh-p2wsh", kind) }, 1},
		)
	}
	templates = append(templates,
		tmplDef{"p2wpkh", []string{"ecdsa", "witv0", "witness", "native-witness", "pkh", "wpkh"}, func(g *gctx) *spend { return g.buildP2PKHLike("p2wpkh") }, 10},
		tmplDef{"p2sh-p2wpkh", []string{"ecdsa", "witv0", "witness", "p2sh", "p2sh-witness", "pkh", "wpkh"}, func(g *gctx) *spend { return g.buildP2PKHLike("p2sh-p2wpkh") }, 6},
		tmplDef{"p2tr-key", []string{"schnorr", "taproot", "keypath", "witness", "native-witness"}, func(g *gctx) *spend { return g.buildP2TRKey() }, 16},
		tmplDef{"witness-unknown", []string{"witness-unknown"}, func(g *gctx) *spend { return g.buildWitnessUnknown() }, 5},
		tmplDef{"sig-in-scriptcode", []string{"find-and-delete"}, func(g *gctx) *spend { return g.buildSigInScript() }, 6},
	)
	seen = map[string]bool{}
	for _, kind := range tapLeafKinds {
		if seen[kind] {
			continue
		}
		seen[kind] = true
		kind := kind
		tags := []string{"taproot", "scriptpath", "witness", "native-witness", "tap-" + kind}
		switch kind {
		case "checksig", "checksigadd", "codesep", "ifelse":
			tags = append(tags, "schnorr", "tapsig")
		case "checksig-not":
			tags = append(tags, "tapsig", "not")
		}
		if kind == "ifelse" {
			tags = append(tags, "ifelse")
		}
		w := 3
		if kind == "checksig" || kind == "checksigadd" {
			w = 6
		}
		if kind == "bigstack" {
			w = 1
		}
		templates = append(templates, tmplDef{"p2tr-script(" + kind + ")", tags, func(g *gctx) *spend { return g.buildP2TRScript(kind) }, w})
	}
}

type mutDef struct {
	name string
	tag  string // template tag the mutation needs
	args int    // arg is drawn from [0, args)
	w    int
}

var mutations = []mutDef{
	// ECDSA signing-time
	{"hashtype", "ecdsa", 256, 6}, {"hashtype-single-no-output", "ecdsa", 256, 2}, {"sig-empty", "ecdsa", 1, 2},
	{"sign-wrong-amount", "witv0", 4000, 3}, {"sign-wrong-scriptcode", "ecdsa", 1, 2}, {"sign-wrong-input-index", "ecdsa", 1, 1},
	{"sign-wrong-sigversion", "ecdsa", 1, 2}, {"sign-wrong-key", "ecdsa", 24, 2}, {"high-s", "ecdsa", 1, 4},
	{"s-plus-n", "ecdsa", 1, 2}, {"r-plus-n", "ecdsa", 1, 1}, {"s-zero", "ecdsa", 1, 1}, {"der", "ecdsa", 30, 8}, {"der", "ecdsa", 1450, 2},
	{"sig-bitflip", "ecdsa", 600, 4}, {"sig-truncate", "ecdsa", 3, 1}, {"sig-no-hashtype", "ecdsa", 1, 1}, {"sig-hashtype-is-last-s-byte", "ecdsa", 256, 3},
	{"key-uncompressed", "ecdsa", 1, 3}, {"key-hybrid", "ecdsa", 1, 3}, {"key-hybrid-wrong-parity", "ecdsa", 1, 1}, {"key-bitflip", "ecdsa", 520, 3},
	{"key-x-ge-p", "ecdsa", 5, 1}, {"key-truncated", "ecdsa", 1, 1}, {"key-empty", "ecdsa", 1, 1}, {"extra-stack-item", "inner", 1, 3},
	{"extra-stack-item", "wpkh", 1, 1}, {"pkh-hash-mismatch", "pkh", 20, 1},
	{"multisig-21-keys", "multisig", 1, 1}, {"multisig-m-gt-n", "multisig", 1, 1}, {"multisig-negative-n", "multisig", 1, 1},
	{"multisig-dummy-nonnull", "multisig", 5, 4}, {"multisig-sigs-wrong-order", "multisig", 1, 2}, {"multisig-missing-sig", "multisig", 1, 1},
	{"multisig-missing-dummy", "multisig", 1, 1}, {"nullfail-nonempty-invalid-sig", "not", 1, 5}, {"valid-sig-under-not", "checksig-not", 1, 1},
	{"codesep-ignored-by-signer", "codesep", 1, 2}, {"cltv-operand", "cltv", 14, 6}, {"cltv-final-sequence", "cltv", 1, 1},
	{"csv-operand", "csv", 14, 6}, {"csv-version-1", "csv", 2, 1}, {"csv-sequence-disabled", "csv", 1, 1},
	{"minimalif-operand", "ifelse", 12, 5}, {"hashlock-wrong-preimage", "hashlock", 1, 1}, {"hashlock-preimage-size", "hashlock", 4, 3},
	{"scriptsig-nonminimal-push", "scriptsig", 21, 4}, {"scriptsig-not-pushonly", "scriptsig", 10, 3}, {"scriptsig-extra-item", "scriptsig", 1, 2},
	{"unexpected-witness", "scriptsig", 3, 3}, {"p2sh-redeem-push-malleated", "p2sh", 4, 4}, {"p2sh-hash-mismatch", "p2sh", 20, 1},
	{"witness-program-mismatch", "wsh", 32, 2}, {"native-witness-nonempty-scriptsig", "native-witness", 4, 3}, {"witness-empty", "witness", 1, 1},
	{"witness-item-521", "wsh", 1, 1}, {"witness-item-520", "wsh", 1, 1}, {"witness-script-dropped", "wsh", 1, 1}, {"p2wpkh-one-item", "wpkh", 1, 1},
	// taproot
	{"hashtype", "schnorr", 256, 8}, {"hashtype-single-no-output", "schnorr", 256, 3}, {"sig-empty", "schnorr", 1, 2},
	{"sign-wrong-amount", "schnorr", 4000, 2}, {"sign-wrong-spent-script", "schnorr", 3, 2}, {"sign-annex-ignored", "schnorr", 1, 3},
	{"sign-wrong-annex", "schnorr", 1, 2}, {"sign-wrong-leafhash", "tapsig", 32, 2}, {"sign-key-version-1", "tapsig", 1, 2},
	{"sign-wrong-codesep-pos", "tapsig", 4, 3}, {"sign-as-keypath", "tapsig", 1, 1}, {"sign-as-scriptpath", "keypath", 1, 1},
	{"sign-wrong-input-index", "schnorr", 1, 1}, {"sign-wrong-key", "schnorr", 24, 1}, {"schnorr-explicit-default-hashtype", "schnorr", 1, 2},
	{"schnorr-len", "schnorr", 4, 4}, {"sig-bitflip", "schnorr", 520, 3}, {"schnorr-s-plus-n", "schnorr", 1, 1}, {"schnorr-r-ge-p", "schnorr", 7, 1},
	{"output-key-bitflip", "taproot", 256, 2}, {"output-key-ge-p", "keypath", 5, 1}, {"annex-added-after-signing", "schnorr", 5, 3},
	{"annex-only", "keypath", 1, 1}, {"p2sh-wrapped-taproot", "keypath", 1, 2}, {"extra-stack-item", "scriptpath", 1, 2},
	{"key-bitflip", "tapsig", 256, 2}, {"key-x-ge-p", "tapsig", 5, 1}, {"key-empty", "tapsig", 1, 2}, {"key-33-bytes", "tapsig", 1, 2}, {"key-truncated", "tapsig", 1, 1},
	{"control-129-nodes", "scriptpath", 1, 1}, {"control-parity-flip", "scriptpath", 1, 4}, {"control-bitflip", "scriptpath", 100000, 3},
	{"control-leaf-version-flip", "scriptpath", 7, 2}, {"control-len", "scriptpath", 6, 5}, {"script-bitflip", "scriptpath", 100000, 2},
	{"internal-key-ge-p", "scriptpath", 3, 3}, {"internal-key-not-liftable", "scriptpath", 100, 4},
	{"checksigadd-one-sig-too-many", "tap-checksigadd", 1, 2}, {"success-after-truncated-push", "tap-success", 1, 2}, {"success-inside-push-data", "tap-success", 1, 2},
	{"success-with-oversize-stack", "tap-success", 1, 1}, {"success-with-521-byte-item", "tap-success", 1, 1}, {"sigops-budget-minus-1", "tap-sigops-budget", 1, 2},
	{"tapscript-initial-stack-1001", "tap-bigstack", 1, 1}, {"witness-item-521", "scriptpath", 1, 1},
	// FindAndDelete
	{"find-and-delete-size", "find-and-delete", 441, 6}, {"find-and-delete-nonminimal-push", "find-and-delete", 6, 3},
}

func hasTag(t *tmplDef, tag string) bool {
	for _, x := range t.tags {
		if x == tag {
			return true
		}
	}
	return false
}

func pickTemplate(r *vlib.Rand) *tmplDef {
	tot := 0
	for i := range templates {
		tot += templates[i].w
	}
	x := r.Intn(tot)
	for i := range templates {
		x -= templates[i].w
		if x < 0 {
			return &templates[i]
		}
	}
	return &templates[0]
}

func pickMutation(r *vlib.Rand, t *tmplDef) *mutDef {
	var cand []*mutDef
	tot := 0
	for i := range mutations {
		if hasTag(t, mutations[i].tag) {
			cand = append(cand, &mutations[i])
			tot += mutations[i].w
		}
	}
	if len(cand) == 0 {
		return nil
	}
	x := r.Intn(tot)
	for _, m := range cand {
		x -= m.w
		if x < 0 {
			return m
		}
	}
	return cand[0]
}

func findTemplate(name string) *tmplDef {
	for i := range templates {
		if templates[i].name == name {
			return &templates[i]
		}
	}
	panic("no template " + name)
}

// ---------------------------------------------------------------------------------------------
// case selection: case index -> spend

// sweeps: systematic single-rule enumerations, placed at the start of the case list
type sweepItem struct {
	tmpl string
	mut  string
	arg  int
}

var sweeps []sweepItem

func init() {
	for _, t := range []string{"bare(pkh)", "p2wpkh", "p2tr-key", "p2tr-script(checksig)"} {
		for ht := 0; ht < 256; ht++ {
			sweeps = append(sweeps, sweepItem{t, "hashtype", ht})
		}
	}
	for i := range successOps {
		sweeps = append(sweeps, sweepItem{"p2tr-script(success)", "", i})
	}
	for i := 0; i < 6; i++ {
		sweeps = append(sweeps, sweepItem{"p2tr-script(checksig)", "control-len", i})
	}
	for i := 0; i < len(derStyles)*3; i++ {
		sweeps = append(sweeps, sweepItem{"bare(pk)", "der", i}, sweepItem{"p2wsh(pk)", "der", i})
	}
	for i := 0; i < 14; i++ {
		for _, w := range []string{"bare", "p2wsh"} {
			sweeps = append(sweeps, sweepItem{w + "(cltv)", "cltv-operand", i}, sweepItem{w + "(csv)", "csv-operand", i})
		}
	}
	for _, sz := range []int{0, 1, 2, 3, 4, 5, 10, 100, 178, 179, 180, 181, 182, 183, 184, 200, 300, 440, 447, 448} {
		sweeps = append(sweeps, sweepItem{"sig-in-scriptcode", "find-and-delete-size", sz})
	}
}

// planCase decides which generator a case index runs. Returns family.
func makeSpend(run *vlib.Run, i int, nSpends int) *spend {
	r := run.Rand(fmt.Sprintf("case/%d", i))
	g := &gctx{r: r, thorough: run.Thorough()}
	if i < len(directedCases) {
		return directed(g, i)
	}
	i -= len(directedCases)
	if i < len(sweeps) {
		sw := sweeps[i]
		t := findTemplate(sw.tmpl)
		g.mut, g.arg, g.sweep = sw.mut, sw.arg, sw.mut == ""
		sp := t.build(g)
		sp.Family, sp.Mutation = "sweep", sw.mut
		if sw.mut == "" {
			sp.Mutation = fmt.Sprintf("arg=%d", sw.arg)
		} else {
			sp.WantOK = false
			if sw.mut == "hashtype" {
				sp.Mutation = fmt.Sprintf("hashtype=%02x", sw.arg)
			}
		}
		return sp
	}
	switch x := r.Intn(100); {
	case x < 22:
		t := pickTemplate(r)
		sp := t.build(g)
		sp.Family = "tmpl"
		return sp
	case x < 62:
		t := pickTemplate(r)
		m := pickMutation(r, t)
		if m == nil {
			sp := t.build(g)
			sp.Family = "tmpl"
			return sp
		}
		g.mut, g.arg = m.name, r.Intn(m.args)
		if m.name == "der" && m.args > 1000 {
			g.arg += 1000
		}
		sp := t.build(g)
		sp.Family = "mut"
		sp.Mutation = g.mut
		if !g.applied {
			sp.Mutation = g.mut + "(not-applied)"
		}
		sp.WantOK = false
		return sp
	case x < 90:
		sp := g.buildSoup()
		return sp
	default:
		return g.buildLimits()
	}
}

// ---------------------------------------------------------------------------------------------
// limits: structured programs at the interpreter's limits

func rep(b []byte, n int) []byte { return bytes.Repeat(b, n) }

func (g *gctx) buildLimits() *spend {
	r := g.r
	ctxs := []string{"bare", "p2wsh", "tapscript", "p2sh"}
	ctx := ctxs[r.Intn(3)]
	var prog []byte
	var init [][]byte
	name := ""
	switch k := r.Intn(14); k {
	case 0: // stack + altstack size
		n := []int{998, 999, 1000, 1001, 1002}[r.Intn(5)]
		alt := 0
		if r.Bool() {
			alt = 1 + r.Intn(100)
		}
		name = fmt.Sprintf("stack-size/%d+alt", n)
		if ctx == "p2wsh" {
			ctx = "bare"
		}
		// the element is pushed by OP_1 or by one of the data-push encodings (the limit applies after every opcode,
		// pushes included)
		el := [][]byte{{refscript.OP_1}, {0x01, 0x07}, {refscript.OP_PUSHDATA1, 0x01, 0x07}, {refscript.OP_PUSHDATA2, 0x01, 0x00, 0x07}, {refscript.OP_1NEGATE}, {refscript.OP_1}}[r.Intn(6)]
		if len(el) > 1 || el[0] != refscript.OP_1 {
			name = fmt.Sprintf("stack-size/%d+alt/push-%02x", n, el[0])
		}
		if alt == 0 && r.Chance(1, 3) {
			// the pushes arrive on the initial stack (scriptSig / witness), the program only drops one or none
			name = fmt.Sprintf("stack-size/%d-initial", n)
			for i := 0; i < n; i++ {
				init = append(init, []byte{0x07})
			}
			if ctx == "bare" && r.Bool() {
				prog = []byte{refscript.OP_DROP}
			} else {
				prog = []byte{refscript.OP_NOP}
			}
			break
		}
		prog = rep(el, n-alt)
		for i := 0; i < alt; i++ {
			prog = append(prog, refscript.OP_1, refscript.OP_TOALTSTACK)
		}
		if ctx == "tapscript" {
			// clean up again: no op-count limit in tapscript
			for i := 0; i < alt; i++ {
				prog = append(prog, refscript.OP_FROMALTSTACK)
			}
			prog = append(prog, rep([]byte{refscript.OP_DROP}, n-1)...)
		}
	case 1: // stack size reached through DUP-type ops
		n := 990 + r.Intn(8)
		prog = rep([]byte{refscript.OP_1}, n)
		for i := 0; i < 2+r.Intn(3); i++ {
			prog = append(prog, []byte{refscript.OP_3DUP, refscript.OP_2DUP, refscript.OP_DUP, refscript.OP_2OVER, refscript.OP_TUCK, refscript.OP_OVER, refscript.OP_DEPTH, refscript.OP_IFDUP}[r.Intn(8)])
		}
		name = "stack-size/dup-ops"
		if ctx != "bare" {
			ctx = "bare"
		}
	case 2: // op count
		n := []int{199, 200, 201, 202}[r.Intn(4)]
		name = fmt.Sprintf("op-count/%d", n)
		switch r.Intn(4) {
		case 0:
			prog = cat([]byte{refscript.OP_1}, rep([]byte{refscript.OP_NOP}, n))
		case 1: // unexecuted ops count too
			prog = cat([]byte{refscript.OP_0, refscript.OP_IF}, rep([]byte{refscript.OP_NOP}, n-2), []byte{refscript.OP_ENDIF, refscript.OP_1})
			name += "/unexecuted"
		case 2: // OP_RESERVED and pushes do not count
			prog = cat([]byte{refscript.OP_0, refscript.OP_IF}, rep([]byte{refscript.OP_RESERVED, refscript.OP_1, refscript.OP_NOP}, n-2), []byte{refscript.OP_ENDIF, refscript.OP_1})
			name += "/reserved-not-counted"
		case 3: // CHECKMULTISIG adds the number of keys
			keysN := r.Intn(21)
			ms := []byte{refscript.OP_0, refscript.OP_0}
			for i := 0; i < keysN; i++ {
				ms = append(ms, push(g.key().comp)...)
			}
			ms = append(ms, pushN(int64(keysN))...)
			ms = append(ms, refscript.OP_CHECKMULTISIG)
			nops := n - 1 - keysN
			if nops < 0 {
				nops = 0
			}
			if r.Bool() {
				prog = cat(rep([]byte{refscript.OP_NOP}, nops), ms)
			} else {
				prog = cat(ms, rep([]byte{refscript.OP_NOP}, nops))
			}
			name += "/checkmultisig-weight"
		}
	case 3: // element size in a push
		n := []int{519, 520, 521, 522, 65535}[r.Intn(5)]
		name = fmt.Sprintf("push-size/%d", n)
		p := pushWith(refscript.OP_PUSHDATA2, make([]byte, n))
		if r.Chance(1, 3) {
			p = pushWith(refscript.OP_PUSHDATA4, make([]byte, n))
		}
		if r.Bool() {
			prog = cat(p, []byte{refscript.OP_DROP, refscript.OP_1})
		} else {
			prog = cat([]byte{refscript.OP_0, refscript.OP_IF}, p, []byte{refscript.OP_ENDIF, refscript.OP_1})
			name += "/unexecuted"
		}
	case 4: // script size
		n := []int{9999, 10000, 10001, 10002, 20000}[r.Intn(5)]
		name = fmt.Sprintf("script-size/%d", n)
		// 520-byte pushes dropped, then padding with pushes (not counted as ops) to the exact size
		unit := cat(pushWith(refscript.OP_PUSHDATA2, make([]byte, 500)), []byte{refscript.OP_DROP})
		for len(prog)+len(unit)+1 <= n {
			prog = append(prog, unit...)
		}
		for len(prog)+2 < n {
			prog = append(prog, refscript.OP_1, refscript.OP_DROP)
		}
		for len(prog) < n-1 {
			prog = append(prog, refscript.OP_NOP)
		}
		prog = append(prog, refscript.OP_1)
		if ctx == "p2sh" {
			ctx = "bare"
		}
	case 5: // truncated pushes
		name = "truncated-push"
		var tail []byte
		switch r.Intn(7) {
		case 0:
			tail = []byte{refscript.OP_PUSHDATA1}
		case 1:
			tail = []byte{refscript.OP_PUSHDATA1, 5, 1, 2}
		case 2:
			tail = []byte{refscript.OP_PUSHDATA2, 1}
		case 3:
			tail = []byte{refscript.OP_PUSHDATA2, 0xff, 0xff, 0}
		case 4:
			tail = []byte{refscript.OP_PUSHDATA4, 1, 0, 0}
		case 5:
			tail = []byte{refscript.OP_PUSHDATA4, 0xff, 0xff, 0xff, 0xff, 1}
		case 6:
			tail = cat([]byte{0x4b}, make([]byte, r.Intn(0x4b)))
		}
		switch r.Intn(3) {
		case 0:
			prog = cat([]byte{refscript.OP_1}, tail)
		case 1:
			prog = cat([]byte{refscript.OP_1, refscript.OP_0, refscript.OP_IF}, tail)
			name += "/unexecuted"
		case 2:
			prog = cat([]byte{refscript.OP_1, refscript.OP_RETURN}, tail)
		}
	case 6: // nested conditionals
		dpt := []int{1, 10, 50, 99, 100, 101}[r.Intn(6)]
		if ctx == "tapscript" && r.Bool() {
			dpt = 300 + r.Intn(1500)
		}
		name = fmt.Sprintf("nested-if/%d", dpt)
		val := byte(refscript.OP_1)
		if r.Chance(1, 4) {
			val = refscript.OP_0 // everything below is unexecuted
		}
		prog = cat(rep([]byte{val, refscript.OP_IF}, dpt), []byte{refscript.OP_1}, rep([]byte{refscript.OP_ENDIF}, dpt))
		if val == refscript.OP_0 {
			prog = cat([]byte{val}, rep([]byte{refscript.OP_IF}, dpt), rep([]byte{refscript.OP_ENDIF}, dpt), []byte{refscript.OP_1})
		}
		if r.Chance(1, 6) {
			prog = prog[:len(prog)-1-r.Intn(2)] // unbalanced
		}
	case 7, 8: // CLTV / CSV grid
		op := byte(refscript.OP_CHECKLOCKTIMEVERIFY)
		name = "cltv-grid"
		g.prefer |= fCLTV
		if k == 8 {
			op = refscript.OP_CHECKSEQUENCEVERIFY
			name = "csv-grid"
			g.prefer |= fCSV
		}
		var operand []byte
		switch r.Intn(6) {
		case 0:
			operand = push(rawNumEdges[r.Intn(len(rawNumEdges))])
		case 1:
			operand = pushN(int64(lockTimes[r.Intn(len(lockTimes))]))
		case 2:
			operand = pushN(int64(sequences[r.Intn(len(sequences))]))
		case 3:
			operand = pushN(int64(r.U32()))
		case 4:
			operand = push(r.Bytes(r.Intn(7)))
		case 5:
			operand = pushN(int64(r.Intn(3)))
		}
		prog = cat(operand, []byte{op, refscript.OP_DROP, refscript.OP_1})
		sp := g.wrapProgram("limits", ctx, prog, nil)
		// the grid: locktime / sequence / version drawn from the edge lists
		sp.Tx.LockTime = lockTimes[r.Intn(len(lockTimes))]
		sp.Tx.In[sp.Idx].Sequence = sequences[r.Intn(len(sequences))]
		sp.Tx.Version = versions[r.Intn(len(versions))]
		sp.Template = "limits/" + name + "/" + ctx
		return sp
	case 9: // arithmetic at the edges, result pinned by the generator's own int64 arithmetic
		a, b := numEdges[r.Intn(len(numEdges))], numEdges[r.Intn(len(numEdges))]
		ops := []struct {
			op byte
			f  func(a, b int64) int64
		}{{refscript.OP_ADD, func(a, b int64) int64 { return a + b }}, {refscript.OP_SUB, func(a, b int64) int64 { return a - b }},
			{refscript.OP_MIN, func(a, b int64) int64 {
				if a < b {
					return a
				}
				return b
			}}, {refscript.OP_MAX, func(a, b int64) int64 {
				if a > b {
					return a
				}
				return b
			}},
			{refscript.OP_LESSTHAN, func(a, b int64) int64 { return b2i(a < b) }}, {refscript.OP_GREATERTHANOREQUAL, func(a, b int64) int64 { return b2i(a >= b) }},
			{refscript.OP_NUMEQUAL, func(a, b int64) int64 { return b2i(a == b) }}, {refscript.OP_BOOLAND, func(a, b int64) int64 { return b2i(a != 0 && b != 0) }},
			{refscript.OP_BOOLOR, func(a, b int64) int64 { return b2i(a != 0 || b != 0) }}, {refscript.OP_NUMNOTEQUAL, func(a, b int64) int64 { return b2i(a != b) }}}
		o := ops[r.Intn(len(ops))]
		want := o.f(a, b)
		if r.Chance(1, 8) {
			want++
		}
		name = "arith-edge"
		prog = cat(pushN(a), pushN(b), []byte{o.op}, push(refscript.EncodeNum(want)), []byte{refscript.OP_EQUAL})
	case 10: // PICK / ROLL bounds with a pinned result
		d := 1 + r.Intn(20)
		for i := 0; i < d; i++ {
			prog = append(prog, pushN(int64(100+i))...)
		}
		n := int64(r.Intn(d))
		switch r.Intn(6) {
		case 0:
			n = int64(d)
		case 1:
			n = int64(d) - 1
		case 2:
			n = -1
		}
		op := []byte{refscript.OP_PICK, refscript.OP_ROLL}[r.Intn(2)]
		prog = cat(prog, pushN(n), []byte{op}, pushN(int64(100+d-1)-n), []byte{refscript.OP_EQUALVERIFY})
		// after ROLL the depth is d-1, after PICK d
		left := d
		if op == refscript.OP_ROLL {
			left = d - 1
		}
		prog = cat(prog, []byte{refscript.OP_DEPTH}, pushN(int64(left)), []byte{refscript.OP_EQUALVERIFY}, rep([]byte{refscript.OP_DROP}, left), []byte{refscript.OP_1})
		name = "pick-roll"
	case 13: // size of an initial stack element (witness item / scriptSig push)
		n := []int{519, 520, 521, 522, 1000}[r.Intn(5)]
		name = fmt.Sprintf("input-item-size/%d", n)
		init = [][]byte{r.Bytes(n)}
		switch r.Intn(3) {
		case 0:
			prog = cat([]byte{refscript.OP_SIZE}, pushN(int64(n)), []byte{refscript.OP_EQUALVERIFY, refscript.OP_DROP, refscript.OP_1})
		case 1:
			prog = cat([]byte{refscript.OP_SHA256}, push(sha256b(init[0])), []byte{refscript.OP_EQUAL})
		case 2:
			prog = []byte{refscript.OP_DROP, refscript.OP_1}
		}
		if r.Chance(1, 3) {
			init = append([][]byte{{1}}, init...)
			prog = cat(prog, []byte{refscript.OP_VERIFY})
		}
		ctx = []string{"p2wsh", "tapscript", "p2sh-p2wsh", "bare"}[r.Intn(4)]
	case 12: // CHECKMULTISIG with its two counts in edge encodings
		n := []int{0, 1, 2, 3, 20}[r.Intn(5)]
		m := 0
		if n > 0 && r.Bool() {
			m = r.Intn(n + 1)
		}
		enc := func(v int) []byte {
			e := refscript.EncodeNum(int64(v))
			switch r.Intn(8) {
			case 0:
				return push(append(e, 0)) // non-minimal: extra zero byte
			case 1:
				return push(append(append([]byte{}, e...), make([]byte, 4-len(e))...)) // padded to 4 bytes
			case 2:
				return push(append(append([]byte{}, e...), make([]byte, 5-len(e))...)) // 5 bytes: overflow
			case 3:
				if v == 0 {
					return push([]byte{0x80}) // negative zero
				}
				return push(append(e, 0x80)) // negative non-minimal
			case 4:
				if v >= 1 && v <= 16 {
					return push(e) // data push instead of OP_N
				}
			}
			return pushN(int64(v))
		}
		prog = []byte{refscript.OP_0}
		for i := 0; i < m; i++ {
			prog = append(prog, refscript.OP_0) // empty signatures
		}
		prog = append(prog, enc(m)...)
		for i := 0; i < n; i++ {
			prog = append(prog, push(g.key().comp)...)
		}
		prog = cat(prog, enc(n), []byte{refscript.OP_CHECKMULTISIG})
		if m > 0 {
			prog = append(prog, refscript.OP_NOT)
		}
		name = "multisig-counts"
	case 11: // negative zero / non-minimal booleans in VERIFY, IF, NOT, BOOLAND
		v := [][]byte{{0x80}, {0x00}, {0x00, 0x80}, {0x00, 0x00}, {0x01, 0x00}, {0x00, 0x01}, {}, {0x81}}[r.Intn(8)]
		switch r.Intn(4) {
		case 0:
			prog = cat(push(v), []byte{refscript.OP_VERIFY, refscript.OP_1})
		case 1:
			prog = cat(push(v), []byte{refscript.OP_IF, refscript.OP_1, refscript.OP_ELSE, refscript.OP_0, refscript.OP_ENDIF})
		case 2:
			prog = cat(push(v), []byte{refscript.OP_NOT})
		case 3:
			prog = cat(push(v), []byte{refscript.OP_IFDUP, refscript.OP_DEPTH, refscript.OP_1 + 1, refscript.OP_EQUAL})
		}
		name = "bool-edge"
	}
	sp := g.wrapProgram("limits", ctx, prog, init)
	sp.Template = "limits/" + name + "/" + ctx
	return sp
}

func b2i(b bool) int64 {
	if b {
		return 1
	}
	return 0
}
