package main

import (
	"crypto/sha256"
	"fmt"
	"math/big"
	"sync"

	"verif/ref/refec"
)

// Independent signer: secp256k1 arithmetic from refec, digests from refsighash. Keys and nonces
// come from fixed pools (k*G is precomputed) so that signing costs a few modular operations. Reusing
// nonces is of course insecure; the signatures are nevertheless ordinary valid signatures.

type keyT struct {
	d            *big.Int
	pt           refec.Point
	comp, uncomp []byte
	hybrid       []byte
	xonly        []byte
	dEven        *big.Int // secret key of the even-y point (BIP340)
}

type nonceT struct {
	k     *big.Int
	kinv  *big.Int
	R     refec.Point
	r     *big.Int // R.x mod n
	kEven *big.Int // nonce of the even-y point
	rx    []byte
}

const (
	nKeys   = 24
	nNonces = 6
)

var (
	keys     []*keyT
	nonces   []*nonceT
	poolOnce sync.Once
)

func initPools() {
	poolOnce.Do(func() {
		for i := 0; i < nKeys; i++ {
			h := sha256.Sum256([]byte(fmt.Sprintf("verif/c01/key/%d", i)))
			d := new(big.Int).Mod(new(big.Int).SetBytes(h[:]), refec.N)
			if d.Sign() == 0 {
				d.SetInt64(1)
			}
			keys = append(keys, newKey(d))
		}
		for i := 0; i < nNonces; i++ {
			h := sha256.Sum256([]byte(fmt.Sprintf("verif/c01/nonce/%d", i)))
			k := new(big.Int).Mod(new(big.Int).SetBytes(h[:]), refec.N)
			R := refec.ScalarBaseMult(k)
			n := &nonceT{k: k, kinv: new(big.Int).ModInverse(k, refec.N), R: R, r: new(big.Int).Mod(R.X, refec.N), rx: refec.Bytes32(R.X)}
			n.kEven = k
			if R.Y.Bit(0) == 1 {
				n.kEven = new(big.Int).Sub(refec.N, k)
			}
			nonces = append(nonces, n)
		}
	})
}

func newKey(d *big.Int) *keyT {
	pt := refec.ScalarBaseMult(d)
	k := &keyT{d: d, pt: pt, comp: pt.SerializeCompressed(), uncomp: pt.SerializeUncompressed(), hybrid: pt.SerializeHybrid(), xonly: pt.XOnly()}
	k.dEven = d
	if pt.Y.Bit(0) == 1 {
		k.dEven = new(big.Int).Sub(refec.N, d)
	}
	return k
}

// ecdsaSign returns (r, s) for the digest with nonce ni; lowS normalises s.
func ecdsaSign(d *big.Int, digest []byte, ni int, lowS bool) (r, s *big.Int) {
	n := nonces[ni%len(nonces)]
	e := new(big.Int).Mod(new(big.Int).SetBytes(digest), refec.N)
	s = new(big.Int).Mul(n.r, d)
	s.Add(s, e)
	s.Mul(s, n.kinv)
	s.Mod(s, refec.N)
	if s.Sign() == 0 {
		return ecdsaSign(d, digest, ni+1, lowS)
	}
	high := s.Cmp(refec.HalfN) > 0
	if lowS == high {
		s.Sub(refec.N, s)
	}
	return new(big.Int).Set(n.r), s
}

// schnorrSign is BIP340 signing with a pool nonce (the verification equation does not depend on
// how the nonce was chosen). dEven is the secret key of the even-y public key px.
func schnorrSign(dEven *big.Int, px []byte, msg []byte, ni int) []byte {
	n := nonces[ni%len(nonces)]
	e := new(big.Int).Mod(new(big.Int).SetBytes(refec.TaggedHash("BIP0340/challenge", n.rx, px, msg)), refec.N)
	s := new(big.Int).Mul(e, dEven)
	s.Add(s, n.kEven)
	s.Mod(s, refec.N)
	return append(append([]byte(nil), n.rx...), refec.Bytes32(s)...)
}

// derInt: minimal positive DER integer content.
func derInt(v *big.Int) []byte {
	b := v.Bytes()
	if len(b) == 0 {
		return []byte{0}
	}
	if b[0]&0x80 != 0 {
		b = append([]byte{0}, b...)
	}
	return b
}

// encodeDER builds a DER signature in one of several styles. Style "strict" is BIP66-valid; the
// others are shapes that a lax parser (Core's ecdsa_signature_parse_der_lax) reads as the same (r, s)
// or refuses - the reference decides which.
func encodeDER(r, s *big.Int, style string, pad int) []byte {
	rb, sb := derInt(r), derInt(s)
	switch style {
	case "r-zero-padded":
		rb = append(make([]byte, pad), rb...)
	case "s-zero-padded":
		sb = append(make([]byte, pad), sb...)
	case "r-no-sign-pad": // top bit set and no leading zero: negative for a strict parser
		rb = r.Bytes()
		if len(rb) == 0 {
			rb = []byte{0}
		}
	case "s-no-sign-pad":
		sb = s.Bytes()
		if len(sb) == 0 {
			sb = []byte{0}
		}
	}
	body := []byte{0x02}
	body = append(body, derLen(len(rb), style == "long-form-int-len" || style == "long-form-all")...)
	body = append(body, rb...)
	body = append(body, 0x02)
	body = append(body, derLen(len(sb), style == "long-form-int-len" || style == "long-form-all")...)
	body = append(body, sb...)
	out := []byte{0x30}
	switch style {
	case "seq-len-wrong":
		out = append(out, byte(len(body)+1+pad))
	case "seq-len-zero":
		out = append(out, 0)
	case "long-form-seq-len", "long-form-all":
		out = append(out, 0x81, byte(len(body)))
	default:
		out = append(out, derLen(len(body), false)...)
	}
	out = append(out, body...)
	if style == "trailing-garbage" {
		out = append(out, make([]byte, 1+pad)...)
	}
	return out
}

func derLen(n int, long bool) []byte {
	if long || n >= 0x80 {
		if n < 0x100 {
			return []byte{0x81, byte(n)}
		}
		return []byte{0x82, byte(n >> 8), byte(n)}
	}
	return []byte{byte(n)}
}
