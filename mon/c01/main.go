// C01 — script verification accepts exactly what Bitcoin consensus accepts.
//
// Differential monitor: every generated (scriptSig, scriptPubKey, witness, amount, tx, idx, flags)
// tuple is judged by the independent reference interpreter (verif/ref/refscript, calibrated at
// start-up on script_tests.json incl. error names, tx_valid.json, tx_invalid.json and hand-derived
// taproot vectors) and by script.VerifyTxScript of the working tree; the two booleans must agree and
// VerifyTxScript must return. Cases run in journaling child workers: a worker that dies (fatal
// error, os.Exit, panic outside a recover) leaves the index of the case it was executing.
package main

import (
	"bufio"
	"encoding/hex"
	"encoding/json"
	"fmt"
	"os"
	"sort"
	"strconv"
	"strings"
	"sync"
	"time"

	"github.com/piotrnar/gocoin/lib/btc"
	"github.com/piotrnar/gocoin/lib/script"

	"verif/lib/vlib"
	"verif/ref/refec"
	"verif/ref/refscript"
	"verif/ref/refsighash"
	"verif/ref/reftx"
)

// map from the reference's flag bits (Core's positions) to gocoin's VER_* constants
var flagMap = []struct {
	ref uint32
	goc uint32
	n   string
}{
	{refscript.FlagP2SH, script.VER_P2SH, "P2SH"}, {refscript.FlagStrictEnc, script.VER_STRICTENC, "STRICTENC"},
	{refscript.FlagDERSig, script.VER_DERSIG, "DERSIG"}, {refscript.FlagLowS, script.VER_LOW_S, "LOW_S"},
	{refscript.FlagNullDummy, script.VER_NULLDUMMY, "NULLDUMMY"}, {refscript.FlagSigPushOnly, script.VER_SIGPUSHONLY, "SIGPUSHONLY"},
	{refscript.FlagMinimalData, script.VER_MINDATA, "MINIMALDATA"}, {refscript.FlagDiscourageUpgradableNops, script.VER_BLOCK_OPS, "DISCOURAGE_UPGRADABLE_NOPS"},
	{refscript.FlagCleanStack, script.VER_CLEANSTACK, "CLEANSTACK"}, {refscript.FlagCheckLockTimeVerify, script.VER_CLTV, "CHECKLOCKTIMEVERIFY"},
	{refscript.FlagCheckSequenceVerify, script.VER_CSV, "CHECKSEQUENCEVERIFY"}, {refscript.FlagWitness, script.VER_WITNESS, "WITNESS"},
	{refscript.FlagDiscourageUpgradableWitnessProg, script.VER_WITNESS_PROG, "DISCOURAGE_UPGRADABLE_WITNESS_PROGRAM"},
	{refscript.FlagMinimalIf, script.VER_MINIMALIF, "MINIMALIF"}, {refscript.FlagNullFail, script.VER_NULLFAIL, "NULLFAIL"},
	{refscript.FlagWitnessPubKeyType, script.VER_WITNESS_PUBKEY, "WITNESS_PUBKEYTYPE"}, {refscript.FlagConstScriptCode, script.VER_CONST_SCRIPTCODE, "CONST_SCRIPTCODE"},
	{refscript.FlagTaproot, script.VER_TAPROOT, "TAPROOT"}, {refscript.FlagDiscourageUpgradableTaprootVer, script.VER_DIS_TAPVER, "DISCOURAGE_UPGRADABLE_TAPROOT_VERSION"},
	{refscript.FlagDiscourageOpSuccess, script.VER_DIS_SUCCESS, "DISCOURAGE_OP_SUCCESS"},
	{refscript.FlagDiscourageUpgradablePubKeyType, script.VER_DIS_PUBKEYTYPE, "DISCOURAGE_UPGRADABLE_PUBKEYTYPE"},
}

func toGocoinFlags(f uint32) (g uint32) {
	for _, m := range flagMap {
		if f&m.ref != 0 {
			g |= m.goc
		}
	}
	return
}

func flagNames(f uint32) string {
	var l []string
	for _, m := range flagMap {
		if f&m.ref != 0 {
			l = append(l, m.n)
		}
	}
	if len(l) == 0 {
		return "NONE"
	}
	return strings.Join(l, ",")
}

// toBtcTx builds gocoin's transaction object field by field (no parsing involved).
func toBtcTx(tx *reftx.Tx, spent []reftx.TxOut) *btc.Tx {
	t := new(btc.Tx)
	t.Version = tx.Version
	t.Lock_time = tx.LockTime
	hasWit := false
	for i := range tx.In {
		in := &tx.In[i]
		t.TxIn = append(t.TxIn, &btc.TxIn{Input: btc.TxPrevOut{Hash: in.PrevHash, Vout: in.PrevIndex}, ScriptSig: in.ScriptSig, Sequence: in.Sequence})
		if len(in.Witness) > 0 {
			hasWit = true
		}
	}
	for i := range tx.Out {
		t.TxOut = append(t.TxOut, &btc.TxOut{Value: uint64(tx.Out[i].Value), Pk_script: tx.Out[i].PkScript})
	}
	if hasWit {
		t.SegWit = make([][][]byte, len(tx.In))
		for i := range tx.In {
			t.SegWit[i] = append([][]byte{}, tx.In[i].Witness...)
		}
	}
	raw := tx.Serialize(true)
	t.Raw = raw
	t.Size = uint32(len(raw))
	t.SetHash(tx.Serialize(false))
	t.AllocVerVars()
	t.Spent_outputs = make([]*btc.TxOut, len(spent))
	for i := range spent {
		t.Spent_outputs[i] = &btc.TxOut{Value: uint64(spent[i].Value), Pk_script: spent[i].PkScript}
	}
	return t
}

func runGocoin(t *btc.Tx, sp *spend, flags uint32) (ok bool, panicked interface{}) {
	defer func() {
		if r := recover(); r != nil {
			panicked = r
		}
	}()
	ok = script.VerifyTxScript(sp.PkScript, &script.SigChecker{Tx: t, Idx: sp.Idx, Amount: uint64(sp.Amount)}, toGocoinFlags(flags))
	return
}

// witnessOf is the replay document of one evaluation.
func witnessOf(sp *spend, flags uint32, caseIdx int, extra map[string]interface{}) map[string]interface{} {
	wit := []string{}
	for _, w := range sp.Tx.In[sp.Idx].Witness {
		wit = append(wit, hex.EncodeToString(w))
	}
	spent := []map[string]interface{}{}
	for _, o := range sp.Spent {
		spent = append(spent, map[string]interface{}{"value": o.Value, "pk_script": hex.EncodeToString(o.PkScript)})
	}
	m := map[string]interface{}{
		"case_index": caseIdx, "family": sp.Family, "template": sp.Template, "mutation": sp.Mutation, "note": sp.Note,
		"script_sig": hex.EncodeToString(sp.Tx.In[sp.Idx].ScriptSig), "pk_script": hex.EncodeToString(sp.PkScript), "witness": wit,
		"amount": sp.Amount, "input_index": sp.Idx, "tx": hex.EncodeToString(sp.Tx.Serialize(true)), "spent_outputs": spent,
		"flags": flagNames(flags), "flags_hex": fmt.Sprintf("%#x", flags),
	}
	for k, v := range extra {
		m[k] = v
	}
	return m
}

func sigLenBucket(sp *spend) string {
	for _, n := range strings.Split(sp.Note, ";") {
		if strings.HasPrefix(n, "siglen=") {
			l, _ := strconv.Atoi(n[7:])
			switch {
			case l <= 75:
				return "siglen<=75"
			case l <= 130:
				return "siglen=76..130"
			case l <= 252:
				return "siglen=131..252"
			default:
				return "siglen>=253"
			}
		}
	}
	return ""
}

// quirks: known deviations of gocoin; used only to NAME a disagreement (see refscript.Quirk*).
var quirkList = []struct {
	q    uint32
	name string
}{
	// open findings first: a disagreement that an open deviation explains is attributed to it
	{refscript.QuirkFixedOffsetDER, "der-fixed-offset-parser"},
	{refscript.QuirkDiscourageUnflaggedLockOps, "unflagged-cltv-csv-discouraged"},
	{refscript.QuirkLowSPlainComparison, "low-s-out-of-range-s"},
	// repaired in /repo (a0b65a9d, 8bdd00bb): kept so that a regression gets a precise name; these
	// classes are NOT listed as known findings, a reappearance is a VIOLATION
	{refscript.QuirkTaprootZeroDigest, "taproot-zero-digest"},
	{refscript.QuirkFindAndDeleteCompactSize, "fad-compactsize"},
	{refscript.QuirkFindAndDeleteCompactSize | refscript.QuirkFixedOffsetDER, "fad-compactsize+der-fixed-offset-parser"},
}

// classOf names a disagreement: direction + the reference's reason + (a known deviation that
// explains it, if one does) + template + mutation.
func classOf(sp *spend, refOK bool, refErr refscript.ScriptError, flags uint32, got bool) string {
	dir := "accepts/" + refErr.String()
	if refOK {
		dir = "rejects/OK"
	}
	in := &sp.Tx.In[sp.Idx]
	for _, q := range quirkList {
		ok, qerr := refscript.VerifyWithQuirks(in.ScriptSig, sp.PkScript, in.Witness, sp.Tx, sp.Idx, sp.Amount, sp.Spent, flags, q.q)
		if q.q == refscript.QuirkDiscourageUnflaggedLockOps && qerr != refscript.ErrDiscourageUpgradableNops {
			continue
		}
		if ok == got {
			grp := sp.Family
			switch sp.Family {
			case "tmpl", "mut", "sweep", "directed":
				grp = sp.Template
				if strings.HasPrefix(grp, "directed/") {
					grp = "directed"
				}
			}
			c := "explained-by:" + q.name + "/" + dir + "/" + grp
			if b := sigLenBucket(sp); b != "" {
				c += "/" + b
			}
			return c
		}
	}
	tmpl := sp.Template
	if sp.Family == "limits" || sp.Family == "soup" {
		parts := strings.Split(tmpl, "/")
		for k := range parts {
			if _, err := strconv.Atoi(parts[k]); err == nil {
				parts[k] = "N"
			}
		}
		tmpl = strings.Join(parts, "/")
	}
	c := dir + "/" + tmpl
	m := sp.Mutation
	if strings.HasPrefix(m, "hashtype=") {
		m = "hashtype"
	}
	if m != "" {
		c += "/" + m
	}
	if b := sigLenBucket(sp); b != "" {
		c += "/" + b
	}
	return c
}

// ---------------------------------------------------------------------------------------------
// child worker

func childMain(args []string) {
	// args: seed tier from to workers worker journal state [race]
	seed, _ := strconv.ParseInt(args[0], 10, 64)
	tier := args[1]
	from, _ := strconv.Atoi(args[2])
	to, _ := strconv.Atoi(args[3])
	W, _ := strconv.Atoi(args[4])
	w, _ := strconv.Atoi(args[5])
	journal, state := args[6], args[7]
	nFlags, _ := strconv.Atoi(args[8])
	nRace, _ := strconv.Atoi(args[9])
	if nRace > 0 {
		df, err := os.OpenFile(args[10], os.O_CREATE|os.O_WRONLY|os.O_APPEND, 0o644)
		if err != nil {
			fmt.Println("dump:", err)
			os.Exit(4)
		}
		dumpW = bufio.NewWriter(df)
		defer func() { dumpW.Flush(); df.Close() }()
	}
	script.DBG_ERR = false
	script.DBG_SCR = false
	initPools()
	run := vlib.StartChild("C01", seed, tier)
	jf, err := os.OpenFile(journal, os.O_CREATE|os.O_WRONLY, 0o644)
	if err != nil {
		fmt.Println("journal:", err)
		os.Exit(4)
	}
	lastExport := time.Now()
	exportedViol := 0
	for i := from; i < to; i++ {
		if i%W != w {
			continue
		}
		// journal before doing anything with the case
		jf.WriteAt([]byte(fmt.Sprintf("%012d\n", i)), 0)
		sp := makeSpend(run, i, to)
		evalSpend(run, sp, i, nFlags, i < nRace)
		if time.Since(lastExport) > 5*time.Second || (run.Violations() != exportedViol && time.Since(lastExport) > time.Second) {
			run.ExportState(state)
			lastExport = time.Now()
			exportedViol = run.Violations()
		}
	}
	jf.WriteAt([]byte(fmt.Sprintf("%012d\n", -1)), 0)
	run.Count("sigcache_hits", refscript.CacheHits)
	run.Count("sigcache_misses", refscript.CacheMisses)
	run.ExportState(state)
}

// dumpRec is one spend with its flag sets and the sequential verdicts, for the race replay.
type dumpRec struct {
	Case     int      `json:"case"`
	Family   string   `json:"family"`
	Template string   `json:"template"`
	Mutation string   `json:"mutation"`
	PkScript string   `json:"pk_script"`
	Tx       string   `json:"tx"`
	Idx      int      `json:"idx"`
	Amount   int64    `json:"amount"`
	SpentV   []int64  `json:"spent_values"`
	SpentS   []string `json:"spent_scripts"`
	Flags    []uint32 `json:"flags"`
	Ref      []bool   `json:"ref"`
	Gocoin   []bool   `json:"gocoin"`
}

var dumpW *bufio.Writer

func evalSpend(run *vlib.Run, sp *spend, caseIdx, nFlags int, dump bool) {
	var rec *dumpRec
	if dump && dumpW != nil {
		rec = &dumpRec{Case: caseIdx, Family: sp.Family, Template: sp.Template, Mutation: sp.Mutation, PkScript: hex.EncodeToString(sp.PkScript),
			Tx: hex.EncodeToString(sp.Tx.Serialize(true)), Idx: sp.Idx, Amount: sp.Amount}
		for _, o := range sp.Spent {
			rec.SpentV = append(rec.SpentV, o.Value)
			rec.SpentS = append(rec.SpentS, hex.EncodeToString(o.PkScript))
		}
		defer func() {
			b, _ := json.Marshal(rec)
			dumpW.Write(b)
			dumpW.WriteByte('\n')
		}()
	}
	fr := run.Rand(fmt.Sprintf("flags/%d", caseIdx))
	flagSets := flagSetsFor(sp, fr, nFlags)
	if sp.directed != nil {
		flagSets = append([]uint32{sp.directed.flags}, flagSets[:len(flagSets)-1]...)
	}
	if sp.WantOK {
		flagSets = append(flagSets, consensusAll)
	}
	in := &sp.Tx.In[sp.Idx]
	run.Count("spends/"+sp.Family, 1)
	bt := toBtcTx(sp.Tx, sp.Spent)
	for fi, flags := range flagSets {
		tr := &refscript.Trace{}
		refOK, refErr := refscript.VerifyTrace(in.ScriptSig, sp.PkScript, in.Witness, sp.Tx, sp.Idx, sp.Amount, sp.Spent, flags, tr)
		got, pan := runGocoin(bt, sp, flags)
		if rec != nil && pan == nil {
			rec.Flags = append(rec.Flags, flags)
			rec.Ref = append(rec.Ref, refOK)
			rec.Gocoin = append(rec.Gocoin, got)
		}
		run.Count("evaluations", 1)
		run.Count("cases/"+sp.Family, 1)
		run.Distinct("ref_error_codes", refErr.String())
		for op, b := range tr.Executed {
			if b {
				run.Distinct("ref_opcodes_executed", op)
			}
		}
		run.Distinct("triples", sp.Template, sp.Mutation, flags)
		run.Distinct("template_mutation", sp.Template, sp.Mutation)
		run.Distinct("templates", sp.Template)
		run.Distinct("flag_sets", flags)
		if tr.Path != "" {
			run.Distinct("ref_paths", tr.Path)
		}
		run.Count("ref_ecdsa_checks", int64(tr.ECDSA))
		run.Count("ref_schnorr_checks", int64(tr.Schnorr))
		run.Count("ref_taproot_commitment_checks", int64(tr.TapTweak))
		run.Count("ref_op_success", int64(tr.OpSuccess))
		if pan != nil {
			run.Violation("crash/"+sp.Family+"/"+sp.Template, fmt.Sprintf("panic escaped VerifyTxScript: %v", pan),
				witnessOf(sp, flags, caseIdx, map[string]interface{}{"panic": fmt.Sprint(pan), "reference": refErr.String()}))
			continue
		}
		key := "verdict/ref=reject,gocoin=reject"
		switch {
		case refOK && got:
			key = "verdict/ref=accept,gocoin=accept"
		case refOK && !got:
			key = "verdict/ref=accept,gocoin=reject"
		case !refOK && got:
			key = "verdict/ref=reject,gocoin=accept"
		}
		run.Count(key, 1)
		run.Count(key+"/"+sp.Family, 1)
		if refOK != got {
			cl := classOf(sp, refOK, refErr, flags, got)
			what := fmt.Sprintf("gocoin=%v reference=%v (%s) template=%s mutation=%s flags=%s", got, refOK, refErr, sp.Template, sp.Mutation, flagNames(flags))
			run.Violation(cl, what, witnessOf(sp, flags, caseIdx, map[string]interface{}{"reference": refErr.String(), "gocoin": got, "ref_path": tr.Path}))
		}
		// generator self-checks (never violations)
		if sp.directed != nil && fi == 0 && sp.directed.want != "" && refErr.String() != sp.directed.want {
			run.Inconclusive("directed case %s: reference says %s, generator expected %s", sp.directed.name, refErr, sp.directed.want)
		}
		if sp.WantOK && flags == consensusAll && !refOK {
			run.Inconclusive("generator: unmutated template %s rejected by the reference under consensus flags: %s (case %d)", sp.Template, refErr, caseIdx)
		}
		if run.WantSample() && caseIdx%97 == 0 && fi == 0 {
			run.Sample(witnessOf(sp, flags, caseIdx, map[string]interface{}{"reference": refErr.String(), "gocoin": got}))
		}
	}
}

// runGocoinConcurrently verifies the same input from 8 goroutines sharing one btc.Tx (race build).
func runGocoinConcurrently(t *btc.Tx, sp *spend, flags uint32) (bool, interface{}) {
	const G = 8
	var wg sync.WaitGroup
	res := make([]bool, G)
	pans := make([]interface{}, G)
	for g := 0; g < G; g++ {
		wg.Add(1)
		go func(g int) {
			defer wg.Done()
			res[g], pans[g] = runGocoin(t, sp, flags)
		}(g)
	}
	wg.Wait()
	for g := 0; g < G; g++ {
		if pans[g] != nil {
			return false, pans[g]
		}
		if res[g] != res[0] {
			return false, fmt.Sprintf("non-deterministic verdicts under concurrency: %v", res)
		}
	}
	return res[0], nil
}

// raceChildMain replays dumped spends in the -race build: 8 goroutines verify the same input of one
// shared btc.Tx concurrently; every verdict must equal the sequential one recorded by the main
// variant. The reference is not run here (its big.Int arithmetic is too slow under the race detector).
func raceChildMain(args []string) {
	// args: seed tier journal state dumpfile...
	seed, _ := strconv.ParseInt(args[0], 10, 64)
	journal, state := args[2], args[3]
	script.DBG_ERR = false
	run := vlib.StartChild("C01", seed, args[1])
	jf, _ := os.OpenFile(journal, os.O_CREATE|os.O_WRONLY, 0o644)
	for _, path := range args[4:] {
		f, err := os.Open(path)
		if err != nil {
			continue
		}
		sc := bufio.NewScanner(f)
		sc.Buffer(make([]byte, 1<<20), 64<<20)
		for sc.Scan() {
			var rec dumpRec
			if json.Unmarshal(sc.Bytes(), &rec) != nil {
				run.Inconclusive("race replay: unreadable dump line in %s", path)
				continue
			}
			jf.WriteAt([]byte(fmt.Sprintf("%012d\n", rec.Case)), 0)
			raw, _ := hex.DecodeString(rec.Tx)
			tx, _, err := reftx.Decode(raw)
			if err != nil {
				run.Inconclusive("race replay: dumped tx of case %d does not decode: %v", rec.Case, err)
				continue
			}
			pk, _ := hex.DecodeString(rec.PkScript)
			spent := make([]reftx.TxOut, len(rec.SpentV))
			for i := range spent {
				ps, _ := hex.DecodeString(rec.SpentS[i])
				spent[i] = reftx.TxOut{Value: rec.SpentV[i], PkScript: ps}
			}
			sp := &spend{Family: rec.Family, Template: rec.Template, Mutation: rec.Mutation, PkScript: pk, Tx: tx, Idx: rec.Idx, Amount: rec.Amount, Spent: spent}
			bt := toBtcTx(tx, spent)
			run.Count("race_spends", 1)
			for k, flags := range rec.Flags {
				got, pan := runGocoinConcurrently(bt, sp, flags)
				run.Count("race_evaluations", 1)
				run.Count("race_goroutine_verifications", 8)
				if pan != nil {
					run.Violation("race-replay/crash-or-nondeterminism/"+sp.Template, fmt.Sprintf("8 goroutines sharing one btc.Tx: %v", pan),
						witnessOf(sp, flags, rec.Case, map[string]interface{}{"problem": fmt.Sprint(pan)}))
					continue
				}
				if got != rec.Gocoin[k] {
					run.Violation("race-replay/verdict-differs-from-sequential/"+sp.Template,
						fmt.Sprintf("concurrent verdict %v, sequential verdict %v (reference %v)", got, rec.Gocoin[k], rec.Ref[k]),
						witnessOf(sp, flags, rec.Case, nil))
				}
			}
		}
		f.Close()
	}
	jf.WriteAt([]byte(fmt.Sprintf("%012d\n", -1)), 0)
	run.ExportState(state)
}

// ---------------------------------------------------------------------------------------------
// parent

func main() {
	if len(os.Args) > 1 && os.Args[1] == "child" {
		childMain(os.Args[2:])
		return
	}
	if len(os.Args) > 1 && os.Args[1] == "racechild" {
		raceChildMain(os.Args[2:])
		return
	}
	run := vlib.Start("C01", "differential")
	t0 := time.Now()

	// ---- calibration of the oracle (exit 2 on any failure)
	if rep, err := refec.Calibrate("/repo/lib"); err != nil {
		fmt.Printf("BROKEN property=C01 refec calibration failed: %v\n", err)
		os.Exit(2)
	} else {
		run.Extra("calibration_refec_checks", rep.Checks)
	}
	if st, err := refsighash.Calibrate("/repo/lib/test"); err != nil {
		fmt.Printf("BROKEN property=C01 refsighash calibration failed: %v\n", err)
		os.Exit(2)
	} else {
		run.Extra("calibration_refsighash", st)
	}
	cst, err := refscript.Calibrate("/repo/lib/test")
	if err != nil {
		fmt.Printf("BROKEN property=C01 refscript calibration failed: %v\n", err)
		os.Exit(2)
	}
	run.Extra("calibration_refscript", cst)
	run.Extra("calibration_wall_s", time.Since(t0).Seconds())

	// replay of a single case: ./check C01 quick --replay <path>
	for i, a := range os.Args {
		if a == "--replay" && i+1 < len(os.Args) {
			replay(run, os.Args[i+1])
			return
		}
	}

	bindir := os.Getenv("VERIF_BIN_DIR")
	if bindir == "" {
		bindir = vlib.Root + "/bin"
	}
	mainBin := bindir + "/c01.main"
	raceBin := bindir + "/c01.race"
	if _, err := os.Stat(mainBin); err != nil {
		mainBin, _ = os.Executable()
	}
	nSpends := run.N(15000, 750000)
	if v, err := strconv.Atoi(os.Getenv("VERIF_C01_SPENDS")); err == nil && v > 0 {
		nSpends = v // development aid only (sensitivity runs); evidence records the number of cases actually run
	}
	nFlags := 4
	W := 16
	tmp, _ := os.MkdirTemp("", "c01")
	defer os.RemoveAll(tmp)

	nRace := 0
	if _, err := os.Stat(raceBin); err == nil {
		nRace = run.N(640, 25000) // x4 flag sets = 100k evaluations in the thorough tier
		if nRace > nSpends {
			nRace = nSpends
		}
	} else {
		run.Inconclusive("race variant binary %s missing", raceBin)
	}
	var mu sync.Mutex
	regen := func(idx int) (fam, tmpl string, w map[string]interface{}) {
		fam, tmpl = "?", "?"
		initPools()
		func() {
			defer func() { recover() }()
			sp := makeSpend(run, idx, nSpends)
			fam, tmpl = sp.Family, sp.Template
			w = witnessOf(sp, 0, idx, nil)
			delete(w, "flags")
			delete(w, "flags_hex")
		}()
		if w == nil {
			w = map[string]interface{}{"case_index": idx}
		}
		return
	}
	// runWorker runs one child until it finishes; a child that dies is restarted after the case it
	// was executing. mkArgs gets the attempt number and the index to resume from (-1: from the start).
	runWorker := func(label, bin string, race bool, mkArgs func(attempt, resume int, journal, state string) []string) {
		resume := -1
		for attempt := 0; attempt < 50; attempt++ {
			journal := fmt.Sprintf("%s/journal-%s-%d", tmp, label, attempt)
			state := fmt.Sprintf("%s/state-%s-%d.json", tmp, label, attempt)
			args := mkArgs(attempt, resume, journal, state)
			env := []string{"GOTRACEBACK=all", "GORACE=halt_on_error=0 exitcode=0"}
			if strings.HasPrefix(label, "x386") {
				env = append(env, "VERIF_CLASS_SUFFIX=@386")
			}
			res := vlib.RunChild(bin, args, env, nil, 3*time.Hour)
			mu.Lock()
			imported := run.ImportState(state)
			out := string(res.Out)
			if race && strings.Contains(out, "WARNING: DATA RACE") {
				for _, rr := range vlib.ParseRaces(out, "github.com/piotrnar/gocoin/") {
					run.Violation("race/"+rr.Sig, "data race while 8 goroutines verify the same input of one shared btc.Tx: "+rr.Sig,
						map[string]interface{}{"report": rr.Block, "args": args})
				}
			}
			if race {
				run.Count("race_children", 1)
			}
			mu.Unlock()
			last := -1
			if b, err := os.ReadFile(journal); err == nil {
				if v, err := strconv.Atoi(strings.TrimSpace(string(b))); err == nil {
					last = v
				}
			}
			if res.TimedOut {
				mu.Lock()
				run.Inconclusive("child %s watchdog fired at case %d", label, last)
				mu.Unlock()
				return
			}
			if res.ExitCode == 0 && last == -1 && imported {
				return // finished
			}
			// the worker died: the journaled case is the witness
			mu.Lock()
			if last < 0 {
				run.Inconclusive("child %s died before journaling a case (exit %d signal %s): %s", label, res.ExitCode, res.Signal, vlib.Tail(res.Out, 600))
				mu.Unlock()
				return
			}
			fam, tmpl, w := regen(last)
			w["output_tail"] = vlib.Tail(res.Out, 4000)
			w["exit_code"] = res.ExitCode
			w["signal"] = res.Signal
			kind := "fatal"
			switch {
			case strings.Contains(out, "fatal error:"):
				kind = "fatal-error"
			case strings.Contains(out, "panic:"):
				kind = "panic-outside-recover"
			case res.ExitCode > 0:
				kind = "exit"
			}
			if race {
				kind = "race-replay/" + kind
			}
			run.Violation("crash/"+kind+"/"+fam+"/"+tmpl, fmt.Sprintf("worker %s died while executing case %d (%s %s): exit %d signal %s", label, last, fam, tmpl, res.ExitCode, res.Signal), w)
			mu.Unlock()
			if race {
				return // the dump files are replayed from the start only; one crash is reported, the rest of this share is skipped
			}
			resume = last + 1
		}
	}
	// phase 1: differential run, 16 workers (case indices dealt round-robin)
	vlib.Parallel(W, W, func(w int) {
		runWorker(fmt.Sprintf("main%d", w), mainBin, false, func(attempt, resume int, journal, state string) []string {
			from := 0
			if resume > 0 {
				from = resume
			}
			return []string{"child", fmt.Sprint(run.Seed), run.Tier, fmt.Sprint(from), fmt.Sprint(nSpends), fmt.Sprint(W), fmt.Sprint(w), journal, state,
				fmt.Sprint(nFlags), fmt.Sprint(nRace), fmt.Sprintf("%s/dump-%d.jsonl", tmp, w)}
		})
	})
	// phase 1b: every second case again in a 32-bit build of the interpreter (int is 32 bits wide: script numbers, lengths,
	// counters); classes carry "@386"
	if x386 := bindir + "/c01.x386"; func() bool { _, err := os.Stat(x386); return err == nil }() {
		vlib.Parallel(4, 4, func(w int) {
			runWorker(fmt.Sprintf("x386-%d", w), x386, false, func(attempt, resume int, journal, state string) []string {
				from := 0
				if resume > 0 {
					from = resume
				}
				return []string{"child", fmt.Sprint(run.Seed), run.Tier, fmt.Sprint(from), fmt.Sprint(nSpends), fmt.Sprint(8), fmt.Sprint(2*w + 1), journal, state,
					fmt.Sprint(nFlags), "0", fmt.Sprintf("%s/dump386-%d.jsonl", tmp, w)}
			})
		})
	} else {
		run.Inconclusive("386 variant binary %s missing", x386)
	}
	// phase 2: the first nRace spends replayed in the -race build from 8 goroutines sharing one btc.Tx
	if nRace > 0 {
		RW := 8
		vlib.Parallel(RW, RW, func(w int) {
			runWorker(fmt.Sprintf("race%d", w), raceBin, true, func(attempt, resume int, journal, state string) []string {
				a := []string{"racechild", fmt.Sprint(run.Seed), run.Tier, journal, state}
				for k := w; k < W; k += RW {
					a = append(a, fmt.Sprintf("%s/dump-%d.jsonl", tmp, k))
				}
				return a
			})
		})
		if run.Get("race_evaluations") == 0 && run.Violations() == 0 {
			run.Inconclusive("race replay executed nothing")
		}
	}

	// derived evidence
	matrix := map[string]int64{}
	for _, k := range []string{"verdict/ref=accept,gocoin=accept", "verdict/ref=reject,gocoin=reject", "verdict/ref=accept,gocoin=reject", "verdict/ref=reject,gocoin=accept"} {
		matrix[strings.TrimPrefix(k, "verdict/")] = run.Get(k)
	}
	run.Extra("accept_reject_matrix", matrix)
	run.Extra("ref_error_codes_total_in_core", int(refscript.ErrCount))
	run.Extra("directed_cases", len(directedCases))
	run.Extra("sweep_cases", len(sweeps))
	if n := run.DistinctN("ref_error_codes"); n < 50 && run.Violations() == 0 {
		run.Inconclusive("only %d distinct reference error codes reached (want >= 50 of %d)", n, int(refscript.ErrCount))
	}
	if run.Get("verdict/ref=accept,gocoin=accept") < int64(run.N(10000, 400000)) {
		run.Inconclusive("too few accepted cases: %d", run.Get("verdict/ref=accept,gocoin=accept"))
	}
	run.Assume("verdict equality is judged against refscript, an independent port of Bitcoin Core's interpreter semantics calibrated on the shipped vector files; two implementations agreeing is evidence, not proof")
	run.Assume("flag sets are closed under CLEANSTACK=>P2SH+WITNESS, WITNESS=>P2SH (Core asserts; gocoin panics by design) and TAPROOT=>WITNESS")
	run.Assume("taproot layers of the reference are calibrated by BIP340 vectors, BIP341 wallet vectors recalled from memory (accepted only on exact 256-bit matches) and hand-derived cases; bip341_script_tests.json is empty in this tree")
	minTriples := run.N(25000, 800000)
	os.RemoveAll(tmp) // Finish exits the process: deferred clean-up would not run
	run.Finish("each case = one (scriptSig, scriptPubKey, witness, amount, tx, idx, flags) tuple judged by refscript and by script.VerifyTxScript (boolean verdicts compared, panics/fatal errors are violations); distinct_nontrivial = distinct (template, mutation, flags) triples",
		"evaluations", "triples", minTriples)
}

func replay(run *vlib.Run, path string) {
	b, err := os.ReadFile(path)
	if err != nil {
		fmt.Println("BROKEN: cannot read replay file:", err)
		os.Exit(2)
	}
	var doc struct {
		Witness struct {
			ScriptSig string   `json:"script_sig"`
			PkScript  string   `json:"pk_script"`
			Witness   []string `json:"witness"`
			Amount    int64    `json:"amount"`
			Idx       int      `json:"input_index"`
			Tx        string   `json:"tx"`
			FlagsHex  string   `json:"flags_hex"`
			Spent     []struct {
				Value    int64  `json:"value"`
				PkScript string `json:"pk_script"`
			} `json:"spent_outputs"`
		} `json:"witness"`
	}
	if err := json.Unmarshal(b, &doc); err != nil {
		fmt.Println("BROKEN: replay file:", err)
		os.Exit(2)
	}
	w := doc.Witness
	raw, _ := hex.DecodeString(w.Tx)
	tx, _, err := reftx.Decode(raw)
	if err != nil {
		fmt.Println("BROKEN: replay tx:", err)
		os.Exit(2)
	}
	pk, _ := hex.DecodeString(w.PkScript)
	var spent []reftx.TxOut
	for _, s := range w.Spent {
		p, _ := hex.DecodeString(s.PkScript)
		spent = append(spent, reftx.TxOut{Value: s.Value, PkScript: p})
	}
	flags64, _ := strconv.ParseUint(strings.TrimPrefix(w.FlagsHex, "0x"), 16, 32)
	flags := uint32(flags64)
	sp := &spend{Family: "replay", Template: "replay", PkScript: pk, Tx: tx, Idx: w.Idx, Amount: w.Amount, Spent: spent}
	script.DBG_ERR = false
	in := &tx.In[w.Idx]
	refOK, refErr := refscript.Verify(in.ScriptSig, pk, in.Witness, tx, w.Idx, w.Amount, spent, flags)
	got, pan := runGocoin(toBtcTx(tx, spent), sp, flags)
	fmt.Printf("replay %s: reference=%v (%s) gocoin=%v panic=%v flags=%s\n", path, refOK, refErr, got, pan, flagNames(flags))
	run.Count("evaluations", 1)
	run.Distinct("triples", path)
	if pan != nil {
		run.Violation("crash/replay", fmt.Sprintf("panic escaped VerifyTxScript: %v", pan), map[string]interface{}{"path": path})
	} else if got != refOK {
		run.Violation(classOf(sp, refOK, refErr, flags, got), "replayed case still disagrees", map[string]interface{}{"path": path})
	}
	keys := []string{}
	_ = sort.Strings
	_ = keys
	run.Finish("replay of one recorded case", "evaluations", "triples", 1)
}
