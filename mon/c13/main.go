// C13 — wallet-built transactions pay exactly what was asked and are fully valid.
//
// The check builds the real `wallet` binary from the current working tree of /repo and runs it in
// throw-away directories with generated wallet.cfg / .secret / balance folders. What it writes is
// decoded with reftx and judged with refaddr (address -> script), refsighash (legacy / BIP143 /
// BIP341 digests) and refec (ECDSA / BIP340 verification): inputs only from balance/unspent.txt,
// every requested destination with exactly the requested amount, change = inputs - payments - fee
// to the designated change script, a valid standard signature on every input, nothing written when
// the funds do not suffice, and for -raw: outputs / outpoints / sequences / version / lock time
// untouched. Exit code and presence of files are part of the observation. The monitor itself
// imports no gocoin package.
//
// Files: main.go (driver, per-run observation), wallet.go (wallet configurations, process control),
// gen.go (balance folders, requests, raw transactions), oracle.go (the judgement), selftest.go
// (oracle self-test with reference signers).
//
// Classes found by this monitor and since repaired in /repo (0413aaf0, ec59b228, 1c3d5b14, 17dacc0c;
// /verif/known/C13.json is empty, details in FINDINGS.md), former cause:
//
//	msg-output/wrong-script/len76                         lib/btc/funcs.go:256  WritePutLen `<=` OP_PUSHDATA1
//	wrote-tx-although-unfundable/amount-overflow          lib/btc/funcs.go:325,348; wallet/send.go:50,90 (uint64 wrap)
//	wrote-tx-although-unfundable/f-first-amount-below-fee wallet/send.go:46     `am -= curFee` underflow
//	(was) no-tx/busy-hang/minsig+rfc6979                  wallet/signtx.go:118-139 + lib/btc/ecdsa.go:55-65
package main

import (
	"encoding/hex"
	"fmt"
	"os"
	"os/exec"
	"path/filepath"
	"strings"
	"sync"
	"time"

	"verif/lib/vlib"
	"verif/ref/refaddr"
	"verif/ref/refec"
	"verif/ref/refscript"
	"verif/ref/refsighash"
	"verif/ref/reftx"
)

const ID = "C13"

func broken(format string, a ...interface{}) {
	fmt.Printf("BROKEN property=%s %s\n", ID, fmt.Sprintf(format, a...))
	os.Exit(2)
}

func main() {
	run := vlib.Start(ID, "differential")
	repo := repoDir()
	testDir := filepath.Join(repo, "lib/test")
	if err := refaddr.Calibrate(filepath.Join(testDir, "base58_encode_decode.json")); err != nil {
		broken("refaddr calibration failed: %v", err)
	}
	if _, err := refec.Calibrate(filepath.Join(repo, "lib")); err != nil {
		broken("refec calibration failed: %v", err)
	}
	if _, err := reftx.Calibrate(testDir); err != nil {
		broken("reftx calibration failed: %v", err)
	}
	if _, err := refsighash.Calibrate(testDir); err != nil {
		broken("refsighash calibration failed: %v", err)
	}
	if _, err := refscript.Calibrate(testDir); err != nil {
		broken("refscript calibration failed: %v", err)
	}
	if err := selfTest(); err != nil {
		broken("oracle self-test failed: %v", err)
	}
	run.Count("calibration_ok", 1)

	tmp, err := os.MkdirTemp("", "c13")
	if err != nil {
		broken("no temp dir")
	}

	walletBin := filepath.Join(tmp, "wallet")
	cmd := exec.Command("go", "build", "-o", walletBin, "./wallet")
	cmd.Dir = repo
	cmd.Env = append(cleanEnv(), "GOFLAGS=-mod=mod", "GOPROXY=off", "GOSUMDB=off", "GOTOOLCHAIN=local")
	if out, err := cmd.CombinedOutput(); err != nil {
		os.RemoveAll(tmp)
		broken("cannot build the wallet: %v\n%s", err, vlib.Tail(out, 2000))
	}

	// wallets
	nW := run.N(16, 96)
	wr := run.Rand("wallets")
	ws := make([]*wcfg, nW)
	var mu sync.Mutex
	var learnErrs []string
	vlib.Parallel(nW, 12, func(i int) {
		w := genWcfg(wr.Fork(fmt.Sprint("w", i)), i)
		if err := w.learn(walletBin, filepath.Join(tmp, fmt.Sprintf("w%d", i))); err != nil {
			mu.Lock()
			learnErrs = append(learnErrs, fmt.Sprintf("wallet %v: %v", w.describe(), err))
			mu.Unlock()
			return
		}
		ws[i] = w
	})
	var good []*wcfg
	for _, w := range ws {
		if w != nil {
			good = append(good, w)
			run.Distinct("wallet_configs", w.Type, w.AType, w.Testnet)
		}
	}
	for _, e := range learnErrs {
		run.Inconclusive("cannot learn the keys of a wallet: %s", e)
	}
	if len(good) < nW*3/4 {
		os.RemoveAll(tmp)
		broken("only %d of %d wallets could list their keys", len(good), nW)
	}
	run.Count("wallets", int64(len(good)))

	// cases
	nCases := run.N(420, 20000)
	cr := run.Rand("cases")
	merge := func(outs []*outcome, wantSample bool) {
		mu.Lock()
		defer mu.Unlock()
		for _, o := range outs {
			for k, v := range o.counts {
				run.Count(k, v)
			}
			for _, d := range o.distinct {
				run.Distinct("txs_fully_checked", d)
			}
			for _, s := range o.incon {
				run.Inconclusive("%s", s)
			}
			for _, v := range o.vios {
				run.Count("violations_by_class/"+v.Class, 1)
				run.Violation(v.Class, v.What, v.Extra)
			}
			if o.sample != nil && run.WantSample() && wantSample {
				run.Sample(o.sample)
			}
		}
	}
	vlib.Parallel(nCases, 14, func(i int) {
		r := cr.Fork(fmt.Sprint("c", i))
		w := good[i%len(good)]
		dir := filepath.Join(tmp, fmt.Sprintf("case%d", i))
		tc := time.Now()
		outs := runCase(walletBin, dir, w, r, i)
		if os.Getenv("VERIF_DEBUG") != "" && time.Since(tc) > 3*time.Second {
			fmt.Fprintf(os.Stderr, "case %d took %v\n", i, time.Since(tc))
		}
		os.RemoveAll(dir)
		merge(outs, i%37 == 0 || i < 3)
	})

	// directed family: DER boundary shapes of predicted RFC 6979 signatures (directed.go)
	var dw []*wcfg
	for _, w := range good {
		if w.AType == "p2kh" || w.AType == "segwit" { // all three ECDSA input kinds are spendable in these modes
			dw = append(dw, w)
		}
	}
	nDir, maxRuns := run.N(3, 12), 26
	dr := run.Rand("directed")
	for k := 0; k < nDir && len(dw) > 0; k++ {
		r := dr.Fork(fmt.Sprint("d", k))
		w := dw[r.Intn(len(dw))]
		dir := filepath.Join(tmp, fmt.Sprintf("directed%d", k))
		outs := runDirected(walletBin, dir, w, r, maxRuns)
		os.RemoveAll(dir)
		merge(outs, k == 0)
	}
	if run.Get("directed/shape/p2wpkh/R-top-80") == 0 || run.Get("directed/shape/p2sh-p2wpkh/R-top-80") == 0 || run.Get("directed/shape/p2pkh/R-top-80") == 0 {
		run.Inconclusive("directed family: not every input kind was exercised with an R whose top byte is 0x80")
	}

	run.Assume("the keys of a wallet are learned from the wallet itself (`-l -atype=pks`, `-l`); that they are the right keys for the seed is C14's subject")
	run.Assume("default change script = script of the output spent by the first input (help text of -change: 'otherwise return it to the 1st input'); a change output is expected iff inputs - payments - fee > 0 (the wallet documents no dust rule)")
	run.Assume("with -f the fee is subtracted from the first -send amount; -f together with -batch only is accepted either way (the wallet ignores -f there: counted as batch_f_ignored)")
	run.Assume("a request must succeed when the outputs the wallet is designed to recognise in its mode cover it (P2PKH, P2WPKH, P2TR of its keys in every mode, P2SH-P2WPKH with atype p2kh/segwit) and must fail when all outputs of its keys together do not; in between both are accepted")
	run.Assume("validity of an input = exact standard key-spend structure + strict DER + low S + SIGHASH_ALL + signature verifies over the reference digest (legacy / BIP143 / BIP341, refsighash + refec), and additionally refscript.Verify with all standardness flags; context rules (lock time finality, BIP68, fees vs. relay policy, dust) are not judged")
	run.Assume("minsig together with rfc6979 is a configuration error: expected exit != 0, the refusal on stderr, no file, balance untouched; minsig alone: every ECDSA signature + hash type <= 71 bytes; rfc6979 alone: every ECDSA signature equals the RFC 6979 signature recomputed by refec from the key printed by `wallet -dump *`")
	os.RemoveAll(tmp)
	minTx := nCases / 3
	if run.Get("raw_fields_identical") < int64(nCases/20) {
		run.Inconclusive("only %d -raw results could be compared (expected at least %d)", run.Get("raw_fields_identical"), nCases/20)
		minTx = nCases * 10 // forces 'observed too little'
	}
	run.Finish("each evaluation = one run of the wallet binary (send/batch/raw) whose exit code, written files and balance folder were judged; distinct_nontrivial = distinct transactions written by the wallet that passed every check (outputs, change, fee, all signatures)",
		"wallet_runs", "txs_fully_checked", minTx)
}

// runCase runs 1..3 chained steps in one directory.
func runCase(bin, dir string, w *wcfg, r *vlib.Rand, idx int) []*outcome {
	var res []*outcome
	st := genBalance(r.Fork("bal"), w)
	if err := os.MkdirAll(dir, 0o755); err != nil {
		return []*outcome{{incon: []string{"mkdir: " + err.Error()}, counts: map[string]int64{}}}
	}
	if err := writeBalance(dir, st, r.Fork("wb")); err != nil {
		return []*outcome{{incon: []string{"write balance: " + err.Error()}, counts: map[string]int64{}}}
	}
	os.WriteFile(filepath.Join(dir, ".secret"), []byte(w.Pass), 0o600)
	steps := 1
	if r.Chance(1, 4) {
		steps = r.Range(2, 3)
	}
	for s := 0; s < steps && st != nil; s++ {
		sr := r.Fork(fmt.Sprint("step", s))
		var q *request
		if sr.Chance(1, 4) {
			q = genRaw(sr, w, st)
		} else {
			q = genRequest(sr, w, st)
		}
		o := runStep(bin, dir, w, st, q, s)
		res = append(res, o)
		if q.Raw {
			continue // the balance is untouched by -raw; next step uses the same state
		}
		st = o.newState
	}
	return res
}

func runStep(bin, dir string, w *wcfg, st *state, q *request, step int) *outcome {
	o := &outcome{counts: map[string]int64{}}
	args, cfgExtra := q.args()
	cfgTxt := "# generated by /verif/mon/c13\n" + w.keyLines() + cfgExtra
	os.WriteFile(filepath.Join(dir, "wallet.cfg"), []byte(cfgTxt), 0o600)
	if q.BatchTxt != "" {
		os.WriteFile(filepath.Join(dir, "pay.txt"), []byte(q.BatchTxt), 0o600)
	} else {
		os.Remove(filepath.Join(dir, "pay.txt"))
	}
	if q.Raw && !q.RawAsArg {
		raw := q.RawTx.Serialize(false)
		if q.RawBinary {
			os.WriteFile(filepath.Join(dir, "tx2sign.txt"), raw, 0o600)
		} else {
			os.WriteFile(filepath.Join(dir, "tx2sign.txt"), []byte(hex.EncodeToString(raw)+"\n"), 0o600)
		}
	}
	if q.TxFn != "" {
		os.Remove(filepath.Join(dir, q.TxFn))
	}
	before := listDir(dir)
	balBefore := listDir(filepath.Join(dir, "balance"))

	bothSig := q.MinSig != 0 && q.Rfc != 0 // configuration error: must be refused
	wd := 120 * time.Second                // a normal run takes some 20 ms
	if bothSig {
		wd = 20 * time.Second // a refusal is immediate; firing => INCONCLUSIVE as everywhere
	}
	var typed []byte
	switch q.Prompt {
	case 1, 4:
		typed = []byte("y\n")
	case 2, 3:
		typed = []byte("n\n")
	}
	pr := runWalletIn(bin, dir, args, wd, typed)
	if os.Getenv("VERIF_DEBUG") != "" && pr.wall > time.Second {
		fmt.Fprintf(os.Stderr, "wallet run took %v: %v\n", pr.wall, args)
	}
	o.inc("wallet_runs")
	fam := "send"
	switch {
	case q.Raw:
		fam = "raw"
	case len(q.Send) > 0 && len(q.Batch) > 0:
		fam = "send+batch"
	case len(q.Batch) > 0:
		fam = "batch"
	}
	o.inc("family/" + fam)
	o.inc(fmt.Sprintf("wallet/type%d/%s", w.Type, w.AType))
	if step > 0 {
		o.inc("chained_steps")
	}

	witness := func(extra map[string]interface{}) map[string]interface{} {
		wi := map[string]interface{}{
			"wallet":      w.describe(),
			"wallet.cfg":  cfgTxt,
			"args":        args,
			"unspent.txt": st.unspTxt,
			"exit":        pr.exit,
			"stdout":      vlib.Tail([]byte(pr.stdout), 1500),
			"stderr":      vlib.Tail([]byte(pr.stderr), 1500),
			"mode":        q.Mode,
			"step":        step,
		}
		if q.BatchTxt != "" {
			wi["pay.txt"] = q.BatchTxt
		}
		if q.Raw {
			wi["raw_tx"] = hex.EncodeToString(q.RawTx.Serialize(false))
		} else {
			wi["need"] = q.Need.String()
			wi["fee"] = q.Fee
		}
		ptx := map[string]string{}
		for id, t := range st.txs {
			if len(ptx) < 60 {
				ptx["balance/"+displayHex(id)+".tx"] = hex.EncodeToString(t.Serialize(false))
			}
		}
		wi["prev_txs"] = ptx
		for k, v := range extra {
			wi[k] = v
		}
		return wi
	}
	flush := func() {
		for i := range o.vios {
			o.vios[i].Extra = witness(o.vios[i].Extra)
		}
	}
	defer flush()

	if pr.timedOut {
		o.incon = append(o.incon, fmt.Sprintf("watchdog (%v) fired for wallet %v (cpu %.2fs, stack: %s)", wd, args, pr.cpu.Seconds(), firstLine(pr.quitStack, "main.")))
		return o
	}

	after := listDir(dir)
	nf := newFiles(before, after)
	crashed := strings.Contains(pr.stderr, "panic:") || strings.Contains(pr.stderr, "goroutine 1 [")

	if bothSig {
		// minsig needs a fresh nonce per attempt, rfc6979 fixes the nonce: the wallet must refuse the
		// combination (from flags or wallet.cfg) before doing anything
		o.inc("config_refusal_runs/minsig+rfc6979")
		const cls = "config-refusal/minsig+rfc6979/"
		if len(nf) > 0 {
			o.v(cls+"file-written", "minsig and rfc6979 are both on (a configuration error) but a file was written", map[string]interface{}{"files": nf})
		}
		if pr.exit == 0 {
			o.v(cls+"exit-0", "minsig and rfc6979 are both on (a configuration error) but the wallet exits with 0", nil)
		}
		if !strings.Contains(pr.stderr, "minsig cannot be combined with rfc6979") {
			o.v(cls+"no-message", "minsig and rfc6979 are both on but stderr does not say that the combination is refused", nil)
		}
		nb, _ := os.ReadFile(filepath.Join(dir, "balance", "unspent.txt"))
		if string(nb) != st.unspTxt {
			o.v(cls+"balance-changed", "the run was refused but balance/unspent.txt changed", map[string]interface{}{"after": string(nb)})
		}
		if x := newFiles(balBefore, listDir(filepath.Join(dir, "balance"))); len(x) > 0 {
			o.v(cls+"balance-file-written", "the run was refused but a file appeared in balance/", map[string]interface{}{"files": x})
		}
		if len(o.vios) == 0 {
			o.inc("config_refused_ok/minsig+rfc6979")
		}
		return o
	}

	if q.declined() && !bothSig && strings.Contains(pr.stdout, "Do you confirm creating the signed transaction file") {
		// the user was asked and said no: nothing is written, nothing is remembered
		o.inc("prompt_declined_runs")
		const cls = "prompt-declined/"
		if len(nf) > 0 {
			o.v(cls+"file-written", "the confirmation was declined but a file was written", map[string]interface{}{"files": nf})
		}
		nb, _ := os.ReadFile(filepath.Join(dir, "balance", "unspent.txt"))
		if string(nb) != st.unspTxt {
			o.v(cls+"balance-changed", "the confirmation was declined (no transaction exists) but balance/unspent.txt changed", map[string]interface{}{"after": string(nb)})
		}
		if x := newFiles(balBefore, listDir(filepath.Join(dir, "balance"))); len(x) > 0 {
			o.v(cls+"balance-file-written", "the confirmation was declined but a file appeared in balance/", map[string]interface{}{"files": x})
		}
		if pr.exit == 0 {
			o.v(cls+"exit-0", "the confirmation was declined but the wallet exits with 0", nil)
		}
		if len(o.vios) == 0 {
			o.inc("prompt_declined_ok")
		}
		return o
	}
	if q.Prompt != 0 && strings.Contains(pr.stdout, "Do you confirm creating the signed transaction file") {
		o.inc("prompt_accepted_runs")
	}

	if q.Raw {
		o.inc("raw_runs")
		if len(nf) == 0 {
			switch {
			case q.RawMissing:
				o.inc("raw_refused_missing_prevtx")
			case crashed:
				o.inc("raw_crashed")
				o.incon = append(o.incon, "wallet -raw crashed: "+firstLine(pr.stderr, "panic:"))
			default:
				o.inc("raw_no_output")
				o.incon = append(o.incon, fmt.Sprintf("wallet -raw wrote nothing (exit %d): %s", pr.exit, vlib.Tail([]byte(pr.stdout+pr.stderr), 300)))
			}
			return o
		}
		if len(nf) > 1 {
			o.v("raw/multiple-files", "more than one file was written", map[string]interface{}{"files": nf})
			return o
		}
		tx, rawb, why := readTxFile(filepath.Join(dir, nf[0]))
		if tx == nil {
			o.v("raw/tx-file-undecodable", "the file written for -raw is no transaction: "+why, map[string]interface{}{"file": nf[0], "content": hex.EncodeToString(rawb)})
			return o
		}
		n0 := len(o.vios)
		judgeRaw(o, w, st, q, tx)
		for i := n0; i < len(o.vios); i++ {
			if o.vios[i].Extra == nil {
				o.vios[i].Extra = map[string]interface{}{}
			}
			o.vios[i].Extra["signed_tx"] = hex.EncodeToString(rawb)
		}
		nb, _ := os.ReadFile(filepath.Join(dir, "balance", "unspent.txt"))
		if string(nb) != st.unspTxt {
			o.v("raw/balance-changed", "-raw changed balance/unspent.txt", nil)
		}
		o.sample = map[string]interface{}{"family": "raw", "args": args, "inputs": len(tx.In), "txid": displayHex(tx.Txid())}
		return o
	}

	// ---- payment request
	sure, all := st.sums()
	expectFail := q.Huge || q.Underflow || q.Need.Cmp(all) > 0
	expectOK := !expectFail && q.Need.Cmp(sure) <= 0
	reason := "funds"
	switch {
	case q.Huge:
		reason = "amount-overflow"
	case q.Underflow:
		reason = "f-first-amount-below-fee"
	}
	for _, opt := range []struct {
		on   bool
		name string
	}{{q.SubFee, "f"}, {q.Change != nil, "change"}, {q.Msg != nil, "msg"}, {q.Seq != nil, "seq"}, {q.LockTime != nil, "locktime"},
		{q.TxVer != nil, "txver"}, {q.UseAll, "useallinputs"}, {q.Rfc != 0, "rfc6979"}, {q.MinSig != 0, "minsig"}, {q.TxFn != "", "txfn"},
		{!q.applies(), "no-apply"}, {q.FeeMode != 0, "fee"}} {
		if opt.on {
			o.inc("option/" + opt.name)
		}
	}
	o.inc("mode/" + q.Mode)
	if q.SubFee && len(q.Send) == 0 {
		o.inc("batch_f_ignored")
	}

	if len(nf) == 0 {
		nb, _ := os.ReadFile(filepath.Join(dir, "balance", "unspent.txt"))
		switch {
		case expectFail || !expectOK:
			if pr.exit == 0 {
				o.v("insufficient/exit-0", "the request cannot be funded, nothing was written, but the wallet exits with 0 (no error reported)", nil)
			} else if expectFail {
				o.inc("refused_insufficient/" + reason)
			} else {
				o.inc("ambiguous_refused")
			}
			if string(nb) != st.unspTxt {
				o.v("insufficient/balance-changed", "the request was refused but balance/unspent.txt changed", map[string]interface{}{"after": string(nb)})
			}
			if x := newFiles(balBefore, listDir(filepath.Join(dir, "balance"))); len(x) > 0 {
				o.v("insufficient/balance-file-written", "the request was refused but a file appeared in balance/", map[string]interface{}{"files": x})
			}
		case crashed:
			o.v("no-tx/crash/"+fam, "the wallet crashes instead of writing the transaction although the funds suffice: "+firstLine(pr.stderr, "panic:"), nil)
		default:
			o.v(fmt.Sprintf("no-tx/refused-sufficient-funds/exit-%d", pr.exit), "the funds of the wallet cover payments + fee but no transaction was written", nil)
		}
		return o
	}
	if len(nf) > 1 {
		o.v("multiple-files", "more than one new file was written", map[string]interface{}{"files": nf})
		return o
	}
	if q.TxFn != "" && nf[0] != q.TxFn {
		o.v("txfn-ignored", "the transaction was not written to the file named by -txfn", map[string]interface{}{"files": nf})
	}
	tx, rawb, why := readTxFile(filepath.Join(dir, nf[0]))
	if expectFail {
		det := map[string]interface{}{"file": nf[0], "content": hex.EncodeToString(rawb)}
		if tx != nil {
			var outs []string
			for _, t := range tx.Out {
				outs = append(outs, fmt.Sprintf("%d -> %x", t.Value, t.PkScript))
			}
			det["outputs"] = outs
		}
		o.v("wrote-tx-although-unfundable/"+reason, "the request cannot be funded ("+reason+") but a transaction file was written", det)
		return o
	}
	if tx == nil {
		o.v("tx-file-undecodable", "the written file is no transaction: "+why, map[string]interface{}{"file": nf[0], "content": hex.EncodeToString(rawb)})
		return o
	}
	if !expectOK {
		o.inc("ambiguous_written")
	}
	if pr.exit != 0 {
		o.v(fmt.Sprintf("exit-%d-with-tx", pr.exit), "a transaction file was written but the wallet reports failure", nil)
	}
	if q.TxFn == "" && nf[0] != displayHex(tx.Txid())[:8]+".txt" {
		o.inc("txfile_name_not_txid_prefix")
	}
	o.tx, o.txFile = tx, nf[0]
	n0 := len(o.vios)
	judgeSend(o, w, st, q, tx)
	if len(o.vios) == n0 {
		o.newState = judgeBalanceAfter(o, w, dir, st, q, tx, balBefore)
	}
	for i := n0; i < len(o.vios); i++ {
		if o.vios[i].Extra == nil {
			o.vios[i].Extra = map[string]interface{}{}
		}
		o.vios[i].Extra["written_tx"] = hex.EncodeToString(rawb)
		o.vios[i].Extra["written_file"] = nf[0]
	}
	o.inc("tx_written")
	o.sample = map[string]interface{}{"family": fam, "wallet": fmt.Sprintf("type%d/%s/testnet=%v", w.Type, w.AType, w.Testnet), "args": args,
		"unspent": len(st.utxos), "inputs": len(tx.In), "outputs": len(tx.Out), "txid": displayHex(tx.Txid()), "mode": q.Mode}
	return o
}

func firstLine(s, marker string) string {
	i := strings.Index(s, marker)
	if i < 0 {
		return vlib.Tail([]byte(s), 200)
	}
	s = s[i:]
	if j := strings.IndexByte(s, '\n'); j >= 0 {
		s = s[:j]
	}
	return s
}

func stackOf(dump, fn string) string {
	i := strings.Index(dump, fn)
	if i < 0 {
		return vlib.Tail([]byte(dump), 600)
	}
	lo := i - 300
	if lo < 0 {
		lo = 0
	}
	hi := i + 500
	if hi > len(dump) {
		hi = len(dump)
	}
	return dump[lo:hi]
}
