package main

// The oracle: decode what the wallet wrote (reftx) and judge it with refaddr / refsighash / refec.
// Nothing in this file uses gocoin code.

import (
	"bytes"
	"encoding/hex"
	"fmt"
	"math/big"
	"os"
	"path/filepath"
	"sort"
	"strconv"
	"strings"

	"verif/ref/refaddr"
	"verif/ref/refec"
	"verif/ref/refscript"
	"verif/ref/refsighash"
	"verif/ref/reftx"
)

const maxMoney = int64(21000000) * 100000000

type vio struct {
	Class string
	What  string
	Extra map[string]interface{}
}

type outcome struct {
	vios     []vio
	counts   map[string]int64
	distinct []string // txids of fully checked transactions
	sample   map[string]interface{}
	incon    []string
	newState *state    // balance after a successful, applied send (for chained steps)
	tx       *reftx.Tx // the transaction a payment run wrote (decoded)
	txFile   string
}

func (o *outcome) v(class, what string, extra map[string]interface{}) {
	o.vios = append(o.vios, vio{class, what, extra})
}
func (o *outcome) inc(k string) { o.counts[k]++ }

// scriptKind classifies an output script by template (independent of ownership).
func scriptKind(s []byte) string {
	switch {
	case len(s) == 25 && s[0] == 0x76 && s[1] == 0xa9 && s[2] == 0x14 && s[23] == 0x88 && s[24] == 0xac:
		return "p2pkh"
	case len(s) == 23 && s[0] == 0xa9 && s[1] == 0x14 && s[22] == 0x87:
		return "p2sh"
	case len(s) == 22 && s[0] == 0 && s[1] == 20:
		return "p2wpkh"
	case len(s) == 34 && s[0] == 0 && s[1] == 32:
		return "p2wsh"
	case len(s) == 34 && s[0] == 0x51 && s[1] == 32:
		return "p2tr"
	}
	return "other"
}

// parsePushes splits a script that consists of direct pushes (opcode 1..75) only.
func parseDirectPushes(s []byte) ([][]byte, bool) {
	var res [][]byte
	for len(s) > 0 {
		n := int(s[0])
		if n < 1 || n > 75 || len(s) < 1+n {
			return nil, false
		}
		res = append(res, s[1:1+n])
		s = s[1+n:]
	}
	return res, true
}

// checkECDSA judges signature||hashtype and public key against digest(hashType).
// Standardness: strict DER (BIP66), low S, hash type byte SIGHASH_ALL (the wallet is never asked
// for another one). Returns "" when everything holds, else a short reason.
func checkECDSA(sig, pub []byte, digest func(ht uint32) [32]byte, needCompressed bool) string {
	if len(sig) < 9 {
		return "sig-too-short"
	}
	ht := sig[len(sig)-1]
	der := sig[:len(sig)-1]
	if !refec.IsStrictDER(der) {
		return "sig-not-strict-der"
	}
	if ht != 1 {
		return fmt.Sprintf("sighash-type-%02x", ht)
	}
	r, s, st := refec.ParseDER(der, 0)
	if st != refec.DEROK {
		return "sig-der-ambiguous"
	}
	if s.Cmp(refec.HalfN) > 0 {
		return "sig-high-s"
	}
	if needCompressed && !(len(pub) == 33 && (pub[0] == 2 || pub[0] == 3)) {
		return "pubkey-not-compressed"
	}
	d := digest(uint32(ht))
	ok, why := refec.ECDSAVerify(pub, r, s, d[:])
	if !ok {
		return "ecdsa-verify-fails:" + why
	}
	return ""
}

// verifyInput checks that input i of tx carries a valid, standard spend of prev (key-hash / key-path
// templates). spent = the outputs spent by all inputs (needed by BIP341). Returns kind, reason.
func verifyInput(tx *reftx.Tx, i int, spent []reftx.TxOut, minsig bool, cnt map[string]int64) (string, string) {
	kind, why := verifyInputStruct(tx, i, spent, minsig, cnt)
	if why != "" {
		return kind, why
	}
	// full reference script verification with every standardness flag (Core's
	// STANDARD_SCRIPT_VERIFY_FLAGS plus SIGPUSHONLY, which IsStandardTx demands of every scriptSig)
	ok, serr := refscript.Verify(tx.In[i].ScriptSig, spent[i].PkScript, tx.In[i].Witness, tx, i, spent[i].Value, spent, refscript.AllFlags)
	if !ok {
		return kind, "refscript:" + serr.String()
	}
	cnt["refscript_verified"]++
	return kind, ""
}

// verifyInputStruct: exact key-spend structure + encoding rules + signature over the reference digest.
func verifyInputStruct(tx *reftx.Tx, i int, spent []reftx.TxOut, minsig bool, cnt map[string]int64) (string, string) {
	in := &tx.In[i]
	prev := spent[i]
	kind := scriptKind(prev.PkScript)
	noteLen := func(sig []byte) string {
		if !minsig || len(sig) < 9 {
			return ""
		}
		if len(sig) > 71 {
			// what -minsig guarantees in effect: DER signature + hash type byte of at most 71 bytes
			return fmt.Sprintf("minsig-long-signature-%d", len(sig))
		}
		r, s, st := refec.ParseDER(sig[:len(sig)-1], 0)
		if st == refec.DEROK {
			if r.BitLen() > 255 || s.BitLen() > 255 {
				cnt["minsig_r_or_s_33_bytes"]++
			} else {
				cnt["minsig_r_and_s_32_bytes"]++
			}
		}
		return ""
	}
	switch kind {
	case "p2pkh":
		if len(in.Witness) != 0 {
			return kind, "witness-on-legacy-input"
		}
		p, ok := parseDirectPushes(in.ScriptSig)
		if !ok || len(p) != 2 {
			return kind, "scriptsig-not-sig+pubkey"
		}
		if !bytes.Equal(refaddr.Hash160(p[1]), prev.PkScript[3:23]) {
			return kind, "pubkey-hash-mismatch"
		}
		if why := noteLen(p[0]); why != "" {
			return kind, why
		}
		return kind, checkECDSA(p[0], p[1], func(ht uint32) [32]byte {
			return refsighash.Legacy(tx, prev.PkScript, i, ht)
		}, false)
	case "p2sh", "p2wpkh":
		var prog []byte
		if kind == "p2sh" {
			// only P2SH-P2WPKH: scriptSig = one push of 0x00 0x14 <20>
			p, ok := parseDirectPushes(in.ScriptSig)
			if !ok || len(p) != 1 || len(p[0]) != 22 || p[0][0] != 0 || p[0][1] != 20 {
				return kind, "scriptsig-not-p2wpkh-redeem"
			}
			if !bytes.Equal(refaddr.Hash160(p[0]), prev.PkScript[2:22]) {
				return kind, "redeem-hash-mismatch"
			}
			prog = p[0][2:]
		} else {
			if len(in.ScriptSig) != 0 {
				return kind, "scriptsig-not-empty"
			}
			prog = prev.PkScript[2:]
		}
		if len(in.Witness) != 2 {
			return kind, fmt.Sprintf("witness-items-%d", len(in.Witness))
		}
		sig, pub := in.Witness[0], in.Witness[1]
		if !bytes.Equal(refaddr.Hash160(pub), prog) {
			return kind, "pubkey-hash-mismatch"
		}
		if why := noteLen(sig); why != "" {
			return kind, why
		}
		scriptCode := refaddr.P2PKHScript(prog)
		return kind, checkECDSA(sig, pub, func(ht uint32) [32]byte {
			return refsighash.WitnessV0(tx, scriptCode, prev.Value, i, ht)
		}, true)
	case "p2tr":
		if len(in.ScriptSig) != 0 {
			return kind, "scriptsig-not-empty"
		}
		if len(in.Witness) != 1 {
			return kind, fmt.Sprintf("witness-items-%d", len(in.Witness))
		}
		sig := in.Witness[0]
		ht := byte(0)
		switch len(sig) {
		case 64:
		case 65:
			ht = sig[64]
			if ht == 0 || !refsighash.TaprootHashTypeDefined(ht) {
				return kind, "schnorr-bad-hashtype"
			}
			if ht != 1 {
				return kind, fmt.Sprintf("sighash-type-%02x", ht)
			}
		default:
			return kind, fmt.Sprintf("schnorr-sig-length-%d", len(sig))
		}
		d, err := refsighash.Taproot(tx, spent, i, ht, nil, nil)
		if err != nil {
			return kind, "taproot-digest:" + err.Error()
		}
		ok, why := refec.SchnorrVerify(prev.PkScript[2:], d[:], sig[:64])
		if !ok {
			return kind, "schnorr-verify-fails:" + why
		}
		return kind, ""
	}
	return kind, "not-a-key-template"
}

// checkRFC6979: with -rfc6979 (and without minsig) the ECDSA signature of an input must be the
// deterministic one: nonce from RFC 6979 (HMAC-SHA256 over key || digest), low-S normalised. Both
// readings of the message octets (raw digest as libsecp256k1 feeds it, or reduced mod n as
// bits2octets) are accepted; they differ only for digests >= n. "" = holds or not applicable.
func checkRFC6979(tx *reftx.Tx, i int, spent []reftx.TxOut, priv []byte) string {
	in := &tx.In[i]
	prev := spent[i]
	var sig []byte
	var dig [32]byte
	switch scriptKind(prev.PkScript) {
	case "p2pkh":
		p, ok := parseDirectPushes(in.ScriptSig)
		if !ok || len(p) != 2 {
			return ""
		}
		sig = p[0]
		dig = refsighash.Legacy(tx, prev.PkScript, i, 1)
	case "p2sh", "p2wpkh":
		if len(in.Witness) != 2 {
			return ""
		}
		sig = in.Witness[0]
		dig = refsighash.WitnessV0(tx, refaddr.P2PKHScript(refaddr.Hash160(in.Witness[1])), prev.Value, i, 1)
	default:
		return "" // BIP340 signatures use auxiliary randomness; nothing to compare
	}
	if len(sig) < 9 {
		return ""
	}
	r, s, st := refec.ParseDER(sig[:len(sig)-1], 0)
	if st != refec.DEROK {
		return ""
	}
	d := new(big.Int).SetBytes(priv)
	for _, strict := range []bool{false, true} {
		er, es, _ := refec.ECDSASignRFC6979(d, dig[:], strict)
		if er.Cmp(r) == 0 && es.Cmp(s) == 0 {
			return ""
		}
	}
	return "signature-is-not-the-rfc6979-one"
}

func pushData(d []byte) []byte {
	n := len(d)
	switch {
	case n <= 75:
		return append([]byte{byte(n)}, d...)
	case n <= 255:
		return append([]byte{0x4c, byte(n)}, d...)
	default:
		return append([]byte{0x4d, byte(n), byte(n >> 8)}, d...)
	}
}

// readTxFile decodes "hex of a serialised transaction" strictly.
func readTxFile(path string) (*reftx.Tx, []byte, string) {
	b, err := os.ReadFile(path)
	if err != nil {
		return nil, nil, "unreadable: " + err.Error()
	}
	raw, err := hex.DecodeString(strings.TrimSpace(string(b)))
	if err != nil {
		return nil, nil, "not hex"
	}
	tx, n, err := reftx.Decode(raw)
	if err != nil {
		return nil, raw, "does not decode: " + reftx.ReasonOf(err)
	}
	if n != len(raw) {
		return nil, raw, fmt.Sprintf("%d trailing bytes", len(raw)-n)
	}
	return tx, raw, ""
}

type expOut struct {
	script []byte
	value  int64
	role   string
}

// judgeSend checks a written transaction against the request. st = balance before the run.
func judgeSend(o *outcome, w *wcfg, st *state, q *request, tx *reftx.Tx) {
	byOp := map[string]*utxo{}
	for _, u := range st.utxos {
		byOp[u.opKey()] = u
	}
	// (a) inputs
	if len(tx.In) == 0 {
		o.v("tx-invalid/no-inputs", "the written transaction has no inputs", nil)
		return
	}
	spent := make([]reftx.TxOut, len(tx.In))
	sumIn := new(big.Int)
	seen := map[string]bool{}
	okInputs := true
	var inUtxos []*utxo
	for i := range tx.In {
		k := fmt.Sprintf("%x:%d", tx.In[i].PrevHash, tx.In[i].PrevIndex)
		u := byOp[k]
		if u == nil {
			o.v("input-not-listed", "an input spends an outpoint that is not listed in balance/unspent.txt",
				map[string]interface{}{"input": i, "outpoint": displayHex(tx.In[i].PrevHash) + "-" + fmt.Sprint(tx.In[i].PrevIndex)})
			okInputs = false
			continue
		}
		if seen[k] {
			o.v("tx-invalid/duplicate-input", "the same outpoint is spent twice", map[string]interface{}{"input": i})
			okInputs = false
		}
		seen[k] = true
		spent[i] = reftx.TxOut{Value: u.Value, PkScript: u.Script}
		sumIn.Add(sumIn, big.NewInt(u.Value))
		inUtxos = append(inUtxos, u)
		if u.Key < 0 {
			o.v("input-not-owned/"+scriptKind(u.Script), "an input spends a listed output that does not belong to a key of the wallet (it cannot carry a valid signature)",
				map[string]interface{}{"input": i})
			okInputs = false
		}
	}
	if !okInputs {
		return
	}
	o.counts[fmt.Sprintf("inputs/%s", bucket(len(tx.In)))]++
	if q.UseAll {
		for _, u := range st.utxos {
			if u.Key >= 0 && u.Sure && !seen[u.opKey()] {
				o.v("useallinputs-not-all", "-useallinputs was given but a listed output of the wallet is not an input", map[string]interface{}{"missing": u.opKey()})
				break
			}
		}
	}

	// requested fields
	wantSeq := uint32(0xfffffffd) // documented default of -seq is -3
	if q.Seq != nil {
		wantSeq = uint32(*q.Seq)
	}
	for i := range tx.In {
		if tx.In[i].Sequence != wantSeq {
			o.v("field/seq", fmt.Sprintf("input %d has sequence %#x, requested %#x", i, tx.In[i].Sequence, wantSeq), nil)
			break
		}
	}
	wantLT, wantVer := uint32(0), uint32(2)
	if q.LockTime != nil {
		wantLT = *q.LockTime
	}
	if q.TxVer != nil {
		wantVer = *q.TxVer
	}
	if tx.LockTime != wantLT {
		o.v("field/locktime", fmt.Sprintf("lock time %d, requested %d", tx.LockTime, wantLT), nil)
	}
	if tx.Version != wantVer {
		o.v("field/txver", fmt.Sprintf("version %d, requested %d", tx.Version, wantVer), nil)
	}

	// (b)(c) outputs: expected multiset
	var exp []expOut
	sumPay := new(big.Int)
	subEff := q.SubFee && len(q.Send) > 0
	for i, d := range q.pays() {
		a := d.Amount
		if i == 0 && subEff {
			a -= q.Fee // Underflow requests never get here as "expected to succeed"
		}
		exp = append(exp, expOut{d.Script, int64(a), "payment/" + strings.TrimSuffix(d.Kind, "/upper")})
		sumPay.Add(sumPay, new(big.Int).SetUint64(a))
	}
	change := new(big.Int).Sub(sumIn, sumPay)
	change.Sub(change, new(big.Int).SetUint64(q.Fee))
	// default change address: "return it to the 1st input" (help text of -change; get_change_addr
	// takes the first unspent entry the wallet has a key for, which is also the first input)
	changeScript := spent[0].PkScript
	if q.Change != nil {
		changeScript = q.Change.Script
	}
	if change.Sign() > 0 {
		exp = append(exp, expOut{changeScript, change.Int64(), "change"})
	}
	if q.Msg != nil {
		exp = append(exp, expOut{append([]byte{0x6a}, pushData(q.Msg)...), 0, "msg"})
	}
	sumOut := new(big.Int)
	type aout struct {
		reftx.TxOut
		used bool
	}
	act := make([]aout, len(tx.Out))
	for i, t := range tx.Out {
		act[i] = aout{TxOut: t}
		sumOut.Add(sumOut, big.NewInt(t.Value))
		if t.Value < 0 || t.Value > maxMoney {
			o.v("tx-invalid/output-value-out-of-range", fmt.Sprintf("output %d has value %d", i, t.Value), nil)
		}
	}
	if len(tx.Out) == 0 {
		o.v("tx-invalid/no-outputs", "the written transaction has no outputs", nil)
	}
	if change.Sign() < 0 {
		o.v("inputs-do-not-cover", fmt.Sprintf("inputs %s < payments %s + fee %d", sumIn, sumPay, q.Fee), nil)
	}
	var missing []expOut
	for _, e := range exp {
		found := false
		for i := range act {
			if !act[i].used && act[i].Value == e.value && bytes.Equal(act[i].PkScript, e.script) {
				act[i].used = true
				found = true
				break
			}
		}
		if !found {
			missing = append(missing, e)
		}
	}
	var extra []reftx.TxOut
	for _, a := range act {
		if !a.used {
			extra = append(extra, a.TxOut)
		}
	}
	outsOK := len(missing) == 0 && len(extra) == 0
	for _, m := range missing {
		// is there an unmatched output with the same script (wrong amount) or same amount (wrong script)?
		how := "absent"
		det := map[string]interface{}{"expected_script": hex.EncodeToString(m.script), "expected_value": m.value}
		for _, x := range extra {
			if bytes.Equal(x.PkScript, m.script) {
				how = "wrong-amount"
				det["found_value"] = x.Value
				break
			}
			if x.Value == m.value {
				how = "wrong-script"
				det["found_script"] = hex.EncodeToString(x.PkScript)
			}
		}
		switch {
		case m.role == "change":
			o.v("change/"+how, "the change output (inputs - payments - fee to the designated change address) is "+how, det)
		case m.role == "msg":
			lb := "len<=75"
			switch n := len(q.Msg); {
			case n == 76:
				lb = "len76"
			case n > 255:
				lb = "len>=256"
			case n > 76:
				lb = "len77-255"
			}
			o.v("msg-output/"+how+"/"+lb, "the OP_RETURN output carrying the -msg text is "+how, det)
		default:
			o.v(m.role+"/"+how, "a requested destination does not receive exactly the requested amount at the script of its address: "+how, det)
		}
	}
	if len(missing) == 0 && len(extra) > 0 {
		cls := "extra-output"
		if change.Sign() == 0 {
			cls = "extra-output/no-change-expected"
		}
		o.v(cls, fmt.Sprintf("%d output(s) nobody asked for", len(extra)), map[string]interface{}{"first_script": hex.EncodeToString(extra[0].PkScript), "first_value": extra[0].Value})
	}
	feeAct := new(big.Int).Sub(sumIn, sumOut)
	if feeAct.Cmp(new(big.Int).SetUint64(q.Fee)) != 0 && outsOK {
		o.v("fee-mismatch", fmt.Sprintf("inputs - outputs = %s, configured fee %d", feeAct, q.Fee), nil)
	}

	// (d) signatures
	sigOK := true
	for i := range tx.In {
		kind, why := verifyInput(tx, i, spent, q.MinSig != 0, o.counts)
		if why != "" {
			sigOK = false
			o.v("signature/"+kind+"/"+why, fmt.Sprintf("input %d (%s) does not carry a valid standard signature: %s", i, kind, why), map[string]interface{}{"input": i})
		} else {
			o.counts["sig_verified/"+kind]++
			if q.Rfc != 0 && q.MinSig == 0 {
				if priv := w.Privs[inUtxos[i].Key]; priv != nil {
					if why := checkRFC6979(tx, i, spent, priv); why != "" {
						sigOK = false
						o.v("rfc6979/"+kind+"/"+why, fmt.Sprintf("-rfc6979 is on but the signature of input %d (%s) is not the deterministic RFC 6979 signature of that key over that digest", i, kind), map[string]interface{}{"input": i})
					} else if kind != "p2tr" {
						o.inc("rfc6979_signature_recomputed")
					}
				}
			}
		}
	}
	if outsOK && sigOK {
		id := tx.Txid()
		o.distinct = append(o.distinct, displayHex(id))
	}
	for _, d := range q.pays() {
		o.counts["dest/"+strings.TrimSuffix(d.Kind, "/upper")]++
	}
	if change.Sign() > 0 {
		o.inc("with_change")
		if change.Cmp(big.NewInt(546)) < 0 {
			o.inc("with_change_below_546")
		}
	} else if change.Sign() == 0 {
		o.inc("without_change")
	}
}

func bucket(n int) string {
	switch {
	case n == 1:
		return "1"
	case n <= 5:
		return "2-5"
	case n <= 20:
		return "6-20"
	}
	return "21+"
}

// parseUnspent reads balance/unspent.txt the way its format is documented: "<txid>-<vout>[ label]".
func parseUnspent(txt string) (ops []string, bad []string) {
	for _, ln := range strings.Split(txt, "\n") {
		ln = strings.TrimRight(ln, "\r")
		if ln == "" {
			continue
		}
		f := strings.SplitN(ln, " ", 2)[0]
		if len(f) < 66 || f[64] != '-' {
			bad = append(bad, ln)
			continue
		}
		idb, err := hex.DecodeString(f[:64])
		v, err2 := strconv.ParseUint(f[65:], 10, 32)
		if err != nil || err2 != nil {
			bad = append(bad, ln)
			continue
		}
		var id [32]byte
		for i := range id {
			id[i] = idb[31-i]
		}
		ops = append(ops, fmt.Sprintf("%x:%d", id, v))
	}
	return
}

// judgeBalanceAfter checks the balance folder after a successful send and, when it was applied,
// returns the new state.
func judgeBalanceAfter(o *outcome, w *wcfg, dir string, st *state, q *request, tx *reftx.Tx, balBefore map[string]int64) *state {
	nb, _ := os.ReadFile(filepath.Join(dir, "balance", "unspent.txt"))
	balAfter := listDir(filepath.Join(dir, "balance"))
	nf := newFiles(balBefore, balAfter)
	if !q.applies() {
		if string(nb) != st.unspTxt {
			o.v("balance-after/changed-although-not-applied", "apply2bal is off but balance/unspent.txt changed", map[string]interface{}{"after": string(nb)})
		}
		if len(nf) > 0 {
			o.v("balance-after/file-although-not-applied", "apply2bal is off but a file appeared in balance/", map[string]interface{}{"files": nf})
		}
		return nil
	}
	id := tx.Txid()
	fn := filepath.Join(dir, "balance", displayHex(id)+".tx")
	raw, err := os.ReadFile(fn)
	if err != nil {
		o.v("balance-after/tx-file-missing", "the transaction was applied to the balance but balance/<txid>.tx is missing", nil)
		return nil
	}
	t2, n, err := reftx.Decode(raw)
	if err != nil || n != len(raw) || t2.Txid() != id {
		o.v("balance-after/tx-file-wrong", "balance/<txid>.tx does not hold the transaction with that id", map[string]interface{}{"file": hex.EncodeToString(raw)})
		return nil
	}
	ops, bad := parseUnspent(string(nb))
	if len(bad) > 0 {
		o.v("balance-after/unparsable-line", "balance/unspent.txt has a line that is no outpoint", map[string]interface{}{"lines": bad})
		return nil
	}
	spentSet := map[string]bool{}
	for i := range tx.In {
		spentSet[fmt.Sprintf("%x:%d", tx.In[i].PrevHash, tx.In[i].PrevIndex)] = true
	}
	have := map[string]bool{}
	for _, op := range ops {
		if have[op] {
			o.v("balance-after/duplicate-entry", "an outpoint is listed twice in balance/unspent.txt", map[string]interface{}{"outpoint": op})
			return nil
		}
		have[op] = true
	}
	old := map[string]*utxo{}
	for _, u := range st.utxos {
		old[u.opKey()] = u
		k := u.opKey()
		if spentSet[k] && have[k] {
			o.v("balance-after/spent-input-still-listed", "an input of the written transaction is still listed as unspent", map[string]interface{}{"outpoint": k})
			return nil
		}
		if !spentSet[k] && !have[k] {
			o.v("balance-after/unspent-entry-lost", "an unspent output that was not spent disappeared from balance/unspent.txt", map[string]interface{}{"outpoint": k})
			return nil
		}
	}
	ns := &state{txs: map[[32]byte]*reftx.Tx{}, unspTxt: string(nb)}
	for k, v := range st.txs {
		ns.txs[k] = v
	}
	ns.txs[id] = tx
	for _, op := range ops {
		if u := old[op]; u != nil {
			ns.utxos = append(ns.utxos, u)
			continue
		}
		var vout int
		pre := fmt.Sprintf("%x:", id)
		if !strings.HasPrefix(op, pre) {
			o.v("balance-after/unknown-entry", "balance/unspent.txt lists an outpoint that is neither an old entry nor an output of the new transaction", map[string]interface{}{"outpoint": op})
			return nil
		}
		vout, _ = strconv.Atoi(op[len(pre):])
		if vout >= len(tx.Out) {
			o.v("balance-after/unknown-entry", "balance/unspent.txt lists an output index the new transaction does not have", map[string]interface{}{"outpoint": op})
			return nil
		}
		out := tx.Out[vout]
		u := &utxo{Txid: id, Vout: uint32(vout), Value: out.Value, Script: out.PkScript, Key: -1}
		if ow, ok := w.owner(out.PkScript); ok {
			u.Key, u.Form, u.Sure = ow.Key, ow.Form, w.sure(ow.Form)
		} else {
			o.v("balance-after/foreign-output-listed", "an output of the new transaction that pays nobody in the wallet was added to balance/unspent.txt", map[string]interface{}{"outpoint": op})
			return nil
		}
		ns.utxos = append(ns.utxos, u)
	}
	for i, out := range tx.Out {
		if ow, ok := w.owner(out.PkScript); ok && w.sure(ow.Form) && !have[fmt.Sprintf("%x:%d", id, i)] {
			o.v("balance-after/own-output-missing", "an output of the new transaction that pays a key of the wallet (e.g. the change) was not added to balance/unspent.txt", map[string]interface{}{"vout": i})
			return nil
		}
	}
	o.inc("balance_after_checked")
	return ns
}

// judgeRaw compares the signed result with the transaction that was offered.
func judgeRaw(o *outcome, w *wcfg, st *state, q *request, tx *reftx.Tx) {
	in := q.RawTx
	same := true
	if tx.Version != in.Version {
		o.v("raw-altered/version", fmt.Sprintf("version %d became %d", in.Version, tx.Version), nil)
		same = false
	}
	if tx.LockTime != in.LockTime {
		o.v("raw-altered/locktime", fmt.Sprintf("lock time %d became %d", in.LockTime, tx.LockTime), nil)
		same = false
	}
	if len(tx.In) != len(in.In) {
		o.v("raw-altered/input-count", fmt.Sprintf("%d inputs became %d", len(in.In), len(tx.In)), nil)
		return
	}
	for i := range in.In {
		if tx.In[i].PrevHash != in.In[i].PrevHash || tx.In[i].PrevIndex != in.In[i].PrevIndex {
			o.v("raw-altered/outpoint", fmt.Sprintf("outpoint of input %d changed", i), nil)
			same = false
			break
		}
		if tx.In[i].Sequence != in.In[i].Sequence {
			o.v("raw-altered/sequence", fmt.Sprintf("sequence of input %d: %#x became %#x", i, in.In[i].Sequence, tx.In[i].Sequence), nil)
			same = false
			break
		}
	}
	var a, b []byte
	a = reftx.AppendCompactSize(a, uint64(len(in.Out)))
	for i := range in.Out {
		a = reftx.AppendTxOut(a, &in.Out[i])
	}
	b = reftx.AppendCompactSize(b, uint64(len(tx.Out)))
	for i := range tx.Out {
		b = reftx.AppendTxOut(b, &tx.Out[i])
	}
	if !bytes.Equal(a, b) {
		o.v("raw-altered/outputs", "the serialised outputs differ from the offered transaction", map[string]interface{}{"offered": hex.EncodeToString(a), "signed": hex.EncodeToString(b)})
		same = false
	}
	if !same {
		return
	}
	o.inc("raw_fields_identical")
	// signatures of the inputs the wallet has keys for
	spent := make([]reftx.TxOut, len(tx.In))
	for i := range tx.In {
		pt := st.txs[tx.In[i].PrevHash]
		if pt == nil || int(tx.In[i].PrevIndex) >= len(pt.Out) {
			return // cannot happen when a file was written; nothing more to judge
		}
		spent[i] = pt.Out[tx.In[i].PrevIndex]
	}
	allOK := true
	for i := range tx.In {
		ow, ok := w.owner(spent[i].PkScript)
		if !ok || !w.sure(ow.Form) {
			if len(tx.In[i].ScriptSig) == 0 && len(tx.In[i].Witness) == 0 {
				o.inc("raw_foreign_input_left_unsigned")
			} else {
				o.inc("raw_foreign_input_touched/" + scriptKind(spent[i].PkScript) + "/atype-" + w.AType)
			}
			continue
		}
		kind, why := verifyInput(tx, i, spent, q.MinSig != 0, o.counts)
		if why != "" {
			allOK = false
			o.v("raw-signature/"+kind+"/"+why, fmt.Sprintf("input %d (%s, key of the wallet) of the signed raw transaction does not carry a valid standard signature: %s", i, kind, why), map[string]interface{}{"input": i})
		} else {
			o.counts["raw_sig_verified/"+kind]++
			if q.Rfc != 0 && q.MinSig == 0 {
				if priv := w.Privs[ow.Key]; priv != nil {
					if why := checkRFC6979(tx, i, spent, priv); why != "" {
						allOK = false
						o.v("raw-rfc6979/"+kind+"/"+why, fmt.Sprintf("-rfc6979 is on but the signature of input %d (%s) of the signed raw transaction is not the deterministic RFC 6979 signature", i, kind), map[string]interface{}{"input": i})
					} else if kind != "p2tr" {
						o.inc("rfc6979_signature_recomputed")
					}
				}
			}
		}
	}
	if allOK {
		id := tx.Wtxid()
		o.distinct = append(o.distinct, "raw:"+displayHex(id))
	}
}

func sortedKeys(m map[string]int64) []string {
	var k []string
	for s := range m {
		k = append(k, s)
	}
	sort.Strings(k)
	return k
}
