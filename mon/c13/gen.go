package main

// Workload generation: balance folders, payment requests, raw transactions.

import (
	"encoding/hex"
	"fmt"
	"math/big"
	"os"
	"path/filepath"
	"strings"

	"verif/lib/vlib"
	"verif/ref/refaddr"
	"verif/ref/reftx"
)

type utxo struct {
	Txid   [32]byte
	Vout   uint32
	Value  int64
	Script []byte
	Key    int // -1: not a key of the wallet
	Form   int
	Sure   bool
}

func (u *utxo) opKey() string { return fmt.Sprintf("%x:%d", u.Txid, u.Vout) }
func (u *utxo) kind() string {
	if u.Key < 0 {
		return "foreign"
	}
	return formName[u.Form]
}

// state is what the balance folder of a case directory holds.
type state struct {
	utxos   []*utxo // order of balance/unspent.txt
	txs     map[[32]byte]*reftx.Tx
	unspTxt string
}

func displayHex(h [32]byte) string {
	var r [32]byte
	for i := range h {
		r[i] = h[31-i]
	}
	return hex.EncodeToString(r[:])
}

func (s *state) sums() (sure, all *big.Int) {
	sure, all = new(big.Int), new(big.Int)
	for _, u := range s.utxos {
		if u.Key < 0 {
			continue
		}
		all.Add(all, big.NewInt(u.Value))
		if u.Sure {
			sure.Add(sure, big.NewInt(u.Value))
		}
	}
	return
}

func randValue(r *vlib.Rand) int64 {
	switch r.Intn(12) {
	case 0:
		return 1
	case 1:
		return int64(r.Range(2, 1000))
	case 2:
		return 546
	case 3, 4:
		return int64(r.Range(1000, 1000000))
	case 5, 6, 7:
		return int64(r.Range(1000000, 1000000000))
	case 8, 9:
		return int64(r.Range(1000000000, 50000000000))
	case 10:
		return int64(r.Range(1, 21)) * 100000000
	default:
		return int64(r.Range(1, 300000))
	}
}

func foreignScript(r *vlib.Rand) []byte {
	switch r.Intn(6) {
	case 0:
		return refaddr.P2PKHScript(r.Bytes(20))
	case 1:
		return refaddr.P2SHScript(r.Bytes(20))
	case 2:
		return refaddr.WitnessScript(0, r.Bytes(20))
	case 3:
		return refaddr.WitnessScript(0, r.Bytes(32))
	case 4:
		return refaddr.WitnessScript(1, r.Bytes(32))
	default:
		return append([]byte{0x6a, 0x04}, r.Bytes(4)...)
	}
}

// genBalance builds prev-txs paying to wallet keys (and others) and the unspent list.
func genBalance(r *vlib.Rand, w *wcfg) *state {
	st := &state{txs: map[[32]byte]*reftx.Tx{}}
	var n int
	switch x := r.Intn(20); {
	case x < 3:
		n = 1
	case x < 12:
		n = r.Range(2, 5)
	case x < 18:
		n = r.Range(6, 20)
	default:
		n = r.Range(21, 40)
	}
	mainForm := w.formOfAType()
	family := r.Intn(4) // 0,1: mostly the configured form; 2: uniformly mixed; 3: mixed + foreign
	type want struct {
		script []byte
		value  int64
		key    int
		form   int
	}
	var wants []want
	for i := 0; i < n; i++ {
		k := r.Intn(len(w.Pubs))
		form := mainForm
		foreign := false
		switch family {
		case 0:
		case 1:
			if r.Chance(1, 4) {
				form = r.Intn(nForms)
			}
		case 2:
			form = r.Intn(nForms)
		case 3:
			form = r.Intn(nForms)
			foreign = r.Chance(1, 4)
		}
		if foreign {
			wants = append(wants, want{foreignScript(r), randValue(r), -1, 0})
		} else {
			wants = append(wants, want{w.script(k, form), randValue(r), k, form})
		}
	}
	// group the wanted outputs into transactions
	for i := 0; i < len(wants); {
		g := r.Range(1, 3)
		if i+g > len(wants) {
			g = len(wants) - i
		}
		group := wants[i : i+g]
		i += g
		tx := &reftx.Tx{Version: uint32(r.Range(1, 2))}
		if r.Chance(1, 3) {
			tx.LockTime = r.U32() % 800000
		}
		wit := r.Chance(1, 2)
		for k := r.Range(1, 2); k > 0; k-- {
			in := reftx.TxIn{PrevIndex: uint32(r.Intn(4)), Sequence: 0xffffffff - uint32(r.Intn(3))}
			copy(in.PrevHash[:], r.Bytes(32))
			if wit {
				in.Witness = [][]byte{r.Bytes(r.Range(64, 72)), r.Bytes(33)}
			} else {
				in.ScriptSig = append([]byte{72}, r.Bytes(72)...)
			}
			tx.In = append(tx.In, in)
		}
		nout := g + r.Intn(4)
		if r.Chance(1, 25) {
			nout += r.Range(100, 300) // large vout numbers
		}
		pos := r.Perm(nout)[:g]
		outs := make([]reftx.TxOut, nout)
		taken := map[int]int{}
		for gi, p := range pos {
			taken[p] = gi
		}
		for o := range outs {
			if gi, ok := taken[o]; ok {
				outs[o] = reftx.TxOut{Value: group[gi].value, PkScript: group[gi].script}
			} else if r.Chance(1, 5) {
				// an output of a wallet key that is NOT listed as unspent (already spent)
				outs[o] = reftx.TxOut{Value: randValue(r), PkScript: w.script(r.Intn(len(w.Pubs)), r.Intn(nForms))}
			} else {
				outs[o] = reftx.TxOut{Value: randValue(r), PkScript: foreignScript(r)}
			}
		}
		tx.Out = outs
		id := tx.Txid()
		st.txs[id] = tx
		for gi, p := range pos {
			u := &utxo{Txid: id, Vout: uint32(p), Value: group[gi].value, Script: group[gi].script, Key: group[gi].key, Form: group[gi].form}
			if u.Key >= 0 {
				u.Sure = w.sure(u.Form)
			}
			st.utxos = append(st.utxos, u)
		}
	}
	// order of unspent.txt
	perm := r.Perm(len(st.utxos))
	nu := make([]*utxo, len(perm))
	for i, p := range perm {
		nu[i] = st.utxos[p]
	}
	st.utxos = nu
	var b strings.Builder
	for _, u := range st.utxos {
		fmt.Fprintf(&b, "%s-%03d", displayHex(u.Txid), u.Vout)
		if !r.Chance(1, 6) {
			fmt.Fprintf(&b, " # %s BTC @ %s", satStr(uint64(u.Value), 0), addrOfScript(u.Script, w.Testnet))
		}
		b.WriteString("\n")
	}
	st.unspTxt = b.String()
	return st
}

// writeBalance creates balance/ in dir. Prev-tx files are raw binary; witness serialisation is
// used for some (the wallet hashes the stripped form, as the node's export may contain either).
func writeBalance(dir string, st *state, r *vlib.Rand) error {
	bd := filepath.Join(dir, "balance")
	if err := os.MkdirAll(bd, 0o755); err != nil {
		return err
	}
	for id, tx := range st.txs {
		raw := tx.Serialize(tx.HasWitness() && r.Chance(1, 2))
		if err := os.WriteFile(filepath.Join(bd, displayHex(id)+".tx"), raw, 0o600); err != nil {
			return err
		}
	}
	return os.WriteFile(filepath.Join(bd, "unspent.txt"), []byte(st.unspTxt), 0o600)
}

// satStr renders satoshis as a BTC amount string the wallet documents ("1", "0.5", "0.00000001").
func satStr(v uint64, style int) string {
	s := fmt.Sprintf("%d.%08d", v/100000000, v%100000000)
	if style == 1 {
		s = strings.TrimRight(s, "0")
		s = strings.TrimSuffix(s, ".")
	}
	return s
}

type dest struct {
	Addr   string
	Script []byte
	Amount uint64 // requested
	AmtStr string
	Kind   string
	Huge   bool // AmtStr denotes more than 2^64 satoshis (or close): can never be funded
}

func genDest(r *vlib.Rand, w *wcfg) dest {
	var d dest
	hrp := "bc"
	vp, vs := byte(0), byte(5)
	if w.Testnet {
		hrp, vp, vs = "tb", 111, 196
	}
	switch r.Intn(9) {
	case 0, 1:
		d.Kind = "p2pkh"
		h := r.Bytes(20)
		d.Script = refaddr.P2PKHScript(h)
		d.Addr = refaddr.Base58CheckEncode(append([]byte{vp}, h...))
	case 2:
		d.Kind = "p2sh"
		h := r.Bytes(20)
		d.Script = refaddr.P2SHScript(h)
		d.Addr = refaddr.Base58CheckEncode(append([]byte{vs}, h...))
	case 3:
		d.Kind = "v0-20"
		p := r.Bytes(20)
		d.Script = refaddr.WitnessScript(0, p)
		d.Addr, _ = refaddr.SegwitEncode(hrp, 0, p)
	case 4:
		d.Kind = "v0-32"
		p := r.Bytes(32)
		d.Script = refaddr.WitnessScript(0, p)
		d.Addr, _ = refaddr.SegwitEncode(hrp, 0, p)
	case 5, 6:
		d.Kind = "v1-32"
		p := r.Bytes(32)
		d.Script = refaddr.WitnessScript(1, p)
		d.Addr, _ = refaddr.SegwitEncode(hrp, 1, p)
	case 7:
		ver := r.Range(1, 16)
		l := r.Range(2, 40)
		if ver == 1 && l == 32 {
			l = 33
		}
		d.Kind = "v1+other"
		p := r.Bytes(l)
		d.Script = refaddr.WitnessScript(ver, p)
		d.Addr, _ = refaddr.SegwitEncode(hrp, ver, p)
	default:
		d.Kind = "own"
		k := r.Intn(len(w.Pubs))
		f := r.Intn(nForms)
		d.Script = w.script(k, f)
		d.Addr = addrOfScript(d.Script, w.Testnet)
	}
	if r.Chance(1, 10) && strings.HasPrefix(d.Addr, hrp+"1") {
		d.Addr = strings.ToUpper(d.Addr) // BIP173: all-uppercase is valid
		d.Kind += "/upper"
	}
	return d
}

type request struct {
	Raw       bool
	Send      []dest
	Batch     []dest
	SubFee    bool
	Change    *dest
	Msg       []byte
	Seq       *int64
	LockTime  *uint32
	TxVer     *uint32
	UseAll    bool
	Rfc       int // 0 off, 1 flag, 2 cfg
	MinSig    int // 0 off, 1 flag, 2 cfg
	Fee       uint64
	FeeMode   int // 0 default (0.001), 1 cfg, 2 flag
	FeeStr    string
	TxFn      string
	Apply     int // 0 default(true), 1 -a=false, 2 cfg apply2bal=false, 3 -a=true
	Prompt    int // 0 off; 1 -prompt answered y; 2 -prompt answered n; 3 cfg prompt=true answered n; 4 cfg prompt=true answered y
	Mode      string
	Need      *big.Int // total the inputs must cover (payments + fee)
	Underflow bool     // -f with first amount < fee
	Huge      bool
	BatchTxt  string

	// raw
	RawTx      *reftx.Tx
	RawMissing bool // some prev-tx is absent from balance/
	RawBadVout bool
	RawAsArg   bool
	RawBinary  bool
}

func (q *request) applies() bool { return q.Apply == 0 || q.Apply == 3 }

// declined: the user answers "n" at the confirmation prompt
func (q *request) declined() bool { return q.Prompt == 2 || q.Prompt == 3 }

func (q *request) pays() []dest {
	return append(append([]dest{}, q.Send...), q.Batch...)
}

var msgLens = []int{1, 5, 20, 40, 74, 75, 76, 77, 80, 83, 254, 255, 256, 257, 300, 520}

func genRequest(r *vlib.Rand, w *wcfg, st *state) *request {
	q := &request{}
	// fee
	switch r.Intn(10) {
	case 0, 1, 2, 3:
		q.Fee = 100000
	case 4:
		q.Fee, q.FeeMode = 0, 1+r.Intn(2)
	case 5:
		q.Fee, q.FeeMode = 1, 1+r.Intn(2)
	case 6, 7:
		q.Fee, q.FeeMode = uint64(r.Range(1, 2000000)), 1+r.Intn(2)
	default:
		q.Fee, q.FeeMode = []uint64{1000, 10000, 100000, 1000000}[r.Intn(4)], 1+r.Intn(2)
	}
	q.FeeStr = satStr(q.Fee, r.Intn(2))
	if r.Chance(1, 4) {
		q.Rfc = 1 + r.Intn(2)
	}
	if r.Chance(1, 5) {
		q.MinSig = 1 + r.Intn(2)
	}
	// both together are a configuration error the wallet must refuse (fix 17dacc0c); about 5 % of the requests
	if r.Chance(1, 4) {
		q.UseAll = true
	}
	if r.Chance(3, 10) {
		vals := []int64{-1, -2, -3, 0, 1, 0xfffffffd, 0xfffffffe, 0xffffffff, 0x80000000, 0x7fffffff, int64(r.U32())}
		v := vals[r.Intn(len(vals))]
		q.Seq = &v
	}
	if r.Chance(1, 4) {
		vals := []uint32{0, 1, 499999999, 500000000, 0xffffffff, r.U32(), uint32(r.Intn(900000))}
		v := vals[r.Intn(len(vals))]
		q.LockTime = &v
	}
	if r.Chance(1, 4) {
		vals := []uint32{0, 1, 2, 3, 0x7fffffff, 0xffffffff, r.U32()}
		v := vals[r.Intn(len(vals))]
		q.TxVer = &v
	}
	if r.Chance(1, 5) {
		n := msgLens[r.Intn(len(msgLens))]
		m := make([]byte, n)
		bin := r.Chance(1, 4)
		for i := range m {
			if bin {
				m[i] = byte(1 + r.Intn(255))
			} else {
				m[i] = byte(32 + r.Intn(95))
			}
		}
		q.Msg = m
	}
	if r.Chance(1, 4) {
		d := genDest(r, w)
		q.Change = &d
	}
	if r.Chance(3, 10) {
		q.TxFn = []string{"signed.txt", "out.tx", "tx_file", "a.b.c"}[r.Intn(4)]
	}
	if r.Chance(3, 10) {
		q.Apply = 1 + r.Intn(3)
	}
	if r.Chance(1, 8) {
		q.Prompt = 1 + r.Intn(4) // confirmation before the file is written: accepted or declined
	}

	// destinations
	var k int
	switch x := r.Intn(10); {
	case x < 5:
		k = 1
	case x < 9:
		k = r.Range(2, 5)
	default:
		k = r.Range(6, 20)
	}
	sure, all := st.sums()
	fee := new(big.Int).SetUint64(q.Fee)
	useBatch := 0 // 0 send, 1 batch, 2 both
	switch x := r.Intn(10); {
	case x < 6:
	case x < 9:
		useBatch = 1
	default:
		useBatch = 2
		if k < 2 {
			k = 2
		}
	}
	q.SubFee = r.Chance(1, 4)
	subFeeEffective := q.SubFee && useBatch != 1

	// target N = total the inputs must cover
	N := new(big.Int)
	one := big.NewInt(1)
	modes := []string{"small", "small", "exact", "minus1", "plus1", "fraction", "fraction", "over", "prefix", "all-exact", "between"}
	q.Mode = modes[r.Intn(len(modes))]
	switch q.Mode {
	case "exact":
		N.Set(sure)
	case "minus1":
		N.Sub(sure, one)
	case "plus1":
		N.Add(sure, one)
	case "fraction":
		if sure.Sign() > 0 {
			N.SetUint64(r.U64() % sure.Uint64())
			N.Add(N, one)
		}
	case "over":
		N.Add(all, big.NewInt(1+int64(r.Intn(1000000))))
	case "prefix":
		acc := new(big.Int)
		var sums []*big.Int
		for _, u := range st.utxos {
			if u.Key >= 0 && u.Sure {
				acc = new(big.Int).Add(acc, big.NewInt(u.Value))
				sums = append(sums, acc)
			}
		}
		if len(sums) > 0 {
			N.Add(sums[r.Intn(len(sums))], big.NewInt(int64(r.Intn(3)-1)))
		}
	case "all-exact":
		N.Set(all)
	case "between":
		d := new(big.Int).Sub(all, sure)
		if d.Sign() > 0 {
			N.SetUint64(r.U64() % d.Uint64())
			N.Add(N, sure).Add(N, one)
		} else {
			N.Set(sure)
		}
	}
	// R = sum of requested amounts
	R := new(big.Int)
	if q.Mode == "small" || N.Sign() <= 0 {
		q.Mode = "small"
		R.SetInt64(0)
	} else if subFeeEffective {
		R.Set(N)
	} else {
		R.Sub(N, fee)
	}
	var parts []uint64
	if R.Cmp(big.NewInt(int64(k))) < 0 || !R.IsUint64() {
		// small amounts (also the fallback when the target cannot be split)
		q.Mode = "small"
		for i := 0; i < k; i++ {
			parts = append(parts, uint64(randValue(r)%200000)+1)
		}
		if r.Chance(1, 4) {
			parts[r.Intn(k)] = 1
		}
	} else {
		rem := R.Uint64() - uint64(k)
		parts = make([]uint64, k)
		for i := 0; i < k-1; i++ {
			var x uint64
			if rem > 0 {
				x = r.U64() % (rem + 1)
				if r.Chance(1, 3) {
					x /= uint64(r.Range(2, 1000))
				}
			}
			parts[i] = 1 + x
			rem -= x
		}
		parts[k-1] = 1 + rem
		// shuffle so that the large remainder is not always last
		for i := k - 1; i > 0; i-- {
			j := r.Intn(i + 1)
			parts[i], parts[j] = parts[j], parts[i]
		}
	}
	if subFeeEffective && parts[0] < q.Fee {
		wantUnder := r.Chance(1, 12)
		if !wantUnder {
			// move the largest part first; if still too small, drop -f
			mi := 0
			for i := range parts {
				if parts[i] > parts[mi] {
					mi = i
				}
			}
			parts[0], parts[mi] = parts[mi], parts[0]
			if parts[0] < q.Fee {
				q.SubFee, subFeeEffective = false, false
			}
		}
	}
	dests := make([]dest, k)
	for i := range dests {
		dests[i] = genDest(r, w)
		dests[i].Amount = parts[i]
		dests[i].AmtStr = satStr(parts[i], r.Intn(2))
	}
	// rarely: amounts that overflow the wallet's 64-bit arithmetic (can never be funded)
	if r.Chance(1, 40) {
		q.Huge = true
		q.Mode = "huge"
		i := r.Intn(k)
		switch r.Intn(4) {
		case 3:
			// two amounts of 2^63 satoshis: each representable, the sum wraps to 0
			dests[i].AmtStr = "92233720368.54775808"
			if k >= 2 {
				j := (i + 1) % k
				dests[j].AmtStr = "92233720368.54775808"
				dests[j].Huge = true
			}
		case 0:
			dests[i].AmtStr = "184467440737.09551616" // 2^64 satoshis
		case 1:
			dests[i].AmtStr = "184467440738" // > 2^64 satoshis
		default:
			dests[i].AmtStr = "184467440737.0955" + fmt.Sprintf("%04d", r.Range(1617, 9999))
		}
		dests[i].Huge = true
	}
	switch useBatch {
	case 0:
		q.Send = dests
	case 1:
		q.Batch = dests
	default:
		c := r.Range(1, k-1)
		q.Send, q.Batch = dests[:c], dests[c:]
	}
	if len(q.Batch) > 0 {
		var b strings.Builder
		for i, d := range q.Batch {
			if i > 0 && r.Chance(1, 8) {
				b.WriteString("#comment=ignored\n")
			}
			fmt.Fprintf(&b, "%s=%s\n", d.Addr, d.AmtStr)
		}
		q.BatchTxt = b.String()
		// how text files end in practice: with a line feed, without one, with CR LF (a blank line is a format error for the
		// wallet - "Error in the batch file line n", nothing written - and is not offered)
		switch r.Intn(4) {
		case 0:
			q.BatchTxt = strings.TrimSuffix(q.BatchTxt, "\n")
		case 1:
			q.BatchTxt = strings.ReplaceAll(q.BatchTxt, "\n", "\r\n")
		}
	}
	// what must be covered
	need := new(big.Int).Set(fee)
	for i, d := range q.pays() {
		a := new(big.Int).SetUint64(d.Amount)
		if i == 0 && subFeeEffective {
			if d.Amount < q.Fee {
				q.Underflow = true
			}
			a.Sub(a, fee)
		}
		need.Add(need, a)
	}
	q.Need = need
	return q
}

// args builds the command line and the extra wallet.cfg lines of a request.
func (q *request) args() (args []string, cfg string) {
	var c strings.Builder
	if q.Raw {
		if q.RawAsArg {
			args = append(args, "-raw", hex.EncodeToString(q.RawTx.Serialize(false)))
		} else {
			args = append(args, "-raw", "tx2sign.txt")
		}
	}
	if len(q.Send) > 0 {
		var parts []string
		for _, d := range q.Send {
			parts = append(parts, d.Addr+"="+d.AmtStr)
		}
		args = append(args, "-send", strings.Join(parts, ","))
	}
	if len(q.Batch) > 0 {
		args = append(args, "-batch=pay.txt")
	}
	if q.SubFee {
		args = append(args, "-f")
	}
	switch q.FeeMode {
	case 1:
		c.WriteString("fee=" + q.FeeStr + "\n")
	case 2:
		args = append(args, "-fee", q.FeeStr)
	}
	if q.Change != nil {
		args = append(args, "-change", q.Change.Addr)
	}
	if q.Msg != nil {
		args = append(args, "-msg="+string(q.Msg))
	}
	if q.Seq != nil {
		args = append(args, fmt.Sprintf("-seq=%d", *q.Seq))
	}
	if q.LockTime != nil {
		args = append(args, "-locktime", fmt.Sprint(*q.LockTime))
	}
	if q.TxVer != nil {
		args = append(args, "-txver", fmt.Sprint(*q.TxVer))
	}
	if q.UseAll {
		args = append(args, "-useallinputs")
	}
	switch q.Rfc {
	case 1:
		args = append(args, "-rfc6979")
	case 2:
		c.WriteString("rfc6979=true\n")
	}
	switch q.MinSig {
	case 1:
		args = append(args, "-minsig")
	case 2:
		c.WriteString("minsig=true\n")
	}
	if q.TxFn != "" {
		args = append(args, "-txfn", q.TxFn)
	}
	switch q.Prompt {
	case 1, 2:
		args = append(args, "-prompt")
	case 3, 4:
		c.WriteString("prompt=true\n")
	}
	switch q.Apply {
	case 1:
		args = append(args, "-a=false")
	case 2:
		c.WriteString("apply2bal=false\n")
	case 3:
		args = append(args, "-a=true")
	}
	return args, c.String()
}

// genRaw builds an unsigned transaction spending listed, unlisted and (rarely) unknown outputs.
func genRaw(r *vlib.Rand, w *wcfg, st *state) *request {
	q := &request{Raw: true, Mode: "raw"}
	tx := &reftx.Tx{Version: []uint32{1, 2, 2, 3, r.U32()}[r.Intn(5)]}
	if r.Chance(1, 2) {
		tx.LockTime = []uint32{1, 499999999, 500000000, 0xffffffff, r.U32()}[r.Intn(5)]
	}
	type cand struct {
		id   [32]byte
		vout uint32
	}
	var listed, unlisted []cand
	seen := map[string]bool{}
	for _, u := range st.utxos {
		listed = append(listed, cand{u.Txid, u.Vout})
		seen[u.opKey()] = true
	}
	for id, t := range st.txs {
		for o := range t.Out {
			if !seen[fmt.Sprintf("%x:%d", id, o)] && o < 12 {
				unlisted = append(unlisted, cand{id, uint32(o)})
			}
		}
	}
	// deterministic order for the unlisted ones (map iteration)
	sortCands := func(c []cand) {
		for i := 1; i < len(c); i++ {
			for j := i; j > 0; j-- {
				a, b := c[j-1], c[j]
				if string(a.id[:]) > string(b.id[:]) || (a.id == b.id && a.vout > b.vout) {
					c[j-1], c[j] = c[j], c[j-1]
				} else {
					break
				}
			}
		}
	}
	sortCands(unlisted)
	nin := r.Range(1, 6)
	used := map[string]bool{}
	for i := 0; i < nin; i++ {
		var c cand
		x := r.Intn(20)
		switch {
		case x == 0 && r.Chance(1, 2):
			copy(c.id[:], r.Bytes(32))
			c.vout = uint32(r.Intn(3))
			q.RawMissing = true
		case (x < 6 || len(listed) == 0) && len(unlisted) > 0:
			c = unlisted[r.Intn(len(unlisted))]
		case len(listed) > 0:
			c = listed[r.Intn(len(listed))]
		default:
			copy(c.id[:], r.Bytes(32))
			q.RawMissing = true
		}
		k := fmt.Sprintf("%x:%d", c.id, c.vout)
		if used[k] {
			continue
		}
		used[k] = true
		in := reftx.TxIn{PrevHash: c.id, PrevIndex: c.vout}
		in.Sequence = []uint32{0xffffffff, 0xfffffffe, 0xfffffffd, 0, 1, r.U32()}[r.Intn(6)]
		tx.In = append(tx.In, in)
	}
	for k := r.Range(1, 5); k > 0; k-- {
		var scr []byte
		if r.Chance(1, 6) {
			scr = r.Bytes(r.Intn(60))
		} else if r.Chance(1, 4) {
			scr = w.script(r.Intn(len(w.Pubs)), r.Intn(nForms))
		} else {
			scr = foreignScript(r)
		}
		tx.Out = append(tx.Out, reftx.TxOut{Value: randValue(r), PkScript: scr})
	}
	q.RawTx = tx
	q.RawAsArg = r.Chance(1, 8)
	q.RawBinary = !q.RawAsArg && r.Chance(1, 8)
	// options that must have no influence on a raw transaction
	if r.Chance(1, 4) {
		v := int64(r.Intn(5)) - 2
		q.Seq = &v
	}
	if r.Chance(1, 5) {
		v := r.U32()
		q.LockTime = &v
	}
	if r.Chance(1, 5) {
		v := uint32(r.Range(0, 4))
		q.TxVer = &v
	}
	if r.Chance(1, 4) {
		q.Rfc = 1 + r.Intn(2)
	}
	if r.Chance(1, 6) && (q.Rfc == 0 || r.Chance(1, 3)) {
		q.MinSig = 1 + r.Intn(2)
	}
	if r.Chance(3, 10) {
		q.TxFn = []string{"signed.txt", "out.tx"}[r.Intn(2)]
	}
	return q
}
