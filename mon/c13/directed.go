package main

// Directed family: DER boundary shapes of ECDSA signatures.
//
// With -rfc6979 the signature of an input is a function of key and digest, and the monitor knows
// the keys (`wallet -dump *`). For a fully determined request (all inputs used, one payment, change
// to the first input) the transaction the wallet will build is predictable up to the free
// parameter -locktime n. The monitor sweeps n, predicts every input's RFC 6979 signature with
// refsighash + refec and picks the n where the signature of a P2PKH (Tx.Sign), P2WPKH or
// P2SH-P2WPKH (Tx.SignWitness) input has a boundary shape: top byte of R 0x80 / 0x7f / 0x81 /
// 0xff / 0x00 (31-byte R), top byte of S 0x7f / 0x00 / 0x01 (S is low). The real wallet is then
// run with that n and judged as every other run (strict DER, low S, ECDSA verification, equality
// with the RFC 6979 prediction).

import (
	"bytes"
	"fmt"
	"math/big"
	"os"
	"path/filepath"
	"sort"
	"strings"

	"verif/lib/vlib"
	"verif/ref/refaddr"
	"verif/ref/refec"
	"verif/ref/refsighash"
	"verif/ref/reftx"
)

var dirKinds = []int{fP2PKH, fP2SH, fP2WPKH}

func shapeOf(r, s *big.Int) []string {
	var res []string
	rb, sb := refec.Bytes32(r), refec.Bytes32(s)
	switch rb[0] {
	case 0x80, 0x7f, 0x81, 0xff, 0x00:
		res = append(res, fmt.Sprintf("R-top-%02x", rb[0]))
	}
	switch sb[0] {
	case 0x7f, 0x00, 0x01:
		res = append(res, fmt.Sprintf("S-top-%02x", sb[0]))
	}
	return res
}

// skeleton = the transaction without scriptSigs and witnesses (what the prediction must get right).
func skeleton(tx *reftx.Tx) []byte {
	c := tx.Clone()
	for i := range c.In {
		c.In[i].ScriptSig = nil
		c.In[i].Witness = nil
	}
	return c.Serialize(false)
}

type dirTarget struct {
	n     uint32
	label []string // kind/shape entries predicted for this n
}

// directedPlan builds the balance, the request template and the list of lock times to run.
func directedPlan(r *vlib.Rand, w *wcfg, maxRuns int) (*state, dest, []dirTarget, int) {
	st := &state{txs: map[[32]byte]*reftx.Tx{}}
	// one prev-tx per input kind, order of unspent.txt shuffled
	order := r.Perm(len(dirKinds))
	var b strings.Builder
	for _, oi := range order {
		form := dirKinds[oi]
		k := r.Intn(len(w.Pubs))
		tx := &reftx.Tx{Version: 2}
		in := reftx.TxIn{PrevIndex: uint32(r.Intn(3)), Sequence: 0xffffffff, ScriptSig: append([]byte{72}, r.Bytes(72)...)}
		copy(in.PrevHash[:], r.Bytes(32))
		tx.In = []reftx.TxIn{in}
		val := int64(r.Range(2000000, 900000000))
		vout := r.Intn(3)
		for o := 0; o <= vout; o++ {
			if o == vout {
				tx.Out = append(tx.Out, reftx.TxOut{Value: val, PkScript: w.script(k, form)})
			} else {
				tx.Out = append(tx.Out, reftx.TxOut{Value: randValue(r), PkScript: foreignScript(r)})
			}
		}
		id := tx.Txid()
		st.txs[id] = tx
		st.utxos = append(st.utxos, &utxo{Txid: id, Vout: uint32(vout), Value: val, Script: w.script(k, form), Key: k, Form: form, Sure: true})
		fmt.Fprintf(&b, "%s-%03d # %s BTC @ %s\n", displayHex(id), vout, satStr(uint64(val), 0), addrOfScript(w.script(k, form), w.Testnet))
	}
	st.unspTxt = b.String()
	d := genDest(r, w)
	d.Amount = uint64(r.Range(1000, 1500000))
	d.AmtStr = satStr(d.Amount, 0)

	// predicted transaction for lock time n
	const fee = 100000
	var sumIn int64
	spent := make([]reftx.TxOut, len(st.utxos))
	for i, u := range st.utxos {
		sumIn += u.Value
		spent[i] = reftx.TxOut{Value: u.Value, PkScript: u.Script}
	}
	predict := func(n uint32) *reftx.Tx {
		tx := &reftx.Tx{Version: 2, LockTime: n}
		for _, u := range st.utxos {
			tx.In = append(tx.In, reftx.TxIn{PrevHash: u.Txid, PrevIndex: u.Vout, Sequence: 0xfffffffd})
		}
		tx.Out = []reftx.TxOut{{Value: int64(d.Amount), PkScript: d.Script},
			{Value: sumIn - int64(d.Amount) - fee, PkScript: st.utxos[0].Script}}
		return tx
	}
	shapesAt := func(n uint32) []string {
		tx := predict(n)
		var res []string
		for i, u := range st.utxos {
			var dig [32]byte
			if u.Form == fP2PKH {
				dig = refsighash.Legacy(tx, u.Script, i, 1)
			} else {
				dig = refsighash.WitnessV0(tx, refaddr.P2PKHScript(refaddr.Hash160(w.Pubs[u.Key])), u.Value, i, 1)
			}
			rr, ss, _ := refec.ECDSASignRFC6979(new(big.Int).SetBytes(w.Privs[u.Key]), dig[:], false)
			for _, sh := range shapeOf(rr, ss) {
				res = append(res, formName[u.Form]+"/"+sh)
			}
		}
		return res
	}
	base := uint32(r.Intn(400000000))
	found := map[string]uint32{} // kind/shape -> first n (in sweep order)
	const round = 14 * 24
	swept := 0
	need := func() bool { // the critical shape for every kind
		for _, f := range dirKinds {
			if _, ok := found[formName[f]+"/R-top-80"]; !ok {
				return true
			}
		}
		return false
	}
	for swept < 12000 && (need() || swept < 2*round) {
		res := make([][]string, round)
		vlib.Parallel(round, 14, func(i int) { res[i] = shapesAt(base + uint32(swept+i)) })
		for i := 0; i < round; i++ {
			for _, l := range res[i] {
				if _, ok := found[l]; !ok {
					found[l] = base + uint32(swept+i)
				}
			}
		}
		swept += round
	}
	// runs: R-top-80 of every kind first, then the other shapes
	byN := map[uint32][]string{}
	var labels []string
	for l := range found {
		labels = append(labels, l)
	}
	sort.Slice(labels, func(a, b int) bool {
		ca, cb := strings.HasSuffix(labels[a], "R-top-80"), strings.HasSuffix(labels[b], "R-top-80")
		if ca != cb {
			return ca
		}
		return labels[a] < labels[b]
	})
	var targets []dirTarget
	for _, l := range labels {
		n := found[l]
		if _, ok := byN[n]; !ok {
			if len(targets) >= maxRuns {
				continue
			}
			targets = append(targets, dirTarget{n: n})
		}
		byN[n] = append(byN[n], l)
	}
	for i := range targets {
		targets[i].label = byN[targets[i].n]
	}
	return st, d, targets, swept
}

// runDirected executes the directed family for one wallet. Returns outcomes like runCase.
func runDirected(bin, dir string, w *wcfg, r *vlib.Rand, maxRuns int) []*outcome {
	o0 := &outcome{counts: map[string]int64{}}
	for _, p := range w.Privs {
		if p == nil {
			o0.incon = append(o0.incon, "directed family skipped: the private keys of the wallet could not be learned")
			return []*outcome{o0}
		}
	}
	st, d, targets, swept := directedPlan(r, w, maxRuns)
	o0.counts["directed/locktimes_swept"] = int64(swept)
	res := []*outcome{o0}
	if err := os.MkdirAll(dir, 0o755); err != nil {
		o0.incon = append(o0.incon, "mkdir: "+err.Error())
		return res
	}
	if err := writeBalance(dir, st, r.Fork("wb")); err != nil {
		o0.incon = append(o0.incon, "write balance: "+err.Error())
		return res
	}
	os.WriteFile(filepath.Join(dir, ".secret"), []byte(w.Pass), 0o600)
	for ti, t := range targets {
		n := t.n
		q := &request{Send: []dest{d}, UseAll: true, Rfc: 1 + ti%2, LockTime: &n, Fee: 100000, Mode: "directed", Apply: 1,
			Need: new(big.Int).SetUint64(d.Amount + 100000)}
		o := runStep(bin, dir, w, st, q, 0)
		o.inc("directed/runs")
		if o.tx != nil {
			// did the wallet build the predicted transaction, and do the shapes show up?
			pred := &reftx.Tx{Version: 2, LockTime: n}
			for _, u := range st.utxos {
				pred.In = append(pred.In, reftx.TxIn{PrevHash: u.Txid, PrevIndex: u.Vout, Sequence: 0xfffffffd})
			}
			var sumIn int64
			for _, u := range st.utxos {
				sumIn += u.Value
			}
			pred.Out = []reftx.TxOut{{Value: int64(d.Amount), PkScript: d.Script}, {Value: sumIn - int64(d.Amount) - 100000, PkScript: st.utxos[0].Script}}
			if bytes.Equal(skeleton(pred), skeleton(o.tx)) {
				for _, l := range t.label {
					o.inc("directed/shape/" + l)
				}
				o.distinct = append(o.distinct, fmt.Sprintf("directed:%s:%d", displayHex(o.tx.Txid()), n))
			} else {
				o.inc("directed/prediction_missed")
				o.incon = append(o.incon, fmt.Sprintf("directed family: the wallet built another transaction than predicted for -locktime %d (shapes %v not exercised)", n, t.label))
			}
		}
		// the file of this run must not be taken for a new file of the next one
		if q.TxFn == "" && o.txFile != "" {
			os.Remove(filepath.Join(dir, o.txFile))
		}
		res = append(res, o)
	}
	return res
}
