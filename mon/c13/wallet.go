package main

// Running the real wallet binary: wallet configurations, directories, process control.

import (
	"bytes"
	"encoding/hex"
	"fmt"
	"math/big"
	"os"
	"os/exec"
	"path/filepath"
	"sort"
	"strings"
	"syscall"
	"time"

	"verif/lib/vlib"
	"verif/ref/refaddr"
	"verif/ref/refec"
)

func repoDir() string {
	if r := os.Getenv("VERIF_REPO"); r != "" {
		return r
	}
	return "/repo"
}

func cleanEnv() []string {
	var env []string
	for _, e := range os.Environ() {
		if strings.HasPrefix(e, "GOCOIN_") || strings.HasPrefix(e, "GOFLAGS=") || strings.HasPrefix(e, "GOPROXY=") ||
			strings.HasPrefix(e, "GOSUMDB=") || strings.HasPrefix(e, "GOTOOLCHAIN=") {
			continue
		}
		env = append(env, e)
	}
	return env
}

// address forms of one key
const (
	fP2PKH = iota
	fP2SH  // P2SH-P2WPKH
	fP2WPKH
	fP2TR
	nForms
)

var formName = []string{"p2pkh", "p2sh-p2wpkh", "p2wpkh", "p2tr"}
var atypes = []string{"p2kh", "segwit", "bech32", "tap"}

// wcfg is one wallet (key-determining options). Fee, minsig, rfc6979 etc. vary per case.
type wcfg struct {
	ID      int
	Type    int
	AType   string
	Testnet bool
	KeyCnt  int
	Pass    string
	HDPath  string
	HDSubs  int
	Bip39   int

	Pubs   [][]byte // learned from `wallet -l -atype=pks`
	Privs  [][]byte // learned from `wallet -dump *` (only used to recompute RFC6979 signatures); nil entries = unknown
	Addrs  []string // learned from `wallet -l` (configured atype)
	owners map[string]ownerRef
}

type ownerRef struct {
	Key, Form int
}

func (w *wcfg) formOfAType() int {
	for i, a := range atypes {
		if a == w.AType {
			return i
		}
	}
	return 0
}

// sure: the wallet in this mode is designed to recognise and spend this form of its own keys
// (pkscr_to_key + the `segwit` table: P2SH-P2WPKH only when atype is p2kh or segwit).
func (w *wcfg) sure(form int) bool {
	if form == fP2SH {
		return w.AType == "p2kh" || w.AType == "segwit"
	}
	return true
}

func scriptOf(pub []byte, form int) []byte {
	h := refaddr.Hash160(pub)
	switch form {
	case fP2PKH:
		return refaddr.P2PKHScript(h)
	case fP2SH:
		redeem := append([]byte{0x00, 0x14}, h...)
		return refaddr.P2SHScript(refaddr.Hash160(redeem))
	case fP2WPKH:
		return refaddr.WitnessScript(0, h)
	case fP2TR:
		return refaddr.WitnessScript(1, pub[1:33])
	}
	return nil
}

func (w *wcfg) script(key, form int) []byte { return scriptOf(w.Pubs[key], form) }

func (w *wcfg) owner(scr []byte) (ownerRef, bool) {
	o, ok := w.owners[string(scr)]
	return o, ok
}

func addrOfScript(scr []byte, testnet bool) string {
	d := refaddr.DestFromScript(scr, testnet)
	if d == nil {
		return ""
	}
	return d.String()
}

func (w *wcfg) keyLines() string {
	var b strings.Builder
	fmt.Fprintf(&b, "type=%d\nkeycnt=%d\n", w.Type, w.KeyCnt)
	if w.Type == 4 {
		fmt.Fprintf(&b, "hdpath=%s\n", w.HDPath)
		if w.HDSubs != 1 {
			fmt.Fprintf(&b, "hdsubs=%d\n", w.HDSubs)
		}
		if w.Bip39 != 0 {
			fmt.Fprintf(&b, "bip39=%d\n", w.Bip39)
		}
	}
	if w.AType != "p2kh" || w.ID%2 == 0 {
		fmt.Fprintf(&b, "atype=%s\n", w.AType)
	}
	if w.Testnet {
		b.WriteString("testnet=true\n")
	}
	return b.String()
}

func (w *wcfg) describe() map[string]interface{} {
	return map[string]interface{}{"type": w.Type, "atype": w.AType, "testnet": w.Testnet, "keycnt": w.KeyCnt,
		"hdpath": w.HDPath, "hdsubs": w.HDSubs, "bip39": w.Bip39, "secret": w.Pass}
}

func genWcfg(r *vlib.Rand, id int) *wcfg {
	w := &wcfg{ID: id, HDSubs: 1}
	// cover the 2 x 4 x 2 grid systematically, then random
	w.Type = 3 + id%2
	w.AType = atypes[(id/2)%4]
	w.Testnet = (id/8)%2 == 0
	if id >= 16 {
		w.Testnet = r.Chance(2, 3)
	}
	w.KeyCnt = r.Range(1, 6)
	const chars = "abcdefghijklmnopqrstuvwxyzABCDEFGHIJKLMNOPQRSTUVWXYZ0123456789 !#$%&()*+,-./:;<=>?@[]^_{|}~"
	n := r.Range(6, 30)
	pb := make([]byte, n)
	for i := range pb {
		pb[i] = chars[r.Intn(len(chars))]
	}
	pb[0] = 'p' // no leading blank
	pb[n-1] = 'w'
	w.Pass = string(pb)
	if w.Type == 4 {
		paths := []string{"m/0'", "m/44'/0'/0'/0", "m/84'/1'/0'/0", "m/0/5", "m/86'/0'/0'/1/3", "m/49'/0'/2'"}
		w.HDPath = paths[r.Intn(len(paths))]
		if strings.Count(w.HDPath, "/") >= 2 && r.Chance(1, 3) {
			w.HDSubs = 2
		}
		switch r.Intn(4) {
		case 0:
			w.Bip39 = 12
		case 1:
			w.Bip39 = 24
		}
	}
	return w
}

type procResult struct {
	stdout, stderr string
	exit           int
	timedOut       bool
	quitStack      string // goroutine dump obtained with SIGQUIT when the watchdog fired
	wall           time.Duration
	cpu            time.Duration // user+system time of the process
}

// runWallet runs the wallet in dir. On watchdog expiry the process gets SIGQUIT first (Go prints
// the goroutine stacks), then SIGKILL.
func runWallet(bin, dir string, args []string, watchdog time.Duration) procResult {
	return runWalletIn(bin, dir, args, watchdog, nil)
}

// runWalletIn: stdin holds what the user types (answers to -prompt)
func runWalletIn(bin, dir string, args []string, watchdog time.Duration, stdin []byte) procResult {
	cmd := exec.Command(bin, args...)
	cmd.Dir = dir
	cmd.Env = append(cleanEnv(), "GOTRACEBACK=all")
	var so, se bytes.Buffer
	cmd.Stdout, cmd.Stderr = &so, &se
	cmd.Stdin = bytes.NewReader(stdin)
	t0 := time.Now()
	if err := cmd.Start(); err != nil {
		return procResult{exit: -2, stderr: "exec error: " + err.Error()}
	}
	done := make(chan error, 1)
	go func() { done <- cmd.Wait() }()
	var err error
	timedOut := false
	select {
	case err = <-done:
	case <-time.After(watchdog):
		timedOut = true
		cmd.Process.Signal(syscall.SIGQUIT)
		select {
		case err = <-done:
		case <-time.After(30 * time.Second):
			cmd.Process.Kill()
			err = <-done
		}
	}
	r := procResult{stdout: so.String(), stderr: se.String(), timedOut: timedOut, wall: time.Since(t0)}
	if timedOut {
		r.quitStack = r.stderr
	}
	if cmd.ProcessState != nil {
		r.cpu = cmd.ProcessState.UserTime() + cmd.ProcessState.SystemTime()
	}
	if err != nil {
		if ee, ok := err.(*exec.ExitError); ok {
			r.exit = ee.ExitCode()
		} else {
			r.exit = -2
		}
	}
	return r
}

// listDir returns "name" -> size for regular files directly inside dir.
func listDir(dir string) map[string]int64 {
	res := map[string]int64{}
	ents, _ := os.ReadDir(dir)
	for _, e := range ents {
		if e.IsDir() {
			continue
		}
		if fi, err := e.Info(); err == nil {
			res[e.Name()] = fi.Size()
		}
	}
	return res
}

func newFiles(before, after map[string]int64) []string {
	var res []string
	for k := range after {
		if _, ok := before[k]; !ok {
			res = append(res, k)
		}
	}
	sort.Strings(res)
	return res
}

// learn runs the listing commands and fills Pubs / Addrs / owners.
func (w *wcfg) learn(bin, dir string) error {
	if err := os.MkdirAll(dir, 0o755); err != nil {
		return err
	}
	if err := os.WriteFile(filepath.Join(dir, "wallet.cfg"), []byte("# generated by /verif/mon/c13\n"+w.keyLines()), 0o600); err != nil {
		return err
	}
	if err := os.WriteFile(filepath.Join(dir, ".secret"), []byte(w.Pass), 0o600); err != nil {
		return err
	}
	rows := func(args ...string) ([]string, error) {
		pr := runWallet(bin, dir, args, 5*time.Minute)
		if pr.timedOut || pr.exit != 0 {
			return nil, fmt.Errorf("wallet %v: exit %d timeout %v: %s", args, pr.exit, pr.timedOut, vlib.Tail([]byte(pr.stderr), 400))
		}
		b, err := os.ReadFile(filepath.Join(dir, "wallet.txt"))
		if err != nil {
			return nil, err
		}
		var res []string
		for _, ln := range strings.Split(string(b), "\n") {
			ln = strings.TrimSpace(ln)
			if ln == "" || strings.HasPrefix(ln, "#") {
				continue
			}
			res = append(res, strings.SplitN(ln, " ", 2)[0])
		}
		return res, nil
	}
	pks, err := rows("-l", "-atype=pks")
	if err != nil {
		return err
	}
	adrs, err := rows("-l")
	if err != nil {
		return err
	}
	want := w.KeyCnt * w.HDSubs
	if len(pks) != want || len(adrs) != want {
		return fmt.Errorf("wallet lists %d public keys and %d addresses, %d expected", len(pks), len(adrs), want)
	}
	w.owners = map[string]ownerRef{}
	for i, p := range pks {
		pb, err := hex.DecodeString(p)
		if err != nil || len(pb) != 33 || (pb[0] != 2 && pb[0] != 3) {
			return fmt.Errorf("listed public key %q is not a compressed key", p)
		}
		w.Pubs = append(w.Pubs, pb)
		for f := 0; f < nForms; f++ {
			w.owners[string(scriptOf(pb, f))] = ownerRef{i, f}
		}
		// the address the wallet lists for this key must be the one the model derives
		if a := addrOfScript(scriptOf(pb, w.formOfAType()), w.Testnet); a != adrs[i] {
			return fmt.Errorf("listed address %s of key %d differs from the model's %s (subject of C14/C15)", adrs[i], i, a)
		}
	}
	w.Addrs = adrs
	// private keys (for the -rfc6979 determinism check only)
	w.Privs = make([][]byte, len(w.Pubs))
	pr := runWallet(bin, dir, []string{"-dump", "*"}, 5*time.Minute)
	if !pr.timedOut && pr.exit == 0 {
		for _, ln := range strings.Split(pr.stdout, "\n") {
			f := strings.Fields(ln)
			if len(f) < 2 {
				continue
			}
			_, key, compr, why := refaddr.WIFDecode(f[0])
			if why != "" || !compr {
				continue
			}
			pub := refec.ScalarBaseMult(new(big.Int).SetBytes(key)).SerializeCompressed()
			for i := range w.Pubs {
				if bytes.Equal(pub, w.Pubs[i]) {
					w.Privs[i] = key
				}
			}
		}
	}
	return nil
}
