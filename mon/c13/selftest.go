package main

// Self-test of the oracle: a transaction signed by the reference signers (refec) for each of the
// four owned output forms must be accepted by verifyInput, and small corruptions (wrong amount in
// the BIP143 digest, other sequence, high S, other key) must be rejected. Failure = BROKEN.

import (
	"fmt"
	"math/big"

	"verif/lib/vlib"
	"verif/ref/refaddr"
	"verif/ref/refec"
	"verif/ref/refsighash"
	"verif/ref/reftx"
)

func selfTest() error {
	r := vlib.NewRand(20250925)
	for round := 0; round < 6; round++ {
		sk := r.Bytes(32)
		sk[0] &= 0x7f
		d := new(big.Int).SetBytes(sk)
		pub := refec.ScalarBaseMult(d).SerializeCompressed()
		tx := &reftx.Tx{Version: 2, LockTime: r.U32()}
		spent := make([]reftx.TxOut, nForms)
		for f := 0; f < nForms; f++ {
			in := reftx.TxIn{PrevIndex: uint32(f), Sequence: 0xfffffffd}
			copy(in.PrevHash[:], r.Bytes(32))
			tx.In = append(tx.In, in)
			spent[f] = reftx.TxOut{Value: int64(1000 + r.Intn(100000000)), PkScript: scriptOf(pub, f)}
		}
		tx.Out = []reftx.TxOut{{Value: 999, PkScript: refaddr.P2PKHScript(r.Bytes(20))}, {Value: 5, PkScript: refaddr.WitnessScript(1, r.Bytes(32))}}
		h := refaddr.Hash160(pub)
		sign := func(dig [32]byte) []byte {
			rr, ss, _ := refec.ECDSASignRFC6979(d, dig[:], false)
			return append(refec.EncodeDER(rr, ss), 1)
		}
		// P2PKH
		sig := sign(refsighash.Legacy(tx, spent[fP2PKH].PkScript, fP2PKH, 1))
		tx.In[fP2PKH].ScriptSig = append(append(pushData(sig), 33), pub...)
		// P2SH-P2WPKH, P2WPKH
		for _, f := range []int{fP2SH, fP2WPKH} {
			sig := sign(refsighash.WitnessV0(tx, refaddr.P2PKHScript(h), spent[f].Value, f, 1))
			tx.In[f].Witness = [][]byte{sig, pub}
		}
		tx.In[fP2SH].ScriptSig = append([]byte{22, 0, 20}, h...)
		// P2TR (untweaked key as the wallet uses it)
		dg, err := refsighash.Taproot(tx, spent, fP2TR, 0, nil, nil)
		if err != nil {
			return err
		}
		ssig, err := refec.SchnorrSign(refec.Bytes32(d), dg[:], r.Bytes(32))
		if err != nil {
			return err
		}
		tx.In[fP2TR].Witness = [][]byte{ssig}
		cnt := map[string]int64{}
		for f := 0; f < nForms; f++ {
			if _, why := verifyInput(tx, f, spent, false, cnt); why != "" {
				return fmt.Errorf("valid %s spend rejected: %s", formName[f], why)
			}
		}
		// round trip through the codec
		t2, n, err := reftx.Decode(tx.Serialize(true))
		if err != nil || n != len(tx.Serialize(true)) {
			return fmt.Errorf("codec round trip failed")
		}
		for f := 0; f < nForms; f++ {
			if _, why := verifyInput(t2, f, spent, false, cnt); why != "" {
				return fmt.Errorf("valid %s spend rejected after round trip: %s", formName[f], why)
			}
		}
		// corruptions
		bad := append([]reftx.TxOut{}, spent...)
		bad[fP2WPKH].Value++
		if _, why := verifyInput(tx, fP2WPKH, bad, false, cnt); why == "" {
			return fmt.Errorf("p2wpkh spend accepted with a wrong amount")
		}
		if _, why := verifyInput(tx, fP2TR, bad, false, cnt); why == "" {
			return fmt.Errorf("p2tr spend accepted with a wrong amount of another input")
		}
		t3 := tx.Clone()
		t3.In[0].Sequence ^= 1
		for f := 0; f < nForms; f++ {
			if _, why := verifyInput(t3, f, spent, false, cnt); why == "" {
				return fmt.Errorf("%s spend accepted after a sequence change", formName[f])
			}
		}
		t4 := tx.Clone()
		t4.Out[0].Value++
		for f := 0; f < nForms; f++ {
			if _, why := verifyInput(t4, f, spent, false, cnt); why == "" {
				return fmt.Errorf("%s spend accepted after an output change", formName[f])
			}
		}
		// high S
		dig := refsighash.Legacy(tx, spent[fP2PKH].PkScript, fP2PKH, 1)
		rr, ss, _ := refec.ECDSASignRFC6979(d, dig[:], false)
		hs := append(refec.EncodeDER(rr, new(big.Int).Sub(refec.N, ss)), 1)
		t5 := tx.Clone()
		t5.In[fP2PKH].ScriptSig = append(append(pushData(hs), 33), pub...)
		if _, why := verifyInput(t5, fP2PKH, spent, false, cnt); why != "sig-high-s" {
			return fmt.Errorf("high-S signature not flagged (%q)", why)
		}
	}
	return nil
}
