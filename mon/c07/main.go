// C07 — restart after a crash at any point recovers a consistent chain state (see mon/crashmon).
package main

import "verif/mon/crashmon"

func main() { crashmon.Main() }
